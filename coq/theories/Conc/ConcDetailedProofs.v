(** C10 — the detailed system (ConcDetailed.v) refines the L1 system (ConcRowSync.v):
    a forward simulation with stuttering.  Every step of a worker inside waitFor or
    signal, and every waitFor step of the recorder, leaves the abstraction unchanged;
    the macroblock body maps to L1's macroblock step (its guard holds because the
    preceding waitFor returned only with done >= needed); claim / exit / record map to
    the L1 steps of the same name.  Hence every reachable detailed state abstracts to
    a reachable L1 state, and the L1 theorems transfer. *)
From Coq Require Import List Arith Lia Bool.
From Webp Require Import Conc.ConcRowSync Conc.ConcRowSyncProofs Conc.ConcDetailed.
Import ListNotations.

Section Proofs.
  Variable V : Type.
  Variable v0 : V.
  Variable f : nat -> nat -> V -> V -> V -> V -> V.
  Variables mbW mbH : nat.
  Hypothesis HmbW : 1 <= mbW.

  Notation dstate := (dstate V).
  Notation dstep := (dstep V v0 f mbW mbH).
  Notation dstep_worker := (dstep_worker V v0 f mbW mbH).
  Notation dstep_rec := (dstep_rec V v0 mbW mbH).
  Notation drun := (drun V v0 f mbW mbH).
  Notation dinit := (dinit V v0).
  Notation abs := (abs V mbW).
  Notation abs_w := (abs_w V mbW).
  Notation step1 := (step V v0 f mbW mbH).
  Notation run1 := (run V v0 f mbW mbH).
  Notation init1 := (init V v0).
  Notation needed := (needed mbW).

  (** ** list helpers *)
  Lemma set_nth_length {A} (l : list A) i v : length (set_nth l i v) = length l.
  Proof. revert i; induction l as [|h tl IH]; intros [|i]; cbn; auto. Qed.
  Lemma set_nth_eq {A} (l : list A) i v : i < length l -> nth_error (set_nth l i v) i = Some v.
  Proof. revert i; induction l as [|h tl IH]; intros [|i] Hi; cbn in *; try lia; auto. apply IH; lia. Qed.
  Lemma set_nth_neq {A} (l : list A) i j v : i <> j -> nth_error (set_nth l i v) j = nth_error l j.
  Proof. revert i j; induction l as [|h tl IH]; intros [|i] [|j] Hij; cbn; auto; try lia. Qed.
  Lemma nth_error_lt {A} (l : list A) i a : nth_error l i = Some a -> i < length l.
  Proof. intros H. apply nth_error_Some. congruence. Qed.
  Lemma map_set_nth {A B} (g : A -> B) (l : list A) i v : map g (set_nth l i v) = set_nth (map g l) i (g v).
  Proof. revert i; induction l as [|h tl IH]; intros [|i]; cbn; auto. now rewrite IH. Qed.
  Lemma set_nth_same {A} (l : list A) i a : nth_error l i = Some a -> set_nth l i a = l.
  Proof. revert i; induction l as [|h tl IH]; intros [|i] H; cbn in *; try discriminate.
    - inversion H; reflexivity. - now rewrite IH. Qed.
  Lemma upd1_eq {A} (g : nat -> A) k v : upd1 g k v k = v.
  Proof. unfold upd1. now rewrite Nat.eqb_refl. Qed.
  Lemma upd1_neq {A} (g : nat -> A) k v i : i <> k -> upd1 g k v i = g i.
  Proof. unfold upd1. intros H. apply Nat.eqb_neq in H. now rewrite H. Qed.

  Lemma abs_wake row w : abs_w (wake_w V row w) = abs_w w.
  Proof. destruct w as [| |y x tl l ph|y x tl l|y x tl l t0 tr0|y x tl l ph]; cbn; try reflexivity.
    destruct ph; cbn; try reflexivity. destruct (y =? S row); reflexivity. Qed.

  Lemma map_abs_wake row ws : map abs_w (map (wake_w V row) ws) = map abs_w ws.
  Proof. rewrite map_map. apply map_ext. intros w. apply abs_wake. Qed.

  Lemma abs_start_mb y x tl l : abs_w (start_mb V y x tl l) = AtMB y x tl l.
  Proof. unfold start_mb. destruct (y =? 0); reflexivity. Qed.

  Lemma abs_sig_exit y x tl l ph : abs_w (sig_exit V mbW y x tl l) = abs_w (DSig y x tl l ph).
  Proof. unfold sig_exit. cbn [ConcDetailed.abs_w]. destruct (S x <? mbW); [apply abs_start_mb|reflexivity]. Qed.

  Lemma map_repeat_ {A B} (g : A -> B) a k : map g (repeat a k) = repeat (g a) k.
  Proof. induction k as [|k IH]; cbn; [reflexivity|now rewrite IH]. Qed.

  (** ** the row a worker is on, and what it knows *)
  Definition row_of (w : dw V) : option nat :=
    match w with
    | DWait y _ _ _ _ | DCompute y _ _ _ | DHold y _ _ _ _ _ | DSig y _ _ _ _ => Some y
    | _ => None
    end.

  Definition passed (ph : wph) : bool := match ph with PUnlock | PDec => true | _ => false end.

  Definition worker_ok (s : dstate) (w : dw V) : Prop :=
    match w with
    | DWait y x _ _ ph => 0 < y /\ (passed ph = true -> needed x <= d_done V s (y - 1))
    | DCompute y x _ _ => y = 0 \/ needed x <= d_done V s (y - 1)
    | DHold y x _ _ t tr => (y = 0 \/ needed x <= d_done V s (y - 1)) /\
                            t = snd (d_top V s x) /\ tr = (if S x <? mbW then snd (d_top V s (S x)) else v0)
    | DSig y x _ _ _ => d_adone V s y = S x
    | _ => True
    end.

  Definition rec_ok (s : dstate) : Prop :=
    match d_rec V s with
    | RWait ph => passed ph = true -> mbW <= d_done V s (d_recRow V s)
    | RReady => mbW <= d_done V s (d_recRow V s)
    end.

  Record DInv (n : nat) (s : dstate) : Prop := {
    p_proj : exists sched, run1 (init1 n) sched = Some (abs s);
    p_done_le : forall y, d_done V s y <= d_adone V s y;
    p_ok : forall i w, nth_error (d_workers V s) i = Some w -> worker_ok s w;
    p_rows_lt : forall i w y, nth_error (d_workers V s) i = Some w -> row_of w = Some y -> y < d_next V s;
    p_unique : forall i j wi wj y, nth_error (d_workers V s) i = Some wi -> nth_error (d_workers V s) j = Some wj ->
                 row_of wi = Some y -> row_of wj = Some y -> i = j;
    p_rec : rec_ok s }.

  Lemma abs_inv n s : DInv n s -> Inv V v0 f mbW mbH n (abs s).
  Proof. intros HI. destruct (p_proj n s HI) as (sched & Hr). exact (rowsync_inv V v0 f mbW mbH HmbW n sched _ Hr). Qed.

  Lemma run1_snoc s sched l s' : run1 s sched = Some s' -> forall s'', step1 s' l = Some s'' ->
    run1 s (sched ++ [l]) = Some s''.
  Proof.
    revert s. induction sched as [|l0 rest IH]; intros s H s'' Hs; cbn [ConcRowSync.run app] in *.
    - inversion H; subst. rewrite Hs. reflexivity.
    - destruct (step1 s l0) as [s1|]; [|discriminate]. exact (IH s1 H s'' Hs).
  Qed.

  Lemma dinit_inv n : DInv n (dinit n).
  Proof.
    constructor.
    - exists []. cbn. unfold ConcDetailed.abs, ConcDetailed.dinit, ConcRowSync.init. cbn.
      rewrite map_repeat_. reflexivity.
    - intros y. cbn. lia.
    - intros i w H. cbn in H. apply nth_error_In, repeat_spec in H. subst. exact I.
    - intros i w y H Hr. cbn in H. apply nth_error_In, repeat_spec in H. subst. discriminate.
    - intros i j wi wj y H _ Hr. cbn in H. apply nth_error_In, repeat_spec in H. subst. discriminate.
    - cbn. discriminate.
  Qed.

  (** facts about done that survive any step: done only grows *)
  Definition done_grows (s s' : dstate) : Prop := forall y, d_done V s y <= d_done V s' y.

  Lemma worker_ok_mono s s' w : done_grows s s' ->
    (forall y x tl l ph, w = DSig y x tl l ph -> d_adone V s' y = d_adone V s y) ->
    (forall y x tl l t tr, w = DHold y x tl l t tr ->
        snd (d_top V s' x) = snd (d_top V s x) /\ snd (d_top V s' (S x)) = snd (d_top V s (S x))) ->
    worker_ok s w -> worker_ok s' w.
  Proof.
    intros Hg Ha Ht Hok. destruct w as [| |y x tl l ph|y x tl l|y x tl l t0 tr0|y x tl l ph]; cbn in *; auto.
    - destruct Hok as [H0 H1]. split; [exact H0|]. intros Hp. specialize (H1 Hp). specialize (Hg (y - 1)). lia.
    - destruct Hok as [H0|H1]; [now left|right]. specialize (Hg (y - 1)). lia.
    - destruct Hok as (H0 & H1 & H2). destruct (Ht y x tl l t0 tr0 eq_refl) as [E1 E2]. rewrite E1, E2.
      split; [|split; assumption]. destruct H0 as [H0|H0]; [now left|right]. specialize (Hg (y - 1)). lia.
    - rewrite (Ha y x tl l ph eq_refl). exact Hok.
  Qed.

  Lemma rec_ok_mono s s' : done_grows s s' -> d_rec V s' = d_rec V s -> d_recRow V s' = d_recRow V s ->
    rec_ok s -> rec_ok s'.
  Proof.
    intros Hg Hr Hrr Hok. unfold rec_ok in *. rewrite Hr, Hrr. specialize (Hg (d_recRow V s)).
    destruct (d_rec V s); [intros Hp; specialize (Hok Hp)|]; lia.
  Qed.

  (** a step by worker [i] that keeps its row and leaves adone, done, next, rec alone *)
  Lemma frame_inv n s i w w' nw' mu' :
    DInv n s -> nth_error (d_workers V s) i = Some w ->
    abs_w w' = abs_w w -> (forall y, row_of w' = Some y -> row_of w = Some y) ->
    worker_ok s w' ->
    DInv n (mkD V (d_next V s) (setw V s i w') (d_rec V s) (d_recRow V s) (d_done V s) (d_adone V s)
                nw' mu' (d_top V s) (d_out V s) (d_tokens V s)).
  Proof.
    intros HI Hw Habs Hrow Hok. pose proof (nth_error_lt _ _ _ Hw) as Hil.
    set (s' := mkD V (d_next V s) (setw V s i w') (d_rec V s) (d_recRow V s) (d_done V s) (d_adone V s)
                nw' mu' (d_top V s) (d_out V s) (d_tokens V s)).
    assert (Hsame : abs s' = abs s).
    { unfold ConcDetailed.abs, s', setw. cbn. rewrite map_set_nth, Habs.
      rewrite (set_nth_same (map abs_w (d_workers V s)) i (abs_w w)); [reflexivity|].
      rewrite nth_error_map, Hw. reflexivity. }
    assert (Hg : done_grows s s') by (intros y; cbn; lia).
    constructor.
    - rewrite Hsame. apply (p_proj n s HI).
    - apply (p_done_le n s HI).
    - intros j wj Hj. cbn in Hj. unfold setw in Hj. destruct (Nat.eq_dec i j) as [<-|Hne].
      + rewrite set_nth_eq in Hj by exact Hil. inversion Hj; subst wj.
        apply (worker_ok_mono s s'); auto.
      + rewrite set_nth_neq in Hj by exact Hne. apply (worker_ok_mono s s'); auto.
        apply (p_ok n s HI j wj Hj).
    - intros j wj y Hj Hr. cbn in Hj. unfold setw in Hj. cbn [d_next]. destruct (Nat.eq_dec i j) as [<-|Hne].
      + rewrite set_nth_eq in Hj by exact Hil. inversion Hj; subst wj. apply Hrow in Hr.
        exact (p_rows_lt n s HI i w y Hw Hr).
      + rewrite set_nth_neq in Hj by exact Hne. exact (p_rows_lt n s HI j wj y Hj Hr).
    - intros j k wj wk y Hj Hk Hrj Hrk. cbn in Hj, Hk. unfold setw in Hj, Hk.
      assert (Hget : forall m wm, nth_error (set_nth (d_workers V s) i w') m = Some wm -> row_of wm = Some y ->
                 exists wm0, nth_error (d_workers V s) m = Some wm0 /\ row_of wm0 = Some y).
      { intros m wm Hm Hrm. destruct (Nat.eq_dec i m) as [<-|Hne].
        - rewrite set_nth_eq in Hm by exact Hil. inversion Hm; subst wm. exists w. split; [exact Hw|apply Hrow; exact Hrm].
        - rewrite set_nth_neq in Hm by exact Hne. exists wm. auto. }
      destruct (Hget j wj Hj Hrj) as (wj0 & Hj0 & Hrj0). destruct (Hget k wk Hk Hrk) as (wk0 & Hk0 & Hrk0).
      exact (p_unique n s HI j k wj0 wk0 y Hj0 Hk0 Hrj0 Hrk0).
    - apply (rec_ok_mono s s'); auto. apply (p_rec n s HI).
  Qed.

  Lemma sig_exit_ok s y x tl l : worker_ok s (sig_exit V mbW y x tl l).
  Proof.
    unfold sig_exit, start_mb. destruct (S x <? mbW); [|exact I].
    destruct (y =? 0) eqn:E; cbn.
    - left. now apply Nat.eqb_eq in E.
    - apply Nat.eqb_neq in E. split; [lia|discriminate].
  Qed.

  Lemma sig_exit_row y x tl l y0 : row_of (sig_exit V mbW y x tl l) = Some y0 -> y0 = y.
  Proof.
    unfold sig_exit, start_mb. destruct (S x <? mbW); [|discriminate].
    destruct (y =? 0); cbn; intros H; inversion H; reflexivity.
  Qed.

  Lemma wake_ok s row w : worker_ok s w -> worker_ok s (wake_w V row w).
  Proof.
    destruct w as [| |y x tl l ph|y x tl l|y x tl l t0 tr0|y x tl l ph]; cbn; auto.
    destruct ph; cbn; auto. destruct (y =? S row); cbn; auto; try (intros [H0 _]; split; [exact H0|discriminate]).
  Qed.

  Lemma wake_row row w : row_of (wake_w V row w) = row_of w.
  Proof.
    destruct w as [| |y x tl l ph|y x tl l|y x tl l t0 tr0|y x tl l ph]; cbn; auto.
    destruct ph; cbn; auto. destruct (y =? S row); reflexivity.
  Qed.

  (** the Broadcast step: every sleeper of the row becomes runnable; the signaller leaves signal *)
  Lemma bcast_inv n s i y x tl l :
    DInv n s -> nth_error (d_workers V s) i = Some (DSig y x tl l QBcast) ->
    DInv n (mkD V (d_next V s) (set_nth (map (wake_w V y) (d_workers V s)) i (sig_exit V mbW y x tl l))
                (wake_r y (d_recRow V s) (d_rec V s)) (d_recRow V s)
                (d_done V s) (d_adone V s) (d_nwait V s) (d_mu V s) (d_top V s) (d_out V s) (d_tokens V s)).
  Proof.
    intros HI Hw. pose proof (nth_error_lt _ _ _ Hw) as Hil.
    assert (Hil' : i < length (map (wake_w V y) (d_workers V s))) by (rewrite map_length; exact Hil).
    set (s' := mkD V (d_next V s) (set_nth (map (wake_w V y) (d_workers V s)) i (sig_exit V mbW y x tl l))
                (wake_r y (d_recRow V s) (d_rec V s)) (d_recRow V s)
                (d_done V s) (d_adone V s) (d_nwait V s) (d_mu V s) (d_top V s) (d_out V s) (d_tokens V s)).
    assert (Hsame : abs s' = abs s).
    { unfold ConcDetailed.abs, s'. cbn. rewrite map_set_nth, map_abs_wake, (abs_sig_exit y x tl l QBcast).
      rewrite (set_nth_same (map abs_w (d_workers V s)) i); [reflexivity|].
      rewrite nth_error_map, Hw. reflexivity. }
    assert (Hold : forall m wm, nth_error (d_workers V s') m = Some wm -> m <> i ->
               exists wm0, nth_error (d_workers V s) m = Some wm0 /\ wm = wake_w V y wm0).
    { intros m wm Hm Hne. cbn in Hm. rewrite set_nth_neq in Hm by congruence.
      rewrite nth_error_map in Hm. destruct (nth_error (d_workers V s) m) as [wm0|]; cbn in Hm; [|discriminate].
      inversion Hm. exists wm0. auto. }
    assert (Hmine : forall wm, nth_error (d_workers V s') i = Some wm -> wm = sig_exit V mbW y x tl l).
    { intros wm Hm. cbn in Hm. rewrite set_nth_eq in Hm by exact Hil'. inversion Hm; reflexivity. }
    constructor.
    - rewrite Hsame. apply (p_proj n s HI).
    - apply (p_done_le n s HI).
    - intros j wj Hj. destruct (Nat.eq_dec j i) as [->|Hne].
      + rewrite (Hmine wj Hj). apply sig_exit_ok.
      + destruct (Hold j wj Hj Hne) as (w0 & H0 & ->). apply wake_ok.
        pose proof (p_ok n s HI j w0 H0) as Hk. destruct w0; cbn in *; auto.
    - intros j wj y0 Hj Hr. cbn [d_next s']. destruct (Nat.eq_dec j i) as [->|Hne].
      + rewrite (Hmine wj Hj) in Hr. apply sig_exit_row in Hr. subst y0. exact (p_rows_lt n s HI i _ y Hw eq_refl).
      + destruct (Hold j wj Hj Hne) as (w0 & H0 & ->). rewrite wake_row in Hr. exact (p_rows_lt n s HI j w0 y0 H0 Hr).
    - intros j k wj wk y0 Hj Hk Hrj Hrk.
      assert (Hget : forall m wm, nth_error (d_workers V s') m = Some wm -> row_of wm = Some y0 ->
                 exists wm0, nth_error (d_workers V s) m = Some wm0 /\ row_of wm0 = Some y0).
      { intros m wm Hm Hrm. destruct (Nat.eq_dec m i) as [->|Hne].
        - rewrite (Hmine wm Hm) in Hrm. apply sig_exit_row in Hrm. subst y0. exists (DSig y x tl l QBcast). auto.
        - destruct (Hold m wm Hm Hne) as (w0 & H0 & ->). rewrite wake_row in Hrm. exists w0. auto. }
      destruct (Hget j wj Hj Hrj) as (wj0 & Hj0 & Hrj0). destruct (Hget k wk Hk Hrk) as (wk0 & Hk0 & Hrk0).
      exact (p_unique n s HI j k wj0 wk0 y0 Hj0 Hk0 Hrj0 Hrk0).
    - pose proof (p_rec n s HI) as Hr. unfold rec_ok in *. cbn [d_rec d_recRow d_done s'].
      destruct (d_rec V s) as [ph|]; cbn [wake_r]; [|exact Hr].
      destruct ph; cbn [wake_r]; try exact Hr. destruct (d_recRow V s =? y); [discriminate|exact Hr].
  Qed.

  (** ** waitFor: what a step of [wait_step] guarantees *)
  Lemma wait_step_passed d nw m me nd ph ph' nw' m' :
    wait_step d nw m me nd ph = Some (WCont ph' nw' m') ->
    (passed ph = true -> nd <= d) -> (passed ph' = true -> nd <= d).
  Proof.
    intros H Hp Hp'. destruct ph; cbn [wait_step] in H.
    - destruct (nd <=? d); inversion H; subst. discriminate Hp'.
    - inversion H; subst. discriminate Hp'.
    - destruct m; inversion H; subst. discriminate Hp'.
    - destruct (d <? nd) eqn:E; inversion H; subst; [discriminate Hp'|]. apply Nat.ltb_ge in E. exact E.
    - inversion H; subst. discriminate Hp'.
    - discriminate H.
    - destruct m; inversion H; subst. discriminate Hp'.
    - inversion H; subst. apply Hp. reflexivity.
    - discriminate H.
  Qed.

  Lemma wait_step_ret d nw m me nd ph nw' m' :
    wait_step d nw m me nd ph = Some (WRet nw' m') -> (passed ph = true -> nd <= d) -> nd <= d.
  Proof.
    intros H Hp. destruct ph; cbn [wait_step] in H.
    - destruct (nd <=? d) eqn:E; [apply Nat.leb_le in E; exact E|discriminate H].
    - discriminate H.
    - destruct m; discriminate H.
    - destruct (d <? nd); discriminate H.
    - discriminate H.
    - discriminate H.
    - destruct m; discriminate H.
    - discriminate H.
    - apply Hp. reflexivity.
  Qed.

  (** ** Preservation, step by step *)
  Lemma dstep_worker_inv n s i s' : DInv n s -> dstep_worker s i = Some s' -> DInv n s'.
  Proof.
    intros HI Hs. unfold ConcDetailed.dstep_worker in Hs.
    destruct (nth_error (d_workers V s) i) as [w|] eqn:Hw; [|discriminate].
    pose proof (nth_error_lt _ _ _ Hw) as Hil.
    pose proof (abs_inv n s HI) as HL1.
    pose proof (p_ok n s HI i w Hw) as Hok.
    assert (Habsw : nth_error (workers V (abs s)) i = Some (abs_w w))
      by (cbn; rewrite nth_error_map, Hw; reflexivity).
    destruct w as [| |y x tl l ph|y x tl l|y x tl l t0 tr0|y x tl l ph]; try discriminate.
    - (* DIdle: claim or exit = the L1 step of the same worker *)
      destruct (p_proj n s HI) as (sched & Hrun).
      assert (Hstep : step1 (abs s) (LW i) = Some (abs s')).
      { cbn [ConcRowSync.step]. unfold ConcRowSync.step_worker. rewrite Habsw. cbn [ConcDetailed.abs_w nextRow ConcDetailed.abs].
        destruct (d_next V s <? mbH); inversion Hs; subst s'; unfold ConcDetailed.abs, setw; cbn;
          rewrite map_set_nth; rewrite ?abs_start_mb; reflexivity. }
      destruct (d_next V s <? mbH) eqn:E; inversion Hs; subst s'; clear Hs.
      + apply Nat.ltb_lt in E. constructor.
        * exists (sched ++ [LW i]). exact (run1_snoc _ _ _ _ Hrun _ Hstep).
        * apply (p_done_le n s HI).
        * intros j wj Hj. cbn in Hj. unfold setw in Hj. destruct (Nat.eq_dec i j) as [<-|Hne].
          -- rewrite set_nth_eq in Hj by exact Hil. inversion Hj; subst wj.
             unfold start_mb. destruct (d_next V s =? 0) eqn:E0; cbn.
             ++ left. now apply Nat.eqb_eq in E0.
             ++ apply Nat.eqb_neq in E0. split; [lia|discriminate].
          -- rewrite set_nth_neq in Hj by exact Hne. pose proof (p_ok n s HI j wj Hj) as H0.
             destruct wj; cbn in *; auto.
        * intros j wj y Hj Hr. cbn in Hj. unfold setw in Hj. cbn [d_next]. destruct (Nat.eq_dec i j) as [<-|Hne].
          -- rewrite set_nth_eq in Hj by exact Hil. inversion Hj; subst wj.
             unfold start_mb in Hr. destruct (d_next V s =? 0); cbn in Hr; inversion Hr; lia.
          -- rewrite set_nth_neq in Hj by exact Hne. pose proof (p_rows_lt n s HI j wj y Hj Hr). lia.
        * intros j k wj wk y Hj Hk Hrj Hrk. cbn in Hj, Hk. unfold setw in Hj, Hk.
          assert (Hnew : row_of (start_mb V (d_next V s) 0 v0 v0) = Some (d_next V s))
            by (unfold start_mb; destruct (d_next V s =? 0); reflexivity).
          destruct (Nat.eq_dec i j) as [<-|Hnj]; destruct (Nat.eq_dec i k) as [<-|Hnk]; [reflexivity| | |].
          -- rewrite set_nth_eq in Hj by exact Hil. inversion Hj; subst wj. rewrite Hnew in Hrj. inversion Hrj; subst y.
             rewrite set_nth_neq in Hk by exact Hnk. pose proof (p_rows_lt n s HI k wk _ Hk Hrk). lia.
          -- rewrite set_nth_eq in Hk by exact Hil. inversion Hk; subst wk. rewrite Hnew in Hrk. inversion Hrk; subst y.
             rewrite set_nth_neq in Hj by exact Hnj. pose proof (p_rows_lt n s HI j wj _ Hj Hrj). lia.
          -- rewrite set_nth_neq in Hj by exact Hnj. rewrite set_nth_neq in Hk by exact Hnk.
             exact (p_unique n s HI j k wj wk y Hj Hk Hrj Hrk).
        * exact (p_rec n s HI).
      + constructor.
        * exists (sched ++ [LW i]). exact (run1_snoc _ _ _ _ Hrun _ Hstep).
        * apply (p_done_le n s HI).
        * intros j wj Hj. cbn in Hj. unfold setw in Hj. destruct (Nat.eq_dec i j) as [<-|Hne].
          -- rewrite set_nth_eq in Hj by exact Hil. inversion Hj; subst wj. exact I.
          -- rewrite set_nth_neq in Hj by exact Hne. pose proof (p_ok n s HI j wj Hj) as H0.
             destruct wj; cbn in *; auto.
        * intros j wj y Hj Hr. cbn in Hj. unfold setw in Hj. cbn [d_next]. destruct (Nat.eq_dec i j) as [<-|Hne].
          -- rewrite set_nth_eq in Hj by exact Hil. inversion Hj; subst wj. discriminate.
          -- rewrite set_nth_neq in Hj by exact Hne. exact (p_rows_lt n s HI j wj y Hj Hr).
        * intros j k wj wk y Hj Hk Hrj Hrk. cbn in Hj, Hk. unfold setw in Hj, Hk.
          destruct (Nat.eq_dec i j) as [<-|Hnj].
          { rewrite set_nth_eq in Hj by exact Hil. inversion Hj; subst wj. discriminate. }
          destruct (Nat.eq_dec i k) as [<-|Hnk].
          { rewrite set_nth_eq in Hk by exact Hil. inversion Hk; subst wk. discriminate. }
          rewrite set_nth_neq in Hj by exact Hnj. rewrite set_nth_neq in Hk by exact Hnk.
          exact (p_unique n s HI j k wj wk y Hj Hk Hrj Hrk).
        * exact (p_rec n s HI).
    - (* DWait: a step inside waitFor — stutter *)
      cbn in Hok. destruct Hok as [Hy Hpass].
      destruct (wait_step (d_done V s (y - 1)) (d_nwait V s (y - 1)) (d_mu V s (y - 1)) (OWk i) (needed x) ph)
        as [[ph' nw' m'|nw' m']|] eqn:Hws; [| |discriminate]; inversion Hs; subst s'; clear Hs.
      + apply (frame_inv n s i (DWait y x tl l ph)); auto. cbn. split; [exact Hy|].
        exact (wait_step_passed _ _ _ _ _ _ _ _ _ Hws Hpass).
      + apply (frame_inv n s i (DWait y x tl l ph)); auto. cbn. right.
        exact (wait_step_ret _ _ _ _ _ _ _ _ Hws Hpass).
    - (* DCompute: read the contexts of the row above — stutter *)
      inversion Hs; subst s'; clear Hs. cbn in Hok.
      apply (frame_inv n s i (DCompute y x tl l)); auto. cbn. auto.
    - (* DHold: compute on the values read earlier and write — L1's macroblock step *)
      inversion Hs; subst s'; clear Hs. cbn in Hok. destruct Hok as (Hok & Ht0 & Htr0).
      destruct (p_proj n s HI) as (sched & Hrun).
      assert (Hguard : guard V mbW (abs s) y x = true).
      { unfold ConcRowSync.guard. cbn [done ConcDetailed.abs]. destruct Hok as [->|Hnd]; [reflexivity|].
        apply orb_true_iff. right. apply Nat.leb_le. pose proof (p_done_le n s HI (y - 1)). lia. }
      assert (Hstep : step1 (abs s) (LW i) =
          Some (abs (mkD V (d_next V s)
             (setw V s i (DSig y x t0 (f y x tl t0 tr0 l) QStore))
             (d_rec V s) (d_recRow V s) (d_done V s) (upd1 (d_adone V s) y (S x)) (d_nwait V s) (d_mu V s)
             (upd1 (d_top V s) x (Some y, f y x tl t0 tr0 l))
             (upd2 (d_out V s) y x (Some (f y x tl t0 tr0 l)))
             (d_tokens V s)))).
      { cbn [ConcRowSync.step]. unfold ConcRowSync.step_worker. rewrite Habsw. cbn [ConcDetailed.abs_w]. rewrite Hguard.
        unfold ConcDetailed.abs, setw. cbn. rewrite map_set_nth. rewrite <- Ht0, <- Htr0. reflexivity. }
      destruct (i_worker V v0 f mbW mbH n (abs s) HL1 i y x tl l Habsw) as (_ & Hx & Hadone & _).
      cbn [done ConcDetailed.abs] in Hadone.
      assert (Hother : forall j wj, j <> i -> nth_error (d_workers V s) j = Some wj -> row_of wj <> Some y).
      { intros j wj Hne Hj Hr. apply Hne. exact (p_unique n s HI j i wj _ y Hj Hw Hr eq_refl). }
      constructor.
      + exists (sched ++ [LW i]). exact (run1_snoc _ _ _ _ Hrun _ Hstep).
      + intros y0. cbn. unfold upd1. destruct (Nat.eqb_spec y0 y) as [->|Hne].
        * pose proof (p_done_le n s HI y). lia.
        * apply (p_done_le n s HI).
      + intros j wj Hj. cbn in Hj. unfold setw in Hj. destruct (Nat.eq_dec i j) as [<-|Hne].
        * rewrite set_nth_eq in Hj by exact Hil. inversion Hj; subst wj. cbn. apply upd1_eq.
        * rewrite set_nth_neq in Hj by exact Hne. pose proof (p_ok n s HI j wj Hj) as H0.
          pose proof (Hother j wj ltac:(congruence) Hj) as Hrow.
          destruct wj as [| |y1 x1 tl1 l1 ph1|y1 x1 tl1 l1|y1 x1 tl1 l1 t1 tr1|y1 x1 tl1 l1 ph1]; cbn in *; auto.
          -- (* another worker holding values it read: the cell written now is none of its cells *)
             destruct H0 as (Hg1 & Ht1 & Htr1).
             assert (Habsj : nth_error (workers V (abs s)) j = Some (AtMB y1 x1 tl1 l1))
               by (cbn; rewrite nth_error_map, Hj; reflexivity).
             assert (Hguardj : guard V mbW (abs s) y1 x1 = true).
             { unfold ConcRowSync.guard. cbn [done ConcDetailed.abs]. destruct Hg1 as [->|Hnd]; [reflexivity|].
               apply orb_true_iff. right. apply Nat.leb_le. pose proof (p_done_le n s HI (y1 - 1)). lia. }
             destruct (rowsync_no_conflict V v0 f mbW mbH HmbW n sched (abs s) i j y x tl l y1 x1 tl1 l1 Hrun Hne Habsw Hguard Habsj Hguardj)
               as (_ & Hc1 & _ & Hc3).
             split; [exact Hg1|]. rewrite !upd1_neq by lia. split; assumption.
          -- rewrite upd1_neq by congruence. exact H0.
      + intros j wj y0 Hj Hr. cbn in Hj. unfold setw in Hj. cbn [d_next]. destruct (Nat.eq_dec i j) as [<-|Hne].
        * rewrite set_nth_eq in Hj by exact Hil. inversion Hj; subst wj. cbn in Hr. inversion Hr; subst y0.
          exact (p_rows_lt n s HI i _ y Hw eq_refl).
        * rewrite set_nth_neq in Hj by exact Hne. exact (p_rows_lt n s HI j wj y0 Hj Hr).
      + intros j k wj wk y0 Hj Hk Hrj Hrk. cbn in Hj, Hk. unfold setw in Hj, Hk.
        assert (Hget : forall m wm, nth_error (set_nth (d_workers V s) i (DSig y x t0 (f y x tl t0 tr0 l) QStore)) m = Some wm ->
                 row_of wm = Some y0 -> exists wm0, nth_error (d_workers V s) m = Some wm0 /\ row_of wm0 = Some y0).
        { intros m wm Hm Hrm. destruct (Nat.eq_dec i m) as [<-|Hne].
          - rewrite set_nth_eq in Hm by exact Hil. inversion Hm; subst wm. exists (DHold y x tl l t0 tr0). auto.
          - rewrite set_nth_neq in Hm by exact Hne. exists wm. auto. }
        destruct (Hget j wj Hj Hrj) as (wj0 & Hj0 & Hrj0). destruct (Hget k wk Hk Hrk) as (wk0 & Hk0 & Hrk0).
        exact (p_unique n s HI j k wj0 wk0 y0 Hj0 Hk0 Hrj0 Hrk0).
      + exact (p_rec n s HI).
    - (* DSig: a step inside signal — stutter *)
      cbn in Hok.
      assert (Hother : forall j wj, j <> i -> nth_error (d_workers V s) j = Some wj -> row_of wj <> Some y).
      { intros j wj Hne Hj Hr. apply Hne. exact (p_unique n s HI j i wj _ y Hj Hw Hr eq_refl). }
      destruct ph.
      + (* QStore: done[y] := x+1 *)
        inversion Hs; subst s'; clear Hs.
        set (s' := mkD V (d_next V s) (setw V s i (DSig y x tl l QLoad)) (d_rec V s) (d_recRow V s)
                     (upd1 (d_done V s) y (S x)) (d_adone V s) (d_nwait V s) (d_mu V s) (d_top V s) (d_out V s) (d_tokens V s)).
        assert (Hsame : abs s' = abs s).
        { unfold ConcDetailed.abs, s', setw. cbn. rewrite map_set_nth.
          rewrite (set_nth_same (map abs_w (d_workers V s)) i); [reflexivity|].
          rewrite nth_error_map, Hw. reflexivity. }
        assert (Hg : done_grows s s').
        { intros y0. cbn. unfold upd1. destruct (Nat.eqb_spec y0 y) as [->|Hne]; [|lia].
          pose proof (p_done_le n s HI y). lia. }
        constructor.
        * rewrite Hsame. apply (p_proj n s HI).
        * intros y0. cbn. unfold upd1. destruct (Nat.eqb_spec y0 y) as [->|Hne]; [lia|apply (p_done_le n s HI)].
        * intros j wj Hj. cbn in Hj. unfold setw in Hj. destruct (Nat.eq_dec i j) as [<-|Hne].
          -- rewrite set_nth_eq in Hj by exact Hil. inversion Hj; subst wj. cbn. exact Hok.
          -- rewrite set_nth_neq in Hj by exact Hne. apply (worker_ok_mono s s'); auto.
             apply (p_ok n s HI j wj Hj).
        * intros j wj y0 Hj Hr. cbn in Hj. unfold setw in Hj. cbn [d_next]. destruct (Nat.eq_dec i j) as [<-|Hne].
          -- rewrite set_nth_eq in Hj by exact Hil. inversion Hj; subst wj. cbn in Hr. inversion Hr; subst y0.
             exact (p_rows_lt n s HI i _ y Hw eq_refl).
          -- rewrite set_nth_neq in Hj by exact Hne. exact (p_rows_lt n s HI j wj y0 Hj Hr).
        * intros j k wj wk y0 Hj Hk Hrj Hrk. cbn in Hj, Hk. unfold setw in Hj, Hk.
          assert (Hget : forall m wm, nth_error (set_nth (d_workers V s) i (DSig y x tl l QLoad)) m = Some wm ->
                   row_of wm = Some y0 -> exists wm0, nth_error (d_workers V s) m = Some wm0 /\ row_of wm0 = Some y0).
          { intros m wm Hm Hrm. destruct (Nat.eq_dec i m) as [<-|Hne].
            - rewrite set_nth_eq in Hm by exact Hil. inversion Hm; subst wm. exists (DSig y x tl l QStore). auto.
            - rewrite set_nth_neq in Hm by exact Hne. exists wm. auto. }
          destruct (Hget j wj Hj Hrj) as (wj0 & Hj0 & Hrj0). destruct (Hget k wk Hk Hrk) as (wk0 & Hk0 & Hrk0).
          exact (p_unique n s HI j k wj0 wk0 y0 Hj0 Hk0 Hrj0 Hrk0).
        * apply (rec_ok_mono s s'); auto. apply (p_rec n s HI).
      + (* QLoad *)
        inversion Hs; subst s'; clear Hs.
        destruct (0 <? d_nwait V s y).
        * apply (frame_inv n s i (DSig y x tl l QLoad)); auto.
        * apply (frame_inv n s i (DSig y x tl l QLoad)); auto.
          -- apply abs_sig_exit.
          -- intros y0 Hr. apply sig_exit_row in Hr. subst. reflexivity.
          -- apply sig_exit_ok.
      + (* QLock *)
        destruct (d_mu V s y); [discriminate|]. inversion Hs; subst s'; clear Hs.
        apply (frame_inv n s i (DSig y x tl l QLock)); auto.
      + (* QUnlock *)
        inversion Hs; subst s'; clear Hs.
        apply (frame_inv n s i (DSig y x tl l QUnlock)); auto.
      + (* QBcast *)
        inversion Hs; subst s'; clear Hs. exact (bcast_inv n s i y x tl l HI Hw).
  Qed.

  (** recorder steps *)
  Lemma rec_frame_inv n s r' nw' mu' :
    DInv n s ->
    (match r' with
     | RWait ph => passed ph = true -> mbW <= d_done V s (d_recRow V s)
     | RReady => mbW <= d_done V s (d_recRow V s)
     end) ->
    DInv n (mkD V (d_next V s) (d_workers V s) r' (d_recRow V s) (d_done V s) (d_adone V s)
                nw' mu' (d_top V s) (d_out V s) (d_tokens V s)).
  Proof.
    intros HI Hr. constructor; cbn.
    - apply (p_proj n s HI).
    - apply (p_done_le n s HI).
    - intros i w Hw. pose proof (p_ok n s HI i w Hw) as Hk. destruct w; cbn in *; auto.
    - apply (p_rows_lt n s HI).
    - apply (p_unique n s HI).
    - unfold rec_ok. cbn. exact Hr.
  Qed.

  Lemma dstep_rec_inv n s s' : DInv n s -> dstep_rec s = Some s' -> DInv n s'.
  Proof.
    intros HI Hs. unfold ConcDetailed.dstep_rec in Hs.
    destruct (d_recRow V s <? mbH) eqn:Elt; [|discriminate]. apply Nat.ltb_lt in Elt.
    pose proof (p_rec n s HI) as Hrec. unfold rec_ok in Hrec.
    destruct (d_rec V s) as [ph|] eqn:Er.
    - destruct (wait_step (d_done V s (d_recRow V s)) (d_nwait V s (d_recRow V s)) (d_mu V s (d_recRow V s)) ORec mbW ph)
        as [[ph' nw' m'|nw' m']|] eqn:Hws; [| |discriminate]; inversion Hs; subst s'; clear Hs.
      + apply (rec_frame_inv n s (RWait ph')); auto. exact (wait_step_passed _ _ _ _ _ _ _ _ _ Hws Hrec).
      + apply (rec_frame_inv n s RReady); auto. exact (wait_step_ret _ _ _ _ _ _ _ _ Hws Hrec).
    - (* record = L1's recorder step *)
      inversion Hs; subst s'; clear Hs.
      destruct (p_proj n s HI) as (sched & Hrun). pose proof (abs_inv n s HI) as HL1.
      pose proof (i_done_le V v0 f mbW mbH n (abs s) HL1 (d_recRow V s)) as Hle. cbn [done ConcDetailed.abs] in Hle.
      pose proof (p_done_le n s HI (d_recRow V s)) as Hda.
      assert (Hstep : step1 (abs s) LRec =
         Some (abs (mkD V (d_next V s) (d_workers V s) (RWait PFast) (S (d_recRow V s)) (d_done V s) (d_adone V s)
                    (d_nwait V s) (d_mu V s) (d_top V s) (d_out V s)
                    (d_tokens V s ++ map (dout_or_v0 V v0 s (d_recRow V s)) (seq 0 mbW))))).
      { cbn [ConcRowSync.step]. unfold ConcRowSync.step_rec. cbn [recRow done ConcDetailed.abs].
        apply Nat.ltb_lt in Elt. rewrite Elt.
        replace (d_adone V s (d_recRow V s) =? mbW) with true by (symmetry; apply Nat.eqb_eq; lia).
        reflexivity. }
      constructor; cbn.
      + exists (sched ++ [LRec]). exact (run1_snoc _ _ _ _ Hrun _ Hstep).
      + apply (p_done_le n s HI).
      + intros i w Hw. pose proof (p_ok n s HI i w Hw) as Hk. destruct w; cbn in *; auto.
      + apply (p_rows_lt n s HI).
      + apply (p_unique n s HI).
      + unfold rec_ok. cbn. discriminate.
  Qed.

  Lemma dstep_inv n s l s' : DInv n s -> dstep s l = Some s' -> DInv n s'.
  Proof. destruct l as [i|]; cbn [ConcDetailed.dstep]; [apply dstep_worker_inv|apply dstep_rec_inv]. Qed.

  Theorem detailed_inv : forall n sched s, drun (dinit n) sched = Some s -> DInv n s.
  Proof.
    intros n sched.
    assert (G : forall s0, DInv n s0 -> forall s1, drun s0 sched = Some s1 -> DInv n s1).
    { induction sched as [|l rest IH]; intros s0 H0 s1 Hr; cbn [ConcDetailed.drun] in Hr.
      - inversion Hr; subst; exact H0.
      - destruct (dstep s0 l) as [s2|] eqn:Hs; [|discriminate].
        exact (IH s2 (dstep_inv n s0 l s2 H0 Hs) s1 Hr). }
    intros s Hr. exact (G (dinit n) (dinit_inv n) s Hr).
  Qed.

  (** ** The refinement theorem: every run of the detailed system projects to a run of
      the L1 system that ends in the abstraction of its last state. *)
  Theorem detailed_refines_rowsync : forall n sched s,
    drun (dinit n) sched = Some s ->
    exists sched1, run1 (init1 n) sched1 = Some (abs s).
  Proof. intros n sched s Hr. exact (p_proj n s (detailed_inv n sched s Hr)). Qed.

  Lemma dfinal_abs s : dfinal V mbH s = true -> final V mbH (abs s) = true.
  Proof.
    unfold dfinal, ConcRowSync.final. cbn [workers recRow ConcDetailed.abs]. intros H.
    apply andb_true_iff in H. destruct H as [H1 H2]. rewrite H2, andb_true_r.
    rewrite forallb_forall in *. intros w Hw. apply in_map_iff in Hw. destruct Hw as (w0 & <- & Hw0).
    specialize (H1 w0 Hw0). destruct w0; cbn in *; congruence.
  Qed.

  (** Every detailed run that reaches a final state ends with the serial result: the L1
      determinism theorem transfers through the simulation ([out] and [tokens] are the
      same fields in both systems). *)
  Theorem detailed_deterministic : forall n sched s,
    drun (dinit n) sched = Some s -> dfinal V mbH s = true ->
    (forall y x, y < mbH -> x < mbW -> d_out V s y x = Some (serial_out V v0 f mbW y x)) /\
    d_tokens V s = serial_tokens V v0 f mbW mbH.
  Proof.
    intros n sched s Hr Hf. destruct (detailed_refines_rowsync n sched s Hr) as (sched1 & H1).
    exact (rowsync_deterministic V v0 f mbW mbH HmbW n sched1 (abs s) H1 (dfinal_abs s Hf)).
  Qed.

  (** In the detailed system too, a macroblock body reads what the serial order has. *)
  Theorem detailed_reads_serial : forall n sched s i y x tl l,
    drun (dinit n) sched = Some s -> nth_error (d_workers V s) i = Some (DCompute y x tl l) ->
    d_top V s x = ((if y =? 0 then None else Some (y - 1)), P V v0 f mbW y x) /\
    (S x < mbW -> d_top V s (S x) = ((if y =? 0 then None else Some (y - 1)), P V v0 f mbW y (S x))).
  Proof.
    intros n sched s i y x tl l Hr Hw. pose proof (detailed_inv n sched s Hr) as HI.
    destruct (p_proj n s HI) as (sched1 & H1).
    assert (Habsw : nth_error (workers V (abs s)) i = Some (AtMB y x tl l))
      by (cbn; rewrite nth_error_map, Hw; reflexivity).
    assert (Hguard : guard V mbW (abs s) y x = true).
    { pose proof (p_ok n s HI i _ Hw) as Hok. cbn in Hok.
      unfold ConcRowSync.guard. cbn [done ConcDetailed.abs]. destruct Hok as [->|Hnd]; [reflexivity|].
      apply orb_true_iff. right. apply Nat.leb_le. pose proof (p_done_le n s HI (y - 1)). lia. }
    destruct (rowsync_reads_serial V v0 f mbW mbH HmbW n sched1 (abs s) i y x tl l H1 Habsw Hguard) as (A & B & _).
    split; assumption.
  Qed.

  (** ... and the values a worker HOLDS between its read sub-step and its write sub-step are
      still the serial ones when it writes: nobody overwrites the cells it read. *)
  Theorem detailed_held_values_serial : forall n sched s i y x tl l t tr,
    drun (dinit n) sched = Some s -> nth_error (d_workers V s) i = Some (DHold y x tl l t tr) ->
    t = P V v0 f mbW y x /\ (S x < mbW -> tr = P V v0 f mbW y (S x)) /\
    f y x tl t tr l = serial_out V v0 f mbW y x.
  Proof.
    intros n sched s i y x tl l t tr Hr Hw. pose proof (detailed_inv n sched s Hr) as HI.
    destruct (p_proj n s HI) as (sched1 & H1).
    assert (Habsw : nth_error (workers V (abs s)) i = Some (AtMB y x tl l))
      by (cbn; rewrite nth_error_map, Hw; reflexivity).
    pose proof (p_ok n s HI i _ Hw) as Hok. cbn [worker_ok] in Hok. destruct Hok as (Hg & Ht & Htr).
    assert (Hguard : guard V mbW (abs s) y x = true).
    { unfold ConcRowSync.guard. cbn [done ConcDetailed.abs]. destruct Hg as [->|Hnd]; [reflexivity|].
      apply orb_true_iff. right. apply Nat.leb_le. pose proof (p_done_le n s HI (y - 1)). lia. }
    destruct (rowsync_reads_serial V v0 f mbW mbH HmbW n sched1 (abs s) i y x tl l H1 Habsw Hguard) as (A & B & C & D).
    change (top V (abs s)) with (d_top V s) in A, B.
    assert (Et : t = P V v0 f mbW y x) by (rewrite Ht, A; reflexivity).
    split; [exact Et|]. split.
    - intros Hlt. rewrite Htr. replace (S x <? mbW) with true by (symmetry; apply Nat.ltb_lt; exact Hlt). rewrite (B Hlt). reflexivity.
    - pose proof (step_value V v0 f mbW mbH HmbW n (abs s) i y x tl l (abs_inv n s HI) Habsw Hguard) as Hv.
      change (top V (abs s)) with (d_top V s) in Hv. rewrite <- Ht, <- Htr in Hv. exact Hv.
  Qed.

End Proofs.
