(** C11 — write-before-read analysis of Scratch fields over regenerated access
    skeletons (turns part of the frame condition from a hypothesis into a checked
    fact).

    The translator (tools/gosrc2v/skel.go → Gen/Skel.v) abstracts, for one field f of a
    pooled type, every function of the package into a skeleton over the events
      Fill   f is completely re-initialised, independently of its old content
      Touch  any other access to f's content
    with sequencing, alternatives, loops and calls of package-local functions.  Here:

    - [den]: the traces (event sequences) a skeleton admits;
    - [check]: the analysis (an abstract interpretation with three values);
    - [check_sound]: if [check] does not answer [Bad], the first event of every trace
      is a [Fill] (or the trace is empty) — for all paths, loop counts and call depths;
    - [safe_trace_content_independent]: for any machine whose accesses to f follow a
      safe trace, the final state of everything else does not depend on f's initial
      content (only on its shape);
    - [frame_from_decided]: the frame condition of the pool model follows from
      content-independence of the decided fields plus the frame condition restricted
      to objects that agree on them.

    Trusted: that the skeleton over-approximates the code's accesses (the translator
    only abstracts syntax; the analysis itself is the Coq function [check]). *)
From Coq Require Import String List Bool Arith Lia.
From Webp Require Import Conc.PoolModel.
Import ListNotations.
Open Scope string_scope.
Open Scope list_scope.

Inductive sk :=
| Skip | Fill | Touch
| Seq (a b : sk) | Alt (a b : sk) | Loop (a : sk)
| IfC (c : string) (a b : sk)
| Call (g : string).

Record skel_entry := { se_status : string; se_roots : list string; se_env : list (string * sk) }.

Inductive ev := EF | ET.

(** the guard names tested in a skeleton (not descending into callees: guards are
    parameters of one function, fixed for one activation of it) *)
Fixpoint conds_of (s : sk) : list string :=
  match s with
  | Seq a b | Alt a b => conds_of a ++ conds_of b
  | Loop a => conds_of a
  | IfC c a b => c :: conds_of a ++ conds_of b
  | _ => []
  end.

(** all truth assignments to a list of guard names (names outside the list: false) *)
Fixpoint all_vals (cs : list string) : list (string -> bool) :=
  match cs with
  | [] => [fun _ => false]
  | c :: r => flat_map (fun rho => [fun x => if String.eqb x c then true else rho x;
                                    fun x => if String.eqb x c then false else rho x]) (all_vals r)
  end.

Lemma all_vals_complete cs (rho : string -> bool) :
  exists rho', In rho' (all_vals cs) /\ forall c, In c cs -> rho' c = rho c.
Proof.
  induction cs as [|c r IH]; cbn [all_vals].
  - exists (fun _ => false). split; [left; reflexivity|intros c []].
  - destruct IH as [r0 [Hin Hag]].
    exists (fun x => if String.eqb x c then rho c else r0 x). split.
    + apply in_flat_map. exists r0. split; [exact Hin|].
      destruct (rho c); [left|right; left]; reflexivity.
    + intros x [<-|Hx]; [now rewrite String.eqb_refl|].
      destruct (String.eqb x c) eqn:E; [apply String.eqb_eq in E; now subst|now apply Hag].
Qed.

Section Skeleton.
  Variable env : string -> sk.

  (** traces admitted by a skeleton under a guard valuation: any branch, any number of
      loop iterations, calls unfolded to any depth, each activation of a callee with
      its own guard valuation *)
  Inductive den : (string -> bool) -> sk -> list ev -> Prop :=
  | d_skip rho : den rho Skip []
  | d_fill rho : den rho Fill [EF]
  | d_touch rho : den rho Touch [ET]
  | d_seq rho a b t1 t2 : den rho a t1 -> den rho b t2 -> den rho (Seq a b) (t1 ++ t2)
  | d_altl rho a b t : den rho a t -> den rho (Alt a b) t
  | d_altr rho a b t : den rho b t -> den rho (Alt a b) t
  | d_loop0 rho a : den rho (Loop a) []
  | d_loopS rho a t1 t2 : den rho a t1 -> den rho (Loop a) t2 -> den rho (Loop a) (t1 ++ t2)
  | d_ifT rho c a b t : rho c = true -> den rho a t -> den rho (IfC c a b) t
  | d_ifF rho c a b t : rho c = false -> den rho b t -> den rho (IfC c a b) t
  | d_call rho rho' g t : den rho' (env g) t -> den rho (Call g) t.

  (** abstract values: [N] no event yet on some path (and nothing bad on any),
      [Fd] every path has filled, [Bad] some path may touch before a fill *)
  Inductive av := N | Fd | Bad.

  Definition join2 (x y : av) : av :=
    match x, y with
    | Bad, _ | _, Bad => Bad
    | Fd, Fd => Fd
    | _, _ => N
    end.

  (** join over a non-empty list of results *)
  Fixpoint joinl (l : list av) : av :=
    match l with
    | [] => Fd
    | x :: r => join2 x (joinl r)
    end.

  Fixpoint check (fuel : nat) (rho : string -> bool) : sk -> av :=
    fix go (s : sk) : av :=
      match s with
      | Skip => N
      | Fill => Fd
      | Touch => Bad
      | Seq a b => match go a with N => go b | r => r end
      | Alt a b => join2 (go a) (go b)
      | Loop a => match go a with Bad => Bad | _ => N end
      | IfC c a b => if rho c then go a else go b
      | Call g => match fuel with
                  | O => Bad
                  | S n => joinl (map (fun rho' => check n rho' (env g)) (all_vals (nodup string_dec (conds_of (env g)))))
                  end
      end.

  Definition starts_F (t : list ev) : Prop := exists t', t = EF :: t'.
  (** a trace is safe when its first event (if any) is a Fill *)
  Definition safe (t : list ev) : Prop := t = [] \/ starts_F t.

  Definition holds (r : av) (t : list ev) : Prop :=
    match r with Fd => starts_F t | N => safe t | Bad => True end.

  Lemma starts_F_app t1 t2 : starts_F t1 -> starts_F (t1 ++ t2).
  Proof. intros [t' ->]. exists (t' ++ t2). reflexivity. Qed.

  Lemma starts_holds r t : starts_F t -> holds r t.
  Proof. intros H. destruct r; cbn; [right; exact H|exact H|exact I]. Qed.

  Lemma holds_join2_l x y t : holds x t -> holds (join2 x y) t.
  Proof. destruct x, y; cbn; auto; try (intros H; right; exact H). Qed.
  Lemma holds_join2_r x y t : holds y t -> holds (join2 x y) t.
  Proof. destruct x, y; cbn; auto; try (intros H; right; exact H). Qed.

  Lemma holds_joinl r l t : In r l -> holds r t -> holds (joinl l) t.
  Proof.
    induction l as [|x l IH]; [intros []|]. intros [<-|Hin] Hh; cbn [joinl].
    - now apply holds_join2_l.
    - apply holds_join2_r. now apply IH.
  Qed.

  (** the analysis looks at a valuation only through the guards of the skeleton *)
  Lemma check_ext fuel s : forall r1 r2, (forall c, In c (conds_of s) -> r1 c = r2 c) ->
                                          check fuel r1 s = check fuel r2 s.
  Proof.
    induction s as [ | | |a IHa b IHb|a IHa b IHb|a IHa|c a IHa b IHb|g]; intros r1 r2 H;
      try (destruct fuel; reflexivity).
    - assert (Ea : check fuel r1 a = check fuel r2 a) by (apply IHa; intros c Hc; apply H; cbn; apply in_or_app; now left).
      assert (Eb : check fuel r1 b = check fuel r2 b) by (apply IHb; intros c Hc; apply H; cbn; apply in_or_app; now right).
      destruct fuel; cbn in *; rewrite Ea, Eb; reflexivity.
    - assert (Ea : check fuel r1 a = check fuel r2 a) by (apply IHa; intros c Hc; apply H; cbn; apply in_or_app; now left).
      assert (Eb : check fuel r1 b = check fuel r2 b) by (apply IHb; intros c Hc; apply H; cbn; apply in_or_app; now right).
      destruct fuel; cbn in *; rewrite Ea, Eb; reflexivity.
    - assert (Ea : check fuel r1 a = check fuel r2 a) by (apply IHa; intros c Hc; apply H; exact Hc).
      destruct fuel; cbn in *; rewrite Ea; reflexivity.
    - assert (Ec : r1 c = r2 c) by (apply H; left; reflexivity).
      assert (Ea : check fuel r1 a = check fuel r2 a) by (apply IHa; intros x Hx; apply H; right; apply in_or_app; now left).
      assert (Eb : check fuel r1 b = check fuel r2 b) by (apply IHb; intros x Hx; apply H; right; apply in_or_app; now right).
      destruct fuel; cbn in *; rewrite Ec, Ea, Eb; reflexivity.
  Qed.

  Lemma check_sound_gen : forall rho s t, den rho s t -> forall fuel, holds (check fuel rho s) t.
  Proof.
    induction 1 as [rho|rho|rho|rho a b t1 t2 H1 IH1 H2 IH2|rho a b t H IH|rho a b t H IH|rho a
                   |rho a t1 t2 H1 IH1 H2 IH2|rho c a b t Hc H IH|rho c a b t Hc H IH|rho rho' g t H IH]; intro fuel.
    - destruct fuel; cbn; left; reflexivity.
    - destruct fuel; cbn; exists []; reflexivity.
    - destruct fuel; cbn; exact I.
    - specialize (IH1 fuel). specialize (IH2 fuel).
      assert (E : check fuel rho (Seq a b) = match check fuel rho a with N => check fuel rho b | r => r end) by (destruct fuel; reflexivity).
      rewrite E. destruct (check fuel rho a) eqn:Ea; cbn [holds] in IH1.
      + destruct IH1 as [->|Hs]; [exact IH2|apply starts_holds, starts_F_app, Hs].
      + cbn. apply starts_F_app, IH1.
      + exact I.
    - assert (E : check fuel rho (Alt a b) = join2 (check fuel rho a) (check fuel rho b)) by (destruct fuel; reflexivity).
      rewrite E. apply holds_join2_l, IH.
    - assert (E : check fuel rho (Alt a b) = join2 (check fuel rho a) (check fuel rho b)) by (destruct fuel; reflexivity).
      rewrite E. apply holds_join2_r, IH.
    - assert (E : check fuel rho (Loop a) = match check fuel rho a with Bad => Bad | _ => N end) by (destruct fuel; reflexivity).
      rewrite E. destruct (check fuel rho a); cbn; auto; left; reflexivity.
    - specialize (IH1 fuel). specialize (IH2 fuel).
      assert (E : check fuel rho (Loop a) = match check fuel rho a with Bad => Bad | _ => N end) by (destruct fuel; reflexivity).
      rewrite E in *. destruct (check fuel rho a); cbn in *.
      + destruct IH1 as [->|Hs]; [exact IH2|right; apply starts_F_app, Hs].
      + right. apply starts_F_app, IH1.
      + exact I.
    - assert (E : check fuel rho (IfC c a b) = if rho c then check fuel rho a else check fuel rho b) by (destruct fuel; reflexivity).
      rewrite E, Hc. apply IH.
    - assert (E : check fuel rho (IfC c a b) = if rho c then check fuel rho a else check fuel rho b) by (destruct fuel; reflexivity).
      rewrite E, Hc. apply IH.
    - destruct fuel; [exact I|]. cbn [check].
      destruct (all_vals_complete (nodup string_dec (conds_of (env g))) rho') as [r0 [Hin Hag]].
      assert (Hag' : forall c, In c (conds_of (env g)) -> r0 c = rho' c) by (intros c Hc; apply Hag; now apply nodup_In).
      apply (holds_joinl (check fuel r0 (env g))).
      + apply in_map_iff. exists r0. split; [reflexivity|exact Hin].
      + rewrite (check_ext fuel (env g) r0 rho' Hag'). apply IH.
  Qed.

  (** the analysis is sound: not [Bad] implies every admitted trace is safe *)
  Theorem check_sound fuel rho s : check fuel rho s <> Bad -> forall t, den rho s t -> safe t.
  Proof.
    intros Hb t Hd. pose proof (check_sound_gen rho s t Hd fuel) as H.
    destruct (check fuel rho s); cbn in H; [exact H|right; exact H|congruence].
  Qed.

  (** an execution may stop early (return, error, panic): prefixes of safe traces are safe *)
  Lemma safe_prefix t1 t2 : safe (t1 ++ t2) -> safe t1.
  Proof.
    intros [H|[t' H]].
    - apply app_eq_nil in H as [-> _]. left; reflexivity.
    - destruct t1 as [|e r]; [left; reflexivity|]. cbn in H. inversion H; subst. right. exists r. reflexivity.
  Qed.
End Skeleton.

(** the analysis on a regenerated entry: status ok and no root answers [Bad] *)
Fixpoint env_of (l : list (string * sk)) (g : string) : sk :=
  match l with
  | [] => Touch      (* unknown function: assume the worst *)
  | (k, s) :: r => if String.eqb g k then s else env_of r g
  end.

Definition is_bad (r : av) : bool := match r with Bad => true | _ => false end.

Definition skel_fuel : nat := 40.

Definition decided (e : skel_entry) : bool :=
  String.eqb (se_status e) "ok"
  && forallb (fun r => negb (is_bad (check (env_of (se_env e)) skel_fuel (fun _ => false) (Call r)))) (se_roots e).

Lemma decided_sound e :
  decided e = true ->
  forall r rho t, In r (se_roots e) -> den (env_of (se_env e)) rho (Call r) t -> safe t.
Proof.
  unfold decided. intros H r rho t Hr Hd. apply andb_prop in H as [_ H].
  rewrite forallb_forall in H. specialize (H r Hr).
  assert (Hd' : den (env_of (se_env e)) (fun _ => false) (Call r) t) by (inversion Hd; subst; econstructor; eassumption).
  apply (check_sound (env_of (se_env e)) skel_fuel (fun _ => false) (Call r)); [|exact Hd'].
  intro Hb. rewrite Hb in H. discriminate.
Qed.

(** the life of one pooled object is a sequence of root calls: the concatenation of
    safe traces is safe *)
Lemma safe_concat (ts : list (list ev)) : Forall safe ts -> safe (concat ts).
Proof.
  induction 1 as [|t r Ht Hr IH]; [left; reflexivity|]. cbn.
  destruct Ht as [->|Hs]; [exact IH|right; now apply starts_F_app].
Qed.

(* ------------------------------------------------------------------ *)
(** * from safe traces to content independence *)

Section Machine.
  (** [R]: everything except the content of f (arguments, other fields, locals, the
      result being built); [V]: the content of f; [Sh]: its observable shape *)
  Variables (R V Sh : Type).
  Variable shape : V -> Sh.
  (** which access to f comes next is decided by the rest of the state *)
  Variable next : R -> option ev.
  (** a Fill computes the new content from the rest of the state and the shape only *)
  Variable fillf : R -> Sh -> R * V.
  (** a Touch may do anything with the content *)
  Variable touchf : R -> V -> R * V.

  Fixpoint mrun (n : nat) (r : R) (v : V) : R * V :=
    match n with
    | O => (r, v)
    | S m => match next r with
             | None => (r, v)
             | Some EF => let '(r', v') := fillf r (shape v) in mrun m r' v'
             | Some ET => let '(r', v') := touchf r v in mrun m r' v'
             end
    end.

  Fixpoint mtrace (n : nat) (r : R) (v : V) : list ev :=
    match n with
    | O => []
    | S m => match next r with
             | None => []
             | Some EF => let '(r', v') := fillf r (shape v) in EF :: mtrace m r' v'
             | Some ET => let '(r', v') := touchf r v in ET :: mtrace m r' v'
             end
    end.

  Theorem safe_trace_content_independent n r v v' :
    shape v = shape v' -> safe (mtrace n r v) -> fst (mrun n r v) = fst (mrun n r v').
  Proof.
    intros Hs Hsafe. destruct n as [|m]; [reflexivity|]. cbn in *.
    destruct (next r) as [[|]|]; [| |reflexivity].
    - rewrite <- Hs. destruct (fillf r (shape v)) as [r' v'']. reflexivity.
    - destruct (touchf r v) as [r' v'']. destruct Hsafe as [H|[t' H]]; discriminate.
  Qed.
End Machine.

(* ------------------------------------------------------------------ *)
(** * from content independence of the decided fields to the frame condition *)

Section Frame.
  Variables (Args Out Val Shape : Type) (shape : Args -> Val -> Shape).
  Variable fields : list string.
  Variable cls : list (string * fclass).
  Variable run : Args -> (string -> Val) -> Out * (string -> Val).

  Definition upd (o : string -> Val) (f : string) (v : Val) : string -> Val :=
    fun g => if String.eqb g f then v else o g.

  (** the result does not depend on the content of field [f] (only on its shape) *)
  Definition indep_field (f : string) : Prop :=
    forall a o v', shape a (o f) = shape a v' -> fst (run a o) = fst (run a (upd o f v')).

  (** the frame condition for objects that agree on the content of the fields in [D] *)
  Definition frame_condition_given (D : list string) : Prop :=
    forall a o o',
      (forall f, In f fields -> class_is cls Config f \/ class_is cls State f \/ class_is cls ConstZero f -> o f = o' f) ->
      (forall f, In f fields -> class_is cls Scratch f -> shape a (o f) = shape a (o' f)) ->
      (forall f, In f D -> o f = o' f) ->
      fst (run a o) = fst (run a o').

  Fixpoint overlay (D : list string) (o o' : string -> Val) : string -> Val :=
    match D with
    | [] => o'
    | f :: r => upd (overlay r o o') f (o f)
    end.

  Lemma overlay_spec D o o' g : overlay D o o' g = if mem g D then o g else o' g.
  Proof.
    induction D as [|f r IH]; [reflexivity|]. cbn [overlay mem]. unfold upd.
    destruct (String.eqb g f) eqn:E; [apply String.eqb_eq in E; now subst|exact IH].
  Qed.

  Theorem frame_from_decided (D : list string) :
    (forall f, In f D -> In f fields /\ class_is cls Scratch f) ->
    (forall f, In f D -> indep_field f) ->
    frame_condition_given D ->
    frame_condition Args Out Val Shape shape fields cls run.
  Proof.
    intros HD Hind Hgiven a o o' Hcs Hsh.
    assert (Hchain : forall D', (forall f, In f D' -> In f D) ->
                                fst (run a o') = fst (run a (overlay D' o o'))).
    { induction D' as [|f r IH]; intros Hsub; [reflexivity|].
      transitivity (fst (run a (overlay r o o'))); [apply IH; intros g Hg; apply Hsub; right; exact Hg|].
      cbn [overlay]. apply (Hind f (Hsub f (or_introl eq_refl))).
      destruct (HD f (Hsub f (or_introl eq_refl))) as [Hin Hc].
      rewrite overlay_spec. destruct (mem f r); [reflexivity|symmetry; now apply Hsh]. }
    transitivity (fst (run a (overlay D o o'))); [|symmetry; exact (Hchain D (fun f H => H))].
    apply Hgiven.
    - intros f Hin Hc. rewrite overlay_spec. destruct (mem f D) eqn:E; [reflexivity|now apply Hcs].
    - intros f Hin Hc. rewrite overlay_spec. destruct (mem f D); [reflexivity|now apply Hsh].
    - intros f Hin. rewrite overlay_spec. apply mem_In in Hin. now rewrite Hin.
  Qed.
End Frame.

(** the analysis is not vacuous: it accepts fill-then-read and rejects read-then-fill,
    a fill on only one branch, and a fill inside a loop that may not run *)
Module SkelExample.
  Definition env (g : string) : sk :=
    if String.eqb g "init" then Fill else if String.eqb g "use" then Touch else Skip.
  Example accepts_fill_then_read : check env 5 (fun _ => false) (Seq (Call "init") (Loop (Call "use"))) = Fd.
  Proof. reflexivity. Qed.
  Example rejects_read_then_fill : check env 5 (fun _ => false) (Seq (Call "use") (Call "init")) = Bad.
  Proof. reflexivity. Qed.
  Example rejects_fill_on_one_branch : check env 5 (fun _ => false) (Seq (Alt Fill Skip) Touch) = Bad.
  Proof. reflexivity. Qed.
  Example rejects_fill_in_loop : check env 5 (fun _ => false) (Seq (Loop Fill) Touch) = Bad.
  Proof. reflexivity. Qed.
  (** correlated guards: fill and use under the same guard are accepted, under different
      guards rejected (the callee "g" is analysed for every valuation of its guards) *)
  Definition env2 (g : string) : sk :=
    if String.eqb g "g" then Seq (IfC "p" Fill Skip) (IfC "p" Touch Skip)
    else if String.eqb g "h" then Seq (IfC "p" Fill Skip) (IfC "q" Touch Skip) else Skip.
  Example accepts_correlated_guard : check env2 5 (fun _ => false) (Call "g") = N.
  Proof. reflexivity. Qed.
  Example rejects_uncorrelated_guard : check env2 5 (fun _ => false) (Call "h") = Bad.
  Proof. reflexivity. Qed.
  Example unsafe_trace_exists : den env (fun _ => false) (Seq (Loop Fill) Touch) [ET] /\ ~ safe [ET].
  Proof.
    split.
    - change [ET] with ([] ++ [ET]). constructor; constructor.
    - intros [H|[t' H]]; discriminate.
  Qed.
End SkelExample.
