(** C10, layer L2 — proofs about the waitFor / signal protocol (ConcWaitSignal.v):
    an inductive invariant of all reachable states, for any row width, any number of
    waiters and any schedule, giving
      - waitFor returns only when done >= needed                      (safety),
      - no lost wake-up: a waiter that is asleep in cond.Wait (or committed to it)
        while done >= needed always has a Broadcast of the signaller pending,
      - the protocol never deadlocks (some step is enabled until everybody is done). *)
From Coq Require Import List Arith Lia Bool.
From Webp Require Import Conc.ConcWaitSignal.
Import ListNotations.

Section Proofs.
  Variable mbW : nat.

  Notation step := (step mbW).
  Notation step_sig := (step_sig mbW).
  Notation run := (run mbW).
  Notation init := (init mbW).
  Notation next_sig := (next_sig mbW).

  (** ** list helpers *)
  Lemma set_nth_length {A} (l : list A) i v : length (set_nth l i v) = length l.
  Proof. revert i; induction l as [|h tl IH]; intros [|i]; cbn; auto. Qed.

  Lemma set_nth_eq {A} (l : list A) i v : i < length l -> nth_error (set_nth l i v) i = Some v.
  Proof. revert i; induction l as [|h tl IH]; intros [|i] Hi; cbn in *; try lia; auto. apply IH; lia. Qed.

  Lemma set_nth_neq {A} (l : list A) i j v : i <> j -> nth_error (set_nth l i v) j = nth_error l j.
  Proof. revert i j; induction l as [|h tl IH]; intros [|i] [|j] Hij; cbn; auto; try lia. Qed.

  Lemma nth_error_lt {A} (l : list A) i a : nth_error l i = Some a -> i < length l.
  Proof. intros H. apply nth_error_Some. congruence. Qed.

  (** ** classification of waiter program counters *)
  Definition counted (p : wpc) : bool :=
    match p with
    | WLock _ | WCheck _ | WWaitCall _ | WSleep _ | WWoken _ | WUnlock _ | WDec _ => true
    | _ => false
    end.
  Definition holding (p : wpc) : bool :=
    match p with WCheck _ | WWaitCall _ | WUnlock _ => true | _ => false end.
  Definition pending (p : spc) : bool :=
    match p with SLoad _ | SLock _ | SUnlock _ | SBcast _ => true | _ => false end.
  Definition load_lock (p : spc) : bool :=
    match p with SLoad _ | SLock _ => true | _ => false end.
  Definition is_unlock (p : spc) : bool := match p with SUnlock _ => true | _ => false end.

  Definition b2n (b : bool) : nat := if b then 1 else 0.

  Fixpoint ncounted (l : list wproc) : nat :=
    match l with [] => 0 | w :: tl => b2n (counted (pc w)) + ncounted tl end.

  Lemma ncounted_set_nth l j w w' : nth_error l j = Some w ->
    ncounted (set_nth l j w') + b2n (counted (pc w)) = ncounted l + b2n (counted (pc w')).
  Proof.
    revert j; induction l as [|h tl IH]; intros [|j] H; cbn in *; try discriminate.
    - inversion H; subst. lia.
    - specialize (IH j H). lia.
  Qed.

  Lemma ncounted_pos l j w : nth_error l j = Some w -> counted (pc w) = true -> 1 <= ncounted l.
  Proof.
    revert j; induction l as [|h tl IH]; intros [|j] H Hc; cbn in *; try discriminate.
    - inversion H; subst. rewrite Hc. cbn. lia.
    - specialize (IH j H Hc). lia.
  Qed.

  Lemma wake_counted w : counted (pc (wake w)) = counted (pc w).
  Proof. unfold wake. destruct (pc w) eqn:E; cbn; rewrite ?E; reflexivity. Qed.

  Lemma ncounted_wake l : ncounted (map wake l) = ncounted l.
  Proof. induction l as [|h tl IH]; cbn; [reflexivity|]. rewrite wake_counted, IH. reflexivity. Qed.

  Lemma nth_error_map_wake l j w' : nth_error (map wake l) j = Some w' ->
    exists w, nth_error l j = Some w /\ w' = wake w.
  Proof.
    rewrite nth_error_map. destruct (nth_error l j) as [w|]; cbn; [|discriminate].
    intros H; inversion H. exists w. auto.
  Qed.

  (** bounds on every [needed] value a waiter still has to wait for *)
  Definition pc_nd (p : wpc) : nat :=
    match p with
    | WIdle => 0
    | WFast nd | WInc nd | WLock nd | WCheck nd | WWaitCall nd | WSleep nd | WWoken nd
    | WUnlock nd | WDec nd => nd
    end.

  (** ** The invariant *)
  Record Inv (s : st) : Prop := {
    v_cnt : nwait s = ncounted (ws s);
    v_mu_w : forall j w, nth_error (ws s) j = Some w ->
               (holding (pc w) = true <-> mu s = Some (OW j));
    v_mu_range : forall j, mu s = Some (OW j) -> j < length (ws s);
    v_mu_s : mu s = Some OSig <-> is_unlock (sig s) = true;
    v_sig : match sig s with
            | SStore d => S (done s) = d /\ d <= mbW
            | SLoad d | SLock d | SUnlock d | SBcast d => done s = d /\ 1 <= d <= mbW
            | SDone => done s = mbW
            end;
    v_ret : forall j w nd, nth_error (ws s) j = Some w ->
              pc w = WUnlock nd \/ pc w = WDec nd -> nd <= done s;
    v_A : forall j w nd, nth_error (ws s) j = Some w -> pc w = WWaitCall nd ->
              nd <= done s -> load_lock (sig s) = true;
    v_B : forall j w nd, nth_error (ws s) j = Some w -> pc w = WSleep nd ->
              nd <= done s -> pending (sig s) = true;
    v_nd : forall j w, nth_error (ws s) j = Some w ->
              pc_nd (pc w) <= mbW /\ Forall (fun nd => nd <= mbW) (todo w) }.

  Lemma init_inv calls : Forall (Forall (fun nd => nd <= mbW)) calls -> Inv (init calls).
  Proof.
    intros Hc. unfold ConcWaitSignal.init.
    assert (Hidle : forall j w, nth_error (map (fun c => mkW WIdle c) calls) j = Some w ->
                     pc w = WIdle /\ In (todo w) calls).
    { intros j w H. rewrite nth_error_map in H. destruct (nth_error calls j) as [c|] eqn:E; cbn in H; [|discriminate].
      inversion H; subst. cbn. split; [reflexivity|]. eapply nth_error_In; eauto. }
    constructor; cbn [done nwait mu sig ws].
    - clear. induction calls as [|c calls IH]; cbn; [reflexivity|exact IH].
    - intros j w H. destruct (Hidle j w H) as [Hp _]. rewrite Hp. cbn. split; discriminate.
    - discriminate.
    - destruct (mbW =? 0); cbn; split; discriminate.
    - destruct (mbW =? 0) eqn:E; cbn.
      + apply Nat.eqb_eq in E. lia.
      + apply Nat.eqb_neq in E. lia.
    - intros j w nd H [Hp|Hp]; destruct (Hidle j w H) as [Hp' _]; congruence.
    - intros j w nd H Hp. destruct (Hidle j w H) as [Hp' _]; congruence.
    - intros j w nd H Hp. destruct (Hidle j w H) as [Hp' _]; congruence.
    - intros j w H. destruct (Hidle j w H) as [Hp Hin]. rewrite Hp. cbn. split; [lia|].
      rewrite Forall_forall in Hc. exact (Hc _ Hin).
  Qed.

  Ltac bd := split; intros HH; first [discriminate HH | exact HH | reflexivity].

  (** ** Preservation: signaller steps *)
  Lemma next_sig_spec d : next_sig d = SStore (S d) /\ d < mbW \/ next_sig d = SDone /\ mbW <= d.
  Proof. unfold ConcWaitSignal.next_sig. destruct (d <? mbW) eqn:E; [left|right];
    [apply Nat.ltb_lt in E|apply Nat.ltb_ge in E]; auto. Qed.

  Lemma step_sig_inv s s' : Inv s -> step_sig s = Some s' -> Inv s'.
  Proof.
    intros HI Hs. unfold ConcWaitSignal.step_sig in Hs.
    pose proof (v_sig s HI) as Hsig.
    destruct (sig s) as [d|d|d|d|d|] eqn:Esig; try discriminate.
    - (* SStore d *)
      inversion Hs; subst s'; clear Hs. destruct Hsig as [Hd Hle].
      constructor; cbn [done nwait mu sig ws].
      + apply (v_cnt s HI).
      + apply (v_mu_w s HI).
      + apply (v_mu_range s HI).
      + rewrite (v_mu_s s HI), Esig. cbn. bd.
      + lia.
      + intros j w nd H Hp. pose proof (v_ret s HI j w nd H Hp). lia.
      + intros; reflexivity.
      + intros; reflexivity.
      + apply (v_nd s HI).
    - (* SLoad d *)
      inversion Hs; subst s'; clear Hs. destruct Hsig as [Hd Hle].
      constructor; cbn [done nwait mu sig ws].
      + apply (v_cnt s HI).
      + apply (v_mu_w s HI).
      + apply (v_mu_range s HI).
      + rewrite (v_mu_s s HI), Esig.
        destruct (0 <? nwait s); cbn; [bd|].
        destruct (next_sig_spec d) as [[-> _]|[-> _]]; cbn; bd.
      + destruct (0 <? nwait s); cbn; [lia|].
        destruct (next_sig_spec d) as [[-> Hlt]|[-> Hge]]; lia.
      + apply (v_ret s HI).
      + intros j w nd H Hp Hnd. destruct (0 <? nwait s) eqn:E; [reflexivity|].
        apply Nat.ltb_ge in E. pose proof (ncounted_pos (ws s) j w H) as Hpos.
        rewrite Hp in Hpos. specialize (Hpos eq_refl). rewrite <- (v_cnt s HI) in Hpos. lia.
      + intros j w nd H Hp Hnd. destruct (0 <? nwait s) eqn:E; [reflexivity|].
        apply Nat.ltb_ge in E. pose proof (ncounted_pos (ws s) j w H) as Hpos.
        rewrite Hp in Hpos. specialize (Hpos eq_refl). rewrite <- (v_cnt s HI) in Hpos. lia.
      + apply (v_nd s HI).
    - (* SLock d *)
      destruct (mu s) as [o|] eqn:Emu; [discriminate|].
      inversion Hs; subst s'; clear Hs. destruct Hsig as [Hd Hle].
      constructor; cbn [done nwait mu sig ws].
      + apply (v_cnt s HI).
      + intros j w H. rewrite (v_mu_w s HI j w H), Emu. bd.
      + discriminate.
      + cbn. split; reflexivity.
      + lia.
      + apply (v_ret s HI).
      + intros j w nd H Hp Hnd. exfalso.
        pose proof (proj1 (v_mu_w s HI j w H)) as Hh. rewrite Hp in Hh. specialize (Hh eq_refl). congruence.
      + intros; reflexivity.
      + apply (v_nd s HI).
    - (* SUnlock d *)
      inversion Hs; subst s'; clear Hs. destruct Hsig as [Hd Hle].
      assert (Emu : mu s = Some OSig) by (apply (v_mu_s s HI); rewrite Esig; reflexivity).
      constructor; cbn [done nwait mu sig ws].
      + apply (v_cnt s HI).
      + intros j w H. rewrite (v_mu_w s HI j w H), Emu. bd.
      + discriminate.
      + cbn. bd.
      + lia.
      + apply (v_ret s HI).
      + intros j w nd H Hp Hnd. exfalso.
        pose proof (proj1 (v_mu_w s HI j w H)) as Hh. rewrite Hp in Hh. specialize (Hh eq_refl). congruence.
      + intros; reflexivity.
      + apply (v_nd s HI).
    - (* SBcast d *)
      inversion Hs; subst s'; clear Hs. destruct Hsig as [Hd Hle].
      assert (Hwk : forall j w', nth_error (map wake (ws s)) j = Some w' ->
                 exists w, nth_error (ws s) j = Some w /\ w' = wake w) by (intros; now apply nth_error_map_wake).
      constructor; cbn [done nwait mu sig ws].
      + rewrite ncounted_wake. apply (v_cnt s HI).
      + intros j w' H. destruct (Hwk j w' H) as (w & Hw & ->).
        rewrite <- (v_mu_w s HI j w Hw). unfold wake. destruct (pc w) eqn:E; cbn; rewrite ?E; reflexivity.
      + intros j Hj. rewrite map_length. apply (v_mu_range s HI j Hj).
      + rewrite (v_mu_s s HI), Esig. cbn.
        destruct (next_sig_spec d) as [[-> _]|[-> _]]; cbn; bd.
      + destruct (next_sig_spec d) as [[-> Hlt]|[-> Hge]]; lia.
      + intros j w' nd H Hp. destruct (Hwk j w' H) as (w & Hw & ->).
        apply (v_ret s HI j w nd Hw). unfold wake in Hp. destruct (pc w) eqn:E; cbn in Hp; rewrite ?E in Hp;
          destruct Hp as [Hp|Hp]; try discriminate; auto.
      + intros j w' nd H Hp Hnd. exfalso. destruct (Hwk j w' H) as (w & Hw & ->).
        assert (Hpw : pc w = WWaitCall nd).
        { unfold wake in Hp. destruct (pc w) eqn:E; cbn in Hp; rewrite ?E in Hp; try discriminate; auto. }
        pose proof (v_A s HI j w nd Hw Hpw Hnd) as Hll. rewrite Esig in Hll. discriminate.
      + intros j w' nd H Hp Hnd. exfalso. destruct (Hwk j w' H) as (w & Hw & ->).
        unfold wake in Hp. destruct (pc w) eqn:E; cbn in Hp; rewrite ?E in Hp; discriminate.
      + intros j w' H. destruct (Hwk j w' H) as (w & Hw & ->).
        destruct (v_nd s HI j w Hw) as [H1 H2]. unfold wake. destruct (pc w) eqn:E; cbn; rewrite ?E; cbn in *; auto.
  Qed.

  (** ** Preservation: waiter steps.  A waiter step rewrites only its own entry. *)
  Lemma other_entries s j p t k w :
    k <> j -> nth_error (setw s j p t) k = Some w -> nth_error (ws s) k = Some w.
  Proof. intros Hk H. unfold setw in H. rewrite set_nth_neq in H by congruence. exact H. Qed.

  Lemma own_entry s j p t w0 w :
    nth_error (ws s) j = Some w0 -> nth_error (setw s j p t) j = Some w -> w = mkW p t.
  Proof.
    intros H0 H. unfold setw in H. rewrite set_nth_eq in H by (eapply nth_error_lt; eauto).
    inversion H; reflexivity.
  Qed.

  (** generic frame: a waiter step that changes neither [done] nor [sig] *)
  Lemma waiter_step_inv s j w p' t' nw' mu' :
    Inv s -> nth_error (ws s) j = Some w ->
    (* counter *)
    nw' + b2n (counted (pc w)) = nwait s + b2n (counted p') ->
    (* mutex *)
    (holding p' = true <-> mu' = Some (OW j)) ->
    (forall k, k <> j -> (mu' = Some (OW k) <-> mu s = Some (OW k))) ->
    (mu' = Some OSig <-> mu s = Some OSig) ->
    (* return condition, wait commitments *)
    (forall nd, p' = WUnlock nd \/ p' = WDec nd -> nd <= done s) ->
    (forall nd, p' = WWaitCall nd -> nd <= done s -> load_lock (sig s) = true) ->
    (forall nd, p' = WSleep nd -> nd <= done s -> pending (sig s) = true) ->
    pc_nd p' <= mbW -> Forall (fun nd => nd <= mbW) t' ->
    Inv (mkSt (done s) nw' mu' (sig s) (setw s j p' t')).
  Proof.
    intros HI Hw Hcnt Hmu Hmuk Hmus Hret HA HB Hnd Ht.
    pose proof (nth_error_lt _ _ _ Hw) as Hjl.
    constructor; cbn [done nwait mu sig ws].
    - pose proof (ncounted_set_nth (ws s) j w (mkW p' t') Hw) as Hn. cbn [pc] in Hn.
      unfold setw. rewrite <- (v_cnt s HI) in Hn. lia.
    - intros k wk Hk. destruct (Nat.eq_dec k j) as [->|Hne].
      + rewrite (own_entry s j p' t' w wk Hw Hk). cbn [pc]. exact Hmu.
      + pose proof (other_entries s j p' t' k wk Hne Hk) as Hk'.
        rewrite (v_mu_w s HI k wk Hk'). symmetry. apply Hmuk. exact Hne.
    - intros k Hk. unfold setw. rewrite set_nth_length. destruct (Nat.eq_dec k j) as [->|Hne]; [exact Hjl|].
      apply (v_mu_range s HI). apply Hmuk; assumption.
    - rewrite Hmus. apply (v_mu_s s HI).
    - apply (v_sig s HI).
    - intros k wk nd Hk Hp. destruct (Nat.eq_dec k j) as [->|Hne].
      + rewrite (own_entry s j p' t' w wk Hw Hk) in Hp. cbn [pc] in Hp. exact (Hret nd Hp).
      + exact (v_ret s HI k wk nd (other_entries s j p' t' k wk Hne Hk) Hp).
    - intros k wk nd Hk Hp Hle. destruct (Nat.eq_dec k j) as [->|Hne].
      + rewrite (own_entry s j p' t' w wk Hw Hk) in Hp. cbn [pc] in Hp. exact (HA nd Hp Hle).
      + exact (v_A s HI k wk nd (other_entries s j p' t' k wk Hne Hk) Hp Hle).
    - intros k wk nd Hk Hp Hle. destruct (Nat.eq_dec k j) as [->|Hne].
      + rewrite (own_entry s j p' t' w wk Hw Hk) in Hp. cbn [pc] in Hp. exact (HB nd Hp Hle).
      + exact (v_B s HI k wk nd (other_entries s j p' t' k wk Hne Hk) Hp Hle).
    - intros k wk Hk. destruct (Nat.eq_dec k j) as [->|Hne].
      + rewrite (own_entry s j p' t' w wk Hw Hk). cbn [pc todo]. split; assumption.
      + exact (v_nd s HI k wk (other_entries s j p' t' k wk Hne Hk)).
  Qed.

  Lemma mu_not_me s j w : Inv s -> nth_error (ws s) j = Some w -> holding (pc w) = false ->
    mu s <> Some (OW j).
  Proof. intros HI Hw Hh Hm. apply (v_mu_w s HI j w Hw) in Hm. congruence. Qed.

  (* side conditions of [waiter_step_inv] *)
  Ltac t_same := intros; tauto.
  Ltac t_nohold Hnotme := cbn; split; intros HH; [discriminate HH|exfalso; apply Hnotme; [reflexivity|exact HH]].
  Ltac t_none := intros; cbn; split; intros HH; first [discriminate HH | (inversion HH; congruence) | congruence].
  Ltac t_noret := intros ? [HH|HH]; discriminate HH.
  Ltac t_nopc := intros ? HH; discriminate HH.

  Lemma step_w_inv s j s' : Inv s -> step_w s j = Some s' -> Inv s'.
  Proof.
    intros HI Hs. unfold step_w in Hs.
    destruct (nth_error (ws s) j) as [w|] eqn:Hw; [|discriminate].
    destruct (v_nd s HI j w Hw) as [Hnd Htodo].
    pose proof (mu_not_me s j w HI Hw) as Hnotme.
    pose proof (proj1 (v_mu_w s HI j w Hw)) as Hhold.
    destruct (pc w) as [|nd|nd|nd|nd|nd|nd|nd|nd|nd] eqn:Epc; cbn [pc_nd holding] in Hnd, Hnotme, Hhold.
    - (* WIdle: start the next call *)
      destruct (todo w) as [|nd rest] eqn:Et; [discriminate|]. inversion Hs; subst s'; clear Hs.
      inversion Htodo; subst.
      apply (waiter_step_inv s j w (WFast nd) rest (nwait s) (mu s) HI Hw).
      + rewrite Epc; cbn; lia.
      + t_nohold Hnotme.
      + t_same.
      + t_same.
      + t_noret.
      + t_nopc.
      + t_nopc.
      + cbn; assumption.
      + assumption.
    - (* WFast *)
      inversion Hs; subst s'; clear Hs.
      destruct (nd <=? done s) eqn:E.
      + apply (waiter_step_inv s j w WIdle (todo w) (nwait s) (mu s) HI Hw).
        * rewrite Epc; cbn; lia.
        * t_nohold Hnotme.
        * t_same.
        * t_same.
        * t_noret.
        * t_nopc.
        * t_nopc.
        * cbn; lia.
        * assumption.
      + apply (waiter_step_inv s j w (WInc nd) (todo w) (nwait s) (mu s) HI Hw).
        * rewrite Epc; cbn; lia.
        * t_nohold Hnotme.
        * t_same.
        * t_same.
        * t_noret.
        * t_nopc.
        * t_nopc.
        * cbn; assumption.
        * assumption.
    - (* WInc *)
      inversion Hs; subst s'; clear Hs.
      apply (waiter_step_inv s j w (WLock nd) (todo w) (S (nwait s)) (mu s) HI Hw).
      + rewrite Epc; cbn; lia.
      + t_nohold Hnotme.
      + t_same.
      + t_same.
      + t_noret.
      + t_nopc.
      + t_nopc.
      + cbn; assumption.
      + assumption.
    - (* WLock *)
      destruct (mu s) as [o|] eqn:Emu; [discriminate|]. inversion Hs; subst s'; clear Hs.
      apply (waiter_step_inv s j w (WCheck nd) (todo w) (nwait s) (Some (OW j)) HI Hw).
      + rewrite Epc; cbn; lia.
      + cbn; split; reflexivity.
      + t_none.
      + t_none.
      + t_noret.
      + t_nopc.
      + t_nopc.
      + cbn; assumption.
      + assumption.
    - (* WCheck *)
      inversion Hs; subst s'; clear Hs.
      assert (Hm : mu s = Some (OW j)) by (apply Hhold; reflexivity).
      destruct (done s <? nd) eqn:E.
      + apply Nat.ltb_lt in E.
        apply (waiter_step_inv s j w (WWaitCall nd) (todo w) (nwait s) (mu s) HI Hw).
        * rewrite Epc; cbn; lia.
        * cbn; split; intros; [exact Hm|reflexivity].
        * t_same.
        * t_same.
        * t_noret.
        * intros nd' HH Hle. inversion HH; subst. lia.
        * t_nopc.
        * cbn; assumption.
        * assumption.
      + apply Nat.ltb_ge in E.
        apply (waiter_step_inv s j w (WUnlock nd) (todo w) (nwait s) (mu s) HI Hw).
        * rewrite Epc; cbn; lia.
        * cbn; split; intros; [exact Hm|reflexivity].
        * t_same.
        * t_same.
        * intros nd' [HH|HH]; inversion HH; subst; lia.
        * t_nopc.
        * t_nopc.
        * cbn; assumption.
        * assumption.
    - (* WWaitCall: unlock + enqueue atomically *)
      inversion Hs; subst s'; clear Hs.
      assert (Hm : mu s = Some (OW j)) by (apply Hhold; reflexivity).
      apply (waiter_step_inv s j w (WSleep nd) (todo w) (nwait s) None HI Hw).
      + rewrite Epc; cbn; lia.
      + cbn; split; intros HH; discriminate HH.
      + intros k Hk. rewrite Hm. split; intros HH; [discriminate HH|inversion HH; congruence].
      + rewrite Hm. split; intros HH; discriminate HH.
      + t_noret.
      + t_nopc.
      + intros nd' HH Hle. inversion HH; subst nd'.
        pose proof (v_A s HI j w nd Hw Epc Hle) as Hll.
        destruct (sig s); cbn in *; congruence.
      + cbn; assumption.
      + assumption.
    - (* WSleep *) discriminate.
    - (* WWoken: re-acquire *)
      destruct (mu s) as [o|] eqn:Emu; [discriminate|]. inversion Hs; subst s'; clear Hs.
      apply (waiter_step_inv s j w (WCheck nd) (todo w) (nwait s) (Some (OW j)) HI Hw).
      + rewrite Epc; cbn; lia.
      + cbn; split; reflexivity.
      + t_none.
      + t_none.
      + t_noret.
      + t_nopc.
      + t_nopc.
      + cbn; assumption.
      + assumption.
    - (* WUnlock *)
      inversion Hs; subst s'; clear Hs.
      assert (Hm : mu s = Some (OW j)) by (apply Hhold; reflexivity).
      pose proof (v_ret s HI j w nd Hw (or_introl Epc)) as Hr.
      apply (waiter_step_inv s j w (WDec nd) (todo w) (nwait s) None HI Hw).
      + rewrite Epc; cbn; lia.
      + cbn; split; intros HH; discriminate HH.
      + intros k Hk. rewrite Hm. split; intros HH; [discriminate HH|inversion HH; congruence].
      + rewrite Hm. split; intros HH; discriminate HH.
      + intros nd' [HH|HH]; inversion HH; subst; exact Hr.
      + t_nopc.
      + t_nopc.
      + cbn; assumption.
      + assumption.
    - (* WDec *)
      inversion Hs; subst s'; clear Hs.
      pose proof (ncounted_pos (ws s) j w Hw) as Hpos. rewrite Epc in Hpos. specialize (Hpos eq_refl).
      rewrite <- (v_cnt s HI) in Hpos.
      apply (waiter_step_inv s j w WIdle (todo w) (nwait s - 1) (mu s) HI Hw).
      + rewrite Epc; cbn; lia.
      + t_nohold Hnotme.
      + t_same.
      + t_same.
      + t_noret.
      + t_nopc.
      + t_nopc.
      + cbn; lia.
      + assumption.
  Qed.

  Lemma step_inv s l s' : Inv s -> step s l = Some s' -> Inv s'.
  Proof. destruct l as [|j]; cbn [ConcWaitSignal.step]; [apply step_sig_inv|apply step_w_inv]. Qed.

  Theorem l2_inv : forall calls sched s,
    Forall (Forall (fun nd => nd <= mbW)) calls ->
    run (init calls) sched = Some s -> Inv s.
  Proof.
    intros calls sched s Hc.
    assert (G : forall s0, Inv s0 -> forall s1, run s0 sched = Some s1 -> Inv s1).
    { induction sched as [|l rest IH]; intros s0 H0 s1 Hr; cbn [ConcWaitSignal.run] in Hr.
      - inversion Hr; subst; exact H0.
      - destruct (step s0 l) as [s2|] eqn:Hs; [|discriminate].
        exact (IH s2 (step_inv s0 l s2 H0 Hs) s1 Hr). }
    exact (G (init calls) (init_inv calls Hc) s).
  Qed.

  (** ** Safety: waitFor returns only when done >= needed *)
  Definition in_call (p : wpc) : bool := match p with WIdle => false | _ => true end.

  Theorem waitfor_returns_only_when_done : forall calls sched s j s' w w',
    Forall (Forall (fun nd => nd <= mbW)) calls ->
    run (init calls) sched = Some s -> step s (LWt j) = Some s' ->
    nth_error (ws s) j = Some w -> nth_error (ws s') j = Some w' ->
    in_call (pc w) = true -> pc w' = WIdle ->
    pc_nd (pc w) <= done s'.
  Proof.
    intros calls sched s j s' w w' Hc Hr Hs Hw Hw' Hin Hret.
    pose proof (l2_inv calls sched s Hc Hr) as HI.
    cbn [ConcWaitSignal.step] in Hs. unfold step_w in Hs. rewrite Hw in Hs.
    pose proof (nth_error_lt _ _ _ Hw) as Hjl.
    destruct (pc w) as [|nd|nd|nd|nd|nd|nd|nd|nd|nd] eqn:Epc; cbn in Hin; try discriminate;
      try (destruct (mu s); [discriminate|]);
      inversion Hs; subst s'; cbn [ws done] in *; unfold setw in Hw';
      rewrite set_nth_eq in Hw' by exact Hjl; inversion Hw'; subst w'; cbn [pc] in Hret; try discriminate.
    - destruct (nd <=? done s) eqn:E; [apply Nat.leb_le in E; exact E|discriminate].
    - destruct (done s <? nd); discriminate.
    - cbn [pc_nd]. exact (v_ret s HI j w nd Hw (or_intror Epc)).
  Qed.

  (** ** No lost wake-up *)
  Theorem no_lost_wakeup : forall calls sched s j w nd,
    Forall (Forall (fun nd => nd <= mbW)) calls ->
    run (init calls) sched = Some s -> nth_error (ws s) j = Some w ->
    nd <= done s ->
    (pc w = WSleep nd -> pending (sig s) = true) /\
    (pc w = WWaitCall nd -> load_lock (sig s) = true /\ mu s = Some (OW j)).
  Proof.
    intros calls sched s j w nd Hc Hr Hw Hnd. pose proof (l2_inv calls sched s Hc Hr) as HI. split.
    - intros Hp. exact (v_B s HI j w nd Hw Hp Hnd).
    - intros Hp. split; [exact (v_A s HI j w nd Hw Hp Hnd)|].
      apply (v_mu_w s HI j w Hw). rewrite Hp. reflexivity.
  Qed.

  (** a pending broadcast really happens: from a [pending] signaller state the
      signaller's own next steps lead to [SBcast] unless it is blocked on the mutex by
      a waiter that is itself enabled (see [l2_deadlock_free]); and the broadcast
      wakes every sleeper *)
  Theorem broadcast_wakes_all : forall s d s', sig s = SBcast d -> step s LS = Some s' ->
    forall j w', nth_error (ws s') j = Some w' -> forall nd, pc w' <> WSleep nd.
  Proof.
    intros s d s' Hsig Hs j w' Hw' nd. cbn [ConcWaitSignal.step] in Hs.
    unfold ConcWaitSignal.step_sig in Hs. rewrite Hsig in Hs. inversion Hs; subst s'. cbn [ws] in Hw'.
    destruct (nth_error_map_wake _ _ _ Hw') as (w & _ & ->).
    unfold wake. destruct (pc w) eqn:E; cbn; rewrite ?E; discriminate.
  Qed.

  (** ** Deadlock freedom of the protocol *)
  Lemma holder_enabled s k w : Inv s -> nth_error (ws s) k = Some w -> holding (pc w) = true ->
    step s (LWt k) <> None.
  Proof.
    intros HI Hw Hh. cbn [ConcWaitSignal.step]. unfold step_w. rewrite Hw.
    destruct (pc w); cbn in Hh; try discriminate; discriminate.
  Qed.

  Lemma mutex_holder s o : Inv s -> mu s = Some o ->
    (o = OSig /\ is_unlock (sig s) = true) \/
    (exists k w, o = OW k /\ nth_error (ws s) k = Some w /\ holding (pc w) = true).
  Proof.
    intros HI Hm. destruct o as [|k].
    - left. split; [reflexivity|]. apply (v_mu_s s HI). exact Hm.
    - right. pose proof (v_mu_range s HI k Hm) as Hk.
      destruct (nth_error (ws s) k) as [w|] eqn:Hw; [|apply nth_error_None in Hw; lia].
      exists k, w. split; [reflexivity|]. split; [exact Hw|]. apply (v_mu_w s HI k w Hw). exact Hm.
  Qed.

  Theorem l2_deadlock_free : forall calls sched s,
    Forall (Forall (fun nd => nd <= mbW)) calls ->
    run (init calls) sched = Some s -> finished s = false -> exists l, step s l <> None.
  Proof.
    intros calls sched s Hc Hr Hnf. pose proof (l2_inv calls sched s Hc Hr) as HI.
    destruct (sig s) as [d|d|d|d|d|] eqn:Esig.
    1,2,4,5: exists LS; cbn [ConcWaitSignal.step]; unfold ConcWaitSignal.step_sig; rewrite Esig; discriminate.
    - (* SLock: enabled unless a waiter holds the mutex — then that waiter is enabled *)
      destruct (mu s) as [o|] eqn:Emu.
      + destruct (mutex_holder s o HI Emu) as [[-> Hu]|(k & w & -> & Hw & Hh)].
        * rewrite Esig in Hu. discriminate.
        * exists (LWt k). exact (holder_enabled s k w HI Hw Hh).
      + exists LS. cbn [ConcWaitSignal.step]. unfold ConcWaitSignal.step_sig. rewrite Esig, Emu. discriminate.
    - (* SDone: done = mbW; some waiter is unfinished and it (or the mutex holder) is enabled *)
      pose proof (v_sig s HI) as Hsig. rewrite Esig in Hsig.
      unfold finished in Hnf. rewrite Esig in Hnf. cbn [andb] in Hnf.
      assert (Hex : exists j w, nth_error (ws s) j = Some w /\ w_finished w = false).
      { clear -Hnf. induction (ws s) as [|h tl IH]; cbn in Hnf; [discriminate|].
        destruct (w_finished h) eqn:E.
        - destruct (IH Hnf) as (j & w & Hj & Hw). exists (S j), w. auto.
        - exists 0, h. auto. }
      destruct Hex as (j & w & Hw & Hwf).
      assert (Hlock : forall nd, pc w = WLock nd \/ pc w = WWoken nd -> exists l, step s l <> None).
      { intros nd Hp. destruct (mu s) as [o|] eqn:Emu.
        - destruct (mutex_holder s o HI Emu) as [[-> Hu]|(k & wk & -> & Hk & Hh)].
          + rewrite Esig in Hu. discriminate.
          + exists (LWt k). exact (holder_enabled s k wk HI Hk Hh).
        - exists (LWt j). cbn [ConcWaitSignal.step]. unfold step_w. rewrite Hw.
          destruct Hp as [-> | ->]; rewrite Emu; discriminate. }
      destruct (pc w) as [|nd|nd|nd|nd|nd|nd|nd|nd|nd] eqn:Epc.
      + unfold w_finished in Hwf. rewrite Epc in Hwf. destruct (todo w) as [|nd rest] eqn:Et; [discriminate|].
        exists (LWt j). cbn [ConcWaitSignal.step]. unfold step_w. rewrite Hw, Epc, Et. discriminate.
      + exists (LWt j). cbn [ConcWaitSignal.step]. unfold step_w. rewrite Hw, Epc. discriminate.
      + exists (LWt j). cbn [ConcWaitSignal.step]. unfold step_w. rewrite Hw, Epc. discriminate.
      + apply (Hlock nd). now left.
      + exists (LWt j). cbn [ConcWaitSignal.step]. unfold step_w. rewrite Hw, Epc. discriminate.
      + exists (LWt j). cbn [ConcWaitSignal.step]. unfold step_w. rewrite Hw, Epc. discriminate.
      + (* asleep with done = mbW >= nd and no broadcast pending: impossible *)
        exfalso. destruct (v_nd s HI j w Hw) as [Hnd _]. rewrite Epc in Hnd. cbn in Hnd.
        pose proof (v_B s HI j w nd Hw Epc ltac:(lia)) as Hp. rewrite Esig in Hp. discriminate.
      + apply (Hlock nd). now right.
      + exists (LWt j). cbn [ConcWaitSignal.step]. unfold step_w. rewrite Hw, Epc. discriminate.
      + exists (LWt j). cbn [ConcWaitSignal.step]. unfold step_w. rewrite Hw, Epc. discriminate.
  Qed.

End Proofs.

(** Not vacuous: the encoder's situation for one row of width 3 — the worker of the
    row below calls waitFor(2), waitFor(3), waitFor(3) and the recorder waitFor(3) —
    under a schedule that drives the first waiter into cond.Wait and has it woken by
    the broadcast of signal(2). *)
Example l2_run_example :
  exists s, ConcWaitSignal.run 3 (ConcWaitSignal.init 3 [[2; 3; 3]; [3]])
      [LWt 0; LWt 0; LWt 0; LWt 0; LWt 0;  (* call, fast check fails, inc, lock, check: done 0 < 2 *)
       LS;                                 (* signal(1): store *)
       LWt 0;                              (* cond.Wait: unlock + sleep *)
       LS; LS; LS; LS;                     (* load (waiters = 1), lock, unlock, broadcast *)
       LWt 0; LWt 0;                       (* woken: re-lock, re-check: 1 < 2 *)
       LS;                                 (* signal(2): store — the waiter holds the mutex *)
       LWt 0;                              (* cond.Wait although done = 2 >= needed: the critical window *)
       LS; LS; LS; LS]                     (* load, lock, unlock, broadcast: wakes it *)
      = Some s /\
    exists w, nth_error (ws s) 0 = Some w /\ pc w = WWoken 2 /\ ConcWaitSignal.done s = 2.
Proof. eexists. split; [vm_compute; reflexivity|]. eexists. repeat split. Qed.
