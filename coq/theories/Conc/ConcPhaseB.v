(** C10 — Phase A (row workers, call graph of encodeRow) and Phase B (overlapped token
    recorder, call graph of recordAllTokens) of encodeFrameParallel run concurrently.
    The translator (tools/gosrc2v/phaseb.go -> Gen/PhaseB.v) regenerates, from the
    current source, the sets of VP8Encoder fields each phase reads and writes.
    Here: the predicate the generated sets must satisfy.

    [synchronised]: fields both phases touch by design, handed over row by row
    through the progress counter: Phase B touches mbInfo[y*mbW .. ] only after
    done[y] = mbW ([recorder_order] in ConcRowSyncProofs.v), Phase A never returns
    to a completed row. *)
From Coq Require Import List String Bool.
Import ListNotations.
Open Scope string_scope.

Definition synchronised : list string := ["mbInfo"].

Definition mem (x : string) (l : list string) : bool := existsb (String.eqb x) l.

(** every element of [ws] that is not synchronised is absent from [others] *)
Definition disjoint_except (sync ws others : list string) : bool :=
  forallb (fun w => mem w sync || negb (mem w others)) ws.

Definition phases_disjoint (a_reads a_writes b_reads b_writes : list string) : bool :=
  disjoint_except synchronised b_writes (a_reads ++ a_writes) &&
  disjoint_except synchronised a_writes (b_reads ++ b_writes).

Lemma mem_In x l : mem x l = true <-> In x l.
Proof.
  unfold mem. rewrite existsb_exists. split.
  - intros (y & Hy & He). apply String.eqb_eq in He. now subst.
  - intros H. exists x. split; [exact H|apply String.eqb_refl].
Qed.

(** What the boolean check means. *)
Theorem phases_disjoint_spec : forall a_reads a_writes b_reads b_writes,
  phases_disjoint a_reads a_writes b_reads b_writes = true ->
  (forall fld, In fld b_writes -> In fld a_reads \/ In fld a_writes -> In fld synchronised) /\
  (forall fld, In fld a_writes -> In fld b_reads \/ In fld b_writes -> In fld synchronised).
Proof.
  intros ar aw br bw H. unfold phases_disjoint in H. apply andb_true_iff in H. destruct H as [H1 H2].
  unfold disjoint_except in H1, H2. rewrite forallb_forall in H1, H2. split.
  - intros fld Hb Ha. specialize (H1 fld Hb). apply orb_true_iff in H1. destruct H1 as [H1|H1].
    + now apply mem_In.
    + exfalso. apply negb_true_iff in H1. assert (Hm : mem fld (ar ++ aw) = true).
      { apply mem_In. apply in_or_app. exact Ha. } congruence.
  - intros fld Ha Hb. specialize (H2 fld Ha). apply orb_true_iff in H2. destruct H2 as [H2|H2].
    + now apply mem_In.
    + exfalso. apply negb_true_iff in H2. assert (Hm : mem fld (br ++ bw) = true).
      { apply mem_In. apply in_or_app. exact Hb. } congruence.
Qed.

(** The check is not vacuous: a recorder that also refreshed the probabilities
    (writes "proba", which the workers read) is rejected. *)
Example phases_conflict_detected :
  phases_disjoint ["proba"; "yPlane"] ["mbInfo"; "yPlane"] ["topNz"] ["topNz"; "mbInfo"; "proba"] = false.
Proof. reflexivity. Qed.
Example phases_ok_example :
  phases_disjoint ["proba"; "yPlane"] ["mbInfo"; "yPlane"] ["topNz"; "proba"] ["topNz"; "mbInfo"] = true.
Proof. reflexivity. Qed.
