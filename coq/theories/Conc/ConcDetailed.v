(** C10 — the detailed system: the row pipeline of encodeFrameParallel in which every
    worker executes the REAL [waitFor] / [signal] code around each macroblock, one
    atomic operation per transition (layer L2 embedded in the pipeline of layer L1):

      worker:  claim ticket y
               for x in 0..mbW-1:
                 if y > 0: waitFor(y-1, min(x+2, mbW))      phases [wph], on row y-1's rowState
                 macroblock body: read top[x], top[x+1]   -- sub-step 1 (DCompute -> DHold)
                                  compute; write top[x], out -- sub-step 2 (DHold -> DSig), on the values read in sub-step 1
                 signal(y, x+1)                             phases [sph], on row y's rowState
      recorder: for y in 0..mbH-1: waitFor(y, mbW); record row y

    Per row: [done] (atomic), [nwait] (the waiters counter), [mu] (mutex owner); the
    wait-set of a row's condition variable is the set of processes whose phase on that
    row is [PSleep].  [adone] is a ghost (history) variable: the progress of a row
    counted at the macroblock body rather than at the later [done.Store]; no transition
    reads it.  Proofs (forward simulation onto L1, deadlock freedom) are in
    ConcDetailedProofs.v. *)
From Coq Require Import List Arith Lia Bool.
From Webp Require Import Conc.ConcRowSync.
Import ListNotations.

Inductive wph := PFast | PInc | PLock | PCheck | PWaitCall | PSleep | PWoken | PUnlock | PDec.
Inductive sph := QStore | QLoad | QLock | QUnlock | QBcast.
Inductive owner := OWk (i : nat) | ORec.

(** One step of a process inside [waitFor(row, nd)], given the row's [done], [nwait],
    [mu].  [WCont]: still inside; [WRet]: the call returns. *)
Inductive wres := WCont (ph : wph) (nw : nat) (m : option owner) | WRet (nw : nat) (m : option owner).

Definition wait_step (d nw : nat) (m : option owner) (me : owner) (nd : nat) (ph : wph) : option wres :=
  match ph with
  | PFast => Some (if nd <=? d then WRet nw m else WCont PInc nw m)
  | PInc => Some (WCont PLock (S nw) m)
  | PLock | PWoken => match m with None => Some (WCont PCheck nw (Some me)) | Some _ => None end
  | PCheck => Some (WCont (if d <? nd then PWaitCall else PUnlock) nw m)
  | PWaitCall => Some (WCont PSleep nw None)          (* cond.Wait: unlock + enqueue atomically *)
  | PSleep => None                                    (* asleep until a Broadcast *)
  | PUnlock => Some (WCont PDec nw None)
  | PDec => Some (WRet (nw - 1) m)
  end.

Section Detailed.
  Variable V : Type.
  Variable v0 : V.
  Variable f : nat -> nat -> V -> V -> V -> V -> V.
  Variables mbW mbH : nat.

  Inductive dw :=
  | DIdle
  | DExited
  | DWait (y x : nat) (tl l : V) (ph : wph)     (* y > 0: inside waitFor(y-1, needed x) before MB x *)
  | DCompute (y x : nat) (tl l : V)             (* the wait is over: the body reads top[x], top[x+1] next *)
  | DHold (y x : nat) (tl l t tr : V)           (* contexts read (t, tr); computing; writes top[x], out next *)
  | DSig (y x : nat) (tl' l' : V) (ph : sph).   (* inside signal(y, x+1); tl' l' = local context for x+1 *)

  Inductive dr := RWait (ph : wph) | RReady.    (* recorder: inside waitFor(recRow, mbW) / about to record *)

  Record dstate := mkD {
    d_next : nat;
    d_workers : list dw;
    d_rec : dr;
    d_recRow : nat;
    d_done : nat -> nat;
    d_adone : nat -> nat;                       (* ghost *)
    d_nwait : nat -> nat;
    d_mu : nat -> option owner;
    d_top : nat -> option nat * V;
    d_out : nat -> nat -> option V;
    d_tokens : list V }.

  Definition dinit (n : nat) : dstate :=
    mkD 0 (repeat DIdle n) (RWait PFast) 0 (fun _ => 0) (fun _ => 0) (fun _ => 0) (fun _ => None)
        (fun _ => (None, v0)) (fun _ _ => None) [].

  Definition start_mb (y x : nat) (tl l : V) : dw :=
    if y =? 0 then DCompute y x tl l else DWait y x tl l PFast.

  Definition sig_exit (y x : nat) (tl' l' : V) : dw :=
    if S x <? mbW then start_mb y (S x) tl' l' else DIdle.

  Definition wake_w (row : nat) (w : dw) : dw :=
    match w with
    | DWait y x tl l PSleep => if y =? S row then DWait y x tl l PWoken else w
    | _ => w
    end.

  Definition wake_r (row recRow : nat) (r : dr) : dr :=
    match r with
    | RWait PSleep => if recRow =? row then RWait PWoken else r
    | _ => r
    end.

  Definition setw (s : dstate) (i : nat) (w : dw) : list dw := set_nth (d_workers s) i w.

  Definition dstep_worker (s : dstate) (i : nat) : option dstate :=
    match nth_error (d_workers s) i with
    | None | Some DExited => None
    | Some DIdle =>
        if d_next s <? mbH then
          Some (mkD (S (d_next s)) (setw s i (start_mb (d_next s) 0 v0 v0)) (d_rec s) (d_recRow s)
                    (d_done s) (d_adone s) (d_nwait s) (d_mu s) (d_top s) (d_out s) (d_tokens s))
        else
          Some (mkD (d_next s) (setw s i DExited) (d_rec s) (d_recRow s)
                    (d_done s) (d_adone s) (d_nwait s) (d_mu s) (d_top s) (d_out s) (d_tokens s))
    | Some (DWait y x tl l ph) =>
        let r := y - 1 in
        match wait_step (d_done s r) (d_nwait s r) (d_mu s r) (OWk i) (needed mbW x) ph with
        | None => None
        | Some (WCont ph' nw' m') =>
            Some (mkD (d_next s) (setw s i (DWait y x tl l ph')) (d_rec s) (d_recRow s)
                      (d_done s) (d_adone s) (upd1 (d_nwait s) r nw') (upd1 (d_mu s) r m')
                      (d_top s) (d_out s) (d_tokens s))
        | Some (WRet nw' m') =>
            Some (mkD (d_next s) (setw s i (DCompute y x tl l)) (d_rec s) (d_recRow s)
                      (d_done s) (d_adone s) (upd1 (d_nwait s) r nw') (upd1 (d_mu s) r m')
                      (d_top s) (d_out s) (d_tokens s))
        end
    | Some (DCompute y x tl l) =>
        (* read-neighbour sub-step: the contexts of the row above (fillPredContextParallel) *)
        let t := snd (d_top s x) in
        let tr := if S x <? mbW then snd (d_top s (S x)) else v0 in
        Some (mkD (d_next s) (setw s i (DHold y x tl l t tr)) (d_rec s) (d_recRow s)
                  (d_done s) (d_adone s) (d_nwait s) (d_mu s) (d_top s) (d_out s) (d_tokens s))
    | Some (DHold y x tl l t tr) =>
        (* write-own sub-step: mode decision, residuals, reconstruction on the values READ
           EARLIER, then export: top[x], the output of macroblock (x,y) *)
        let rv := f y x tl t tr l in
        Some (mkD (d_next s) (setw s i (DSig y x t rv QStore)) (d_rec s) (d_recRow s)
                  (d_done s) (upd1 (d_adone s) y (S x)) (d_nwait s) (d_mu s)
                  (upd1 (d_top s) x (Some y, rv)) (upd2 (d_out s) y x (Some rv)) (d_tokens s))
    | Some (DSig y x tl' l' ph) =>
        match ph with
        | QStore =>
            Some (mkD (d_next s) (setw s i (DSig y x tl' l' QLoad)) (d_rec s) (d_recRow s)
                      (upd1 (d_done s) y (S x)) (d_adone s) (d_nwait s) (d_mu s)
                      (d_top s) (d_out s) (d_tokens s))
        | QLoad =>
            Some (mkD (d_next s)
                      (setw s i (if 0 <? d_nwait s y then DSig y x tl' l' QLock else sig_exit y x tl' l'))
                      (d_rec s) (d_recRow s) (d_done s) (d_adone s) (d_nwait s) (d_mu s)
                      (d_top s) (d_out s) (d_tokens s))
        | QLock =>
            match d_mu s y with
            | None =>
                Some (mkD (d_next s) (setw s i (DSig y x tl' l' QUnlock)) (d_rec s) (d_recRow s)
                          (d_done s) (d_adone s) (d_nwait s) (upd1 (d_mu s) y (Some (OWk i)))
                          (d_top s) (d_out s) (d_tokens s))
            | Some _ => None
            end
        | QUnlock =>
            Some (mkD (d_next s) (setw s i (DSig y x tl' l' QBcast)) (d_rec s) (d_recRow s)
                      (d_done s) (d_adone s) (d_nwait s) (upd1 (d_mu s) y None)
                      (d_top s) (d_out s) (d_tokens s))
        | QBcast =>
            Some (mkD (d_next s) (set_nth (map (wake_w y) (d_workers s)) i (sig_exit y x tl' l'))
                      (wake_r y (d_recRow s) (d_rec s)) (d_recRow s)
                      (d_done s) (d_adone s) (d_nwait s) (d_mu s)
                      (d_top s) (d_out s) (d_tokens s))
        end
    end.

  Definition dout_or_v0 (s : dstate) (y x : nat) : V :=
    match d_out s y x with Some v => v | None => v0 end.

  Definition dstep_rec (s : dstate) : option dstate :=
    if d_recRow s <? mbH then
      let r := d_recRow s in
      match d_rec s with
      | RWait ph =>
          match wait_step (d_done s r) (d_nwait s r) (d_mu s r) ORec mbW ph with
          | None => None
          | Some (WCont ph' nw' m') =>
              Some (mkD (d_next s) (d_workers s) (RWait ph') r (d_done s) (d_adone s)
                        (upd1 (d_nwait s) r nw') (upd1 (d_mu s) r m') (d_top s) (d_out s) (d_tokens s))
          | Some (WRet nw' m') =>
              Some (mkD (d_next s) (d_workers s) RReady r (d_done s) (d_adone s)
                        (upd1 (d_nwait s) r nw') (upd1 (d_mu s) r m') (d_top s) (d_out s) (d_tokens s))
          end
      | RReady =>
          Some (mkD (d_next s) (d_workers s) (RWait PFast) (S r) (d_done s) (d_adone s)
                    (d_nwait s) (d_mu s) (d_top s) (d_out s)
                    (d_tokens s ++ map (dout_or_v0 s r) (seq 0 mbW)))
      end
    else None.

  Definition dstep (s : dstate) (l : label) : option dstate :=
    match l with LW i => dstep_worker s i | LRec => dstep_rec s end.

  Fixpoint drun (s : dstate) (sched : list label) : option dstate :=
    match sched with
    | [] => Some s
    | l :: rest => match dstep s l with Some s' => drun s' rest | None => None end
    end.

  Definition dw_exited (w : dw) : bool := match w with DExited => true | _ => false end.
  Definition dfinal (s : dstate) : bool := forallb dw_exited (d_workers s) && (d_recRow s =? mbH).

  (** *** Abstraction onto the L1 system: a worker inside waitFor has not started its
      macroblock; a worker inside signal has finished it; progress is the ghost [adone]. *)
  Definition abs_w (w : dw) : wstate V :=
    match w with
    | DIdle => Idle
    | DExited => Exited
    | DWait y x tl l _ => AtMB y x tl l
    | DCompute y x tl l => AtMB y x tl l
    | DHold y x tl l _ _ => AtMB y x tl l
    | DSig y x tl' l' _ => if S x <? mbW then AtMB y (S x) tl' l' else Idle
    end.

  Definition abs (s : dstate) : state V :=
    mkState V (d_next s) (map abs_w (d_workers s)) (d_adone s) (d_top s) (d_out s) (d_recRow s) (d_tokens s).

End Detailed.

Arguments DIdle {V}.
Arguments DExited {V}.
Arguments DWait {V} y x tl l ph.
Arguments DCompute {V} y x tl l.
Arguments DHold {V} y x tl l t tr.
Arguments DSig {V} y x tl' l' ph.
