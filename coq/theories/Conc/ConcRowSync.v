(** C10 — the row pipeline of the parallel lossy encoder
    (internal/lossy/encode_parallel.go: encodeFrameParallel, encodeRow, rowSync,
    recordAllTokens) as a labelled transition system, layer L1.

    Parameters: [mbW >= 1] macroblock columns, [mbH >= 1] rows, any number of row
    workers.  Shared state: the ticket counter [nextRow]; per row the progress
    counter [done y]; ONE row of top context shared by all rows in flight, kept as
    a versioned array [top x = (writer row, value)]; the output [out y x]
    (mbInfo + reconstructed planes of MB (x,y)); the Phase-B token recorder.
    In L1 [waitFor] is an atomic blocking guard ([done (y-1) >= min (x+2) mbW]) and
    one macroblock is one step: read [top x], [top (x+1)], compute, write [top x],
    [out y x], [done y := x+1].  The per-macroblock computation is the abstract
    function [f y x topleft top topright left].  A schedule is any sequence of
    labels ([LW i] = worker i moves, [LRec] = the recorder moves); a label is
    enabled iff [step] returns [Some _].

    L2 (the implementation of waitFor / signal with atomics, mutex and sync.Cond)
    is in ConcWaitSignal.v. *)
From Coq Require Import List Arith Lia Bool.
Import ListNotations.

Section RowSync.
  Variable V : Type.
  Variable v0 : V.                                       (* border / initial context *)
  Variable f : nat -> nat -> V -> V -> V -> V -> V.      (* f y x topleft top topright left *)
  Variables mbW mbH : nat.

  (** *** Serial semantics: row-major order, one worker, no sharing.
      [P 0] is the border row; [P (S y) x] is the value of macroblock (x, y). *)
  Fixpoint srow (y : nat) (prev : nat -> V) (x : nat) : V :=
    match x with
    | 0 => f y 0 v0 (prev 0) (if 1 <? mbW then prev 1 else v0) v0
    | S x' => f y x (prev x') (prev x) (if S x <? mbW then prev (S x) else v0) (srow y prev x')
    end.

  Fixpoint P (k : nat) : nat -> V :=
    match k with
    | 0 => fun _ => v0
    | S y => srow y (P y)
    end.

  Definition serial_out (y x : nat) : V := P (S y) x.
  Definition serial_tokens : list V :=
    flat_map (fun y => map (serial_out y) (seq 0 mbW)) (seq 0 mbH).

  (** *** The transition system *)
  Inductive wstate :=
  | Idle                                   (* about to draw a ticket *)
  | AtMB (y x : nat) (tl left : V)         (* owns row y, next macroblock x; local left / top-left context *)
  | Exited.

  Record state := mkState {
    nextRow : nat;
    workers : list wstate;
    done : nat -> nat;
    top : nat -> option nat * V;
    out : nat -> nat -> option V;
    recRow : nat;                          (* next row the Phase-B recorder will record *)
    tokens : list V }.

  Definition upd1 {A} (g : nat -> A) (k : nat) (v : A) : nat -> A :=
    fun i => if i =? k then v else g i.
  Definition upd2 {A} (g : nat -> nat -> A) (k1 k2 : nat) (v : A) : nat -> nat -> A :=
    fun i j => if (i =? k1) && (j =? k2) then v else g i j.

  Fixpoint set_nth {A} (l : list A) (i : nat) (v : A) : list A :=
    match l, i with
    | [], _ => []
    | _ :: tl, 0 => v :: tl
    | h :: tl, S j => h :: set_nth tl j v
    end.

  Definition init (numWorkers : nat) : state :=
    mkState 0 (repeat Idle numWorkers) (fun _ => 0) (fun _ => (None, v0)) (fun _ _ => None) 0 [].

  Definition needed (x : nat) : nat := Nat.min (x + 2) mbW.      (* waitX in encodeRow *)

  Definition guard (s : state) (y x : nat) : bool :=
    (y =? 0) || (needed x <=? done s (y - 1)).

  Inductive label := LW (i : nat) | LRec.

  Definition step_worker (s : state) (i : nat) : option state :=
    match nth_error (workers s) i with
    | None | Some Exited => None
    | Some Idle =>
        if nextRow s <? mbH then
          Some (mkState (S (nextRow s)) (set_nth (workers s) i (AtMB (nextRow s) 0 v0 v0))
                        (done s) (top s) (out s) (recRow s) (tokens s))
        else
          Some (mkState (nextRow s) (set_nth (workers s) i Exited)
                        (done s) (top s) (out s) (recRow s) (tokens s))
    | Some (AtMB y x tl l) =>
        if guard s y x then
          let t := snd (top s x) in
          let tr := if S x <? mbW then snd (top s (S x)) else v0 in
          let r := f y x tl t tr l in
          Some (mkState (nextRow s)
                        (set_nth (workers s) i (if S x <? mbW then AtMB y (S x) t r else Idle))
                        (upd1 (done s) y (S x)) (upd1 (top s) x (Some y, r))
                        (upd2 (out s) y x (Some r)) (recRow s) (tokens s))
        else None
    end.

  Definition out_or_v0 (s : state) (y x : nat) : V :=
    match out s y x with Some v => v | None => v0 end.

  Definition step_rec (s : state) : option state :=
    if (recRow s <? mbH) && (done s (recRow s) =? mbW) then
      Some (mkState (nextRow s) (workers s) (done s) (top s) (out s) (S (recRow s))
                    (tokens s ++ map (out_or_v0 s (recRow s)) (seq 0 mbW)))
    else None.

  Definition step (s : state) (l : label) : option state :=
    match l with
    | LW i => step_worker s i
    | LRec => step_rec s
    end.

  (** A run follows a schedule as long as every chosen label is enabled. *)
  Fixpoint run (s : state) (sched : list label) : option state :=
    match sched with
    | [] => Some s
    | l :: rest => match step s l with Some s' => run s' rest | None => None end
    end.

  Definition is_exited (w : wstate) : bool := match w with Exited => true | _ => false end.
  Definition final (s : state) : bool := forallb is_exited (workers s) && (recRow s =? mbH).

  (** *** Trace conformance: the events the verification hook records in the Go code
      (after the harness has replaced goroutine ids by worker indices and restored
      ticket order among the claim events). *)
  Inductive event :=
  | EClaim (i y : nat)             (* worker i drew ticket y (y >= mbH: it exits) *)
  | EBegin (i y x : nat)           (* encodeRow reached MB (x,y) *)
  | EWait (i yw nd : nat)          (* worker i called waitFor(yw, nd) *)
  | EStart (i y x : nat)           (* the wait returned; contexts are read next *)
  | EExport (i y x : nat)          (* reconstruction done; shared context is written next *)
  | ESignal (i y d : nat)          (* signal(y, d) *)
  | ERecWait (yw nd : nat)         (* the recorder called waitFor(yw, nd) *)
  | ERecord (y : nat).             (* the recorder records row y *)

  (** per-worker protocol phase between two L1 steps *)
  Inductive phase := PhIdle | PhBegun | PhWaited | PhStarted | PhExported.

  Definition phase_eqb (a b : phase) : bool :=
    match a, b with
    | PhIdle, PhIdle | PhBegun, PhBegun | PhWaited, PhWaited
    | PhStarted, PhStarted | PhExported, PhExported => true
    | _, _ => false
    end.

  Definition at_mb (s : state) (i y x : nat) : bool :=
    match nth_error (workers s) i with
    | Some (AtMB y' x' _ _) => (y' =? y) && (x' =? x)
    | _ => false
    end.

  Definition is_idle (s : state) (i : nat) : bool :=
    match nth_error (workers s) i with Some Idle => true | _ => false end.

  Definition check_event (s : state) (ph : list phase) (e : event) : option (state * list phase) :=
    match e with
    | EClaim i y =>
        if is_idle s i && phase_eqb (nth i ph PhIdle) PhIdle
           && (if nextRow s <? mbH then y =? nextRow s else mbH <=? y)
        then match step_worker s i with Some s' => Some (s', ph) | None => None end
        else None
    | EBegin i y x =>
        if at_mb s i y x && phase_eqb (nth i ph PhIdle) PhIdle
        then Some (s, set_nth ph i PhBegun) else None
    | EWait i yw nd =>
        match nth_error (workers s) i with
        | Some (AtMB y x _ _) =>
            (* any requirement at least as strong as the model's guard (and satisfiable) is safe *)
            if phase_eqb (nth i ph PhIdle) PhBegun && (0 <? y) && (yw =? y - 1) && ((needed x <=? nd) && (nd <=? mbW))
            then Some (s, set_nth ph i PhWaited) else None
        | _ => None
        end
    | EStart i y x =>
        if at_mb s i y x && guard s y x
           && phase_eqb (nth i ph PhIdle) (if y =? 0 then PhBegun else PhWaited)
        then Some (s, set_nth ph i PhStarted) else None
    | EExport i y x =>
        if at_mb s i y x && phase_eqb (nth i ph PhIdle) PhStarted
        then Some (s, set_nth ph i PhExported) else None
    | ESignal i y d =>
        if at_mb s i y (d - 1) && (0 <? d) && phase_eqb (nth i ph PhIdle) PhExported
        then match step_worker s i with Some s' => Some (s', set_nth ph i PhIdle) | None => None end
        else None
    | ERecWait yw nd =>
        if (yw =? recRow s) && (nd =? mbW) && (recRow s <? mbH) then Some (s, ph) else None
    | ERecord y =>
        if y =? recRow s then match step_rec s with Some s' => Some (s', ph) | None => None end
        else None
    end.

  (** [check_trace] returns [None] when the whole trace is a run of the system that
      ends in a final state, otherwise the index of the first offending event
      (or the length of the trace when only finality fails). *)
  Fixpoint check_from (s : state) (ph : list phase) (evs : list event) (k : nat) : option nat :=
    match evs with
    | [] => if final s then None else Some k
    | e :: rest =>
        match check_event s ph e with
        | Some (s', ph') => check_from s' ph' rest (S k)
        | None => Some k
        end
    end.

  Definition check_trace (numWorkers : nat) (evs : list event) : option nat :=
    check_from (init numWorkers) (repeat PhIdle numWorkers) evs 0.

  (** The labels a conformant trace performs. *)
  Definition label_of (e : event) : list label :=
    match e with
    | EClaim i _ => [LW i]
    | ESignal i _ _ => [LW i]
    | ERecord _ => [LRec]
    | _ => []
    end.

End RowSync.

Arguments Idle {V}.
Arguments Exited {V}.
Arguments AtMB {V} y x tl left.
