(** C10 / C12 — animation.DecodeFramesParallel: a work queue of frame indices drained by
    [min n items] workers (n = GOMAXPROCS), results collected from a channel in ARRIVAL
    order (any permutation of the items: it depends on the number of workers and on the
    schedule).  Per item the decoder returns an image or an error.  Modelled exactly:
    what the collecting loop does with each result — an image is stored in its own slot,
    an error is kept only if it is the first error to arrive.

    [collect] is the loop of the current code (fix 8f1f7ab): an image is stored in its own
    slot, and of the errors the one of the LOWEST frame index is kept.  Proved: the decoded
    frames and the returned error do not depend on the arrival order, hence not on the
    worker count or the schedule; the error is that of the lowest failing frame.
    [pinned_collect] is the loop of the pinned tree (first error to ARRIVE): its frames are
    order-independent too, its error is nil iff no frame fails and order-independent when
    all failing frames report the same error, but REFUTED in general
    ([pinned_queue_first_error_order_independent_refuted]: two frames, different errors). *)
From Coq Require Import List ZArith Lia Bool Permutation.
From Webp Require Import Conc.ConcPartition Conc.ConcPartitionProofs.
Import ListNotations.
Open Scope Z_scope.

Section Queue.
  Variables A E : Type.
  Variable dec : Z -> A + E.                 (* FrameDecoderFunc on frame i *)

  Definition store (frames : list (option A)) (i : Z) : list (option A) :=
    match dec i with inl v => upd frames (Z.to_nat i) (Some v) | inr _ => frames end.

  (** the collecting loop of the pinned code: [firstErr] = first error to ARRIVE *)
  Definition pinned_collect (arrival : list Z) (frames0 : list (option A)) : list (option A) * option E :=
    fold_left (fun st i =>
                 match dec i with
                 | inl v => (upd (fst st) (Z.to_nat i) (Some v), snd st)
                 | inr e => (fst st, match snd st with None => Some e | Some e0 => Some e0 end)
                 end) arrival (frames0, None).

  (** the repaired loop: keep the error of the lowest frame index *)
  Definition collect (arrival : list Z) (frames0 : list (option A)) : list (option A) * option (Z * E) :=
    fold_left (fun st i =>
                 match dec i with
                 | inl v => (upd (fst st) (Z.to_nat i) (Some v), snd st)
                 | inr e => (fst st, match snd st with
                                     | None => Some (i, e)
                                     | Some (j, e0) => if i <? j then Some (i, e) else Some (j, e0)
                                     end)
                 end) arrival (frames0, None).

  Definition slot (i : Z) : option A := match dec i with inl v => Some v | inr _ => None end.
  Definition fails (i : Z) : Prop := exists e, dec i = inr e.

  (** frames: the collecting loop performs [run_writes]-like stores for the good items *)
  Lemma collect_frames arrival : forall frames0 err0,
    fst (fold_left (fun st i =>
                 match dec i with
                 | inl v => (upd (fst st) (Z.to_nat i) (Some v), snd st)
                 | inr e => (fst st, match snd st with None => Some e | Some e0 => Some e0 end)
                 end) arrival (frames0, err0)) = fold_left store arrival frames0.
  Proof.
    induction arrival as [|i l IH]; intros fr er; cbn [fold_left]; [reflexivity|].
    unfold store at 2. destruct (dec i) as [v|e]; cbn [fst snd]; apply IH.
  Qed.

  Lemma store_length l : forall fr, length (fold_left store l fr) = length fr.
  Proof. induction l as [|i l IH]; intros fr; cbn; [reflexivity|]. rewrite IH. unfold store.
    destruct (dec i); [apply upd_length|reflexivity]. Qed.

  Lemma store_nth l : forall fr j, (forall i, In i l -> 0 <= i) -> (j < length fr)%nat ->
    nth j (fold_left store l fr) None =
      if in_dec Z.eq_dec (Z.of_nat j) l then (match slot (Z.of_nat j) with Some v => Some v | None => nth j fr None end)
      else nth j fr None.
  Proof.
    induction l as [|i l IH] using rev_ind; intros fr j Hpos Hj; [reflexivity|].
    rewrite fold_left_app. cbn [fold_left].
    assert (Hpos' : forall i0, In i0 l -> 0 <= i0) by (intros; apply Hpos, in_or_app; now left).
    assert (Hi : 0 <= i) by (apply Hpos, in_or_app; right; now left).
    specialize (IH fr j Hpos' Hj).
    unfold store at 1. unfold slot in *.
    destruct (Nat.eq_dec (Z.to_nat i) j) as [Heq|Hne].
    - subst j. replace (Z.of_nat (Z.to_nat i)) with i in * by lia.
      destruct (in_dec Z.eq_dec i (l ++ [i])) as [_|Hn]; [|exfalso; apply Hn, in_or_app; right; now left].
      destruct (dec i) as [v|e].
      + rewrite upd_nth_eq by (rewrite store_length; exact Hj). reflexivity.
      + rewrite IH. destruct (in_dec Z.eq_dec i l); reflexivity.
    - assert (Hsame : nth j (match dec i with inl v => upd (fold_left store l fr) (Z.to_nat i) (Some v) | inr _ => fold_left store l fr end) None
                      = nth j (fold_left store l fr) None).
      { destruct (dec i); [apply upd_nth_neq; exact Hne|reflexivity]. }
      rewrite Hsame, IH.
      destruct (in_dec Z.eq_dec (Z.of_nat j) l) as [Hy|Hn];
        destruct (in_dec Z.eq_dec (Z.of_nat j) (l ++ [i])) as [Hy'|Hn']; try reflexivity.
      + exfalso. apply Hn', in_or_app. now left.
      + exfalso. apply in_app_or in Hy'. destruct Hy' as [Hy'|[Hy'|[]]]; [exact (Hn Hy')|lia].
  Qed.

  (** the decoded frames do not depend on the arrival order, the worker count or the schedule *)
  Theorem pinned_queue_frames_independent : forall total arrival,
    Permutation arrival (zrange total) ->
    fst (pinned_collect arrival (repeat None (Z.to_nat total))) = map slot (zrange total).
  Proof.
    intros total arrival Hperm. unfold pinned_collect. rewrite collect_frames.
    assert (Hin : forall i, In i arrival <-> 0 <= i < total).
    { intros i. rewrite <- zrange_In. split; intros H; [eapply Permutation_in; eauto|].
      eapply Permutation_in; [apply Permutation_sym; eauto|exact H]. }
    apply nth_ext with (d := None) (d' := slot 0).
    - rewrite store_length, repeat_length, map_length, zrange_length. reflexivity.
    - intros j Hj. rewrite store_length, repeat_length in Hj.
      rewrite store_nth; [|intros i Hi; apply Hin in Hi; lia|rewrite repeat_length; exact Hj].
      rewrite (map_nth slot). rewrite zrange_nth by lia.
      destruct (in_dec Z.eq_dec (Z.of_nat j) arrival) as [_|Hn]; [|exfalso; apply Hn, Hin; lia].
      destruct (slot (Z.of_nat j)); [reflexivity|]. apply nth_repeat.
  Qed.

  (** the returned error *)
  Lemma collect_err arrival : forall fr er,
    snd (fold_left (fun st i =>
                 match dec i with
                 | inl v => (upd (fst st) (Z.to_nat i) (Some v), snd st)
                 | inr e => (fst st, match snd st with None => Some e | Some e0 => Some e0 end)
                 end) arrival (fr, er)) =
    match er with
    | Some e0 => Some e0
    | None => fold_left (fun acc i => match acc with Some e0 => Some e0 | None => match dec i with inr e => Some e | inl _ => None end end) arrival None
    end.
  Proof.
    induction arrival as [|i l IH]; intros fr er; cbn [fold_left]; [destruct er; reflexivity|].
    destruct (dec i) as [v|e]; cbn [fst snd]; rewrite IH.
    - destruct er; reflexivity.
    - destruct er as [e0|]; [reflexivity|].
      clear. induction l as [|k l IHl]; cbn [fold_left]; [reflexivity|]. exact IHl.
  Qed.

  Definition first_err (arrival : list Z) : option E :=
    fold_left (fun acc i => match acc with Some e0 => Some e0 | None => match dec i with inr e => Some e | inl _ => None end end) arrival None.

  Lemma collect_snd arrival fr : snd (pinned_collect arrival fr) = first_err arrival.
  Proof. unfold pinned_collect. rewrite collect_err. reflexivity. Qed.

  Lemma first_err_acc l : forall e0, fold_left (fun acc i => match acc with Some e0 => Some e0 | None => match dec i with inr e => Some e | inl _ => None end end) l (Some e0) = Some e0.
  Proof. induction l as [|i l IH]; intros e0; cbn; [reflexivity|apply IH]. Qed.

  Lemma first_err_spec l : (first_err l = None /\ forall i, In i l -> ~ fails i) \/
                           (exists i e, In i l /\ dec i = inr e /\ first_err l = Some e).
  Proof.
    unfold first_err. induction l as [|i l IH]; cbn [fold_left]; [left; split; [reflexivity|intros i []]|].
    destruct (dec i) as [v|e] eqn:Ed.
    - destruct IH as [[H1 H2]|(k & e & Hk & Hd & He)].
      + left. split; [exact H1|]. intros k [<-|Hk]; [intros (e & He); congruence|apply H2; exact Hk].
      + right. exists k, e. split; [now right|]. auto.
    - right. exists i, e. split; [now left|]. split; [exact Ed|apply first_err_acc].
  Qed.

  (** nil iff no frame fails; otherwise the error of some failing frame *)
  Theorem pinned_queue_error_nil_iff : forall total arrival fr, Permutation arrival (zrange total) ->
    (snd (pinned_collect arrival fr) = None <-> forall i, 0 <= i < total -> ~ fails i).
  Proof.
    intros total arrival fr Hperm. rewrite collect_snd.
    assert (Hin : forall i, In i arrival <-> 0 <= i < total).
    { intros i. rewrite <- zrange_In. split; intros H; [eapply Permutation_in; eauto|].
      eapply Permutation_in; [apply Permutation_sym; eauto|exact H]. }
    destruct (first_err_spec arrival) as [[H1 H2]|(k & e & Hk & Hd & He)].
    - split; [intros _ i Hi; apply H2, Hin; exact Hi|intros _; exact H1].
    - split; [intros H; congruence|]. intros H. exfalso. apply (H k); [apply Hin; exact Hk|exists e; exact Hd].
  Qed.

  Theorem pinned_queue_error_is_some_frames : forall arrival fr e,
    snd (pinned_collect arrival fr) = Some e -> exists i, In i arrival /\ dec i = inr e.
  Proof.
    intros arrival fr e. rewrite collect_snd. destruct (first_err_spec arrival) as [[H1 _]|(k & e' & Hk & Hd & He)]; intros H.
    - congruence.
    - rewrite He in H. inversion H; subst. exists k. auto.
  Qed.

  (** order-independent when every failing frame reports the same error (e.g. one corrupt frame) *)
  Theorem pinned_queue_error_independent_if_unique : forall total arr1 arr2 fr1 fr2 e0,
    Permutation arr1 (zrange total) -> Permutation arr2 (zrange total) ->
    (forall i e, 0 <= i < total -> dec i = inr e -> e = e0) ->
    snd (pinned_collect arr1 fr1) = snd (pinned_collect arr2 fr2).
  Proof.
    intros total arr1 arr2 fr1 fr2 e0 P1 P2 Huniq.
    assert (G : forall arr fr, Permutation arr (zrange total) ->
              snd (pinned_collect arr fr) = None \/ snd (pinned_collect arr fr) = Some e0).
    { intros arr fr P. destruct (snd (pinned_collect arr fr)) as [e|] eqn:Es; [right|now left].
      destruct (pinned_queue_error_is_some_frames arr fr e Es) as (i & Hi & Hd).
      f_equal. apply (Huniq i e); [|exact Hd]. apply zrange_In. exact (Permutation_in i P Hi). }
    destruct (G arr1 fr1 P1) as [H1|H1]; destruct (G arr2 fr2 P2) as [H2|H2]; [rewrite H1, H2; reflexivity| | |rewrite H1, H2; reflexivity].
    - exfalso. pose proof (proj1 (pinned_queue_error_nil_iff total arr1 fr1 P1) H1) as H1'.
      destruct (pinned_queue_error_is_some_frames arr2 fr2 e0 H2) as (i & Hi & Hd).
      apply (H1' i); [apply zrange_In; exact (Permutation_in i P2 Hi)|exists e0; exact Hd].
    - exfalso. pose proof (proj1 (pinned_queue_error_nil_iff total arr2 fr2 P2) H2) as H2'.
      destruct (pinned_queue_error_is_some_frames arr1 fr1 e0 H1) as (i & Hi & Hd).
      apply (H2' i); [apply zrange_In; exact (Permutation_in i P1 Hi)|exists e0; exact Hd].
  Qed.

  (** the repaired rule: the error of the lowest failing index, whatever the arrival order *)
  Definition is_min_fail (total i : Z) (e : E) : Prop :=
    0 <= i < total /\ dec i = inr e /\ forall j, 0 <= j < i -> ~ fails j.

  Lemma collect_inv l : forall fr acc,
    (match acc with None => True | Some (j, e) => dec j = inr e end) ->
    match snd (fold_left (fun st i =>
                 match dec i with
                 | inl v => (upd (fst st) (Z.to_nat i) (Some v), snd st)
                 | inr e => (fst st, match snd st with
                                     | None => Some (i, e)
                                     | Some (j, e0) => if i <? j then Some (i, e) else Some (j, e0)
                                     end)
                 end) l (fr, acc)) with
    | None => acc = None /\ forall i, In i l -> ~ fails i
    | Some (j, e) => dec j = inr e /\ (In j l \/ exists e', acc = Some (j, e')) /\
                     (forall i, In i l -> fails i -> j <= i) /\
                     (forall k e', acc = Some (k, e') -> j <= k)
    end.
  Proof.
    induction l as [|i l IH]; intros fr acc Hacc; cbn [fold_left snd].
    - destruct acc as [[j e]|]; [|split; [reflexivity|intros i []]].
      split; [exact Hacc|]. split; [right; eauto|]. split; [intros i []|]. intros k e' H; inversion H; lia.
    - destruct (dec i) as [v|e] eqn:Ed; cbn [fst snd].
      + specialize (IH (upd fr (Z.to_nat i) (Some v)) acc Hacc).
        destruct (snd (fold_left _ l (upd fr (Z.to_nat i) (Some v), acc))) as [[j e]|].
        * destruct IH as (H1 & H2 & H3 & H4). split; [exact H1|]. split; [destruct H2; [left; now right|now right]|].
          split; [|exact H4]. intros k [<-|Hk] Hf; [destruct Hf as (e' & He'); congruence|apply H3; assumption].
        * destruct IH as [H1 H2]. split; [exact H1|]. intros k [<-|Hk]; [intros (e' & He'); congruence|apply H2; exact Hk].
      + set (acc' := match acc with None => Some (i, e) | Some (j, e0) => if i <? j then Some (i, e) else Some (j, e0) end).
        assert (Hacc' : match acc' with None => True | Some (j, e1) => dec j = inr e1 end).
        { unfold acc'. destruct acc as [[j e0]|]; [destruct (i <? j)|]; assumption. }
        specialize (IH fr acc' Hacc').
        destruct (snd (fold_left _ l (fr, acc'))) as [[j e1]|].
        * destruct IH as (H1 & H2 & H3 & H4). split; [exact H1|].
          assert (Hji : j <= i).
          { unfold acc' in H4. destruct acc as [[k e0]|]; [destruct (i <? k) eqn:El|].
            - apply (H4 i e eq_refl). - apply Z.ltb_ge in El. pose proof (H4 k e0 eq_refl). lia. - apply (H4 i e eq_refl). }
          split; [|split].
          -- destruct H2 as [H2|(e' & H2)]; [left; now right|].
             unfold acc' in H2. destruct acc as [[k e0]|]; [destruct (i <? k)|]; inversion H2; subst; [left; now left|right; eauto|left; now left].
          -- intros k [<-|Hk] Hf; [exact Hji|apply H3; assumption].
          -- intros k e' Hk. subst acc. unfold acc' in H4. destruct (i <? k) eqn:El.
             ++ apply Z.ltb_lt in El. pose proof (H4 i e eq_refl). lia.
             ++ apply (H4 k e' eq_refl).
        * destruct IH as [H1 _]. unfold acc' in H1. destruct acc as [[k e0]|]; [destruct (i <? k)|]; discriminate.
  Qed.

  Theorem queue_min_index_error_independent : forall total arrival fr,
    Permutation arrival (zrange total) ->
    match snd (collect arrival fr) with
    | None => forall i, 0 <= i < total -> ~ fails i
    | Some (j, e) => is_min_fail total j e
    end.
  Proof.
    intros total arrival fr Hperm.
    assert (Hin : forall i, In i arrival <-> 0 <= i < total).
    { intros i. rewrite <- zrange_In. split; intros H; [eapply Permutation_in; eauto|].
      eapply Permutation_in; [apply Permutation_sym; eauto|exact H]. }
    unfold collect. pose proof (collect_inv arrival fr None I) as H.
    destruct (snd (fold_left _ arrival (fr, None))) as [[j e]|].
    - destruct H as (H1 & H2 & H3 & _). destruct H2 as [H2|(e' & H2)]; [|discriminate].
      split; [apply Hin; exact H2|]. split; [exact H1|]. intros k Hk Hf.
      assert (Hka : In k arrival) by (apply Hin; apply Hin in H2; lia).
      pose proof (H3 k Hka Hf). lia.
    - destruct H as [_ H]. intros i Hi. apply H, Hin. exact Hi.
  Qed.

  (** the current loop: frames as for the pinned one *)
  Lemma collect_frames_min arrival : forall frames0 err0,
    fst (fold_left (fun st i =>
                 match dec i with
                 | inl v => (upd (fst st) (Z.to_nat i) (Some v), snd st)
                 | inr e => (fst st, match snd st with
                                     | None => Some (i, e)
                                     | Some (j, e0) => if i <? j then Some (i, e) else Some (j, e0)
                                     end)
                 end) arrival (frames0, err0)) = fold_left store arrival frames0.
  Proof.
    induction arrival as [|i l IH]; intros fr er; cbn [fold_left]; [reflexivity|].
    unfold store at 2. destruct (dec i) as [v|e]; cbn [fst snd]; apply IH.
  Qed.

  Theorem queue_frames_independent : forall total arrival,
    Permutation arrival (zrange total) ->
    fst (collect arrival (repeat None (Z.to_nat total))) = map slot (zrange total).
  Proof.
    intros total arrival Hperm. rewrite <- (pinned_queue_frames_independent total arrival Hperm).
    unfold collect, pinned_collect. rewrite collect_frames_min, collect_frames. reflexivity.
  Qed.

  (** frames AND error are the same for any two arrival orders *)
  Theorem queue_result_order_independent : forall total arr1 arr2,
    Permutation arr1 (zrange total) -> Permutation arr2 (zrange total) ->
    collect arr1 (repeat None (Z.to_nat total)) = collect arr2 (repeat None (Z.to_nat total)).
  Proof.
    intros total arr1 arr2 P1 P2.
    pose proof (queue_frames_independent total arr1 P1) as F1.
    pose proof (queue_frames_independent total arr2 P2) as F2.
    pose proof (queue_min_index_error_independent total arr1 (repeat None (Z.to_nat total)) P1) as E1.
    pose proof (queue_min_index_error_independent total arr2 (repeat None (Z.to_nat total)) P2) as E2.
    destruct (collect arr1 _) as [f1 e1]. destruct (collect arr2 _) as [f2 e2]. cbn [fst snd] in *.
    f_equal; [congruence|].
    destruct e1 as [[j1 x1]|]; destruct e2 as [[j2 x2]|]; try reflexivity.
    - destruct E1 as (B1 & D1 & M1). destruct E2 as (B2 & D2 & M2).
      assert (j1 = j2).
      { destruct (Z.lt_trichotomy j1 j2) as [H|[H|H]]; [|exact H|].
        - exfalso. apply (M2 j1); [lia|exists x1; exact D1].
        - exfalso. apply (M1 j2); [lia|exists x2; exact D2]. }
      subst j2. rewrite D1 in D2. inversion D2. reflexivity.
    - exfalso. destruct E1 as (B1 & D1 & _). apply (E2 j1 B1). exists x1. exact D1.
    - exfalso. destruct E2 as (B2 & D2 & _). apply (E1 j2 B2). exists x2. exact D2.
  Qed.

End Queue.

(** Full statement for the pinned rule: the returned error does not depend on the arrival
    order.  It is FALSE as soon as two frames fail with different errors. *)
Definition pinned_queue_first_error_order_independent : Prop :=
  forall (A E : Type) (dec : Z -> A + E) total arr1 arr2 fr,
    Permutation arr1 (zrange total) -> Permutation arr2 (zrange total) ->
    snd (pinned_collect A E dec arr1 fr) = snd (pinned_collect A E dec arr2 fr).

Theorem pinned_queue_first_error_order_independent_refuted : ~ pinned_queue_first_error_order_independent.
Proof.
  intros H.
  specialize (H unit bool (fun i => if i =? 1 then inr true else if i =? 3 then inr false else inl tt)
                4 [0; 1; 2; 3] [3; 2; 1; 0] []).
  assert (P1 : Permutation [0; 1; 2; 3] (zrange 4)) by (vm_compute; apply Permutation_refl).
  assert (P2 : Permutation [3; 2; 1; 0] (zrange 4)).
  { vm_compute. apply Permutation_sym. change [3; 2; 1; 0] with (rev [0; 1; 2; 3]). apply Permutation_rev. }
  specialize (H P1 P2). vm_compute in H. discriminate.
Qed.

(** not vacuous: 4 frames, frame 2 corrupt, results arriving in the order 3,0,2,1 *)
Example queue_example :
  pinned_collect unit bool (fun i => if i =? 2 then inr true else inl tt) [3; 0; 2; 1] (repeat None 4)
  = ([Some tt; Some tt; None; Some tt], Some true).
Proof. reflexivity. Qed.
