(** C10 — every run of the detailed system (ConcDetailed.v) is finite, with an explicit
    bound: a potential argument.  Progress of the abstract (L1) kind — claim, exit,
    macroblock body, record — is bounded by [mbH*mbW + 2*mbH + n]; between two such steps
    every process only moves forward through the phases of waitFor / signal, except that a
    Broadcast sends the sleepers of its row back to [PWoken] — and a Broadcast is paid for
    by the signaller leaving [signal].  The macroblock body is two steps (read the
    neighbour contexts, then compute and write); only the second is abstract progress.  No process can spin: a blocked process (mutex
    taken, asleep in cond.Wait) is DISABLED, not busy-waiting.

    Together with deadlock freedom (ConcDetailedLive.v) this is liveness in its strongest
    form: under EVERY scheduler — no fairness assumption is needed — an execution that is
    continued as long as some step is enabled reaches the final state (all rows encoded,
    all tokens recorded) after at most [run_bound] steps. *)
From Coq Require Import List Arith Lia Bool.
From Webp Require Import Conc.ConcRowSync Conc.ConcRowSyncProofs Conc.ConcDetailed Conc.ConcDetailedProofs
  Conc.ConcDetailedLive.
Import ListNotations.

Definition wrank (ph : wph) : nat :=
  match ph with
  | PFast => 10 | PInc => 9 | PLock => 8 | PWoken => 7 | PCheck => 6
  | PWaitCall => 5 | PSleep => 4 | PUnlock => 3 | PDec => 2
  end.
Definition srank (sp : sph) : nat :=
  match sp with QStore => 5 | QLoad => 4 | QLock => 3 | QUnlock => 2 | QBcast => 1 end.

Definition W2 (n : nat) : nat := 3 * (n + 1) + 11.
Definition W1 (n : nat) : nat := 5 * W2 n + 11.

Definition run_bound (mbW mbH n : nat) : nat := W1 n * (mbH * mbW + 2 * mbH + n) + 10.

Section Term.
  Variable V : Type.
  Variable v0 : V.
  Variable f : nat -> nat -> V -> V -> V -> V -> V.
  Variables mbW mbH : nat.
  Hypothesis HmbW : 1 <= mbW.
  Variable n : nat.

  Notation dstate := (dstate V).
  Notation dstep := (dstep V v0 f mbW mbH).
  Notation drun := (drun V v0 f mbW mbH).
  Notation dinit := (dinit V v0).
  Notation DInv := (DInv V v0 f mbW mbH).
  Notation abs := (abs V mbW).

  Definition val (w : dw V) : nat :=
    match w with
    | DWait _ _ _ _ ph => wrank ph
    | DSig _ _ _ _ sp => W2 n * srank sp
    | DCompute _ _ _ _ => 1                      (* the read sub-step is still to come *)
    | _ => 0
    end.
  Definition valr (r : dr) : nat := match r with RWait ph => wrank ph | RReady => 0 end.

  Fixpoint sumval (ws : list (dw V)) : nat := match ws with [] => 0 | w :: tl => val w + sumval tl end.
  Fixpoint nex (ws : list (dw V)) : nat :=
    match ws with [] => 0 | w :: tl => (if dw_exited V w then 1 else 0) + nex tl end.

  (** abstract progress (= the L1 measure of the abstraction) and the process potential *)
  Definition prog (s : dstate) : nat :=
    sumf (d_adone V s) mbH + d_next V s + nex (d_workers V s) + d_recRow V s.
  Definition pot (s : dstate) : nat := sumval (d_workers V s) + valr (d_rec V s).

  Lemma sumval_set_nth ws i w w' : nth_error ws i = Some w ->
    sumval (set_nth ws i w') + val w = sumval ws + val w'.
  Proof.
    revert i; induction ws as [|h tl IH]; intros [|i] H; cbn in *; try discriminate.
    - inversion H; subst. lia.
    - specialize (IH i H). lia.
  Qed.

  Lemma nex_set_nth ws i w w' : nth_error ws i = Some w ->
    nex (set_nth ws i w') + (if dw_exited V w then 1 else 0) = nex ws + (if dw_exited V w' then 1 else 0).
  Proof.
    revert i; induction ws as [|h tl IH]; intros [|i] H; cbn in *; try discriminate.
    - inversion H; subst. lia.
    - specialize (IH i H). lia.
  Qed.

  Lemma val_wake row w : val (wake_w V row w) <= val w + 3.
  Proof.
    destruct w as [| |y x tl l ph|y x tl l|y x tl l t0 tr0|y x tl l sp]; cbn; try lia.
    destruct ph; cbn; try lia. destruct (y =? S row); cbn; lia.
  Qed.

  Lemma sumval_wake row ws : sumval (map (wake_w V row) ws) <= sumval ws + 3 * length ws.
  Proof. induction ws as [|h tl IH]; cbn; [lia|]. pose proof (val_wake row h). lia. Qed.

  Lemma nex_wake row ws : nex (map (wake_w V row) ws) = nex ws.
  Proof.
    induction ws as [|h tl IH]; cbn; [reflexivity|]. rewrite IH. f_equal.
    destruct h as [| |y x tl0 l ph|y x tl0 l|y x tl0 l t0 tr0|y x tl0 l sp]; cbn; try reflexivity.
    destruct ph; cbn; try reflexivity. destruct (y =? S row); reflexivity.
  Qed.

  Lemma nex_abs ws : nexited V (map (abs_w V mbW) ws) <= length ws.
  Proof. pose proof (nexited_le V mbW HmbW (map (abs_w V mbW) ws)) as H. now rewrite map_length in H. Qed.

  Lemma val_start_mb y x tl l : val (start_mb V y x tl l) <= 10.
  Proof. unfold start_mb. destruct (y =? 0); cbn; lia. Qed.
  Lemma val_sig_exit y x tl l : val (sig_exit V mbW y x tl l) <= 10.
  Proof. unfold sig_exit. destruct (S x <? mbW); [apply val_start_mb|cbn; lia]. Qed.
  Lemma ex_start_mb y x tl l : dw_exited V (start_mb V y x tl l) = false.
  Proof. unfold start_mb. destruct (y =? 0); reflexivity. Qed.
  Lemma ex_sig_exit y x tl l : dw_exited V (sig_exit V mbW y x tl l) = false.
  Proof. unfold sig_exit. destruct (S x <? mbW); [apply ex_start_mb|reflexivity]. Qed.

  Lemma sumf_upd_other g y v k : k <= y -> sumf (upd1 g y v) k = sumf g k.
  Proof.
    induction k as [|k IH]; intros Hk; cbn [sumf]; [reflexivity|].
    rewrite IH by lia. unfold upd1. replace (k =? y) with false by (symmetry; apply Nat.eqb_neq; lia). reflexivity.
  Qed.

  Lemma sumf_upd_succ g y k : y < k -> sumf (upd1 g y (S (g y))) k = S (sumf g k).
  Proof.
    induction k as [|k IH]; intros Hy; [lia|]. cbn [sumf].
    destruct (Nat.eq_dec y k) as [->|Hne].
    - rewrite sumf_upd_other by lia. unfold upd1. rewrite Nat.eqb_refl. lia.
    - rewrite IH by lia. unfold upd1. replace (k =? y) with false by (symmetry; apply Nat.eqb_neq; lia). lia.
  Qed.

  Lemma wait_step_rank d nw m me nd ph :
    match wait_step d nw m me nd ph with
    | Some (WCont ph' _ _) => wrank ph' + 1 <= wrank ph
    | Some (WRet _ _) => 2 <= wrank ph
    | None => True
    end.
  Proof.
    destruct ph; cbn [wait_step wrank]; try lia.
    - destruct (nd <=? d); cbn; lia.
    - destruct m; cbn; [exact I|lia].
    - destruct (d <? nd); cbn; lia.
    - destruct m; cbn; [exact I|lia].
  Qed.

  (** one step: either the potential drops, or abstract progress is made and the
      potential grows by less than [W1 n] *)
  Lemma step_potential s l s' : DInv n s -> dstep s l = Some s' ->
    (prog s' = prog s /\ pot s' + 1 <= pot s) \/ (prog s' = S (prog s) /\ pot s' + 1 <= pot s + W1 n).
  Proof.
    intros HD Hs.
    pose proof (abs_inv V v0 f mbW mbH HmbW n s HD) as HL1.
    assert (Hlen : length (d_workers V s) = n).
    { pose proof (i_len V v0 f mbW mbH n (abs s) HL1) as H. cbn [workers ConcDetailed.abs] in H. now rewrite map_length in H. }
    destruct l as [i|]; cbn [ConcDetailed.dstep] in Hs.
    - unfold ConcDetailed.dstep_worker in Hs.
      destruct (nth_error (d_workers V s) i) as [w|] eqn:Hw; [|discriminate].
      assert (Habsw : nth_error (workers V (abs s)) i = Some (abs_w V mbW w))
        by (cbn; rewrite nth_error_map, Hw; reflexivity).
      destruct w as [| |y x tl l ph|y x tl l|y x tl l t0 tr0|y x tl l sp]; try discriminate.
      + (* DIdle *)
        destruct (d_next V s <? mbH); inversion Hs; subst s'; clear Hs; right; unfold prog, pot, setw; cbn [d_adone d_next d_workers d_recRow d_rec].
        * pose proof (sumval_set_nth _ i _ (start_mb V (d_next V s) 0 v0 v0) Hw) as H1.
          pose proof (nex_set_nth _ i _ (start_mb V (d_next V s) 0 v0 v0) Hw) as H2.
          rewrite ex_start_mb in H2. pose proof (val_start_mb (d_next V s) 0 v0 v0). cbn in H1, H2. unfold W1, W2. split; lia.
        * pose proof (sumval_set_nth _ i _ DExited Hw) as H1. pose proof (nex_set_nth _ i _ DExited Hw) as H2.
          cbn in H1, H2. unfold W1, W2. split; lia.
      + (* DWait *)
        pose proof (wait_step_rank (d_done V s (y - 1)) (d_nwait V s (y - 1)) (d_mu V s (y - 1)) (OWk i) (needed mbW x) ph) as Hr.
        destruct (wait_step (d_done V s (y - 1)) (d_nwait V s (y - 1)) (d_mu V s (y - 1)) (OWk i) (needed mbW x) ph)
          as [[ph' nw' m'|nw' m']|]; [| |discriminate]; inversion Hs; subst s'; clear Hs; left;
          unfold prog, pot, setw; cbn [d_adone d_next d_workers d_recRow d_rec].
        * pose proof (sumval_set_nth _ i _ (DWait y x tl l ph') Hw) as H1. pose proof (nex_set_nth _ i _ (DWait y x tl l ph') Hw) as H2.
          cbn in H1, H2. split; lia.
        * pose proof (sumval_set_nth _ i _ (DCompute y x tl l) Hw) as H1. pose proof (nex_set_nth _ i _ (DCompute y x tl l) Hw) as H2.
          cbn in H1, H2. split; lia.
      + (* DCompute: the read sub-step *)
        inversion Hs; subst s'; clear Hs. left. unfold prog, pot, setw; cbn [d_adone d_next d_workers d_recRow d_rec].
        pose proof (sumval_set_nth _ i _ (DHold y x tl l (snd (d_top V s x)) (if S x <? mbW then snd (d_top V s (S x)) else v0)) Hw) as H1.
        pose proof (nex_set_nth _ i _ (DHold y x tl l (snd (d_top V s x)) (if S x <? mbW then snd (d_top V s (S x)) else v0)) Hw) as H2.
        cbn [val dw_exited] in H1, H2. split; lia.
      + (* DHold: the write sub-step — abstract progress *)
        inversion Hs; subst s'; clear Hs. right.
        destruct (i_worker V v0 f mbW mbH n (abs s) HL1 i y x tl l Habsw) as (Hy & _ & Hadone & _).
        cbn [done nextRow ConcDetailed.abs] in Hadone, Hy. pose proof (i_next V v0 f mbW mbH n (abs s) HL1) as Hnx. cbn [nextRow ConcDetailed.abs] in Hnx.
        unfold prog, pot, setw; cbn [d_adone d_next d_workers d_recRow d_rec].
        set (w' := DSig y x t0 (f y x tl t0 tr0 l) QStore).
        pose proof (sumval_set_nth _ i _ w' Hw) as H1.
        pose proof (nex_set_nth _ i _ w' Hw) as H2.
        unfold w' in H1, H2. cbn [val dw_exited srank] in H1, H2. fold w' in H1, H2.
        rewrite <- Hadone. rewrite sumf_upd_succ by lia. unfold W1. split; lia.
      + (* DSig *)
        destruct sp.
        * inversion Hs; subst s'; clear Hs. left. unfold prog, pot, setw; cbn [d_adone d_next d_workers d_recRow d_rec].
          pose proof (sumval_set_nth _ i _ (DSig y x tl l QLoad) Hw) as H1. pose proof (nex_set_nth _ i _ (DSig y x tl l QLoad) Hw) as H2.
          cbn in H1, H2. unfold W2 in *. split; lia.
        * inversion Hs; subst s'; clear Hs. left. unfold prog, pot, setw; cbn [d_adone d_next d_workers d_recRow d_rec].
          destruct (0 <? d_nwait V s y).
          -- pose proof (sumval_set_nth _ i _ (DSig y x tl l QLock) Hw) as H1. pose proof (nex_set_nth _ i _ (DSig y x tl l QLock) Hw) as H2.
             cbn in H1, H2. unfold W2 in *. split; lia.
          -- pose proof (sumval_set_nth _ i _ (sig_exit V mbW y x tl l) Hw) as H1. pose proof (nex_set_nth _ i _ (sig_exit V mbW y x tl l) Hw) as H2.
             rewrite ex_sig_exit in H2. pose proof (val_sig_exit y x tl l). cbn in H1, H2. unfold W2 in *. split; lia.
        * destruct (d_mu V s y); [discriminate|]. inversion Hs; subst s'; clear Hs. left.
          unfold prog, pot, setw; cbn [d_adone d_next d_workers d_recRow d_rec].
          pose proof (sumval_set_nth _ i _ (DSig y x tl l QUnlock) Hw) as H1. pose proof (nex_set_nth _ i _ (DSig y x tl l QUnlock) Hw) as H2.
          cbn in H1, H2. unfold W2 in *. split; lia.
        * inversion Hs; subst s'; clear Hs. left. unfold prog, pot, setw; cbn [d_adone d_next d_workers d_recRow d_rec].
          pose proof (sumval_set_nth _ i _ (DSig y x tl l QBcast) Hw) as H1. pose proof (nex_set_nth _ i _ (DSig y x tl l QBcast) Hw) as H2.
          cbn in H1, H2. unfold W2 in *. split; lia.
        * (* QBcast *)
          inversion Hs; subst s'; clear Hs. left. unfold prog, pot; cbn [d_adone d_next d_workers d_recRow d_rec].
          assert (Hw' : nth_error (map (wake_w V y) (d_workers V s)) i = Some (DSig y x tl l QBcast))
            by (rewrite nth_error_map, Hw; reflexivity).
          pose proof (sumval_set_nth _ i _ (sig_exit V mbW y x tl l) Hw') as H1.
          pose proof (nex_set_nth _ i _ (sig_exit V mbW y x tl l) Hw') as H2.
          rewrite ex_sig_exit in H2. rewrite nex_wake in H2. pose proof (sumval_wake y (d_workers V s)) as H3.
          pose proof (val_sig_exit y x tl l) as H4. cbn in H1, H2.
          assert (H5 : valr (wake_r y (d_recRow V s) (d_rec V s)) <= valr (d_rec V s) + 3).
          { destruct (d_rec V s) as [ph|]; cbn; [|lia]. destruct ph; cbn; try lia. destruct (d_recRow V s =? y); cbn; lia. }
          unfold W2 in *. split; lia.
    - (* recorder *)
      unfold ConcDetailed.dstep_rec in Hs. destruct (d_recRow V s <? mbH); [|discriminate].
      destruct (d_rec V s) as [ph|] eqn:Er.
      + pose proof (wait_step_rank (d_done V s (d_recRow V s)) (d_nwait V s (d_recRow V s)) (d_mu V s (d_recRow V s)) ORec mbW ph) as Hr.
        destruct (wait_step (d_done V s (d_recRow V s)) (d_nwait V s (d_recRow V s)) (d_mu V s (d_recRow V s)) ORec mbW ph)
          as [[ph' nw' m'|nw' m']|]; [| |discriminate]; inversion Hs; subst s'; clear Hs; left;
          unfold prog, pot; cbn [d_adone d_next d_workers d_recRow d_rec]; rewrite Er; cbn [valr]; split; lia.
      + inversion Hs; subst s'; clear Hs. right. unfold prog, pot; cbn [d_adone d_next d_workers d_recRow d_rec].
        rewrite Er. cbn [valr wrank]. unfold W1, W2. split; lia.
  Qed.

  Lemma prog_bound s : DInv n s -> prog s <= mbH * mbW + 2 * mbH + n.
  Proof.
    intros HD. pose proof (abs_inv V v0 f mbW mbH HmbW n s HD) as HL1.
    unfold prog.
    pose proof (sumf_le mbW HmbW (d_adone V s) mbH mbW (i_done_le V v0 f mbW mbH n (abs s) HL1)) as H1.
    pose proof (i_next V v0 f mbW mbH n (abs s) HL1) as H2. cbn [nextRow ConcDetailed.abs] in H2.
    pose proof (i_rec_le V v0 f mbW mbH n (abs s) HL1) as H3. cbn [recRow ConcDetailed.abs] in H3.
    assert (H4 : nex (d_workers V s) <= n).
    { pose proof (i_len V v0 f mbW mbH n (abs s) HL1) as Hl. cbn [workers ConcDetailed.abs] in Hl. rewrite map_length in Hl.
      rewrite <- Hl. clear. induction (d_workers V s) as [|h tl IH]; cbn; [lia|]. destruct (dw_exited V h); lia. }
    lia.
  Qed.

  (** ** Termination with an explicit bound *)
  Theorem detailed_terminates : forall sched s,
    drun (dinit n) sched = Some s -> length sched <= run_bound mbW mbH n.
  Proof.
    intros sched.
    assert (G : forall s0, DInv n s0 -> forall s1, drun s0 sched = Some s1 ->
                DInv n s1 /\ length sched + pot s1 + W1 n * prog s0 <= W1 n * prog s1 + pot s0).
    { induction sched as [|l rest IH]; intros s0 H0 s1 Hr; cbn [ConcDetailed.drun] in Hr.
      - inversion Hr; subst. split; [exact H0|cbn; lia].
      - destruct (dstep s0 l) as [s2|] eqn:Hs; [|discriminate].
        pose proof (dstep_inv V v0 f mbW mbH HmbW n s0 l s2 H0 Hs) as H2.
        destruct (IH s2 H2 s1 Hr) as [H1 Hle]. split; [exact H1|]. cbn [length].
        destruct (step_potential s0 l s2 H0 Hs) as [[Hp Hq]|[Hp Hq]]; rewrite Hp in Hle.
        + lia.
        + rewrite Nat.mul_succ_r in Hle. lia. }
    intros s Hr. destruct (G (dinit n) (dinit_inv V v0 f mbW mbH HmbW n) s Hr) as [HD Hle].
    pose proof (prog_bound s HD) as Hb.
    assert (Hp0 : pot (dinit n) = 10).
    { unfold pot. cbn. clear. induction n as [|k IH]; cbn; [reflexivity|exact IH]. }
    rewrite Hp0 in Hle. unfold run_bound.
    assert (W1 n * prog s <= W1 n * (mbH * mbW + 2 * mbH + n)) by (apply Nat.mul_le_mono_l; exact Hb).
    lia.
  Qed.

  (** ** Liveness under every scheduler: an execution continued as long as possible
      reaches the final state, within the bound. *)
  Theorem detailed_always_reaches_final : forall sched s, 1 <= n ->
    drun (dinit n) sched = Some s ->
    length sched <= run_bound mbW mbH n /\
    (dfinal V mbH s = true \/ exists l, dstep s l <> None).
  Proof.
    intros sched s Hn Hr. split; [exact (detailed_terminates sched s Hr)|].
    destruct (dfinal V mbH s) eqn:Hf; [now left|right].
    exact (detailed_deadlock_free V v0 f mbW mbH HmbW n sched s Hn Hr Hf).
  Qed.

  (** A run of maximal length [run_bound] cannot be extended, so it is final: no
      execution, however scheduled, runs for ever. *)
  Corollary detailed_no_infinite_run : forall sched s l, 1 <= n ->
    drun (dinit n) sched = Some s -> length sched = run_bound mbW mbH n -> dstep s l = None.
  Proof.
    intros sched s l Hn Hr Hlen. destruct (dstep s l) as [s'|] eqn:Hs; [exfalso|reflexivity].
    assert (Hr' : drun (dinit n) (sched ++ [l]) = Some s').
    { clear Hlen. revert Hr. generalize (dinit n). induction sched as [|l0 rest IH]; intros s0 Hr; cbn [ConcDetailed.drun app] in *.
      - inversion Hr; subst. rewrite Hs. reflexivity.
      - destruct (dstep s0 l0) as [s1|]; [|discriminate]. exact (IH s1 Hr). }
    pose proof (detailed_terminates _ _ Hr') as Hb. rewrite app_length in Hb. cbn [length] in Hb. rewrite Hlen in Hb. lia.
  Qed.

End Term.
