(** C12 — lossy computeAlphas (internal/lossy/encode_analysis.go): the serial body
    (computeAlphasSerial, taken when the worker count is 1) and the per-worker body of
    the parallel path compute the same per-macroblock values, the same [alphas] array
    and the same [uvAlphaSum] total, for every partition of the macroblock rows and
    every interleaving.

    Level of the model: the per-macroblock analysis values [luma mbX mbY] and
    [uv mbX mbY] are abstract (both bodies call the same kernels
    computeMBAlphaDCTWith / computeMBUVAlphaDCTWith on the same source planes and
    differ only in the scratch buffers they pass — a syntactic obligation regenerated
    by the translator, Gen/Analysis.v; that the kernels' results do not depend on the
    scratch contents is an assumption probed by the differential runs).  Modelled
    exactly: the loop structure, the index arithmetic idx = mbY*mbW + mbX, the mixing
    and clamping formula, the writes alphas[idx], the accumulation (local sum per
    worker, atomic add in completion order) and the final division. *)
From Coq Require Import List ZArith Lia Bool Permutation.
From Coq Require Import ZifyBool ZifyNat ZifyN.
Ltac Zify.zify_post_hook ::= Z.div_mod_to_equations.
From Webp Require Import Conc.ConcPartition Conc.ConcPartitionProofs.
Import ListNotations.
Open Scope Z_scope.

Section Analysis.
  Variables luma uv : Z -> Z -> Z.      (* per-macroblock DCT-histogram alphas, arguments mbX mbY *)
  Variables mbW mbH : Z.

  Definition maxAlpha : Z := 255.

  (** mixed := (3*lumaAlpha + uvAlpha + 2) >> 2; mixed = maxAlpha - mixed; clamp to [0, maxAlpha] *)
  Definition mix (la ua : Z) : Z :=
    let m := maxAlpha - Z.shiftr (3 * la + ua + 2) 2 in
    if m <? 0 then 0 else if m >? maxAlpha then maxAlpha else m.

  (** the body shared by both loops, for one macroblock: (index written, value written, uv term) *)
  Definition mb_step (mbX mbY : Z) : Z * Z * Z :=
    (mbY * mbW + mbX, mix (luma mbX mbY) (uv mbX mbY), uv mbX mbY).

  (** macroblocks of the rows [startY, endY) in loop order (for mbY .. for mbX ..) *)
  Definition mbs_of_rows (r : range) : list (Z * Z * Z) :=
    flat_map (fun mbY => map (fun mbX => mb_step mbX mbY) (zrange mbW)) (indices r).

  Definition write_alpha (alphas : list Z) (st : Z * Z * Z) : list Z :=
    upd alphas (Z.to_nat (fst (fst st))) (snd (fst st)).

  (** computeAlphasSerial: one loop over all rows; returns (alphas, uvAlphaSum / total) *)
  Definition serial (alphas0 : list Z) : list Z * Z :=
    let steps := mbs_of_rows (0, mbH) in
    (fold_left write_alpha steps alphas0,
     Z.quot (fold_left (fun acc st => acc + snd st) steps 0) (mbH * mbW)).

  (** parallel path: worker k runs [mbs_of_rows r_k]; the writes of all workers are
      interleaved arbitrarily ([Shuffle]); each worker adds its local sum atomically
      when it finishes ([order]: any permutation of the workers) *)
  Definition worker_sum (r : range) : Z := fold_left (fun acc st => acc + snd st) (mbs_of_rows r) 0.

  Definition parallel (alphas0 : list Z) (interleaved : list (Z * Z * Z)) (order : list range) : list Z * Z :=
    (fold_left write_alpha interleaved alphas0,
     Z.quot (fold_left (fun acc r => acc + worker_sum r) order 0) (mbH * mbW)).

End Analysis.

(** ** Proofs *)
Section AnalysisProofs.
  Variables luma uv : Z -> Z -> Z.
  Variables mbW mbH : Z.
  Hypothesis HW : 1 <= mbW.
  Hypothesis HH : 1 <= mbH.

  Notation mb_step := (mb_step luma uv mbW).
  Notation mbs_of_rows := (mbs_of_rows luma uv mbW).

  Definition scale (r : range) : range := (fst r * mbW, snd r * mbW).

  (** per macroblock INDEX: what is written and what is added *)
  Definition alpha_at (idx : Z) : Z := mix (luma (idx mod mbW) (idx / mbW)) (uv (idx mod mbW) (idx / mbW)).
  Definition uv_at (idx : Z) : Z := uv (idx mod mbW) (idx / mbW).

  Lemma mb_step_idx mbX mbY : 0 <= mbX < mbW ->
    mb_step mbX mbY = (mbY * mbW + mbX, alpha_at (mbY * mbW + mbX), uv_at (mbY * mbW + mbX)).
  Proof.
    intros Hx. unfold ConcAnalysis.mb_step, alpha_at, uv_at.
    assert (E1 : (mbY * mbW + mbX) mod mbW = mbX).
    { rewrite Z.add_comm, Z.mod_add by lia. apply Z.mod_small. lia. }
    assert (E2 : (mbY * mbW + mbX) / mbW = mbY).
    { rewrite Z.add_comm, Z.div_add by lia. rewrite Z.div_small by lia. lia. }
    rewrite E1, E2. reflexivity.
  Qed.

  Definition step_of (idx : Z) : Z * Z * Z := (idx, alpha_at idx, uv_at idx).

  (** the double loop over rows [s, s+k) visits exactly the indices [s*mbW, (s+k)*mbW) in order *)
  Lemma row_steps mbY : map (fun mbX => mb_step mbX mbY) (zrange mbW) = map step_of (indices (mbY * mbW, mbY * mbW + mbW)).
  Proof.
    unfold zrange, indices. cbn [fst snd]. rewrite !map_map.
    replace (Z.to_nat (mbY * mbW + mbW - mbY * mbW)) with (Z.to_nat mbW) by lia.
    apply map_ext_in. intros k Hk. apply in_seq in Hk. rewrite mb_step_idx by lia. reflexivity.
  Qed.

  Lemma map_seq_shift a b : forall q s t, a + Z.of_nat s = b + Z.of_nat t ->
    map (fun k : nat => a + Z.of_nat k) (seq s q) = map (fun k : nat => b + Z.of_nat k) (seq t q).
  Proof.
    induction q as [|q IH]; intros s t H; cbn [seq map]; [reflexivity|].
    f_equal; [exact H|]. apply IH. lia.
  Qed.

  Lemma indices_split a b c : a <= b -> b <= c -> indices (a, c) = indices (a, b) ++ indices (b, c).
  Proof.
    intros Hab Hbc. unfold indices. cbn [fst snd].
    replace (Z.to_nat (c - a)) with (Z.to_nat (b - a) + Z.to_nat (c - b))%nat by lia.
    rewrite seq_app, map_app. f_equal. apply map_seq_shift. lia.
  Qed.

  Lemma rows_steps_nat (k : nat) : forall s,
    flat_map (fun mbY => map (fun mbX => mb_step mbX mbY) (zrange mbW)) (indices (s, s + Z.of_nat k))
    = map step_of (indices (s * mbW, (s + Z.of_nat k) * mbW)).
  Proof.
    induction k as [|k IH]; intros s.
    - unfold indices. cbn [fst snd]. replace (Z.to_nat (s + Z.of_nat 0 - s)) with 0%nat by lia.
      replace (Z.to_nat ((s + Z.of_nat 0) * mbW - s * mbW)) with 0%nat by lia. reflexivity.
    - rewrite (indices_split s (s + 1) (s + Z.of_nat (S k))) by lia.
      rewrite flat_map_app.
      replace (indices (s, s + 1)) with [s].
      2:{ unfold indices. cbn [fst snd]. replace (Z.to_nat (s + 1 - s)) with 1%nat by lia. cbn. f_equal. lia. }
      cbn [flat_map]. rewrite app_nil_r, row_steps.
      replace (s + Z.of_nat (S k)) with (s + 1 + Z.of_nat k) by lia. rewrite IH.
      rewrite <- map_app. f_equal.
      rewrite (indices_split (s * mbW) (s * mbW + mbW) ((s + 1 + Z.of_nat k) * mbW)) by nia.
      replace ((s + 1) * mbW) with (s * mbW + mbW) by ring. reflexivity.
  Qed.

  Lemma mbs_of_rows_spec r : fst r <= snd r -> mbs_of_rows r = map step_of (indices (scale r)).
  Proof.
    intros Hr. unfold ConcAnalysis.mbs_of_rows, scale. destruct r as [s e]. cbn [fst snd] in *.
    replace e with (s + Z.of_nat (Z.to_nat (e - s))) by lia. apply rows_steps_nat.
  Qed.

  Lemma mbs_of_rows_empty r : snd r <= fst r -> mbs_of_rows r = [] /\ indices (scale r) = [].
  Proof.
    intros Hr. unfold ConcAnalysis.mbs_of_rows, indices, scale. cbn [fst snd].
    replace (Z.to_nat (snd r - fst r)) with 0%nat by lia.
    replace (Z.to_nat (snd r * mbW - fst r * mbW)) with 0%nat by nia. auto.
  Qed.

  Lemma mbs_of_rows_any r : mbs_of_rows r = map step_of (indices (scale r)).
  Proof.
    destruct (Z_le_gt_dec (fst r) (snd r)) as [H|H]; [now apply mbs_of_rows_spec|].
    destruct (mbs_of_rows_empty r ltac:(lia)) as [-> ->]. reflexivity.
  Qed.

  (** scaling a partition of the rows gives a partition of the macroblock indices *)
  Lemma scale_in_range r i : in_range (scale r) i <-> in_range r (i / mbW).
  Proof.
    unfold in_range, scale. cbn [fst snd]. split; intros H.
    - split; [apply Z.div_le_lower_bound; lia|apply Z.div_lt_upper_bound; lia].
    - pose proof (Z.div_mod i mbW ltac:(lia)). pose proof (Z.mod_pos_bound i mbW ltac:(lia)). nia.
  Qed.

  Lemma scale_partition rs : exact_partition rs 0 mbH -> exact_partition (map scale rs) 0 (mbH * mbW).
  Proof.
    intros (Hin & Hcov & Hdis). split; [|split].
    - intros r i Hr Hi. apply in_map_iff in Hr. destruct Hr as (r0 & <- & Hr0).
      apply scale_in_range in Hi. pose proof (Hin r0 _ Hr0 Hi) as Hb.
      pose proof (Z.div_mod i mbW ltac:(lia)). pose proof (Z.mod_pos_bound i mbW ltac:(lia)). nia.
    - intros i Hi. destruct (Hcov (i / mbW)) as (r & Hr & Hri).
      { split; [apply Z.div_pos; lia|apply Z.div_lt_upper_bound; lia]. }
      exists (scale r). split; [apply in_map; exact Hr|apply scale_in_range; exact Hri].
    - intros j k i Hj Hk Hrj Hrk. rewrite map_length in Hj, Hk.
      change (0, 0) with (scale (0, 0)) in Hrj, Hrk.
      rewrite map_nth in Hrj, Hrk. apply scale_in_range in Hrj, Hrk. exact (Hdis j k _ Hj Hk Hrj Hrk).
  Qed.

  (** the writes are [run_writes alpha_at] on the visited indices, the sums are sums of [uv_at] *)
  Lemma fold_write_steps l alphas0 :
    fold_left write_alpha (map step_of l) alphas0 = run_writes alpha_at l alphas0.
  Proof.
    unfold run_writes. revert alphas0. induction l as [|i l IH]; intros a0; cbn [map fold_left]; [reflexivity|].
    rewrite IH. reflexivity.
  Qed.

  Lemma fold_sum_steps l a : fold_left (fun acc st => acc + snd st) (map step_of l) a = a + sum_list (map uv_at l).
  Proof.
    revert a. induction l as [|i l IH]; intros a; cbn [map fold_left]; [unfold sum_list; cbn; lia|].
    rewrite IH, sum_list_cons. cbn [snd step_of]. lia.
  Qed.

  Lemma Shuffle_map {A B} (g : A -> B) ls ops : Shuffle ls ops -> Shuffle (map (map g) ls) (map g ops).
  Proof.
    induction 1 as [ls Hall|pre x l post ops HS IH].
    - constructor. apply Forall_forall. intros l Hl. apply in_map_iff in Hl. destruct Hl as (l0 & <- & Hl0).
      rewrite Forall_forall in Hall. rewrite (Hall l0 Hl0). reflexivity.
    - rewrite map_app in *. cbn [map] in *. apply Shuffle_pick. exact IH.
  Qed.

  (** an interleaving of the workers' step lists is [map step_of] of an interleaving of their index lists *)
  Lemma Shuffle_steps rs inter :
    Shuffle (map mbs_of_rows rs) inter ->
    exists ops, inter = map step_of ops /\ Shuffle (map indices (map scale rs)) ops.
  Proof.
    intros HS. exists (map (fun st => fst (fst st)) inter). split.
    - assert (G : forall st, In st inter -> step_of (fst (fst st)) = st).
      { intros st Hst. apply (proj1 (Shuffle_In _ _ HS st)) in Hst. destruct Hst as (l & Hl & Hst).
        apply in_map_iff in Hl. destruct Hl as (r & <- & _). rewrite mbs_of_rows_any in Hst.
        apply in_map_iff in Hst. destruct Hst as (i & <- & _). reflexivity. }
      rewrite map_map. rewrite <- (map_id inter) at 1. apply map_ext_in. intros st Hst. symmetry. apply G. exact Hst.
    - apply (Shuffle_map (fun st : Z * Z * Z => fst (fst st))) in HS.
      rewrite !map_map in HS. rewrite map_map.
      erewrite map_ext; [exact HS|]. intros r. cbn beta. rewrite mbs_of_rows_any, map_map.
      cbn [step_of fst]. rewrite map_id. reflexivity.
  Qed.

  (** *** The theorem *)
  Theorem analysis_worker_eq_serial : forall rs alphas0 inter order,
    exact_partition rs 0 mbH ->
    length alphas0 = Z.to_nat (mbH * mbW) ->
    Shuffle (map mbs_of_rows rs) inter ->
    Permutation order rs ->
    parallel luma uv mbW mbH alphas0 inter order = serial luma uv mbW mbH alphas0
    /\ fst (serial luma uv mbW mbH alphas0) = map alpha_at (zrange (mbH * mbW)).
  Proof.
    intros rs alphas0 inter order HP Hlen HS Hperm.
    pose proof (scale_partition rs HP) as HP'.
    assert (Hser_w : fold_left write_alpha (mbs_of_rows (0, mbH)) alphas0 = map alpha_at (zrange (mbH * mbW))).
    { rewrite mbs_of_rows_any, fold_write_steps.
      apply (queue_site_independent Z alpha_at (mbH * mbW) alphas0); [|exact Hlen].
      unfold scale, indices, zrange. cbn [fst snd]. replace (mbH * mbW - 0 * mbW) with (mbH * mbW) by lia.
      erewrite map_ext; [apply Permutation_refl|]. intros k. cbn beta. lia. }
    assert (Hser_s : fold_left (fun acc st => acc + snd st) (mbs_of_rows (0, mbH)) 0 = sum_list (map uv_at (zrange (mbH * mbW)))).
    { rewrite mbs_of_rows_any, fold_sum_steps. cbn [Z.add]. f_equal. f_equal.
      unfold scale, indices, zrange. cbn [fst snd]. replace (mbH * mbW - 0 * mbW) with (mbH * mbW) by lia.
      apply map_ext. intros k. lia. }
    split; [|unfold serial; cbn [fst]; exact Hser_w].
    unfold parallel, serial. f_equal.
    - rewrite Hser_w. destruct (Shuffle_steps rs inter HS) as (ops & -> & HSo).
      rewrite fold_write_steps.
      exact (map_site_independent Z alpha_at (map scale rs) (mbH * mbW) alphas0 ops HP' Hlen HSo).
    - f_equal. rewrite Hser_s.
      assert (Hw : forall r, worker_sum luma uv mbW r = sum_list (map uv_at (indices (scale r)))).
      { intros r. unfold worker_sum. rewrite mbs_of_rows_any, fold_sum_steps. lia. }
      assert (Hfold : forall l a, fold_left (fun acc r => acc + worker_sum luma uv mbW r) l a
                       = a + sum_list (map (fun r => sum_list (map uv_at (indices r))) (map scale l))).
      { induction l as [|r l IH]; intros a; cbn [map fold_left]; [unfold sum_list; cbn; lia|].
        rewrite IH, sum_list_cons, Hw. lia. }
      rewrite Hfold. cbn [Z.add].
      apply (sum_site_independent uv_at (map scale rs) (mbH * mbW) (map scale order) HP').
      apply Permutation_map. exact Hperm.
  Qed.

  (** instantiated with the code's own partition, for every worker count *)
  Corollary analysis_worker_eq_serial_all_n : forall n alphas0 inter order, 1 <= n ->
    length alphas0 = Z.to_nat (mbH * mbW) ->
    Shuffle (map mbs_of_rows (ranges_compute_alphas n mbW mbH)) inter ->
    Permutation order (ranges_compute_alphas n mbW mbH) ->
    parallel luma uv mbW mbH alphas0 inter order = serial luma uv mbW mbH alphas0.
  Proof.
    intros n alphas0 inter order Hn Hlen HS Hperm.
    exact (proj1 (analysis_worker_eq_serial _ alphas0 inter order
             (partition_exact_compute_alphas n mbW mbH Hn HW HH) Hlen HS Hperm)).
  Qed.

End AnalysisProofs.

(** not vacuous: 2x3 macroblocks, two workers (rows [0,2) and [2,3)), writes interleaved *)
Example analysis_example :
  let luma := fun x y => 10 * x + y in
  let uv := fun x y => 100 + x + 3 * y in
  parallel luma uv 2 3 [0; 0; 0; 0; 0; 0]
     (mbs_of_rows luma uv 2 (2, 3) ++ mbs_of_rows luma uv 2 (0, 2)) [(2, 3); (0, 2)]
  = serial luma uv 2 3 [0; 0; 0; 0; 0; 0].
Proof. vm_compute. reflexivity. Qed.

(** Source tie (Properties/C12.v, over Gen/Analysis.v).  What is required of the source is
    relative, not a transcription: the per-macroblock loop body of the worker goroutines and
    that of computeAlphasSerial are the SAME code once the wrapper calls (LUMA / UV), the
    accumulator (ACC) and the names of locals (L0, L1, ...) are normalised and hook lines
    dropped — so [mix] may be any function, as it is in the theorems above — and each
    serial / worker wrapper pair returns the same kernel on the same leading arguments, the
    worker taking all scratch from its own parameter, never from the shared encoder. *)
From Coq Require Import String.
Fixpoint wrappers_ok (l : list (string * string * string * string * string)) : bool :=
  match l with
  | [] => true
  | (r1, _, k1, a1, _) :: (r2, _, k2, a2, c2) :: tl =>
      String.eqb r1 "serial" && String.eqb r2 "worker" && String.eqb k1 k2 && String.eqb a1 a2 &&
      String.eqb c2 "own-only" && wrappers_ok tl
  | _ => false
  end.
