(** C10 — the detailed system (ConcDetailed.v) never deadlocks and never loses a
    wake-up: an inductive invariant relating, per row, the waiters counter, the mutex
    owner, the sleepers and the phase of the row's signaller (the multi-row version of
    the L2 invariant of ConcWaitSignalProofs.v), and from it: every reachable state
    that is not final has an enabled transition.  With the refinement theorem of
    ConcDetailedProofs.v: every maximal run of the detailed system ends in the serial
    result. *)
From Coq Require Import List Arith Lia Bool.
From Webp Require Import Conc.ConcRowSync Conc.ConcRowSyncProofs Conc.ConcDetailed Conc.ConcDetailedProofs.
Import ListNotations.

Lemma sn_len {A} (l : list A) i v : length (set_nth l i v) = length l.
Proof. revert i; induction l as [|h tl IH]; intros [|i]; cbn; auto. Qed.
Lemma sn_eq {A} (l : list A) i v : i < length l -> nth_error (set_nth l i v) i = Some v.
Proof. revert i; induction l as [|h tl IH]; intros [|i] Hi; cbn in *; try lia; auto. apply IH; lia. Qed.
Lemma sn_neq {A} (l : list A) i j v : i <> j -> nth_error (set_nth l i v) j = nth_error l j.
Proof. revert i j; induction l as [|h tl IH]; intros [|i] [|j] Hij; cbn; auto; try lia. Qed.
Lemma u1_eq {A} (g : nat -> A) k v : upd1 g k v k = v.
Proof. unfold upd1. now rewrite Nat.eqb_refl. Qed.
Lemma u1_neq {A} (g : nat -> A) k v i : i <> k -> upd1 g k v i = g i.
Proof. unfold upd1. intros H. apply Nat.eqb_neq in H. now rewrite H. Qed.

Section Live.
  Variable V : Type.
  Variable v0 : V.
  Variable f : nat -> nat -> V -> V -> V -> V -> V.
  Variables mbW mbH : nat.
  Hypothesis HmbW : 1 <= mbW.

  Notation dstate := (dstate V).
  Notation dstep := (dstep V v0 f mbW mbH).
  Notation dstep_worker := (dstep_worker V v0 f mbW mbH).
  Notation dstep_rec := (dstep_rec V v0 mbW mbH).
  Notation drun := (drun V v0 f mbW mbH).
  Notation dinit := (dinit V v0).
  Notation DInv := (DInv V v0 f mbW mbH).
  Notation needed := (needed mbW).
  Notation abs := (abs V mbW).

  Definition counted (ph : wph) : bool := match ph with PFast | PInc => false | _ => true end.
  Definition holding (ph : wph) : bool := match ph with PCheck | PWaitCall | PUnlock => true | _ => false end.
  Definition asleepish (ph : wph) : bool := match ph with PWaitCall | PSleep => true | _ => false end.
  Definition okphase (ph : wph) (sp : sph) : bool :=
    match ph, sp with
    | PWaitCall, (QLoad | QLock) => true
    | PSleep, (QLoad | QLock | QUnlock | QBcast) => true
    | _, _ => false
    end.

  Definition cnt_on (r : nat) (w : dw V) : nat :=
    match w with DWait y _ _ _ ph => if (y =? S r) && counted ph then 1 else 0 | _ => 0 end.
  Fixpoint ncw (r : nat) (ws : list (dw V)) : nat :=
    match ws with [] => 0 | w :: tl => cnt_on r w + ncw r tl end.
  Definition crec_of (rc : dr) (recRow r : nat) : nat :=
    match rc with RWait ph => if (recRow =? r) && counted ph then 1 else 0 | RReady => 0 end.

  Definition hold_w (w : dw V) : option nat :=
    match w with
    | DWait y _ _ _ ph => if holding ph then Some (y - 1) else None
    | DSig y _ _ _ QUnlock => Some y
    | _ => None
    end.
  Definition hold_of (rc : dr) (recRow : nat) : option nat :=
    match rc with RWait ph => if holding ph then Some recRow else None | RReady => None end.

  (** a signaller of row [r] whose phase guarantees the wake-up of a waiter in phase [ph] *)
  Definition sigw (ws : list (dw V)) (r : nat) (ph : wph) : Prop :=
    exists j x tl l sp, nth_error ws j = Some (DSig r x tl l sp) /\ okphase ph sp = true.

  Record Live (s : dstate) : Prop := {
    q_cnt : forall r, d_nwait V s r = ncw r (d_workers V s) + crec_of (d_rec V s) (d_recRow V s) r;
    q_mu_w1 : forall r i, d_mu V s r = Some (OWk i) -> exists w, nth_error (d_workers V s) i = Some w /\ hold_w w = Some r;
    q_mu_w2 : forall r i w, nth_error (d_workers V s) i = Some w -> hold_w w = Some r -> d_mu V s r = Some (OWk i);
    q_mu_r1 : forall r, d_mu V s r = Some ORec -> hold_of (d_rec V s) (d_recRow V s) = Some r;
    q_mu_r2 : forall r, hold_of (d_rec V s) (d_recRow V s) = Some r -> d_mu V s r = Some ORec;
    q_ab_w : forall i y x tl l ph, nth_error (d_workers V s) i = Some (DWait y x tl l ph) ->
               needed x <= d_done V s (y - 1) -> asleepish ph = true -> sigw (d_workers V s) (y - 1) ph;
    q_ab_r : forall ph, d_rec V s = RWait ph -> mbW <= d_done V s (d_recRow V s) -> asleepish ph = true ->
               sigw (d_workers V s) (d_recRow V s) ph;
    q_K : forall y, d_done V s y = d_adone V s y \/
                    exists i x tl l, nth_error (d_workers V s) i = Some (DSig y x tl l QStore);
    q_recph : mbH <= d_recRow V s -> d_rec V s = RWait PFast }.

  (** ** helpers *)
  Lemma ncw_set_nth r ws i w w' : nth_error ws i = Some w ->
    ncw r (set_nth ws i w') + cnt_on r w = ncw r ws + cnt_on r w'.
  Proof.
    revert i; induction ws as [|h tl IH]; intros [|i] H; cbn in *; try discriminate.
    - inversion H; subst. lia.
    - specialize (IH i H). lia.
  Qed.

  Lemma ncw_ge r ws i w : nth_error ws i = Some w -> cnt_on r w <= ncw r ws.
  Proof.
    revert i; induction ws as [|h tl IH]; intros [|i] H; cbn in *; try discriminate.
    - inversion H; subst. lia.
    - specialize (IH i H). lia.
  Qed.

  Lemma cnt_wake r row w : cnt_on r (wake_w V row w) = cnt_on r w.
  Proof.
    destruct w as [| |y x tl l ph|y x tl l|y x tl l t0 tr0|y x tl l ph]; cbn; try reflexivity.
    destruct ph; cbn; try reflexivity. destruct (y =? S row); reflexivity.
  Qed.

  Lemma ncw_wake r row ws : ncw r (map (wake_w V row) ws) = ncw r ws.
  Proof. induction ws as [|h tl IH]; cbn; [reflexivity|]. now rewrite cnt_wake, IH. Qed.

  Lemma lookup_set_nth {A} (ws : list A) i w' j wj : i < length ws ->
    nth_error (set_nth ws i w') j = Some wj -> (j = i /\ wj = w') \/ (j <> i /\ nth_error ws j = Some wj).
  Proof.
    intros Hi H. destruct (Nat.eq_dec i j) as [<-|Hne].
    - rewrite sn_eq in H by exact Hi. inversion H. left. auto.
    - rewrite sn_neq in H by exact Hne. right. split; [congruence|exact H].
  Qed.

  Lemma sigw_keep ws i w' r ph : i < length ws ->
    (forall j x tl l sp, j <> i -> nth_error ws j = Some (DSig r x tl l sp) -> True) ->
    (exists j x tl l sp, j <> i /\ nth_error ws j = Some (DSig r x tl l sp) /\ okphase ph sp = true) ->
    sigw (set_nth ws i w') r ph.
  Proof.
    intros Hi _ (j & x & tl & l & sp & Hne & Hj & Hok). exists j, x, tl, l, sp.
    rewrite sn_neq by congruence. auto.
  Qed.

  (** ** the frame lemma for a step of worker [i] that leaves done, adone and the
      recorder alone *)
  Lemma live_frame n s i w w' nx' nw' mu' top' out' tok' :
    DInv n s -> Live s -> nth_error (d_workers V s) i = Some w ->
    (forall r, nw' r + cnt_on r w = d_nwait V s r + cnt_on r w') ->
    (forall r, mu' r = Some (OWk i) -> hold_w w' = Some r) ->
    (forall r, hold_w w' = Some r -> mu' r = Some (OWk i)) ->
    (forall r k, k <> i -> (mu' r = Some (OWk k) <-> d_mu V s r = Some (OWk k))) ->
    (forall r, mu' r = Some ORec <-> d_mu V s r = Some ORec) ->
    (forall y x tl l ph, w' = DWait y x tl l ph -> needed x <= d_done V s (y - 1) -> asleepish ph = true ->
       exists j x' tl' l' sp, j <> i /\ nth_error (d_workers V s) j = Some (DSig (y - 1) x' tl' l' sp) /\ okphase ph sp = true) ->
    (forall r x tl l sp, w = DSig r x tl l sp ->
       (sp = QStore -> w' = DSig r x tl l QStore) /\
       (forall ph, okphase ph sp = true ->
          (exists sp', w' = DSig r x tl l sp' /\ okphase ph sp' = true)
          \/ ((forall j yj xj tlj lj, nth_error (d_workers V s) j = Some (DWait yj xj tlj lj ph) -> yj - 1 = r ->
                  needed xj <= d_done V s r -> False) /\
              (d_rec V s = RWait ph -> d_recRow V s = r -> mbW <= d_done V s r -> False)))) ->
    Live (mkD V nx' (setw V s i w') (d_rec V s) (d_recRow V s) (d_done V s) (d_adone V s) nw' mu' top' out' tok').
  Proof.
    intros HD HL Hw Fcnt Fmu1 Fmu2 Fmuk Fmur Fab Fwit.
    pose proof (nth_error_lt _ _ _ Hw) as Hil.
    (* a witness of the old state survives, or the waiter that needs it does not exist *)
    assert (Hsig : forall r ph,
              sigw (d_workers V s) r ph ->
              ((forall j yj xj tlj lj, nth_error (d_workers V s) j = Some (DWait yj xj tlj lj ph) -> yj - 1 = r ->
                   needed xj <= d_done V s r -> False) /\
               (d_rec V s = RWait ph -> d_recRow V s = r -> mbW <= d_done V s r -> False) -> False) ->
              sigw (setw V s i w') r ph).
    { intros r ph (j & x & tl & l & sp & Hj & Hok) Hneeded. unfold setw.
      destruct (Nat.eq_dec j i) as [->|Hne].
      - rewrite Hw in Hj. inversion Hj; subst w.
        destruct (Fwit r x tl l sp eq_refl) as [_ Hph].
        destruct (Hph ph Hok) as [(sp' & -> & Hok')|Hnone].
        + exists i, x, tl, l, sp'. rewrite sn_eq by exact Hil. auto.
        + exfalso. apply Hneeded. exact Hnone.
      - exists j, x, tl, l, sp. rewrite sn_neq by congruence. auto. }
    constructor; cbn [d_next d_workers d_rec d_recRow d_done d_adone d_nwait d_mu].
    - intros r. pose proof (ncw_set_nth r (d_workers V s) i w w' Hw) as Hn. unfold setw.
      pose proof (q_cnt s HL r). specialize (Fcnt r). lia.
    - intros r k Hm. destruct (Nat.eq_dec k i) as [->|Hne].
      + exists w'. unfold setw. rewrite sn_eq by exact Hil. auto.
      + apply Fmuk in Hm; [|exact Hne]. destruct (q_mu_w1 s HL r k Hm) as (wk & Hk & Hh).
        exists wk. unfold setw. rewrite sn_neq by congruence. auto.
    - intros r k wk Hk Hh. unfold setw in Hk. destruct (lookup_set_nth _ _ _ _ _ Hil Hk) as [[-> ->]|[Hne Hk0]].
      + apply Fmu2. exact Hh.
      + apply Fmuk; [exact Hne|]. exact (q_mu_w2 s HL r k wk Hk0 Hh).
    - intros r Hm. apply Fmur in Hm. exact (q_mu_r1 s HL r Hm).
    - intros r Hh. apply Fmur. exact (q_mu_r2 s HL r Hh).
    - intros k y x tl l ph Hk Hnd Has. unfold setw in Hk.
      destruct (lookup_set_nth _ _ _ _ _ Hil Hk) as [[-> Heq]|[Hne Hk0]].
      + destruct (Fab y x tl l ph (eq_sym Heq) Hnd Has) as (j & x' & tl' & l' & sp & Hji & Hj & Hok).
        exists j, x', tl', l', sp. unfold setw. rewrite sn_neq by congruence. auto.
      + apply Hsig; [exact (q_ab_w s HL k y x tl l ph Hk0 Hnd Has)|].
        intros [Hn1 _]. exact (Hn1 k y x tl l Hk0 eq_refl Hnd).
    - intros ph Hr Hnd Has. apply Hsig; [exact (q_ab_r s HL ph Hr Hnd Has)|].
      intros [_ Hn2]. exact (Hn2 Hr eq_refl Hnd).
    - intros y. destruct (q_K s HL y) as [He|(j & x & tl & l & Hj)]; [now left|right].
      destruct (Nat.eq_dec j i) as [->|Hne].
      + rewrite Hw in Hj. inversion Hj; subst w.
        destruct (Fwit y x tl l QStore eq_refl) as [Hst _]. rewrite (Hst eq_refl).
        exists i, x, tl, l. unfold setw. now rewrite sn_eq by exact Hil.
      + exists j, x, tl, l. unfold setw. now rewrite sn_neq by congruence.
    - apply (q_recph s HL).
  Qed.

  (** ** instances of the frame lemma: steps inside waitFor *)
  Lemma cnt_dwait y x tl l ph r : 0 < y ->
    cnt_on r (DWait y x tl l ph) = if r =? y - 1 then (if counted ph then 1 else 0) else 0.
  Proof.
    intros Hy. cbn [cnt_on]. destruct (Nat.eqb_spec r (y - 1)) as [->|Hne].
    - replace (y =? S (y - 1)) with true by (symmetry; apply Nat.eqb_eq; lia). reflexivity.
    - replace (y =? S r) with false by (symmetry; apply Nat.eqb_neq; lia). reflexivity.
  Qed.

  Lemma dwait_frame n s i y x tl l ph w' a m' nx' top' out' tok' :
    DInv n s -> Live s -> nth_error (d_workers V s) i = Some (DWait y x tl l ph) -> 0 < y ->
    (forall r, r <> y - 1 -> cnt_on r w' = 0) ->
    (forall r, hold_w w' = Some r -> r = y - 1) ->
    a + cnt_on (y - 1) (DWait y x tl l ph) = d_nwait V s (y - 1) + cnt_on (y - 1) w' ->
    ((m' = d_mu V s (y - 1) /\ hold_w w' = hold_w (DWait y x tl l ph))
     \/ (d_mu V s (y - 1) = None /\ m' = Some (OWk i) /\ hold_w w' = Some (y - 1))
     \/ (hold_w (DWait y x tl l ph) = Some (y - 1) /\ m' = None /\ hold_w w' = None)) ->
    (forall y1 x1 tl1 l1 ph1, w' = DWait y1 x1 tl1 l1 ph1 -> needed x1 <= d_done V s (y1 - 1) -> asleepish ph1 = true ->
       exists j x' tl' l' sp, j <> i /\ nth_error (d_workers V s) j = Some (DSig (y1 - 1) x' tl' l' sp) /\ okphase ph1 sp = true) ->
    Live (mkD V nx' (setw V s i w') (d_rec V s) (d_recRow V s) (d_done V s) (d_adone V s)
              (upd1 (d_nwait V s) (y - 1) a) (upd1 (d_mu V s) (y - 1) m') top' out' tok').
  Proof.
    intros HD HL Hw Hy Hc0 Hh0 Hcnt Hmode Hab.
    set (w := DWait y x tl l ph) in *.
    assert (Hholdw : forall r, hold_w w = Some r -> r = y - 1).
    { intros r. unfold w. cbn. destruct (holding ph); intros H; inversion H; reflexivity. }
    assert (Hmine : forall r, d_mu V s r = Some (OWk i) -> hold_w w = Some r).
    { intros r Hm. destruct (q_mu_w1 s HL r i Hm) as (w0 & H0 & Hh). rewrite Hw in H0. inversion H0; subst w0. exact Hh. }
    assert (Hheld : hold_w w = Some (y - 1) -> d_mu V s (y - 1) = Some (OWk i))
      by (intros Hh; exact (q_mu_w2 s HL (y - 1) i w Hw Hh)).
    apply (live_frame n s i w w'); auto.
    - intros r. destruct (Nat.eq_dec r (y - 1)) as [->|Hne].
      + rewrite u1_eq. exact Hcnt.
      + rewrite u1_neq by exact Hne. rewrite (Hc0 r Hne). unfold w. rewrite cnt_dwait by exact Hy.
        replace (r =? y - 1) with false by (symmetry; apply Nat.eqb_neq; exact Hne). lia.
    - intros r Hm. destruct (Nat.eq_dec r (y - 1)) as [->|Hne].
      + rewrite u1_eq in Hm. destruct Hmode as [[-> Hsame]|[(_ & _ & Hh)|(_ & -> & _)]]; [|exact Hh|discriminate].
        rewrite Hsame. exact (Hmine _ Hm).
      + rewrite u1_neq in Hm by exact Hne. apply Hmine in Hm. apply Hholdw in Hm. contradiction.
    - intros r Hh. pose proof (Hh0 r Hh) as ->. rewrite u1_eq.
      destruct Hmode as [[-> Hsame]|[(_ & -> & _)|(_ & _ & Hn)]]; [|reflexivity|congruence].
      rewrite Hsame in Hh. exact (Hheld Hh).
    - intros r k Hk. destruct (Nat.eq_dec r (y - 1)) as [->|Hne]; [|rewrite u1_neq by exact Hne; tauto].
      rewrite u1_eq. destruct Hmode as [[-> _]|[(Hn & -> & _)|(Hh & -> & _)]]; [tauto| |].
      * rewrite Hn. split; intros H; [inversion H; congruence|discriminate].
      * rewrite (Hheld Hh). split; intros H; [discriminate|inversion H; congruence].
    - intros r. destruct (Nat.eq_dec r (y - 1)) as [->|Hne]; [|rewrite u1_neq by exact Hne; tauto].
      rewrite u1_eq. destruct Hmode as [[-> _]|[(Hn & -> & _)|(Hh & -> & _)]]; [tauto| |].
      * rewrite Hn. split; intros H; discriminate.
      * rewrite (Hheld Hh). split; intros H; discriminate.
    - intros r x0 tl0 l0 sp Heq. unfold w in Heq. discriminate.
  Qed.

  Lemma dwait_live n s i y x tl l ph s' :
    DInv n s -> Live s -> nth_error (d_workers V s) i = Some (DWait y x tl l ph) ->
    dstep_worker s i = Some s' -> Live s'.
  Proof.
    intros HD HL Hw Hs. unfold ConcDetailed.dstep_worker in Hs. rewrite Hw in Hs.
    pose proof (p_ok V v0 f mbW mbH n s HD i _ Hw) as Hok. cbn in Hok. destruct Hok as [Hy Hpassed].
    assert (Hc0 : forall ph' r, r <> y - 1 -> cnt_on r (DWait y x tl l ph') = 0).
    { intros ph' r Hne. rewrite cnt_dwait by exact Hy.
      replace (r =? y - 1) with false by (symmetry; apply Nat.eqb_neq; exact Hne). reflexivity. }
    assert (Hh0 : forall ph' r, hold_w (DWait y x tl l ph') = Some r -> r = y - 1).
    { intros ph' r. cbn. destruct (holding ph'); intros H; inversion H; reflexivity. }
    assert (Hcself : forall ph', cnt_on (y - 1) (DWait y x tl l ph') = if counted ph' then 1 else 0).
    { intros ph'. rewrite cnt_dwait by exact Hy. now rewrite Nat.eqb_refl. }
    (* the nine side conditions of [dwait_frame] *)
    Ltac to_compute HD HL Hw Hy Hcself :=
      eapply dwait_frame; [exact HD|exact HL|exact Hw|exact Hy
        |intros r _; reflexivity
        |intros r H; discriminate H
        |rewrite Hcself; cbn; lia
        |left; split; reflexivity
        |intros; discriminate].
    Ltac to_phase HD HL Hw Hy Hc0 Hh0 Hcself mode ab :=
      eapply dwait_frame; [exact HD|exact HL|exact Hw|exact Hy
        |apply Hc0
        |apply Hh0
        |rewrite !Hcself; cbn; lia
        |mode
        |ab].
    Ltac ab_none := intros y1 x1 tl1 l1 ph1 Heq _ Has; inversion Heq; subst; discriminate Has.
    destruct ph; cbn [wait_step] in Hs.
    - (* PFast *)
      destruct (needed x <=? d_done V s (y - 1)); inversion Hs; subst s'; clear Hs.
      + to_compute HD HL Hw Hy Hcself.
      + to_phase HD HL Hw Hy Hc0 Hh0 Hcself ltac:(left; split; reflexivity) ltac:(ab_none).
    - (* PInc *)
      inversion Hs; subst s'; clear Hs.
      to_phase HD HL Hw Hy Hc0 Hh0 Hcself ltac:(left; split; reflexivity) ltac:(ab_none).
    - (* PLock *)
      destruct (d_mu V s (y - 1)) eqn:Emu; [discriminate|]. inversion Hs; subst s'; clear Hs.
      to_phase HD HL Hw Hy Hc0 Hh0 Hcself ltac:(right; left; split; [exact Emu|split; reflexivity]) ltac:(ab_none).
    - (* PCheck *)
      inversion Hs; subst s'; clear Hs.
      destruct (d_done V s (y - 1) <? needed x) eqn:E.
      + apply Nat.ltb_lt in E.
        to_phase HD HL Hw Hy Hc0 Hh0 Hcself ltac:(left; split; reflexivity)
          ltac:(intros y1 x1 tl1 l1 ph1 Heq Hnd _; inversion Heq; subst; lia).
      + to_phase HD HL Hw Hy Hc0 Hh0 Hcself ltac:(left; split; reflexivity) ltac:(ab_none).
    - (* PWaitCall -> PSleep, releasing the mutex *)
      inversion Hs; subst s'; clear Hs.
      to_phase HD HL Hw Hy Hc0 Hh0 Hcself ltac:(right; right; split; [reflexivity|split; reflexivity]) ltac:(idtac).
      intros y1 x1 tl1 l1 ph1 Heq Hnd _. inversion Heq; subst.
      destruct (q_ab_w s HL i y1 x1 tl1 l1 PWaitCall Hw Hnd eq_refl) as (j & x' & tl' & l' & sp & Hj & Hok).
      exists j, x', tl', l', sp. split; [intros ->; rewrite Hw in Hj; discriminate|]. split; [exact Hj|].
      destruct sp; cbn in *; congruence.
    - (* PSleep *) discriminate.
    - (* PWoken *)
      destruct (d_mu V s (y - 1)) eqn:Emu; [discriminate|]. inversion Hs; subst s'; clear Hs.
      to_phase HD HL Hw Hy Hc0 Hh0 Hcself ltac:(right; left; split; [exact Emu|split; reflexivity]) ltac:(ab_none).
    - (* PUnlock *)
      inversion Hs; subst s'; clear Hs.
      to_phase HD HL Hw Hy Hc0 Hh0 Hcself ltac:(right; right; split; [reflexivity|split; reflexivity]) ltac:(ab_none).
    - (* PDec *)
      inversion Hs; subst s'; clear Hs.
      pose proof (ncw_ge (y - 1) (d_workers V s) i _ Hw) as Hge. rewrite Hcself in Hge. cbn in Hge.
      pose proof (q_cnt s HL (y - 1)) as Hq.
      to_compute HD HL Hw Hy Hcself.
  Qed.

  (** ** the other worker steps *)
  Lemma cnt_start_mb r y x tl l : cnt_on r (start_mb V y x tl l) = 0.
  Proof. unfold start_mb. destruct (y =? 0); cbn; [reflexivity|]. now rewrite andb_false_r. Qed.
  Lemma hold_start_mb y x tl l : hold_w (start_mb V y x tl l) = None.
  Proof. unfold start_mb. destruct (y =? 0); reflexivity. Qed.
  Lemma cnt_sig_exit r y x tl l : cnt_on r (sig_exit V mbW y x tl l) = 0.
  Proof. unfold sig_exit. destruct (S x <? mbW); [apply cnt_start_mb|reflexivity]. Qed.
  Lemma hold_sig_exit y x tl l : hold_w (sig_exit V mbW y x tl l) = None.
  Proof. unfold sig_exit. destruct (S x <? mbW); [apply hold_start_mb|reflexivity]. Qed.
  Lemma start_mb_not_asleep y x tl l y1 x1 tl1 l1 ph1 :
    start_mb V y x tl l = DWait y1 x1 tl1 l1 ph1 -> asleepish ph1 = false.
  Proof. unfold start_mb. destruct (y =? 0); intros H; inversion H; reflexivity. Qed.
  Lemma sig_exit_not_asleep y x tl l y1 x1 tl1 l1 ph1 :
    sig_exit V mbW y x tl l = DWait y1 x1 tl1 l1 ph1 -> asleepish ph1 = false.
  Proof. unfold sig_exit. destruct (S x <? mbW); [apply start_mb_not_asleep|discriminate]. Qed.
  Lemma sig_exit_not_sig y x tl l r x1 tl1 l1 sp : sig_exit V mbW y x tl l <> DSig r x1 tl1 l1 sp.
  Proof. unfold sig_exit, start_mb. destruct (S x <? mbW); [destruct (y =? 0)|]; discriminate. Qed.

  (** a worker whose old and new states neither count, hold nor sleep, and that is not a signaller *)
  Lemma quiet_live n s i w w' nx' top' out' tok' :
    DInv n s -> Live s -> nth_error (d_workers V s) i = Some w ->
    (forall r, cnt_on r w = 0) -> (forall r, cnt_on r w' = 0) -> hold_w w = None -> hold_w w' = None ->
    (forall y1 x1 tl1 l1 ph1, w' = DWait y1 x1 tl1 l1 ph1 -> asleepish ph1 = false) ->
    (forall r x tl l sp, w <> DSig r x tl l sp) ->
    Live (mkD V nx' (setw V s i w') (d_rec V s) (d_recRow V s) (d_done V s) (d_adone V s)
              (d_nwait V s) (d_mu V s) top' out' tok').
  Proof.
    intros HD HL Hw Hc Hc' Hh Hh' Has Hns.
    apply (live_frame n s i w w'); auto.
    - intros r. rewrite Hc, Hc'. lia.
    - intros r Hm. destruct (q_mu_w1 s HL r i Hm) as (w0 & H0 & Hh0). rewrite Hw in H0. inversion H0; subst. congruence.
    - intros r H. congruence.
    - intros; tauto.
    - intros; tauto.
    - intros y x tl l ph Heq _ Hs. rewrite (Has y x tl l ph Heq) in Hs. discriminate.
    - intros r x tl l sp Heq. exfalso. exact (Hns r x tl l sp Heq).
  Qed.

  Lemma live_set_adone s y v :
    Live s -> (exists i x tl l, nth_error (d_workers V s) i = Some (DSig y x tl l QStore)) ->
    Live (mkD V (d_next V s) (d_workers V s) (d_rec V s) (d_recRow V s) (d_done V s) (upd1 (d_adone V s) y v)
              (d_nwait V s) (d_mu V s) (d_top V s) (d_out V s) (d_tokens V s)).
  Proof.
    intros HL Hwit. constructor; cbn; try apply HL.
    intros y0. destruct (Nat.eq_dec y0 y) as [->|Hne]; [right; exact Hwit|].
    rewrite u1_neq by exact Hne. apply (q_K s HL).
  Qed.

  Lemma dsig_unique n s i j y x tl l sp x' tl' l' sp' : DInv n s ->
    nth_error (d_workers V s) i = Some (DSig y x tl l sp) ->
    nth_error (d_workers V s) j = Some (DSig y x' tl' l' sp') -> j = i.
  Proof. intros HD Hi Hj. exact (p_unique V v0 f mbW mbH n s HD j i _ _ y Hj Hi eq_refl eq_refl). Qed.

  Lemma crec_wake rc row recRow r : crec_of (wake_r row recRow rc) recRow r = crec_of rc recRow r.
  Proof. destruct rc as [ph|]; [|reflexivity]. destruct ph; cbn; try reflexivity. destruct (recRow =? row); reflexivity. Qed.
  Lemma hold_wake_r rc row recRow : hold_of (wake_r row recRow rc) recRow = hold_of rc recRow.
  Proof. destruct rc as [ph|]; [|reflexivity]. destruct ph; cbn; try reflexivity. destruct (recRow =? row); reflexivity. Qed.
  Lemma hold_wake_w row w : hold_w (wake_w V row w) = hold_w w.
  Proof.
    destruct w as [| |y x tl l ph|y x tl l|y x tl l t0 tr0|y x tl l ph]; cbn; try reflexivity.
    destruct ph; cbn; try reflexivity. destruct (y =? S row); reflexivity.
  Qed.

  Lemma wake_dwait_inv row w y x tl l ph : wake_w V row w = DWait y x tl l ph -> asleepish ph = true ->
    w = DWait y x tl l ph /\ (y <> S row \/ ph <> PSleep).
  Proof.
    destruct w as [| |y0 x0 tl0 l0 ph0|y0 x0 tl0 l0|y0 x0 tl0 l0 t0 tr0|y0 x0 tl0 l0 ph0]; cbn; try discriminate.
    destruct ph0; cbn; try (intros H Ha; inversion H; subst; split; [reflexivity|right; discriminate]).
    destruct (Nat.eqb_spec y0 (S row)) as [->|Hne].
    - intros H Ha. inversion H; subst. discriminate Ha.
    - intros H Ha. inversion H; subst. split; [reflexivity|left; exact Hne].
  Qed.

  Lemma wake_dsig row w r x tl l sp : wake_w V row w = DSig r x tl l sp <-> w = DSig r x tl l sp.
  Proof.
    destruct w as [| |y0 x0 tl0 l0 ph0|y0 x0 tl0 l0|y0 x0 tl0 l0 t0 tr0|y0 x0 tl0 l0 ph0]; cbn; try tauto;
      try (split; discriminate).
    destruct ph0; cbn; try (split; discriminate). destruct (y0 =? S row); split; discriminate.
  Qed.

  Lemma other_worker_live n s i w s' :
    DInv n s -> Live s -> nth_error (d_workers V s) i = Some w ->
    (forall y x tl l ph, w <> DWait y x tl l ph) ->
    dstep_worker s i = Some s' -> Live s'.
  Proof.
    intros HD HL Hw Hnw Hs. pose proof (nth_error_lt _ _ _ Hw) as Hil.
    unfold ConcDetailed.dstep_worker in Hs. rewrite Hw in Hs.
    destruct w as [| |y x tl l ph|y x tl l|y x tl l t0 tr0|y x tl l sp]; try discriminate.
    - (* DIdle *)
      destruct (d_next V s <? mbH); inversion Hs; subst s'; clear Hs.
      + apply (quiet_live n s i DIdle); auto; try (intros; reflexivity); try discriminate.
        * intros r. apply cnt_start_mb.
        * apply hold_start_mb.
        * apply start_mb_not_asleep.
      + apply (quiet_live n s i DIdle); auto; try (intros; reflexivity); try discriminate.
    - exfalso. exact (Hnw y x tl l ph eq_refl).
    - (* DCompute: reads the contexts *)
      inversion Hs; subst s'; clear Hs.
      apply (quiet_live n s i (DCompute y x tl l)); auto; try (intros; reflexivity); try discriminate.
    - (* DHold: writes; becomes the signaller of its row in phase QStore; adone[y] := x+1 *)
      inversion Hs; subst s'; clear Hs.
      set (w' := DSig y x t0 (f y x tl t0 tr0 l) QStore).
      pose proof (quiet_live n s i (DHold y x tl l t0 tr0) w' (d_next V s)
                    (upd1 (d_top V s) x (Some y, f y x tl t0 tr0 l))
                    (upd2 (d_out V s) y x (Some (f y x tl t0 tr0 l)))
                    (d_tokens V s) HD HL Hw) as HQ.
      specialize (HQ ltac:(intros; reflexivity) ltac:(intros; reflexivity) eq_refl eq_refl
                     ltac:(intros; discriminate) ltac:(intros; discriminate)).
      apply (live_set_adone _ y (S x)) in HQ.
      + exact HQ.
      + exists i, x, t0, (f y x tl t0 tr0 l).
        cbn. unfold setw. rewrite sn_eq by exact Hil. reflexivity.
    - (* DSig *)
      pose proof (p_ok V v0 f mbW mbH n s HD i _ Hw) as Hadone. cbn in Hadone.
      assert (Huniq : forall j x' tl' l' sp', nth_error (d_workers V s) j = Some (DSig y x' tl' l' sp') -> j = i)
        by (intros j x' tl' l' sp' Hj; exact (dsig_unique n s i j y x tl l sp x' tl' l' sp' HD Hw Hj)).
      destruct sp.
      + (* QStore: done[y] := x+1 *)
        inversion Hs; subst s'; clear Hs.
        assert (Hlook : forall k wk, nth_error (setw V s i (DSig y x tl l QLoad)) k = Some wk ->
                  (k = i /\ wk = DSig y x tl l QLoad) \/ (k <> i /\ nth_error (d_workers V s) k = Some wk))
          by (intros k wk Hk; unfold setw in Hk; exact (lookup_set_nth _ _ _ _ _ Hil Hk)).
        assert (Hme : sigw (setw V s i (DSig y x tl l QLoad)) y PWaitCall /\ sigw (setw V s i (DSig y x tl l QLoad)) y PSleep).
        { split; exists i, x, tl, l, QLoad; unfold setw; rewrite sn_eq by exact Hil; auto. }
        assert (Hkeep : forall r ph, r <> y -> sigw (d_workers V s) r ph -> sigw (setw V s i (DSig y x tl l QLoad)) r ph).
        { intros r ph Hne (j & x' & tl' & l' & sp' & Hj & Hok). exists j, x', tl', l', sp'.
          unfold setw. rewrite sn_neq; [auto|]. intros <-. rewrite Hw in Hj. inversion Hj. congruence. }
        constructor; cbn [d_next d_workers d_rec d_recRow d_done d_adone d_nwait d_mu].
        * intros r. pose proof (ncw_set_nth r (d_workers V s) i _ (DSig y x tl l QLoad) Hw) as Hn. cbn [cnt_on] in Hn.
          unfold setw. rewrite (q_cnt s HL r). lia.
        * intros r k Hm. destruct (q_mu_w1 s HL r k Hm) as (wk & Hk & Hh).
          destruct (Nat.eq_dec k i) as [->|Hne]; [rewrite Hw in Hk; inversion Hk; subst; discriminate|].
          exists wk. unfold setw. rewrite sn_neq by congruence. auto.
        * intros r k wk Hk Hh. destruct (Hlook k wk Hk) as [[-> ->]|[Hne Hk0]]; [discriminate|].
          exact (q_mu_w2 s HL r k wk Hk0 Hh).
        * apply (q_mu_r1 s HL).
        * apply (q_mu_r2 s HL).
        * intros k yk xk tlk lk ph Hk Hnd Has. destruct (Hlook k _ Hk) as [[-> Heq]|[Hne Hk0]]; [discriminate|].
          destruct (Nat.eq_dec (yk - 1) y) as [->|Hny].
          -- destruct ph; try discriminate; apply Hme.
          -- rewrite u1_neq in Hnd by exact Hny. apply Hkeep; [exact Hny|]. exact (q_ab_w s HL k yk xk tlk lk ph Hk0 Hnd Has).
        * intros ph Hr Hnd Has. destruct (Nat.eq_dec (d_recRow V s) y) as [->|Hny].
          -- destruct ph; try discriminate; apply Hme.
          -- rewrite u1_neq in Hnd by exact Hny. apply Hkeep; [exact Hny|]. exact (q_ab_r s HL ph Hr Hnd Has).
        * intros y0. destruct (Nat.eq_dec y0 y) as [->|Hny]; [left; rewrite u1_eq; lia|].
          rewrite u1_neq by exact Hny. destruct (q_K s HL y0) as [He|(j & x' & tl' & l' & Hj)]; [now left|right].
          exists j, x', tl', l'. unfold setw. rewrite sn_neq; [exact Hj|]. intros <-. rewrite Hw in Hj. inversion Hj. congruence.
        * apply (q_recph s HL).
      + (* QLoad *)
        inversion Hs; subst s'; clear Hs.
        assert (Hmine : forall r, d_mu V s r = Some (OWk i) -> False).
        { intros r Hm. destruct (q_mu_w1 s HL r i Hm) as (w0 & H0 & Hh0). rewrite Hw in H0. inversion H0; subst. discriminate. }
        destruct (0 <? d_nwait V s y) eqn:Enw.
        * apply (live_frame n s i (DSig y x tl l QLoad) (DSig y x tl l QLock)); [exact HD|exact HL|exact Hw| | | | | | | ].
          -- intros r. cbn. lia.
          -- intros r Hm. exfalso. exact (Hmine r Hm).
          -- intros r H. discriminate.
          -- intros; tauto.
          -- intros; tauto.
          -- intros; discriminate.
          -- intros r x0 tl0 l0 sp Heq. inversion Heq; subst. split; [discriminate|].
             intros ph Hok. left. exists QLock. split; [reflexivity|]. destruct ph; cbn in *; congruence.
        * (* no waiter is counted on this row: nobody relies on the signaller *)
          apply Nat.ltb_ge in Enw. pose proof (q_cnt s HL y) as Hq.
          apply (live_frame n s i (DSig y x tl l QLoad) (sig_exit V mbW y x tl l)); [exact HD|exact HL|exact Hw| | | | | | | ].
          -- intros r. rewrite cnt_sig_exit. cbn. lia.
          -- intros r Hm. exfalso. exact (Hmine r Hm).
          -- intros r H. rewrite hold_sig_exit in H. discriminate.
          -- intros; tauto.
          -- intros; tauto.
          -- intros y1 x1 tl1 l1 ph1 Heq _ Has. rewrite (sig_exit_not_asleep _ _ _ _ _ _ _ _ _ Heq) in Has. discriminate.
          -- intros r x0 tl0 l0 sp Heq. inversion Heq; subst. split; [discriminate|].
             intros ph Hok. right. split.
             ++ intros j yj xj tlj lj Hj Hr _. pose proof (ncw_ge r (d_workers V s) j _ Hj) as Hge.
                pose proof (p_ok V v0 f mbW mbH n s HD j _ Hj) as Hokj. cbn in Hokj. destruct Hokj as [Hyj _].
                rewrite cnt_dwait in Hge by exact Hyj.
                replace (r =? yj - 1) with true in Hge by (symmetry; apply Nat.eqb_eq; lia).
                destruct ph; cbn [okphase counted] in *; try discriminate; lia.
             ++ intros Hr Hrr _. unfold crec_of in Hq. rewrite Hr, Hrr, Nat.eqb_refl in Hq.
                destruct ph; cbn [okphase counted andb] in *; try discriminate; lia.
      + (* QLock *)
        destruct (d_mu V s y) eqn:Emu; [discriminate|]. inversion Hs; subst s'; clear Hs.
        apply (live_frame n s i (DSig y x tl l QLock) (DSig y x tl l QUnlock)); [exact HD|exact HL|exact Hw| | | | | | | ].
        * intros r. cbn. lia.
        * intros r Hm. destruct (Nat.eq_dec r y) as [->|Hne]; [reflexivity|]. rewrite u1_neq in Hm by exact Hne.
          destruct (q_mu_w1 s HL r i Hm) as (w0 & H0 & Hh0). rewrite Hw in H0. inversion H0; subst. discriminate.
        * intros r H. cbn in H. inversion H; subst. apply u1_eq.
        * intros r k Hk. destruct (Nat.eq_dec r y) as [->|Hne]; [|rewrite u1_neq by exact Hne; tauto].
          rewrite u1_eq, Emu. split; intros H; [inversion H; congruence|discriminate].
        * intros r. destruct (Nat.eq_dec r y) as [->|Hne]; [|rewrite u1_neq by exact Hne; tauto].
          rewrite u1_eq, Emu. split; intros H; discriminate.
        * intros; discriminate.
        * intros r x0 tl0 l0 sp Heq. inversion Heq; subst. split; [discriminate|].
          intros ph Hok. destruct ph; cbn in Hok; try discriminate.
          -- (* a waiter committed to cond.Wait holds the mutex, but the mutex was free *)
             right. split.
             ++ intros j yj xj tlj lj Hj Hr _. pose proof (q_mu_w2 s HL r j _ Hj) as Hm. cbn in Hm.
                rewrite Hr in Hm. specialize (Hm eq_refl). congruence.
             ++ intros Hr Hrr _. pose proof (q_mu_r2 s HL r) as Hm. unfold hold_of in Hm. rewrite Hr, Hrr in Hm.
                specialize (Hm eq_refl). congruence.
          -- left. exists QUnlock. auto.
      + (* QUnlock *)
        inversion Hs; subst s'; clear Hs.
        assert (Hheld : d_mu V s y = Some (OWk i)) by (apply (q_mu_w2 s HL y i _ Hw); reflexivity).
        apply (live_frame n s i (DSig y x tl l QUnlock) (DSig y x tl l QBcast)); [exact HD|exact HL|exact Hw| | | | | | | ].
        * intros r. cbn. lia.
        * intros r Hm. exfalso. destruct (Nat.eq_dec r y) as [->|Hne]; [rewrite u1_eq in Hm; discriminate|].
          rewrite u1_neq in Hm by exact Hne.
          destruct (q_mu_w1 s HL r i Hm) as (w0 & H0 & Hh0). rewrite Hw in H0. inversion H0; subst. cbn in Hh0. congruence.
        * intros r H. discriminate.
        * intros r k Hk. destruct (Nat.eq_dec r y) as [->|Hne]; [|rewrite u1_neq by exact Hne; tauto].
          rewrite u1_eq, Hheld. split; intros H; [discriminate|inversion H; congruence].
        * intros r. destruct (Nat.eq_dec r y) as [->|Hne]; [|rewrite u1_neq by exact Hne; tauto].
          rewrite u1_eq, Hheld. split; intros H; discriminate.
        * intros; discriminate.
        * intros r x0 tl0 l0 sp Heq. inversion Heq; subst. split; [discriminate|].
          intros ph Hok. destruct ph; cbn in Hok; try discriminate. left. exists QBcast. auto.
      + (* QBcast: wake every sleeper of the row, leave signal *)
        inversion Hs; subst s'; clear Hs.
        assert (Hil' : i < length (map (wake_w V y) (d_workers V s))) by (rewrite map_length; exact Hil).
        assert (Hlook : forall k wk, nth_error (set_nth (map (wake_w V y) (d_workers V s)) i (sig_exit V mbW y x tl l)) k = Some wk ->
                  (k = i /\ wk = sig_exit V mbW y x tl l) \/
                  (k <> i /\ exists w0, nth_error (d_workers V s) k = Some w0 /\ wk = wake_w V y w0)).
        { intros k wk Hk. destruct (lookup_set_nth _ _ _ _ _ Hil' Hk) as [[-> ->]|[Hne Hk0]]; [left; auto|right].
          split; [exact Hne|]. rewrite nth_error_map in Hk0. destruct (nth_error (d_workers V s) k) as [w0|]; cbn in Hk0; [|discriminate].
          inversion Hk0. exists w0. auto. }
        assert (Hkeep : forall r ph, r <> y -> sigw (d_workers V s) r ph ->
                  sigw (set_nth (map (wake_w V y) (d_workers V s)) i (sig_exit V mbW y x tl l)) r ph).
        { intros r ph Hne (j & x' & tl' & l' & sp' & Hj & Hok). exists j, x', tl', l', sp'.
          rewrite sn_neq by (intros <-; rewrite Hw in Hj; inversion Hj; congruence).
          rewrite nth_error_map, Hj. cbn. auto. }
        assert (Hnone : forall ph, sigw (d_workers V s) y ph -> ph = PSleep).
        { intros ph (j & x' & tl' & l' & sp' & Hj & Hok). pose proof (Huniq j x' tl' l' sp' Hj) as ->.
          rewrite Hw in Hj. inversion Hj; subst. destruct ph; cbn in Hok; congruence. }
        constructor; cbn [d_next d_workers d_rec d_recRow d_done d_adone d_nwait d_mu].
        * intros r. rewrite crec_wake.
          pose proof (ncw_set_nth r (map (wake_w V y) (d_workers V s)) i (wake_w V y (DSig y x tl l QBcast)) (sig_exit V mbW y x tl l)) as Hn.
          rewrite nth_error_map, Hw in Hn. specialize (Hn eq_refl). rewrite cnt_sig_exit, ncw_wake in Hn. cbn [wake_w cnt_on] in Hn.
          rewrite (q_cnt s HL r). lia.
        * intros r k Hm. destruct (q_mu_w1 s HL r k Hm) as (wk & Hk & Hh).
          destruct (Nat.eq_dec k i) as [->|Hne]; [rewrite Hw in Hk; inversion Hk; subst; discriminate|].
          exists (wake_w V y wk). rewrite sn_neq by congruence. rewrite nth_error_map, Hk. cbn. rewrite hold_wake_w. auto.
        * intros r k wk Hk Hh. destruct (Hlook k wk Hk) as [[-> ->]|[Hne (w0 & Hk0 & ->)]].
          -- rewrite hold_sig_exit in Hh. discriminate.
          -- rewrite hold_wake_w in Hh. exact (q_mu_w2 s HL r k w0 Hk0 Hh).
        * intros r Hm. rewrite hold_wake_r. exact (q_mu_r1 s HL r Hm).
        * intros r Hh. rewrite hold_wake_r in Hh. exact (q_mu_r2 s HL r Hh).
        * intros k yk xk tlk lk ph Hk Hnd Has. destruct (Hlook k _ Hk) as [[-> Heq]|[Hne (w0 & Hk0 & Heq)]].
          -- symmetry in Heq. rewrite (sig_exit_not_asleep _ _ _ _ _ _ _ _ _ Heq) in Has. discriminate.
          -- symmetry in Heq. destruct (wake_dwait_inv y w0 yk xk tlk lk ph Heq Has) as [-> Hcase].
             pose proof (q_ab_w s HL k yk xk tlk lk ph Hk0 Hnd Has) as Hold.
             destruct (Nat.eq_dec (yk - 1) y) as [Hey|Hny]; [|apply Hkeep; assumption].
             exfalso. rewrite Hey in Hold. pose proof (Hnone ph Hold) as ->.
             pose proof (p_ok V v0 f mbW mbH n s HD k _ Hk0) as Hokk. cbn in Hokk. destruct Hokk as [Hyk _].
             destruct Hcase as [Hc|Hc]; [apply Hc; lia|congruence].
        * intros ph Hr Hnd Has.
          assert (Hrec0 : d_rec V s = RWait ph /\ (d_recRow V s <> y \/ ph <> PSleep)).
          { destruct (d_rec V s) as [ph0|] eqn:Er; [|discriminate]. cbn [wake_r] in Hr.
            destruct ph0; cbn [wake_r] in Hr; try (inversion Hr; subst; split; [reflexivity|right; discriminate]).
            destruct (Nat.eqb_spec (d_recRow V s) y) as [He|Hne].
            - inversion Hr; subst. discriminate Has.
            - inversion Hr; subst. split; [reflexivity|left; exact Hne]. }
          destruct Hrec0 as [Hr0 Hcase]. pose proof (q_ab_r s HL ph Hr0 Hnd Has) as Hold.
          destruct (Nat.eq_dec (d_recRow V s) y) as [Hey|Hny]; [|apply Hkeep; assumption].
          exfalso. rewrite Hey in Hold. pose proof (Hnone ph Hold) as ->. destruct Hcase as [Hc|Hc]; congruence.
        * intros y0. destruct (q_K s HL y0) as [He|(j & x' & tl' & l' & Hj)]; [now left|right].
          exists j, x', tl', l'. rewrite sn_neq by (intros <-; rewrite Hw in Hj; inversion Hj).
          rewrite nth_error_map, Hj. reflexivity.
        * intros Hge. rewrite (q_recph s HL Hge). reflexivity.
  Qed.

  (** ** recorder steps *)
  Lemma rec_live_frame s rc' nw' mu' :
    Live s ->
    (forall r, nw' r + crec_of (d_rec V s) (d_recRow V s) r = d_nwait V s r + crec_of rc' (d_recRow V s) r) ->
    (forall r, mu' r = Some ORec -> hold_of rc' (d_recRow V s) = Some r) ->
    (forall r, hold_of rc' (d_recRow V s) = Some r -> mu' r = Some ORec) ->
    (forall r k, mu' r = Some (OWk k) <-> d_mu V s r = Some (OWk k)) ->
    (forall ph, rc' = RWait ph -> mbW <= d_done V s (d_recRow V s) -> asleepish ph = true ->
       sigw (d_workers V s) (d_recRow V s) ph) ->
    (mbH <= d_recRow V s -> rc' = RWait PFast) ->
    Live (mkD V (d_next V s) (d_workers V s) rc' (d_recRow V s) (d_done V s) (d_adone V s) nw' mu'
              (d_top V s) (d_out V s) (d_tokens V s)).
  Proof.
    intros HL Rcnt Rmu1 Rmu2 Rmuk Rab Rph.
    constructor; cbn [d_next d_workers d_rec d_recRow d_done d_adone d_nwait d_mu].
    - intros r. pose proof (q_cnt s HL r). specialize (Rcnt r). lia.
    - intros r k Hm. apply Rmuk in Hm. exact (q_mu_w1 s HL r k Hm).
    - intros r k w Hk Hh. apply Rmuk. exact (q_mu_w2 s HL r k w Hk Hh).
    - exact Rmu1.
    - exact Rmu2.
    - exact (q_ab_w s HL).
    - exact Rab.
    - exact (q_K s HL).
    - exact Rph.
  Qed.

  Lemma drec_frame s ph rc' a m' :
    Live s -> d_rec V s = RWait ph -> d_recRow V s < mbH ->
    a + crec_of (RWait ph) (d_recRow V s) (d_recRow V s) = d_nwait V s (d_recRow V s) + crec_of rc' (d_recRow V s) (d_recRow V s) ->
    ((m' = d_mu V s (d_recRow V s) /\ hold_of rc' (d_recRow V s) = hold_of (RWait ph) (d_recRow V s))
     \/ (d_mu V s (d_recRow V s) = None /\ m' = Some ORec /\ hold_of rc' (d_recRow V s) = Some (d_recRow V s))
     \/ (hold_of (RWait ph) (d_recRow V s) = Some (d_recRow V s) /\ m' = None /\ hold_of rc' (d_recRow V s) = None)) ->
    (forall ph1, rc' = RWait ph1 -> mbW <= d_done V s (d_recRow V s) -> asleepish ph1 = true ->
       sigw (d_workers V s) (d_recRow V s) ph1) ->
    Live (mkD V (d_next V s) (d_workers V s) rc' (d_recRow V s) (d_done V s) (d_adone V s)
              (upd1 (d_nwait V s) (d_recRow V s) a) (upd1 (d_mu V s) (d_recRow V s) m')
              (d_top V s) (d_out V s) (d_tokens V s)).
  Proof.
    intros HL Hr Hlt Hcnt Hmode Hab.
    assert (Hcr : forall rc r, r <> (d_recRow V s) -> crec_of rc (d_recRow V s) r = 0).
    { intros rc r Hne. destruct rc as [p|]; cbn; [|reflexivity].
      replace (d_recRow V s =? r) with false by (symmetry; apply Nat.eqb_neq; congruence). reflexivity. }
    assert (Hho : forall rc r, hold_of rc (d_recRow V s) = Some r -> r = (d_recRow V s)).
    { intros rc r. destruct rc as [p|]; cbn; [|discriminate]. destruct (holding p); intros H; inversion H; reflexivity. }
    assert (Hmine : forall r, d_mu V s r = Some ORec -> hold_of (RWait ph) (d_recRow V s) = Some r).
    { intros r Hm. pose proof (q_mu_r1 s HL r Hm) as H. rewrite Hr in H. exact H. }
    assert (Hheld : hold_of (RWait ph) (d_recRow V s) = Some (d_recRow V s) -> d_mu V s (d_recRow V s) = Some ORec).
    { intros Hh. apply (q_mu_r2 s HL (d_recRow V s)). rewrite Hr. exact Hh. }
    apply rec_live_frame; auto.
    - intros r. rewrite Hr. destruct (Nat.eq_dec r (d_recRow V s)) as [->|Hne].
      + rewrite u1_eq. exact Hcnt.
      + rewrite u1_neq by exact Hne. rewrite !Hcr by exact Hne. lia.
    - intros r Hm. destruct (Nat.eq_dec r (d_recRow V s)) as [->|Hne].
      + rewrite u1_eq in Hm. destruct Hmode as [[-> Hsame]|[(_ & _ & Hh)|(_ & -> & _)]]; [|exact Hh|discriminate].
        rewrite Hsame. exact (Hmine _ Hm).
      + rewrite u1_neq in Hm by exact Hne. apply Hmine in Hm. apply Hho in Hm. contradiction.
    - intros r Hh. pose proof (Hho _ _ Hh) as ->. rewrite u1_eq.
      destruct Hmode as [[-> Hsame]|[(_ & -> & _)|(_ & _ & Hn)]]; [|reflexivity|congruence].
      rewrite Hsame in Hh. exact (Hheld Hh).
    - intros r k. destruct (Nat.eq_dec r (d_recRow V s)) as [->|Hne]; [|rewrite u1_neq by exact Hne; tauto].
      rewrite u1_eq. destruct Hmode as [[-> _]|[(Hn & -> & _)|(Hh & -> & _)]]; [tauto| |].
      + rewrite Hn. split; intros H; discriminate.
      + rewrite (Hheld Hh). split; intros H; discriminate.
    - intros Hge. lia.
  Qed.

  Lemma dstep_rec_live n s s' : DInv n s -> Live s -> dstep_rec s = Some s' -> Live s'.
  Proof.
    intros HD HL Hs. unfold ConcDetailed.dstep_rec in Hs.
    destruct (d_recRow V s <? mbH) eqn:Elt; [|discriminate]. apply Nat.ltb_lt in Elt.
    destruct (d_rec V s) as [ph|] eqn:Er.
    - assert (Hcself : forall p, crec_of (RWait p) (d_recRow V s) (d_recRow V s) = if counted p then 1 else 0)
        by (intros p; cbn; now rewrite Nat.eqb_refl).
      Ltac rec_phase HL Er Elt Hcself mode ab :=
        eapply drec_frame; [exact HL|exact Er|exact Elt|rewrite ?Hcself; cbn; lia|mode|ab].
      Ltac rab_none := intros ph1 Heq _ Has; inversion Heq; subst; discriminate Has.
      destruct ph; cbn [wait_step] in Hs.
      + destruct (mbW <=? d_done V s (d_recRow V s)); inversion Hs; subst s'; clear Hs.
        * rec_phase HL Er Elt Hcself ltac:(left; split; reflexivity) ltac:(intros; discriminate).
        * rec_phase HL Er Elt Hcself ltac:(left; split; reflexivity) ltac:(rab_none).
      + inversion Hs; subst s'; clear Hs.
        rec_phase HL Er Elt Hcself ltac:(left; split; reflexivity) ltac:(rab_none).
      + destruct (d_mu V s (d_recRow V s)) eqn:Emu; [discriminate|]. inversion Hs; subst s'; clear Hs.
        rec_phase HL Er Elt Hcself ltac:(right; left; split; [exact Emu|split; reflexivity]) ltac:(rab_none).
      + inversion Hs; subst s'; clear Hs.
        destruct (d_done V s (d_recRow V s) <? mbW) eqn:E.
        * apply Nat.ltb_lt in E.
          rec_phase HL Er Elt Hcself ltac:(left; split; reflexivity) ltac:(intros ph1 Heq Hnd _; inversion Heq; subst; lia).
        * rec_phase HL Er Elt Hcself ltac:(left; split; reflexivity) ltac:(rab_none).
      + inversion Hs; subst s'; clear Hs.
        rec_phase HL Er Elt Hcself ltac:(right; right; split; [reflexivity|split; reflexivity]) ltac:(idtac).
        intros ph1 Heq Hnd _. inversion Heq; subst.
        destruct (q_ab_r s HL PWaitCall Er Hnd eq_refl) as (j & x' & tl' & l' & sp & Hj & Hok).
        exists j, x', tl', l', sp. split; [exact Hj|]. destruct sp; cbn in *; congruence.
      + discriminate.
      + destruct (d_mu V s (d_recRow V s)) eqn:Emu; [discriminate|]. inversion Hs; subst s'; clear Hs.
        rec_phase HL Er Elt Hcself ltac:(right; left; split; [exact Emu|split; reflexivity]) ltac:(rab_none).
      + inversion Hs; subst s'; clear Hs.
        rec_phase HL Er Elt Hcself ltac:(right; right; split; [reflexivity|split; reflexivity]) ltac:(rab_none).
      + inversion Hs; subst s'; clear Hs.
        pose proof (q_cnt s HL (d_recRow V s)) as Hq. rewrite Er, Hcself in Hq. cbn in Hq.
        rec_phase HL Er Elt Hcself ltac:(left; split; reflexivity) ltac:(intros; discriminate).
    - (* record: next row *)
      inversion Hs; subst s'; clear Hs.
      constructor; cbn [d_next d_workers d_rec d_recRow d_done d_adone d_nwait d_mu].
      + intros r. pose proof (q_cnt s HL r) as Hq. rewrite Er in Hq. cbn in *. now rewrite andb_false_r.
      + apply (q_mu_w1 s HL).
      + apply (q_mu_w2 s HL).
      + intros r Hm. pose proof (q_mu_r1 s HL r Hm) as H. rewrite Er in H. discriminate.
      + intros r H. discriminate.
      + apply (q_ab_w s HL).
      + intros ph Heq _ Has. inversion Heq; subst. discriminate.
      + apply (q_K s HL).
      + reflexivity.
  Qed.

  Lemma dinit_live n : Live (dinit n).
  Proof.
    assert (Hrep : forall i w, nth_error (repeat (@DIdle V) n) i = Some w -> w = DIdle)
      by (intros i w H; apply nth_error_In, repeat_spec in H; exact H).
    constructor; cbn.
    - intros r. rewrite andb_false_r. induction n as [|k IH]; cbn; [reflexivity|].
      apply IH. intros i w H. apply (Hrep (S i) w H).
    - intros; discriminate.
    - intros r i w H Hh. rewrite (Hrep i w H) in Hh. discriminate.
    - intros; discriminate.
    - intros; discriminate.
    - intros i y x tl l ph H. pose proof (Hrep i _ H). discriminate.
    - intros ph H _ Has. inversion H; subst. discriminate.
    - intros y. now left.
    - reflexivity.
  Qed.

  Lemma dstep_live n s l s' : DInv n s -> Live s -> dstep s l = Some s' -> Live s'.
  Proof.
    intros HD HL Hs. destruct l as [i|]; cbn [ConcDetailed.dstep] in Hs; [|exact (dstep_rec_live n s s' HD HL Hs)].
    destruct (nth_error (d_workers V s) i) as [w|] eqn:Hw.
    - destruct w as [| |y x tl l ph|y x tl l|y x tl l t0 tr0|y x tl l sp] eqn:Ew.
      3: exact (dwait_live n s i y x tl l ph s' HD HL Hw Hs).
      all: apply (other_worker_live n s i _ s' HD HL Hw); [intros; discriminate|exact Hs].
    - unfold ConcDetailed.dstep_worker in Hs. rewrite Hw in Hs. discriminate.
  Qed.

  Theorem detailed_live : forall n sched s, drun (dinit n) sched = Some s -> DInv n s /\ Live s.
  Proof.
    intros n sched.
    assert (G : forall s0, DInv n s0 /\ Live s0 -> forall s1, drun s0 sched = Some s1 -> DInv n s1 /\ Live s1).
    { induction sched as [|l rest IH]; intros s0 [H0 H0'] s1 Hr; cbn [ConcDetailed.drun] in Hr.
      - inversion Hr; subst; auto.
      - destruct (dstep s0 l) as [s2|] eqn:Hs; [|discriminate].
        apply (IH s2); [|exact Hr]. split.
        + exact (dstep_inv V v0 f mbW mbH HmbW n s0 l s2 H0 Hs).
        + exact (dstep_live n s0 l s2 H0 H0' Hs). }
    intros s Hr. apply (G (dinit n)); [|exact Hr]. split; [apply dinit_inv; exact HmbW|apply dinit_live].
  Qed.

  (** ** Deadlock freedom of the detailed system *)
  Definition blocked_w (w : dw V) : Prop :=
    w = DExited \/ exists y x tl l, w = DWait y x tl l PSleep.

  Lemma worker_step_some s i w : nth_error (d_workers V s) i = Some w ->
    match w with
    | DIdle | DCompute _ _ _ _ | DHold _ _ _ _ _ _ => True
    | DSig _ _ _ _ sp => sp <> QLock
    | DWait _ _ _ _ ph => ph <> PLock /\ ph <> PWoken /\ ph <> PSleep
    | DExited => False
    end -> dstep s (LW i) <> None.
  Proof.
    intros Hw Hc. cbn [ConcDetailed.dstep]. unfold ConcDetailed.dstep_worker. rewrite Hw.
    destruct w as [| |y x tl l ph|y x tl l|y x tl l t0 tr0|y x tl l sp]; try contradiction.
    - destruct (d_next V s <? mbH); discriminate.
    - destruct Hc as (H1 & H2 & H3). destruct ph; cbn [wait_step]; try congruence; try discriminate.
      + destruct (needed x <=? d_done V s (y - 1)); discriminate.
    - discriminate.
    - discriminate.
    - destruct sp; try congruence; discriminate.
  Qed.

  Lemma rec_step_some s : d_recRow V s < mbH ->
    match d_rec V s with RReady => True | RWait ph => ph <> PLock /\ ph <> PWoken /\ ph <> PSleep end ->
    dstep s LRec <> None.
  Proof.
    intros Hlt Hc. cbn [ConcDetailed.dstep]. unfold ConcDetailed.dstep_rec.
    apply Nat.ltb_lt in Hlt. rewrite Hlt. destruct (d_rec V s) as [ph|]; [|discriminate].
    destruct Hc as (H1 & H2 & H3). destruct ph; cbn [wait_step]; try congruence; try discriminate.
    destruct (mbW <=? d_done V s (d_recRow V s)); discriminate.
  Qed.

  (** whoever holds a mutex can move *)
  Lemma holder_enabled s r o : Live s -> d_mu V s r = Some o -> exists l, dstep s l <> None.
  Proof.
    intros HL Hm. destruct o as [k|].
    - destruct (q_mu_w1 s HL r k Hm) as (w & Hk & Hh). exists (LW k). apply (worker_step_some s k w Hk).
      destruct w as [| |y x tl l ph|y x tl l|y x tl l t0 tr0|y x tl l sp]; cbn in Hh; try discriminate.
      + destruct ph; cbn in Hh; try discriminate; repeat split; discriminate.
      + destruct sp; try discriminate.
    - pose proof (q_mu_r1 s HL r Hm) as Hh. exists LRec. apply rec_step_some.
      + destruct (Nat.lt_ge_cases (d_recRow V s) mbH) as [H|H]; [exact H|].
        rewrite (q_recph s HL H) in Hh. discriminate.
      + destruct (d_rec V s) as [ph|]; [|discriminate]. destruct ph; cbn in Hh; try discriminate; repeat split; discriminate.
  Qed.

  Lemma worker_enabled_or_blocked s i w : Live s -> nth_error (d_workers V s) i = Some w ->
    (exists l, dstep s l <> None) \/ blocked_w w.
  Proof.
    intros HL Hw. destruct w as [| |y x tl l ph|y x tl l|y x tl l t0 tr0|y x tl l sp].
    - left. exists (LW i). now apply (worker_step_some s i _ Hw).
    - right. now left.
    - assert (Hlockcase : ph = PLock \/ ph = PWoken -> exists l0, dstep s l0 <> None).
      { intros Hph. destruct (d_mu V s (y - 1)) as [o|] eqn:Emu; [exact (holder_enabled s (y - 1) o HL Emu)|].
        exists (LW i). cbn [ConcDetailed.dstep]. unfold ConcDetailed.dstep_worker. rewrite Hw.
        destruct Hph as [-> | ->]; cbn [wait_step]; rewrite Emu; discriminate. }
      destruct ph; try (left; exists (LW i); apply (worker_step_some s i _ Hw); repeat split; discriminate).
      + left. apply Hlockcase. now left.
      + right. right. exists y, x, tl, l. reflexivity.
      + left. apply Hlockcase. now right.
    - left. exists (LW i). now apply (worker_step_some s i _ Hw).
    - left. exists (LW i). now apply (worker_step_some s i _ Hw).
    - destruct sp; try (left; exists (LW i); apply (worker_step_some s i _ Hw); discriminate).
      left. destruct (d_mu V s y) as [o|] eqn:Emu; [exact (holder_enabled s y o HL Emu)|].
      exists (LW i). cbn [ConcDetailed.dstep]. unfold ConcDetailed.dstep_worker. rewrite Hw, Emu. discriminate.
  Qed.

  Lemma all_workers_blocked_or_enabled s : Live s ->
    (exists l, dstep s l <> None) \/ (forall i w, nth_error (d_workers V s) i = Some w -> blocked_w w).
  Proof.
    intros HL.
    assert (G : forall k, (exists l, dstep s l <> None) \/
                          (forall i w, i < k -> nth_error (d_workers V s) i = Some w -> blocked_w w)).
    { induction k as [|k IH]; [right; intros; lia|].
      destruct IH as [He|Hb]; [now left|].
      destruct (nth_error (d_workers V s) k) as [w|] eqn:Hk.
      - destruct (worker_enabled_or_blocked s k w HL Hk) as [He|Hbk]; [now left|right].
        intros i w0 Hi Hi0. destruct (Nat.eq_dec i k) as [->|Hne]; [rewrite Hk in Hi0; inversion Hi0; subst; exact Hbk|].
        apply (Hb i w0); [lia|exact Hi0].
      - right. intros i w0 Hi Hi0. destruct (Nat.eq_dec i k) as [->|Hne]; [congruence|]. apply (Hb i w0); [lia|exact Hi0]. }
    destruct (G (length (d_workers V s))) as [He|Hb]; [now left|right].
    intros i w Hi. apply (Hb i w); [|exact Hi]. apply nth_error_Some. congruence.
  Qed.

  Lemma rec_enabled_or_blocked s : Live s ->
    (exists l, dstep s l <> None) \/ mbH <= d_recRow V s \/ (d_recRow V s < mbH /\ d_rec V s = RWait PSleep).
  Proof.
    intros HL. destruct (Nat.lt_ge_cases (d_recRow V s) mbH) as [Hlt|Hge]; [|right; now left].
    destruct (d_rec V s) as [ph|] eqn:Er.
    - assert (Hlockcase : ph = PLock \/ ph = PWoken -> exists l0, dstep s l0 <> None).
      { intros Hph. destruct (d_mu V s (d_recRow V s)) as [o|] eqn:Emu; [exact (holder_enabled s _ o HL Emu)|].
        exists LRec. cbn [ConcDetailed.dstep]. unfold ConcDetailed.dstep_rec. apply Nat.ltb_lt in Hlt. rewrite Hlt, Er.
        destruct Hph as [-> | ->]; cbn [wait_step]; rewrite Emu; discriminate. }
      destruct ph; try (left; exists LRec; apply rec_step_some; [exact Hlt|rewrite Er; repeat split; discriminate]).
      + left. apply Hlockcase. now left.
      + right. right. auto.
      + left. apply Hlockcase. now right.
    - left. exists LRec. apply rec_step_some; [exact Hlt|]. rewrite Er. exact I.
  Qed.

  Theorem detailed_deadlock_free : forall n sched s, 1 <= n ->
    drun (dinit n) sched = Some s -> dfinal V mbH s = false -> exists l, dstep s l <> None.
  Proof.
    intros n sched s Hn Hr Hnf. destruct (detailed_live n sched s Hr) as [HD HL].
    pose proof (abs_inv V v0 f mbW mbH HmbW n s HD) as HL1.
    destruct (all_workers_blocked_or_enabled s HL) as [He|Hblocked]; [exact He|].
    destruct (rec_enabled_or_blocked s HL) as [He|Hrec]; [exact He|]. exfalso.
    (* nobody is a signaller *)
    assert (Hnosig : forall j y x tl l sp, nth_error (d_workers V s) j = Some (DSig y x tl l sp) -> False).
    { intros j y x tl l sp Hj. destruct (Hblocked j _ Hj) as [H|(y' & x' & tl' & l' & H)]; discriminate. }
    assert (Hdone : forall y, d_done V s y = d_adone V s y).
    { intros y. destruct (q_K s HL y) as [H|(j & x & tl & l & Hj)]; [exact H|]. exfalso. exact (Hnosig _ _ _ _ _ _ Hj). }
    (* no worker sleeps: strong induction on its row *)
    assert (Hnosleep : forall y i x tl l, nth_error (d_workers V s) i = Some (DWait y x tl l PSleep) -> False).
    { induction y as [y IH] using lt_wf_ind. intros i x tl l Hi.
      pose proof (p_ok V v0 f mbW mbH n s HD i _ Hi) as Hok. cbn in Hok. destruct Hok as [Hy _].
      pose proof (p_rows_lt V v0 f mbW mbH n s HD i _ y Hi eq_refl) as Hlt.
      destruct (i_owner V v0 f mbW mbH n (abs s) HL1 (y - 1)) as [Hfull|(k & tl' & l' & Hk)].
      - cbn [nextRow ConcDetailed.abs]. lia.
      - cbn [done ConcDetailed.abs] in Hfull.
        assert (Hnd : needed x <= d_done V s (y - 1)) by (rewrite Hdone, Hfull; unfold ConcRowSync.needed; lia).
        destruct (q_ab_w s HL i y x tl l PSleep Hi Hnd eq_refl) as (j & x' & tl'' & l'' & sp & Hj & _).
        exact (Hnosig _ _ _ _ _ _ Hj).
      - cbn [workers ConcDetailed.abs] in Hk. rewrite nth_error_map in Hk.
        destruct (nth_error (d_workers V s) k) as [wk|] eqn:Ek; cbn in Hk; [|discriminate].
        destruct (Hblocked k wk Ek) as [->|(y' & x' & tl'' & l'' & ->)]; [discriminate|].
        cbn in Hk. inversion Hk; subst y'. exact (IH (y - 1) ltac:(lia) k x' tl'' l'' Ek). }
    (* hence every worker has exited *)
    assert (Hexited : forall i w, nth_error (d_workers V s) i = Some w -> w = DExited).
    { intros i w Hi. destruct (Hblocked i w Hi) as [H|(y & x & tl & l & ->)]; [exact H|]. exfalso. exact (Hnosleep _ _ _ _ _ Hi). }
    assert (Hnext : d_next V s = mbH).
    { destruct (d_workers V s) as [|w ws] eqn:Ew.
      - pose proof (i_len V v0 f mbW mbH n (abs s) HL1) as Hl. cbn [workers ConcDetailed.abs] in Hl. rewrite Ew in Hl. cbn in Hl. lia.
      - pose proof (Hexited 0 w eq_refl) as H0. subst w.
        apply (i_exited V v0 f mbW mbH n (abs s) HL1 0). cbn [workers ConcDetailed.abs]. rewrite Ew. reflexivity. }
    assert (Hrlt : d_recRow V s < mbH).
    { unfold dfinal in Hnf. apply andb_false_iff in Hnf. destruct Hnf as [Hnf|Hnf].
      - exfalso. rewrite <- not_true_iff_false in Hnf. apply Hnf. apply forallb_forall. intros w Hw.
        destruct (In_nth_error _ _ Hw) as (i & Hi). rewrite (Hexited i w Hi). reflexivity.
      - apply Nat.eqb_neq in Hnf. pose proof (i_rec_le V v0 f mbW mbH n (abs s) HL1) as Hle.
        cbn [recRow ConcDetailed.abs] in Hle. lia. }
    destruct Hrec as [Hge|[_ Hsleep]]; [lia|].
    (* the recorder sleeps on a complete row: a broadcast would have to be pending *)
    destruct (i_owner V v0 f mbW mbH n (abs s) HL1 (d_recRow V s)) as [Hfull|(k & tl' & l' & Hk)].
    - cbn [nextRow ConcDetailed.abs]. lia.
    - cbn [done ConcDetailed.abs] in Hfull.
      assert (Hnd : mbW <= d_done V s (d_recRow V s)) by (rewrite Hdone, Hfull; lia).
      destruct (q_ab_r s HL PSleep Hsleep Hnd eq_refl) as (j & x' & tl'' & l'' & sp & Hj & _).
      exact (Hnosig _ _ _ _ _ _ Hj).
    - cbn [workers ConcDetailed.abs] in Hk. rewrite nth_error_map in Hk.
      destruct (nth_error (d_workers V s) k) as [wk|] eqn:Ek; cbn in Hk; [|discriminate].
      rewrite (Hexited k wk Ek) in Hk. discriminate.
  Qed.

  (** ** Every maximal run of the detailed system ends in the serial result *)
  Theorem detailed_system_deterministic : forall n sched s, 1 <= n ->
    drun (dinit n) sched = Some s -> (forall l, dstep s l = None) ->
    (forall y x, y < mbH -> x < mbW -> d_out V s y x = Some (serial_out V v0 f mbW y x)) /\
    d_tokens V s = serial_tokens V v0 f mbW mbH.
  Proof.
    intros n sched s Hn Hr Hstuck. destruct (dfinal V mbH s) eqn:Hf.
    - exact (detailed_deterministic V v0 f mbW mbH HmbW n sched s Hr Hf).
    - destruct (detailed_deadlock_free n sched s Hn Hr Hf) as (l & Hl). exfalso. exact (Hl (Hstuck l)).
  Qed.

  (** no lost wake-up, stated on the detailed system: a worker (or the recorder) that is
      asleep in cond.Wait, or committed to it, while the row it waits for has reached the
      progress it needs, has that row's signaller between its waiters load and its Broadcast *)
  Theorem detailed_no_lost_wakeup : forall n sched s i y x tl l ph,
    drun (dinit n) sched = Some s ->
    nth_error (d_workers V s) i = Some (DWait y x tl l ph) ->
    needed x <= d_done V s (y - 1) -> ph = PWaitCall \/ ph = PSleep ->
    exists j x' tl' l' sp, nth_error (d_workers V s) j = Some (DSig (y - 1) x' tl' l' sp) /\ okphase ph sp = true.
  Proof.
    intros n sched s i y x tl l ph Hr Hi Hnd Hph. destruct (detailed_live n sched s Hr) as [_ HL].
    apply (q_ab_w s HL i y x tl l ph Hi Hnd). destruct Hph as [-> | ->]; reflexivity.
  Qed.

End Live.

(** Not vacuous: a scheduler that rotates its preference among worker 0, worker 1 (twice) and the recorder
    drives the detailed system (3 x 3 macroblocks, 2 workers) through the slow paths —
    recorder and row-1 worker asleep in cond.Wait, woken by Broadcasts — to a final state
    with the serial token stream; and a state with a sleeping waiter really is reachable. *)
Definition ex_g (y x tl t tr l : nat) : nat := (1 + y + 2 * x + tl + 2 * t + 3 * tr + l) mod 5.

Fixpoint first_enabled (s : dstate nat) (ls : list label) : option (label * dstate nat) :=
  match ls with
  | [] => None
  | l :: rest => match dstep nat 0 ex_g 3 3 s l with Some s' => Some (l, s') | None => first_enabled s rest end
  end.

Fixpoint greedy (fuel : nat) (s : dstate nat) : list label * dstate nat :=
  match fuel with
  | 0 => ([], s)
  | S k => match first_enabled s (match k mod 4 with
                                  | 0 => [LW 0; LW 1; LRec]
                                  | 1 | 2 => [LW 1; LRec; LW 0]
                                  | _ => [LRec; LW 1; LW 0]
                                  end) with
           | Some (l, s') => let (ls, sf) := greedy k s' in (l :: ls, sf)
           | None => ([], s)
           end
  end.

Definition sleeping (w : dw nat) : bool := match w with DWait _ _ _ _ PSleep => true | _ => false end.

Example detailed_run_example :
  let ls := fst (greedy 600 (dinit nat 0 2)) in
  option_map (dfinal nat 3) (drun nat 0 ex_g 3 3 (dinit nat 0 2) ls) = Some true /\
  option_map (d_tokens nat) (drun nat 0 ex_g 3 3 (dinit nat 0 2) ls) = Some (serial_tokens nat 0 ex_g 3 3).
Proof. split; vm_compute; reflexivity. Qed.

Example detailed_sleep_reachable :
  existsb (fun k => existsb sleeping (d_workers nat (snd (greedy k (dinit nat 0 2))))) (seq 0 200) = true /\
  existsb (fun k => match d_rec nat (snd (greedy k (dinit nat 0 2))) with RWait PSleep => true | _ => false end) (seq 0 200) = true.
Proof. split; vm_compute; reflexivity. Qed.
