(** C11 — the reset-completeness obligations over the regenerated field and
    assignment lists ([WebpGen.Fields]), the dimension-gate lemmas, and the
    instantiation of [history_independent] for each pooled type. *)
From Coq Require Import String List Bool.
From Webp Require Import Conc.PoolModel Conc.PoolFieldClass Conc.PoolSkel.
From WebpGen Require Fields Skel Owner Globals.
Import ListNotations.
Open Scope string_scope.
Open Scope list_scope.

Module F := WebpGen.Fields.

Definition when (b : bool) (l : list string) : list string := if b then l else [].
Definition inter (a b : list string) : list string := filter (fun x => mem x b) a.
Definition subset (a b : list string) : bool := forallb (fun x => mem x b) a.
Fixpoint dedup (l : list string) : list string :=
  match l with
  | [] => []
  | x :: r => if mem x r then dedup r else x :: dedup r
  end.


Lemma subset_In a b x : subset a b = true -> In x a -> In x b.
Proof. unfold subset. rewrite forallb_forall. intros H Hi. apply mem_In. now apply H. Qed.

(* ------------------------------------------------------------------ *)
(** * every field is classified — if this fails, the list in the error message names the
    struct fields that have NO line in PoolFieldClass.v (a new or RENAMED field):
    "unknown field X of type T: classify it in PoolFieldClass.v".  Field ORDER never
    matters anywhere in this development: all obligations go through [mem]/[lookup]. *)
Definition unclassified (fields : list string) (cls : list (string * fclass)) : list string :=
  filter (fun f => match lookup f cls with None => true | _ => false end) fields.
(** classification lines whose field no longer exists in the struct (left over after a
    rename or removal) *)
Definition stale_lines (fields : list string) (cls : list (string * fclass)) : list string :=
  filter (fun f => negb (mem f fields)) (map fst cls).

Lemma unknown_fields_classify_them_in_PoolFieldClass :
  unclassified F.lossy_VP8Encoder_fields class_VP8Encoder = [] /\
  unclassified F.lossy_TokenBuffer_fields class_TokenBuffer = [] /\
  unclassified F.lossy_Decoder_fields class_lossy_Decoder = [] /\
  unclassified F.lossless_Encoder_fields class_lossless_Encoder = [] /\
  unclassified F.lossless_Decoder_fields class_lossless_Decoder = [] /\
  unclassified F.lossy_parallelState_fields class_parallelState = [] /\
  unclassified F.lossy_RowWorker_fields class_RowWorker = [] /\
  unclassified F.lossy_importUVWorker_fields class_importUVWorker = [] /\
  unclassified F.bitio_BoolWriter_fields class_BoolWriter = [] /\
  unclassified F.root_argbBuf_fields class_argbBuf = [].
Proof. vm_compute. repeat apply conj. all: reflexivity. Qed.

(* ------------------------------------------------------------------ *)
(** * lossy.TokenBuffer (nested in the pooled encoder; reset by tokens.Reset) *)

(** State fields the acquire path leaves alone *)
Definition unreset_state (fields : list string) (cls : list (string * fclass)) (assigned : list string) : list string :=
  filter (fun f => match lookup f cls with Some State | Some Config => negb (mem f assigned) | _ => false end) fields.

(** token pages grow with the amount of data, not the dimensions: the reuse path
    calls tokens.Reset, and Reset re-slices the page list and re-adds a first page
    whose count addPage zeroes *)
Definition assigned_TokenBuffer : list string :=
  strongly_written F.lossy_TokenBuffer_Reset_writes
  ++ when (mem "addPage" F.lossy_TokenBuffer_Reset_calls) (strongly_written F.lossy_TokenBuffer_addPage_writes)
  ++ when (mem "totalMB" (strongly_written F.lossy_TokenBuffer_Init_writes)) ["totalMB"].

Lemma reset_complete_TokenBuffer :
  reset_complete_b F.lossy_TokenBuffer_fields class_TokenBuffer assigned_TokenBuffer [] = true.
Proof. vm_compute. reflexivity. Qed.

(* ------------------------------------------------------------------ *)
(** * lossy.VP8Encoder *)

(** What the reuse path of NewEncoder / NewEncoderFromYUV re-initialises: the two
    entry points must call the same reset and init functions; the writes of a
    function count only when the hit block really calls it. *)
Definition acquire_calls_VP8Encoder : list string :=
  ["resetForReuse"; "initSegments"; "initEncoderParams"; "ResetProba(&proba)"; "tokens.Reset"].

Definition assigned_via (calls : list string) (hit_writes : list (string * string)) (gate imp_touch : list string) : list string :=
  when (mem "resetForReuse" calls) (strongly_written F.lossy_VP8Encoder_resetForReuse_writes)
  ++ strongly_written hit_writes
  ++ filter (fun f => negb (String.eqb f "tokens")
                       || reset_complete_b F.lossy_TokenBuffer_fields class_TokenBuffer assigned_TokenBuffer [])
            (delegated hit_writes calls delegated_resets)   (* a reset delegated to TokenBuffer.Reset counts only if that reset is complete *)
  ++ when (mem "initSegments" calls) (strongly_written F.lossy_VP8Encoder_initSegments_writes)
  ++ when (mem "initEncoderParams" calls) (strongly_written F.lossy_VP8Encoder_initEncoderParams_writes)
  ++ gate
  ++ when (subset gate_derived_VP8Encoder (strongly_written F.lossy_VP8Encoder_allocateBuffers_writes)
           && subset ["mbW"; "mbH"] gate) gate_derived_VP8Encoder
  ++ inter import_overwritten_VP8Encoder imp_touch.

Definition assigned_VP8Encoder_img : list string :=
  assigned_via F.lossy_VP8Encoder_NewEncoder_calls F.lossy_VP8Encoder_NewEncoder_writes
               F.lossy_VP8Encoder_NewEncoder_gate
               (when (mem "importImage" F.lossy_VP8Encoder_NewEncoder_calls) F.lossy_VP8Encoder_importImage_touches).
Definition assigned_VP8Encoder_yuv : list string :=
  assigned_via F.lossy_VP8Encoder_NewEncoderFromYUV_calls F.lossy_VP8Encoder_NewEncoderFromYUV_writes
               F.lossy_VP8Encoder_NewEncoderFromYUV_gate
               (when (mem "importYCbCr" F.lossy_VP8Encoder_NewEncoderFromYUV_calls) F.lossy_VP8Encoder_importYCbCr_touches).
(** a field counts as assigned only if BOTH entry points assign it *)
Definition assigned_VP8Encoder : list string := inter assigned_VP8Encoder_img assigned_VP8Encoder_yuv.
Definition released_VP8Encoder : list string := strongly_written F.lossy_VP8Encoder_ReleaseEncoder_writes.

Lemma reset_complete_VP8Encoder :
  reset_complete_b F.lossy_VP8Encoder_fields class_VP8Encoder assigned_VP8Encoder released_VP8Encoder = true.
Proof. vm_compute. reflexivity. Qed.

Lemma acquire_path_VP8Encoder :
  subset acquire_calls_VP8Encoder F.lossy_VP8Encoder_NewEncoder_calls = true /\
  subset acquire_calls_VP8Encoder F.lossy_VP8Encoder_NewEncoderFromYUV_calls = true.
Proof. vm_compute. repeat apply conj. all: reflexivity. Qed.

(** ** dimension gate *)

(** the lossy encoder is reused only when (mbW, mbH) match — on both entry points *)
Lemma dimension_gate_VP8Encoder_dims :
  subset ["mbW"; "mbH"] F.lossy_VP8Encoder_NewEncoder_gate = true /\
  subset ["mbW"; "mbH"] F.lossy_VP8Encoder_NewEncoderFromYUV_gate = true.
Proof. repeat apply conj. all: reflexivity. Qed.

(** every buffer whose length is a function of (mbW, mbH) is allocated by
    allocateBuffers (which runs only for a fresh object, with exactly these
    dimensions), and nothing on the reuse path re-makes it *)
Lemma dimension_gate_VP8Encoder_buffers :
  subset dims_sized_VP8Encoder (written F.lossy_VP8Encoder_allocateBuffers_writes) = true.
Proof. vm_compute. reflexivity. Qed.

(** every Scratch field of the encoder is either a fixed-size array (no length to
    persist: not a slice the struct allocates) or one of the (mbW,mbH)-sized buffers
    above, or the iterator (a view of those) *)
Definition fixed_arrays_VP8Encoder : list string :=
  ["tmpCoeffs"; "tmpQCoeffs"; "tmpDQCoeffs"; "tmpDCCoeffs"; "tmpWHTDQ"; "tmpWHTBuf"; "tmpAllQ";
   "tmpACLevels"; "tmpRecon"; "tmpUVLevels"; "tmpBestDQ"; "tmpBestQ";
   "tmpAnSrc"; "tmpAnPred"; "tmpAnSrcU"; "tmpAnSrcV"; "tmpAnPredU"; "tmpAnPredV"; "mbIterator"].
Lemma dimension_gate_VP8Encoder_scratch :
  subset (fields_of_class Scratch class_VP8Encoder) (dims_sized_VP8Encoder ++ fixed_arrays_VP8Encoder) = true.
Proof. vm_compute. reflexivity. Qed.

(** numParts depends on cfg.Partitions, not on the dimensions: re-assigned on reuse *)
Lemma dimension_gate_numParts : In "numParts" (strongly_written F.lossy_VP8Encoder_resetForReuse_writes).
Proof. apply mem_In. vm_compute. reflexivity. Qed.

(** useDerr depends on cfg.Method; topDerr is always allocated (mbW) and cleared *)
Lemma dimension_gate_derr :
  In "useDerr" (strongly_written F.lossy_VP8Encoder_resetForReuse_writes) /\
  In "topDerr" (strongly_written F.lossy_VP8Encoder_resetForReuse_writes) /\
  In "topDerr" (strongly_written F.lossy_VP8Encoder_allocateBuffers_writes).
Proof. repeat apply conj. all: apply mem_In; vm_compute; reflexivity. Qed.

(** ConstZero fields: [yuvP] is the only one; the package accesses it only to allocate
    it and to hand it to PickBestI4Mode; no analysed function of the acquire path, the
    import, the encode entry point or the release writes it. *)
Definition all_VP8Encoder_write_lists_but_alloc : list (list (string * string)) :=
  [F.lossy_VP8Encoder_resetForReuse_writes; F.lossy_VP8Encoder_NewEncoder_writes;
   F.lossy_VP8Encoder_NewEncoderFromYUV_writes; F.lossy_VP8Encoder_ReleaseEncoder_writes;
   F.lossy_VP8Encoder_initSegments_writes; F.lossy_VP8Encoder_initEncoderParams_writes;
   F.lossy_VP8Encoder_importImage_writes; F.lossy_VP8Encoder_importYCbCr_writes;
   F.lossy_VP8Encoder_EncodeFrame_writes].

Lemma constzero_fields_never_written :
  fields_of_class ConstZero class_VP8Encoder = ["yuvP"] /\
  F.lossy_VP8Encoder_yuvP_accesses = modelled_yuvP_accesses /\
  forallb (fun w => forallb (fun f => negb (mem f (written w))) (fields_of_class ConstZero class_VP8Encoder))
          all_VP8Encoder_write_lists_but_alloc = true /\
  subset (fields_of_class ConstZero class_VP8Encoder) (strongly_written F.lossy_VP8Encoder_allocateBuffers_writes) = true /\
  fields_of_class ConstZero class_TokenBuffer ++ fields_of_class ConstZero class_lossy_Decoder
  ++ fields_of_class ConstZero class_lossless_Encoder ++ fields_of_class ConstZero class_lossless_Decoder
  ++ fields_of_class ConstZero class_parallelState ++ fields_of_class ConstZero class_RowWorker
  ++ fields_of_class ConstZero class_importUVWorker ++ fields_of_class ConstZero class_BoolWriter
  ++ fields_of_class ConstZero class_argbBuf = [].
Proof. vm_compute. repeat apply conj. all: reflexivity. Qed.

Lemma dimension_gate_tokens :
  In "tokens.Reset" F.lossy_VP8Encoder_NewEncoder_calls /\ In "tokens.Reset" F.lossy_VP8Encoder_NewEncoderFromYUV_calls /\
  In "pages" assigned_TokenBuffer /\ In "curPage" assigned_TokenBuffer.
Proof. repeat apply conj. all: apply mem_In; vm_compute; reflexivity. Qed.

(* ------------------------------------------------------------------ *)
(** * lossy.parallelState / RowWorker / importUVWorker *)

(** parallel state is sized by (numWorkers, mbW, mbH): the gate compares all of them *)
Definition assigned_parallelState : list string :=
  written F.lossy_parallelState_getParallelState_writes.   (* rs: rows [0,mbH) reset — partial by design *)
Lemma reset_complete_parallelState :
  reset_complete_b F.lossy_parallelState_fields class_parallelState assigned_parallelState
                   (strongly_written F.lossy_parallelState_putParallelState_writes) = true.
Proof. vm_compute. reflexivity. Qed.
Lemma dimension_gate_parallelState :
  subset ["workers"; "rs"; "topY"; "topNz"] F.lossy_parallelState_getParallelState_gate = true /\
  subset ["topY"; "topU"; "topV"; "topModes"; "topNz"; "topNzDC"; "nextRow"]
         F.lossy_parallelState_encodeFrameParallel_touches = true.
Proof. repeat apply conj. all: reflexivity. Qed.

(** the gate only guarantees "large enough": every buffer of the pooled parallel state
    whose length the call can observe is re-sliced to this call's dimensions
    (workers[:numWorkers], topY[:mbW*16], …) before use *)
Lemma dimension_gate_parallelState_resliced :
  subset ["workers"; "topY"; "topU"; "topV"; "topModes"; "topNz"; "topNzDC"]
         F.lossy_parallelState_encodeFrameParallel_reslices = true.
Proof. reflexivity. Qed.

Definition assigned_RowWorker : list string := strongly_written F.lossy_RowWorker_encodeRow_writes.
Lemma reset_complete_RowWorker :
  reset_complete_b F.lossy_RowWorker_fields class_RowWorker assigned_RowWorker [] = true.
Proof. vm_compute. reflexivity. Qed.

Lemma reset_complete_importUVWorker :
  reset_complete_b F.lossy_importUVWorker_fields class_importUVWorker [] [] = true.
Proof. vm_compute. reflexivity. Qed.
Lemma dimension_gate_importUVWorker :
  subset ["rowR"; "tmpRGB"] F.lossy_importUVWorker_getImportUVWorker_gate = true.
Proof. reflexivity. Qed.

(* ------------------------------------------------------------------ *)
(** * bitio.BoolWriter, argbBuf *)

Definition assigned_BoolWriter : list string :=
  when (mem "Reset" F.lossy_BoolWriter_getBoolWriter_calls) (strongly_written F.bitio_BoolWriter_Reset_writes).
Lemma reset_complete_BoolWriter :
  reset_complete_b F.bitio_BoolWriter_fields class_BoolWriter assigned_BoolWriter [] = true.
Proof. vm_compute. reflexivity. Qed.

Definition assigned_argbBuf : list string :=
  inter (strongly_written F.root_argbBuf_encodeLossless_writes)
        (strongly_written F.root_argbBuf_encodeLosslessToWriter_writes).
Lemma reset_complete_argbBuf :
  reset_complete_b F.root_argbBuf_fields class_argbBuf assigned_argbBuf [] = true.
Proof. vm_compute. reflexivity. Qed.

(* ------------------------------------------------------------------ *)
(** * lossless.Encoder / lossless.Decoder *)

Definition assigned_lossless_Encoder : list string :=
  strongly_written F.lossless_Encoder_acquireEncoder_writes
  ++ inter (strongly_written F.lossless_Encoder_Encode_writes)
           (strongly_written F.lossless_Encoder_EncodeToWriter_writes).
Definition released_lossless_Encoder : list string := strongly_written F.lossless_Encoder_releaseEncoder_writes.
Lemma reset_complete_lossless_Encoder :
  reset_complete_b F.lossless_Encoder_fields class_lossless_Encoder
                   assigned_lossless_Encoder released_lossless_Encoder = true.
Proof. vm_compute. reflexivity. Qed.
(** the caller's config and pixels do not survive release *)
Lemma released_lossless_Encoder_external :
  subset ["config"; "argb"; "argbOrig"; "palette"] released_lossless_Encoder = true.
Proof. vm_compute. reflexivity. Qed.

Definition assigned_lossless_Decoder : list string :=
  strongly_written F.lossless_Decoder_acquireDecoder_writes
  ++ strongly_written F.lossless_Decoder_DecodeVP8L_writes
  ++ when (mem "decodeHeader" F.lossless_Decoder_DecodeVP8L_calls) (strongly_written F.lossless_Decoder_decodeHeader_writes).
Definition released_lossless_Decoder : list string := strongly_written F.lossless_Decoder_releaseDecoder_writes.
Lemma reset_complete_lossless_Decoder :
  reset_complete_b F.lossless_Decoder_fields class_lossless_Decoder
                   assigned_lossless_Decoder released_lossless_Decoder = true.
Proof. vm_compute. reflexivity. Qed.
(** External fields are cleared by the release function itself (not merely re-assigned later) *)
Lemma released_lossless_Decoder_external :
  subset (fields_of_class External class_lossless_Decoder) released_lossless_Decoder = true.
Proof. vm_compute. reflexivity. Qed.

(* ------------------------------------------------------------------ *)
(** * lossy.Decoder *)

Definition assigned_lossy_Decoder : list string :=
  strongly_written F.lossy_Decoder_acquireDecoder_writes
  ++ when (mem "parseHeaders" F.lossy_Decoder_DecodeFrame_calls)
       (strongly_written F.lossy_Decoder_parseHeaders_writes
        ++ delegated F.lossy_Decoder_parseHeaders_writes F.lossy_Decoder_parseHeaders_calls delegated_resets
        ++ when (mem "parseFilterHeader" F.lossy_Decoder_parseHeaders_calls) (strongly_written F.lossy_Decoder_parseFilterHeader_writes)
        ++ when (mem "parsePartitions" F.lossy_Decoder_parseHeaders_calls) (strongly_written F.lossy_Decoder_parsePartitions_writes))
  ++ when (mem "initFrame" F.lossy_Decoder_DecodeFrame_calls) (strongly_written F.lossy_Decoder_initFrame_writes).
Definition released_lossy_Decoder : list string := strongly_written F.lossy_Decoder_ReleaseDecoder_writes.

Lemma reset_complete_lossy_Decoder :
  reset_complete_b F.lossy_Decoder_fields class_lossy_Decoder assigned_lossy_Decoder released_lossy_Decoder = true.
Proof. vm_compute. reflexivity. Qed.

(** no Config/State field of any pooled type is left alone by its acquire path *)
Lemma nothing_unreset :
  unreset_state F.lossy_Decoder_fields class_lossy_Decoder assigned_lossy_Decoder = [] /\
  unreset_state F.lossy_VP8Encoder_fields class_VP8Encoder assigned_VP8Encoder = [] /\
  unreset_state F.lossy_TokenBuffer_fields class_TokenBuffer assigned_TokenBuffer = [] /\
  unreset_state F.lossless_Encoder_fields class_lossless_Encoder assigned_lossless_Encoder = [] /\
  unreset_state F.lossless_Decoder_fields class_lossless_Decoder assigned_lossless_Decoder = [].
Proof. vm_compute. repeat apply conj. all: reflexivity. Qed.

Lemma released_lossy_Decoder_external :
  subset (fields_of_class External class_lossy_Decoder) released_lossy_Decoder = true.
Proof. vm_compute. reflexivity. Qed.

(** the buffers whose length depends on the frame (mbW, mbH of the file) are
    re-sliced-and-cleared or re-made by initFrame on every decode *)
Lemma dimension_gate_lossy_Decoder :
  subset ["yuvT"; "mbInfo"; "fInfo"; "mbData"; "slab"; "intraT"; "yuvB"; "cacheY"; "cacheU"; "cacheV";
          "cacheYStride"; "cacheUVStride"]
         (strongly_written F.lossy_Decoder_initFrame_writes) = true.
Proof. vm_compute. reflexivity. Qed.

(* ------------------------------------------------------------------ *)
(** * dimension gate, reuse-or-grow buffers

    Buffers that are not tied to the (mbW, mbH) gate keep whatever capacity the last
    call left; the code re-establishes their LENGTH on every call with the guard
    [if cap(x.f) >= n { x.f = x.f[:n] } else { x.f = make(T, n) }].  The translator lists
    every such guard whose two branches produce the same length expression; here:
    every buffer whose length a call can observe and that survives in the pool is
    covered by one (and the length expression is the modelled one). *)
Definition has_pairs (want got : list (string * string)) : bool :=
  forallb (fun p => existsb (fun q => String.eqb (fst p) (fst q) && String.eqb (snd p) (snd q)) got) want.

Lemma dimension_gate_resized :
  has_pairs [("yuvT", "mbW"); ("mbInfo", "mbW + 1"); ("fInfo", "mbW"); ("mbData", "mbW"); ("slab", "slabSize")]
            F.lossy_Decoder_initFrame_resizes = true /\
  has_pairs [("argb", "pixelCount")] F.lossless_Encoder_Encode_resizes = true /\
  has_pairs [("argb", "pixelCount")] F.lossless_Encoder_EncodeToWriter_resizes = true /\
  has_pairs [("pixels", "needed"); ("transformBuf", "numAlloc")] F.lossless_Decoder_DecodeVP8L_resizes = true /\
  has_pairs [("colorCacheBuf", "size")] F.lossless_Decoder_decodeImageStream_resizes = true /\
  has_pairs [("buf", "0")] F.bitio_BoolWriter_Reset_resizes = true /\
  has_pairs [("data", "pixelCount")] F.root_argbBuf_encodeLossless_resizes = true /\
  has_pairs [("data", "pixelCount")] F.root_argbBuf_encodeLosslessToWriter_resizes = true.
Proof. repeat apply conj. all: reflexivity. Qed.

(* ------------------------------------------------------------------ *)
(** * write-before-read: Scratch fields decided by the skeleton analysis *)

Fixpoint skel_lookup (key : string) (t : list (string * skel_entry)) : skel_entry :=
  match t with
  | [] => {| se_status := "missing"; se_roots := []; se_env := [] |}
  | (k, e) :: r => if String.eqb key k then e else skel_lookup key r
  end.

Definition skel_of (prefix f : string) : skel_entry :=
  skel_lookup (prefix ++ f) WebpGen.Skel.skel_table.

(** the Scratch fields of a type whose regenerated skeleton passes the analysis *)
Definition wbr_computed (prefix : string) (cls : list (string * fclass)) : list string :=
  filter (fun f => decided (skel_of prefix f)) (fields_of_class Scratch cls).

(** ** one instance per function
    The skeletons speak about "the field f of type T" without naming the object.  That
    is justified by the regenerated list of every expression of type T whose fields a
    function accesses, on which it calls a method, or which it passes on: every function
    of the package uses ONE such expression (a receiver, a parameter, the local bound at
    the acquisition site, or a fixed field path from one of those, e.g. enc.tokens) - so
    along any call chain from an entry point all accesses concern the object acquired at
    the top.  Variables declared in an if-block that ends in a return (the pool-hit path
    of NewEncoder) are separate scopes and may differ.  No expression is an element of a
    slice of T or otherwise unclassified ("other:"). *)
Definition base_live (b : string) : bool := negb (String.prefix "ret:" b).

Definition inst_ok (l : list (string * string)) (exceptions : list string) : bool :=
  forallb (fun p =>
             negb (String.prefix "other:" (snd p))
             && (negb (base_live (snd p)) || mem (fst p) exceptions
                 || forallb (fun q => negb (String.eqb (fst q) (fst p)) || negb (base_live (snd q))
                                      || String.eqb (snd q) (snd p)) l)) l.

Lemma single_instance_per_function :
  inst_ok WebpGen.Skel.inst_lossy_VP8Encoder two_base_functions = true /\
  inst_ok WebpGen.Skel.inst_lossy_TokenBuffer [] = true /\
  inst_ok WebpGen.Skel.inst_lossy_Decoder [] = true /\
  inst_ok WebpGen.Skel.inst_lossy_parallelState [] = true /\
  inst_ok WebpGen.Skel.inst_lossless_Encoder [] = true /\
  inst_ok WebpGen.Skel.inst_lossless_Decoder [] = true /\
  (* the exception is real and is exactly the modelled pair *)
  filter (fun p => String.eqb (fst p) "MBIterator.FillPredContext") WebpGen.Skel.inst_lossy_VP8Encoder
    = [("MBIterator.FillPredContext", "enc"); ("MBIterator.FillPredContext", "it.enc")].
Proof. vm_compute. repeat apply conj. all: reflexivity. Qed.

Example inst_check_rejects_two_objects :
  inst_ok [("f", "a"); ("f", "b")] [] = false /\ inst_ok [("f", "other:ws[i]")] [] = false /\
  inst_ok [("f", "ret:a"); ("f", "b")] [] = true.
Proof. vm_compute. repeat apply conj. all: reflexivity. Qed.

Lemma wbr_decided_fields :
  subset wbr_VP8Encoder (wbr_computed "lossy.VP8Encoder." class_VP8Encoder) = true /\
  subset wbr_lossy_Decoder (wbr_computed "lossy.Decoder." class_lossy_Decoder) = true /\
  subset wbr_parallelState (wbr_computed "lossy.parallelState." class_parallelState) = true.
Proof. vm_compute. repeat apply conj. all: reflexivity. Qed.

(** for every decided field: every trace of accesses that the regenerated skeleton of
    any entry point admits (all branches, loop counts, call depths, early returns)
    begins with a complete overwrite — or contains no access at all *)
Lemma wbr_field_safe prefix cls f :
  In f (wbr_computed prefix cls) ->
  forall r rho t, In r (se_roots (skel_of prefix f)) ->
                  den (env_of (se_env (skel_of prefix f))) rho (Call r) t -> safe t.
Proof.
  unfold wbr_computed. intros Hin. apply filter_In in Hin as [_ Hd].
  exact (decided_sound _ Hd).
Qed.

(* ------------------------------------------------------------------ *)
(** * returned values are fresh

    Ownership discipline over the regenerated list of return sites (Gen/Owner.v): every
    reference-typed value that the functions behind the public API return is nil, a
    fresh allocation (make, append to a nil slice, a literal whose reference-typed
    elements are themselves fresh), the result of an allocating function outside the
    module, or the result of a module function whose own return sites are in the
    list — never storage of a pooled object, never a parameter handed back, never
    something the translator could not classify.  Hence nothing a later call does to
    a pooled object can modify a value already returned. *)
Definition origin_ok (sites : list (string * string)) (k : string) : bool :=
  String.eqb k "nil"
  || String.prefix "fresh:" k
  || mem k fresh_external_origins
  || (String.prefix "call:" k
      && existsb (fun q => String.eqb ("call:" ++ fst q) k) sites).

Definition returned_values_fresh_b (sites : list (string * string)) : bool :=
  forallb (fun p => origin_ok sites (snd p)) sites.

Definition api_return_roots : list string :=
  ["root.decodeBytes#0"; "root.decodeFrameForAnimation#0"; "root.encodeLossless#0";
   "root.encodeLossyWithAlpha#0"; "root.encodeLossyWithAlpha#1";
   "root.encodeFrameForAnimation#0"; "root.simpleEncodeForAnimation#0"].

(** the return sites reachable from a set of roots through "call:" origins *)
Fixpoint reach (fuel : nat) (sites : list (string * string)) (front : list string) : list string :=
  match fuel with
  | O => front
  | S n =>
    let next := flat_map (fun p => if mem (fst p) front && String.prefix "call:" (snd p)
                                   then [substring 5 (String.length (snd p) - 5) (snd p)] else []) sites in
    let add := filter (fun k => negb (mem k front)) next in
    match add with
    | [] => front
    | _ => reach n sites (front ++ dedup add)
    end
  end.

Definition codec_sites (sites : list (string * string)) : list (string * string) :=
  let r := reach 30 sites api_return_roots in filter (fun p => mem (fst p) r) sites.

(** for the whole public API (every exported function or method of the non-internal
    packages that returns a reference): no returned value aliases a package-level
    variable or pooled storage.  (Returning the caller's own data - a Demuxer's views of
    the bytes it was given, an AnimDecoder's canvas - is the documented behaviour of those
    types and is allowed here; it is not allowed for the codec results above.) *)
Definition api_origin_ok (k : string) : bool :=
  negb (String.prefix "global:" k) && negb (String.prefix "pooled:" k).

Lemma returned_values_fresh :
  returned_values_fresh_b (codec_sites WebpGen.Owner.owner_sites) = true /\
  forallb (fun r => existsb (fun q => String.eqb (fst q) r) WebpGen.Owner.owner_sites) api_return_roots = true.
Proof. vm_compute. repeat apply conj. all: reflexivity. Qed.

Lemma api_returns_no_global_state :
  forallb (fun p => api_origin_ok (snd p)) WebpGen.Owner.owner_sites = true /\
  forallb (fun r => existsb (fun q => String.prefix r (fst q)) WebpGen.Owner.owner_sites)
          WebpGen.Owner.api_reference_returning = true /\
  mem "sharpyuv.GetConversionMatrix" WebpGen.Owner.api_reference_returning = true.
Proof. vm_compute. repeat apply conj. all: reflexivity. Qed.

Example api_check_rejects_global_alias :
  api_origin_ok "global:sharpyuv.predefinedMatrices" = false /\ api_origin_ok "param:d" = true.
Proof. vm_compute. split; reflexivity. Qed.

(** the check is not vacuous: it rejects a function that returns pooled storage, hands
    back a parameter, or calls a function that is not listed *)
Example returned_values_fresh_rejects :
  returned_values_fresh_b [("f#0", "pooled:Encoder.writerBuf")] = false /\
  returned_values_fresh_b [("f#0", "param:buf")] = false /\
  returned_values_fresh_b [("f#0", "call:g#0")] = false /\
  returned_values_fresh_b [("f#0", "call:g#0"); ("g#0", "fresh:make")] = true.
Proof. vm_compute. repeat apply conj. all: reflexivity. Qed.

(* ------------------------------------------------------------------ *)
(** * global tables are written only while the package initialises

    Gen/Globals.v lists every write to a package-level variable after its declaration
    (whole variable, element / field, builtin copy / clear, through a pointer taken to
    it, through a module function that stores into the corresponding parameter) with
    the context of the enclosing function.  Every write happens in an init function,
    inside the literal given to (sync.Once).Do, or in a function reachable only from
    those; the set of variables written at all is the modelled one; the mutable
    synchronisation objects are exactly the modelled pools and Once guards.  So no call
    can observe a global table in two different states: lazily mutated tables would be
    history dependence outside the pool model. *)
Definition global_write_ok (w : string * (string * (string * string))) : bool :=
  let ctx := snd (snd (snd w)) in String.eqb ctx "init" || String.eqb ctx "once".

Lemma globals_written_only_at_init :
  forallb global_write_ok WebpGen.Globals.global_writes = true /\
  (* the pass is not looking at an empty list: the tables known to be filled at init are there *)
  subset ["lossy.VP8FixedCostsI4"; "dsp.kGammaToLinearTab"; "sharpyuv.gammaToLinearTab"]
         (map fst WebpGen.Globals.global_writes) = true.
Proof. vm_compute. repeat apply conj. all: reflexivity. Qed.

Example global_write_check_rejects_runtime :
  global_write_ok ("lossy.VP8FixedCostsI4", ("VP8Encoder.encodeFrame", ("elem", "runtime"))) = false.
Proof. reflexivity. Qed.

(* ------------------------------------------------------------------ *)
(** * every sync.Pool is modelled *)

Lemma pools_all_modelled : F.sync_pools = modelled_pools.
Proof. reflexivity. Qed.

(* ------------------------------------------------------------------ *)
(** * history independence, per pooled type

    For each type whose reset is complete the abstract theorem applies with the
    regenerated lists; the frame condition and the dimension-gate condition stay
    hypotheses (generalised Section variables). *)

Section Instances.
  Variables (Args Out Val Shape : Type) (shape : Args -> Val -> Shape).
  Variables (init : Args -> string -> Val) (nilv : Val).
  Variables (gate : Args -> (string -> Val) -> bool) (run : Args -> (string -> Val) -> Out * (string -> Val)).

  Variable zerov : Val.

  Definition hist_indep (fields : list string) (cls : list (string * fclass)) (assigned released : list string) : Prop :=
    frame_condition Args Out Val Shape shape fields cls run ->
    dimension_gate_condition Args Val Shape shape fields cls assigned init gate ->
    (forall a, czero_inv Val fields cls zerov (fresh Args Val init a)) ->
    (forall a o, czero_inv Val fields cls zerov o -> czero_inv Val fields cls zerov (snd (run a o))) ->
    forall h a b b0 p0,
      pool_inv Val fields cls zerov p0 ->
      out_of_last Out Val (run_history Args Out Val assigned released init nilv gate run p0 (h ++ [(a, b)]))
      = out_of_last Out Val (run_history Args Out Val assigned released init nilv gate run [] [(a, b0)]).

  Ltac inst L := intros Hf Hd Hi Hr; exact (history_independent Args Out Val Shape shape _ _ _ _ init nilv zerov gate run L Hf Hd Hi Hr).

  Lemma history_independent_VP8Encoder :
    hist_indep F.lossy_VP8Encoder_fields class_VP8Encoder assigned_VP8Encoder released_VP8Encoder.
  Proof. inst reset_complete_VP8Encoder. Qed.
  Lemma history_independent_lossless_Encoder :
    hist_indep F.lossless_Encoder_fields class_lossless_Encoder assigned_lossless_Encoder released_lossless_Encoder.
  Proof. inst reset_complete_lossless_Encoder. Qed.
  Lemma history_independent_lossless_Decoder :
    hist_indep F.lossless_Decoder_fields class_lossless_Decoder assigned_lossless_Decoder released_lossless_Decoder.
  Proof. inst reset_complete_lossless_Decoder. Qed.
  Lemma history_independent_BoolWriter :
    hist_indep F.bitio_BoolWriter_fields class_BoolWriter assigned_BoolWriter [].
  Proof. inst reset_complete_BoolWriter. Qed.
  Lemma history_independent_argbBuf :
    hist_indep F.root_argbBuf_fields class_argbBuf assigned_argbBuf [].
  Proof. inst reset_complete_argbBuf. Qed.
  Lemma history_independent_parallelState :
    hist_indep F.lossy_parallelState_fields class_parallelState assigned_parallelState
               (strongly_written F.lossy_parallelState_putParallelState_writes).
  Proof. inst reset_complete_parallelState. Qed.
  Lemma history_independent_lossy_Decoder :
    hist_indep F.lossy_Decoder_fields class_lossy_Decoder assigned_lossy_Decoder released_lossy_Decoder.
  Proof. inst reset_complete_lossy_Decoder. Qed.

  (** with the decided fields: the frame condition is only needed for objects that agree
      on the decided fields' contents, plus content independence of each decided field
      (which [safe_trace_content_independent] derives for any execution whose accesses
      follow a safe trace, i.e. by [wbr_field_safe] any trace of the regenerated skeleton) *)
  Definition hist_indep_wbr (fields : list string) (cls : list (string * fclass)) (assigned released D : list string) : Prop :=
    (forall f, In f D -> indep_field Args Out Val Shape shape run f) ->
    frame_condition_given Args Out Val Shape shape fields cls run D ->
    dimension_gate_condition Args Val Shape shape fields cls assigned init gate ->
    (forall a, czero_inv Val fields cls zerov (fresh Args Val init a)) ->
    (forall a o, czero_inv Val fields cls zerov o -> czero_inv Val fields cls zerov (snd (run a o))) ->
    forall h a b b0 p0,
      pool_inv Val fields cls zerov p0 ->
      out_of_last Out Val (run_history Args Out Val assigned released init nilv gate run p0 (h ++ [(a, b)]))
      = out_of_last Out Val (run_history Args Out Val assigned released init nilv gate run [] [(a, b0)]).

  Ltac instw L HD := intros Hind Hgiven Hd Hi Hr;
    exact (history_independent Args Out Val Shape shape _ _ _ _ init nilv zerov gate run L
             (frame_from_decided Args Out Val Shape shape _ _ run _ HD Hind Hgiven) Hd Hi Hr).

  Lemma scratch_in_fields_gen (fields : list string) (cls : list (string * fclass)) (D : list string) :
    forallb (fun f => mem f fields && match lookup f cls with Some Scratch => true | _ => false end) D = true ->
    forall f, In f D -> In f fields /\ class_is cls Scratch f.
  Proof.
    intros H f Hin. rewrite forallb_forall in H. specialize (H f Hin).
    apply andb_prop in H as [H1 H2]. split; [now apply mem_In|].
    unfold class_is. destruct (lookup f cls) as [[]|]; try discriminate. reflexivity.
  Qed.
  Lemma scratch_in_fields_VP8Encoder f :
    In f wbr_VP8Encoder -> In f F.lossy_VP8Encoder_fields /\ class_is class_VP8Encoder Scratch f.
  Proof. apply scratch_in_fields_gen. vm_compute. reflexivity. Qed.
  Lemma scratch_in_fields_lossy_Decoder f :
    In f wbr_lossy_Decoder -> In f F.lossy_Decoder_fields /\ class_is class_lossy_Decoder Scratch f.
  Proof. apply scratch_in_fields_gen. vm_compute. reflexivity. Qed.
  Lemma scratch_in_fields_parallelState f :
    In f wbr_parallelState -> In f F.lossy_parallelState_fields /\ class_is class_parallelState Scratch f.
  Proof. apply scratch_in_fields_gen. vm_compute. reflexivity. Qed.

  Lemma history_independent_wbr_VP8Encoder :
    hist_indep_wbr F.lossy_VP8Encoder_fields class_VP8Encoder assigned_VP8Encoder released_VP8Encoder wbr_VP8Encoder.
  Proof. instw reset_complete_VP8Encoder scratch_in_fields_VP8Encoder. Qed.
  Lemma history_independent_wbr_lossy_Decoder :
    hist_indep_wbr F.lossy_Decoder_fields class_lossy_Decoder assigned_lossy_Decoder released_lossy_Decoder wbr_lossy_Decoder.
  Proof. instw reset_complete_lossy_Decoder scratch_in_fields_lossy_Decoder. Qed.
  Lemma history_independent_wbr_parallelState :
    hist_indep_wbr F.lossy_parallelState_fields class_parallelState assigned_parallelState
                   (strongly_written F.lossy_parallelState_putParallelState_writes) wbr_parallelState.
  Proof. instw reset_complete_parallelState scratch_in_fields_parallelState. Qed.
End Instances.
