(** C10 — sync.Pool shared by concurrent public-API calls, composed with C11's pool model
    (PoolModel.v: field classes, reset completeness, frame condition).

    Any number of goroutines; each call is  Get (the runtime may first drop any pooled
    objects, then hands out any pooled object or none) -> acquire path (gate, reuse or
    fresh) -> body -> release -> Put (the runtime may keep the object or not).  Events of
    different goroutines interleave arbitrarily; between its Get and its Put a goroutine
    holds its object, which is in neither the pool nor another goroutine's hands (objects
    carry identities so that this is a theorem, not an artefact of the encoding).  Because
    of that exclusive ownership the body of a call, although it runs concurrently with
    other bodies, acts on its own object only, and is modelled as one step at Put time.

    Under the hypotheses of C11's [history_independent] (reset completeness — a regenerated,
    machine-checked fact per pooled type —, the frame condition and the dimension gate
    condition) every call made in any such interleaving returns what it returns on a fresh
    object in a fresh process. *)
From Coq Require Import String List Bool Arith Lia.
From Webp Require Import Conc.PoolModel.
Import ListNotations.
Open Scope list_scope.

Section Share.
  Variables (Args Out Val : Type).
  Variable Shape : Type.
  Variable shape : Args -> Val -> Shape.
  Variable fields : list string.
  Variable cls : list (string * fclass).
  Variable assigned released : list string.
  Variable init : Args -> string -> Val.
  Variable nilv zerov : Val.
  Variable gate : Args -> obj Val -> bool.
  Variable run : Args -> obj Val -> Out * obj Val.

  Hypothesis Hcomplete : reset_complete_b fields cls assigned released = true.
  Hypothesis Hframe : frame_condition Args Out Val Shape shape fields cls run.
  Hypothesis Hdim : dimension_gate_condition Args Val Shape shape fields cls assigned init gate.
  Hypothesis Hcz_init : forall a, czero_inv Val fields cls zerov (fresh Args Val init a).
  Hypothesis Hcz_run : forall a o, czero_inv Val fields cls zerov o -> czero_inv Val fields cls zerov (snd (run a o)).

  Notation obj := (obj Val).
  Notation czero := (czero_inv Val fields cls zerov).
  Notation fresh := (fresh Args Val init).
  Notation acquire := (acquire Args Val assigned init gate).
  Notation release := (release Val released nilv).

  Definition ident := nat.

  Record holding := mkHold { h_g : nat; h_args : Args; h_id : ident; h_obj : obj }.

  Record pstate := mkP {
    pool : list (ident * obj);
    held : list holding;
    nextid : ident;
    outs : list (nat * Args * Out) }.      (* goroutine, its arguments, what the call returned *)

  Definition pinit : pstate := mkP [] [] 0 [].

  Inductive event :=
  | EGet (g : nat) (a : Args) (drops : list nat) (pick : option nat)
  | EPut (g : nat) (keep : bool).

  Definition drop_all (ds : list nat) (p : list (ident * obj)) : list (ident * obj) :=
    fold_left (fun q d => remove_nth d q) ds p.

  Definition holds (st : pstate) (g : nat) : option holding :=
    find (fun h => Nat.eqb (h_g h) g) (held st).

  Definition pstep (st : pstate) (e : event) : option pstate :=
    match e with
    | EGet g a ds pk =>
        match holds st g with
        | Some _ => None                                   (* one call at a time per goroutine *)
        | None =>
            let p1 := drop_all ds (pool st) in
            let got := match pk with Some i => nth_error p1 i | None => None end in
            let p2 := match pk, got with Some i, Some _ => remove_nth i p1 | _, _ => p1 end in
            let o := acquire a (option_map snd got) in
            (* the identity survives only if the pooled object passes the gate and is reused *)
            let reused := match got with Some (_, po) => gate a po | None => false end in
            let id := match got with Some (pid, _) => if reused then pid else nextid st | None => nextid st end in
            Some (mkP p2 (mkHold g a id o :: held st) (if reused then nextid st else S (nextid st)) (outs st))
        end
    | EPut g keep =>
        match holds st g with
        | None => None
        | Some h =>
            let '(out, o') := run (h_args h) (h_obj h) in
            let rest := filter (fun h' => negb (Nat.eqb (h_g h') g)) (held st) in
            Some (mkP (if keep then (h_id h, release o') :: pool st else pool st) rest (nextid st)
                      (outs st ++ [(g, h_args h, out)]))
        end
    end.

  Fixpoint prun (st : pstate) (es : list event) : option pstate :=
    match es with
    | [] => Some st
    | e :: rest => match pstep st e with Some st' => prun st' rest | None => None end
    end.

  (** ** invariant *)
  Definition all_ids (st : pstate) : list ident := map fst (pool st) ++ map h_id (held st).

  Record PInv (st : pstate) : Prop := {
    v_pool : Forall (fun io => czero (snd io)) (pool st);
    v_held : Forall (fun h => czero (h_obj h) /\
                              fst (run (h_args h) (h_obj h)) = fst (run (h_args h) (fresh (h_args h)))) (held st);
    v_ids : NoDup (all_ids st);
    v_lt : Forall (fun i => i < nextid st) (all_ids st);
    v_g : NoDup (map h_g (held st));
    v_outs : Forall (fun gao => snd gao = fst (run (snd (fst gao)) (fresh (snd (fst gao))))) (outs st) }.

  Lemma remove_nth_In {A} n (l : list A) x : In x (remove_nth n l) -> In x l.
  Proof.
    revert n; induction l as [|h tl IH]; intros [|n] H; cbn in *; auto.
    destruct H as [H|H]; [now left|right; exact (IH n H)].
  Qed.

  Lemma remove_nth_NoDup {A B} (k : A -> B) n (l : list A) : NoDup (map k l) -> NoDup (map k (remove_nth n l)).
  Proof.
    revert n; induction l as [|h tl IH]; intros [|n] H; cbn in *; auto.
    - now inversion H.
    - inversion H as [|? ? Hn Hd]; subst. constructor; [|exact (IH n Hd)].
      intros Hin. apply Hn. apply in_map_iff in Hin. destruct Hin as (x & <- & Hx).
      apply in_map. exact (remove_nth_In n tl x Hx).
  Qed.

  Lemma drop_all_In ds : forall p x, In x (drop_all ds p) -> In x p.
  Proof.
    unfold drop_all. induction ds as [|d r IH]; intros p x H; cbn [fold_left] in H; [exact H|].
    apply IH in H. exact (remove_nth_In d p x H).
  Qed.

  Lemma drop_all_NoDup ds : forall p, NoDup (map fst p) -> NoDup (map fst (drop_all ds p)).
  Proof.
    unfold drop_all. induction ds as [|d r IH]; intros p H; cbn [fold_left]; [exact H|].
    apply IH. apply remove_nth_NoDup. exact H.
  Qed.

  Lemma remove_nth_split {A} n (l : list A) x : nth_error l n = Some x ->
    forall y, In y l -> y = x \/ In y (remove_nth n l).
  Proof.
    revert n; induction l as [|h tl IH]; intros [|n] H y Hy; cbn in *; try discriminate.
    - inversion H; subst. destruct Hy; auto.
    - destruct Hy as [<-|Hy]; [right; now left|]. destruct (IH n H y Hy); auto.
  Qed.

  Lemma remove_nth_fresh {A B} (k : A -> B) n (l : list A) x : NoDup (map k l) -> nth_error l n = Some x ->
    ~ In (k x) (map k (remove_nth n l)).
  Proof.
    revert n; induction l as [|h tl IH]; intros [|n] Hnd H; cbn in *; try discriminate.
    - inversion H; subst. now inversion Hnd.
    - inversion Hnd as [|? ? Hn Hd]; subst. intros [Heq|Hin].
      + apply Hn. rewrite Heq. apply in_map. eapply nth_error_In; eauto.
      + exact (IH n Hd H Hin).
  Qed.

  Lemma holds_In st g h : holds st g = Some h -> In h (held st) /\ h_g h = g.
  Proof.
    unfold holds. intros H. apply find_some in H. destruct H as [H1 H2]. apply Nat.eqb_eq in H2. auto.
  Qed.

  Lemma holds_None st g : holds st g = None -> ~ In g (map h_g (held st)).
  Proof.
    unfold holds. intros H Hin. apply in_map_iff in Hin. destruct Hin as (h & Hg & Hh).
    pose proof (find_none _ _ H h Hh) as Hf. cbn in Hf. rewrite Hg, Nat.eqb_refl in Hf. discriminate.
  Qed.

  Lemma NoDup_app_iff {A} (l1 l2 : list A) :
    NoDup (l1 ++ l2) <-> NoDup l1 /\ NoDup l2 /\ (forall x, In x l1 -> ~ In x l2).
  Proof.
    induction l1 as [|a l1 IH]; cbn.
    - split; [intros H; repeat split; [constructor|exact H|intros x []]|intros (_ & H & _); exact H].
    - split.
      + intros H. inversion H as [|? ? Hn Hd]; subst. apply IH in Hd. destruct Hd as (H1 & H2 & H3).
        split; [constructor; [intros Hin; apply Hn, in_or_app; now left|exact H1]|]. split; [exact H2|].
        intros x [<-|Hx]; [intros Hin; apply Hn, in_or_app; now right|exact (H3 x Hx)].
      + intros (H1 & H2 & H3). inversion H1 as [|? ? Hn Hd]; subst. constructor.
        * intros Hin. apply in_app_or in Hin. destruct Hin as [Hin|Hin]; [exact (Hn Hin)|exact (H3 a (or_introl eq_refl) Hin)].
        * apply IH. split; [exact Hd|]. split; [exact H2|]. intros x Hx. apply H3. now right.
  Qed.

  Lemma filter_map_NoDup {A B} (k : A -> B) (p : A -> bool) (l : list A) :
    NoDup (map k l) -> NoDup (map k (filter p l)).
  Proof.
    induction l as [|h tl IH]; cbn; intros H; [exact H|]. inversion H as [|? ? Hn Hd]; subst.
    destruct (p h); cbn; [constructor; [|exact (IH Hd)]|exact (IH Hd)].
    intros Hin. apply Hn. apply in_map_iff in Hin. destruct Hin as (x & <- & Hx). apply in_map.
    apply filter_In in Hx. exact (proj1 Hx).
  Qed.

  Lemma pinit_inv : PInv pinit.
  Proof. constructor; cbn; constructor. Qed.

  Lemma pstep_inv st e st' : PInv st -> pstep st e = Some st' -> PInv st'.
  Proof.
    intros HI Hs.
    pose proof (v_ids st HI) as Hnd. unfold all_ids in Hnd. apply NoDup_app_iff in Hnd. destruct Hnd as (HndP & HndH & Hdisj).
    pose proof (v_lt st HI) as Hlt. unfold all_ids in Hlt. rewrite Forall_app in Hlt. destruct Hlt as [HltP HltH].
    rewrite Forall_forall in HltP, HltH.
    destruct e as [g a ds pk|g keep]; cbn [pstep] in Hs.
    - (* Get *)
      destruct (holds st g) eqn:Hh; [discriminate|]. inversion Hs; subst st'; clear Hs.
      set (p1 := drop_all ds (pool st)).
      assert (Hp1in : forall x, In x p1 -> In x (pool st)) by (intros x Hx; exact (drop_all_In ds _ x Hx)).
      assert (Hp1 : Forall (fun io => czero (snd io)) p1).
      { apply Forall_forall. intros x Hx. pose proof (v_pool st HI) as Hp. rewrite Forall_forall in Hp. exact (Hp x (Hp1in x Hx)). }
      assert (Hnd1 : NoDup (map fst p1)) by (apply drop_all_NoDup; exact HndP).
      destruct (match pk with Some i => nth_error p1 i | None => None end) as [[pid po]|] eqn:Egot.
      + (* the pool handed out (pid, po) *)
        destruct pk as [i|]; [|discriminate].
        assert (Hin1 : In (pid, po) p1) by (eapply nth_error_In; eauto).
        assert (Hpocz : czero po) by (rewrite Forall_forall in Hp1; exact (Hp1 _ Hin1)).
        assert (Hp2in : forall x, In x (remove_nth i p1) -> In x p1) by (intros x; apply remove_nth_In).
        assert (Hpid_notin : ~ In pid (map fst (remove_nth i p1))) by (exact (remove_nth_fresh fst i p1 (pid, po) Hnd1 Egot)).
        assert (HndP2 : NoDup (map fst (remove_nth i p1))) by (apply remove_nth_NoDup; exact Hnd1).
        assert (Hp2ids : forall x, In x (map fst (remove_nth i p1)) -> In x (map fst (pool st))).
        { intros x Hx. apply in_map_iff in Hx. destruct Hx as (io & <- & Hio). apply in_map. exact (Hp1in _ (Hp2in _ Hio)). }
        assert (Hpid_pool : In pid (map fst (pool st))) by (apply (in_map fst) in Hin1; cbn in Hin1; apply in_map_iff in Hin1; destruct Hin1 as (io & <- & Hio); apply in_map; exact (Hp1in _ Hio)).
        constructor; cbn [pool held nextid outs option_map snd].
        * apply Forall_forall. intros x Hx. rewrite Forall_forall in Hp1. exact (Hp1 x (Hp2in x Hx)).
        * constructor; [|exact (v_held st HI)]. cbn [h_obj h_args]. split.
          -- apply (acquire_inv Args Val fields cls assigned released init zerov gate Hcomplete Hcz_init).
             intros o Ho. inversion Ho; subst. exact Hpocz.
          -- apply (acquire_out_independent Args Out Val Shape shape fields cls assigned released init zerov gate run
                      Hcomplete Hframe Hdim Hcz_init). intros o Ho. inversion Ho; subst. exact Hpocz.
        * unfold all_ids. cbn [pool held map h_id]. apply NoDup_app_iff. split; [exact HndP2|]. split.
          -- constructor; [|exact HndH]. destruct (gate a po).
             ++ intros Hin. exact (Hdisj pid Hpid_pool Hin).
             ++ intros Hin. pose proof (HltH _ Hin). lia.
          -- intros x Hx [Heq|Hin].
             ++ subst x. destruct (gate a po); [exact (Hpid_notin Hx)|]. pose proof (HltP _ (Hp2ids _ Hx)). lia.
             ++ exact (Hdisj x (Hp2ids x Hx) Hin).
        * unfold all_ids. cbn [pool held map h_id nextid]. apply Forall_forall. intros x Hx.
          apply in_app_or in Hx. destruct Hx as [Hx|[Hx|Hx]].
          -- pose proof (HltP _ (Hp2ids _ Hx)). destruct (gate a po); lia.
          -- subst x. destruct (gate a po); [pose proof (HltP _ Hpid_pool); lia|lia].
          -- pose proof (HltH _ Hx). destruct (gate a po); lia.
        * cbn [map h_g]. constructor; [exact (holds_None st g Hh)|exact (v_g st HI)].
        * exact (v_outs st HI).
      + (* nothing handed out: a fresh object *)
        assert (Hp1ids : forall x, In x (map fst p1) -> In x (map fst (pool st))).
        { intros x Hx. apply in_map_iff in Hx. destruct Hx as (io & <- & Hio). apply in_map. exact (Hp1in _ Hio). }
        assert (Goal_p1 : PInv (mkP p1 (mkHold g a (nextid st) (acquire a None) :: held st) (S (nextid st)) (outs st))).
        { constructor; cbn [pool held nextid outs].
          * exact Hp1.
          * constructor; [|exact (v_held st HI)]. cbn [h_obj h_args]. split.
            -- apply (acquire_inv Args Val fields cls assigned released init zerov gate Hcomplete Hcz_init). intros o Ho. discriminate.
            -- apply (acquire_out_independent Args Out Val Shape shape fields cls assigned released init zerov gate run
                        Hcomplete Hframe Hdim Hcz_init). intros o Ho. discriminate.
          * unfold all_ids. cbn [pool held map h_id]. apply NoDup_app_iff. split; [exact Hnd1|]. split.
            -- constructor; [|exact HndH]. intros Hin. pose proof (HltH _ Hin). lia.
            -- intros x Hx [Heq|Hin]; [subst x; pose proof (HltP _ (Hp1ids _ Hx)); lia|exact (Hdisj x (Hp1ids x Hx) Hin)].
          * unfold all_ids. cbn [pool held map h_id nextid]. apply Forall_forall. intros x Hx.
            apply in_app_or in Hx. destruct Hx as [Hx|[Hx|Hx]].
            -- pose proof (HltP _ (Hp1ids _ Hx)). lia.
            -- lia.
            -- pose proof (HltH _ Hx). lia.
          * cbn [map h_g]. constructor; [exact (holds_None st g Hh)|exact (v_g st HI)].
          * exact (v_outs st HI). }
        destruct pk as [i|]; exact Goal_p1.
    - (* Put *)
      destruct (holds st g) as [h|] eqn:Hh; [|discriminate]. destruct (holds_In st g h Hh) as [Hhin Hhg].
      destruct (run (h_args h) (h_obj h)) as [out o'] eqn:Erun. inversion Hs; subst st'; clear Hs.
      pose proof (v_held st HI) as Hheld. rewrite Forall_forall in Hheld. destruct (Hheld h Hhin) as [Hcz Hout].
      set (rest := filter (fun h' => negb (Nat.eqb (h_g h') g)) (held st)).
      assert (Hrest_in : forall x, In x rest -> In x (held st)) by (intros x Hx; apply filter_In in Hx; exact (proj1 Hx)).
      assert (Hh_notin : ~ In (h_id h) (map h_id rest)).
      { intros Hin. apply in_map_iff in Hin. destruct Hin as (h2 & Hid & Hh2). apply filter_In in Hh2. destruct Hh2 as [Hh2 Hg2].
        apply negb_true_iff, Nat.eqb_neq in Hg2.
        (* two entries of [held] with the same identity are the same entry *)
        assert (h2 = h).
        { clear -HndH Hid Hh2 Hhin. induction (held st) as [|k tl IH]; [destruct Hhin|]. cbn in HndH. inversion HndH as [|? ? Hn Hd]; subst.
          destruct Hh2 as [->|Hh2]; destruct Hhin as [->|Hhin]; auto.
          - exfalso. apply Hn. rewrite Hid. apply in_map. exact Hhin.
          - exfalso. apply Hn. rewrite <- Hid. apply in_map. exact Hh2. }
        subst h2. congruence. }
      assert (Hcz' : czero (release o')).
      { apply (release_inv Val fields cls assigned released nilv zerov Hcomplete).
        pose proof (Hcz_run (h_args h) (h_obj h) Hcz) as H. rewrite Erun in H. exact H. }
      constructor; cbn [pool held nextid outs].
      + destruct keep; [constructor; [exact Hcz'|exact (v_pool st HI)]|exact (v_pool st HI)].
      + apply Forall_forall. intros x Hx. exact (Hheld x (Hrest_in x Hx)).
      + unfold all_ids. cbn [pool held]. fold rest.
        assert (HndR : NoDup (map h_id rest)) by (apply filter_map_NoDup; exact HndH).
        assert (HdisjR : forall x, In x (map fst (pool st)) -> ~ In x (map h_id rest)).
        { intros x Hx Hin. apply (Hdisj x Hx). apply in_map_iff in Hin. destruct Hin as (h2 & <- & Hh2). apply in_map. exact (Hrest_in _ Hh2). }
        destruct keep; cbn [map fst]; apply NoDup_app_iff.
        * split; [constructor; [|exact HndP]|].
          -- intros Hin. apply (Hdisj _ Hin). apply in_map. exact Hhin.
          -- split; [exact HndR|]. intros x [<-|Hx]; [exact Hh_notin|exact (HdisjR x Hx)].
        * split; [exact HndP|]. split; [exact HndR|exact HdisjR].
      + unfold all_ids. cbn [pool held nextid]. fold rest. apply Forall_forall. intros x Hx.
        apply in_app_or in Hx. destruct Hx as [Hx|Hx].
        * destruct keep; cbn [map fst] in Hx; [destruct Hx as [<-|Hx]; [apply HltH, in_map; exact Hhin|exact (HltP _ Hx)]|exact (HltP _ Hx)].
        * apply HltH. apply in_map_iff in Hx. destruct Hx as (h2 & <- & Hh2). apply in_map. exact (Hrest_in _ Hh2).
      + fold rest. apply filter_map_NoDup. exact (v_g st HI).
      + apply Forall_app. split; [exact (v_outs st HI)|]. constructor; [|constructor]. cbn [fst snd].
        rewrite <- Hout, Erun. reflexivity.
  Qed.

  Theorem pool_share_inv : forall es st, prun pinit es = Some st -> PInv st.
  Proof.
    intros es. assert (G : forall s0, PInv s0 -> forall s1, prun s0 es = Some s1 -> PInv s1).
    { induction es as [|e rest IH]; intros s0 H0 s1 Hr; cbn [prun] in Hr.
      - inversion Hr; subst; exact H0.
      - destruct (pstep s0 e) as [s2|] eqn:Hs; [|discriminate]. exact (IH s2 (pstep_inv s0 e s2 H0 Hs) s1 Hr). }
    intros st Hr. exact (G pinit pinit_inv st Hr).
  Qed.

  (** Every call made in any interleaving of any number of goroutines, under any pool
      behaviour, returns what the same call returns on a fresh object. *)
  Theorem pool_share_outputs_fresh : forall es st g a out,
    prun pinit es = Some st -> In (g, a, out) (outs st) -> out = fst (run a (fresh a)).
  Proof.
    intros es st g a out Hr Hin. pose proof (v_outs st (pool_share_inv es st Hr)) as H.
    rewrite Forall_forall in H. exact (H _ Hin).
  Qed.

  (** Exclusive ownership: at every moment the objects in the pool and the objects held by
      goroutines have pairwise different identities, and a goroutine holds at most one. *)
  Theorem pool_share_exclusive : forall es st,
    prun pinit es = Some st ->
    NoDup (map fst (pool st) ++ map h_id (held st)) /\ NoDup (map h_g (held st)).
  Proof.
    intros es st Hr. pose proof (pool_share_inv es st Hr) as HI. split; [exact (v_ids st HI)|exact (v_g st HI)].
  Qed.

End Share.

(** Not vacuous: three goroutines; goroutine 2 gets, while goroutine 1 still holds its own
    object, the object goroutine 0 has just put back (identity 0 is reused). *)
Example pool_share_example :
  let run := fun (a : nat) (o : obj nat) => (a, o) in
  let gate := fun (_ : nat) (_ : obj nat) => true in
  match prun nat nat nat [] [] (fun _ _ => 0) 0 gate run (pinit nat nat nat)
          [EGet nat 0 5 [] None; EGet nat 1 7 [] None; EPut nat 0 true; EGet nat 2 9 [] (Some 0);
           EPut nat 1 true; EPut nat 2 false] with
  | Some st => map fst (outs nat nat nat st) = [(0, 5); (1, 7); (2, 9)] /\ map fst (pool nat nat nat st) = [1]
  | None => False
  end.
Proof. cbn. split; reflexivity. Qed.
