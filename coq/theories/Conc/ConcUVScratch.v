(** C12 — lossy importImage, UV path (internal/lossy/encode.go): each worker goroutine
    takes a pooled [importUVWorker] whose buffers keep whatever an earlier call (of a
    possibly WIDER image: reuse only requires cap >= padW) left in them.  Hand model
    ("taint" model): every scratch cell is either fresh (written during this call) or
    stale; copies propagate staleness, the two kernels (dsp.AccumulateRGBA,
    dsp.ConvertRGBA32ToUV) produce a fresh value only from fresh inputs.  Theorem: for
    every width w >= 1, padded width padW = 16*mbW >= w, pooled buffer length
    L >= padW, with or without alpha, every value stored into the U / V planes by one
    row-pair iteration is computed from fresh cells only — the result cannot depend on
    what the pooled worker held, hence not on which goroutine (partition) runs the pair.

    The index sets are transcribed by hand from the loop body (rows: write [0,w), read
    cell w-1, write [w,padW); copy(planar[:padW], row0); copy(planar[padW:], row1);
    planarA filled with 0xff when there is no alpha; AccumulateRGBA reads planar[j],
    [j+1], [j+padW], [j+padW+1] for j = 0,2,..,padW-2 and writes tmpRGB[4i..4i+3];
    ConvertRGBA32ToUV reads tmpRGB[4i..4i+2] for i < uvWidth = padW/2); the translator
    does not extract them.  Note that the second copy does read stale cells
    (row1[padW..L)) when the pooled buffer is longer than padW — they land in
    planar[2*padW..), which no kernel reads. *)
From Coq Require Import Arith Lia Bool.

Definition arr := nat -> bool.                    (* true = fresh *)
Definition stale : arr := fun _ => false.

Definition fill (a : arr) (lo hi : nat) (v : bool) : arr :=
  fun k => if (lo <=? k) && (k <? hi) then v else a k.

(** copy(dst[off:], src) where n = min(len(dst)-off, len(src)) elements are copied *)
Definition copy_into (dst : arr) (off : nat) (src : arr) (n : nat) : arr :=
  fun k => if (off <=? k) && (k <? off + n) then src (k - off) else dst k.

Section UV.
  Variables w padW L : nat.      (* picture width, padded width, length of the pooled row buffers *)
  Variable hasAlpha : bool.
  Variables pooledRow0 pooledRow1 pooledPlanar pooledTmp : arr.   (* arbitrary leftovers *)

  (** one row buffer after the per-row loop: pixels, then edge replication of cell w-1 *)
  Definition row_after (pooled : arr) : arr :=
    let r := fill pooled 0 w true in
    if w <? padW then fill r w padW (r (w - 1)) else r.

  (** a colour plane's planar buffer (length 2*L) after the two copies *)
  Definition planar_after (pooled : arr) (r0 r1 : arr) : arr :=
    copy_into (copy_into pooled 0 r0 (Nat.min padW L)) padW r1 (Nat.min (2 * L - padW) L).

  Definition planarRGB : arr := planar_after pooledPlanar (row_after pooledRow0) (row_after pooledRow1).
  Definition planarA : arr :=
    if hasAlpha then planar_after pooledPlanar (row_after pooledRow0) (row_after pooledRow1)
    else fill pooledPlanar 0 (2 * L) true.      (* for i := range wk.planarA { = 0xff } *)

  (** AccumulateRGBA(planarR, G, B, A, stride = padW, tmpRGB, width = padW) *)
  Definition acc_inputs_fresh (i : nat) : bool :=
    let j := 2 * i in
    planarRGB j && planarRGB (j + 1) && planarRGB (j + padW) && planarRGB (j + padW + 1) &&
    planarA j && planarA (j + 1) && planarA (j + padW) && planarA (j + padW + 1).

  Definition tmp_after : arr :=
    fun k => if k <? 4 * (padW / 2) then acc_inputs_fresh (k / 4) else pooledTmp k.

  (** ConvertRGBA32ToUV(tmpRGB, u, v, uvWidth): output i is fresh iff its three inputs are *)
  Definition uv_output_fresh (i : nat) : bool :=
    tmp_after (4 * i) && tmp_after (4 * i + 1) && tmp_after (4 * i + 2).

End UV.

Lemma fill_in a lo hi v k : lo <= k -> k < hi -> fill a lo hi v k = v.
Proof.
  intros H1 H2. unfold fill. replace ((lo <=? k) && (k <? hi)) with true; [reflexivity|].
  symmetry. apply andb_true_iff. split; [apply Nat.leb_le|apply Nat.ltb_lt]; assumption.
Qed.

Lemma fill_out a lo hi v k : k < lo \/ hi <= k -> fill a lo hi v k = a k.
Proof.
  intros H. unfold fill. replace ((lo <=? k) && (k <? hi)) with false; [reflexivity|].
  symmetry. apply andb_false_iff. destruct H; [left; apply Nat.leb_gt|right; apply Nat.ltb_ge]; assumption.
Qed.

Lemma row_after_fresh w padW pooled k : 1 <= w -> w <= padW -> k < padW -> row_after w padW pooled k = true.
Proof.
  intros Hw Hwp Hk. unfold row_after.
  destruct (w <? padW) eqn:E.
  - destruct (Nat.lt_ge_cases k w) as [Hlt|Hge].
    + rewrite fill_out by (left; exact Hlt). apply fill_in; lia.
    + rewrite fill_in by lia. apply fill_in; lia.
  - apply Nat.ltb_ge in E. apply fill_in; lia.
Qed.

Lemma copy_in dst off src n k : off <= k -> k < off + n -> copy_into dst off src n k = src (k - off).
Proof.
  intros H1 H2. unfold copy_into. replace ((off <=? k) && (k <? off + n)) with true; [reflexivity|].
  symmetry. apply andb_true_iff. split; [apply Nat.leb_le|apply Nat.ltb_lt]; assumption.
Qed.

Lemma copy_out dst off src n k : k < off \/ off + n <= k -> copy_into dst off src n k = dst k.
Proof.
  intros H. unfold copy_into. replace ((off <=? k) && (k <? off + n)) with false; [reflexivity|].
  symmetry. apply andb_false_iff. destruct H; [left; apply Nat.leb_gt|right; apply Nat.ltb_ge]; assumption.
Qed.

Lemma planar_after_fresh w padW L pooled p0 p1 k : 1 <= w -> w <= padW -> padW <= L -> k < 2 * padW ->
  planar_after padW L pooled (row_after w padW p0) (row_after w padW p1) k = true.
Proof.
  intros Hw Hwp HL Hk. unfold planar_after.
  replace (Nat.min padW L) with padW by lia. replace (Nat.min (2 * L - padW) L) with L by lia.
  destruct (Nat.lt_ge_cases k padW) as [Hlt|Hge].
  - rewrite copy_out by (left; exact Hlt). rewrite copy_in by lia. apply row_after_fresh; lia.
  - rewrite copy_in by lia. apply row_after_fresh; lia.
Qed.

(** Every U / V sample written by a row-pair iteration depends on fresh scratch only. *)
Theorem uv_worker_scratch_overwritten :
  forall w mbW L hasAlpha pooledRow0 pooledRow1 pooledPlanar pooledTmp i,
  1 <= w -> w <= 16 * mbW -> 16 * mbW <= L -> i < (16 * mbW + 1) / 2 ->
  uv_output_fresh w (16 * mbW) L hasAlpha pooledRow0 pooledRow1 pooledPlanar pooledTmp i = true.
Proof.
  intros w mbW L hasAlpha p0 p1 pp pt i Hw Hwp HL Hi.
  set (padW := 16 * mbW) in *.
  assert (Hhalf : (padW + 1) / 2 = padW / 2).
  { unfold padW. replace (16 * mbW + 1) with (1 + (8 * mbW) * 2) by lia. rewrite Nat.div_add by lia.
    replace (16 * mbW) with ((8 * mbW) * 2) by lia. rewrite Nat.div_mul by lia. cbn. lia. }
  assert (Hpw : padW / 2 * 2 = padW).
  { unfold padW. replace (16 * mbW) with ((8 * mbW) * 2) by lia. rewrite Nat.div_mul by lia. lia. }
  rewrite Hhalf in Hi.
  assert (Hacc : forall q, q < padW / 2 -> acc_inputs_fresh w padW L hasAlpha p0 p1 pp q = true).
  { intros q Hq. unfold acc_inputs_fresh, planarRGB, planarA.
    assert (F : forall k, k < 2 * padW -> planar_after padW L pp (row_after w padW p0) (row_after w padW p1) k = true)
      by (intros k Hk; apply planar_after_fresh; lia).
    assert (FA : forall k, k < 2 * padW ->
       (if hasAlpha then planar_after padW L pp (row_after w padW p0) (row_after w padW p1) else fill pp 0 (2 * L) true) k = true).
    { intros k Hk. destruct hasAlpha; [apply F; exact Hk|]. apply fill_in; lia. }
    rewrite !F, !FA by lia. reflexivity. }
  assert (Htmp : forall k, k < 4 * (padW / 2) -> tmp_after w padW L hasAlpha p0 p1 pp pt k = true).
  { intros k Hk. unfold tmp_after. replace (k <? 4 * (padW / 2)) with true by (symmetry; apply Nat.ltb_lt; exact Hk).
    apply Hacc. apply Nat.div_lt_upper_bound; lia. }
  unfold uv_output_fresh. rewrite !Htmp by lia. reflexivity.
Qed.

(** not vacuous: a 10-pixel-wide picture handled by a worker pooled from a 48-wide one;
    and the model does detect a missing write: without the edge replication the last
    output column would depend on stale cells. *)
Example uv_scratch_example :
  uv_output_fresh 10 16 48 false stale stale stale stale 7 = true.
Proof. reflexivity. Qed.
Example uv_scratch_detects_missing_replication :
  (* rows written only for x < w (no replication): cell 10..15 stale -> output 5 tainted *)
  let row := fill stale 0 10 true in
  let planar := planar_after 16 48 stale row row in
  (planar 10 && planar 11 && planar 26 && planar 27) = false.
Proof. reflexivity. Qed.

(** ** The same theorem about REGENERATED index facts (tools/gosrc2v/uvscratch.go ->
    Gen/UVScratch.v): the step of j, the (stride coefficient, constant) pairs of the reads
    of dsp.AccumulateRGBA's main loop, the step and constants of its writes to dst, the
    multiplier and constants of dsp.ConvertRGBA32ToUV's reads are PARAMETERS here; the
    theorem holds for every such data that passes the boolean check [facts_ok], and
    Properties/C12.v instantiates it with the generated values. *)
From Coq Require Import List.
Import ListNotations.

Section UVGen.
  Variables w padW L : nat.
  Variable hasAlpha : bool.
  Variables pooledRow0 pooledRow1 pooledPlanar pooledTmp : arr.
  Variable jstep : nat.
  Variable acc_reads : list (nat * nat).
  Variable dstep : nat.
  Variable dst_writes : list nat.
  Variable cmult : nat.
  Variable creads : list nat.

  Definition facts_ok : bool :=
    (jstep =? 2) && forallb (fun ab => (fst ab <=? 1) && (snd ab <=? 1)) acc_reads &&
    (dstep =? cmult) && (1 <=? dstep) &&
    forallb (fun c => (c <? dstep) && existsb (Nat.eqb c) dst_writes) creads.

  Definition acc_fresh_gen (i : nat) : bool :=
    forallb (fun ab => planarRGB w padW L pooledRow0 pooledRow1 pooledPlanar (jstep * i + fst ab * padW + snd ab) &&
                       planarA w padW L hasAlpha pooledRow0 pooledRow1 pooledPlanar (jstep * i + fst ab * padW + snd ab)) acc_reads.

  Definition tmp_gen : arr :=
    fun k => if (k / dstep <? padW / 2) && existsb (Nat.eqb (k mod dstep)) dst_writes
             then acc_fresh_gen (k / dstep) else pooledTmp k.

  Definition uv_output_fresh_gen (i : nat) : bool := forallb (fun c => tmp_gen (cmult * i + c)) creads.
End UVGen.

Theorem uv_worker_scratch_overwritten_gen :
  forall w mbW L hasAlpha pooledRow0 pooledRow1 pooledPlanar pooledTmp jstep acc_reads dstep dst_writes cmult creads i,
  facts_ok jstep acc_reads dstep dst_writes cmult creads = true ->
  1 <= w -> w <= 16 * mbW -> 16 * mbW <= L -> i < (16 * mbW + 1) / 2 ->
  uv_output_fresh_gen w (16 * mbW) L hasAlpha pooledRow0 pooledRow1 pooledPlanar pooledTmp
                      jstep acc_reads dstep dst_writes cmult creads i = true.
Proof.
  intros w mbW L hasAlpha p0 p1 pp pt jstep acc_reads dstep dst_writes cmult creads i Hok Hw Hwp HL Hi.
  set (padW := 16 * mbW) in *.
  unfold facts_ok in Hok. repeat (apply andb_true_iff in Hok; destruct Hok as [Hok ?]).
  rename H into Hcr, H0 into Hd1, H1 into Hdc, H2 into Har. apply Nat.eqb_eq in Hok, Hdc. apply Nat.leb_le in Hd1. subst jstep cmult.
  rewrite forallb_forall in Har, Hcr.
  assert (Hhalf : (padW + 1) / 2 = padW / 2).
  { unfold padW. replace (16 * mbW + 1) with (1 + (8 * mbW) * 2) by lia. rewrite Nat.div_add by lia.
    replace (16 * mbW) with ((8 * mbW) * 2) by lia. rewrite Nat.div_mul by lia. cbn. lia. }
  assert (Hpw : padW / 2 * 2 = padW).
  { unfold padW. replace (16 * mbW) with ((8 * mbW) * 2) by lia. rewrite Nat.div_mul by lia. lia. }
  rewrite Hhalf in Hi.
  assert (F : forall k, k < 2 * padW -> planar_after padW L pp (row_after w padW p0) (row_after w padW p1) k = true)
    by (intros k Hk; apply planar_after_fresh; lia).
  assert (FA : forall k, k < 2 * padW -> planarA w padW L hasAlpha p0 p1 pp k = true).
  { intros k Hk. unfold planarA. destruct hasAlpha; [apply F; exact Hk|apply fill_in; lia]. }
  unfold uv_output_fresh_gen. apply forallb_forall. intros c Hc. specialize (Hcr c Hc).
  apply andb_true_iff in Hcr. destruct Hcr as [Hclt Hcin]. apply Nat.ltb_lt in Hclt.
  unfold tmp_gen.
  assert (Ediv : (dstep * i + c) / dstep = i).
  { rewrite Nat.mul_comm, Nat.div_add_l by lia. rewrite Nat.div_small by lia. lia. }
  assert (Emod : (dstep * i + c) mod dstep = c).
  { rewrite Nat.add_comm, Nat.mul_comm, Nat.mod_add by lia. apply Nat.mod_small. lia. }
  rewrite Ediv, Emod.
  replace (i <? padW / 2) with true by (symmetry; apply Nat.ltb_lt; exact Hi).
  assert (Hex : existsb (Nat.eqb c) dst_writes = true).
  { rewrite existsb_exists in *. destruct Hcin as (x & Hx & He). exists x. split; [exact Hx|exact He]. }
  rewrite Hex. cbn [andb].
  unfold acc_fresh_gen. apply forallb_forall. intros [a b] Hab. specialize (Har (a, b) Hab). cbn [fst snd] in *.
  apply andb_true_iff in Har. destruct Har as [Ha Hb]. apply Nat.leb_le in Ha, Hb.
  assert (Hidx : 2 * i + a * padW + b < 2 * padW) by nia.
  unfold planarRGB. rewrite F, FA by exact Hidx. reflexivity.
Qed.

(** The Go text of the UV goroutine's row-pair loop that [row_after] / [planar_after] /
    [planarA] transcribe (printed as tools/gosrc2v/uvscratch.go prints it); compared with the
    regenerated text, so that a change of the row fill, the edge replication, the copies or
    the call arguments breaks a proof obligation until the model is revisited. *)
From Coq Require Import String.
Definition modelled_pair_loop_body : list string :=
  ["for row := 0; row < 2; row++ { srcY := y*2 + row sy := srcY if sy >= h { sy = h - 1 } rowOff := srcBase + sy*pixStride rBuf := wk.rowR[row] gBuf := wk.rowG[row] bBuf := wk.rowB[row] aBuf := wk.rowA[row] for x := 0; x < w; x++ { off := rowOff + x*4 rBuf[x] = pix[off] gBuf[x] = pix[off+1] bBuf[x] = pix[off+2] aBuf[x] = pix[off+3] } if padW > w { for x := w; x < padW; x++ { rBuf[x] = rBuf[w-1] gBuf[x] = gBuf[w-1] bBuf[x] = bBuf[w-1] aBuf[x] = aBuf[w-1] } } }";
   "copy(wk.planarR[:padW], wk.rowR[0])";
   "copy(wk.planarR[padW:], wk.rowR[1])";
   "copy(wk.planarG[:padW], wk.rowG[0])";
   "copy(wk.planarG[padW:], wk.rowG[1])";
   "copy(wk.planarB[:padW], wk.rowB[0])";
   "copy(wk.planarB[padW:], wk.rowB[1])";
   "if hasAlpha { copy(wk.planarA[:padW], wk.rowA[0]) copy(wk.planarA[padW:], wk.rowA[1]) }";
   "dsp.AccumulateRGBA(wk.planarR, wk.planarG, wk.planarB, wk.planarA, padW, wk.tmpRGB, padW)";
   "dsp.ConvertRGBA32ToUV(wk.tmpRGB, enc.uPlane[y*enc.uvStride:], enc.vPlane[y*enc.uvStride:], uvWidth)"]%string.
Definition modelled_goroutine_prelude : list string :=
  ["defer uvwg.Done()";
   "wk := getImportUVWorker(padW, uvWidth)";
   "if !hasAlpha { for i := range wk.planarA { wk.planarA[i] = 0xff } }";
   "srcBase := (bounds.Min.Y-pixRect.Min.Y)*pixStride + (bounds.Min.X-pixRect.Min.X)*4";
   "importUVWorkerPool.Put(wk)"]%string.
