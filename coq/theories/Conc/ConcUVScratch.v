(** C12 — lossy importImage, UV path (internal/lossy/encode.go): each worker goroutine
    takes a pooled [importUVWorker] whose buffers keep whatever an earlier call (of a
    possibly WIDER image: reuse only requires cap >= padW) left in them.  Hand model
    ("taint" model): every scratch cell is either fresh (written during this call) or
    stale; copies propagate staleness, the two kernels (dsp.AccumulateRGBA,
    dsp.ConvertRGBA32ToUV) produce a fresh value only from fresh inputs.  Theorem: for
    every width w >= 1, padded width padW = 16*mbW >= w, pooled buffer length
    L >= padW, with or without alpha, every value stored into the U / V planes by one
    row-pair iteration is computed from fresh cells only — the result cannot depend on
    what the pooled worker held, hence not on which goroutine (partition) runs the pair.

    The index sets are transcribed by hand from the loop body (rows: write [0,w), read
    cell w-1, write [w,padW); copy(planar[:padW], row0); copy(planar[padW:], row1);
    planarA filled with 0xff when there is no alpha; AccumulateRGBA reads planar[j],
    [j+1], [j+padW], [j+padW+1] for j = 0,2,..,padW-2 and writes tmpRGB[4i..4i+3];
    ConvertRGBA32ToUV reads tmpRGB[4i..4i+2] for i < uvWidth = padW/2); the translator
    does not extract them.  Note that the second copy does read stale cells
    (row1[padW..L)) when the pooled buffer is longer than padW — they land in
    planar[2*padW..), which no kernel reads. *)
From Coq Require Import Arith Lia Bool.

Definition arr := nat -> bool.                    (* true = fresh *)
Definition stale : arr := fun _ => false.

Definition fill (a : arr) (lo hi : nat) (v : bool) : arr :=
  fun k => if (lo <=? k) && (k <? hi) then v else a k.

(** copy(dst[off:], src) where n = min(len(dst)-off, len(src)) elements are copied *)
Definition copy_into (dst : arr) (off : nat) (src : arr) (n : nat) : arr :=
  fun k => if (off <=? k) && (k <? off + n) then src (k - off) else dst k.

Section UV.
  Variables w padW L : nat.      (* picture width, padded width, length of the pooled row buffers *)
  Variable hasAlpha : bool.
  Variables pooledRow0 pooledRow1 pooledPlanar pooledTmp : arr.   (* arbitrary leftovers *)

  (** one row buffer after the per-row loop: pixels, then edge replication of cell w-1 *)
  Definition row_after (pooled : arr) : arr :=
    let r := fill pooled 0 w true in
    if w <? padW then fill r w padW (r (w - 1)) else r.

  (** a colour plane's planar buffer (length 2*L) after the two copies *)
  Definition planar_after (pooled : arr) (r0 r1 : arr) : arr :=
    copy_into (copy_into pooled 0 r0 (Nat.min padW L)) padW r1 (Nat.min (2 * L - padW) L).

  Definition planarRGB : arr := planar_after pooledPlanar (row_after pooledRow0) (row_after pooledRow1).
  Definition planarA : arr :=
    if hasAlpha then planar_after pooledPlanar (row_after pooledRow0) (row_after pooledRow1)
    else fill pooledPlanar 0 (2 * L) true.      (* for i := range wk.planarA { = 0xff } *)

  (** AccumulateRGBA(planarR, G, B, A, stride = padW, tmpRGB, width = padW) *)
  Definition acc_inputs_fresh (i : nat) : bool :=
    let j := 2 * i in
    planarRGB j && planarRGB (j + 1) && planarRGB (j + padW) && planarRGB (j + padW + 1) &&
    planarA j && planarA (j + 1) && planarA (j + padW) && planarA (j + padW + 1).

  Definition tmp_after : arr :=
    fun k => if k <? 4 * (padW / 2) then acc_inputs_fresh (k / 4) else pooledTmp k.

  (** ConvertRGBA32ToUV(tmpRGB, u, v, uvWidth): output i is fresh iff its three inputs are *)
  Definition uv_output_fresh (i : nat) : bool :=
    tmp_after (4 * i) && tmp_after (4 * i + 1) && tmp_after (4 * i + 2).

End UV.

Lemma fill_in a lo hi v k : lo <= k -> k < hi -> fill a lo hi v k = v.
Proof.
  intros H1 H2. unfold fill. replace ((lo <=? k) && (k <? hi)) with true; [reflexivity|].
  symmetry. apply andb_true_iff. split; [apply Nat.leb_le|apply Nat.ltb_lt]; assumption.
Qed.

Lemma fill_out a lo hi v k : k < lo \/ hi <= k -> fill a lo hi v k = a k.
Proof.
  intros H. unfold fill. replace ((lo <=? k) && (k <? hi)) with false; [reflexivity|].
  symmetry. apply andb_false_iff. destruct H; [left; apply Nat.leb_gt|right; apply Nat.ltb_ge]; assumption.
Qed.

Lemma row_after_fresh w padW pooled k : 1 <= w -> w <= padW -> k < padW -> row_after w padW pooled k = true.
Proof.
  intros Hw Hwp Hk. unfold row_after.
  destruct (w <? padW) eqn:E.
  - destruct (Nat.lt_ge_cases k w) as [Hlt|Hge].
    + rewrite fill_out by (left; exact Hlt). apply fill_in; lia.
    + rewrite fill_in by lia. apply fill_in; lia.
  - apply Nat.ltb_ge in E. apply fill_in; lia.
Qed.

Lemma copy_in dst off src n k : off <= k -> k < off + n -> copy_into dst off src n k = src (k - off).
Proof.
  intros H1 H2. unfold copy_into. replace ((off <=? k) && (k <? off + n)) with true; [reflexivity|].
  symmetry. apply andb_true_iff. split; [apply Nat.leb_le|apply Nat.ltb_lt]; assumption.
Qed.

Lemma copy_out dst off src n k : k < off \/ off + n <= k -> copy_into dst off src n k = dst k.
Proof.
  intros H. unfold copy_into. replace ((off <=? k) && (k <? off + n)) with false; [reflexivity|].
  symmetry. apply andb_false_iff. destruct H; [left; apply Nat.leb_gt|right; apply Nat.ltb_ge]; assumption.
Qed.

Lemma planar_after_fresh w padW L pooled p0 p1 k : 1 <= w -> w <= padW -> padW <= L -> k < 2 * padW ->
  planar_after padW L pooled (row_after w padW p0) (row_after w padW p1) k = true.
Proof.
  intros Hw Hwp HL Hk. unfold planar_after.
  replace (Nat.min padW L) with padW by lia. replace (Nat.min (2 * L - padW) L) with L by lia.
  destruct (Nat.lt_ge_cases k padW) as [Hlt|Hge].
  - rewrite copy_out by (left; exact Hlt). rewrite copy_in by lia. apply row_after_fresh; lia.
  - rewrite copy_in by lia. apply row_after_fresh; lia.
Qed.

(** Every U / V sample written by a row-pair iteration depends on fresh scratch only. *)
Theorem uv_worker_scratch_overwritten :
  forall w mbW L hasAlpha pooledRow0 pooledRow1 pooledPlanar pooledTmp i,
  1 <= w -> w <= 16 * mbW -> 16 * mbW <= L -> i < (16 * mbW + 1) / 2 ->
  uv_output_fresh w (16 * mbW) L hasAlpha pooledRow0 pooledRow1 pooledPlanar pooledTmp i = true.
Proof.
  intros w mbW L hasAlpha p0 p1 pp pt i Hw Hwp HL Hi.
  set (padW := 16 * mbW) in *.
  assert (Hhalf : (padW + 1) / 2 = padW / 2).
  { unfold padW. replace (16 * mbW + 1) with (1 + (8 * mbW) * 2) by lia. rewrite Nat.div_add by lia.
    replace (16 * mbW) with ((8 * mbW) * 2) by lia. rewrite Nat.div_mul by lia. cbn. lia. }
  assert (Hpw : padW / 2 * 2 = padW).
  { unfold padW. replace (16 * mbW) with ((8 * mbW) * 2) by lia. rewrite Nat.div_mul by lia. lia. }
  rewrite Hhalf in Hi.
  assert (Hacc : forall q, q < padW / 2 -> acc_inputs_fresh w padW L hasAlpha p0 p1 pp q = true).
  { intros q Hq. unfold acc_inputs_fresh, planarRGB, planarA.
    assert (F : forall k, k < 2 * padW -> planar_after padW L pp (row_after w padW p0) (row_after w padW p1) k = true)
      by (intros k Hk; apply planar_after_fresh; lia).
    assert (FA : forall k, k < 2 * padW ->
       (if hasAlpha then planar_after padW L pp (row_after w padW p0) (row_after w padW p1) else fill pp 0 (2 * L) true) k = true).
    { intros k Hk. destruct hasAlpha; [apply F; exact Hk|]. apply fill_in; lia. }
    rewrite !F, !FA by lia. reflexivity. }
  assert (Htmp : forall k, k < 4 * (padW / 2) -> tmp_after w padW L hasAlpha p0 p1 pp pt k = true).
  { intros k Hk. unfold tmp_after. replace (k <? 4 * (padW / 2)) with true by (symmetry; apply Nat.ltb_lt; exact Hk).
    apply Hacc. apply Nat.div_lt_upper_bound; lia. }
  unfold uv_output_fresh. rewrite !Htmp by lia. reflexivity.
Qed.

(** not vacuous: a 10-pixel-wide picture handled by a worker pooled from a 48-wide one;
    and the model does detect a missing write: without the edge replication the last
    output column would depend on stale cells. *)
Example uv_scratch_example :
  uv_output_fresh 10 16 48 false stale stale stale stale 7 = true.
Proof. reflexivity. Qed.
Example uv_scratch_detects_missing_replication :
  (* rows written only for x < w (no replication): cell 10..15 stale -> output 5 tainted *)
  let row := fill stale 0 10 true in
  let planar := planar_after 16 48 stale row row in
  (planar 10 && planar 11 && planar 26 && planar 27) = false.
Proof. reflexivity. Qed.
