(** C12 / C10 — the index arithmetic of every fork–join site of the codec, with the
    worker count [n] (what [runtime.GOMAXPROCS(0)] returned, or the verif hook's
    override) as a parameter.  Each [ranges_<site> n ...] is the list of half-open
    [(start, end)] ranges handed to the worker goroutines, in spawn order, computed
    exactly as the Go code computes them (Go [int] division = [Z.div] here because
    every operand is non-negative).  A range with [end <= start] is empty (the Go
    loops are [for i := start; i < end; i++]).

    Executable; extracted for the correspondence check (the hook logs the ranges a
    site actually used).  Proofs are in ConcPartitionProofs.v. *)
From Coq Require Import List ZArith Lia Bool String.
Import ListNotations.
Open Scope Z_scope.

Definition range := (Z * Z)%type.

Definition in_range (r : range) (i : Z) : Prop := fst r <= i < snd r.

(** [0; 1; ...; m-1] *)
Definition zrange (m : Z) : list Z := map Z.of_nat (seq 0 (Z.to_nat m)).

(** The indices a worker given range [r] visits, in loop order. *)
Definition indices (r : range) : list Z :=
  map (fun k => fst r + Z.of_nat k) (seq 0 (Z.to_nat (snd r - fst r))).

Definition zmin (a b : Z) : Z := if a >? b then b else a.   (* if a > b { a = b } *)

(** ** The partition shapes used by the code *)

(** (P) proportional bounds: [start = wi*total/n'], [end = (wi+1)*total/n'],
    [n' = min n total].  lossy importImage: Y rows (total = padH) and UV row
    pairs (total = padH/2). *)
Definition ranges_prop (n total : Z) : list range :=
  let n' := zmin n total in
  map (fun k => (k * total / n', (k + 1) * total / n')) (zrange n').

(** (C) ceil-sized chunks, clipped: [n' = min n total], [c = ceil(total/n')],
    [start = w*c], [end = min (start+c) total] (possibly [end < start]: empty).
    lossless ResidualImage / ColorSpaceTransform (total = tile rows),
    histogramRemap / parallelComputeHistogramCost (total = #histograms). *)
Definition ranges_ceil (n total : Z) : list range :=
  let n' := zmin n total in
  let c := (total + n' - 1) / n' in
  map (fun k => (k * c, zmin (k * c + c) total)) (zrange n').

(** (F) floor-sized chunks, the last worker takes the remainder, with an offset:
    [q = rows/n'], [ys = lo + w*q], [ye = ys+q], last: [ye = hi].
    lossless colorSpaceInverseTransformParallel ([n' = min n rows]) and
    argbToNRGBA ([n' = n], not clipped, lo = 0). *)
Definition ranges_floor_last (n' lo hi : Z) : list range :=
  let q := (hi - lo) / n' in
  map (fun k => (lo + k * q, if k =? n' - 1 then hi else lo + k * q + q)) (zrange n').

Definition ranges_inv_cross_color (n ystart yend : Z) : list range :=
  ranges_floor_last (zmin n (yend - ystart)) ystart yend.

Definition ranges_argb_to_nrgba (n height : Z) : list range :=
  ranges_floor_last n 0 height.

(** lossy computeAlphas: [n' = max 1 (min n (mbW*mbH))]; serial path when [n' = 1];
    otherwise ceil-sized row chunks of [mbH] with [break] at the first empty one. *)
Definition clamp_lo1 (a : Z) : Z := if a <? 1 then 1 else a.

Fixpoint take_nonempty (l : list range) : list range :=
  match l with
  | [] => []
  | r :: tl => if fst r >=? snd r then [] else r :: take_nonempty tl
  end.

Definition ranges_compute_alphas (n mbW mbH : Z) : list range :=
  let n' := clamp_lo1 (zmin n (mbH * mbW)) in
  if n' =? 1 then [(0, mbH)]
  else
    let rpw := (mbH + n' - 1) / n' in
    take_nonempty (map (fun k => (k * rpw, zmin (k * rpw + rpw) mbH)) (zrange n')).

(** lossless hashchain.fillParallel: positions [1, size-1);
    [n' = max 1 (min n (size/1000))], [c = ceil((size-2)/n')],
    [start = 1 + w*c], [end = min (start+c) (size-1)]. *)
Definition ranges_hashchain (n size : Z) : list range :=
  let n' := clamp_lo1 (zmin n (size / 1000)) in
  let c := (size - 2 + n' - 1) / n' in
  map (fun k => (1 + k * c, zmin (1 + k * c + c) (size - 1))) (zrange n').

(** Algorithm choices: since the fixes (work/patches/c12-*.diff) they no longer depend
    on [n]; the parameter is kept so that the statements still quantify over it. *)
Definition hashchain_uses_parallel (n size : Z) (lowEffort : bool) : bool :=
  (size >? 50000) && negb lowEffort.
Definition encodeframe_uses_parallel (n mbH method : Z) (doSearch : bool) : bool :=
  (mbH >=? 4) && (method >=? 3) && negb doSearch.
(** The same selections without the unused parameter. *)
Definition hashchain_uses_parallel_fixed (size : Z) (lowEffort : bool) : bool :=
  (size >? 50000) && negb lowEffort.
Definition encodeframe_uses_parallel_fixed (mbH method : Z) (doSearch : bool) : bool :=
  (mbH >=? 4) && (method >=? 3) && negb doSearch.

(** Worker counts of the two work-queue sites (items are claimed dynamically). *)
Definition workers_encode_parallel (n mbH : Z) : Z :=
  clamp_lo1 (zmin (zmin n 6) mbH).
Definition workers_decode_frames (n items : Z) : Z := zmin n items.

(** ** Fork–join semantics of a site *)

Fixpoint upd {A} (l : list A) (i : nat) (v : A) : list A :=
  match l, i with
  | [], _ => []
  | _ :: tl, O => v :: tl
  | h :: tl, S j => h :: upd tl j v
  end.

(** One step of a worker at item [i]: [out[i] = f i] where [f] reads only inputs
    that no worker writes (argbToNRGBA rows, cross-colour inverse rows, predictor
    mode per tile, histogram cost, remap assignment, Y / UV import rows). *)
Definition run_writes {A} (f : Z -> A) (ops : list Z) (out : list A) : list A :=
  fold_left (fun acc i => upd acc (Z.to_nat i) (f i)) ops out.

(** One step of a worker at item [i] that transforms its own cell in place
    (forward cross-colour transform per tile: reads and writes tile [i] only). *)
Definition run_inplace {A} (g : Z -> A -> A) (d : A) (ops : list Z) (st : list A) : list A :=
  fold_left (fun acc i => upd acc (Z.to_nat i) (g i (nth (Z.to_nat i) acc d))) ops st.

(** [Shuffle ls ops]: [ops] is an interleaving of the lists [ls] (each list's own
    order is kept, the lists are merged arbitrarily) — what a scheduler can do
    with one goroutine per list. *)
Inductive Shuffle {A} : list (list A) -> list A -> Prop :=
| Shuffle_done : forall ls, Forall (fun l => l = []) ls -> Shuffle ls []
| Shuffle_pick : forall pre x l post ops,
    Shuffle (pre ++ l :: post) ops -> Shuffle (pre ++ (x :: l) :: post) (x :: ops).

Definition sum_list (l : list Z) : Z := fold_left Z.add l 0.

(** ** Modelled sites (compared with the translator's list of every
    runtime.GOMAXPROCS / runtime.NumCPU read and every [go] statement) *)
Open Scope string_scope.
Definition modelled_gomaxprocs_sites : list (string * string) :=
  [ ("animation/animation.go", "DecodeFramesParallel");            (* workers_decode_frames *)
    ("internal/lossless/decode.go", "argbToNRGBA");                (* ranges_argb_to_nrgba *)
    ("internal/lossless/decode_transform.go", "inverseTransform"); (* ranges_inv_cross_color *)
    ("internal/lossless/encode_histogram.go", "histogramRemap");   (* ranges_ceil *)
    ("internal/lossless/encode_histogram.go", "parallelComputeHistogramCost"); (* ranges_ceil *)
    ("internal/lossless/encode_predictor.go", "ResidualImage");    (* ranges_ceil *)
    ("internal/lossless/encode_predictor.go", "ColorSpaceTransform"); (* ranges_ceil *)
    ("internal/lossless/hashchain.go", "Fill");                    (* hashchain_uses_parallel, ranges_hashchain *)
    ("internal/lossy/encode.go", "importImage");                   (* ranges_prop (Y) *)
    ("internal/lossy/encode.go", "importImage");                   (* ranges_prop (UV) *)
    ("internal/lossy/encode_analysis.go", "computeAlphas");        (* ranges_compute_alphas *)
    ("internal/lossy/encode_parallel.go", "encodeFrameParallel")   (* workers_encode_parallel, ConcRowSync *)
  ].

Definition modelled_go_statements : list (string * string) :=
  [ ("animation/animation.go", "DecodeFramesParallel");   (* queue workers *)
    ("animation/animation.go", "DecodeFramesParallel");   (* closer: wg.Wait(); close(results) *)
    ("internal/lossless/decode.go", "argbToNRGBA");
    ("internal/lossless/decode_transform.go", "colorSpaceInverseTransformParallel");
    ("internal/lossless/encode_histogram.go", "histogramRemap");
    ("internal/lossless/encode_histogram.go", "parallelComputeHistogramCost");
    ("internal/lossless/encode_predictor.go", "ResidualImage");
    ("internal/lossless/encode_predictor.go", "ColorSpaceTransform");
    ("internal/lossless/hashchain.go", "fillParallel");
    ("internal/lossy/encode.go", "importImage");
    ("internal/lossy/encode.go", "importImage");
    ("internal/lossy/encode_analysis.go", "computeAlphas");
    ("internal/lossy/encode_parallel.go", "encodeFrameParallel")
  ].

(** Semantic check used by the correspondence: the ranges a site handed to its workers (as
    logged by the hook, in spawn order, empty ranges allowed anywhere) tile [lo, hi) from
    left to right.  Any arithmetic that produces such a tiling passes — the check does not
    compare with a particular formula. *)
Fixpoint tiles_from (rs : list range) (cur hi : Z) : bool :=
  match rs with
  | [] => Z.eqb cur hi
  | r :: tl => if Z.leb (snd r) (fst r) then tiles_from tl cur hi            (* empty range *)
               else Z.eqb (fst r) cur && Z.leb (snd r) hi && tiles_from tl (snd r) hi
  end.
Definition is_tiling (rs : list range) (lo hi : Z) : bool := Z.leb lo hi && tiles_from rs lo hi.

(** Partition shape of every go statement, as recognised from the source by
    tools/gosrc2v/partshapes.go (Gen/PartShapes.v; an unknown shape makes the translator
    refuse).  A shape name is the model function above whose exact-cover theorem
    (ConcPartitionProofs.v, all n and all sizes) describes that site. *)
Definition modelled_site_shapes : list (string * string * string) :=
  [ ("animation/animation.go", "DecodeFramesParallel", "workers_decode_frames");
    ("animation/animation.go", "DecodeFramesParallel", "join_closer");
    ("internal/lossless/decode.go", "argbToNRGBA", "ranges_argb_to_nrgba");
    ("internal/lossless/decode_transform.go", "colorSpaceInverseTransformParallel", "ranges_inv_cross_color");
    ("internal/lossless/encode_histogram.go", "histogramRemap", "ranges_ceil");
    ("internal/lossless/encode_histogram.go", "parallelComputeHistogramCost", "ranges_ceil");
    ("internal/lossless/encode_predictor.go", "ResidualImage", "ranges_ceil");
    ("internal/lossless/encode_predictor.go", "ColorSpaceTransform", "ranges_ceil");
    ("internal/lossless/hashchain.go", "fillParallel", "ranges_hashchain");
    ("internal/lossy/encode.go", "importImage", "ranges_prop");
    ("internal/lossy/encode.go", "importImage", "ranges_prop");
    ("internal/lossy/encode_analysis.go", "computeAlphas", "ranges_compute_alphas");
    ("internal/lossy/encode_parallel.go", "encodeFrameParallel", "workers_encode_parallel")
  ].

(** shapes with a proved exact-cover / bounds theorem *)
Definition proved_shapes : list string :=
  ["ranges_ceil"; "ranges_prop"; "ranges_argb_to_nrgba"; "ranges_inv_cross_color"; "ranges_hashchain";
   "ranges_compute_alphas"; "workers_encode_parallel"; "workers_decode_frames"; "join_closer"].
