(** C11 — classification of every field of every pooled type (hand-written: this
    table *is* the model; one line per field with the reason).  The field lists
    themselves are regenerated from the Go source ([WebpGen.Fields]); a field that
    appears there without a line here breaks [reset_complete_<type>].

    Config    assigned from the call's arguments on every acquire
    State     must be re-initialised on reuse
    Scratch   contents never read before written within a call (length may persist)
    ConstZero allocated once (zeros), then only read / only rewritten where it is re-read
              within the same macroblock; no function assigns, clears or fills it
    External  reference to caller data that must not survive release *)
From Coq Require Import String List.
From Webp Require Import Conc.PoolModel.
Import ListNotations.
Open Scope string_scope.

(** internal/lossy/encode.go: VP8Encoder (encoderPool; reused only when mbW,mbH match) *)
Definition class_VP8Encoder : list (string * fclass) := [
  ("config", Config);          (* resetForReuse: enc.config = cfg *)
  ("width", Config);           (* resetForReuse *)
  ("height", Config);          (* resetForReuse *)
  ("mbW", Config);             (* reuse gate: equal to (w+15)>>4 of this call, else the object is dropped *)
  ("mbH", Config);             (* reuse gate *)
  ("yPlane", State);           (* source pixels, later overwritten by reconstruction; importImage / importYCbCr rewrite the whole padded plane *)
  ("uPlane", State);           (* same *)
  ("vPlane", State);           (* same *)
  ("yStride", Config);         (* = 16*mbW, set in allocateBuffers only: determined by the gate *)
  ("uvStride", Config);        (* = 8*mbW, same *)
  ("savedY", State);           (* multi-pass copy of the source; nil-ed in resetForReuse *)
  ("savedU", State);
  ("savedV", State);
  ("yuvIn", Scratch);          (* per-MB work buffer, filled by Import before use *)
  ("yuvOut", Scratch);         (* reconstruction buffer; read only after PredCached/reconstruct wrote it (mbInfo.PredCached is reset) *)
  ("yuvOut2", Scratch);
  ("yuvP", ConstZero);         (* prediction buffer of the Method-2 I4 search (tryI4Modes -> PickBestI4Mode): the callee predicts 4x4 blocks inside it and reads, as prediction context, yuvP's own top row, left column and columns 17..20, which NO code ever writes (FillPredContext fills yuvOut, not yuvP) - they hold the allocator's zeros for ever; the interior cells are written by PredLuma4Direct before the same macroblock reads them. Found by the poisoning probe (garbage there changes the output); history-independent because the only accesses in the package are the allocation and that one call (regenerated list lossy_VP8Encoder_yuvP_accesses) *)
  ("mbInfo", State);           (* documented past leak (NzDC only set on the I16 branch): whole slab cleared *)
  ("dqm", State);              (* documented past leak (TLambdaSD only on SNS path): every segment cleared *)
  ("segmentHdr", State);
  ("proba", State);            (* ResetProba(&enc.proba) on the reuse path *)
  ("tokens", State);           (* enc.tokens.Reset() on the reuse path (pages kept, counts zeroed) *)
  ("nzCounts", State);
  ("stats", State);
  ("filterHdr", State);
  ("mbIterator", Scratch);     (* InitIterator rewrites every field except topNZ's contents, which no live code reads (GetNZContext has no caller) *)
  ("numParts", Config);        (* 1 << cfg.Partitions, resetForReuse *)
  ("topNz", Scratch);          (* zeroed at the start of every pass (encodeFrame / recordAllTokens / rerecord) *)
  ("leftNz", State);
  ("topNzDC", Scratch);        (* zeroed with topNz *)
  ("leftNzDC", State);
  ("dqY1DC", State);
  ("dqY2DC", State);
  ("dqY2AC", State);
  ("dqUVDC", State);
  ("dqUVAC", State);
  ("topDerr", State);          (* error-diffusion carry: cleared in resetForReuse *)
  ("leftDerr", State);
  ("useDerr", Config);         (* cfg.Method >= 3 *)
  ("globalAlpha", State);
  ("globalUVAlpha", State);
  ("baseQuant", State);
  ("numSegments", State);
  ("skipProba", State);
  ("numSkip", State);
  ("maxI4HeaderBits", State);  (* reset to 0, then initEncoderParams *)
  ("rateCtrl", State);         (* pointer to pass statistics: nil-ed *)
  ("tmpCoeffs", Scratch);      (* per-block temporaries: output of FTransform/Quantize before any read *)
  ("tmpQCoeffs", Scratch);
  ("tmpDQCoeffs", Scratch);
  ("tmpDCCoeffs", Scratch);
  ("tmpWHTDQ", Scratch);
  ("tmpWHTBuf", Scratch);
  ("tmpAllQ", Scratch);
  ("tmpACLevels", Scratch);
  ("tmpRecon", Scratch);
  ("tmpUVLevels", Scratch);
  ("tmpBestDQ", Scratch);      (* written when the first candidate mode (BDCPred, never skipped) beats the initial score ^uint64(0), before tryI4ModesRD reads it; decided by the poisoning probe: survives *)
  ("tmpBestQ", Scratch);       (* same *)
  ("tmpBestNz", State);        (* the code resets it explicitly (same read-after-conditional-write shape) *)
  ("tmpAnSrc", Scratch);       (* analysis temporaries *)
  ("tmpAnPred", Scratch);
  ("tmpAnSrcU", Scratch);
  ("tmpAnSrcV", Scratch);
  ("tmpAnPredU", Scratch);
  ("tmpAnPredV", Scratch);
  ("statTopNz", Scratch);      (* zeroed at the start of collectAllStats / parallel stat pass *)
  ("statTopNzDC", Scratch);
  ("parallelRS", State);       (* pointer into the pooled parallelState: nil-ed *)
  ("skipTokens", State);
  ("skipExportPlanes", State);
  ("itTopY", Scratch);         (* InitIterator fills with 127 *)
  ("itTopU", Scratch);
  ("itTopV", Scratch);
  ("itTopModes", Scratch);     (* InitIterator fills with BDCPred; emitPartition0 borrows it and refills *)
  ("itTopNZ", Scratch);        (* only written (SetNZ) — no live reader *)
  ("analysisAlphas", Scratch); (* analysis writes every MB's alpha before the histogram reads it *)
  ("segMapTmp", Scratch);      (* smoothSegmentMap writes before copying back *)
  ("serialRowR", Scratch);     (* RGB->YUV row buffers: filled per row pair before conversion *)
  ("serialRowG", Scratch);
  ("serialRowB", Scratch);
  ("serialRowA", Scratch);
  ("serialPlanarR", Scratch);
  ("serialPlanarG", Scratch);
  ("serialPlanarB", Scratch);
  ("serialPlanarA", Scratch);
  ("serialTmpRGB", Scratch)
].

(** Scratch fields for which the write-before-read analysis over the regenerated access
    skeletons (Gen/Skel.v, PoolSkel.check) succeeds today: on every path from every
    entry point of the package the first access to the field is a complete overwrite.
    The lists are compared with what the analysis computes on every run: a field that
    stops being decided (a read sneaks in before the fill) breaks the obligation; so
    does a newly decided one (then move it here).  Everything else stays covered by the
    frame-condition hypothesis and the 0xA5 poisoning probe. *)
Definition wbr_VP8Encoder : list string := ["topNz"; "topNzDC"; "statTopNz"; "statTopNzDC"; "itTopY"; "itTopU"; "itTopV"; "itTopNZ"].

(** functions that reach a pooled object through two different expressions: only
    MBIterator.FillPredContext(enc), which also reads it.enc - the back pointer that
    InitIterator sets to the same encoder (it := &enc.mbIterator; it.enc = enc) *)
Definition two_base_functions : list string := ["MBIterator.FillPredContext"].
Definition wbr_lossy_Decoder : list string := ["cacheYOff"; "cacheUOff"; "cacheVOff"; "dcScratch"].
Definition wbr_parallelState : list string := ["topY"; "topU"; "topV"; "topModes"; "topNz"; "topNzDC"].
Definition wbr_TokenBuffer : list string := [].
Definition wbr_lossless_Encoder : list string := [].
Definition wbr_lossless_Decoder : list string := [].

(** origins of returned values outside the module that allocate fresh storage owned by
    the caller: image.NewNRGBA; the bytes of a function-local bytes.Buffer *)
Definition fresh_external_origins : list string := ["ext:image.NewNRGBA"; "method:Buffer.Bytes"].

(** package-level variables that are written after their declaration - all of them
    lookup / dispatch tables filled by init functions or inside (sync.Once).Do *)
Definition written_globals : list string :=
  ["dsp.AddGreenToBlueAndRedFunc"; "dsp.DspScan"; "dsp.DspScanUV"; "dsp.FTransform"; 
   "dsp.FTransform2"; "dsp.FTransformWHT"; "dsp.ITransform"; "dsp.LosslessPredictors"; 
   "dsp.PredChroma8"; "dsp.PredLuma16"; "dsp.PredLuma4"; "dsp.SSE16x16"; "dsp.SSE4x4"; 
   "dsp.SubtractGreenFunc"; "dsp.Transform"; "dsp.TransformAC3"; "dsp.TransformDC"; 
   "dsp.TransformDCUV"; "dsp.TransformUV"; "dsp.TransformWHT"; "dsp.VP8LevelFixedCosts"; 
   "dsp.abs0"; "dsp.clip1"; "dsp.hasAVX2"; "dsp.kGammaToLinearTab"; "dsp.kLinearToGammaTab"; 
   "dsp.sclip1"; "dsp.sclip2"; "dsp.vp8kClip"; "dsp.vp8kClip4Bits"; "lossless.fastSLog2LUT"; 
   "lossless.multiplierDeltaByteLUT"; "lossless.multiplierDeltaTable"; 
   "lossless.planeToCodeLUT"; "lossy.VP8FixedCostsI4"; "sharpyuv.gammaToLinearTab"; 
   "sharpyuv.linearToGammaTab"].

(** package-level variables of synchronisation / pooling types: the sync.Pools modelled by
    this property and the two sync.Once guards of the gamma tables *)
Definition modelled_sync_globals : list string :=
  ["dsp.gammaTablesOnce"; "lossless.losslessDecoderPool"; "lossless.losslessEncoderPool"; "lossy.boolWriterPool";
   "lossy.encoderPool"; "lossy.importUVWorkerPool"; "lossy.lossyDecoderPool"; "lossy.parallelPool";
   "pool.pools"; "root.argbPool"; "sharpyuv.gammaTablesOnce"].

(** resets delegated to a callee that re-initialises the whole field: (field, callee as
    it appears in the regenerated call lists).  ResetProba writes Segments, Bands and
    BandsPtr completely; TokenBuffer.Reset is checked field by field (class_TokenBuffer);
    ParseQuant writes every matrix of all four segments. *)
Definition delegated_resets : list (string * string) :=
  [("proba", "ResetProba(&proba)"); ("tokens", "tokens.Reset"); ("dqm", "ParseQuant(dqm[:])")].

(** the accesses to the ConstZero field VP8Encoder.yuvP the model accounts for: the
    allocation, and being handed to PickBestI4Mode as its prediction buffer *)
Definition modelled_yuvP_accesses : list (string * string) :=
  [("allocateBuffers", "set"); ("tryI4Modes", "arg:PickBestI4Mode#2")].

(** fields of VP8Encoder whose value is a function of the gate fields and that only
    allocateBuffers assigns (so an object that passes the gate carries the right value) *)
Definition gate_derived_VP8Encoder : list string := ["yStride"; "uvStride"].
(** fields the import step of the reuse path overwrites completely *)
Definition import_overwritten_VP8Encoder : list string := ["yPlane"; "uPlane"; "vPlane"].
(** slice-typed Scratch/State buffers of VP8Encoder whose length is a function of
    (mbW, mbH) only: all must be allocated by allocateBuffers (dimension gate) *)
Definition dims_sized_VP8Encoder : list string :=
  ["yPlane"; "uPlane"; "vPlane"; "mbInfo"; "topNz"; "topNzDC"; "statTopNz"; "statTopNzDC";
   "itTopY"; "itTopU"; "itTopV"; "itTopModes"; "itTopNZ"; "analysisAlphas"; "segMapTmp"; "topDerr";
   "serialRowR"; "serialRowG"; "serialRowB"; "serialRowA";
   "serialPlanarR"; "serialPlanarG"; "serialPlanarB"; "serialPlanarA"; "serialTmpRGB";
   "yuvIn"; "yuvOut"; "yuvOut2"; "yuvP"].

(** internal/lossy/encode_token.go: TokenBuffer (lives inside the pooled encoder) *)
Definition class_TokenBuffer : list (string * fclass) := [
  ("pages", State);            (* Reset: counts zeroed, re-sliced to [:0], first page re-added *)
  ("curPage", State);          (* Reset: nil, then addPage *)
  ("totalMB", Config);         (* Init only; = mbW*mbH, determined by the encoder's gate *)
  ("mbStart", State);          (* token index at which each macroblock starts: EmitTokensPartitioned reads EVERY entry, but MarkMBStart is only called for macroblocks that record tokens (not for skipped ones); Reset fills it with -1 since fix f63046c (past leak) *)
  ("allPages", Scratch)        (* page cache: a reused page gets count = 0 in addPage; tokens beyond count are never read *)
].

(** internal/lossy/decode.go: Decoder (lossyDecoderPool; no gate, buffers reuse-or-grow) *)
Definition class_lossy_Decoder : list (string * fclass) := [
  ("frmHdr", State);           (* acquireDecoder zeroes; parseHeaders fills *)
  ("picHdr", State);
  ("filterHdr", State);        (* must be zeroed: RefLFDelta/ModeLFDelta are only conditionally updated *)
  ("segHdr", State);           (* must be zeroed: Quantizer/FilterStrength only conditionally updated *)
  ("mbW", State);
  ("mbH", State);
  ("mbX", State);
  ("mbY", State);
  ("tlMBX", State);            (* initFrame *)
  ("tlMBY", State);
  ("brMBX", State);
  ("brMBY", State);
  ("br", External);            (* reader over the caller's bytes: nil-ed on release *)
  ("parts", External);         (* readers over the caller's bytes: nil-ed on release *)
  ("numPartsMinusOne", State);
  ("proba", State);            (* ResetProba(&dec.proba) in parseHeaders *)
  ("useSkipProba", State);
  ("skipP", State);            (* only assigned when useSkipProba *)
  ("dqm", State);              (* ParseQuant writes all four matrices *)
  ("filterType", State);
  ("fstrengths", Scratch);     (* precomputeFilterStrengths leaves FILevel/HevThresh stale when level = 0, but FLimit = 0 then stops doFilter before reading them; not read when filterType = 0. Decided by the poisoning probe on files with level-0 segments: survives (and the mutant without the FLimit = 0 write is caught) *)
  ("intraT", State);           (* initFrame: re-sliced from the cleared slab, filled with BDCPred *)
  ("intraL", State);           (* left intra modes: read by the first parseIntraModeRow of a frame, written back by initScanline only at the END of each row; reset in acquireDecoder since fix fa3b99c (past leak after a failed decode) *)
  ("yuvT", State);             (* initFrame: clear / make *)
  ("mbInfo", State);           (* initFrame: clear / make *)
  ("fInfo", State);            (* initFrame: clear / make *)
  ("yuvB", State);             (* initFrame: slice of the cleared slab *)
  ("mbData", State);           (* initFrame: clear / make *)
  ("cacheY", State);           (* initFrame: slice of the cleared slab *)
  ("cacheU", State);
  ("cacheV", State);
  ("cacheYStride", State);     (* initFrame *)
  ("cacheUVStride", State);
  ("cacheYOff", Scratch);      (* never assigned nor read by live code *)
  ("cacheUOff", Scratch);
  ("cacheVOff", Scratch);
  ("slab", State);             (* initFrame: re-sliced and cleared, or re-made *)
  ("AlphaData", External);     (* caller's bytes: nil-ed on acquire and release *)
  ("dcScratch", Scratch)       (* zero-filled in decodeMB before every use *)
].

(** internal/lossless/encode.go: Encoder (losslessEncoderPool) *)
Definition class_lossless_Encoder : list (string * fclass) := [
  ("config", External);        (* caller's *EncoderConfig: assigned on acquire, nil-ed on release *)
  ("width", Config);
  ("height", Config);
  ("argb", State);             (* working copy of the caller's pixels: re-sliced or re-made and copy()-filled in Encode/EncodeToWriter; dropped on release *)
  ("argbOrig", State);         (* nil on acquire and release *)
  ("transforms", State);       (* re-sliced to [:0] *)
  ("currentWidth", Config);
  ("usePalette", State);
  ("paletteSize", State);
  ("palette", State);
  ("predictorBits", State);
  ("crossColorBits", State);
  ("histogramBits", State);
  ("cacheBits", State);
  ("useSubtractGreen", State);
  ("usePredict", State);
  ("useCrossColor", State);
  ("hashChain", Scratch);      (* Fill rewrites offsetLength for the current size *)
  ("bestRefs", Scratch);       (* refs lists are re-sliced to [:0] before being appended to *)
  ("candidateRefs", Scratch);
  ("traceRefs", Scratch);
  ("traceDistArray", Scratch);
  ("huffScratch", Scratch);
  ("brScratch", Scratch);
  ("sortedPalette", Scratch);
  ("deltaPalette", Scratch);
  ("histoImageBuf", Scratch);
  ("subImageHisto", Scratch);
  ("huffCodes", Scratch);
  ("histoScratch", Scratch);   (* allocateHistoSetReuse re-initialises the slabs it hands out *)
  ("residualsBuf", Scratch);
  ("storeCC", Scratch);        (* ReuseColorCache returns it reset *)
  ("writerBuf", Scratch)       (* output buffer; results are copied out before release *)
].

(** internal/lossless/decode.go: Decoder (losslessDecoderPool) *)
Definition class_lossless_Decoder : list (string * fclass) := [
  ("br", External);            (* reader over the caller's bytes *)
  ("Width", State);
  ("Height", State);
  ("HasAlpha", State);
  ("transformWidth", State);   (* 0 = "no transform changed the width": must be reset *)
  ("pixels", Scratch);         (* re-sliced to the needed length; decodeImageData writes every pixel it later reads *)
  ("argbCache", External);     (* alias into pixels, nil-ed on release, re-derived in DecodeVP8L *)
  ("transformBuf", Scratch);
  ("hdr", State);              (* metadata{} on acquire *)
  ("transforms", Scratch);     (* entries at index >= nextTransform are never read *)
  ("nextTransform", State);
  ("transformsSeen", State);
  ("codeLengthsBuf", Scratch);
  ("huffScratch", Scratch);    (* slab allocator: slabOff = 0 in DecodeVP8L, handed-out segments are zeroed *)
  ("colorCacheBuf", Scratch);  (* zero-filled when reused *)
  ("htreeGroupsBuf", Scratch); (* reused entries are zeroed *)
  ("recursionDepth", State)
].

(** internal/lossy/encode_parallel.go: parallelState (parallelPool; gate: large enough) *)
Definition class_parallelState : list (string * fclass) := [
  ("workers", Scratch);        (* RowWorker buffers, see class_RowWorker; gate: len >= numWorkers *)
  ("rs", State);               (* per-row progress counters: rows [0,mbH) reset by getParallelState (a partial write by design); gate: len(rows) >= mbH *)
  ("topY", Scratch);           (* first mbW*16 bytes filled with 127 by encodeFrameParallel *)
  ("topU", Scratch);
  ("topV", Scratch);
  ("topModes", Scratch);
  ("topNz", Scratch);
  ("topNzDC", Scratch);
  ("nextRow", State)           (* Store(0) *)
].

Definition class_RowWorker : list (string * fclass) := [
  ("yuvIn", Scratch); ("yuvOut", Scratch); ("yuvOut2", Scratch); ("yuvP", Scratch);
  ("tmpCoeffs", Scratch); ("tmpQCoeffs", Scratch); ("tmpDQCoeffs", Scratch); ("tmpDCCoeffs", Scratch);
  ("tmpWHTDQ", Scratch); ("tmpWHTBuf", Scratch); ("tmpAllQ", Scratch); ("tmpACLevels", Scratch);
  ("tmpRecon", Scratch); ("tmpUVLevels", Scratch); ("tmpBestDQ", Scratch); ("tmpBestQ", Scratch);
  ("tmpBestNz", Scratch);      (* unlike VP8Encoder.tmpBestNz this one is not reset on reuse; written before read as long as the first candidate mode wins *)
  ("topDerr", Scratch);        (* allocated only when the state was CREATED with useDerr; cleared at row 0; no reader in the parallel path *)
  ("leftDerr", State)          (* encodeRow clears it per row *)
].

(** internal/lossy/encode.go: importUVWorker (importUVWorkerPool; gate: capacity) *)
Definition class_importUVWorker : list (string * fclass) := [
  ("rowR", Scratch); ("rowG", Scratch); ("rowB", Scratch); ("rowA", Scratch);
  ("planarR", Scratch); ("planarG", Scratch); ("planarB", Scratch); ("planarA", Scratch);
  ("tmpRGB", Scratch)
].

(** internal/bitio/writer_bool.go: BoolWriter (boolWriterPool via getBoolWriter → Reset) *)
Definition class_BoolWriter : list (string * fclass) := [
  ("range_", State); ("value", State); ("run", State); ("nbBits", State);
  ("buf", State);              (* re-sliced to [:0] or re-made: bytes are appended, never read past len *)
  ("pos", State); ("err", State)
].

(** /repo/encode.go: argbBuf (argbPool) *)
Definition class_argbBuf : list (string * fclass) := [
  ("data", State)              (* re-sliced to the pixel count or re-made; every element written by the import loops *)
].

(** every sync.Pool of the non-test sources, and the pooled type it carries *)
Definition modelled_pools : list string :=
  ["lossless.losslessDecoderPool";   (* *lossless.Decoder *)
   "lossless.losslessEncoderPool";   (* *lossless.Encoder *)
   "lossy.boolWriterPool";           (* *bitio.BoolWriter *)
   "lossy.encoderPool";              (* *lossy.VP8Encoder (with its TokenBuffer) *)
   "lossy.importUVWorkerPool";       (* *lossy.importUVWorker *)
   "lossy.lossyDecoderPool";         (* *lossy.Decoder *)
   "lossy.parallelPool";             (* *lossy.parallelState (with its RowWorkers) *)
   "pool.pools";                     (* internal/pool byte-slice buckets: no importer in the non-test sources *)
   "root.argbPool"].                 (* *argbBuf *)
