(** C10 — proofs about the L1 row-pipeline system (ConcRowSync.v): an inductive
    invariant of all reachable states, and from it: every read of the shared top
    context returns the value the serial order would have there, every maximal run
    ends in the serial result, and no reachable non-final state is stuck — for all
    sizes, worker counts and schedules. *)
From Coq Require Import List Arith Lia Bool.
From Webp Require Import Conc.ConcRowSync.
Import ListNotations.

Section Proofs.
  Variable V : Type.
  Variable v0 : V.
  Variable f : nat -> nat -> V -> V -> V -> V -> V.
  Variables mbW mbH : nat.
  Hypothesis HmbW : 1 <= mbW.

  Notation state := (state V).
  Notation P := (P V v0 f mbW).
  Notation step := (step V v0 f mbW mbH).
  Notation step_worker := (step_worker V v0 f mbW mbH).
  Notation step_rec := (step_rec V v0 mbW mbH).
  Notation run := (run V v0 f mbW mbH).
  Notation init := (init V v0).
  Notation guard := (guard V mbW).
  Notation needed := (needed mbW).
  Notation final := (final V mbH).

  (** ** list helpers *)
  Lemma set_nth_length {A} (l : list A) i v : length (set_nth l i v) = length l.
  Proof. revert i; induction l as [|h tl IH]; intros [|i]; cbn; auto. Qed.

  Lemma set_nth_eq {A} (l : list A) i v : i < length l -> nth_error (set_nth l i v) i = Some v.
  Proof. revert i; induction l as [|h tl IH]; intros [|i] Hi; cbn in *; try lia; auto. apply IH; lia. Qed.

  Lemma set_nth_neq {A} (l : list A) i j v : i <> j -> nth_error (set_nth l i v) j = nth_error l j.
  Proof.
    revert i j; induction l as [|h tl IH]; intros [|i] [|j] Hij; cbn; auto; try lia.
  Qed.

  Lemma nth_error_lt {A} (l : list A) i a : nth_error l i = Some a -> i < length l.
  Proof. intros H. apply nth_error_Some. congruence. Qed.

  (** ** The invariant *)
  Definition spec_tokens (k : nat) : list V :=
    flat_map (fun y => map (P (S y)) (seq 0 mbW)) (seq 0 k).

  Record Inv (n : nat) (s : state) : Prop := {
    i_len : length (workers V s) = n;
    i_next : nextRow V s <= mbH;
    i_done_le : forall y, done V s y <= mbW;
    i_done_unstarted : forall y, nextRow V s <= y -> done V s y = 0;
    i_out : forall y x, x < done V s y -> out V s y x = Some (P (S y) x);
    i_chain : forall y, done V s (S y) = 0 \/ done V s (S y) < done V s y \/ done V s y = mbW;
    i_top0 : forall x, done V s 0 <= x -> top V s x = (None, v0);
    i_top : forall y x, x < done V s y -> done V s (S y) <= x -> top V s x = (Some y, P (S y) x);
    i_worker : forall i y x tl l, nth_error (workers V s) i = Some (AtMB y x tl l) ->
        y < nextRow V s /\ x < mbW /\ done V s y = x /\
        tl = (if x =? 0 then v0 else P y (x - 1)) /\
        l = (if x =? 0 then v0 else P (S y) (x - 1));
    i_owner : forall y, y < nextRow V s ->
        done V s y = mbW \/ exists i tl l, nth_error (workers V s) i = Some (AtMB y (done V s y) tl l);
    i_unique : forall i j y x x' tl tl' l l',
        nth_error (workers V s) i = Some (AtMB y x tl l) ->
        nth_error (workers V s) j = Some (AtMB y x' tl' l') -> i = j;
    i_exited : forall i, nth_error (workers V s) i = Some Exited -> nextRow V s = mbH;
    i_rec_le : recRow V s <= mbH;
    i_rec_done : forall y, y < recRow V s -> done V s y = mbW;
    i_tokens : tokens V s = spec_tokens (recRow V s) }.

  Lemma done_mono n s : Inv n s -> forall y1 y2, y1 <= y2 -> done V s y2 <= done V s y1.
  Proof.
    intros HI y1 y2 Hle. induction y2 as [|y2 IH].
    - replace y1 with 0 by lia. lia.
    - destruct (Nat.eq_dec y1 (S y2)) as [->|Hne]; [lia|].
      specialize (IH ltac:(lia)).
      pose proof (i_chain n s HI y2) as Hc. pose proof (i_done_le n s HI (S y2)) as Hd.
      pose proof (i_done_le n s HI y2). lia.
  Qed.

  Lemma needed_gt x : x < mbW -> x < needed x.
  Proof. unfold ConcRowSync.needed. lia. Qed.

  Lemma needed_le x : needed x <= mbW.
  Proof. unfold ConcRowSync.needed. lia. Qed.

  Lemma init_inv n : Inv n (init n).
  Proof.
    unfold ConcRowSync.init.
    constructor; cbn [nextRow workers done top out recRow tokens]; intros;
      try (match goal with
           | H : nth_error (repeat _ _) _ = Some _ |- _ =>
               apply nth_error_In, repeat_spec in H; discriminate
           end);
      try lia; try reflexivity.
    apply repeat_length.
  Qed.

  (** ** What a macroblock step reads *)
  Lemma reads_serial n s i y x tl l :
    Inv n s -> nth_error (workers V s) i = Some (AtMB y x tl l) -> guard s y x = true ->
    top V s x = ((if y =? 0 then None else Some (y - 1)), P y x) /\
    (S x < mbW -> top V s (S x) = ((if y =? 0 then None else Some (y - 1)), P y (S x))).
  Proof.
    intros HI Hw Hg. destruct (i_worker n s HI i y x tl l Hw) as (Hy & Hx & Hd & _ & _).
    destruct y as [|y'].
    - cbn [Nat.eqb]. split; [|intros _]; cbn [ConcRowSync.P]; apply (i_top0 n s HI); lia.
    - cbn [Nat.eqb]. unfold ConcRowSync.guard in Hg. cbn [Nat.eqb orb] in Hg.
      replace (S y' - 1) with y' in * by lia. apply Nat.leb_le in Hg.
      pose proof (needed_gt x Hx) as Hn.
      split.
      + apply (i_top n s HI y' x); lia.
      + intros Hsx. apply (i_top n s HI y' (S x)); [|lia].
        unfold ConcRowSync.needed in Hg. lia.
  Qed.

  (** the value a macroblock step computes is the serial one *)
  Lemma step_value n s i y x tl l :
    Inv n s -> nth_error (workers V s) i = Some (AtMB y x tl l) -> guard s y x = true ->
    f y x tl (snd (top V s x)) (if S x <? mbW then snd (top V s (S x)) else v0) l = P (S y) x.
  Proof.
    intros HI Hw Hg. destruct (reads_serial n s i y x tl l HI Hw Hg) as [Ht Htr].
    destruct (i_worker n s HI i y x tl l Hw) as (Hy & Hx & Hd & Htl & Hl).
    rewrite Ht. cbn [snd]. cbn [ConcRowSync.P].
    destruct x as [|x'].
    - cbn [Nat.eqb] in Htl, Hl. subst tl l. cbn [srow].
      destruct (1 <? mbW) eqn:E; [|reflexivity].
      apply Nat.ltb_lt in E. rewrite (Htr E). reflexivity.
    - cbn [Nat.eqb] in Htl, Hl. replace (S x' - 1) with x' in * by lia. subst tl l.
      cbn [srow]. destruct (S (S x') <? mbW) eqn:E; [|reflexivity].
      apply Nat.ltb_lt in E. rewrite (Htr E). reflexivity.
  Qed.

  (** ** Preservation *)
  Lemma upd1_eq {A} (g : nat -> A) k v : upd1 g k v k = v.
  Proof. unfold upd1. now rewrite Nat.eqb_refl. Qed.
  Lemma upd1_neq {A} (g : nat -> A) k v i : i <> k -> upd1 g k v i = g i.
  Proof. unfold upd1. intros H. apply Nat.eqb_neq in H. now rewrite H. Qed.

  Lemma step_claim_inv n s i :
    Inv n s -> nth_error (workers V s) i = Some Idle -> nextRow V s < mbH ->
    Inv n (mkState V (S (nextRow V s)) (set_nth (workers V s) i (AtMB (nextRow V s) 0 v0 v0))
                   (done V s) (top V s) (out V s) (recRow V s) (tokens V s)).
  Proof.
    intros HI Hw Hlt. pose proof (nth_error_lt _ _ _ Hw) as Hil.
    constructor; cbn [nextRow workers done top out recRow tokens].
    - rewrite set_nth_length. apply (i_len n s HI).
    - lia.
    - apply (i_done_le n s HI).
    - intros y Hy. apply (i_done_unstarted n s HI). lia.
    - apply (i_out n s HI).
    - apply (i_chain n s HI).
    - apply (i_top0 n s HI).
    - apply (i_top n s HI).
    - intros j y x tl l Hj. destruct (Nat.eq_dec i j) as [<-|Hne].
      + rewrite set_nth_eq in Hj by exact Hil. inversion Hj; subst.
        pose proof (i_done_unstarted n s HI (nextRow V s) ltac:(lia)). cbn. repeat split; try lia; auto.
      + rewrite set_nth_neq in Hj by exact Hne.
        destruct (i_worker n s HI j y x tl l Hj) as (H1 & H2). split; [lia|exact H2].
    - intros y Hy. destruct (Nat.eq_dec y (nextRow V s)) as [->|Hne].
      + right. exists i, v0, v0. rewrite set_nth_eq by exact Hil.
        rewrite (i_done_unstarted n s HI (nextRow V s)) by lia. reflexivity.
      + destruct (i_owner n s HI y ltac:(lia)) as [Hd|(j & tl & l & Hj)]; [now left|].
        right. exists j, tl, l. rewrite set_nth_neq; [exact Hj|]. intros ->. congruence.
    - intros j k y x x' tl tl' l l' Hj Hk.
      destruct (Nat.eq_dec i j) as [<-|Hnj]; destruct (Nat.eq_dec i k) as [<-|Hnk]; [reflexivity| | |].
      + rewrite set_nth_eq in Hj by exact Hil. inversion Hj; subst.
        rewrite set_nth_neq in Hk by exact Hnk.
        destruct (i_worker n s HI k _ _ _ _ Hk) as (H1 & _). lia.
      + rewrite set_nth_eq in Hk by exact Hil. inversion Hk; subst.
        rewrite set_nth_neq in Hj by exact Hnj.
        destruct (i_worker n s HI j _ _ _ _ Hj) as (H1 & _). lia.
      + rewrite set_nth_neq in Hj by exact Hnj. rewrite set_nth_neq in Hk by exact Hnk.
        exact (i_unique n s HI j k y x x' tl tl' l l' Hj Hk).
    - intros j Hj. destruct (Nat.eq_dec i j) as [<-|Hne].
      + rewrite set_nth_eq in Hj by exact Hil. discriminate.
      + rewrite set_nth_neq in Hj by exact Hne. pose proof (i_exited n s HI j Hj). lia.
    - apply (i_rec_le n s HI).
    - apply (i_rec_done n s HI).
    - apply (i_tokens n s HI).
  Qed.

  Lemma step_exit_inv n s i :
    Inv n s -> nth_error (workers V s) i = Some Idle -> ~ nextRow V s < mbH ->
    Inv n (mkState V (nextRow V s) (set_nth (workers V s) i Exited)
                   (done V s) (top V s) (out V s) (recRow V s) (tokens V s)).
  Proof.
    intros HI Hw Hge. pose proof (nth_error_lt _ _ _ Hw) as Hil.
    pose proof (i_next n s HI) as Hnx.
    constructor; cbn [nextRow workers done top out recRow tokens];
      try (first [apply (i_next n s HI) | apply (i_done_le n s HI) | apply (i_done_unstarted n s HI)
                 | apply (i_out n s HI) | apply (i_chain n s HI) | apply (i_top0 n s HI)
                 | apply (i_top n s HI) | apply (i_rec_le n s HI) | apply (i_rec_done n s HI)
                 | apply (i_tokens n s HI)]).
    - rewrite set_nth_length. apply (i_len n s HI).
    - intros j y x tl l Hj. destruct (Nat.eq_dec i j) as [<-|Hne].
      + rewrite set_nth_eq in Hj by exact Hil. discriminate.
      + rewrite set_nth_neq in Hj by exact Hne. exact (i_worker n s HI j y x tl l Hj).
    - intros y Hy. destruct (i_owner n s HI y Hy) as [Hd|(j & tl & l & Hj)]; [now left|].
      right. exists j, tl, l. rewrite set_nth_neq; [exact Hj|]. intros ->. congruence.
    - intros j k y x x' tl tl' l l' Hj Hk.
      destruct (Nat.eq_dec i j) as [<-|Hnj].
      { rewrite set_nth_eq in Hj by exact Hil. discriminate. }
      destruct (Nat.eq_dec i k) as [<-|Hnk].
      { rewrite set_nth_eq in Hk by exact Hil. discriminate. }
      rewrite set_nth_neq in Hj by exact Hnj. rewrite set_nth_neq in Hk by exact Hnk.
      exact (i_unique n s HI j k y x x' tl tl' l l' Hj Hk).
    - intros j Hj. destruct (Nat.eq_dec i j) as [<-|Hne]; [lia|].
      rewrite set_nth_neq in Hj by exact Hne. exact (i_exited n s HI j Hj).
  Qed.

  Lemma step_mb_inv n s i y x tl l :
    Inv n s -> nth_error (workers V s) i = Some (AtMB y x tl l) -> guard s y x = true ->
    let t := snd (top V s x) in
    let tr := if S x <? mbW then snd (top V s (S x)) else v0 in
    let r := f y x tl t tr l in
    Inv n (mkState V (nextRow V s)
             (set_nth (workers V s) i (if S x <? mbW then AtMB y (S x) t r else Idle))
             (upd1 (done V s) y (S x)) (upd1 (top V s) x (Some y, r))
             (upd2 (out V s) y x (Some r)) (recRow V s) (tokens V s)).
  Proof.
    intros HI Hw Hg t tr r.
    pose proof (nth_error_lt _ _ _ Hw) as Hil.
    assert (Hr : r = P (S y) x) by (apply (step_value n s i y x tl l HI Hw Hg)).
    destruct (reads_serial n s i y x tl l HI Hw Hg) as [Ht _].
    assert (Htv : t = P y x) by (unfold t; rewrite Ht; reflexivity).
    destruct (i_worker n s HI i y x tl l Hw) as (Hy & Hx & Hd & Htl & Hl).
    pose proof (done_mono n s HI) as Hmono.
    pose proof (needed_gt x Hx) as Hngt. pose proof (needed_le x) as Hnle.
    assert (Hgd : y = 0 \/ (0 < y /\ needed x <= done V s (y - 1))).
    { unfold ConcRowSync.guard in Hg. apply orb_true_iff in Hg. destruct Hg as [Hg|Hg].
      - left. now apply Nat.eqb_eq in Hg.
      - destruct y; [now left|]. right. apply Nat.leb_le in Hg. split; [lia|exact Hg]. }
    constructor; cbn [nextRow workers done top out recRow tokens].
    - rewrite set_nth_length. apply (i_len n s HI).
    - apply (i_next n s HI).
    - intros y0. unfold upd1. destruct (y0 =? y); [lia|apply (i_done_le n s HI)].
    - intros y0 Hy0. rewrite upd1_neq by lia. apply (i_done_unstarted n s HI). exact Hy0.
    - intros y0 x0 Hx0. unfold upd2. destruct (Nat.eqb_spec y0 y) as [->|Hne]; cbn [andb].
      + rewrite upd1_eq in Hx0. destruct (Nat.eqb_spec x0 x) as [->|Hnx]; [now rewrite Hr|].
        apply (i_out n s HI). lia.
      + rewrite upd1_neq in Hx0 by exact Hne. apply (i_out n s HI). exact Hx0.
    - intros y0. pose proof (i_chain n s HI y0) as Hc.
      destruct (Nat.eq_dec (S y0) y) as [He|Hne1].
      + (* the stepping row is the lower one of the pair *)
        rewrite <- He in *. rewrite upd1_eq. rewrite upd1_neq by lia.
        destruct Hgd as [Hgd|[_ Hgd]]; [lia|]. replace (S y0 - 1) with y0 in Hgd by lia.
        pose proof (i_done_le n s HI y0). unfold ConcRowSync.needed in Hgd. lia.
      + rewrite (upd1_neq _ _ _ (S y0)) by exact Hne1.
        destruct (Nat.eq_dec y0 y) as [->|Hne2].
        * rewrite upd1_eq. lia.
        * rewrite upd1_neq by exact Hne2. exact Hc.
    - intros x0 Hx0. destruct (Nat.eq_dec y 0) as [->|Hy0].
      + rewrite upd1_eq in Hx0. rewrite upd1_neq by lia. apply (i_top0 n s HI). lia.
      + rewrite upd1_neq in Hx0 by lia.
        destruct Hgd as [Hgd|[_ Hgd]]; [lia|].
        pose proof (Hmono 0 (y - 1) ltac:(lia)).
        rewrite upd1_neq by lia. apply (i_top0 n s HI). exact Hx0.
    - intros y0 x0 Hlt Hle.
      destruct (Nat.eq_dec x0 x) as [->|Hnx].
      + rewrite upd1_eq. destruct (Nat.eq_dec y0 y) as [->|Hny]; [now rewrite Hr|]. exfalso.
        destruct (Nat.lt_ge_cases y0 y) as [Hlt'|Hge'].
        * destruct (Nat.eq_dec (S y0) y) as [He|Hne].
          -- rewrite He, upd1_eq in Hle. lia.
          -- rewrite upd1_neq in Hle by exact Hne.
             destruct Hgd as [Hgd|[_ Hgd]]; [lia|].
             pose proof (Hmono (S y0) (y - 1) ltac:(lia)). lia.
        * rewrite upd1_neq in Hlt by exact Hny.
          pose proof (Hmono y y0 ltac:(lia)). lia.
      + rewrite upd1_neq by exact Hnx. apply (i_top n s HI).
        * destruct (Nat.eq_dec y0 y) as [->|Hny]; [rewrite upd1_eq in Hlt; lia|].
          rewrite upd1_neq in Hlt by exact Hny. exact Hlt.
        * destruct (Nat.eq_dec (S y0) y) as [He|Hne]; [rewrite He in *; rewrite upd1_eq in Hle; lia|].
          rewrite upd1_neq in Hle by exact Hne. exact Hle.
    - intros j y1 x1 tl1 l1 Hj. destruct (Nat.eq_dec i j) as [<-|Hne].
      + rewrite set_nth_eq in Hj by exact Hil.
        destruct (S x <? mbW) eqn:E; [|discriminate]. apply Nat.ltb_lt in E.
        inversion Hj; subst y1 x1 tl1 l1. rewrite upd1_eq. cbn [Nat.eqb].
        replace (S x - 1) with x by lia. repeat split; auto; lia.
      + rewrite set_nth_neq in Hj by exact Hne.
        destruct (i_worker n s HI j y1 x1 tl1 l1 Hj) as (H1 & H2 & H3 & H4 & H5).
        assert (y1 <> y).
        { intros ->. apply Hne. exact (i_unique n s HI i j y x x1 tl tl1 l l1 Hw Hj). }
        rewrite upd1_neq by assumption. repeat split; auto.
    - intros y0 Hy0. destruct (Nat.eq_dec y0 y) as [->|Hny].
      + rewrite upd1_eq. destruct (S x <? mbW) eqn:E.
        * right. exists i, t, r. rewrite set_nth_eq by exact Hil. reflexivity.
        * left. apply Nat.ltb_ge in E. lia.
      + rewrite upd1_neq by exact Hny.
        destruct (i_owner n s HI y0 Hy0) as [Hd0|(j & tl0 & l0 & Hj)]; [now left|].
        right. exists j, tl0, l0. rewrite set_nth_neq; [exact Hj|]. intros ->.
        rewrite Hw in Hj. inversion Hj. congruence.
    - intros j k y1 x1 x1' tl1 tl1' l1 l1' Hj Hk.
      assert (Hother : forall m y2 x2 tl2 l2, m <> i ->
                nth_error (workers V s) m = Some (AtMB y2 x2 tl2 l2) -> y2 <> y).
      { intros m y2 x2 tl2 l2 Hm Hnm ->. apply Hm. symmetry.
        exact (i_unique n s HI i m y x x2 tl tl2 l l2 Hw Hnm). }
      destruct (Nat.eq_dec i j) as [<-|Hnj]; destruct (Nat.eq_dec i k) as [<-|Hnk]; [reflexivity| | |].
      + rewrite set_nth_eq in Hj by exact Hil. rewrite set_nth_neq in Hk by exact Hnk.
        destruct (S x <? mbW); [|discriminate]. inversion Hj; subst.
        exfalso. exact (Hother k _ _ _ _ ltac:(congruence) Hk eq_refl).
      + rewrite set_nth_eq in Hk by exact Hil. rewrite set_nth_neq in Hj by exact Hnj.
        destruct (S x <? mbW); [|discriminate]. inversion Hk; subst.
        exfalso. exact (Hother j _ _ _ _ ltac:(congruence) Hj eq_refl).
      + rewrite set_nth_neq in Hj by exact Hnj. rewrite set_nth_neq in Hk by exact Hnk.
        exact (i_unique n s HI j k y1 x1 x1' tl1 tl1' l1 l1' Hj Hk).
    - intros j Hj. destruct (Nat.eq_dec i j) as [<-|Hne].
      + rewrite set_nth_eq in Hj by exact Hil. destruct (S x <? mbW); discriminate.
      + rewrite set_nth_neq in Hj by exact Hne. exact (i_exited n s HI j Hj).
    - apply (i_rec_le n s HI).
    - intros y0 Hy0. pose proof (i_rec_done n s HI y0 Hy0) as Hd0.
      destruct (Nat.eq_dec y0 y) as [->|Hny]; [lia|]. rewrite upd1_neq by exact Hny. exact Hd0.
    - apply (i_tokens n s HI).
  Qed.

  Lemma spec_tokens_S k : spec_tokens (S k) = spec_tokens k ++ map (P (S k)) (seq 0 mbW).
  Proof.
    unfold spec_tokens. rewrite seq_S, flat_map_app. cbn [flat_map plus]. now rewrite app_nil_r.
  Qed.

  Lemma step_rec_inv n s s' : Inv n s -> step_rec s = Some s' -> Inv n s'.
  Proof.
    intros HI Hs. unfold ConcRowSync.step_rec in Hs.
    destruct ((recRow V s <? mbH) && (done V s (recRow V s) =? mbW)) eqn:E; [|discriminate].
    apply andb_true_iff in E. destruct E as [E1 E2]. apply Nat.ltb_lt in E1. apply Nat.eqb_eq in E2.
    inversion Hs; subst s'; clear Hs.
    constructor; cbn [nextRow workers done top out recRow tokens];
      try (first [apply (i_len n s HI) | apply (i_next n s HI) | apply (i_done_le n s HI)
                 | apply (i_done_unstarted n s HI) | apply (i_out n s HI) | apply (i_chain n s HI)
                 | apply (i_top0 n s HI) | apply (i_top n s HI) | apply (i_worker n s HI)
                 | apply (i_owner n s HI) | apply (i_unique n s HI) | apply (i_exited n s HI)]).
    - lia.
    - intros y Hy. destruct (Nat.eq_dec y (recRow V s)) as [->|Hne]; [exact E2|].
      apply (i_rec_done n s HI). lia.
    - rewrite spec_tokens_S, (i_tokens n s HI). f_equal. apply map_ext_in. intros x Hx.
      apply in_seq in Hx. unfold out_or_v0. rewrite (i_out n s HI) by lia. reflexivity.
  Qed.

  Lemma step_inv n s l s' : Inv n s -> step s l = Some s' -> Inv n s'.
  Proof.
    intros HI Hs. destruct l as [i|]; cbn [ConcRowSync.step] in Hs; [|exact (step_rec_inv n s s' HI Hs)].
    unfold ConcRowSync.step_worker in Hs.
    destruct (nth_error (workers V s) i) as [[|y x tl l|]|] eqn:Hw; try discriminate.
    - destruct (nextRow V s <? mbH) eqn:E; inversion Hs; subst s'.
      + apply Nat.ltb_lt in E. exact (step_claim_inv n s i HI Hw E).
      + apply Nat.ltb_ge in E. apply (step_exit_inv n s i HI Hw). lia.
    - destruct (guard s y x) eqn:Hg; [|discriminate]. inversion Hs; subst s'.
      exact (step_mb_inv n s i y x tl l HI Hw Hg).
  Qed.

  (** Reachability = existence of a schedule. *)
  Theorem rowsync_inv : forall n sched s, run (init n) sched = Some s -> Inv n s.
  Proof.
    intros n sched. assert (G : forall s0, Inv n s0 -> forall s, run s0 sched = Some s -> Inv n s).
    { induction sched as [|l rest IH]; intros s0 H0 s Hr; cbn [ConcRowSync.run] in Hr.
      - inversion Hr; subst; exact H0.
      - destruct (step s0 l) as [s1|] eqn:Hs; [|discriminate].
        exact (IH s1 (step_inv n s0 l s1 H0 Hs) s Hr). }
    intros s Hr. exact (G (init n) (init_inv n) s Hr).
  Qed.

  (** The headline form of the invariant. *)
  Theorem rowsync_inv_pipeline : forall n sched s, run (init n) sched = Some s ->
    (forall y, done V s (S y) = 0 \/ done V s (S y) < done V s y \/ done V s y = mbW) /\
    (forall y x, x < done V s y -> done V s (S y) <= x -> top V s x = (Some y, P (S y) x)) /\
    (forall x, done V s 0 <= x -> top V s x = (None, v0)) /\
    (forall i j y x x' tl tl' l l',
        nth_error (workers V s) i = Some (AtMB y x tl l) ->
        nth_error (workers V s) j = Some (AtMB y x' tl' l') -> i = j).
  Proof.
    intros n sched s Hr. pose proof (rowsync_inv n sched s Hr) as HI.
    repeat split; [apply (i_chain n s HI)|apply (i_top n s HI)|apply (i_top0 n s HI)|apply (i_unique n s HI)].
  Qed.

  (** Whenever a worker at MB (x,y) is enabled, the cells it reads hold row y-1's
      values (writer tag y-1, or the initial fill for row 0), i.e. what the serial
      order has there. *)
  Theorem rowsync_reads_serial : forall n sched s i y x tl l,
    run (init n) sched = Some s ->
    nth_error (workers V s) i = Some (AtMB y x tl l) -> guard s y x = true ->
    top V s x = ((if y =? 0 then None else Some (y - 1)), P y x) /\
    (S x < mbW -> top V s (S x) = ((if y =? 0 then None else Some (y - 1)), P y (S x))) /\
    tl = (if x =? 0 then v0 else P y (x - 1)) /\
    l = (if x =? 0 then v0 else P (S y) (x - 1)).
  Proof.
    intros n sched s i y x tl l Hr Hw Hg. pose proof (rowsync_inv n sched s Hr) as HI.
    destruct (reads_serial n s i y x tl l HI Hw Hg) as [H1 H2].
    destruct (i_worker n s HI i y x tl l Hw) as (_ & _ & _ & H3 & H4). auto.
  Qed.

  (** ** Final states carry the serial result *)
  Lemma final_spec s : final s = true ->
    Forall (fun w => w = Exited) (workers V s) /\ recRow V s = mbH.
  Proof.
    unfold ConcRowSync.final. intros H. apply andb_true_iff in H. destruct H as [H1 H2].
    apply Nat.eqb_eq in H2. split; [|exact H2]. rewrite forallb_forall in H1.
    apply Forall_forall. intros w Hw. specialize (H1 w Hw). destruct w; cbn in H1; congruence.
  Qed.

  Theorem rowsync_deterministic : forall n sched s,
    run (init n) sched = Some s -> final s = true ->
    (forall y x, y < mbH -> x < mbW -> out V s y x = Some (serial_out V v0 f mbW y x)) /\
    tokens V s = serial_tokens V v0 f mbW mbH.
  Proof.
    intros n sched s Hr Hf. pose proof (rowsync_inv n sched s Hr) as HI.
    destruct (final_spec s Hf) as [Hall Hrec]. split.
    - intros y x Hy Hx. apply (i_out n s HI).
      rewrite (i_rec_done n s HI y) by lia. exact Hx.
    - rewrite (i_tokens n s HI), Hrec. reflexivity.
  Qed.

  (** Two maximal runs — any worker counts, any schedules — agree; in particular
      every run agrees with the one-worker (serial row-major) run. *)
  Corollary rowsync_schedule_independent : forall n1 n2 sched1 sched2 s1 s2,
    run (init n1) sched1 = Some s1 -> final s1 = true ->
    run (init n2) sched2 = Some s2 -> final s2 = true ->
    (forall y x, y < mbH -> x < mbW -> out V s1 y x = out V s2 y x) /\ tokens V s1 = tokens V s2.
  Proof.
    intros n1 n2 sc1 sc2 s1 s2 H1 F1 H2 F2.
    destruct (rowsync_deterministic n1 sc1 s1 H1 F1) as [A1 B1].
    destruct (rowsync_deterministic n2 sc2 s2 H2 F2) as [A2 B2].
    split; [intros y x Hy Hx; rewrite A1, A2 by assumption; reflexivity|congruence].
  Qed.

  (** ** Deadlock freedom *)
  Lemma worker_cases (ws : list (wstate V)) :
    (exists i, nth_error ws i = Some Idle) \/
    (exists i y x tl l, nth_error ws i = Some (AtMB y x tl l)) \/
    Forall (fun w => w = Exited) ws.
  Proof.
    induction ws as [|w ws IH]; [right; right; constructor|].
    destruct w as [|y x tl l|].
    - left. exists 0. reflexivity.
    - right. left. exists 0, y, x, tl, l. reflexivity.
    - destruct IH as [(i & Hi)|[(i & y & x & tl & l & Hi)|Hall]].
      + left. exists (S i). exact Hi.
      + right. left. exists (S i), y, x, tl, l. exact Hi.
      + right. right. constructor; [reflexivity|exact Hall].
  Qed.

  Lemma some_mb_enabled n s : Inv n s ->
    forall y i x tl l, nth_error (workers V s) i = Some (AtMB y x tl l) ->
    exists j, step s (LW j) <> None.
  Proof.
    intros HI. induction y as [y IH] using lt_wf_ind. intros i x tl l Hw.
    destruct (guard s y x) eqn:Hg.
    - exists i. cbn [ConcRowSync.step]. unfold ConcRowSync.step_worker. rewrite Hw, Hg. discriminate.
    - unfold ConcRowSync.guard in Hg. apply orb_false_iff in Hg. destruct Hg as [Hy0 Hnd].
      apply Nat.eqb_neq in Hy0. apply Nat.leb_gt in Hnd.
      destruct (i_worker n s HI i y x tl l Hw) as (Hy & _).
      pose proof (needed_le x).
      destruct (i_owner n s HI (y - 1) ltac:(lia)) as [Hd|(j & tl' & l' & Hj)]; [lia|].
      exact (IH (y - 1) ltac:(lia) j _ tl' l' Hj).
  Qed.

  Theorem rowsync_deadlock_free : forall n sched s, 1 <= n ->
    run (init n) sched = Some s -> final s = false -> exists l, step s l <> None.
  Proof.
    intros n sched s Hn Hr Hnf. pose proof (rowsync_inv n sched s Hr) as HI.
    destruct (worker_cases (workers V s)) as [(i & Hi)|[(i & y & x & tl & l & Hi)|Hall]].
    - exists (LW i). cbn [ConcRowSync.step]. unfold ConcRowSync.step_worker. rewrite Hi.
      destruct (nextRow V s <? mbH); discriminate.
    - destruct (some_mb_enabled n s HI y i x tl l Hi) as (j & Hj). exists (LW j). exact Hj.
    - (* all workers have exited: every row is complete, the recorder can move *)
      assert (Hnext : nextRow V s = mbH).
      { destruct (workers V s) as [|w ws] eqn:Ew.
        - pose proof (i_len n s HI) as Hl. rewrite Ew in Hl. cbn in Hl. lia.
        - apply (i_exited n s HI 0). rewrite Ew. cbn. inversion Hall; subst. reflexivity. }
      assert (Hrec : recRow V s < mbH).
      { unfold ConcRowSync.final in Hnf. apply andb_false_iff in Hnf. destruct Hnf as [Hnf|Hnf].
        - exfalso. rewrite <- not_true_iff_false in Hnf. apply Hnf. apply forallb_forall.
          intros w Hw. rewrite Forall_forall in Hall. rewrite (Hall w Hw). reflexivity.
        - apply Nat.eqb_neq in Hnf. pose proof (i_rec_le n s HI). lia. }
      exists LRec. cbn [ConcRowSync.step]. unfold ConcRowSync.step_rec.
      destruct (i_owner n s HI (recRow V s) ltac:(lia)) as [Hd|(j & tl & l & Hj)].
      + rewrite Hd, Nat.eqb_refl. apply Nat.ltb_lt in Hrec. rewrite Hrec. discriminate.
      + exfalso. rewrite Forall_forall in Hall. apply nth_error_In in Hj.
        specialize (Hall _ Hj). discriminate.
  Qed.

  (** Every maximal run (a run that cannot be extended) is final, hence serial. *)
  Corollary rowsync_maximal_runs_serial : forall n sched s, 1 <= n ->
    run (init n) sched = Some s -> (forall l, step s l = None) ->
    (forall y x, y < mbH -> x < mbW -> out V s y x = Some (serial_out V v0 f mbW y x)) /\
    tokens V s = serial_tokens V v0 f mbW mbH.
  Proof.
    intros n sched s Hn Hr Hstuck. destruct (final s) eqn:Hf.
    - exact (rowsync_deterministic n sched s Hr Hf).
    - destruct (rowsync_deadlock_free n sched s Hn Hr Hf) as (l & Hl). exfalso. exact (Hl (Hstuck l)).
  Qed.

  (** The recorder (Phase B) only ever records completed rows, in row order. *)
  Theorem recorder_order : forall n sched s s', run (init n) sched = Some s ->
    step s LRec = Some s' ->
    done V s (recRow V s) = mbW /\ recRow V s' = S (recRow V s) /\
    tokens V s' = tokens V s ++ map (serial_out V v0 f mbW (recRow V s)) (seq 0 mbW).
  Proof.
    intros n sched s s' Hr Hs. pose proof (rowsync_inv n sched s Hr) as HI.
    cbn [ConcRowSync.step] in Hs. unfold ConcRowSync.step_rec in Hs.
    destruct ((recRow V s <? mbH) && (done V s (recRow V s) =? mbW)) eqn:E; [|discriminate].
    apply andb_true_iff in E. destruct E as [E1 E2]. apply Nat.eqb_eq in E2.
    inversion Hs; subst s'; cbn [recRow tokens]. repeat split; [exact E2|].
    f_equal. apply map_ext_in. intros x Hx. apply in_seq in Hx.
    unfold out_or_v0. rewrite (i_out n s HI) by lia. reflexivity.
  Qed.

  (** ** No conflicting accesses: two macroblock steps that are enabled in the same
      reachable state touch disjoint cells of the shared context row (a step of row
      y at x reads cells x, x+1 and writes cell x), so they commute — the model's
      form of "no data race on the top arrays", and what justifies taking one
      macroblock as one atomic step. *)
  Theorem rowsync_no_conflict : forall n sched s i j y x tl l y' x' tl' l',
    run (init n) sched = Some s -> i <> j ->
    nth_error (workers V s) i = Some (AtMB y x tl l) -> guard s y x = true ->
    nth_error (workers V s) j = Some (AtMB y' x' tl' l') -> guard s y' x' = true ->
    y <> y' /\ x' <> x /\ x' <> S x /\ x <> S x'.
  Proof.
    assert (Hlt : forall n s i j y x tl l y' x' tl' l', Inv n s -> y < y' ->
      nth_error (workers V s) i = Some (AtMB y x tl l) ->
      nth_error (workers V s) j = Some (AtMB y' x' tl' l') -> guard s y' x' = true ->
      x' + 2 <= x).
    { intros n s i j y x tl l y' x' tl' l' HI Hyy Hi Hj Hg'.
      destruct (i_worker n s HI i y x tl l Hi) as (_ & Hx & Hd & _).
      destruct (i_worker n s HI j y' x' tl' l' Hj) as (_ & Hx' & Hd' & _).
      unfold ConcRowSync.guard in Hg'. apply orb_true_iff in Hg'. destruct Hg' as [Hg'|Hg'].
      { apply Nat.eqb_eq in Hg'. lia. }
      apply Nat.leb_le in Hg'. unfold ConcRowSync.needed in Hg'.
      pose proof (done_mono n s HI) as Hmono.
      destruct (Nat.eq_dec y' (S y)) as [->|Hne].
      - replace (S y - 1) with y in Hg' by lia. lia.
      - pose proof (Hmono (S y) (y' - 1) ltac:(lia)) as H1.
        pose proof (i_chain n s HI y) as Hc. lia. }
    intros n sched s i j y x tl l y' x' tl' l' Hr Hij Hi Hg Hj Hg'.
    pose proof (rowsync_inv n sched s Hr) as HI.
    assert (Hyy : y <> y').
    { intros ->. apply Hij. exact (i_unique n s HI i j y' x x' tl tl' l l' Hi Hj). }
    split; [exact Hyy|].
    destruct (Nat.lt_ge_cases y y') as [Hl|Hge].
    - pose proof (Hlt n s i j y x tl l y' x' tl' l' HI Hl Hi Hj Hg'). lia.
    - pose proof (Hlt n s j i y' x' tl' l' y x tl l HI ltac:(lia) Hj Hi Hg). lia.
  Qed.

  (** ** Every schedule is finite: each step increases a bounded measure by one. *)
  Fixpoint sumf (g : nat -> nat) (k : nat) : nat :=
    match k with 0 => 0 | S k' => sumf g k' + g k' end.

  Lemma sumf_upd1_lt g y v k : y < k -> sumf (upd1 g y v) k + g y = sumf g k + v.
  Proof.
    induction k as [|k IH]; intros Hy; [lia|]. cbn [sumf].
    destruct (Nat.eq_dec y k) as [->|Hne].
    - rewrite upd1_eq.
      assert (E : sumf (upd1 g k v) k = sumf g k).
      { clear. assert (G : forall m, m <= k -> sumf (upd1 g k v) m = sumf g m).
        { induction m as [|m IHm]; intros Hm; [reflexivity|]. cbn [sumf].
          rewrite IHm by lia. rewrite upd1_neq by lia. reflexivity. }
        apply G. lia. }
      rewrite E. lia.
    - rewrite (upd1_neq g y v k) by lia. specialize (IH ltac:(lia)). lia.
  Qed.

  Lemma sumf_le g k b : (forall y, g y <= b) -> sumf g k <= k * b.
  Proof. intros H. induction k as [|k IH]; cbn [sumf]; [lia|]. specialize (H k). lia. Qed.

  Fixpoint nexited (ws : list (wstate V)) : nat :=
    match ws with [] => 0 | w :: tl => (if is_exited V w then 1 else 0) + nexited tl end.

  Lemma nexited_le ws : nexited ws <= length ws.
  Proof. induction ws as [|w ws IH]; cbn; [lia|]. destruct (is_exited V w); lia. Qed.

  Lemma nexited_set_nth ws i w w' : nth_error ws i = Some w ->
    nexited (set_nth ws i w') + (if is_exited V w then 1 else 0)
    = nexited ws + (if is_exited V w' then 1 else 0).
  Proof.
    revert i; induction ws as [|h tl IH]; intros [|i] H; cbn in *; try discriminate.
    - inversion H; subst. lia.
    - specialize (IH i H). lia.
  Qed.

  Definition measure (s : state) : nat :=
    sumf (done V s) mbH + nextRow V s + nexited (workers V s) + recRow V s.

  Lemma step_measure n s l s' : Inv n s -> step s l = Some s' -> measure s' = S (measure s).
  Proof.
    intros HI Hs. unfold measure. destruct l as [i|]; cbn [ConcRowSync.step] in Hs.
    - unfold ConcRowSync.step_worker in Hs.
      destruct (nth_error (workers V s) i) as [[|y x tl l|]|] eqn:Hw; try discriminate.
      + destruct (nextRow V s <? mbH); inversion Hs; subst; cbn [done nextRow workers recRow].
        * pose proof (nexited_set_nth (workers V s) i Idle (AtMB (nextRow V s) 0 v0 v0) Hw) as Hn.
          cbn in Hn. lia.
        * pose proof (nexited_set_nth (workers V s) i Idle Exited Hw) as Hn. cbn in Hn. lia.
      + destruct (guard s y x) eqn:Hg; [|discriminate]. inversion Hs; subst; cbn [done nextRow workers recRow].
        destruct (i_worker n s HI i y x tl l Hw) as (Hy & Hx & Hd & _).
        pose proof (i_next n s HI) as Hnx.
        pose proof (sumf_upd1_lt (done V s) y (S x) mbH ltac:(lia)) as Hsum.
        pose proof (nexited_set_nth (workers V s) i (AtMB y x tl l)
                      (if S x <? mbW then AtMB y (S x) (snd (top V s x))
                         (f y x tl (snd (top V s x)) (if S x <? mbW then snd (top V s (S x)) else v0) l)
                       else Idle) Hw) as Hn.
        assert (He : (if is_exited V (if S x <? mbW then AtMB y (S x) (snd (top V s x))
                         (f y x tl (snd (top V s x)) (if S x <? mbW then snd (top V s (S x)) else v0) l)
                       else Idle) then 1 else 0) = 0) by (destruct (S x <? mbW); reflexivity).
        rewrite He in Hn. cbn [is_exited] in Hn. lia.
    - unfold ConcRowSync.step_rec in Hs.
      destruct ((recRow V s <? mbH) && (done V s (recRow V s) =? mbW)); inversion Hs; subst.
      cbn [done nextRow workers recRow]. lia.
  Qed.

  Theorem rowsync_terminates : forall n sched s,
    run (init n) sched = Some s -> length sched <= mbH * mbW + 2 * mbH + n.
  Proof.
    intros n sched.
    assert (G : forall s0, Inv n s0 -> forall s1, run s0 sched = Some s1 ->
                measure s1 = length sched + measure s0).
    { induction sched as [|l rest IH]; intros s0 H0 s1 Hr1; cbn [ConcRowSync.run] in Hr1.
      - inversion Hr1; subst. reflexivity.
      - destruct (step s0 l) as [s2|] eqn:Hs; [|discriminate].
        rewrite (IH s2 (step_inv n s0 l s2 H0 Hs) s1 Hr1).
        rewrite (step_measure n s0 l s2 H0 Hs). cbn [length]. lia. }
    intros s Hr.
    pose proof (G (init n) (init_inv n) s Hr) as Hm.
    pose proof (rowsync_inv n sched s Hr) as HI.
    assert (Hb : measure s <= mbH * mbW + mbH + n + mbH).
    { unfold measure. pose proof (sumf_le (done V s) mbH mbW (i_done_le n s HI)).
      pose proof (i_next n s HI). pose proof (i_rec_le n s HI).
      pose proof (nexited_le (workers V s)). rewrite (i_len n s HI) in H2. lia. }
    lia.
  Qed.

  (** ** Trace conformance: an accepted trace is a run of the system to a final state *)
  Notation check_event := (check_event V v0 f mbW mbH).
  Notation check_from := (check_from V v0 f mbW mbH).

  Lemma check_event_run s ph e s' ph' :
    check_event s ph e = Some (s', ph') -> run s (label_of e) = Some s'.
  Proof.
    destruct e as [i y|i y x|i yw nd|i y x|i y x|i y d|yw nd|y]; cbn [ConcRowSync.check_event label_of ConcRowSync.run ConcRowSync.step].
    - destruct (_ && _ && _); [|discriminate].
      destruct (step_worker s i) as [s1|]; [|discriminate]. intros H; inversion H; reflexivity.
    - destruct (_ && _); [|discriminate]. intros H; inversion H; reflexivity.
    - destruct (nth_error (workers V s) i) as [[|y x tl l|]|]; try discriminate.
      destruct (_ && _ && _ && _); [|discriminate]. intros H; inversion H; reflexivity.
    - destruct (_ && _ && _); [|discriminate]. intros H; inversion H; reflexivity.
    - destruct (_ && _); [|discriminate]. intros H; inversion H; reflexivity.
    - destruct (_ && _ && _); [|discriminate].
      destruct (step_worker s i) as [s1|]; [|discriminate]. intros H; inversion H; reflexivity.
    - destruct (_ && _ && _); [|discriminate]. intros H; inversion H; reflexivity.
    - destruct (y =? recRow V s); [|discriminate].
      destruct (step_rec s) as [s1|]; [|discriminate]. intros H; inversion H; reflexivity.
  Qed.

  Lemma run_app s l1 l2 s1 : run s l1 = Some s1 -> run s (l1 ++ l2) = run s1 l2.
  Proof.
    revert s. induction l1 as [|l l1 IH]; intros s H; cbn [ConcRowSync.run app] in *.
    - inversion H; reflexivity.
    - destruct (step s l) as [s2|]; [|discriminate]. exact (IH s2 H).
  Qed.

  Lemma check_from_sound evs : forall s ph k,
    check_from s ph evs k = None ->
    exists s', run s (flat_map label_of evs) = Some s' /\ final s' = true.
  Proof.
    induction evs as [|e evs IH]; intros s ph k H; cbn [ConcRowSync.check_from] in H.
    - destruct (final s) eqn:Hf; [|discriminate]. exists s. split; [reflexivity|exact Hf].
    - destruct (check_event s ph e) as [[s1 ph1]|] eqn:He; [|discriminate].
      destruct (IH s1 ph1 (S k) H) as (s' & Hr & Hf). exists s'. split; [|exact Hf].
      cbn [flat_map]. rewrite (run_app s (label_of e) _ s1 (check_event_run s ph e s1 ph1 He)). exact Hr.
  Qed.

  (** A trace accepted by the extracted checker is a maximal run of the L1 system,
      so everything above applies to the execution that produced it. *)
  Theorem check_trace_sound : forall n evs,
    check_trace V v0 f mbW mbH n evs = None ->
    exists s, run (init n) (flat_map label_of evs) = Some s /\ final s = true /\
      (forall y x, y < mbH -> x < mbW -> out V s y x = Some (serial_out V v0 f mbW y x)) /\
      tokens V s = serial_tokens V v0 f mbW mbH.
  Proof.
    intros n evs H. unfold ConcRowSync.check_trace in H.
    destruct (check_from_sound evs _ _ _ H) as (s & Hr & Hf). exists s.
    destruct (rowsync_deterministic n _ s Hr Hf) as [A B]. auto.
  Qed.

End Proofs.

(** The statements are not vacuous: a concrete interleaved run of 2 workers over a
    2x2 frame reaches a final state; the guard really blocks (row 1 cannot start
    before row 0 has finished 2 macroblocks); the checker accepts the corresponding
    event trace and rejects a trace in which the wait asked for x+1 instead of x+2. *)
Definition ex_f (y x tl t tr l : nat) : nat := 1 + y * 1000 + x * 100 + 7 * tl + 5 * t + 3 * tr + l.

Example run_example :
  exists s, run nat 0 ex_f 2 2 (init nat 0 2)
              [LW 0; LW 1; LW 0; LW 0; LW 1; LW 0; LW 1; LW 1; LRec; LRec] = Some s /\
            final nat 2 s = true /\ tokens nat s = serial_tokens nat 0 ex_f 2 2.
Proof. eexists. split; [vm_compute; reflexivity|split; vm_compute; reflexivity]. Qed.

Example guard_blocks :
  exists s, run nat 0 ex_f 2 2 (init nat 0 2) [LW 0; LW 1; LW 0] = Some s /\
            step nat 0 ex_f 2 2 s (LW 1) = None /\ step nat 0 ex_f 2 2 s (LW 0) <> None.
Proof. eexists. split; [vm_compute; reflexivity|split; vm_compute; [reflexivity|discriminate]]. Qed.

Definition ex_trace (nd : nat) : list event :=
  [EClaim 0 0; EClaim 1 1; EBegin 0 0 0; EBegin 1 1 0; EWait 1 0 nd; EStart 0 0 0; EExport 0 0 0;
   ESignal 0 0 1; EBegin 0 0 1; EStart 0 0 1; EExport 0 0 1; ESignal 0 0 2; EClaim 0 2;
   EStart 1 1 0; EExport 1 1 0; ESignal 1 1 1; ERecWait 0 2; ERecord 0;
   EBegin 1 1 1; EWait 1 0 2; EStart 1 1 1; EExport 1 1 1; ESignal 1 1 2; EClaim 1 3;
   ERecWait 1 2; ERecord 1].

Example trace_accepted : check_trace nat 0 ex_f 2 2 2 (ex_trace 2) = None.
Proof. vm_compute. reflexivity. Qed.
Example trace_rejected_wrong_needed : check_trace nat 0 ex_f 2 2 2 (ex_trace 1) = Some 4.
Proof. vm_compute. reflexivity. Qed.
