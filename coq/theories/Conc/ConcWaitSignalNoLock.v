(** C10, layer L2 — why [signal] takes and releases the row mutex before [Broadcast].
    The variant below is [ConcWaitSignal.step] with that pair removed
    (signal: done.Store(d); if waiters.Load() > 0 { cond.Broadcast() }).  It LOSES A
    WAKE-UP: a waiter that has checked [done < needed] under the mutex and is about to call
    cond.Wait (still holding the mutex) can be overtaken by the whole signal — store, load
    (waiters = 1), Broadcast to an empty wait-set — and then goes to sleep for ever.  With the
    Lock/Unlock pair the signaller blocks on the mutex until the waiter is inside Wait
    ([C10_no_lost_wakeup]).

    Also: the sequences of synchronisation operations of waitFor / signal and the order of
    the two calls in encodeRow's macroblock loop that the L2 model has transitions for;
    compared with the regenerated sequences (Gen/RowSyncSrc.v) by Properties/C10.v. *)
From Coq Require Import List Arith Lia Bool String.
From Webp Require Import Conc.ConcWaitSignal.
Import ListNotations.

Section NoLock.
  Variable mbW : nat.

  Definition step_sig_nolock (s : st) : option st :=
    match sig s with
    | SLoad d => Some (mkSt (done s) (nwait s) (mu s) (if 0 <? nwait s then SBcast d else next_sig mbW d) (ws s))
    | SLock _ | SUnlock _ => None                      (* not part of this variant *)
    | _ => step_sig mbW s
    end.

  Definition step_nolock (s : st) (l : label) : option st :=
    match l with LS => step_sig_nolock s | LWt j => step_w s j end.

  Fixpoint run_nolock (s : st) (sched : list label) : option st :=
    match sched with
    | [] => Some s
    | l :: rest => match step_nolock s l with Some s' => run_nolock s' rest | None => None end
    end.
End NoLock.

(** Full statement for the variant: a sleeper whose condition holds always has a Broadcast
    pending.  FALSE: one row of width 1, one waiter calling waitFor(1). *)
Definition nolock_no_lost_wakeup : Prop :=
  forall mbW calls sched s j w nd,
    run_nolock mbW (init mbW calls) sched = Some s -> nth_error (ws s) j = Some w ->
    pc w = WSleep nd -> nd <= done s ->
    match sig s with SLoad _ | SBcast _ => True | _ => False end.

Definition lost_wakeup_schedule : list label :=
  [LWt 0; LWt 0; LWt 0; LWt 0; LWt 0;   (* call; fast check fails; waiters++; Lock; check: done 0 < 1 *)
   LS; LS; LS;                          (* done.Store(1); waiters.Load() = 1; Broadcast to nobody *)
   LWt 0].                              (* cond.Wait: asleep for ever *)

Theorem nolock_lost_wakeup_refuted : ~ nolock_no_lost_wakeup.
Proof.
  intros H.
  specialize (H 1 [[1]] lost_wakeup_schedule
                (mkSt 1 1 None SDone [mkW (WSleep 1) []]) 0 (mkW (WSleep 1) []) 1).
  cbn in H. apply H; auto.
Qed.

(** ... and the state reached is a deadlock: nobody can move, the waiter never returns. *)
Theorem nolock_deadlock_witness :
  exists s, run_nolock 1 (init 1 [[1]]) lost_wakeup_schedule = Some s /\
            finished s = false /\ forall l, step_nolock 1 s l = None.
Proof.
  eexists. split; [vm_compute; reflexivity|]. split; [reflexivity|].
  intros [|j]; [reflexivity|]. destruct j as [|j]; [reflexivity|]. cbn. destruct j; reflexivity.
Qed.

(** The same schedule in the real protocol is harmless: the signaller cannot pass its Lock
    while the waiter holds the mutex. *)
Example with_lock_signaller_blocks :
  exists s, run 1 (init 1 [[1]]) [LWt 0; LWt 0; LWt 0; LWt 0; LWt 0; LS; LS] = Some s /\
            sig s = SLock 1 /\ step 1 s LS = None /\ step 1 s (LWt 0) <> None.
Proof.
  eexists. split; [vm_compute; reflexivity|]. split; [reflexivity|]. split; [vm_compute; reflexivity|vm_compute; discriminate].
Qed.

(** ** the synchronisation-operation sequences the L2 model has one transition for

    What is compared with the source is NOT its text but the sequence of operations on the
    row's done / waiters / mu / cond, with the block structure and comparison operator around
    them (tools/gosrc2v/rowsyncsrc.go); local names, hook lines, logging and any statement
    that performs no such operation do not appear.  Each element below is one phase of
    [ConcWaitSignal]: WFast (load, >=, return), WInc, WLock, WChk (load, <) / WSleep (Wait),
    WUnl, WDec; SStore, SLoad (load, >), SLock, SUnlock, SBcast. *)
Open Scope string_scope.
Definition modelled_waitFor_ops : list string :=
  ["if["; "done.Load"; ">="; "]{"; "return"; "}";
   "waiters.Add(1)";
   "mu.Lock";
   "for["; "done.Load"; "<"; "]{"; "cond.Wait"; "}";
   "mu.Unlock";
   "waiters.Add(-1)"].
Definition modelled_signal_ops : list string :=
  ["done.Store";
   "if["; "waiters.Load"; ">"; "]{"; "mu.Lock"; "mu.Unlock"; "cond.Broadcast"; "}"].
(** the variant refuted above, for reference: the same with the pair removed *)
Definition nolock_signal_ops : list string :=
  ["done.Store"; "if["; "waiters.Load"; ">"; "]{"; "cond.Broadcast"; "}"].
(** encodeRow's macroblock loop waits before it signals, once each per macroblock *)
Definition modelled_encodeRow_sync_calls : list string := ["waitFor"; "signal"].
