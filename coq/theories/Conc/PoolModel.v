(** C11 — pooled objects: field classes, the reset-completeness check, and an
    abstract model of [sync.Pool] reuse in which a call's result is proved
    independent of everything that happened before.

    Objects are maps from field names (the struct's field names, regenerated from
    the Go source into [WebpGen.Fields]) to abstract values.  The code's
    reset-on-reuse discipline is the list of fields it writes on the acquire path
    (also regenerated).  The classification of the fields (hand-written, in
    [PoolFieldClass]) says what each field is *for*:

      Config    assigned from the call's arguments on every acquire
      State     must be re-initialised on reuse (read before written otherwise)
      Scratch   buffer whose contents are never read before being written within
                a call; only its (re-sliced) length may be observed
      External  reference to caller-owned data that must not survive release
      ConstZero allocated once (zero-filled by the allocator) and then only read:
                no function assigns, clears, re-slices or stores into it on the
                acquire path, in the call body or on release, so every object -
                fresh or pooled - holds the same (zero) value

    [reset_complete_b] is the finite check "every field classified, every Config
    and State field written on the acquire path, every External field cleared on
    release"; [history_independent] derives, from that check and the frame
    condition on [run] (a Section hypothesis — trusted, probed by the harness),
    that the output of the last call of any history under any pool behaviour
    equals its output in a fresh process. *)
From Coq Require Import String List Bool Arith Lia.
Import ListNotations.
Open Scope string_scope.
Open Scope list_scope.

Inductive fclass := Config | State | Scratch | External | ConstZero.

Definition fclass_eqb (a b : fclass) : bool :=
  match a, b with
  | Config, Config | State, State | Scratch, Scratch | External, External | ConstZero, ConstZero => true
  | _, _ => false
  end.

Fixpoint mem (s : string) (l : list string) : bool :=
  match l with
  | [] => false
  | x :: r => if String.eqb s x then true else mem s r
  end.

Lemma mem_In s l : mem s l = true <-> In s l.
Proof.
  induction l as [|x r IH]; cbn; [split; [discriminate|tauto]|].
  destruct (String.eqb s x) eqn:E.
  - apply String.eqb_eq in E; subst; tauto.
  - apply String.eqb_neq in E. rewrite IH. split; [tauto|]. intros [H|H]; [congruence|tauto].
Qed.

Fixpoint lookup (s : string) (t : list (string * fclass)) : option fclass :=
  match t with
  | [] => None
  | (k, c) :: r => if String.eqb s k then Some c else lookup s r
  end.

(** Kinds of write the translator distinguishes; the strong ones re-initialise
    the whole field on every path through the analysed block. *)
Definition strong_kind (k : string) : bool :=
  mem k ["set"; "clear"; "fill"; "copy"].

(** A field handed to a callee ([F(&x.f)], [F(x.f[:])], [x.f.M()], kind "call") counts
    as re-initialised only when the callee is one of the reset functions the model
    names for that field ([allow]: field, callee as printed in the regenerated call
    list) - a callee that merely reads the field (ParseQuant(&segHdr)) does not. *)
Definition delegated (w : list (string * string)) (calls : list string) (allow : list (string * string)) : list string :=
  map fst (filter (fun p => String.eqb (snd p) "call"
                            && existsb (fun a => String.eqb (fst a) (fst p) && mem (snd a) calls) allow) w).

Definition strongly_written (w : list (string * string)) : list string :=
  map fst (filter (fun p => strong_kind (snd p)) w).

Definition written (w : list (string * string)) : list string := map fst w.

Fixpoint nodupb (l : list string) : bool :=
  match l with
  | [] => true
  | x :: r => negb (mem x r) && nodupb r
  end.

(** The complete finite check.
    [fields]   the struct's fields (regenerated)
    [cls]      the classification table (hand-written)
    [assigned] fields strongly written on the acquire path: reset function(s),
               init functions on the reuse path, gate-equal fields (regenerated)
    [released] fields strongly written by the release function (regenerated) *)
Definition field_ok (cls : list (string * fclass)) (assigned released : list string) (f : string) : bool :=
  match lookup f cls with
  | None => false
  | Some Config => mem f assigned
  | Some State => mem f assigned
  | Some Scratch => true
  | Some External => mem f released || mem f assigned
  | Some ConstZero => negb (mem f assigned) && negb (mem f released)
  end.

Definition reset_complete_b (fields : list string) (cls : list (string * fclass))
           (assigned released : list string) : bool :=
  forallb (field_ok cls assigned released) fields
  && forallb (fun p => mem (fst p) fields) cls      (* no classification line for a vanished field *)
  && nodupb (map fst cls).

Definition fields_of_class (c : fclass) (cls : list (string * fclass)) : list string :=
  map fst (filter (fun p => fclass_eqb (snd p) c) cls).

Lemma reset_complete_field fields cls assigned released f :
  reset_complete_b fields cls assigned released = true ->
  In f fields -> field_ok cls assigned released f = true.
Proof.
  unfold reset_complete_b. intros H Hin.
  apply andb_prop in H as [H _]. apply andb_prop in H as [H _].
  rewrite forallb_forall in H. now apply H.
Qed.

(* ------------------------------------------------------------------ *)
(** * Abstract pool model *)

Section Pool.
  (** arguments of a call, its observable result, field values *)
  Variables (Args Out Val : Type).
  (** what a call with arguments [a] can observe of a scratch buffer's shape
      (its re-sliced length); contents are not observable (frame condition) *)
  Variable Shape : Type.
  Variable shape : Args -> Val -> Shape.

  Definition obj := string -> Val.

  (** the pooled type: fields, classes, and what the code writes (regenerated lists) *)
  Variable fields : list string.
  Variable cls : list (string * fclass).
  Variable assigned released : list string.

  (** [init a f]: the value field [f] has once the acquire path has run for
      arguments [a] on a *fresh* object; the reset path is assumed to write the
      same value into the fields it writes (trusted: the differential run probes it) *)
  Variable init : Args -> string -> Val.
  (** value written into External fields on release (nil) *)
  Variable nilv : Val.
  (** the value every ConstZero field holds from allocation on *)
  Variable zerov : Val.

  Definition fresh (a : Args) : obj := init a.

  (** reuse of pooled object [o] for a call with arguments [a]: exactly the
      fields in [assigned] are rewritten, everything else is kept *)
  Definition reuse (a : Args) (o : obj) : obj :=
    fun f => if mem f assigned then init a f else o f.

  Definition release (o : obj) : obj :=
    fun f => if mem f released then nilv else o f.

  (** the reuse gate (e.g. mbW/mbH equality for the lossy encoder): when it fails
      the pooled object is discarded and a fresh one allocated *)
  Variable gate : Args -> obj -> bool.

  Definition acquire (a : Args) (got : option obj) : obj :=
    match got with
    | Some o => if gate a o then reuse a o else fresh a
    | None => fresh a
    end.

  (** the body of a call: result and the object as the call leaves it *)
  Variable run : Args -> obj -> Out * obj.

  Definition class_is (c : fclass) (f : string) : Prop := lookup f cls = Some c.

  (** Frame condition (trusted): the result depends on the object only through
      its Config, State and ConstZero fields and the observable shape of Scratch fields —
      never on Scratch contents, External references left by earlier calls, or
      fields outside the struct. *)
  Definition frame_condition : Prop :=
    forall a o o',
      (forall f, In f fields -> class_is Config f \/ class_is State f \/ class_is ConstZero f -> o f = o' f) ->
      (forall f, In f fields -> class_is Scratch f -> shape a (o f) = shape a (o' f)) ->
      fst (run a o) = fst (run a o').

  (** Dimension gate (trusted per type, tied syntactically by the
      [dimension_gate_*] lemmas): a pooled object that passes the gate presents,
      after the acquire path's re-slice/re-make, the same observable buffer shapes
      as a fresh object. *)
  Definition dimension_gate_condition : Prop :=
    forall a o f, gate a o = true -> In f fields -> class_is Scratch f ->
                  shape a (reuse a o f) = shape a (fresh a f).

  (** ** pools as multisets with nondeterministic Get *)

  (** One step of pool behaviour chosen by an adversary: which pooled objects the
      runtime drops before the call, which object (if any) [Get] returns, and
      whether the released object is kept. *)
  Record behaviour := { drops : list nat; pick : option nat; keep : bool }.

  Fixpoint remove_nth {A} (n : nat) (l : list A) : list A :=
    match l, n with
    | [], _ => []
    | _ :: r, O => r
    | x :: r, S m => x :: remove_nth m r
    end.

  Definition apply_drops (ds : list nat) (p : list obj) : list obj :=
    fold_left (fun q d => remove_nth d q) ds p.

  Definition get (pk : option nat) (p : list obj) : option obj * list obj :=
    match pk with
    | None => (None, p)
    | Some i => match nth_error p i with
                | Some o => (Some o, remove_nth i p)
                | None => (None, p)
                end
    end.

  Definition step (p : list obj) (c : Args * behaviour) : Out * list obj :=
    let '(a, b) := c in
    let p1 := apply_drops (drops b) p in
    let '(got, p2) := get (pick b) p1 in
    let '(out, o') := run a (acquire a got) in
    (out, if keep b then release o' :: p2 else p2).

  Fixpoint run_history (p : list obj) (h : list (Args * behaviour)) : list Out * list obj :=
    match h with
    | [] => ([], p)
    | c :: r => let '(out, p') := step p c in
                let '(outs, p'') := run_history p' r in
                (out :: outs, p'')
    end.

  Definition out_of_last (r : list Out * list obj) : option Out := last (map Some (fst r)) None.

  (** ** results *)

  Hypothesis Hcomplete : reset_complete_b fields cls assigned released = true.
  Hypothesis Hframe : frame_condition.
  Hypothesis Hdim : dimension_gate_condition.

  (** ConstZero fields: a fresh object holds [zerov] there, and the call body never
      writes them (trusted; tied syntactically by the regenerated access lists, see
      [constzero_fields_never_written] in PoolProofs). *)
  Definition czero_inv (o : obj) : Prop :=
    forall f, In f fields -> class_is ConstZero f -> o f = zerov.
  Hypothesis Hcz_init : forall a, czero_inv (fresh a).
  Hypothesis Hcz_run : forall a o, czero_inv o -> czero_inv (snd (run a o)).

  Lemma constzero_untouched f :
    In f fields -> class_is ConstZero f -> mem f assigned = false /\ mem f released = false.
  Proof.
    intros Hin Hc.
    pose proof (reset_complete_field _ _ _ _ f Hcomplete Hin) as Hok.
    unfold field_ok in Hok. unfold class_is in Hc. rewrite Hc in Hok.
    apply andb_prop in Hok as [H1 H2].
    split; [now apply negb_true_iff in H1 | now apply negb_true_iff in H2].
  Qed.

  Lemma reuse_inv a o : czero_inv o -> czero_inv (reuse a o).
  Proof.
    intros Ho f Hin Hc. unfold reuse.
    destruct (constzero_untouched f Hin Hc) as [Ha _]. rewrite Ha. now apply Ho.
  Qed.

  Lemma release_inv o : czero_inv o -> czero_inv (release o).
  Proof.
    intros Ho f Hin Hc. unfold release.
    destruct (constzero_untouched f Hin Hc) as [_ Hr]. rewrite Hr. now apply Ho.
  Qed.

  Lemma acquire_inv a got :
    (forall o, got = Some o -> czero_inv o) -> czero_inv (acquire a got).
  Proof.
    intros Hg. destruct got as [o|]; cbn [acquire]; [|apply Hcz_init].
    destruct (gate a o); [apply reuse_inv; now apply Hg | apply Hcz_init].
  Qed.

  Lemma reuse_config_state a o f :
    In f fields -> class_is Config f \/ class_is State f -> reuse a o f = fresh a f.
  Proof.
    intros Hin Hc. unfold reuse, fresh.
    pose proof (reset_complete_field _ _ _ _ f Hcomplete Hin) as Hok.
    unfold field_ok in Hok. unfold class_is in Hc.
    destruct Hc as [Hc|Hc]; rewrite Hc in Hok; now rewrite Hok.
  Qed.

  (** the result of a call does not depend on which object the pool hands out *)
  Lemma acquire_out_independent a got :
    (forall o, got = Some o -> czero_inv o) ->
    fst (run a (acquire a got)) = fst (run a (fresh a)).
  Proof.
    intros Hg. destruct got as [o|]; cbn [acquire]; [|reflexivity].
    destruct (gate a o) eqn:Hgate; [|reflexivity].
    apply Hframe.
    - intros f Hin [Hc|[Hc|Hc]].
      + apply reuse_config_state; auto.
      + apply reuse_config_state; auto.
      + rewrite (reuse_inv a o (Hg o eq_refl) f Hin Hc). symmetry. now apply (Hcz_init a).
    - intros f Hin Hc. now apply Hdim.
  Qed.

  Definition pool_inv (p : list obj) : Prop := Forall czero_inv p.

  Lemma remove_nth_inv n p : pool_inv p -> pool_inv (remove_nth n p).
  Proof.
    revert n. induction p as [|x r IH]; intros n Hp; [destruct n; exact Hp|].
    inversion Hp as [|? ? Hx Hr]; subst.
    destruct n; cbn [remove_nth]; [exact Hr|]. constructor; [exact Hx|now apply IH].
  Qed.

  Lemma apply_drops_inv ds p : pool_inv p -> pool_inv (apply_drops ds p).
  Proof.
    unfold apply_drops. revert p. induction ds as [|d r IH]; intros p Hp; cbn [fold_left]; [exact Hp|].
    apply IH. now apply remove_nth_inv.
  Qed.

  Lemma get_inv pk p got p' :
    pool_inv p -> get pk p = (got, p') -> (forall o, got = Some o -> czero_inv o) /\ pool_inv p'.
  Proof.
    intros Hp Hg. unfold get in Hg. destruct pk as [i|].
    - destruct (nth_error p i) as [o|] eqn:Hn.
      + inversion Hg; subst. split.
        * intros o' Ho'. inversion Ho'; subst.
          unfold pool_inv in Hp. rewrite Forall_forall in Hp. apply Hp. eapply nth_error_In; eauto.
        * now apply remove_nth_inv.
      + inversion Hg; subst. split; [discriminate|exact Hp].
    - inversion Hg; subst. split; [discriminate|exact Hp].
  Qed.

  Lemma step_out p a b : pool_inv p -> fst (step p (a, b)) = fst (run a (fresh a)).
  Proof.
    intros Hp. unfold step.
    destruct (get (pick b) (apply_drops (drops b) p)) as [got p2] eqn:Hg.
    destruct (get_inv _ _ _ _ (apply_drops_inv (drops b) p Hp) Hg) as [Hgot _].
    pose proof (acquire_out_independent a got Hgot) as H.
    destruct (run a (acquire a got)) as [out o']. exact H.
  Qed.

  Lemma step_inv p c : pool_inv p -> pool_inv (snd (step p c)).
  Proof.
    intros Hp. destruct c as [a b]. unfold step.
    destruct (get (pick b) (apply_drops (drops b) p)) as [got p2] eqn:Hg.
    destruct (get_inv _ _ _ _ (apply_drops_inv (drops b) p Hp) Hg) as [Hgot Hp2].
    pose proof (Hcz_run a _ (acquire_inv a got Hgot)) as Hr.
    destruct (run a (acquire a got)) as [out o']. cbn [snd] in *.
    destruct (keep b); [|exact Hp2]. constructor; [now apply release_inv|exact Hp2].
  Qed.

  Lemma run_history_inv h p : pool_inv p -> pool_inv (snd (run_history p h)).
  Proof.
    revert p. induction h as [|c r IH]; intros p Hp; cbn [run_history]; [exact Hp|].
    pose proof (step_inv p c Hp) as Hs.
    destruct (step p c) as [out p']. cbn [snd] in Hs.
    specialize (IH p' Hs). destruct (run_history p' r) as [outs p'']. exact IH.
  Qed.

  Lemma run_history_app p h1 h2 :
    fst (run_history p (h1 ++ h2)) =
    fst (run_history p h1) ++ fst (run_history (snd (run_history p h1)) h2).
  Proof.
    revert p. induction h1 as [|c r IH]; intro p; cbn [run_history app fst snd]; [reflexivity|].
    destruct (step p c) as [out p'].
    specialize (IH p').
    destruct (run_history p' (r ++ h2)) as [outs p''].
    destruct (run_history p' r) as [outs1 p1]. cbn [fst snd] in *.
    now rewrite IH.
  Qed.

  Lemma last_map_app {A} (l : list A) x d : last (map Some (l ++ [x])) d = Some x.
  Proof.
    induction l as [|y r IH]; cbn; [reflexivity|].
    destruct (map Some (r ++ [x])) eqn:E.
    - destruct r; discriminate.
    - exact IH.
  Qed.

  (** Any history, any pool contents at the start (objects this code allocated: their
      ConstZero fields still hold the allocation value), any pool behaviour during the
      history and during the last call: the last call returns what it returns as the
      first call of a fresh process. *)
  Theorem history_independent :
    forall (h : list (Args * behaviour)) (a : Args) (b b0 : behaviour) (p0 : list obj),
      pool_inv p0 ->
      out_of_last (run_history p0 (h ++ [(a, b)])) = out_of_last (run_history [] [(a, b0)]).
  Proof.
    intros h a b b0 p0 Hp0. unfold out_of_last.
    rewrite run_history_app.
    pose proof (run_history_inv h p0 Hp0) as Hp1.
    set (p1 := snd (run_history p0 h)) in *.
    cbn [run_history].
    pose proof (step_out p1 a b Hp1) as H1. pose proof (step_out [] a b0 (Forall_nil _)) as H2.
    destruct (step p1 (a, b)) as [o1 q1]. destruct (step [] (a, b0)) as [o2 q2].
    cbn [fst snd] in *. rewrite last_map_app. cbn. congruence.
  Qed.

  (** every call of a history returns its fresh-process result (the statement above
      for every prefix at once) *)
  Theorem history_all_outputs_fresh :
    forall (h : list (Args * behaviour)) (p0 : list obj),
      pool_inv p0 ->
      fst (run_history p0 h) = map (fun c => fst (run (fst c) (fresh (fst c)))) h.
  Proof.
    induction h as [|[a b] r IH]; intros p0 Hp0; [reflexivity|].
    cbn [run_history map fst].
    pose proof (step_out p0 a b Hp0) as H. pose proof (step_inv p0 (a, b) Hp0) as Hs.
    destruct (step p0 (a, b)) as [out p']. cbn [fst snd] in H, Hs.
    specialize (IH p' Hs). destruct (run_history p' r) as [outs p'']. cbn [fst] in *.
    now rewrite H, IH.
  Qed.

  (** a released object holds no External reference that the release function clears *)
  Lemma release_clears_external o f :
    In f fields -> class_is External f -> mem f assigned = false -> release o f = nilv.
  Proof.
    intros Hin Hc Hna. unfold release.
    pose proof (reset_complete_field _ _ _ _ f Hcomplete Hin) as Hok.
    unfold field_ok in Hok. unfold class_is in Hc. rewrite Hc, Hna, orb_false_r in Hok.
    now rewrite Hok.
  Qed.
End Pool.

(* ------------------------------------------------------------------ *)
(** * The hypotheses are satisfiable, and each one is needed *)

Module PoolExample.
  (** A three-field object: "n" is State (a counter the call reads then bumps),
      "buf" is Scratch, "k" is ConstZero (read, never written).  A call returns
      arg + n + k. *)
  Definition fields := ["n"; "buf"; "k"].
  Definition cls := [("n", State); ("buf", Scratch); ("k", ConstZero)].
  Definition init (a : nat) (f : string) : nat := 0.
  Definition run (a : nat) (o : string -> nat) : nat * (string -> nat) :=
    (a + o "n" + o "k", fun f => if String.eqb f "n" then S (o "n") else if String.eqb f "k" then o "k" else a).
  Definition gate (a : nat) (o : string -> nat) := true.
  Definition shape (a : nat) (v : nat) := tt.

  Lemma complete : reset_complete_b fields cls ["n"] [] = true.
  Proof. reflexivity. Qed.

  Lemma frame : frame_condition nat nat nat unit shape fields cls run.
  Proof.
    intros a o o' Hcs _. unfold run; cbn [fst].
    assert (Hn : o "n" = o' "n").
    { apply Hcs; [cbn; tauto|]. right; left; reflexivity. }
    assert (Hk : o "k" = o' "k").
    { apply Hcs; [cbn; tauto|]. right; right; reflexivity. }
    now rewrite Hn, Hk.
  Qed.

  Lemma dim : dimension_gate_condition nat nat unit shape fields cls ["n"] init gate.
  Proof. intros a o f _ _ _. reflexivity. Qed.

  Lemma cz_init : forall a, czero_inv nat fields cls 0 (fresh nat nat init a).
  Proof. intros a f _ _. reflexivity. Qed.

  Lemma cz_run : forall a o, czero_inv nat fields cls 0 o -> czero_inv nat fields cls 0 (snd (run a o)).
  Proof.
    intros a o Ho f Hin Hc. unfold run; cbn [snd].
    assert (f = "k") as ->.
    { cbn in Hin. destruct Hin as [<-|[<-|[<-|[]]]]; [discriminate Hc|discriminate Hc|reflexivity]. }
    cbn. apply Ho; [cbn; tauto|reflexivity].
  Qed.

  (** with the reset in place: independent *)
  Example independent h a b b0 p0 :
    pool_inv nat fields cls 0 p0 ->
    out_of_last _ _ (run_history nat nat nat ["n"] [] init 0 gate run p0 (h ++ [(a, b)]))
    = out_of_last _ _ (run_history nat nat nat ["n"] [] init 0 gate run [] [(a, b0)]).
  Proof. exact (history_independent nat nat nat unit shape fields cls ["n"] [] init 0 0 gate run complete frame dim cz_init cz_run h a b b0 p0). Qed.

  (** delete the reset line (assigned = []): the check fails … *)
  Example check_detects_missing_reset : reset_complete_b fields cls [] [] = false.
  Proof. reflexivity. Qed.

  (** … as it does when some function starts writing the ConstZero field *)
  Example check_detects_constzero_write : reset_complete_b fields cls ["n"; "k"] [] = false.
  Proof. reflexivity. Qed.

  (** … and the model then exhibits a history whose last result differs from the
      fresh-process result: the stale counter leaks. *)
  Definition hit := {| drops := []; pick := Some 0; keep := true |}.
  Example stale_state_leaks :
    out_of_last _ _ (run_history nat nat nat [] [] init 0 gate run [] ([(5, hit)] ++ [(7, hit)]))
    <> out_of_last _ _ (run_history nat nat nat [] [] init 0 gate run [] [(7, hit)]).
  Proof. vm_compute. discriminate. Qed.
End PoolExample.
