(** C10, layer L2 — the implementation of one row's [waitFor] / [signal]
    (internal/lossy/encode_parallel.go, rowSync / rowState) as a transition system in
    which every atomic operation of the Go code is one step:

      waitFor(y, needed):                       signal(y, d):
        WFast   if done.Load() >= needed: return    SStore  done.Store(d)
        WInc    waiters.Add(1)                      SLoad   if waiters.Load() > 0 {
        WLock   mu.Lock()                           SLock     mu.Lock()
        WCheck  for done.Load() < needed {          SUnlock   mu.Unlock()
        WWaitCall   cond.Wait()  -- atomically      SBcast    cond.Broadcast() }
                    unlock + enqueue, sleep
        WSleep      (asleep)
        WWoken      -- re-acquire mu, loop }
        WUnlock mu.Unlock()
        WDec    waiters.Add(-1)

    One signaller (the worker that owns the row) performs signal(1) ... signal(mbW)
    with arbitrary other work in between; any number of waiters (in the encoder: the
    worker of the row below and the Phase-B recorder) each perform a list of
    waitFor calls.  Atomics are sequentially consistent (Go memory model for
    sync/atomic), [sync.Mutex] is a lock with one owner, [sync.Cond.Wait] releases
    the mutex and joins the wait-set atomically and re-acquires the mutex after
    being woken, [Broadcast] wakes every goroutine in the wait-set (documented
    semantics; recorded in the trusted base).  The wait-set is the set of waiters
    whose pc is [WSleep].  A schedule is any sequence of enabled labels. *)
From Coq Require Import List Arith Lia Bool.
Import ListNotations.

Inductive wpc :=
| WIdle                         (* between calls; finished when nothing is left to do *)
| WFast (nd : nat) | WInc (nd : nat) | WLock (nd : nat) | WCheck (nd : nat)
| WWaitCall (nd : nat) | WSleep (nd : nat) | WWoken (nd : nat)
| WUnlock (nd : nat) | WDec (nd : nat).

Inductive spc :=
| SStore (d : nat) | SLoad (d : nat) | SLock (d : nat) | SUnlock (d : nat) | SBcast (d : nat)
| SDone.

Inductive owner := OSig | OW (j : nat).

Record wproc := mkW { pc : wpc; todo : list nat }.    (* remaining [needed] arguments *)

Record st := mkSt {
  done : nat;
  nwait : nat;                 (* the [waiters] counter *)
  mu : option owner;
  sig : spc;
  ws : list wproc }.

Section L2.
  Variable mbW : nat.

  Definition init (calls : list (list nat)) : st :=
    mkSt 0 0 None (if mbW =? 0 then SDone else SStore 1) (map (fun c => mkW WIdle c) calls).

  Fixpoint set_nth {A} (l : list A) (i : nat) (v : A) : list A :=
    match l, i with
    | [], _ => []
    | _ :: tl, 0 => v :: tl
    | h :: tl, S j => h :: set_nth tl j v
    end.

  Definition next_sig (d : nat) : spc := if d <? mbW then SStore (S d) else SDone.

  Definition wake (w : wproc) : wproc :=
    match pc w with WSleep nd => mkW (WWoken nd) (todo w) | _ => w end.

  Definition step_sig (s : st) : option st :=
    match sig s with
    | SStore d => Some (mkSt d (nwait s) (mu s) (SLoad d) (ws s))
    | SLoad d => Some (mkSt (done s) (nwait s) (mu s) (if 0 <? nwait s then SLock d else next_sig d) (ws s))
    | SLock d => match mu s with
                 | None => Some (mkSt (done s) (nwait s) (Some OSig) (SUnlock d) (ws s))
                 | Some _ => None
                 end
    | SUnlock d => Some (mkSt (done s) (nwait s) None (SBcast d) (ws s))
    | SBcast d => Some (mkSt (done s) (nwait s) (mu s) (next_sig d) (map wake (ws s)))
    | SDone => None
    end.

  Definition setw (s : st) (j : nat) (p : wpc) (t : list nat) : list wproc :=
    set_nth (ws s) j (mkW p t).

  Definition step_w (s : st) (j : nat) : option st :=
    match nth_error (ws s) j with
    | None => None
    | Some w =>
      let t := todo w in
      match pc w with
      | WIdle => match t with
                 | [] => None
                 | nd :: rest => Some (mkSt (done s) (nwait s) (mu s) (sig s) (setw s j (WFast nd) rest))
                 end
      | WFast nd => Some (mkSt (done s) (nwait s) (mu s) (sig s)
                               (setw s j (if nd <=? done s then WIdle else WInc nd) t))
      | WInc nd => Some (mkSt (done s) (S (nwait s)) (mu s) (sig s) (setw s j (WLock nd) t))
      | WLock nd => match mu s with
                    | None => Some (mkSt (done s) (nwait s) (Some (OW j)) (sig s) (setw s j (WCheck nd) t))
                    | Some _ => None
                    end
      | WCheck nd => Some (mkSt (done s) (nwait s) (mu s) (sig s)
                                (setw s j (if done s <? nd then WWaitCall nd else WUnlock nd) t))
      | WWaitCall nd => Some (mkSt (done s) (nwait s) None (sig s) (setw s j (WSleep nd) t))
      | WSleep nd => None
      | WWoken nd => match mu s with
                     | None => Some (mkSt (done s) (nwait s) (Some (OW j)) (sig s) (setw s j (WCheck nd) t))
                     | Some _ => None
                     end
      | WUnlock nd => Some (mkSt (done s) (nwait s) None (sig s) (setw s j (WDec nd) t))
      | WDec nd => Some (mkSt (done s) (nwait s - 1) (mu s) (sig s) (setw s j WIdle t))
      end
    end.

  Inductive label := LS | LWt (j : nat).

  Definition step (s : st) (l : label) : option st :=
    match l with LS => step_sig s | LWt j => step_w s j end.

  Fixpoint run (s : st) (sched : list label) : option st :=
    match sched with
    | [] => Some s
    | l :: rest => match step s l with Some s' => run s' rest | None => None end
    end.

  Definition w_finished (w : wproc) : bool :=
    match pc w, todo w with WIdle, [] => true | _, _ => false end.

  Definition finished (s : st) : bool :=
    (match sig s with SDone => true | _ => false end) && forallb w_finished (ws s).

End L2.
