(** Implementation model of the deferred colour-cache insertion of /repo's
    decodeImageData (internal/lossless/decode_image.go): decoded pixels are not
    inserted into the colour cache one by one; a cursor [lastCached] trails the
    write position and the pending pixels are inserted in order (a "flush") at
    the end of a row, after a backward reference, and before every cache lookup.

    The model is more liberal than the code: *where* flushes happen is an
    arbitrary schedule (one boolean per token: flush after this token or not);
    the only thing fixed is that a cache lookup flushes first.  The theorem says
    that every such schedule yields the pixels of the specification's replay
    ([Vp8lEmit.replay]: every pixel inserted immediately). *)
From Coq Require Import List ZArith Lia Bool.
From Webp Require Import Base.Res Vp8l.Vp8lPixel Vp8l.Vp8lArr Vp8l.Vp8lPrefix Vp8l.Vp8lTransforms Vp8l.Vp8lSpec Vp8l.Vp8lEmit.
Import ListNotations.
Open Scope Z_scope.

(** insert the pending pixels (most recent first) oldest first *)
Definition flush (cb : Z) (cache : arr px) (pending : list px) : arr px :=
  fold_left (cache_insert cb) (rev pending) cache.

Fixpoint replay_deferred (cb w : Z) (toks : list (token * bool)) (cache : arr px) (pending acc : list px)
  : list px :=
  match toks with
  | [] => acc
  | (t, fl) :: tl =>
    let '(cache1, pending1, acc1) :=
      match t with
      | TLit p => (cache, p :: pending, p :: acc)
      | TCache k =>
        let cache' := flush cb cache pending in          (* flush before the lookup *)
        let p := arr_get px_zero cache' k in
        (cache', [p], p :: acc)
      | TCopy len dc =>
        let new := copy_pixels (Z.to_nat len) (Z.to_nat (plane_to_dist w dc)) acc in
        (cache, rev_append new pending, rev_append new acc)
      end in
    if fl then replay_deferred cb w tl (flush cb cache1 pending1) [] acc1
    else replay_deferred cb w tl cache1 pending1 acc1
  end.

Lemma flush_nil cb cache : flush cb cache [] = cache.
Proof. reflexivity. Qed.

Lemma flush_cons cb cache p pending :
  flush cb cache (p :: pending) = cache_insert cb (flush cb cache pending) p.
Proof. unfold flush. cbn [rev]. now rewrite fold_left_app. Qed.

Lemma flush_rev_append cb cache new pending :
  flush cb cache (rev_append new pending) = fold_left (cache_insert cb) new (flush cb cache pending).
Proof.
  unfold flush. rewrite rev_append_rev, rev_app_distr, rev_involutive. now rewrite fold_left_app.
Qed.

Lemma replay_deferred_eq cb w : forall toks cache_i pending acc cache_s,
  cache_s = flush cb cache_i pending ->
  replay_deferred cb w toks cache_i pending acc = replay cb w (map fst toks) cache_s acc.
Proof.
  induction toks as [|[t fl] tl IH]; intros cache_i pending acc cache_s Hinv; [reflexivity|].
  cbn [replay_deferred map fst].
  destruct t as [p|k|len dc]; cbn [replay].
  - destruct fl; apply IH; subst cache_s; rewrite ?flush_nil; now rewrite flush_cons.
  - subst cache_s. destruct fl; apply IH; rewrite ?flush_nil; rewrite flush_cons; reflexivity.
  - subst cache_s. destruct fl; apply IH; rewrite ?flush_nil; now rewrite flush_rev_append.
Qed.

(** Deferred insertion under any flush schedule = immediate insertion. *)
Theorem cache_deferred_eq_immediate : forall cb w (toks : list (token * bool)),
  replay_deferred cb w toks arr_empty [] [] = replay cb w (map fst toks) arr_empty [].
Proof. intros cb w toks. apply replay_deferred_eq. reflexivity. Qed.

(** The schedule of the code (flush when a row ends, after every copy) is one
    instance; e.g. on the generated example plan of [Vp8lEmit]: *)
Example deferred_example :
  let toks := map (fun t => (t, match t with TCopy _ _ => true | _ => false end)) (ep_tokens (p_main ex_plan)) in
  replay_deferred (ep_cache_bits (p_main ex_plan)) 4 toks arr_empty [] [] =
  replay (ep_cache_bits (p_main ex_plan)) 4 (ep_tokens (p_main ex_plan)) arr_empty [].
Proof. vm_compute. reflexivity. Qed.
