(** Implementation model of the buffer discipline of /repo's
    [applyInverseTransforms] (internal/lossless/decode_transform.go).

    All definitions named [pinned_*] describe the tree as it was pinned (before
    commit 56944c7 "fix: never run a VP8L inverse transform in place"); no
    run-time path (extraction, correspondence) uses them, they only carry the
    refutation.  The current code is modelled by [apply_inverse_pingpong].

    Pinned tree: the first inverse transform reads the decoded pixels and writes
    [transformBuf]; from the second inverse on, input and output are the same
    slice.  Predictor, cross-colour and add-green compute output word i from
    input word i and from output words written earlier, so aliasing is harmless
    for them; the colour-indexing inverse with pixel packing reads packed word
    x / 2^bits while writing word x, i.e. it overwrites packed words it has not
    read yet.  [pinned_ci_inplace] transcribes that loop on one buffer.

    [inplace_inverse_refuted]: the implementation model differs from the
    specification.  [apply_inverse_pingpong] models the repaired dataflow (input
    and output never alias: the two buffers are swapped after every inverse) and
    [pingpong_inverse_eq] proves it equal to the specification for all transform
    lists and all stale buffer contents. *)
From Coq Require Import List ZArith Lia Bool.
From Coq Require Import ZifyBool ZifyNat.
From Webp Require Import Base.Res Vp8l.Vp8lPixel Vp8l.Vp8lArr Vp8l.Vp8lPrefix Vp8l.Vp8lTransforms Vp8l.Vp8lSpec.
Import ListNotations.
Open Scope Z_scope.

Ltac Zify.zify_post_hook ::= Z.div_mod_to_equations.

(** Go [s[i] = v]: panics when out of range. *)
Definition put {A} (l : list A) (i : Z) (v : A) : Res (list A) :=
  if (0 <=? i) && (i <? Z.of_nat (length l)) then Ok (set_nth (Z.to_nat i) v l) else Panic.

(** colorIndexInverseTransform with src and dst being the same slice [buf]:
    [n] pixel steps; [x] column, [srcOff]/[dstOff] the two cursors, [packed] the
    bits not yet consumed of the current packed word. *)
Fixpoint pinned_ci_inplace_loop (n : nat) (look : Z -> px) (wb w x srcOff dstOff packed : Z) (buf : list px)
  : Res (list px) :=
  match n with
  | O => Ok buf
  | S n' =>
    '(packed, srcOff) <- (if x mod 2 ^ wb =? 0
                          then p <- index buf srcOff ;; Ok (pg p, srcOff + 1)
                          else Ok (packed, srcOff)) ;;
    buf <- put buf dstOff (look (packed mod bmod wb)) ;;
    pinned_ci_inplace_loop n' look wb w (if x + 1 <? w then x + 1 else 0) srcOff (dstOff + 1)
                    (packed / bmod wb) buf
  end.

(** The buffer holds the packed image (its first [pw*h] words) and has room for
    [w*h] words, as [transformBuf] does. *)
Definition pinned_ci_inplace (t : transform) (buf : list px) : Res (list px) :=
  let n := Z.to_nat (t_w t * t_h t) in
  let a := arr_of_list (t_data t) in
  let buf := buf ++ repeat px_zero (n - length buf) in
  r <- pinned_ci_inplace_loop n (arr_get px_zero a) (t_bits t) (t_w t) 0 0 0 0 buf ;;
  Ok (firstn n r).

Definition pinned_inverse_inplace (t : transform) (buf : list px) : Res (list px) :=
  if t_type t =? 3 then pinned_ci_inplace t buf
  else Ok (inverse_transform t buf).   (* aliasing-safe loops, see the header *)

(** [ts] in stream order, [coded] the entropy-coded image. *)
Definition pinned_apply_inverse (ts : list transform) (coded : list px) : Res (list px) :=
  match rev ts with
  | [] => Ok coded
  | t :: rest =>
    fold_left (fun b t => b' <- b ;; pinned_inverse_inplace t b') rest (Ok (inverse_transform t coded))
  end.

(** The statement that would make the decoder correct w.r.t. the specification. *)
Definition pinned_inplace_inverse_statement : Prop :=
  forall ts coded, pinned_apply_inverse ts coded = Ok (apply_inverse ts coded).

(** Witness: two colours, width 9 (two packed words per row), one row, transforms
    [colour-indexing (8 indices per word); predictor] in stream order.  The
    predictor inverse runs first (separate buffers) and yields the packed words
    [A; B] with index bits 0 and 1; unpacking in place stores colour 0 into word
    1 before word 1 is read for pixel 8. *)
Definition wit_c0 : px := mkpx 255 0 0 0.
Definition wit_c1 : px := mkpx 255 255 255 255.
Definition wit_ts : list transform :=
  [ mktransform 3 3 9 1 [wit_c0; wit_c1];
    mktransform 0 2 2 1 [mkpx 255 0 1 0] ].
Definition wit_coded : list px := [mkpx 0 0 0 0; mkpx 0 0 1 0].

Lemma wit_spec_value : apply_inverse wit_ts wit_coded =
  [wit_c0; wit_c0; wit_c0; wit_c0; wit_c0; wit_c0; wit_c0; wit_c0; wit_c1].
Proof. vm_compute. reflexivity. Qed.

Lemma wit_impl_value : pinned_apply_inverse wit_ts wit_coded =
  Ok [wit_c0; wit_c0; wit_c0; wit_c0; wit_c0; wit_c0; wit_c0; wit_c0; wit_c0].
Proof. vm_compute. reflexivity. Qed.

Theorem inplace_inverse_refuted :
  exists ts coded, pinned_apply_inverse ts coded <> Ok (apply_inverse ts coded).
Proof.
  exists wit_ts, wit_coded. rewrite wit_spec_value, wit_impl_value. discriminate.
Qed.

(* ------------------------------------------------------------------ *)
(** * Repaired dataflow: ping-pong between two buffers *)

(** Number of words an inverse transform reads / writes. *)
Definition in_len (t : transform) : nat :=
  if t_type t =? 3 then (Z.to_nat (t_h t) * pw (t_bits t) (Z.to_nat (t_w t)))%nat
  else Z.to_nat (t_w t * t_h t).

(** Go: the inverse writes out[0 .. len res) and leaves the rest of [out] as it was. *)
Definition write_prefix (res out : list px) : list px := res ++ skipn (length res) out.

(** [tsr] = transforms in the order they are inverted; [inb] holds the current
    image in its first words (followed by stale words), [outb] is the other
    buffer (arbitrary stale content).  Returns the buffer written last. *)
Fixpoint pingpong (tsr : list transform) (inb outb : list px) : list px :=
  match tsr with
  | [] => inb
  | t :: rest =>
    let res := inverse_transform t (firstn (in_len t) inb) in
    pingpong rest (write_prefix res outb) inb
  end.

(** The chain is well formed: each inverse reads exactly the image the previous
    one produced ([img] = the current image). *)
Fixpoint chain_ok (tsr : list transform) (img : list px) : Prop :=
  match tsr with
  | [] => True
  | t :: rest => in_len t = length img /\ chain_ok rest (inverse_transform t img)
  end.

Lemma firstn_write_prefix res out : firstn (length res) (write_prefix res out) = res.
Proof. unfold write_prefix. rewrite firstn_app, Nat.sub_diag, firstn_all. cbn [firstn]. apply app_nil_r. Qed.

Definition run_spec (tsr : list transform) (img : list px) : list px :=
  fold_left (fun im t => inverse_transform t im) tsr img.

Lemma pingpong_eq_gen : forall tsr img inb outb,
  firstn (length img) inb = img -> chain_ok tsr img ->
  firstn (length (run_spec tsr img)) (pingpong tsr inb outb) = run_spec tsr img.
Proof.
  induction tsr as [|t rest IH]; intros img inb outb Hin Hc.
  - exact Hin.
  - destruct Hc as [Hlen Hc]. cbn [pingpong run_spec fold_left].
    rewrite Hlen, Hin.
    apply IH; [apply firstn_write_prefix|exact Hc].
Qed.

(** Repaired decoder: [coded] sits at the front of the pixel buffer [coded ++ sa]
    ([sa] = the rest of that buffer), [sb] is the transform buffer; both may hold
    arbitrary stale words.  The first [w*h] words of the buffer written last are
    exactly what the specification defines. *)
Definition apply_inverse_pingpong (ts : list transform) (coded sa sb : list px) : list px :=
  pingpong (rev ts) (coded ++ sa) sb.

Theorem pingpong_inverse_eq : forall ts coded sa sb,
  chain_ok (rev ts) coded ->
  firstn (length (apply_inverse ts coded)) (apply_inverse_pingpong ts coded sa sb) = apply_inverse ts coded.
Proof.
  intros ts coded sa sb Hc. unfold apply_inverse_pingpong, apply_inverse.
  apply (pingpong_eq_gen (rev ts) coded (coded ++ sa) sb); [|exact Hc].
  rewrite firstn_app, Nat.sub_diag, firstn_all. cbn [firstn]. apply app_nil_r.
Qed.

(** The hypothesis is met by the refutation witness, on which the repaired
    dataflow therefore yields the specified pixels. *)
Example wit_chain_ok : chain_ok (rev wit_ts) wit_coded.
Proof. vm_compute. repeat split. Qed.

Example wit_pingpong_value :
  firstn 9 (apply_inverse_pingpong wit_ts wit_coded (repeat wit_c1 7) (repeat wit_c1 9)) =
  apply_inverse wit_ts wit_coded.
Proof. vm_compute. reflexivity. Qed.
