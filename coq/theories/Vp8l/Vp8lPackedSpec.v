(** The packed / sequential literal read of [Vp8lPacked] against the pixel read of the
    specification decoder ([Vp8lSpec.pixels_loop]: [read_symbol] on the green code, then for a
    literal on the red, blue and alpha codes, the pixel assembled by [mkpx]).

    [seq_read_spec_pixel]: whatever [seq_read] returns for a window w is what the specification's
    bit-list reads return on the bit list of w, with the consumed bits removed from the list; and
    the ARGB word the implementation assembles with shifts and ors is the specification's pixel
    ([argb_of_eq_px], channels < 256).  With [packed_read_eq_sequential] and
    [seq_read_lut_eq_trees] this makes both branches of decodeImageData's literal path equal to
    the specification on every window. *)
From Coq Require Import List ZArith Lia Bool.
From Coq Require Import ZifyBool ZifyNat.
From Webp Require Import Base.Res Vp8l.Vp8lPixel Vp8l.Vp8lArr Vp8l.Vp8lPrefix Vp8l.Vp8lCanon Vp8l.Vp8lLut Vp8l.Vp8lSymRange Vp8l.Vp8lPacked.
Import ListNotations.
Open Scope Z_scope.

Ltac Zify.zify_post_hook ::= idtac.

Lemma lor_add_disjoint x y n : 0 <= n -> 0 <= x < 2 ^ n -> 0 <= y -> Z.lor x (y * 2 ^ n) = x + y * 2 ^ n.
Proof.
  intros Hn Hx Hy.
  assert (Hl : Z.land x (y * 2 ^ n) = 0).
  { apply Z.bits_inj'. intros i Hi. rewrite Z.land_spec, Z.bits_0.
    destruct (Z_lt_le_dec i n) as [Hlt|Hge].
    - rewrite (Z.mul_pow2_bits_low y n i) by lia. apply andb_false_r.
    - rewrite <- (Z.mod_small x (2 ^ n)) by lia. rewrite Z.mod_pow2_bits_high by lia. reflexivity. }
  rewrite <- Z.lxor_lor by exact Hl. symmetry. apply Z.add_nocarry_lxor. exact Hl.
Qed.

(** a<<24 | r<<16 | g<<8 | b as accumulateHCode builds it = the specification's pixel word *)
Lemma argb_of_eq_px g r b a : chan_ok g -> chan_ok r -> chan_ok b -> chan_ok a ->
  argb_of g r b a = argb_of_px (mkpx a r g b).
Proof.
  unfold chan_ok, argb_of, argb_of_px. cbn [pa pr pg pb]. intros Hg Hr Hb Ha.
  rewrite !Z.shiftl_mul_pow2 by lia. change (2 ^ 0) with 1. rewrite Z.mul_1_r.
  change (2 ^ 8) with 256. change (2 ^ 16) with 65536. change (2 ^ 24) with 16777216.
  (* g*2^8 | r*2^16 *)
  change 65536 with (2 ^ 16). rewrite (lor_add_disjoint (g * 256) r 16) by lia.
  (* ... | b *)
  change (2 ^ 16) with 65536. rewrite (Z.lor_comm (g * 256 + r * 65536) b).
  replace (g * 256 + r * 65536) with ((g + r * 256) * 2 ^ 8) by (change (2 ^ 8) with 256; lia).
  rewrite (lor_add_disjoint b (g + r * 256) 8) by lia.
  (* ... | a*2^24 *)
  change 16777216 with (2 ^ 24).
  rewrite (lor_add_disjoint (b + (g + r * 256) * 2 ^ 8) a 24) by (change (2 ^ 8) with 256; change (2 ^ 24) with 16777216; lia).
  change (2 ^ 8) with 256. change (2 ^ 24) with 16777216. lia.
Qed.

(** the specification's read of one green symbol and, for a literal, of the other three channels *)
Definition spec_read_pixel (tg tr tb ta : tree) (s : bits) : Res (pread * bits) :=
  '(sym, s) <- read_symbol tg s ;;
  if sym <? 256 then
    '(r, s) <- read_symbol tr s ;;
    '(b, s) <- read_symbol tb s ;;
    '(a, s) <- read_symbol ta s ;;
    Ok (PLit (argb_of_px (mkpx a r sym b)), s)
  else Ok (PSym sym, s).

Lemma sub_sub_nat k a b : 0 <= a -> 0 <= b -> (k - Z.to_nat a - Z.to_nat b = k - Z.to_nat (a + b))%nat.
Proof. intros. lia. Qed.

Theorem seq_read_spec_pixel : forall tg tr tb ta w res n k rest,
  seq_read tg tr tb ta w = Some (res, n) -> (Z.to_nat n <= k)%nat ->
  (forall v m x, walk tr x = Some (v, m) -> chan_ok v) ->
  (forall v m x, walk tb x = Some (v, m) -> chan_ok v) ->
  (forall v m x, walk ta x = Some (v, m) -> chan_ok v) ->
  (forall v m x, walk tg x = Some (v, m) -> 0 <= v) ->
  spec_read_pixel tg tr tb ta (put_bits k w ++ rest) = Ok (res, put_bits (k - Z.to_nat n) (w / 2 ^ n) ++ rest).
Proof.
  intros tg tr tb ta w res n k rest H Hk Cr Cb Ca Cg.
  unfold seq_read in H. unfold spec_read_pixel.
  destruct (walk tg w) as [[gv gn]|] eqn:Wg; [|discriminate].
  pose proof (walk_nonneg _ _ _ _ Wg) as Hgn.
  destruct (256 <=? gv) eqn:E256.
  - injection H as <- <-.
    rewrite (walk_read_symbol tg w gv gn k rest Wg Hk). cbn [bind].
    assert (E1 : gv <? 256 = false) by (clear - E256; lia). rewrite E1. reflexivity.
  - destruct (walk tr (w / 2 ^ gn)) as [[rv rn]|] eqn:Wr; [|discriminate].
    destruct (walk tb (w / 2 ^ (gn + rn))) as [[bv bn]|] eqn:Wb; [|discriminate].
    destruct (walk ta (w / 2 ^ (gn + rn + bn))) as [[av an]|] eqn:Wa; [|discriminate].
    injection H as <- <-.
    pose proof (walk_nonneg _ _ _ _ Wr) as Hrn. pose proof (walk_nonneg _ _ _ _ Wb) as Hbn.
    pose proof (walk_nonneg _ _ _ _ Wa) as Han.
    assert (K1 : (Z.to_nat gn <= k)%nat) by (clear - Hk Hgn Hrn Hbn Han; lia).
    assert (K2 : (Z.to_nat rn <= k - Z.to_nat gn)%nat) by (clear - Hk Hgn Hrn Hbn Han; lia).
    assert (K3 : (Z.to_nat bn <= k - Z.to_nat (gn + rn))%nat) by (clear - Hk Hgn Hrn Hbn Han; lia).
    assert (K4 : (Z.to_nat an <= k - Z.to_nat (gn + rn + bn))%nat) by (clear - Hk Hgn Hrn Hbn Han; lia).
    assert (E1 : gv <? 256 = true) by (clear - E256; lia).
    rewrite (walk_read_symbol tg w gv gn k rest Wg K1). cbn [bind]. rewrite E1.
    rewrite (walk_read_symbol tr _ rv rn (k - Z.to_nat gn) rest Wr K2). cbn [bind].
    rewrite (div_div_pow2 w gn rn Hgn Hrn). rewrite (sub_sub_nat k gn rn Hgn Hrn).
    rewrite (walk_read_symbol tb _ bv bn (k - Z.to_nat (gn + rn)) rest Wb K3). cbn [bind].
    assert (Hgr : 0 <= gn + rn) by (clear - Hgn Hrn; lia).
    rewrite (div_div_pow2 w (gn + rn) bn Hgr Hbn). rewrite (sub_sub_nat k (gn + rn) bn Hgr Hbn).
    rewrite (walk_read_symbol ta _ av an (k - Z.to_nat (gn + rn + bn)) rest Wa K4). cbn [bind].
    assert (Hgrb : 0 <= gn + rn + bn) by (clear - Hgn Hrn Hbn; lia).
    rewrite (div_div_pow2 w (gn + rn + bn) an Hgrb Han). rewrite (sub_sub_nat k (gn + rn + bn) an Hgrb Han).
    rewrite argb_of_eq_px; [reflexivity| | | |].
    + pose proof (Cg _ _ _ Wg) as G0. unfold chan_ok. clear - G0 E256. lia.
    + eapply Cr; exact Wr.
    + eapply Cb; exact Wb.
    + eapply Ca; exact Wa.
Qed.

Lemma walk_in_alphabet lens t x v m : tree_of_lens lens = Ok t -> walk t x = Some (v, m) ->
  0 <= v < Z.of_nat (length lens).
Proof.
  intros Ht W. pose proof (walk_nonneg _ _ _ _ W) as Hm.
  eapply symbol_in_alphabet; [exact Ht|].
  apply (walk_read_symbol t x v m (Z.to_nat m) [] W). lia.
Qed.

(** The packed-table read of the implementation model IS the specification's pixel read: for every
    group the decoder sends down the packed path (red, blue and alpha alphabets of 256 symbols, as
    the format has them) and every window, on the bit list of the window. *)
Theorem packed_read_eq_spec_pixel :
  forall lg lr lb la mg mr mb ma tg tr tb ta g r b a w res n k rest,
  table_of lg mg tg g -> table_of lr mr tr r -> table_of lb mb tb b -> table_of la ma ta a ->
  length lr = 256%nat -> length lb = 256%nat -> length la = 256%nat ->
  mg + mr + mb + ma <= 6 -> 0 <= w ->
  packed_read (packed_build g r b a) w = (res, n) -> (Z.to_nat n <= k)%nat ->
  spec_read_pixel tg tr tb ta (put_bits k w ++ rest) = Ok (res, put_bits (k - Z.to_nat n) (w / 2 ^ n) ++ rest).
Proof.
  intros lg lr lb la mg mr mb ma tg tr tb ta g r b a w res n k rest Tg Tr Tb Ta Lr Lb La Hsum Hw Hp Hk.
  pose proof (packed_read_eq_sequential _ _ _ _ _ _ _ _ _ _ _ _ _ _ _ _ w Tg Tr Tb Ta Hsum Hw) as H1.
  rewrite Hp in H1.
  destruct Tg as (_ & _ & Tg & _). destruct Tr as (_ & _ & Tr & _).
  destruct Tb as (_ & _ & Tb & _). destruct Ta as (_ & _ & Ta & _).
  apply (seq_read_spec_pixel tg tr tb ta w res n k rest H1 Hk).
  - intros v m x W. pose proof (walk_in_alphabet lr tr x v m Tr W) as R. rewrite Lr in R. exact R.
  - intros v m x W. pose proof (walk_in_alphabet lb tb x v m Tb W) as R. rewrite Lb in R. exact R.
  - intros v m x W. pose proof (walk_in_alphabet la ta x v m Ta W) as R. rewrite La in R. exact R.
  - intros v m x W. pose proof (walk_in_alphabet lg tg x v m Tg W) as R. lia.
Qed.
