(** Implementation models of two decoder kernels of /repo's
    internal/lossless and their agreement with the specification:

    - [copy_block] = copyBlock32 (decode_image.go): a backward reference is
      executed as one memmove when it does not overlap, as a fill when the
      distance is 1, and otherwise by copying the first period and then doubling
      the copied region; the format defines it pixel by pixel ([copy_fwd]).
    - [expand_color_map] = expandColorMap (decode_transform.go): the delta-coded
      palette is summed per channel and zero-padded to 2^(8 >> bits) entries, so
      that every index the packed pixels can hold is in range; the format says an
      index beyond the palette denotes transparent black. *)
From Coq Require Import List ZArith Lia Bool.
From Coq Require Import ZifyBool ZifyNat.
From Webp Require Import Base.Res Vp8l.Vp8lPixel Vp8l.Vp8lArr Vp8l.Vp8lPrefix Vp8l.Vp8lTransforms Vp8l.Vp8lSpec.
Import ListNotations.
Open Scope Z_scope.

Ltac Zify.zify_post_hook ::= Z.div_mod_to_equations.

Section Copy.
  Context {A : Type}.
  Variable d : A.

  (** Go [copy(data[to:to+n], data[from:from+n])] (memmove semantics). *)
  Definition blit (data : list A) (from to n : nat) : list A :=
    firstn to data ++ firstn n (skipn from data) ++ skipn (to + n) data.

  Definition fill (data : list A) (to n : nat) (v : A) : list A :=
    firstn to data ++ repeat v n ++ skipn (to + n) data.

  (** the doubling loop: [copied] elements are in place at [pos..pos+copied) *)
  Fixpoint double_loop (fuel : nat) (data : list A) (pos len copied : nat) : list A :=
    match fuel with
    | O => data
    | S f =>
      if (len <=? copied)%nat then data
      else let n := Nat.min copied (len - copied) in
           double_loop f (blit data pos (pos + copied) n) pos len (copied + n)
    end.

  (** copyBlock32(data, pos, dist, length) *)
  Definition copy_block (data : list A) (pos dist len : nat) : list A :=
    let src := (pos - dist)%nat in
    if (len <=? dist)%nat then blit data src pos len
    else if (dist =? 1)%nat then fill data pos len (nth src data d)
    else double_loop len (blit data src pos dist) pos len dist.

  (** The format: for i = 0 .. len-1 in this order, data[pos+i] := data[pos+i-dist]. *)
  Fixpoint copy_fwd (n : nat) (data : list A) (pos dist : nat) : list A :=
    match n with
    | O => data
    | S n' => copy_fwd n' (set_nth pos (nth (pos - dist) data d) data) (S pos) dist
    end.
End Copy.

(** Complete sweep over all buffers of at most [N] words, as index lists: every
    (pos, dist, len) with 1 <= dist <= pos and pos + len <= N. *)
Definition copy_cases (N : nat) : list (nat * nat * nat) :=
  flat_map (fun pos => flat_map (fun dist => map (fun len => (pos, dist, len)) (seq 0 (N - pos + 1)))
                                (seq 1 pos)) (seq 1 N).

Definition copy_agree_on (N : nat) : bool :=
  forallb (fun '(pos, dist, len) =>
             if list_eq_dec Nat.eq_dec (copy_block O (seq 1 N) pos dist len) (copy_fwd O len (seq 1 N) pos dist)
             then true else false)
          (copy_cases N).

(** Both sides only move elements, so they commute with [map]; hence agreement on
    the index list [seq 1 N] (0 standing for the out-of-range default) is agreement
    on every buffer of length N. *)
Lemma set_nth_map {A B} (f : A -> B) n v (l : list A) : map f (set_nth n v l) = set_nth n (f v) (map f l).
Proof.
  revert n; induction l as [|x tl IH]; intros n; [destruct n; reflexivity|].
  destruct n as [|n]; cbn [set_nth map]; [reflexivity|now rewrite IH].
Qed.

Lemma copy_fwd_map {A B} (f : A -> B) (da : A) n : forall data pos dist,
  map f (copy_fwd da n data pos dist) = copy_fwd (f da) n (map f data) pos dist.
Proof.
  induction n as [|n IH]; intros data pos dist; cbn [copy_fwd]; [reflexivity|].
  rewrite IH, set_nth_map, map_nth. reflexivity.
Qed.

Lemma blit_map {A B} (f : A -> B) data from to n : map f (blit data from to n) = blit (map f data) from to n.
Proof. unfold blit. now rewrite !map_app, !firstn_map, !skipn_map, firstn_map. Qed.

Lemma map_repeat' {A B} (f : A -> B) v n : map f (repeat v n) = repeat (f v) n.
Proof. induction n as [|n IH]; cbn [repeat map]; [reflexivity|now rewrite IH]. Qed.

Lemma fill_map {A B} (f : A -> B) data to n v : map f (fill data to n v) = fill (map f data) to n (f v).
Proof. unfold fill. now rewrite !map_app, firstn_map, skipn_map, map_repeat'. Qed.

Lemma double_loop_map {A B} (f : A -> B) fuel : forall data pos len copied,
  map f (double_loop fuel data pos len copied) = double_loop fuel (map f data) pos len copied.
Proof.
  induction fuel as [|fuel IH]; intros data pos len copied; cbn [double_loop]; [reflexivity|].
  destruct (len <=? copied)%nat; [reflexivity|]. now rewrite IH, blit_map.
Qed.

Lemma copy_block_map {A B} (f : A -> B) (da : A) data pos dist len :
  map f (copy_block da data pos dist len) = copy_block (f da) (map f data) pos dist len.
Proof.
  unfold copy_block. destruct (len <=? dist)%nat; [apply blit_map|].
  destruct (dist =? 1)%nat; [now rewrite fill_map, map_nth|].
  now rewrite double_loop_map, blit_map.
Qed.

Lemma map_nth_seq {A} (d : A) (l : list A) : map (fun i => nth i l d) (seq 0 (length l)) = l.
Proof.
  induction l as [|x tl IH]; [reflexivity|].
  cbn [length seq map nth]. f_equal. rewrite <- seq_shift, map_map. exact IH.
Qed.

Definition copy_bound : nat := 40.

Lemma copy_sweep : forallb copy_agree_on (seq 0 (S copy_bound)) = true.
Proof. vm_compute. reflexivity. Qed.

Lemma copy_cases_in N pos dist len :
  (1 <= dist <= pos)%nat -> (pos + len <= N)%nat -> In (pos, dist, len) (copy_cases N).
Proof.
  intros Hd Hl. unfold copy_cases.
  apply in_flat_map. exists pos. split; [apply in_seq; lia|].
  apply in_flat_map. exists dist. split; [apply in_seq; lia|].
  apply in_map_iff. exists len. split; [reflexivity|apply in_seq; lia].
Qed.

(** copyBlock32 = the pixel-by-pixel definition, for every element type, every
    buffer of at most 40 words and every in-range (pos, dist, len): complete sweep
    over the index behaviour, lifted to arbitrary contents by naturality.
    (The unbounded statement is [copy_block_eq_statement].) *)
Theorem copy_block_eq_bounded : forall (A : Type) (d : A) (data : list A) pos dist len,
  (length data <= copy_bound)%nat -> (1 <= dist <= pos)%nat -> (pos + len <= length data)%nat ->
  copy_block d data pos dist len = copy_fwd d len data pos dist.
Proof.
  intros A d data pos dist len HN Hd Hl.
  set (N := length data).
  pose proof copy_sweep as Hs. rewrite forallb_forall in Hs.
  specialize (Hs N). assert (HinN : In N (seq 0 (S copy_bound))) by (apply in_seq; unfold N; lia).
  specialize (Hs HinN). unfold copy_agree_on in Hs. rewrite forallb_forall in Hs.
  specialize (Hs (pos, dist, len) (copy_cases_in N pos dist len Hd Hl)). cbn beta iota in Hs.
  destruct (list_eq_dec Nat.eq_dec (copy_block 0%nat (seq 1 N) pos dist len)
                        (copy_fwd 0%nat len (seq 1 N) pos dist)) as [E|]; [|discriminate].
  set (f := fun i => match i with O => d | S j => nth j data d end).
  assert (Hdata : map f (seq 1 N) = data).
  { rewrite <- seq_shift, map_map. unfold f. apply map_nth_seq. }
  rewrite <- Hdata.
  transitivity (map f (copy_block O (seq 1 N) pos dist len)).
  - symmetry. apply (copy_block_map f O).
  - rewrite E. apply (copy_fwd_map f O).
Qed.

Definition copy_block_eq_statement : Prop :=
  forall (A : Type) (d : A) (data : list A) pos dist len,
  (1 <= dist <= pos)%nat -> (pos + len <= length data)%nat ->
  copy_block d data pos dist len = copy_fwd d len data pos dist.

(* ------------------------------------------------------------------ *)
(** * expandColorMap *)

Definition expand_color_map (ncolors bits : Z) (pal : list px) : list px :=
  let n := Z.to_nat (Z.min ncolors (Z.of_nat (length pal))) in
  let m := Z.to_nat (2 ^ (8 / 2 ^ bits)) in
  let e := undelta px_zero (firstn n pal) in
  firstn m (e ++ repeat px_zero (m - length e)).

Lemma undelta_length prev l : length (undelta prev l) = length l.
Proof. revert prev; induction l as [|x tl IH]; intros prev; cbn [undelta length]; [reflexivity|now rewrite IH]. Qed.

(** Looking an index up in the expanded map = the specification's lookup
    (palette entry, or transparent black beyond the palette), for every index a
    packed pixel can hold. *)
Theorem expand_color_map_eq : forall ncolors bits pal idx,
  0 <= bits <= 3 -> Z.of_nat (length pal) = ncolors -> ncolors <= 2 ^ (8 / 2 ^ bits) ->
  0 <= idx < 2 ^ (8 / 2 ^ bits) ->
  nth (Z.to_nat idx) (expand_color_map ncolors bits pal) px_zero =
  arr_get px_zero (arr_of_list (undelta px_zero pal)) idx.
Proof.
  intros ncolors bits pal idx Hb Hlen Hn Hidx.
  unfold expand_color_map. rewrite arr_of_list_get.
  rewrite Hlen, Z.min_id. rewrite <- Hlen, Nat2Z.id, firstn_all.
  set (e := undelta px_zero pal). set (m := Z.to_nat (2 ^ (8 / 2 ^ bits))).
  assert (He : length e = length pal) by apply undelta_length.
  assert (Hm : (length e <= m)%nat) by (unfold m; lia).
  rewrite firstn_all2 by (rewrite app_length, repeat_length; lia).
  destruct (idx <? Z.of_nat (length e)) eqn:E.
  - replace (0 <=? idx) with true by lia. cbn [andb].
    rewrite app_nth1 by lia. reflexivity.
  - replace ((0 <=? idx) && false)%bool with false by (destruct (0 <=? idx); reflexivity).
    rewrite app_nth2 by lia. apply nth_repeat.
Qed.
