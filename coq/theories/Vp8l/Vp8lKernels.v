(** Implementation models of two decoder kernels of /repo's
    internal/lossless and their agreement with the specification:

    - [copy_block] = copyBlock32 (decode_image.go): a backward reference is
      executed as one memmove when it does not overlap, as a fill when the
      distance is 1, and otherwise by copying the first period and then doubling
      the copied region; the format defines it pixel by pixel ([copy_fwd]).
    - [expand_color_map] = expandColorMap (decode_transform.go): the delta-coded
      palette is summed per channel and zero-padded to 2^(8 >> bits) entries, so
      that every index the packed pixels can hold is in range; the format says an
      index beyond the palette denotes transparent black. *)
From Coq Require Import List ZArith Lia Bool.
From Coq Require Import ZifyBool ZifyNat.
From Webp Require Import Base.Res Vp8l.Vp8lPixel Vp8l.Vp8lArr Vp8l.Vp8lPrefix Vp8l.Vp8lTransforms Vp8l.Vp8lSpec.
Import ListNotations.
Open Scope Z_scope.

Ltac Zify.zify_post_hook ::= Z.div_mod_to_equations.

Section Copy.
  Context {A : Type}.
  Variable d : A.

  (** Go [copy(data[to:to+n], data[from:from+n])] (memmove semantics). *)
  Definition blit (data : list A) (from to n : nat) : list A :=
    firstn to data ++ firstn n (skipn from data) ++ skipn (to + n) data.

  Definition fill (data : list A) (to n : nat) (v : A) : list A :=
    firstn to data ++ repeat v n ++ skipn (to + n) data.

  (** the doubling loop: [copied] elements are in place at [pos..pos+copied) *)
  Fixpoint double_loop (fuel : nat) (data : list A) (pos len copied : nat) : list A :=
    match fuel with
    | O => data
    | S f =>
      if (len <=? copied)%nat then data
      else let n := Nat.min copied (len - copied) in
           double_loop f (blit data pos (pos + copied) n) pos len (copied + n)
    end.

  (** copyBlock32(data, pos, dist, length) *)
  Definition copy_block (data : list A) (pos dist len : nat) : list A :=
    let src := (pos - dist)%nat in
    if (len <=? dist)%nat then blit data src pos len
    else if (dist =? 1)%nat then fill data pos len (nth src data d)
    else double_loop len (blit data src pos dist) pos len dist.

  (** The format: for i = 0 .. len-1 in this order, data[pos+i] := data[pos+i-dist]. *)
  Fixpoint copy_fwd (n : nat) (data : list A) (pos dist : nat) : list A :=
    match n with
    | O => data
    | S n' => copy_fwd n' (set_nth pos (nth (pos - dist) data d) data) (S pos) dist
    end.
End Copy.

(* ------------------------------------------------------------------ *)
(** * The unbounded theorem: both sides are the unique solution of the
      recurrence  res[j] = res[j - dist]  on [pos, pos+len),  res[j] = data[j]
      elsewhere. *)

Section CopyProof.
  Context {A : Type}.
  Variable d : A.

  Lemma nth_firstn_lt (l : list A) : forall n i, (i < n)%nat -> nth i (firstn n l) d = nth i l d.
  Proof.
    induction l as [|x l IH]; intros n i Hi; [now rewrite firstn_nil|].
    destruct n as [|n]; [lia|]. destruct i as [|i]; cbn [firstn nth]; [reflexivity|]. apply IH. lia.
  Qed.

  Lemma nth_skipn' (l : list A) : forall n i, nth i (skipn n l) d = nth (n + i) l d.
  Proof.
    induction l as [|x l IH]; intros n i.
    - rewrite skipn_nil. now destruct i, n.
    - destruct n as [|n]; [reflexivity|]. cbn [skipn Nat.add nth]. apply IH.
  Qed.

  Lemma set_nth_length (l : list A) : forall i v, length (set_nth i v l) = length l.
  Proof.
    induction l as [|x l IH]; intros i v; [now destruct i|].
    destruct i; cbn [set_nth length]; [reflexivity|now rewrite IH].
  Qed.

  Lemma nth_set_nth_same (l : list A) : forall i v, (i < length l)%nat -> nth i (set_nth i v l) d = v.
  Proof.
    induction l as [|x l IH]; intros i v Hi; [cbn in Hi; lia|].
    destruct i; cbn [set_nth nth]; [reflexivity|]. apply IH. cbn in Hi. lia.
  Qed.

  Lemma nth_set_nth_other (l : list A) : forall i j v, i <> j -> nth j (set_nth i v l) d = nth j l d.
  Proof.
    induction l as [|x l IH]; intros i j v Hij; [now destruct i|].
    destruct i, j; cbn [set_nth nth]; try reflexivity; try lia. apply IH. lia.
  Qed.

  Lemma blit_length (data : list A) from to n :
    (from + n <= length data)%nat -> (to + n <= length data)%nat -> length (blit data from to n) = length data.
  Proof.
    intros H1 H2. unfold blit. rewrite !app_length, !firstn_length, !skipn_length. lia.
  Qed.

  Lemma nth_blit (data : list A) from to n j :
    (from + n <= length data)%nat -> (to + n <= length data)%nat ->
    nth j (blit data from to n) d =
    if ((to <=? j) && (j <? to + n))%nat then nth (from + (j - to)) data d else nth j data d.
  Proof.
    intros H1 H2. unfold blit.
    destruct (Nat.ltb_spec j to) as [Hlt|Hge].
    - replace ((to <=? j) && (j <? to + n))%nat with false by lia.
      rewrite app_nth1 by (rewrite firstn_length; lia). apply nth_firstn_lt. lia.
    - rewrite app_nth2 by (rewrite firstn_length; lia). rewrite firstn_length.
      replace (Nat.min to (length data)) with to by lia.
      destruct (Nat.ltb_spec j (to + n)) as [Hin|Hout].
      + replace ((to <=? j) && true)%nat with true by lia.
        rewrite app_nth1 by (rewrite firstn_length, skipn_length; lia).
        rewrite nth_firstn_lt by lia. apply nth_skipn'.
      + replace ((to <=? j) && false)%nat with false by lia.
        rewrite app_nth2 by (rewrite firstn_length, skipn_length; lia).
        rewrite firstn_length, skipn_length. rewrite nth_skipn'. f_equal. lia.
  Qed.

  Lemma nth_repeat_lt (v : A) : forall n i, (i < n)%nat -> nth i (repeat v n) d = v.
  Proof. induction n as [|n IH]; intros i Hi; [lia|]. destruct i; cbn [repeat nth]; [reflexivity|apply IH; lia]. Qed.

  Lemma fill_length (data : list A) to n v : (to + n <= length data)%nat -> length (fill data to n v) = length data.
  Proof. intros H. unfold fill. rewrite !app_length, firstn_length, repeat_length, skipn_length. lia. Qed.

  Lemma nth_fill (data : list A) to n v j : (to + n <= length data)%nat ->
    nth j (fill data to n v) d = if ((to <=? j) && (j <? to + n))%nat then v else nth j data d.
  Proof.
    intros H. unfold fill.
    destruct (Nat.ltb_spec j to) as [Hlt|Hge].
    - replace ((to <=? j) && (j <? to + n))%nat with false by lia.
      rewrite app_nth1 by (rewrite firstn_length; lia). apply nth_firstn_lt. lia.
    - rewrite app_nth2 by (rewrite firstn_length; lia). rewrite firstn_length.
      replace (Nat.min to (length data)) with to by lia.
      destruct (Nat.ltb_spec j (to + n)) as [Hin|Hout].
      + replace ((to <=? j) && true)%nat with true by lia.
        rewrite app_nth1 by (rewrite repeat_length; lia). apply nth_repeat_lt. lia.
      + replace ((to <=? j) && false)%nat with false by lia.
        rewrite app_nth2 by (rewrite repeat_length; lia). rewrite repeat_length, nth_skipn'. f_equal. lia.
  Qed.

  (** the recurrence *)
  Definition rec_ok (data : list A) (pos dist len : nat) (res : list A) : Prop :=
    length res = length data /\
    (forall j, (j < pos \/ pos + len <= j)%nat -> nth j res d = nth j data d) /\
    (forall j, (pos <= j < pos + len)%nat -> nth j res d = nth (j - dist) res d).

  Lemma rec_unique data pos dist len r1 r2 : (1 <= dist <= pos)%nat ->
    rec_ok data pos dist len r1 -> rec_ok data pos dist len r2 -> r1 = r2.
  Proof.
    intros Hd (L1 & O1 & R1) (L2 & O2 & R2).
    apply (nth_ext _ _ d d); [lia|]. intros j _.
    induction j as [j IH] using lt_wf_ind.
    destruct (Nat.lt_ge_cases j pos) as [Hlt|Hge]; [rewrite O1, O2 by lia; reflexivity|].
    destruct (Nat.lt_ge_cases j (pos + len)) as [Hin|Hout]; [|rewrite O1, O2 by lia; reflexivity].
    rewrite R1, R2 by lia. apply IH. lia.
  Qed.

  Lemma copy_fwd_rec : forall n data pos dist,
    (1 <= dist <= pos)%nat -> (pos + n <= length data)%nat ->
    rec_ok data pos dist n (copy_fwd d n data pos dist).
  Proof.
    induction n as [|n IH]; intros data pos dist Hd Hl.
    - cbn [copy_fwd]. split; [reflexivity|]. split; [intros; reflexivity|intros; lia].
    - cbn [copy_fwd]. set (data' := set_nth pos (nth (pos - dist) data d) data).
      assert (Hl' : length data' = length data) by apply set_nth_length.
      destruct (IH data' (S pos) dist ltac:(lia) ltac:(lia)) as (L & O & R).
      split; [lia|]. split.
      + intros j Hj. rewrite O by lia. unfold data'. apply nth_set_nth_other. lia.
      + intros j Hj. destruct (Nat.eq_dec j pos) as [->|Hne].
        * rewrite O by lia. rewrite (O (pos - dist)%nat) by lia.
          unfold data'. rewrite nth_set_nth_same by lia. now rewrite nth_set_nth_other by lia.
        * apply R. lia.
  Qed.

  Lemma periodic (cur : list A) pos dist c :
    (forall j, (pos <= j < pos + c)%nat -> nth j cur d = nth (j - dist) cur d) ->
    forall m j, (pos + m * dist <= j < pos + c)%nat -> nth j cur d = nth (j - m * dist) cur d.
  Proof.
    intros R m. induction m as [|m IH]; intros j Hj; [f_equal; lia|].
    rewrite Nat.mul_succ_l in *. rewrite R by lia. rewrite IH by lia. f_equal. lia.
  Qed.

  Lemma double_loop_rec (data : list A) pos dist len : (1 <= dist <= pos)%nat -> (pos + len <= length data)%nat ->
    forall fuel cur copied,
    rec_ok data pos dist copied cur -> (copied <= len)%nat -> (len - copied <= fuel)%nat ->
    ((exists k, (1 <= k)%nat /\ copied = (k * dist)%nat) \/ copied = len) ->
    rec_ok data pos dist len (double_loop fuel cur pos len copied).
  Proof.
    intros Hd Hl fuel. induction fuel as [|fuel IH]; intros cur copied Hrec Hc Hf Hk.
    - cbn [double_loop]. replace len with copied by lia. exact Hrec.
    - cbn [double_loop]. destruct (Nat.leb_spec len copied) as [Hdone|Hmore].
      + replace len with copied by lia. exact Hrec.
      + destruct Hk as [(k & Hk1 & Hk2)|Hk]; [|lia].
        set (n := Nat.min copied (len - copied)).
        destruct Hrec as (L & O & R).
        assert (Hn : (1 <= n)%nat) by (unfold n; nia).
        assert (Hb1 : (pos + n <= length cur)%nat) by (unfold n; lia).
        assert (Hb2 : (pos + copied + n <= length cur)%nat) by (unfold n; lia).
        apply IH; [| unfold n; lia | unfold n; lia |].
        * split; [rewrite blit_length by lia; lia|]. split.
          -- intros j Hj. rewrite nth_blit by lia.
             replace ((pos + copied <=? j) && (j <? pos + copied + n))%nat with false by lia.
             apply O. lia.
          -- intros j Hj. rewrite !nth_blit by lia.
             destruct (Nat.lt_ge_cases j (pos + copied)) as [Hold|Hnew].
             ++ replace ((pos + copied <=? j) && (j <? pos + copied + n))%nat with false by lia.
                replace ((pos + copied <=? j - dist) && (j - dist <? pos + copied + n))%nat with false by lia.
                apply R. lia.
             ++ replace ((pos + copied <=? j) && (j <? pos + copied + n))%nat with true by lia.
                replace (pos + (j - (pos + copied)))%nat with (j - copied)%nat by lia.
                destruct (Nat.lt_ge_cases (j - dist) (pos + copied)) as [Hp|Hq].
                ** replace ((pos + copied <=? j - dist) && (j - dist <? pos + copied + n))%nat with false by lia.
                   (* j - dist and j - copied differ by (k-1) periods *)
                   assert (E : nth (j - dist) cur d = nth (j - dist - (k - 1) * dist) cur d).
                   { apply (periodic cur pos dist copied R). nia. }
                   rewrite E. f_equal. nia.
                ** replace ((pos + copied <=? j - dist) && (j - dist <? pos + copied + n))%nat with true by lia.
                   replace (pos + (j - dist - (pos + copied)))%nat with (j - copied - dist)%nat by lia.
                   apply R. unfold n in *. lia.
        * unfold n. destruct (Nat.min_spec copied (len - copied)) as [[_ ->]|[_ ->]].
          -- left. exists (2 * k)%nat. split; nia.
          -- right. lia.
  Qed.

  Theorem copy_block_eq : forall (data : list A) pos dist len,
    (1 <= dist <= pos)%nat -> (pos + len <= length data)%nat ->
    copy_block d data pos dist len = copy_fwd d len data pos dist.
  Proof.
    intros data pos dist len Hd Hl.
    apply (rec_unique data pos dist len); [lia| |apply copy_fwd_rec; assumption].
    unfold copy_block.
    destruct (Nat.leb_spec len dist) as [Hshort|Hlong].
    - (* one memmove *)
      split; [apply blit_length; lia|]. split.
      + intros j Hj. rewrite nth_blit by lia.
        replace ((pos <=? j) && (j <? pos + len))%nat with false by lia. reflexivity.
      + intros j Hj. rewrite !nth_blit by lia.
        replace ((pos <=? j) && (j <? pos + len))%nat with true by lia.
        replace ((pos <=? j - dist) && (j - dist <? pos + len))%nat with false by lia.
        f_equal. lia.
    - destruct (Nat.eqb_spec dist 1) as [->|Hne].
      + (* fill *)
        split; [apply fill_length; lia|]. split.
        * intros j Hj. rewrite nth_fill by lia.
          replace ((pos <=? j) && (j <? pos + len))%nat with false by lia. reflexivity.
        * intros j Hj. rewrite !nth_fill by lia.
          replace ((pos <=? j) && (j <? pos + len))%nat with true by lia.
          destruct (Nat.eq_dec j pos) as [->|Hjp].
          -- replace ((pos <=? pos - 1) && (pos - 1 <? pos + len))%nat with false by lia. reflexivity.
          -- replace ((pos <=? j - 1) && (j - 1 <? pos + len))%nat with true by lia. reflexivity.
      + (* first period, then doubling *)
        apply double_loop_rec; try lia.
        * split; [apply blit_length; lia|]. split.
          -- intros j Hj. rewrite nth_blit by lia.
             replace ((pos <=? j) && (j <? pos + dist))%nat with false by lia. reflexivity.
          -- intros j Hj. rewrite !nth_blit by lia.
             replace ((pos <=? j) && (j <? pos + dist))%nat with true by lia.
             replace ((pos <=? j - dist) && (j - dist <? pos + dist))%nat with false by lia.
             f_equal. lia.
        * left. exists 1%nat. lia.
  Qed.
End CopyProof.

(* ------------------------------------------------------------------ *)
(** * expandColorMap *)

Definition expand_color_map (ncolors bits : Z) (pal : list px) : list px :=
  let n := Z.to_nat (Z.min ncolors (Z.of_nat (length pal))) in
  let m := Z.to_nat (2 ^ (8 / 2 ^ bits)) in
  let e := undelta px_zero (firstn n pal) in
  firstn m (e ++ repeat px_zero (m - length e)).

Lemma undelta_length prev l : length (undelta prev l) = length l.
Proof. revert prev; induction l as [|x tl IH]; intros prev; cbn [undelta length]; [reflexivity|now rewrite IH]. Qed.

(** Looking an index up in the expanded map = the specification's lookup
    (palette entry, or transparent black beyond the palette), for every index a
    packed pixel can hold. *)
Theorem expand_color_map_eq : forall ncolors bits pal idx,
  0 <= bits <= 3 -> Z.of_nat (length pal) = ncolors -> ncolors <= 2 ^ (8 / 2 ^ bits) ->
  0 <= idx < 2 ^ (8 / 2 ^ bits) ->
  nth (Z.to_nat idx) (expand_color_map ncolors bits pal) px_zero =
  arr_get px_zero (arr_of_list (undelta px_zero pal)) idx.
Proof.
  intros ncolors bits pal idx Hb Hlen Hn Hidx.
  unfold expand_color_map. rewrite arr_of_list_get.
  rewrite Hlen, Z.min_id. rewrite <- Hlen, Nat2Z.id, firstn_all.
  set (e := undelta px_zero pal). set (m := Z.to_nat (2 ^ (8 / 2 ^ bits))).
  assert (He : length e = length pal) by apply undelta_length.
  assert (Hm : (length e <= m)%nat) by (unfold m; lia).
  rewrite firstn_all2 by (rewrite app_length, repeat_length; lia).
  destruct (idx <? Z.of_nat (length e)) eqn:E.
  - replace (0 <=? idx) with true by lia. cbn [andb].
    rewrite app_nth1 by lia. reflexivity.
  - replace ((0 <=? idx) && false)%bool with false by (destruct (0 <=? idx); reflexivity).
    rewrite app_nth2 by lia. apply nth_repeat.
Qed.
