(** C01 at model level, as one theorem: for every source image, every option set
    and every set of encoder *choices* that is valid, decoding the stream the
    model encoder emits gives the expected pixels.

    The model encoder: clean-up of transparent pixels (unless Exact), the forward
    transform chain chosen by the heuristics (transform list with tile data /
    palette = choices), and the emission of the residual image with the chosen
    colour cache, prefix codes and tokens ([Vp8lEmit.emit]).  [valid] is the
    validity predicate on the choices. *)
From Coq Require Import List ZArith Lia Bool.
From Webp Require Import Base.Res Vp8l.Vp8lPixel Vp8l.Vp8lArr Vp8l.Vp8lPrefix Vp8l.Vp8lCanon Vp8l.Vp8lTransforms
  Vp8l.Vp8lSpec Vp8l.Vp8lEmit Vp8l.Vp8lEntropy Vp8l.Vp8lCodeLens Vp8l.Vp8lEmitDecode Vp8l.Vp8lImport.
Import ListNotations.
Open Scope Z_scope.

(** source picture, already read as non-premultiplied 8-bit RGBA (see
    [Vp8lImport.rgba_unpremultiply_exact_fixed] for the *image.RGBA import) *)
Record src_image := mksrc { s_w : Z; s_h : Z; s_px : list px }.

Record ll_opts := mkopts { o_exact : bool }.   (* Quality / Method only steer the choices *)

Record choices := mkchoices {
  c_alpha : Z;                       (* alpha_is_used hint *)
  c_transforms : list transform;     (* the transforms chosen, in stream order, with their data *)
  c_tplans : list tplan;             (* how each transform and its data are written *)
  c_meta : option (Z * eplan);       (* meta prefix image: prefix bits and its coding, or none *)
  c_main : eplan }.                  (* colour cache, prefix codes and tokens of the residual image *)

Definition plan_of (img : src_image) (o : ll_opts) (c : choices) : plan :=
  mkplan (s_w img) (s_h img) (c_alpha c) (c_tplans c) (c_meta c) (c_main c).

(** what a round trip must return *)
Definition expected (img : src_image) (o : ll_opts) : image :=
  mkimage (s_w img) (s_h img) (map (cleanup (o_exact o)) (s_px img)).

(** validity of the choices *)
Definition valid (img : src_image) (o : ll_opts) (c : choices) : Prop :=
  let cleaned := map (cleanup (o_exact o)) (s_px img) in
  (* the stream is well formed: sizes, transform types at most once, code plans, tokens *)
  wf_plan (plan_of img o c) /\
  (* the transforms written are the transforms applied *)
  fst (sem_transforms (c_tplans c) (s_w img) (s_h img)) = c_transforms c /\
  (* every forward step is applicable (bytes; palette covers the image; sizes) *)
  Vp8lImport.chain_ok (c_transforms c) cleaned /\
  (* the tokens denote exactly the residual image *)
  sem_eimg (snd (sem_transforms (c_tplans c) (s_w img) (s_h img))) (c_main c)
  = forward_chain (c_transforms c) cleaned.

Theorem lossless_roundtrip : forall img o c,
  valid img o c -> decode (emit (plan_of img o c)) = Ok (expected img o).
Proof.
  intros img o c (Hwf & Hts & Hchain & Htok).
  rewrite (emit_decode _ Hwf). f_equal.
  unfold sem, plan_of, expected. cbn [p_transforms p_w p_h p_main].
  destruct (sem_transforms (c_tplans c) (s_w img) (s_h img)) as [ts cw] eqn:E.
  cbn [fst snd] in *. subst ts. rewrite Htok. f_equal.
  apply inverse_chain, Hchain.
Qed.

(** The only permitted difference of a round trip: a pixel comes back unchanged
    unless it is fully transparent and Exact is off, in which case it comes back
    as transparent black. *)
Corollary lossless_roundtrip_pixels : forall img o c,
  valid img o c ->
  exists im, decode (emit (plan_of img o c)) = Ok im /\ i_w im = s_w img /\ i_h im = s_h img /\
    i_px im = map (fun p => if negb (o_exact o) && (pa p =? 0) then px_zero else p) (s_px img).
Proof.
  intros img o c Hv. exists (expected img o). split; [now apply lossless_roundtrip|].
  unfold expected; cbn [i_w i_h i_px]. repeat split.
  apply map_ext. intros p. unfold cleanup. destruct (o_exact o); reflexivity.
Qed.

(* ------------------------------------------------------------------ *)
(** * The hypotheses are satisfiable: a 2x2 picture, subtract-green, two-symbol
      simple codes for green/red/blue, a one-symbol code for alpha. *)

Definition ex_r1 : px := mkpx 255 10 20 30.
Definition ex_r2 : px := mkpx 255 11 21 31.
Definition ex_src : src_image := mksrc 2 2 (map sg_inv [ex_r1; ex_r2; ex_r2; ex_r1]).
Definition ex_opts : ll_opts := mkopts true.
Definition ex_choices : choices :=
  mkchoices 0 [mktransform 2 0 2 2 []] [TPSubGreen] None
    (mkeplan 0 [[CSimple [20; 21]; CSimple [10; 11]; CSimple [30; 31]; CSimple [255]; CSimple [0]]]
             [TLit ex_r1; TLit ex_r2; TLit ex_r2; TLit ex_r1]).

Ltac used_tac := unfold used; split; [split; vm_compute; [discriminate|reflexivity]|vm_compute; discriminate].
Ltac wfpx_tac := unfold wf_px, chan_ok; cbn; lia.

Example ex_valid : valid ex_src ex_opts ex_choices.
Proof.
  unfold valid. split; [|split; [reflexivity|split]].
  - left. unfold wf_plan1. cbn [plan_of c_meta p_meta p_w p_h p_alpha p_transforms p_main ex_src ex_choices
                          s_w s_h c_alpha c_tplans c_main length sem_transforms snd].
    split; [reflexivity|]. split; [lia|]. split; [lia|]. split; [lia|]. split; [lia|].
    split; [cbn; repeat split|].
    unfold wf_eimg. cbn [ep_cache_bits ep_codes ep_tokens]. split; [left; reflexivity|].
    exists (CSimple [20; 21]), (CSimple [10; 11]), (CSimple [30; 31]), (CSimple [255]), (CSimple [0]).
    split; [reflexivity|]. cbv zeta.
    split; [cbn; lia|]. split; [cbn; lia|]. split; [cbn; lia|]. split; [cbn; lia|]. split; [cbn; lia|].
    split; [vm_compute; reflexivity|]. split; [vm_compute; reflexivity|]. split; [vm_compute; reflexivity|].
    split; [vm_compute; reflexivity|]. split; [vm_compute; reflexivity|].
    cbn [tokens_ok token_ok token_len].
    repeat match goal with
           | |- _ /\ _ => split
           | |- wf_px _ => wfpx_tac
           | |- used _ _ => used_tac
           | |- _ < _ => vm_compute; reflexivity
           | |- _ = _ => vm_compute; reflexivity
           end.
  - cbn [c_transforms ex_choices Vp8lImport.chain_ok]. split; [|exact I].
    split; [apply Forall_wf_reflect; vm_compute; reflexivity|]. right; right; left; reflexivity.
  - vm_compute. reflexivity.
Qed.

Example ex_roundtrip : decode (emit (plan_of ex_src ex_opts ex_choices)) = Ok (expected ex_src ex_opts).
Proof. exact (lossless_roundtrip _ _ _ ex_valid). Qed.
