(** Token level of the emitter/decoder pair: decoding the bits the emitter writes
    for a token list gives back exactly the pixels the token list denotes
    ([entropy_roundtrip]): literals (four prefix-coded channels), colour-cache
    references, backward references (length and distance prefix symbols with
    extra bits, plane codes), for one prefix-code group with or without colour
    cache. *)
From Coq Require Import List ZArith Lia Bool.
From Coq Require Import ZifyBool ZifyNat.
From Webp Require Import Base.Res Vp8l.Vp8lPixel Vp8l.Vp8lArr Vp8l.Vp8lPrefix Vp8l.Vp8lCanon Vp8l.Vp8lTransforms
  Vp8l.Vp8lSpec Vp8l.Vp8lEmit.
Import ListNotations.
Open Scope Z_scope.

Ltac Zify.zify_post_hook ::= Z.div_mod_to_equations.

(* ------------------------------------------------------------------ *)
(** * Length / distance prefix coding *)

Lemma putZ_read n v rest : 0 <= n -> 0 <= v < 2 ^ n -> read_bitsZ n (putZ n v ++ rest) = Ok (v, rest).
Proof.
  intros Hn Hv. unfold read_bitsZ, putZ. apply read_put_bits. now rewrite Z2Nat.id by lia.
Qed.

Lemma lz_roundtrip v rest : 1 <= v ->
  let '(sym, eb, ev) := lz_prefix v in
  lz_value sym (putZ eb ev ++ rest) = Ok (v, rest).
Proof.
  intros Hv. unfold lz_prefix. set (d := v - 1).
  destruct (d <? 2) eqn:E2.
  - unfold lz_value. replace (d <? 4) with true by lia. cbn [putZ]. unfold putZ. cbn [Z.to_nat put_bits app].
    f_equal. f_equal. unfold d. lia.
  - assert (Hd : 2 <= d) by lia.
    set (hb := Z.log2 d).
    assert (Hhb : 1 <= hb) by (unfold hb; apply Z.log2_le_pow2; lia).
    destruct (Z.log2_spec d ltac:(lia)) as [Hlo Hhi]. fold hb in Hlo, Hhi.
    set (P := 2 ^ (hb - 1)).
    assert (HP : 0 < P) by (apply Z.pow_pos_nonneg; lia).
    assert (E1 : 2 ^ hb = 2 * P).
    { unfold P. replace hb with (Z.succ (hb - 1)) at 1 by lia. rewrite Z.pow_succ_r by lia. reflexivity. }
    assert (E3 : 2 ^ Z.succ hb = 4 * P) by (rewrite Z.pow_succ_r by lia; lia).
    rewrite Z.shiftr_div_pow2 by lia. fold P.
    set (q := d / P). set (r := d mod P).
    assert (Hq : d = P * q + r /\ 0 <= r < P) by (unfold q, r; split; [apply Z.div_mod; lia|apply Z.mod_pos_bound; lia]).
    destruct Hq as [Hq Hr].
    assert (Hq23 : q = 2 \/ q = 3) by nia.
    unfold lz_value.
    destruct (2 * hb + q mod 2 <? 4) eqn:E4.
    + (* hb = 1: no extra bits *)
      assert (Hhb1 : hb = 1) by (destruct Hq23 as [Hq2|Hq2]; rewrite Hq2 in E4; lia).
      assert (P = 1) by (unfold P; rewrite Hhb1; reflexivity).
      replace (hb - 1) with 0 by lia. unfold putZ. cbn [Z.to_nat put_bits app].
      f_equal. f_equal. unfold d in *. destruct Hq23 as [Hq2|Hq2]; rewrite Hq2 in *; lia.
    + assert (Eeb : (2 * hb + q mod 2 - 2) / 2 = hb - 1) by (destruct Hq23 as [Hq2|Hq2]; rewrite Hq2; lia).
      rewrite Eeb. fold P.
      rewrite putZ_read by (try lia; fold P; lia). cbn [bind].
      f_equal. f_equal.
      assert (Em : (2 * hb + q mod 2) mod 2 = q mod 2) by (destruct Hq23 as [Hq2|Hq2]; rewrite Hq2; lia).
      rewrite Em. fold r.
      destruct Hq23 as [Hq2|Hq2]; rewrite Hq2 in *;
        [change (2 mod 2) with 0|change (3 mod 2) with 1]; unfold d in Hq; lia.
Qed.

(* ------------------------------------------------------------------ *)
(** * Copy helper *)

Lemma cycle_take_length src : src <> [] -> forall n cur, length (cycle_take n cur src) = n.
Proof.
  intros Hs. induction n as [|n IH]; intros cur; [reflexivity|].
  cbn [cycle_take]. destruct cur as [|x tl]; [destruct src as [|y tl]; [congruence|]|]; cbn [length]; now rewrite IH.
Qed.

Lemma copy_pixels_length n dist (acc : list px) : (1 <= dist)%nat -> acc <> [] -> length (copy_pixels n dist acc) = n.
Proof.
  intros Hd Ha. unfold copy_pixels. apply cycle_take_length.
  rewrite frev_rev. destruct acc as [|x tl]; [congruence|]. destruct dist; [lia|]. cbn [firstn rev].
  intros H. apply app_eq_nil in H. destruct H; discriminate.
Qed.

(* ------------------------------------------------------------------ *)
(** * One group *)

Definition used (lens : list Z) (s : Z) : Prop :=
  0 <= s < Z.of_nat (length lens) /\ nth (Z.to_nat s) lens 0 <> 0.

Section OneGroup.
  Variables lg lr lb la ld : list Z.              (* the five length vectors *)
  Variables tg tr tb ta td : tree.
  Hypothesis Htg : tree_of_lens lg = Ok tg.
  Hypothesis Htr : tree_of_lens lr = Ok tr.
  Hypothesis Htb : tree_of_lens lb = Ok tb.
  Hypothesis Hta : tree_of_lens la = Ok ta.
  Hypothesis Htd : tree_of_lens ld = Ok td.
  Variables cb w total : Z.

  Definition grp : group := mkgroup tg tr tb ta td.
  Definition gtabs : list (list (Z * bits)) := [code_list lg; code_list lr; code_list lb; code_list la; code_list ld].
  Definition ctx1 : ectx := mkectx w cb 0 0 arr_empty (arr_of_list [grp]).

  (** validity of a token at position [pos] *)
  Definition token_ok (pos : Z) (t : token) : Prop :=
    match t with
    | TLit p => wf_px p /\ used lg (pg p) /\ used lr (pr p) /\ used lb (pb p) /\ used la (pa p)
    | TCache k => 0 <= k /\ used lg (280 + k)
    | TCopy len dc =>
      1 <= len /\ 1 <= dc /\ 1 <= plane_to_dist w dc <= pos /\ len <= total - pos /\
      0 <= fst (fst (lz_prefix len)) < 24 /\
      used lg (256 + fst (fst (lz_prefix len))) /\ used ld (fst (fst (lz_prefix dc)))
    end.

  Fixpoint tokens_ok (pos : Z) (toks : list token) : Prop :=
    match toks with
    | [] => pos = total
    | t :: tl => pos < total /\ token_ok pos t /\ tokens_ok (pos + token_len t) tl
    end.

  Lemma group_at_ctx1 x y : group_at ctx1 x y = grp.
  Proof. reflexivity. Qed.

  Lemma sym_read lens t s rest : tree_of_lens lens = Ok t -> used lens s ->
    read_symbol t (code_word (code_list lens) s ++ rest) = Ok (s, rest).
  Proof. intros Ht [Hs Hn]. apply prefix_roundtrip; assumption. Qed.

  Theorem tokens_roundtrip : forall toks fuel pos x y cache acc rest,
    tokens_ok pos toks -> pos = Z.of_nat (length acc) -> (length toks < fuel)%nat ->
    pixels_loop fuel ctx1 total pos x y cache acc
                (emit_tokens w (fun _ _ => 0) (arr_of_list [gtabs]) toks pos ++ rest)
    = Ok (replay cb w toks cache acc, rest).
  Proof.
    induction toks as [|t tl IH]; intros fuel pos x y cache acc rest Hok Hpos Hfuel.
    - destruct fuel as [|f]; [cbn in Hfuel; lia|]. cbn [tokens_ok] in Hok.
      cbn [pixels_loop emit_tokens app replay]. replace (total <=? pos) with true by lia. reflexivity.
    - destruct fuel as [|f]; [cbn in Hfuel; lia|]. cbn [length] in Hfuel.
      destruct Hok as (Hlt & Htok & Hrest).
      cbn [pixels_loop emit_tokens]. replace (total <=? pos) with false by lia.
      rewrite group_at_ctx1.
      change (arr_get [] (arr_of_list [gtabs]) 0) with gtabs.
      cbn [e_w e_cache_bits ctx1 grp g_green g_red g_blue g_alpha g_dist].
      destruct t as [p|k|len dc]; cbn [emit_token token_len replay token_ok] in *.
      + destruct Htok as (Hwf & Hg & Hr & Hb & Ha).
        unfold tab_k, gtabs; cbn [nth].
        rewrite <- !app_assoc.
        rewrite (sym_read lg tg _ _ Htg Hg). cbn [bind].
        destruct Hwf as (Hwa & Hwr & Hwg & Hwb). unfold chan_ok in *.
        replace (pg p <? 256) with true by lia.
        rewrite (sym_read lr tr _ _ Htr Hr). cbn [bind].
        rewrite (sym_read lb tb _ _ Htb Hb). cbn [bind].
        rewrite (sym_read la ta _ _ Hta Ha). cbn [bind].
        destruct (next_xy w x y) as [x' y'].
        replace (mkpx (pa p) (pr p) (pg p) (pb p)) with p by (destruct p; reflexivity).
        apply IH; [exact Hrest|cbn [length]; lia|lia].
      + destruct Htok as (Hk & Hg).
        unfold tab_k, gtabs; cbn [nth].
        rewrite <- !app_assoc.
        rewrite (sym_read lg tg _ _ Htg Hg). cbn [bind].
        replace (280 + k <? 256) with false by lia. replace (280 + k <? 280) with false by lia.
        replace (280 + k - 280) with k by lia.
        destruct (next_xy w x y) as [x' y'].
        apply IH; [exact Hrest|cbn [length]; lia|lia].
      + destruct Htok as (Hlen & Hdc & Hdist & Hfit & H24 & Hg & Hd).
        pose proof (lz_roundtrip len) as Hlz1. pose proof (lz_roundtrip dc) as Hlz2.
        destruct (lz_prefix len) as [[ls lxb] lxv]. destruct (lz_prefix dc) as [[ds deb] dev].
        cbn [fst] in *.
        unfold tab_k, gtabs; cbn [nth].
        rewrite <- !app_assoc.
        rewrite (sym_read lg tg _ _ Htg Hg). cbn [bind].
        destruct Hg as [[Hg0 _] _].
        replace (256 + ls <? 256) with false by lia. replace (256 + ls <? 280) with true by lia.
        replace (256 + ls - 256) with ls by lia.
        rewrite (Hlz1 _ Hlen). cbn [bind].
        rewrite (sym_read ld td _ _ Htd Hd). cbn [bind].
        rewrite (Hlz2 _ Hdc). cbn [bind].
        replace ((pos <? plane_to_dist w dc) || (total - pos <? len))%bool with false by lia.
        apply IH; [exact Hrest| |lia].
        rewrite rev_append_rev, app_length, rev_length, copy_pixels_length; [lia|lia|].
        destruct acc; [cbn [length] in Hpos; lia|congruence].
  Qed.

  (** The pixels of an entropy-coded image with one group. *)
  Corollary entropy_roundtrip : forall toks h rest,
    total = w * h -> 0 <= total -> tokens_ok 0 toks -> (Z.of_nat (length toks) <= total) ->
    decode_pixels ctx1 w h (emit_tokens w (fun _ _ => 0) (arr_of_list [gtabs]) toks 0 ++ rest)
    = Ok (frev (replay cb w toks arr_empty []), rest).
  Proof.
    intros toks h rest Htot H0 Hok Hn. unfold decode_pixels. rewrite <- Htot.
    rewrite (tokens_roundtrip toks _ 0 0 0 arr_empty [] rest Hok eq_refl) by lia.
    reflexivity.
  Qed.
End OneGroup.

(** every token yields at least one pixel, so a valid token list is never longer
    than the image *)
Lemma tokens_ok_length lg lr lb la ld w total : forall toks pos,
  tokens_ok lg lr lb la ld w total pos toks -> 0 <= pos -> Z.of_nat (length toks) <= total - pos.
Proof.
  induction toks as [|t tl IH]; intros pos Hok Hp; cbn [tokens_ok length] in *; [lia|].
  destruct Hok as (Hlt & Htok & Hrest).
  assert (1 <= token_len t).
  { destruct t; cbn [token_len token_ok] in *; lia. }
  specialize (IH _ Hrest ltac:(lia)). lia.
Qed.

(* ------------------------------------------------------------------ *)
(** * Several groups selected by a meta prefix image *)

Record glens := mkglens { gl_g : list Z; gl_r : list Z; gl_b : list Z; gl_a : list Z; gl_d : list Z }.

Definition gtabs_of (gl : glens) : list (list (Z * bits)) :=
  [code_list (gl_g gl); code_list (gl_r gl); code_list (gl_b gl); code_list (gl_a gl); code_list (gl_d gl)].

Definition grp_ok (gl : glens) (g : group) : Prop :=
  tree_of_lens (gl_g gl) = Ok (g_green g) /\ tree_of_lens (gl_r gl) = Ok (g_red g) /\
  tree_of_lens (gl_b gl) = Ok (g_blue g) /\ tree_of_lens (gl_a gl) = Ok (g_alpha g) /\
  tree_of_lens (gl_d gl) = Ok (g_dist g).

Definition glens_dummy : glens := mkglens [] [] [] [] [].

Lemma Forall2_nth' {A B} (R : A -> B -> Prop) l1 l2 d1 d2 : Forall2 R l1 l2 ->
  forall i, (i < length l1)%nat -> R (nth i l1 d1) (nth i l2 d2).
Proof.
  induction 1 as [|x y l1 l2 Hxy _ IH]; intros i Hi; [cbn in Hi; lia|].
  destruct i; cbn [nth]; [assumption|]. apply IH. cbn in Hi. lia.
Qed.

Lemma Forall2_len {A B} (R : A -> B -> Prop) l1 l2 : Forall2 R l1 l2 -> length l1 = length l2.
Proof. induction 1; cbn [length]; [reflexivity|now f_equal]. Qed.

Lemma next_xy_pos w pos : 1 <= w -> 0 <= pos ->
  next_xy w (pos mod w) (pos / w) = ((pos + 1) mod w, (pos + 1) / w).
Proof.
  intros Hw Hp. unfold next_xy.
  pose proof (Z.div_mod pos w ltac:(lia)) as E. pose proof (Z.mod_pos_bound pos w ltac:(lia)) as B.
  destruct (pos mod w + 1 <? w) eqn:El.
  - assert (Hq : (pos + 1) / w = pos / w).
    { symmetry. apply (Z.div_unique (pos + 1) w (pos / w) (pos mod w + 1)); lia. }
    assert (Hr : (pos + 1) mod w = pos mod w + 1).
    { symmetry. apply (Z.mod_unique (pos + 1) w (pos / w) (pos mod w + 1)); lia. }
    now rewrite Hq, Hr.
  - assert (Hq : (pos + 1) / w = pos / w + 1).
    { symmetry. apply (Z.div_unique (pos + 1) w (pos / w + 1) 0); lia. }
    assert (Hr : (pos + 1) mod w = 0).
    { symmetry. apply (Z.mod_unique (pos + 1) w (pos / w + 1) 0); lia. }
    now rewrite Hq, Hr.
Qed.

Section ManyGroups.
  Variable gls : list glens.
  Variable gs : list group.
  Hypothesis Hgs : Forall2 grp_ok gls gs.
  Variables cb w total mb mw : Z.
  Variable meta : arr Z.
  Hypothesis Hw : 1 <= w.

  Definition gidx (x y : Z) : Z := if mb =? 0 then 0 else arr_get 0 meta (tile_index mw mb x y).
  Definition ctxm : ectx := mkectx w cb mb mw meta (arr_of_list gs).
  Definition tabsm : arr (list (list (Z * bits))) := arr_of_list (map gtabs_of gls).

  Definition token_ok_m (pos : Z) (t : token) : Prop :=
    let i := gidx (pos mod w) (pos / w) in
    0 <= i < Z.of_nat (length gls) /\
    let gl := nth (Z.to_nat i) gls glens_dummy in
    token_ok (gl_g gl) (gl_r gl) (gl_b gl) (gl_a gl) (gl_d gl) w total pos t.

  Fixpoint tokens_ok_m (pos : Z) (toks : list token) : Prop :=
    match toks with
    | [] => pos = total
    | t :: tl => pos < total /\ token_ok_m pos t /\ tokens_ok_m (pos + token_len t) tl
    end.

  Lemma group_at_ctxm x y : group_at ctxm x y = arr_get group_dummy (arr_of_list gs) (gidx x y).
  Proof. unfold group_at, ctxm, gidx. cbn [e_meta_bits e_groups e_meta e_meta_w]. now destruct (mb =? 0). Qed.

  Theorem tokens_roundtrip_m : forall toks fuel pos cache acc rest,
    tokens_ok_m pos toks -> pos = Z.of_nat (length acc) -> (length toks < fuel)%nat ->
    pixels_loop fuel ctxm total pos (pos mod w) (pos / w) cache acc
                (emit_tokens w gidx tabsm toks pos ++ rest)
    = Ok (replay cb w toks cache acc, rest).
  Proof.
    induction toks as [|t tl IH]; intros fuel pos cache acc rest Hok Hpos Hfuel.
    - destruct fuel as [|f]; [cbn in Hfuel; lia|]. cbn [tokens_ok_m] in Hok.
      cbn [pixels_loop emit_tokens app replay]. replace (total <=? pos) with true by lia. reflexivity.
    - destruct fuel as [|f]; [cbn in Hfuel; lia|]. cbn [length] in Hfuel.
      destruct Hok as (Hlt & (Hi & Htok) & Hrest).
      assert (Hp0 : 0 <= pos) by lia.
      cbn [pixels_loop emit_tokens]. replace (total <=? pos) with false by lia.
      rewrite group_at_ctxm.
      set (i := gidx (pos mod w) (pos / w)) in *.
      assert (Hlen : length gs = length gls) by (symmetry; eapply Forall2_len; exact Hgs).
      rewrite arr_of_list_get. replace ((0 <=? i) && (i <? Z.of_nat (length gs)))%bool with true by lia.
      unfold tabsm. rewrite arr_of_list_get, map_length.
      replace ((0 <=? i) && (i <? Z.of_nat (length gls)))%bool with true by lia.
      rewrite (nth_indep _ [] (gtabs_of glens_dummy)) by (rewrite map_length; lia).
      rewrite map_nth.
      pose proof (Forall2_nth' grp_ok gls gs glens_dummy group_dummy Hgs (Z.to_nat i) ltac:(lia)) as Hg.
      set (gl := nth (Z.to_nat i) gls glens_dummy) in *.
      set (g := nth (Z.to_nat i) gs group_dummy) in *.
      destruct Hg as (Htg & Htr & Htb & Hta & Htd).
      cbn [e_w e_cache_bits ctxm].
      destruct t as [p|k|len dc]; cbn [emit_token token_len replay token_ok] in *.
      + destruct Htok as (Hwf & Hg' & Hr & Hb & Ha).
        unfold tab_k, gtabs_of; cbn [nth].
        rewrite <- !app_assoc.
        rewrite (sym_read _ _ _ _ Htg Hg'). cbn [bind].
        destruct Hwf as (Hwa & Hwr & Hwg & Hwb). unfold chan_ok in *.
        replace (pg p <? 256) with true by lia.
        rewrite (sym_read _ _ _ _ Htr Hr). cbn [bind].
        rewrite (sym_read _ _ _ _ Htb Hb). cbn [bind].
        rewrite (sym_read _ _ _ _ Hta Ha). cbn [bind].
        rewrite (next_xy_pos w pos Hw Hp0).
        replace (mkpx (pa p) (pr p) (pg p) (pb p)) with p by (destruct p; reflexivity).
        apply IH; [exact Hrest|cbn [length]; lia|lia].
      + destruct Htok as (Hk & Hg').
        unfold tab_k, gtabs_of; cbn [nth].
        rewrite <- !app_assoc.
        rewrite (sym_read _ _ _ _ Htg Hg'). cbn [bind].
        replace (280 + k <? 256) with false by lia. replace (280 + k <? 280) with false by lia.
        replace (280 + k - 280) with k by lia.
        rewrite (next_xy_pos w pos Hw Hp0).
        apply IH; [exact Hrest|cbn [length]; lia|lia].
      + destruct Htok as (Hlen' & Hdc & Hdist & Hfit & H24 & Hg' & Hd).
        pose proof (lz_roundtrip len) as Hlz1. pose proof (lz_roundtrip dc) as Hlz2.
        destruct (lz_prefix len) as [[ls lxb] lxv]. destruct (lz_prefix dc) as [[ds deb] dev].
        cbn [fst] in *.
        unfold tab_k, gtabs_of; cbn [nth].
        rewrite <- !app_assoc.
        rewrite (sym_read _ _ _ _ Htg Hg'). cbn [bind].
        replace (256 + ls <? 256) with false by lia. replace (256 + ls <? 280) with true by lia.
        replace (256 + ls - 256) with ls by lia.
        rewrite (Hlz1 _ Hlen'). cbn [bind].
        rewrite (sym_read _ _ _ _ Htd Hd). cbn [bind].
        rewrite (Hlz2 _ Hdc). cbn [bind].
        replace ((pos <? plane_to_dist w dc) || (total - pos <? len))%bool with false by lia.
        apply IH; [exact Hrest| |lia].
        rewrite rev_append_rev, app_length, rev_length, copy_pixels_length; [lia|lia|].
        destruct acc; [cbn [length] in Hpos; lia|congruence].
  Qed.

  Lemma tokens_ok_m_length : forall toks pos, tokens_ok_m pos toks -> 0 <= pos -> Z.of_nat (length toks) <= total - pos.
  Proof.
    induction toks as [|t tl IH]; intros pos Hok Hp; cbn [tokens_ok_m length] in *; [lia|].
    destruct Hok as (Hlt & (_ & Htok) & Hrest).
    assert (1 <= token_len t) by (destruct t; cbn [token_len token_ok] in *; lia).
    specialize (IH _ Hrest ltac:(lia)). lia.
  Qed.

  Corollary entropy_roundtrip_m : forall toks h rest,
    total = w * h -> 0 <= total -> tokens_ok_m 0 toks ->
    decode_pixels ctxm w h (emit_tokens w gidx tabsm toks 0 ++ rest)
    = Ok (frev (replay cb w toks arr_empty []), rest).
  Proof.
    intros toks h rest Htot H0 Hok. unfold decode_pixels. rewrite <- Htot.
    pose proof (tokens_ok_m_length toks 0 Hok ltac:(lia)) as Hn.
    pose proof (tokens_roundtrip_m toks (S (Z.to_nat total)) 0 arr_empty [] rest Hok eq_refl ltac:(lia)) as H.
    rewrite Z.mod_0_l, Z.div_0_l in H by lia. rewrite H. reflexivity.
  Qed.
End ManyGroups.
