(** [bitreader_window_refines]: on every byte string, every sequence of
    ReadBits(n), 0 <= n <= 24, that stays inside the data returns exactly the
    bits of the specification's bit-list reader, and the end-of-stream flag stays
    clear; the read that first crosses the end of the data raises the flag. *)
From Coq Require Import List ZArith Lia Bool.
From Coq Require Import ZifyBool ZifyNat.
From Webp Require Import Base.Res Vp8l.Vp8lPrefix Vp8l.Vp8lBitReader.
Import ListNotations.
Open Scope Z_scope.

Ltac Zify.zify_post_hook ::= idtac.

(* ------------------------------------------------------------------ *)
(** * Arithmetic of windows over one big little-endian integer *)

Lemma pow2_pos k : 0 <= k -> 0 < 2 ^ k.
Proof. intros. apply Z.pow_pos_nonneg; lia. Qed.

Lemma pow2_nz k : 0 <= k -> 2 ^ k <> 0.
Proof. intros H. pose proof (pow2_pos k H). lia. Qed.

Ltac p2 := first [apply pow2_pos; lia | apply pow2_nz; lia | lia].

Lemma div_pow_pow V a b : 0 <= a -> 0 <= b -> V / 2 ^ a / 2 ^ b = V / 2 ^ (a + b).
Proof. intros Ha Hb. rewrite Z.div_div by p2. now rewrite <- Z.pow_add_r by assumption. Qed.

Lemma mod_pow_div X a b : 0 <= b <= a -> (X mod 2 ^ a) / 2 ^ b = (X / 2 ^ b) mod 2 ^ (a - b).
Proof.
  intros H. replace (2 ^ a) with (2 ^ b * 2 ^ (a - b)) by (rewrite <- Z.pow_add_r by lia; f_equal; lia).
  rewrite Z.rem_mul_r by p2.
  rewrite Z.mul_comm, Z.div_add by p2.
  rewrite Z.div_small by (apply Z.mod_pos_bound, pow2_pos; lia). reflexivity.
Qed.

Lemma mod_mod_pow X a b : 0 <= b <= a -> (X mod 2 ^ a) mod 2 ^ b = X mod 2 ^ b.
Proof.
  intros H. replace (2 ^ a) with (2 ^ b * 2 ^ (a - b)) by (rewrite <- Z.pow_add_r by lia; f_equal; lia).
  rewrite Z.rem_mul_r by p2.
  rewrite Z.mul_comm, Z.mod_add by p2.
  apply Z.mod_mod. p2.
Qed.

(** shifting the 64-bit window by one byte *)
Lemma window_shift X : 0 <= X ->
  (X mod 2 ^ 64) / 256 + ((X / 2 ^ 64) mod 256) * 2 ^ 56 = (X / 256) mod 2 ^ 64.
Proof.
  intros HX.
  change 256 with (2 ^ 8). rewrite (mod_pow_div X 64 8) by lia. change (64 - 8) with 56.
  set (Y := X / 2 ^ 8).
  assert (E : X / 2 ^ 64 = Y / 2 ^ 56) by (unfold Y; rewrite div_pow_pow by lia; reflexivity).
  rewrite E.
  change (2 ^ 64) with (2 ^ 56 * 2 ^ 8). rewrite (Z.rem_mul_r Y (2 ^ 56) (2 ^ 8)) by lia. lia.
Qed.

(* ------------------------------------------------------------------ *)
(** * The byte string as one integer *)

Definition bytes_ok (d : list Z) : Prop := Forall (fun b => 0 <= b < 256) d.

Lemma le_value_bound d : bytes_ok d -> 0 <= le_value d < 2 ^ (8 * Z.of_nat (length d)).
Proof.
  induction 1 as [|b tl Hb _ IH]; [cbn; lia|].
  cbn [le_value length]. rewrite Nat2Z.inj_succ.
  replace (8 * Z.succ (Z.of_nat (length tl))) with (8 + 8 * Z.of_nat (length tl)) by lia.
  rewrite Z.pow_add_r by lia. change (2 ^ 8) with 256. lia.
Qed.

Lemma le_value_byte d : bytes_ok d -> forall i, 0 <= i ->
  byte_at d i = (le_value d / 2 ^ (8 * i)) mod 256.
Proof.
  induction 1 as [|b tl Hb Htl IH]; intros i Hi.
  - unfold byte_at. cbn [le_value]. rewrite Z.div_0_l by p2.
    destruct (Z.to_nat i); reflexivity.
  - unfold byte_at in *. cbn [le_value].
    destruct (Z.eq_dec i 0) as [->|Hne].
    + cbn [Z.to_nat nth]. change (2 ^ (8 * 0)) with 1. rewrite Z.div_1_r.
      replace (b + 256 * le_value tl) with (b + le_value tl * 256) by lia.
      rewrite Z.mod_add by lia. symmetry. apply Z.mod_small. exact Hb.
    + replace (Z.to_nat i) with (S (Z.to_nat (i - 1))) by lia. cbn [nth].
      rewrite IH by lia.
      replace (8 * i) with (8 + 8 * (i - 1)) by lia. rewrite Z.pow_add_r by lia.
      rewrite <- Z.div_div by p2. change (2 ^ 8) with 256.
      replace ((b + 256 * le_value tl) / 256) with (le_value tl)
        by (replace (b + 256 * le_value tl) with (b + le_value tl * 256) by lia;
            rewrite Z.div_add by lia; rewrite (Z.div_small b) by lia; lia).
      reflexivity.
Qed.

Lemma le_value_firstn d : bytes_ok d -> forall n, le_value (firstn n d) = le_value d mod 2 ^ (8 * Z.of_nat n).
Proof.
  induction 1 as [|b tl Hb Htl IH]; intros n.
  - rewrite firstn_nil. cbn [le_value]. now rewrite Z.mod_0_l by p2.
  - destruct n as [|n]; [cbn; now rewrite Z.mod_1_r|].
    cbn [firstn le_value]. rewrite IH. rewrite Nat2Z.inj_succ.
    replace (8 * Z.succ (Z.of_nat n)) with (8 + 8 * Z.of_nat n) by lia. rewrite Z.pow_add_r by lia.
    change (2 ^ 8) with 256.
    rewrite (Z.rem_mul_r (b + 256 * le_value tl) 256 (2 ^ (8 * Z.of_nat n))) by p2.
    replace (b + 256 * le_value tl) with (b + le_value tl * 256) by lia.
    rewrite Z.mod_add, Z.div_add by lia.
    rewrite (Z.mod_small b), (Z.div_small b) by lia. rewrite Z.add_0_l. lia.
Qed.

(* ------------------------------------------------------------------ *)
(** * Specification side: the bit list of the byte string *)

Lemma byte_bits_value_small : forall n b, 0 <= b < 2 ^ Z.of_nat n -> bits_value (byte_bits n b) = b.
Proof.
  induction n as [|n IH]; intros b Hb; [cbn in *; lia|].
  cbn [byte_bits bits_value].
  assert (E : 2 ^ Z.of_nat (S n) = 2 * 2 ^ Z.of_nat n) by (rewrite Nat2Z.inj_succ, Z.pow_succ_r by lia; reflexivity).
  rewrite IH by (split; [apply Z.div_pos; lia|apply Z.div_lt_upper_bound; lia]).
  rewrite (Z.div_mod b 2) at 3 by lia. rewrite Zmod_odd. destruct (Z.odd b); lia.
Qed.

Lemma bits_value_app a b : bits_value (a ++ b) = bits_value a + 2 ^ Z.of_nat (length a) * bits_value b.
Proof.
  induction a as [|x a IH]; [cbn [app bits_value length]; change (2 ^ Z.of_nat 0) with 1; lia|].
  cbn [app bits_value length]. rewrite IH, Nat2Z.inj_succ, Z.pow_succ_r by lia. lia.
Qed.

Lemma byte_bits_length n b : length (byte_bits n b) = n.
Proof. revert b; induction n as [|n IH]; intros b; cbn [byte_bits length]; [reflexivity|now rewrite IH]. Qed.

Lemma bits_of_bytes_value d : bytes_ok d -> bits_value (bits_of_bytes d) = le_value d.
Proof.
  induction 1 as [|b tl Hb _ IH]; [reflexivity|].
  unfold bits_of_bytes in *. cbn [flat_map le_value]. rewrite bits_value_app, byte_bits_length, IH.
  rewrite byte_bits_value_small by (cbn; lia). reflexivity.
Qed.

Lemma bits_of_bytes_length d : length (bits_of_bytes d) = (8 * length d)%nat.
Proof.
  induction d as [|b tl IH]; [reflexivity|]. unfold bits_of_bytes in *. cbn [flat_map length].
  rewrite app_length, byte_bits_length, IH. lia.
Qed.

Lemma bits_value_nonneg' l : 0 <= bits_value l.
Proof. induction l as [|b tl IH]; cbn [bits_value]; [lia|]. destruct b; lia. Qed.

Lemma read_bits_value : forall n s, (n <= length s)%nat ->
  read_bits n s = Ok (bits_value s mod 2 ^ Z.of_nat n, skipn n s).
Proof.
  induction n as [|n IH]; intros s Hn.
  - cbn [read_bits skipn]. change (2 ^ Z.of_nat 0) with 1. now rewrite Z.mod_1_r.
  - destruct s as [|b tl]; [cbn in Hn; lia|]. cbn [read_bits skipn bits_value]. cbn [length] in Hn.
    rewrite IH by lia. cbn [bind]. f_equal. f_equal.
    rewrite Nat2Z.inj_succ, Z.pow_succ_r by lia.
    pose proof (bits_value_nonneg' tl).
    rewrite Z.rem_mul_r by p2.
    replace ((if b then 1 else 0) + 2 * bits_value tl) with ((if b then 1 else 0) + bits_value tl * 2) by lia.
    rewrite Z.mod_add, Z.div_add by lia. destruct b; cbn; lia.
Qed.

Lemma bits_value_skipn : forall n s, bits_value (skipn n s) = bits_value s / 2 ^ Z.of_nat n.
Proof.
  induction n as [|n IH]; intros s; [cbn [skipn]; change (2 ^ Z.of_nat 0) with 1; now rewrite Z.div_1_r|].
  destruct s as [|b tl].
  - cbn [skipn bits_value]. now rewrite Z.div_0_l by p2.
  - cbn [skipn bits_value]. rewrite IH, Nat2Z.inj_succ, Z.pow_succ_r by lia.
    rewrite <- Z.div_div by p2.
    replace ((if b then 1 else 0) + 2 * bits_value tl) with ((if b then 1 else 0) + bits_value tl * 2) by lia.
    rewrite Z.div_add by lia. destruct b; reflexivity.
Qed.

(* ------------------------------------------------------------------ *)
(** * The window invariant *)

Section Reader.
  Variable data : list Z.
  Hypothesis Hdata : bytes_ok data.
  Let V := le_value data.
  Let L := Z.of_nat (length data).

  Definition base (r : breader) : Z := if L <? 8 then 0 else br_pos r - 8.

  (** [p] = number of bits consumed so far *)
  Definition pinv (r : breader) (p : Z) : Prop :=
    br_eos r = false /\ br_data r = data /\ 0 <= br_bit r /\ br_pos r <= L /\
    (L < 8 -> br_pos r = L) /\ (8 <= L -> 8 <= br_pos r) /\
    br_val r = (V / 2 ^ (8 * base r)) mod 2 ^ 64 /\ p = 8 * base r + br_bit r.

  Definition inv (r : breader) (p : Z) : Prop :=
    pinv r p /\ (br_pos r < L -> br_bit r < 8) /\ p <= 8 * L.

  Lemma V_bound : 0 <= V < 2 ^ (8 * L).
  Proof. unfold V, L. apply le_value_bound, Hdata. Qed.

  Lemma inv_new : inv (br_new data) 0.
  Proof.
    unfold inv, pinv, br_new, base. cbn [br_eos br_data br_bit br_pos br_val].
    rewrite (le_value_firstn data Hdata). fold V.
    pose proof V_bound as VB.
    destruct (L <? 8) eqn:E.
    - assert (Nat.min 8 (length data) = length data) by lia. rewrite H. fold L.
      change (2 ^ (8 * 0)) with 1. rewrite Z.div_1_r.
      assert (2 ^ (8 * L) <= 2 ^ 64) by (apply Z.pow_le_mono_r; lia).
      rewrite (Z.mod_small V (2 ^ (8 * L))) by lia. rewrite (Z.mod_small V (2 ^ 64)) by lia.
      repeat split; try lia.
    - assert (Nat.min 8 (length data) = 8%nat) by lia. rewrite H.
      change (Z.of_nat 8 - 8) with 0. change (2 ^ (8 * 0)) with 1. rewrite Z.div_1_r.
      change (8 * Z.of_nat 8) with 64.
      repeat split; try lia.
  Qed.

  Lemma shift_loop_inv : forall fuel r p, pinv r p -> (Z.to_nat (br_bit r / 8) < fuel)%nat ->
    pinv (br_shift_loop fuel r) p /\
    (br_pos (br_shift_loop fuel r) < L -> br_bit (br_shift_loop fuel r) < 8).
  Proof.
    induction fuel as [|fuel IH]; intros r p Hp Hf; [lia|].
    cbn [br_shift_loop].
    destruct Hp as (He & Hd & Hb & Hpos & Hs & Hl & Hv & Hpp).
    assert (ELen : br_len r = L) by (unfold br_len; rewrite Hd; reflexivity).
    rewrite ELen.
    destruct ((8 <=? br_bit r) && (br_pos r <? L))%bool eqn:E.
    - assert (H8 : 8 <= br_bit r) by lia. assert (Hlt : br_pos r < L) by lia.
      assert (HL8 : 8 <= L) by (destruct (Z.lt_ge_cases L 8) as [Hc|Hc]; [specialize (Hs Hc); lia|exact Hc]).
      apply IH.
      + unfold pinv, base in *. cbn [br_eos br_data br_bit br_pos br_val].
        replace (L <? 8) with false in * by lia.
        split; [exact He|]. split; [exact Hd|]. split; [lia|]. split; [lia|]. split; [lia|]. split; [lia|].
        split; [|lia].
        rewrite Hd, (le_value_byte data Hdata) by lia. fold V.
        rewrite Hv.
        set (X := V / 2 ^ (8 * (br_pos r - 8))).
        assert (HX : 0 <= X) by (apply Z.div_pos; [apply V_bound|p2]).
        replace (V / 2 ^ (8 * br_pos r)) with (X / 2 ^ 64)
          by (unfold X; rewrite div_pow_pow by lia; f_equal; f_equal; lia).
        rewrite (window_shift X HX).
        f_equal. unfold X. change 256 with (2 ^ 8). rewrite div_pow_pow by lia. f_equal. f_equal. lia.
      + cbn [br_bit].
        assert (Ediv : (br_bit r - 8) / 8 = br_bit r / 8 - 1).
        { replace (br_bit r - 8) with (br_bit r + (-1) * 8) by lia. rewrite Z.div_add by lia. lia. }
        rewrite Ediv. assert (1 <= br_bit r / 8) by (apply Z.div_le_lower_bound; lia). lia.
    - split; [unfold pinv; repeat split; assumption|]. intros Hlt. lia.
  Qed.

  (** one ReadBits that stays inside the data *)
  Lemma read_bits_inv r p n : inv r p -> 0 <= n <= 24 -> p + n <= 8 * L ->
    fst (br_read_bits n r) = (V / 2 ^ p) mod 2 ^ n /\ inv (snd (br_read_bits n r)) (p + n).
  Proof.
    intros ((He & Hd & Hb & Hpos & Hs & Hl & Hv & Hpp) & Hsmall & Hple) Hn Hfit.
    unfold br_read_bits. rewrite He. cbn [negb andb].
    replace ((0 <=? n) && (n <=? 24))%bool with true by lia. cbn [fst snd].
    pose proof V_bound as VB.
    assert (Hbn : br_bit r + n <= 64).
    { unfold base in Hpp. destruct (L <? 8) eqn:E; [lia|].
      destruct (Z.lt_ge_cases (br_pos r) L) as [Hc|Hc]; [specialize (Hsmall Hc); lia|lia]. }
    split.
    - (* the value *)
      unfold br_prefetch.
      destruct (Z.eq_dec n 0) as [->|Hn0]; [change (2 ^ 0) with 1; now rewrite !Z.mod_1_r|].
      assert (Hb64 : br_bit r < 64) by lia.
      rewrite (Z.mod_small (br_bit r) 64) by lia.
      rewrite Hv, mod_pow_div by lia.
      rewrite (mod_mod_pow _ 32 n) by lia.
      rewrite (mod_mod_pow _ (64 - br_bit r) n) by lia.
      rewrite div_pow_pow by (unfold base; destruct (L <? 8) eqn:E8; lia).
      rewrite Hpp. reflexivity.
    - (* the new state *)
      unfold br_shift_bytes. cbv zeta.
      set (r1 := mkbr (br_val r) (br_data r) (br_pos r) (br_bit r + n) false).
      assert (Hp1 : pinv r1 (p + n)).
      { unfold pinv, base, r1 in *. cbn [br_eos br_data br_bit br_pos br_val].
        repeat split; try assumption; lia. }
      destruct (shift_loop_inv (S (Z.to_nat (br_bit r1 / 8))) r1 (p + n) Hp1 ltac:(lia)) as (Hp2 & Hsm2).
      set (r2 := br_shift_loop (S (Z.to_nat (br_bit r1 / 8))) r1) in *.
      assert (Hne : br_is_eos r2 = false).
      { destruct Hp2 as (He2 & Hd2 & Hb2 & Hpos2 & Hs2 & Hl2 & Hv2 & Hpp2).
        unfold br_is_eos. rewrite He2. cbn [orb].
        assert (ELen : br_len r2 = L) by (unfold br_len; rewrite Hd2; reflexivity). rewrite ELen.
        destruct (br_pos r2 =? L) eqn:Epos; [|reflexivity]. cbn [andb].
        unfold base in Hpp2. destruct (L <? 8) eqn:E8; lia. }
      rewrite Hne. split; [exact Hp2|]. split; [exact Hsm2|lia].
  Qed.
End Reader.

(* ------------------------------------------------------------------ *)
(** * Sequences of reads *)

Lemma skipn_skipn' {A} : forall a b (l : list A), skipn a (skipn b l) = skipn (b + a) l.
Proof.
  intros a b. revert a. induction b as [|b IH]; intros a l; [reflexivity|].
  destruct l as [|x l]; [now rewrite !skipn_nil|]. cbn [skipn Nat.add]. apply IH.
Qed.

(** the specification: read the same field widths from the bit list *)
Fixpoint spec_reads (ns : list Z) (s : bits) : list Z :=
  match ns with
  | [] => []
  | n :: tl => match read_bitsZ n s with
               | Ok (v, s') => v :: spec_reads tl s'
               | _ => []
               end
  end.

Definition total (ns : list Z) : Z := fold_right Z.add 0 ns.

Lemma run_refines data : bytes_ok data -> forall ns r p,
  inv data r p -> Forall (fun n => 0 <= n <= 24) ns -> p + total ns <= 8 * Z.of_nat (length data) ->
  br_run ns r = map (fun v => (v, false)) (spec_reads ns (skipn (Z.to_nat p) (bits_of_bytes data))).
Proof.
  intros Hd. induction ns as [|n tl IH]; intros r p Hinv Hns Htot; [reflexivity|].
  inversion Hns as [|? ? Hn Htl]; subst. cbn [total fold_right] in Htot. fold (total tl) in Htot.
  assert (Htl0 : 0 <= total tl).
  { clear - Htl. induction Htl as [|x l Hx _ IHl]; cbn [total fold_right]; [lia|]. fold (total l). lia. }
  assert (Hp0 : 0 <= p).
  { destruct Hinv as ((_ & _ & Hb & _ & _ & Hl & _ & Hpp) & _ & _). unfold base in Hpp.
    destruct (Z.of_nat (length data) <? 8) eqn:E; lia. }
  destruct (read_bits_inv data Hd r p n Hinv Hn ltac:(lia)) as [Hv Hinv'].
  cbn [br_run spec_reads]. replace (0 <=? n) with true by lia.
  destruct (br_read_bits n r) as [v r'] eqn:Er. cbn [fst snd] in Hv, Hinv'.
  unfold read_bitsZ.
  set (s := skipn (Z.to_nat p) (bits_of_bytes data)).
  assert (Hlen : (Z.to_nat n <= length s)%nat).
  { unfold s. rewrite skipn_length, bits_of_bytes_length. lia. }
  rewrite (read_bits_value (Z.to_nat n) s Hlen). cbn [map].
  assert (Hval : bits_value s mod 2 ^ Z.of_nat (Z.to_nat n) = v).
  { unfold s. rewrite bits_value_skipn, (bits_of_bytes_value data Hd), !Z2Nat.id by lia. symmetry. exact Hv. }
  rewrite Hval. f_equal.
  - f_equal.
    pose proof Hinv' as ((He & Hd'' & Hb & Hpos & Hs & Hl & _ & Hpp) & Hsm & Hle).
    unfold br_is_eos. rewrite He. cbn [orb].
    assert (ELen : br_len r' = Z.of_nat (length data)) by (unfold br_len; rewrite Hd''; reflexivity).
    rewrite ELen. destruct (br_pos r' =? Z.of_nat (length data)) eqn:Epos; [|reflexivity]. cbn [andb].
    unfold base in Hpp. destruct (Z.of_nat (length data) <? 8) eqn:E8; lia.
  - rewrite (IH r' (p + n) Hinv' Htl ltac:(lia)). f_equal. f_equal.
    unfold s. rewrite skipn_skipn'. f_equal. lia.
Qed.

(** bitreader_window_refines *)
Theorem bitreader_window_refines : forall data ns,
  bytes_ok data -> Forall (fun n => 0 <= n <= 24) ns -> total ns <= 8 * Z.of_nat (length data) ->
  br_run ns (br_new data) = map (fun v => (v, false)) (spec_reads ns (bits_of_bytes data)).
Proof.
  intros data ns Hd Hns Htot.
  rewrite (run_refines data Hd ns (br_new data) 0 (inv_new data Hd) Hns ltac:(lia)). reflexivity.
Qed.

(** ... and the specification reader indeed returns every field on such a sequence *)
Lemma spec_reads_length : forall ns s, Forall (fun n => 0 <= n) ns -> total ns <= Z.of_nat (length s) ->
  length (spec_reads ns s) = length ns.
Proof.
  induction ns as [|n tl IH]; intros s Hns Htot; [reflexivity|].
  inversion Hns as [|? ? Hn Htl]; subst. cbn [total fold_right] in Htot. fold (total tl) in Htot.
  assert (Htl0 : 0 <= total tl).
  { clear - Htl. induction Htl as [|x l Hx _ IHl]; cbn [total fold_right]; [lia|]. fold (total l). lia. }
  cbn [spec_reads]. unfold read_bitsZ. rewrite read_bits_value by lia. cbn [length].
  rewrite IH; [reflexivity|exact Htl|rewrite skipn_length; lia].
Qed.

(** The read that crosses the end of a buffer of at least 8 bytes raises the flag.
    (With fewer than 8 bytes the code raises it only once more than 64 bits have
    been consumed: IsEndOfStream tests bitPos > 64 — reads between the end of such a
    short buffer and bit 64 return zeros without any flag.) *)
Lemma read_past_end_sets_eos data : bytes_ok data -> 8 <= Z.of_nat (length data) ->
  forall r p n, inv data r p -> 0 <= n <= 24 -> 8 * Z.of_nat (length data) < p + n ->
  br_is_eos (snd (br_read_bits n r)) = true.
Proof.
  intros Hd H8 r p n ((He & Hdd & Hb & Hpos & Hs & Hl & Hv & Hpp) & Hsmall & Hple) Hn Hover.
  unfold br_read_bits. rewrite He. cbn [negb andb].
  replace ((0 <=? n) && (n <=? 24))%bool with true by lia. cbn [snd].
  unfold br_shift_bytes. cbv zeta.
  set (r1 := mkbr (br_val r) (br_data r) (br_pos r) (br_bit r + n) false).
  assert (Hp1 : pinv data r1 (p + n)).
  { unfold pinv, base, r1 in *. cbn [br_eos br_data br_bit br_pos br_val]. repeat split; try assumption; lia. }
  destruct (shift_loop_inv data Hd (S (Z.to_nat (br_bit r1 / 8))) r1 (p + n) Hp1 ltac:(lia)) as (Hp2 & Hsm2).
  set (r2 := br_shift_loop (S (Z.to_nat (br_bit r1 / 8))) r1) in *.
  assert (Heos : br_is_eos r2 = true).
  { destruct Hp2 as (He2 & Hd2 & Hb2 & Hpos2 & Hs2 & Hl2 & Hv2 & Hpp2).
    unfold br_is_eos. rewrite He2. cbn [orb].
    assert (ELen : br_len r2 = Z.of_nat (length data)) by (unfold br_len; rewrite Hd2; reflexivity). rewrite ELen.
    unfold base in Hpp2. replace (Z.of_nat (length data) <? 8) with false in Hpp2 by lia.
    destruct (Z.lt_ge_cases (br_pos r2) (Z.of_nat (length data))) as [Hc|Hc].
    - specialize (Hsm2 Hc). lia.
    - replace (br_pos r2 =? Z.of_nat (length data)) with true by lia. cbn [andb]. lia. }
  rewrite Heos. reflexivity.
Qed.
