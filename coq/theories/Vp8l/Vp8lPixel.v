(** ARGB pixels of the WebP lossless format as four channel values, and the
    per-channel arithmetic the bitstream specification uses (RFC 9649 §4):
    addition/subtraction modulo 256, Average2, Select, ClampAddSubtractFull/Half,
    the cross-colour delta, the colour-cache hash.  Channels are unbounded [Z];
    every operation that the format defines modulo 256 writes the [mod]. *)
From Coq Require Import List ZArith Lia Bool.
From Coq Require Import ZifyBool.
Import ListNotations.
Open Scope Z_scope.

Ltac Zify.zify_post_hook ::= Z.div_mod_to_equations.

Record px := mkpx { pa : Z; pr : Z; pg : Z; pb : Z }.

Definition chan_ok (c : Z) : Prop := 0 <= c < 256.
Definition wf_px (p : px) : Prop :=
  chan_ok (pa p) /\ chan_ok (pr p) /\ chan_ok (pg p) /\ chan_ok (pb p).

Definition chan_okb (c : Z) : bool := (0 <=? c) && (c <? 256).
Definition wf_pxb (p : px) : bool :=
  chan_okb (pa p) && chan_okb (pr p) && chan_okb (pg p) && chan_okb (pb p).

Lemma wf_pxb_spec p : wf_pxb p = true <-> wf_px p.
Proof. unfold wf_pxb, wf_px, chan_okb, chan_ok. lia. Qed.

Definition px_eqb (p q : px) : bool :=
  (pa p =? pa q) && (pr p =? pr q) && (pg p =? pg q) && (pb p =? pb q).

Lemma px_eqb_eq p q : px_eqb p q = true <-> p = q.
Proof.
  destruct p, q; unfold px_eqb; cbn [pa pr pg pb]. split.
  - intros H. f_equal; lia.
  - intros [= -> -> -> ->]. lia.
Qed.

(** [x mod 256], computed without a division when x is within one period of the
    byte range (always the case for sums/differences of bytes); [b8_mod] is the
    defining equation and the only fact proofs use. *)
Definition b8 (x : Z) : Z :=
  if x <? 0 then (if -256 <=? x then x + 256 else x mod 256)
  else if x <? 256 then x
  else if x <? 512 then x - 256 else x mod 256.

Lemma b8_mod x : b8 x = x mod 256.
Proof.
  unfold b8. destruct (x <? 0) eqn:E1.
  - destruct (-256 <=? x) eqn:E2; lia.
  - destruct (x <? 256) eqn:E3; [lia|]. destruct (x <? 512) eqn:E4; lia.
Qed.

Lemma b8_range x : chan_ok (b8 x).
Proof. unfold chan_ok. rewrite b8_mod. lia. Qed.

Definition px_zero : px := mkpx 0 0 0 0.        (* 0x00000000 *)
Definition px_black : px := mkpx 255 0 0 0.     (* 0xff000000 *)

Definition px_add (p q : px) : px :=
  mkpx (b8 (pa p + pa q)) (b8 (pr p + pr q)) (b8 (pg p + pg q)) (b8 (pb p + pb q)).
Definition px_sub (p q : px) : px :=
  mkpx (b8 (pa p - pa q)) (b8 (pr p - pr q)) (b8 (pg p - pg q)) (b8 (pb p - pb q)).

Lemma px_add_wf p q : wf_px (px_add p q).
Proof. unfold wf_px, px_add; cbn [pa pr pg pb]. repeat split; apply b8_range. Qed.
Lemma px_sub_wf p q : wf_px (px_sub p q).
Proof. unfold wf_px, px_sub; cbn [pa pr pg pb]. repeat split; apply b8_range. Qed.

(** The law every inverse transform rests on. *)
Lemma px_add_sub p q : wf_px p -> px_add (px_sub p q) q = p.
Proof.
  destruct p as [a r g b]. unfold wf_px, chan_ok, px_add, px_sub; cbn [pa pr pg pb].
  rewrite !b8_mod. intros (Ha & Hr & Hg & Hb). f_equal; lia.
Qed.

Lemma px_sub_add p q : wf_px p -> px_sub (px_add p q) q = p.
Proof.
  destruct p as [a r g b]. unfold wf_px, chan_ok, px_add, px_sub; cbn [pa pr pg pb].
  rewrite !b8_mod. intros (Ha & Hr & Hg & Hb). f_equal; lia.
Qed.

(** Packed 32-bit view (alpha in bits 31..24, red 23..16, green 15..8, blue 7..0). *)
Definition argb_of_px (p : px) : Z := ((pa p * 256 + pr p) * 256 + pg p) * 256 + pb p.

Definition px_of_argb (v : Z) : px :=
  mkpx ((v / 16777216) mod 256) ((v / 65536) mod 256) ((v / 256) mod 256) (v mod 256).

Lemma px_of_argb_of_px p : wf_px p -> px_of_argb (argb_of_px p) = p.
Proof.
  destruct p as [a r g b]. unfold wf_px, chan_ok, px_of_argb, argb_of_px; cbn [pa pr pg pb].
  intros (Ha & Hr & Hg & Hb). f_equal; lia.
Qed.

Lemma px_of_argb_wf v : wf_px (px_of_argb v).
Proof. unfold wf_px, px_of_argb, chan_ok; cbn [pa pr pg pb]. lia. Qed.

Lemma argb_of_px_range p : wf_px p -> 0 <= argb_of_px p < 4294967296.
Proof.
  destruct p as [a r g b]. unfold wf_px, chan_ok, argb_of_px; cbn [pa pr pg pb]. lia.
Qed.

(** Average2 of the specification: per channel (a + b) div 2. *)
Definition avg2 (p q : px) : px :=
  mkpx (Z.div2 (pa p + pa q)) (Z.div2 (pr p + pr q)) (Z.div2 (pg p + pg q)) (Z.div2 (pb p + pb q)).

Lemma avg2_wf p q : wf_px p -> wf_px q -> wf_px (avg2 p q).
Proof. unfold wf_px, chan_ok, avg2; cbn [pa pr pg pb]. rewrite !Z.div2_div. lia. Qed.

(** Select (predictor 11): Manhattan distances of the estimate L+T-TL to L and T. *)
Definition select (L T TL : px) : px :=
  let dl := Z.abs (pa T - pa TL) + Z.abs (pr T - pr TL) + Z.abs (pg T - pg TL) + Z.abs (pb T - pb TL) in
  let dt := Z.abs (pa L - pa TL) + Z.abs (pr L - pr TL) + Z.abs (pg L - pg TL) + Z.abs (pb L - pb TL) in
  if dl <? dt then L else T.

Definition clamp8 (x : Z) : Z := if x <? 0 then 0 else if 255 <? x then 255 else x.

Lemma clamp8_range x : chan_ok (clamp8 x).
Proof. unfold chan_ok, clamp8. destruct (x <? 0) eqn:E1; [lia|]. destruct (255 <? x) eqn:E2; lia. Qed.

Definition clamp_add_sub_full (a b c : px) : px :=
  mkpx (clamp8 (pa a + pa b - pa c)) (clamp8 (pr a + pr b - pr c))
       (clamp8 (pg a + pg b - pg c)) (clamp8 (pb a + pb b - pb c)).

(** Clamp(a + (a - b) / 2) with C division (truncation toward zero). *)
Definition clamp_add_sub_half (a b : px) : px :=
  mkpx (clamp8 (pa a + Z.quot (pa a - pa b) 2)) (clamp8 (pr a + Z.quot (pr a - pr b) 2))
       (clamp8 (pg a + Z.quot (pg a - pg b) 2)) (clamp8 (pb a + Z.quot (pb a - pb b) 2)).

(** int8 reading of a byte and the cross-colour delta (t * c) >> 5 on int8 values
    (arithmetic shift = floor division). *)
Definition int8 (x : Z) : Z := let y := b8 x in if y <? 128 then y else y - 256.
Definition color_delta (t c : Z) : Z := Z.shiftr (int8 t * int8 c) 5.

Lemma color_delta_div t c : color_delta t c = (int8 t * int8 c) / 32.
Proof. unfold color_delta. now rewrite Z.shiftr_div_pow2 by lia. Qed.

(** Colour-cache slot of a pixel: (0x1e35a7bd * argb) mod 2^32 >> (32 - bits). *)
Definition cache_hash (bits : Z) (p : px) : Z :=
  Z.shiftr (Z.land (506832829 * argb_of_px p) 4294967295) (32 - bits).

Lemma cache_hash_div bits p : 0 <= bits <= 32 ->
  cache_hash bits p = ((506832829 * argb_of_px p) mod 4294967296) / 2 ^ (32 - bits).
Proof.
  intros H. unfold cache_hash. rewrite Z.shiftr_div_pow2 by lia.
  change 4294967295 with (Z.ones 32). rewrite Z.land_ones by lia. reflexivity.
Qed.

(** ceil (size / 2^bits). *)
Definition subsample (size bits : Z) : Z := (size + 2 ^ bits - 1) / 2 ^ bits.

(** Linear-time list reversal ([List.rev] is quadratic when executed). *)
Definition frev {A} (l : list A) : list A := rev_append l [].
Lemma frev_rev {A} (l : list A) : frev l = rev l.
Proof. unfold frev. symmetry. apply rev_alt. Qed.
