(** Encoder side of the LZ77 distance alphabet: every backward distance the
    encoder may choose (at most its window, regenerated from the source:
    lossless.windowSize) is written as distance code 120 + distance, whose prefix
    symbol is below 40, the size of the distance alphabet — so the code plan of the
    distance code can give it a code word.  (The decoder-side counterpart — a
    decoded symbol is below the alphabet size — is Vp8lSymRange.)  A larger window
    constant breaks this obligation. *)
From Coq Require Import List ZArith Lia Bool.
From Webp Require Import Base.Res Vp8l.Vp8lPrefix Vp8l.Vp8lSpec Vp8l.Vp8lEmit.
From WebpGen Require Consts Vp8lRoles.
Open Scope Z_scope.

Ltac Zify.zify_post_hook ::= idtac.

(** the prefix symbol of any length / distance value up to 2^20 is below 40 *)
Lemma lz_symbol_bound v : 1 <= v <= 2 ^ 20 -> 0 <= fst (fst (lz_prefix v)) < 40.
Proof.
  intros Hv. unfold lz_prefix. set (d := v - 1).
  destruct (d <? 2) eqn:E; cbn [fst]; [lia|].
  assert (Hd : 2 <= d < 2 ^ 20) by lia.
  assert (Hlog : 1 <= Z.log2 d < 20).
  { split; [apply Z.log2_le_pow2; lia|apply Z.log2_lt_pow2; lia]. }
  pose proof (Z.mod_pos_bound (Z.shiftr d (Z.log2 d - 1)) 2 ltac:(lia)). lia.
Qed.

(** ... and so is the symbol of a length up to the encoder's maximum match length *)
Lemma lz_length_symbol_bound v : 1 <= v <= 4096 -> 0 <= fst (fst (lz_prefix v)) < 24.
Proof.
  intros Hv. unfold lz_prefix. set (d := v - 1).
  destruct (d <? 2) eqn:E; cbn [fst]; [lia|].
  assert (Hd : 2 <= d < 2 ^ 12) by lia.
  assert (Hlog : 1 <= Z.log2 d < 12).
  { split; [apply Z.log2_le_pow2; lia|apply Z.log2_lt_pow2; lia]. }
  pose proof (Z.mod_pos_bound (Z.shiftr d (Z.log2 d - 1)) 2 ltac:(lia)). lia.
Qed.

(** distances inside the window of the source: code = 120 + distance *)
Theorem window_distance_symbol_in_alphabet : forall dist,
  1 <= dist <= WebpGen.Vp8lRoles.lossless_role_lz_window_max ->
  0 <= fst (fst (lz_prefix (WebpGen.Consts.lossless_CodeToPlaneCodesCount + dist))) < WebpGen.Consts.lossless_NumDistanceCodes.
Proof.
  intros dist Hd. unfold WebpGen.Vp8lRoles.lossless_role_lz_window_max, WebpGen.Consts.lossless_CodeToPlaneCodesCount,
    WebpGen.Consts.lossless_NumDistanceCodes in *.
  apply lz_symbol_bound. change (2 ^ 20) with 1048576. lia.
Qed.

(** and such a code denotes the distance itself, for every image width *)
Theorem window_distance_code_denotes_distance : forall w dist,
  1 <= dist -> plane_to_dist w (120 + dist) = dist.
Proof.
  intros w dist Hd. unfold plane_to_dist. replace (120 <? 120 + dist) with true by lia. lia.
Qed.

(** the maximum match length of the source has a length symbol *)
Theorem max_length_symbol_in_alphabet : forall len,
  1 <= len <= WebpGen.Vp8lRoles.lossless_role_max_match_length ->
  0 <= fst (fst (lz_prefix len)) < WebpGen.Consts.lossless_NumLengthCodes.
Proof.
  intros len Hl. unfold WebpGen.Vp8lRoles.lossless_role_max_match_length, WebpGen.Consts.lossless_NumLengthCodes in *.
  apply lz_length_symbol_bound. lia.
Qed.
