(** Boolean well-formedness checker for plans, sound for [wf_plan] — so that
    [emit_decode] applies to every plan on which the checker says true.  The
    harness runs the extracted checker on every plan it generates. *)
From Coq Require Import List ZArith Lia Bool.
From Coq Require Import ZifyBool ZifyNat.
From Webp Require Import Base.Res Vp8l.Vp8lPixel Vp8l.Vp8lArr Vp8l.Vp8lPrefix Vp8l.Vp8lCanon Vp8l.Vp8lTransforms
  Vp8l.Vp8lSpec Vp8l.Vp8lEmit Vp8l.Vp8lEntropy Vp8l.Vp8lCodeLens Vp8l.Vp8lEmitDecode.
Import ListNotations.
Open Scope Z_scope.

Ltac Zify.zify_post_hook ::= Z.div_mod_to_equations.

Ltac split_andb :=
  repeat match goal with
         | H : (_ && _)%bool = true |- _ => apply andb_prop in H; destruct H
         end.

Definition list_eqb (a b : list Z) : bool := if list_eq_dec Z.eq_dec a b then true else false.
Lemma list_eqb_eq a b : list_eqb a b = true -> a = b.
Proof. unfold list_eqb. destruct (list_eq_dec Z.eq_dec a b); [auto|discriminate]. Qed.

Definition usedb (lens : list Z) (s : Z) : bool :=
  (0 <=? s) && (s <? Z.of_nat (length lens)) && negb (nth (Z.to_nat s) lens 0 =? 0).
Lemma usedb_ok lens s : usedb lens s = true -> used lens s.
Proof. unfold usedb, used. intros H. split_andb. lia. Qed.

Definition cltok_okb (cl : list Z) (t : cltok) : bool :=
  match t with
  | CLlit l => (0 <=? l) && (l <? 16) && usedb cl l
  | CLrep16 n => (3 <=? n) && (n <=? 6) && usedb cl 16
  | CLrep17 n => (3 <=? n) && (n <=? 10) && usedb cl 17
  | CLrep18 n => (11 <=? n) && (n <=? 138) && usedb cl 18
  end.
Lemma cltok_okb_ok cl t : cltok_okb cl t = true -> cltok_ok cl t.
Proof. destruct t; cbn; intros H; split_andb; (split; [lia|now apply usedb_ok]). Qed.

Lemma forallb_Forall {A} (f : A -> bool) (P : A -> Prop) l :
  (forall x, f x = true -> P x) -> forallb f l = true -> Forall P l.
Proof.
  intros Hf H. rewrite forallb_forall in H. apply Forall_forall. intros x Hx. apply Hf, H, Hx.
Qed.

Definition wf_codeb (alphabet : Z) (cp : codeplan) : bool :=
  match cp with
  | CSimple [s0] => (0 <=? s0) && (s0 <? 256) && (s0 <? alphabet)
  | CSimple [s0; s1] => (0 <=? s0) && (s0 <? 256) && (s0 <? alphabet) && (0 <=? s1) && (s1 <? 256) && (s1 <? alphabet)
  | CSimple _ => false
  | CNormal ncl cl usemax toks =>
    (4 <=? ncl) && (ncl <=? 19) && forallb (fun c => (0 <=? c) && (c <? 8)) cl &&
    list_eqb (cl_written ncl cl) cl && is_ok (tree_of_lens cl) && forallb (cltok_okb cl) toks &&
    (0 <? alphabet) &&
    (((usemax =? -1) && (toks_span toks =? alphabet)) ||
     ((0 <=? usemax) && (usemax <=? 7) && (2 <=? Z.of_nat (length toks)) && (Z.of_nat (length toks) <=? alphabet) &&
      (Z.of_nat (length toks) - 2 <? 2 ^ (2 + 2 * usemax)) && (toks_span toks <=? alphabet)))
  end.

Lemma wf_codeb_ok alphabet cp : wf_codeb alphabet cp = true -> wf_code alphabet cp.
Proof.
  destruct cp as [syms|ncl cl usemax toks]; cbn [wf_codeb wf_code].
  - destruct syms as [|s0 [|s1 [|s2 tl]]]; intros H; try discriminate; split_andb; lia.
  - intros H. split_andb.
    split; [lia|]. split; [eapply forallb_Forall; [|eassumption]; cbn; intros; lia|].
    split; [now apply list_eqb_eq|]. split; [assumption|].
    split; [eapply forallb_Forall; [apply cltok_okb_ok|eassumption]|]. split; [lia|].
    match goal with H : (_ || _)%bool = true |- _ => apply orb_prop in H; destruct H as [H|H] end; split_andb.
    + left. lia.
    + right. lia.
Qed.

Definition token_okb (lg lr lb la ld : list Z) (w total pos : Z) (t : token) : bool :=
  match t with
  | TLit p => wf_pxb p && usedb lg (pg p) && usedb lr (pr p) && usedb lb (pb p) && usedb la (pa p)
  | TCache k => (0 <=? k) && usedb lg (280 + k)
  | TCopy len dc =>
    (1 <=? len) && (1 <=? dc) && (1 <=? plane_to_dist w dc) && (plane_to_dist w dc <=? pos) &&
    (len <=? total - pos) && (0 <=? fst (fst (lz_prefix len))) && (fst (fst (lz_prefix len)) <? 24) &&
    usedb lg (256 + fst (fst (lz_prefix len))) && usedb ld (fst (fst (lz_prefix dc)))
  end.

Lemma token_okb_ok lg lr lb la ld w total pos t :
  token_okb lg lr lb la ld w total pos t = true -> token_ok lg lr lb la ld w total pos t.
Proof.
  destruct t as [p|k|len dc]; cbn [token_okb token_ok]; intros H; split_andb.
  - split; [now apply wf_pxb_spec|]. split; [now apply usedb_ok|]. split; [now apply usedb_ok|].
    split; now apply usedb_ok.
  - split; [lia|now apply usedb_ok].
  - split; [lia|]. split; [lia|]. split; [lia|]. split; [lia|]. split; [lia|].
    split; now apply usedb_ok.
Qed.

Fixpoint tokens_okb (lg lr lb la ld : list Z) (w total pos : Z) (toks : list token) : bool :=
  match toks with
  | [] => pos =? total
  | t :: tl => (pos <? total) && token_okb lg lr lb la ld w total pos t &&
               tokens_okb lg lr lb la ld w total (pos + token_len t) tl
  end.

Lemma tokens_okb_ok lg lr lb la ld w total : forall toks pos,
  tokens_okb lg lr lb la ld w total pos toks = true -> tokens_ok lg lr lb la ld w total pos toks.
Proof.
  induction toks as [|t tl IH]; intros pos H; cbn [tokens_okb tokens_ok] in *; [lia|].
  split_andb. split; [lia|]. split; [now apply token_okb_ok|now apply IH].
Qed.

Definition cache_okb (cb : Z) : bool := (cb =? 0) || ((1 <=? cb) && (cb <=? 11)).

Definition wf_groupb (cb : Z) (g : list codeplan) : bool :=
  match g with
  | [cg; cr; cbl; ca; cd] =>
    let a0 := 280 + cache_size_of cb in
    wf_codeb a0 cg && wf_codeb 256 cr && wf_codeb 256 cbl && wf_codeb 256 ca && wf_codeb 40 cd &&
    is_ok (tree_of_lens (code_lens a0 cg)) && is_ok (tree_of_lens (code_lens 256 cr)) &&
    is_ok (tree_of_lens (code_lens 256 cbl)) && is_ok (tree_of_lens (code_lens 256 ca)) &&
    is_ok (tree_of_lens (code_lens 40 cd))
  | _ => false
  end.

Lemma wf_groupb_ok cb g : wf_groupb cb g = true -> wf_group cb g.
Proof.
  destruct g as [|cg [|cr [|cbl [|ca [|cd [|x tl]]]]]]; cbn [wf_groupb]; intros H; try discriminate.
  cbv zeta in H. split_andb.
  exists cg, cr, cbl, ca, cd. split; [reflexivity|]. cbv zeta.
  split; [now apply wf_codeb_ok|]. split; [now apply wf_codeb_ok|]. split; [now apply wf_codeb_ok|].
  split; [now apply wf_codeb_ok|]. split; [now apply wf_codeb_ok|].
  repeat split; assumption.
Qed.

Definition wf_eimgb (w h : Z) (ep : eplan) : bool :=
  cache_okb (ep_cache_bits ep) &&
  match ep_codes ep with
  | [g] =>
    wf_groupb (ep_cache_bits ep) g &&
    let gl := lens_of (ep_cache_bits ep) g in
    tokens_okb (gl_g gl) (gl_r gl) (gl_b gl) (gl_a gl) (gl_d gl) w (w * h) 0 (ep_tokens ep)
  | _ => false
  end.

Lemma wf_eimgb_ok w h ep : wf_eimgb w h ep = true -> wf_eimg w h ep.
Proof.
  unfold wf_eimgb, wf_eimg. intros H. split_andb.
  split; [unfold cache_okb in *; lia|].
  destruct (ep_codes ep) as [|g [|g2 tl]]; try discriminate.
  cbv zeta in *. split_andb.
  match goal with Hg : wf_groupb _ _ = true |- _ => apply wf_groupb_ok in Hg; destruct Hg as (cg & cr & cbl & ca & cd & E & Hrest) end.
  subst g. cbn [lens_of gl_g gl_r gl_b gl_a gl_d] in *.
  exists cg, cr, cbl, ca, cd. split; [reflexivity|]. cbv zeta in *.
  destruct Hrest as (R1 & R2 & R3 & R4 & R5 & R6 & R7 & R8 & R9 & R10).
  split; [exact R1|]. split; [exact R2|]. split; [exact R3|]. split; [exact R4|]. split; [exact R5|].
  split; [exact R6|]. split; [exact R7|]. split; [exact R8|]. split; [exact R9|]. split; [exact R10|].
  now apply tokens_okb_ok.
Qed.

Definition wf_tplanb (cw h : Z) (t : tplan) : bool :=
  match t with
  | TPPred bits sub =>
    (2 <=? bits) && (bits <=? 9) && wf_eimgb (subsample cw bits) (subsample h bits) sub &&
    forallb (fun p => pg p <? 14) (sem_eimg (subsample cw bits) sub)
  | TPCross bits sub => (2 <=? bits) && (bits <=? 9) && wf_eimgb (subsample cw bits) (subsample h bits) sub
  | TPSubGreen => true
  | TPIndex n sub => (1 <=? n) && (n <=? 256) && wf_eimgb n 1 sub
  end.

Lemma wf_tplanb_ok cw h t : wf_tplanb cw h t = true -> wf_tplan cw h t.
Proof.
  destruct t; cbn [wf_tplanb wf_tplan]; intros H; split_andb; try exact I.
  - split; [lia|]. split; [now apply wf_eimgb_ok|assumption].
  - split; [lia|now apply wf_eimgb_ok].
  - split; [lia|now apply wf_eimgb_ok].
Qed.

Fixpoint wf_tplansb (cw h : Z) (seen : list Z) (ts : list tplan) : bool :=
  match ts with
  | [] => true
  | t :: tl => wf_tplanb cw h t && negb (existsb (Z.eqb (tplan_type t)) seen) &&
               wf_tplansb (next_width cw t) h (tplan_type t :: seen) tl
  end.

Lemma wf_tplansb_ok h : forall ts cw seen, wf_tplansb cw h seen ts = true -> wf_tplans cw h seen ts.
Proof.
  induction ts as [|t tl IH]; intros cw seen H; cbn [wf_tplansb wf_tplans] in *; [exact I|].
  split_andb. split; [now apply wf_tplanb_ok|]. split; [|now apply IH].
  now destruct (existsb (Z.eqb (tplan_type t)) seen).
Qed.

Definition dims_okb (p : plan) : bool :=
  (1 <=? p_w p) && (p_w p <=? 16384) && (1 <=? p_h p) && (p_h p <=? 16384) &&
  (0 <=? p_alpha p) && (p_alpha p <=? 1) && (Z.of_nat (length (p_transforms p)) <=? 4).

Definition token_okb_m (gls : list glens) (w total mb mw : Z) (meta : arr Z) (pos : Z) (t : token) : bool :=
  let i := gidx mb mw meta (pos mod w) (pos / w) in
  (0 <=? i) && (i <? Z.of_nat (length gls)) &&
  let gl := nth (Z.to_nat i) gls glens_dummy in
  token_okb (gl_g gl) (gl_r gl) (gl_b gl) (gl_a gl) (gl_d gl) w total pos t.

Fixpoint tokens_okb_m (gls : list glens) (w total mb mw : Z) (meta : arr Z) (pos : Z) (toks : list token) : bool :=
  match toks with
  | [] => pos =? total
  | t :: tl => (pos <? total) && token_okb_m gls w total mb mw meta pos t &&
               tokens_okb_m gls w total mb mw meta (pos + token_len t) tl
  end.

Lemma tokens_okb_m_ok gls w total mb mw meta : forall toks pos,
  tokens_okb_m gls w total mb mw meta pos toks = true -> tokens_ok_m gls w total mb mw meta pos toks.
Proof.
  induction toks as [|t tl IH]; intros pos H; cbn [tokens_okb_m tokens_ok_m] in *; [lia|].
  split_andb. split; [lia|]. split; [|now apply IH].
  unfold token_okb_m in *. unfold token_ok_m. cbv zeta in *. split_andb.
  split; [lia|]. now apply token_okb_ok.
Qed.

Definition wf_planb (p : plan) : bool :=
  dims_okb p && wf_tplansb (p_w p) (p_h p) [] (p_transforms p) &&
  let cw := snd (sem_transforms (p_transforms p) (p_w p) (p_h p)) in
  let main := p_main p in
  let cb := ep_cache_bits main in
  match p_meta p with
  | None => wf_eimgb cw (p_h p) main
  | Some (mb, msub) =>
    let mw := subsample cw mb in
    let meta := map meta_index (sem_eimg mw msub) in
    (2 <=? mb) && (mb <=? 9) && wf_eimgb mw (subsample (p_h p) mb) msub && cache_okb cb &&
    forallb (wf_groupb cb) (ep_codes main) &&
    (Z.of_nat (length (ep_codes main)) =? fold_left Z.max meta 0 + 1) &&
    tokens_okb_m (map (lens_of cb) (ep_codes main)) cw (cw * p_h p) mb mw (arr_of_list meta) 0 (ep_tokens main)
  end.

Theorem wf_planb_ok p : wf_planb p = true -> wf_plan p.
Proof.
  unfold wf_planb, dims_okb. intros H. cbv zeta in H. split_andb.
  destruct (p_meta p) as [[mb msub]|] eqn:Em.
  - right. unfold wf_plan2. exists mb, msub. split_andb.
    split; [exact Em|]. split; [lia|]. split; [lia|]. split; [lia|]. split; [lia|].
    split; [now apply wf_tplansb_ok|]. split; [lia|]. cbv zeta.
    split; [now apply wf_eimgb_ok|]. split; [unfold cache_okb in *; lia|].
    split; [eapply forallb_Forall; [apply wf_groupb_ok|eassumption]|].
    split; [lia|]. now apply tokens_okb_m_ok.
  - left. unfold wf_plan1. split; [assumption|]. split; [lia|]. split; [lia|]. split; [lia|]. split; [lia|].
    split; [now apply wf_tplansb_ok|now apply wf_eimgb_ok].
Qed.

(** Hence: on every plan the checker accepts, the specification decoder returns
    the pixels the plan denotes. *)
Corollary emit_decode_checked : forall p, wf_planb p = true -> decode (emit p) = Ok (sem p).
Proof. intros p H. apply emit_decode, wf_planb_ok, H. Qed.

(** The generated example plan (three transforms, meta prefix image with several
    groups, colour cache, cache and copy tokens, normal codes with repeats) is
    well formed — the hypotheses of [emit_decode] are satisfiable non-trivially. *)
Example ex_plan_wf : wf_planb ex_plan = true.
Proof. vm_compute. reflexivity. Qed.
