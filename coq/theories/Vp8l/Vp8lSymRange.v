(** C05, codec layer: a symbol decoded with a prefix code built from a code-length vector
    is an index of that vector — the guard behind every table lookup that follows a
    ReadSymbol (colour-cache index, length/distance prefix, code-length code): for EVERY
    length vector the decoder accepts and EVERY bit stream,
    0 <= symbol < number of code lengths (= alphabet size). *)
From Coq Require Import List ZArith Lia Bool Sorting.Sorted.
From Coq Require Import ZifyBool ZifyNat.
From Webp Require Import Base.Res Vp8l.Vp8lArr Vp8l.Vp8lPrefix Vp8l.Vp8lCanon.
Import ListNotations.
Open Scope Z_scope.

(* leaves of a code tree and the construction invariant (same statement and proof as
   Vp8lLut.build_leaves; repeated here so that C05 does not depend on the LUT development) *)
Fixpoint sleaves (d : Z) (t : tree) : list (Z * Z) :=
  match t with
  | Leaf v => [(d, v)]
  | Hole => []
  | Node l r => sleaves (d + 1) l ++ sleaves (d + 1) r
  end.

Fixpoint scomplete (t : tree) : Prop :=
  match t with Leaf _ => True | Hole => False | Node l r => scomplete l /\ scomplete r end.

Lemma build_sleaves : forall f d items,
  0 <= d <= 15 -> 15 - d < Z.of_nat f ->
  StronglySorted Rle items -> Forall (fun it => d <= fst it <= 15) items ->
  items = sleaves d (fst (build f d items)) ++ snd (build f d items) /\
  sumw (sleaves d (fst (build f d items))) <= 2 ^ (15 - d) /\
  (sumw (sleaves d (fst (build f d items))) = 2 ^ (15 - d) -> scomplete (fst (build f d items))).
Proof.
  induction f as [|f IH]; intros d items Hd Hf Hs Hb.
  - lia.
  - destruct items as [|[len sym] tl].
    + cbn [build fst snd sleaves app sumw scomplete]. assert (0 < 2 ^ (15 - d)) by (apply Z.pow_pos_nonneg; lia).
      repeat split; try lia.
    + cbn [build]. assert (Hlen : d <= len <= 15) by (inversion Hb; subst; assumption).
      destruct (len <=? d) eqn:E.
      * assert (len = d) by lia. subst len. cbn [fst snd sleaves app sumw scomplete]. unfold wt.
        repeat split; try lia.
      * assert (Hb1 : Forall (fun it => d + 1 <= fst it <= 15) ((len, sym) :: tl)).
        { inversion Hs as [|? ? Hs' Hall]; subst. constructor; [cbn [fst]; lia|].
          inversion Hb as [|? ? _ Hbt]; subst.
          rewrite Forall_forall in *. intros y Hy. specialize (Hall y Hy). specialize (Hbt y Hy).
          unfold Rle in Hall. cbn [fst] in Hall. lia. }
        destruct (IH (d + 1) ((len, sym) :: tl) ltac:(lia) ltac:(lia) Hs Hb1) as (Hi1 & Hle1 & Hc1).
        destruct (build f (d + 1) ((len, sym) :: tl)) as [lt r1] eqn:E1. cbn [fst snd] in *.
        assert (Hs2 : StronglySorted Rle r1) by (rewrite Hi1 in Hs; eapply SS_suffix; exact Hs).
        assert (Hb2 : Forall (fun it => d + 1 <= fst it <= 15) r1).
        { rewrite Hi1 in Hb1. apply Forall_app in Hb1. apply Hb1. }
        destruct (IH (d + 1) r1 ltac:(lia) ltac:(lia) Hs2 Hb2) as (Hi2 & Hle2 & Hc2).
        destruct (build f (d + 1) r1) as [rt r2] eqn:E2. cbn [fst snd sleaves scomplete] in *.
        assert (Hp : 2 ^ (15 - d) = 2 * 2 ^ (15 - (d + 1))).
        { replace (15 - d) with (Z.succ (15 - (d + 1))) by lia. rewrite Z.pow_succ_r by lia. reflexivity. }
        rewrite sumw_app. split; [rewrite <- app_assoc, <- Hi2; exact Hi1|]. split; [lia|].
        intros Hsum. split; [apply Hc1|apply Hc2]; lia.
Qed.

Lemma indexed_from_range l : forall i x j, In (x, j) (indexed_from i l) -> i <= j < i + Z.of_nat (length l).
Proof.
  induction l as [|a l IH]; intros i x j H; cbn [indexed_from] in H; [contradiction|].
  destruct H as [H|H]; [injection H as _ <-; cbn [length]; lia|].
  apply IH in H. cbn [length]. lia.
Qed.

Lemma lens_items_range_sym lens l sym : In (l, sym) (lens_items lens) -> 0 <= sym < Z.of_nat (length lens).
Proof.
  unfold lens_items. intros H. apply in_flat_map in H. destruct H as (len & _ & H).
  apply filter_In in H. destruct H as [H _]. apply indexed_from_range in H. lia.
Qed.

Lemma read_symbol_leaf t : forall d s v s', read_symbol t s = Ok (v, s') -> exists k, In (k, v) (sleaves d t).
Proof.
  induction t as [x|l IHl r IHr|]; intros d s v s' H; cbn [read_symbol] in H.
  - injection H as <- _. exists d. left. reflexivity.
  - destruct s as [|b tl]; [discriminate|]. cbn [sleaves]. destruct b.
    + destruct (IHr (d + 1) tl v s' H) as [k Hk]. exists k. apply in_or_app. right. exact Hk.
    + destruct (IHl (d + 1) tl v s' H) as [k Hk]. exists k. apply in_or_app. left. exact Hk.
  - discriminate.
Qed.

Opaque build.

Theorem symbol_in_alphabet lens t s v s' :
  tree_of_lens lens = Ok t -> read_symbol t s = Ok (v, s') -> 0 <= v < Z.of_nat (length lens).
Proof.
  intros Ht Hr. unfold tree_of_lens in Ht.
  destruct (negb (lens_in_range lens)); [discriminate|].
  destruct (lens_items lens) as [|[l0 sym0] [|i2 tl]] eqn:Ei; [discriminate| |].
  - injection Ht as <-. cbn [read_symbol] in Hr. injection Hr as <- _.
    apply (lens_items_range_sym lens l0). rewrite Ei. left. reflexivity.
  - destruct (kraft_sum lens =? 32768); [|discriminate].
    assert (Et : t = fst (build 16 0 ((l0, sym0) :: i2 :: tl))) by congruence. clear Ht. subst t.
    destruct (read_symbol_leaf _ 0 s v s' Hr) as [k Hk].
    pose proof (build_sleaves 16 0 ((l0, sym0) :: i2 :: tl) ltac:(lia) ltac:(lia)) as Hb.
    rewrite <- Ei in Hb.
    destruct (Hb (lens_items_sorted lens)) as (Hitems & _ & _).
    { eapply Forall_impl; [|apply (lens_items_range lens)]. intros it H. cbn beta in H. lia. }
    rewrite <- Ei in Hk.
    apply (lens_items_range_sym lens k). rewrite Hitems. apply in_or_app. left. exact Hk.
Qed.

Transparent build.
