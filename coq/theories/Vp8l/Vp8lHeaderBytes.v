(** The first five bytes of an emitted VP8L stream: the signature 0x2f and the
    little-endian packing of the 14+14+1+3 header bits (width-1, height-1, alpha
    hint, version 0).  Exported for composing the ALPH chunk model (C07) with
    [emit_decode]: DecodeAlpha rebuilds exactly such a 5-byte header (alpha bit 0)
    in front of the ALPH payload, which is the encoder's stream minus its first
    five bytes. *)
From Coq Require Import List ZArith Lia Bool.
From Coq Require Import ZifyBool ZifyNat.
From Webp Require Import Base.Res Base.Bytes Vp8l.Vp8lPixel Vp8l.Vp8lArr Vp8l.Vp8lPrefix Vp8l.Vp8lCanon
  Vp8l.Vp8lTransforms Vp8l.Vp8lSpec Vp8l.Vp8lEmit Vp8l.Vp8lEntropy Vp8l.Vp8lCodeLens Vp8l.Vp8lEmitDecode.
Import ListNotations.
Open Scope Z_scope.

Lemma bits_value_put_bits : forall n v, bits_value (put_bits n v) = v mod 2 ^ Z.of_nat n.
Proof.
  induction n as [|n IH]; intros v; [cbn; now rewrite Z.mod_1_r|].
  cbn [put_bits bits_value]. rewrite IH.
  replace (2 ^ Z.of_nat (S n)) with (2 * 2 ^ Z.of_nat n) by (rewrite Nat2Z.inj_succ, Z.pow_succ_r by lia; reflexivity).
  rewrite Z.rem_mul_r by (try lia; apply Z.pow_pos_nonneg; lia).
  rewrite Zmod_odd. reflexivity.
Qed.

Lemma put_bits_split : forall a b v, put_bits (a + b) v = put_bits a v ++ put_bits b (v / 2 ^ Z.of_nat a).
Proof.
  induction a as [|a IH]; intros b v; [cbn [Nat.add put_bits app]; now rewrite Z.div_1_r|].
  cbn [Nat.add put_bits app]. rewrite IH. f_equal. f_equal.
  rewrite Z.div_div by (try lia; apply Z.pow_pos_nonneg; lia).
  f_equal. rewrite Nat2Z.inj_succ, Z.pow_succ_r by lia. reflexivity.
Qed.

Lemma put_bits_concat : forall a b x y, 0 <= x < 2 ^ Z.of_nat a ->
  put_bits a x ++ put_bits b y = put_bits (a + b) (x + 2 ^ Z.of_nat a * y).
Proof.
  induction a as [|a IH]; intros b x y Hx.
  - cbn [Nat.add put_bits app]. f_equal. change (2 ^ Z.of_nat 0) with 1 in *. lia.
  - cbn [Nat.add put_bits app].
    assert (E : 2 ^ Z.of_nat (S a) = 2 * 2 ^ Z.of_nat a) by (rewrite Nat2Z.inj_succ, Z.pow_succ_r by lia; reflexivity).
    assert (0 < 2 ^ Z.of_nat a) by (apply Z.pow_pos_nonneg; lia).
    rewrite E in *.
    replace (x + 2 * 2 ^ Z.of_nat a * y) with (x + 2 * (2 ^ Z.of_nat a * y)) by lia.
    rewrite Z.odd_add_mul_2.
    replace ((x + 2 * (2 ^ Z.of_nat a * y)) / 2) with (x / 2 + 2 ^ Z.of_nat a * y)
      by (rewrite (Z.mul_comm 2), Z.div_add by lia; reflexivity).
    rewrite <- IH by (split; [apply Z.div_pos; lia|apply Z.div_lt_upper_bound; lia]).
    reflexivity.
Qed.

(** one byte off the front *)
Lemma bytes_of_bits_fuel_byte fuel v rest :
  bytes_of_bits_fuel (S fuel) (put_bits 8 v ++ rest) = v mod 256 :: bytes_of_bits_fuel fuel rest.
Proof.
  cbn [bytes_of_bits_fuel]. cbn [put_bits app].
  change (firstn 8 (Z.odd v :: ?x)) with (firstn 8 (Z.odd v :: x)).
  cbn [firstn skipn].
  f_equal. change 256 with (2 ^ Z.of_nat 8). rewrite <- bits_value_put_bits. reflexivity.
Qed.

Lemma bytes_of_bits_word v rest :
  bytes_of_bits (put_bits 32 v ++ rest) = le32 v ++ bytes_of_bits rest.
Proof.
  unfold bytes_of_bits. rewrite app_length, put_bits_length.
  replace (S ((32 + length rest) / 8)) with (S (S (S (S (S (length rest / 8))))))
    by (change 32%nat with (4 * 8)%nat; rewrite Nat.div_add_l by lia; lia).
  change 32%nat with (8 + (8 + (8 + 8)))%nat.
  rewrite (put_bits_split 8 (8 + (8 + 8))), (put_bits_split 8 (8 + 8)), (put_bits_split 8 8). rewrite <- !app_assoc.
  rewrite !bytes_of_bits_fuel_byte.
  unfold le32. cbn [app]. change (2 ^ Z.of_nat 8) with 256.
  rewrite !Z.div_div by lia. reflexivity.
Qed.

Lemma emit_header_bits p : 1 <= p_w p <= 16384 -> 1 <= p_h p <= 16384 -> 0 <= p_alpha p <= 1 ->
  exists rest, emit_bits p =
    put_bits 32 ((p_w p - 1) + (p_h p - 1) * 16384 + p_alpha p * 268435456) ++ rest.
Proof.
  intros Hw Hh Ha. unfold emit_bits.
  destruct (emit_transforms (p_transforms p) (p_w p) (p_h p)) as [tb cw].
  unfold putZ. change (Z.to_nat 14) with 14%nat. change (Z.to_nat 1) with 1%nat. change (Z.to_nat 3) with 3%nat.
  match goal with |- exists rest, ?A ++ ?B ++ ?C ++ ?D ++ ?R = _ => exists R; generalize R end.
  intros R.
  rewrite !app_assoc.
  rewrite (put_bits_concat 14 14) by (change (2 ^ Z.of_nat 14) with 16384; lia).
  rewrite (put_bits_concat (14 + 14) 1) by (change (2 ^ Z.of_nat (14 + 14)) with 268435456; change (2 ^ Z.of_nat 14) with 16384; lia).
  rewrite (put_bits_concat (14 + 14 + 1) 3)
    by (change (2 ^ Z.of_nat (14 + 14 + 1)) with 536870912; change (2 ^ Z.of_nat (14 + 14)) with 268435456; change (2 ^ Z.of_nat 14) with 16384; lia).
  change (14 + 14 + 1 + 3)%nat with 32%nat.
  change (2 ^ Z.of_nat (14 + 14 + 1)) with 536870912. change (2 ^ Z.of_nat (14 + 14)) with 268435456. change (2 ^ Z.of_nat 14) with 16384.
  f_equal. f_equal. lia.
Qed.

Lemma wf_plan_dims p : wf_plan p -> 1 <= p_w p <= 16384 /\ 1 <= p_h p <= 16384 /\ 0 <= p_alpha p <= 1.
Proof.
  intros [H|H].
  - destruct H as (_ & Hw & Hh & Ha & _). auto.
  - destruct H as (mb & msub & _ & Hw & Hh & Ha & _). auto.
Qed.

(** The first five bytes of an emitted stream. *)
Theorem emit_header_bytes : forall p, wf_plan p ->
  exists payload, emit p =
    47 :: le32 ((p_w p - 1) + (p_h p - 1) * 16384 + p_alpha p * 268435456) ++ payload.
Proof.
  intros p Hwf. destruct (wf_plan_dims p Hwf) as (Hw & Hh & Ha).
  destruct (emit_header_bits p Hw Hh Ha) as [rest Hr].
  exists (bytes_of_bits rest). unfold emit. rewrite Hr, bytes_of_bits_word. reflexivity.
Qed.

(** What DecodeAlpha does: a fresh header with alpha bit 0 in front of the stream
    minus its first five bytes decodes to the pixels of the plan. *)
Corollary decode_rebuilt_header : forall p w h,
  wf_plan p -> p_alpha p = 0 -> p_w p = w -> p_h p = h ->
  decode (47 :: le32 ((w - 1) + (h - 1) * 16384) ++ skipn 5 (emit p)) = Ok (sem p).
Proof.
  intros p w h Hwf Ha Hw Hh. destruct (emit_header_bytes p Hwf) as [payload E].
  rewrite Ha, Hw, Hh in E. replace (w - 1 + (h - 1) * 16384 + 0 * 268435456) with (w - 1 + (h - 1) * 16384) in E by lia.
  rewrite <- (emit_decode p Hwf). f_equal. rewrite E.
  unfold le32. cbn [app skipn]. reflexivity.
Qed.
