(** Read-mostly arrays for the executable VP8L models: a positive-keyed trie
    (Coq stdlib [PositiveMap]) indexed by [Z], with a default for absent slots.
    Used for lookup tables that the decoder indexes once per pixel (meta prefix
    image, tile data, palette, colour cache) so that extracted code does not pay a
    linear [nth] per access. *)
From Coq Require Import List ZArith Lia Bool FMapPositive.
From Coq Require Import ZifyBool.
Import ListNotations.
Open Scope Z_scope.

Definition arr (A : Type) : Type := PositiveMap.t A.

Definition arr_empty {A} : arr A := PositiveMap.empty A.

Definition arr_key (i : Z) : positive := Z.to_pos (i + 1).

Definition arr_get {A} (d : A) (a : arr A) (i : Z) : A :=
  if i <? 0 then d
  else match PositiveMap.find (arr_key i) a with Some x => x | None => d end.

Definition arr_set {A} (a : arr A) (i : Z) (v : A) : arr A :=
  if i <? 0 then a else PositiveMap.add (arr_key i) v a.

Fixpoint arr_of_list_from {A} (i : Z) (l : list A) (a : arr A) : arr A :=
  match l with
  | [] => a
  | x :: tl => arr_of_list_from (i + 1) tl (arr_set a i x)
  end.

Definition arr_of_list {A} (l : list A) : arr A := arr_of_list_from 0 l arr_empty.

Lemma arr_key_inj i j : 0 <= i -> 0 <= j -> arr_key i = arr_key j -> i = j.
Proof. unfold arr_key. lia. Qed.

Lemma arr_get_set_same {A} (d : A) a i v : 0 <= i -> arr_get d (arr_set a i v) i = v.
Proof.
  intros Hi. unfold arr_get, arr_set. destruct (i <? 0) eqn:E; [lia|].
  now rewrite PositiveMap.gss.
Qed.

Lemma arr_get_set_other {A} (d : A) a i j v : 0 <= i -> i <> j -> arr_get d (arr_set a i v) j = arr_get d a j.
Proof.
  intros Hi Hij. unfold arr_get, arr_set. destruct (i <? 0) eqn:E; [lia|].
  destruct (j <? 0) eqn:Ej; [reflexivity|].
  rewrite PositiveMap.gso; [reflexivity|]. intros Hk. apply arr_key_inj in Hk; lia.
Qed.

Lemma arr_get_empty {A} (d : A) i : arr_get d arr_empty i = d.
Proof. unfold arr_get, arr_empty. destruct (i <? 0); [reflexivity|]. now rewrite PositiveMap.gempty. Qed.

Lemma arr_of_list_from_get {A} (d : A) l : forall i a j, 0 <= i ->
  arr_get d (arr_of_list_from i l a) j =
  if (i <=? j) && (j <? i + Z.of_nat (length l)) then nth (Z.to_nat (j - i)) l d else arr_get d a j.
Proof.
  induction l as [|x tl IH]; intros i a j Hi; cbn [arr_of_list_from length].
  - destruct (i <=? j) eqn:E1, (j <? i + Z.of_nat 0) eqn:E2; cbn; try reflexivity; lia.
  - rewrite IH by lia.
    destruct (Z.eq_dec i j) as [->|Hne].
    + replace (j + 1 <=? j) with false by lia. cbn [andb].
      rewrite arr_get_set_same by lia.
      replace (j <=? j) with true by lia. replace (j <? j + Z.of_nat (S (length tl))) with true by lia.
      cbn [andb]. now rewrite Z.sub_diag.
    + rewrite arr_get_set_other by lia.
      destruct (i + 1 <=? j) eqn:E1, (j <? i + 1 + Z.of_nat (length tl)) eqn:E2; cbn [andb].
      * replace (i <=? j) with true by lia. replace (j <? i + Z.of_nat (S (length tl))) with true by lia.
        cbn [andb]. replace (Z.to_nat (j - i)) with (S (Z.to_nat (j - (i + 1)))) by lia. reflexivity.
      * replace (j <? i + Z.of_nat (S (length tl))) with false by lia. now rewrite Bool.andb_false_r.
      * replace (i <=? j) with false by lia. reflexivity.
      * replace (i <=? j) with false by lia. reflexivity.
Qed.

Lemma arr_of_list_get {A} (d : A) l j :
  arr_get d (arr_of_list l) j = if (0 <=? j) && (j <? Z.of_nat (length l)) then nth (Z.to_nat j) l d else d.
Proof.
  unfold arr_of_list. rewrite arr_of_list_from_get by lia. rewrite Z.sub_0_r, Z.add_0_l.
  destruct ((0 <=? j) && (j <? Z.of_nat (length l)))%bool; [reflexivity|apply arr_get_empty].
Qed.
