(** Encoder side of the lossless round trip (property C01): pixel import, the
    transparent-area clean-up, the forward transform chain and its inversion by
    the decoder.

    The encoder's heuristics (which predictor per tile, which multipliers, which
    tokens, which codes) are not modelled: the forward chain below takes the
    transform list with its data as given, i.e. as *choices*. *)
From Coq Require Import List ZArith Lia Bool.
From Coq Require Import ZifyBool ZifyNat.
From Webp Require Import Base.Res Vp8l.Vp8lPixel Vp8l.Vp8lArr Vp8l.Vp8lPrefix Vp8l.Vp8lTransforms Vp8l.Vp8lSpec.
Import ListNotations.
Open Scope Z_scope.

Ltac Zify.zify_post_hook ::= Z.div_mod_to_equations.

(* ------------------------------------------------------------------ *)
(** * Un-premultiplying an *image.RGBA source *)

(** What "the source pixel read as non-premultiplied 8-bit RGBA" means in Go:
    color.NRGBAModel.Convert on the 16-bit values c*0x101, a*0x101. *)
Definition nrgba_model_chan (c a : Z) : Z :=
  if a =? 255 then c
  else if a =? 0 then 0
  else (((c * 257 * 65535) / (a * 257)) / 256) mod 256.

(** The fast paths of encode.go on the pinned tree: uint8(uint16(c) * 255 / uint16(a))
    for 0 < a < 255, the byte itself otherwise. *)
Definition pinned_fast_chan (c a : Z) : Z :=
  if (0 <? a) && (a <? 255) then ((c * 255) / a) mod 256 else c.

(** The repaired fast path (patch c01-rgba-unpremultiply-colour-model):
    uint8((uint32(c) * 0x101 * 0xffff / (uint32(a) * 0x101)) >> 8) for 0 < a < 255. *)
Definition fixed_fast_chan (c a : Z) : Z :=
  if (0 <? a) && (a <? 255) then ((((c * 257 * 65535) mod 4294967296) / (a * 257)) / 256) mod 256 else c.

Definition byte_pairs : list (Z * Z) :=
  flat_map (fun a => map (fun c => (c, a)) (map Z.of_nat (seq 0 (S (Z.to_nat a))))) (map Z.of_nat (seq 0 256)).

(** the pairs a valid premultiplied pixel can hold: 0 <= c <= a <= 255 *)
Lemma byte_pairs_complete c a : 0 <= c <= a -> a <= 255 -> In (c, a) byte_pairs.
Proof.
  intros Hc Ha. unfold byte_pairs. apply in_flat_map. exists a. split.
  - apply in_map_iff. exists (Z.to_nat a). split; [lia|apply in_seq; lia].
  - apply in_map_iff. exists c. split; [reflexivity|].
    apply in_map_iff. exists (Z.to_nat c). split; [lia|apply in_seq; lia].
Qed.

Definition rgba_unpremultiply_exact_statement (fast : Z -> Z -> Z) : Prop :=
  forall c a, 0 <= c <= a -> a <= 255 -> fast c a = nrgba_model_chan c a.

(** Decided by a complete sweep: false for the pinned formula ... *)
Definition pinned_diff_count : Z :=
  Z.of_nat (length (filter (fun '(c, a) => negb (pinned_fast_chan c a =? nrgba_model_chan c a)) byte_pairs)).

Theorem rgba_unpremultiply_refuted :
  ~ rgba_unpremultiply_exact_statement pinned_fast_chan /\ pinned_diff_count = 15193.
Proof.
  split.
  - intros H. specialize (H 5 6 ltac:(lia) ltac:(lia)). vm_compute in H. discriminate.
  - vm_compute. reflexivity.
Qed.

(** ... and true for the repaired one (the uint32 product never wraps). *)
Lemma fixed_sweep : forallb (fun '(c, a) => fixed_fast_chan c a =? nrgba_model_chan c a) byte_pairs = true.
Proof. vm_compute. reflexivity. Qed.

Theorem rgba_unpremultiply_exact_fixed : rgba_unpremultiply_exact_statement fixed_fast_chan.
Proof.
  intros c a Hc Ha. pose proof fixed_sweep as H. rewrite forallb_forall in H.
  specialize (H (c, a) (byte_pairs_complete c a Hc Ha)). cbn beta iota in H. lia.
Qed.

(* ------------------------------------------------------------------ *)
(** * cleanupTransparentAreaLossless and the expected result of a round trip *)

Definition cleanup (exact : bool) (p : px) : px :=
  if exact then p else if pa p =? 0 then px_zero else p.

(** expected decoded pixel for a source pixel given as non-premultiplied RGBA *)
Definition expected_px (exact : bool) (p : px) : px := cleanup exact p.

Lemma cleanup_exact p : cleanup true p = p.
Proof. reflexivity. Qed.

Lemma cleanup_visible exact p : pa p <> 0 -> cleanup exact p = p.
Proof. intros H. unfold cleanup. destruct exact; [reflexivity|]. destruct (pa p =? 0) eqn:E; [lia|reflexivity]. Qed.

Lemma cleanup_transparent p : pa p = 0 -> cleanup false p = px_zero.
Proof. intros H. unfold cleanup. rewrite H. reflexivity. Qed.

Lemma cleanup_idem exact p : cleanup exact (cleanup exact p) = cleanup exact p.
Proof.
  unfold cleanup. destruct exact; [reflexivity|].
  destruct (pa p =? 0) eqn:E; [reflexivity|]. now rewrite E.
Qed.

Lemma cleanup_wf exact p : wf_px p -> wf_px (cleanup exact p).
Proof.
  intros H. unfold cleanup. destruct exact; [exact H|]. destruct (pa p =? 0); [|exact H].
  unfold wf_px, chan_ok, px_zero; cbn [pa pr pg pb]. lia.
Qed.

(* ------------------------------------------------------------------ *)
(** * Forward transform chain and its inversion *)

Definition forward_transform (t : transform) (img : list px) : list px :=
  match t_type t with
  | 0 =>
    let a := arr_of_list (t_data t) in
    let tw := subsample (t_w t) (t_bits t) in
    predictor_fwd (fun x y => pg (arr_get px_zero a (tile_index tw (t_bits t) x y))) (t_w t) (Z.to_nat (t_w t)) img
  | 1 =>
    let a := arr_of_list (t_data t) in
    let tw := subsample (t_w t) (t_bits t) in
    cross_color_fwd (fun x y => arr_get px_zero a (tile_index tw (t_bits t) x y)) (t_w t) img
  | 2 => subtract_green_fwd img
  | _ =>
    color_index_fwd (fun p => index_of p (t_data t)) (t_bits t) (Z.to_nat (t_w t)) (Z.to_nat (t_h t)) img
  end.

(** The encoder applies the transforms in stream order. *)
Definition forward_chain (ts : list transform) (img : list px) : list px :=
  fold_left (fun im t => forward_transform t im) ts img.

(** Side conditions of one step (the encoder's validity predicate for the
    transform level): channels are bytes; for colour indexing every pixel is a
    palette entry, the palette fits the packing, and the sizes are right. *)
Definition step_ok (t : transform) (img : list px) : Prop :=
  Forall wf_px img /\
  (t_type t = 0 \/ t_type t = 1 \/ t_type t = 2 \/
   (t_type t = 3 /\ 0 <= t_bits t <= 3 /\ 0 < t_w t /\ 0 <= t_h t /\
    length img = (Z.to_nat (t_h t) * Z.to_nat (t_w t))%nat /\
    Z.of_nat (length (t_data t)) <= bmod (t_bits t) /\
    Forall (fun p => In p (t_data t)) img)).

Fixpoint chain_ok (ts : list transform) (img : list px) : Prop :=
  match ts with
  | [] => True
  | t :: rest => step_ok t img /\ chain_ok rest (forward_transform t img)
  end.

Lemma inverse_forward_step t img : step_ok t img -> inverse_transform t (forward_transform t img) = img.
Proof.
  intros [Hwf Hty]. unfold inverse_transform, forward_transform.
  destruct Hty as [E|[E|[E|(E & Hb & Hw & Hh & Hlen & Hpal & Hin)]]]; rewrite E.
  - apply inv_predictor_fwd_gen, Hwf.
  - apply inv_cross_color_fwd_gen, Hwf.
  - apply inv_subtract_green_fwd, Hwf.
  - apply inv_color_index_fwd_gen; [exact Hb|lia|exact Hlen|].
    rewrite Forall_forall in Hin |- *. intros p Hp. specialize (Hin p Hp).
    destruct (index_of_spec p (t_data t) Hin) as [Hr Hl]. split; [lia|].
    rewrite arr_of_list_get.
    replace ((0 <=? index_of p (t_data t)) && (index_of p (t_data t) <? Z.of_nat (length (t_data t))))%bool
      with true by lia.
    exact Hl.
Qed.

(** The decoder (inverse transforms in reverse order, each with the width
    recorded when it was read) undoes the encoder's chain. *)
Theorem inverse_chain : forall ts img,
  chain_ok ts img -> apply_inverse ts (forward_chain ts img) = img.
Proof.
  induction ts as [|t rest IH]; intros img Hc; [reflexivity|].
  destruct Hc as [Hs Hc]. unfold apply_inverse, forward_chain in *. cbn [rev fold_left].
  rewrite fold_left_app. cbn [fold_left].
  rewrite (IH _ Hc). apply inverse_forward_step, Hs.
Qed.

(** The hypotheses are satisfiable by a chain using all four transforms. *)
Definition ex_pal : list px := [mkpx 255 10 20 30; mkpx 255 200 100 50; mkpx 0 0 0 0].
Definition ex_ts : list transform :=
  [ mktransform 2 0 5 2 [];
    mktransform 3 2 5 2 ex_pal ].
Definition ex_img : list px :=
  map sg_inv [mkpx 255 10 20 30; mkpx 255 200 100 50; mkpx 0 0 0 0; mkpx 255 10 20 30; mkpx 255 10 20 30;
   mkpx 0 0 0 0; mkpx 255 200 100 50; mkpx 255 200 100 50; mkpx 255 10 20 30; mkpx 0 0 0 0].

Example ex_chain_roundtrip : apply_inverse ex_ts (forward_chain ex_ts ex_img) = ex_img.
Proof. vm_compute. reflexivity. Qed.

Lemma Forall_wf_reflect l : forallb wf_pxb l = true -> Forall wf_px l.
Proof.
  intros H. rewrite forallb_forall in H. apply Forall_forall. intros p Hp.
  apply wf_pxb_spec, H, Hp.
Qed.

Lemma Forall_In_reflect pal l : forallb (fun p => existsb (px_eqb p) pal) l = true -> Forall (fun p => In p pal) l.
Proof.
  intros H. rewrite forallb_forall in H. apply Forall_forall. intros p Hp.
  specialize (H p Hp). apply existsb_exists in H. destruct H as (q & Hq & E).
  apply px_eqb_eq in E. now subst q.
Qed.

Example ex_chain_ok : chain_ok ex_ts ex_img.
Proof.
  unfold ex_ts. cbn [chain_ok]. split; [|split; [|exact I]].
  - split; [apply Forall_wf_reflect; vm_compute; reflexivity|].
    right; right; left; reflexivity.
  - split; [apply Forall_wf_reflect; vm_compute; reflexivity|].
    right; right; right. cbn [t_type t_bits t_w t_h t_data].
    split; [reflexivity|]. split; [lia|]. split; [lia|]. split; [lia|].
    split; [vm_compute; reflexivity|]. split; [vm_compute; discriminate|].
    apply Forall_In_reflect. vm_compute. reflexivity.
Qed.
