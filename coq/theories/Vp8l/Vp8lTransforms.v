(** The four VP8L transforms (RFC 9649 §4), forward (encoder side) and inverse
    (decoder side), over row-major pixel lists, and the four theorems
    [inverse (forward x) = x].

    Everything position dependent (predictor mode / cross-colour multipliers of
    the tile a pixel lies in, palette lookup) enters through a function argument,
    so the theorems hold for every tile size, every tile-data image and every
    palette; the specification decoder instantiates the functions with lookups
    into the decoded sub-images. *)
From Coq Require Import List ZArith Lia Bool.
From Coq Require Import ZifyBool ZifyNat.
From Webp Require Import Vp8l.Vp8lPixel.
Import ListNotations.
Open Scope Z_scope.

Ltac Zify.zify_post_hook ::= Z.div_mod_to_equations.

(* ------------------------------------------------------------------ *)
(** * Position-tracking map over a row-major image of width [w] *)

Definition next_xy (w x y : Z) : Z * Z := if x + 1 <? w then (x + 1, y) else (0, y + 1).

Fixpoint map_xy (f : Z -> Z -> px -> px) (w x y : Z) (l : list px) : list px :=
  match l with
  | [] => []
  | p :: tl => let '(x', y') := next_xy w x y in f x y p :: map_xy f w x' y' tl
  end.

Lemma map_xy_length f w x y l : length (map_xy f w x y l) = length l.
Proof.
  revert x y; induction l as [|p tl IH]; intros x y; cbn [map_xy length]; [reflexivity|].
  destruct (next_xy w x y) as [x' y']. cbn [length]. now rewrite IH.
Qed.

Lemma map_xy_inverse f g w l :
  (forall x y p, wf_px p -> g x y (f x y p) = p) ->
  Forall wf_px l -> forall x y, map_xy g w x y (map_xy f w x y l) = l.
Proof.
  intros Hgf Hl. induction Hl as [|p tl Hp _ IH]; intros x y; [reflexivity|].
  cbn [map_xy]. destruct (next_xy w x y) as [x' y'] eqn:E.
  cbn [map_xy]. rewrite E. rewrite Hgf by exact Hp. now rewrite IH.
Qed.

(* ------------------------------------------------------------------ *)
(** * Subtract green *)

Definition sg_fwd (p : px) : px := mkpx (pa p) (b8 (pr p - pg p)) (pg p) (b8 (pb p - pg p)).
Definition sg_inv (p : px) : px := mkpx (pa p) (b8 (pr p + pg p)) (pg p) (b8 (pb p + pg p)).

Lemma sg_inv_fwd p : wf_px p -> sg_inv (sg_fwd p) = p.
Proof.
  destruct p as [a r g b]. unfold wf_px, chan_ok, sg_inv, sg_fwd; cbn [pa pr pg pb].
  rewrite !b8_mod. intros (Ha & Hr & Hg & Hb). f_equal; lia.
Qed.

Lemma sg_inv_wf p : wf_px p -> wf_px (sg_inv p).
Proof. unfold wf_px, chan_ok, sg_inv; cbn [pa pr pg pb]. rewrite !b8_mod. lia. Qed.

Definition subtract_green_fwd (img : list px) : list px := map sg_fwd img.
Definition subtract_green_inv (img : list px) : list px := map sg_inv img.

Theorem inv_subtract_green_fwd : forall img,
  Forall wf_px img -> subtract_green_inv (subtract_green_fwd img) = img.
Proof.
  intros img H. unfold subtract_green_inv, subtract_green_fwd.
  induction H as [|p tl Hp _ IH]; cbn [map]; [reflexivity|].
  now rewrite sg_inv_fwd, IH.
Qed.

(* ------------------------------------------------------------------ *)
(** * Cross-colour.  The multipliers of a tile are the channels of one pixel of
      the transform-data image: red = red_to_blue, green = green_to_blue,
      blue = green_to_red (ColorTransformElement). *)

Definition cc_fwd (m p : px) : px :=
  mkpx (pa p)
       (b8 (pr p - color_delta (pb m) (pg p)))
       (pg p)
       (b8 (pb p - color_delta (pg m) (pg p) - color_delta (pr m) (pr p))).

Definition cc_inv (m p : px) : px :=
  let r := b8 (pr p + color_delta (pb m) (pg p)) in
  mkpx (pa p) r (pg p)
       (b8 (pb p + color_delta (pg m) (pg p) + color_delta (pr m) r)).

Lemma cc_inv_fwd m p : wf_px p -> cc_inv m (cc_fwd m p) = p.
Proof.
  destruct p as [a r g b]. unfold wf_px, chan_ok, cc_inv, cc_fwd; cbn [pa pr pg pb].
  intros (Ha & Hr & Hg & Hb).
  generalize (color_delta (pb m) g) as d1. generalize (color_delta (pg m) g) as d2. intros d2 d1.
  assert (E : b8 (b8 (r - d1) + d1) = r) by (rewrite !b8_mod; lia).
  rewrite E.
  generalize (color_delta (pr m) r) as d3. intros d3.
  f_equal. rewrite !b8_mod; lia.
Qed.

Lemma cc_inv_wf m p : wf_px p -> wf_px (cc_inv m p).
Proof. unfold wf_px, chan_ok, cc_inv; cbn [pa pr pg pb]. rewrite !b8_mod. lia. Qed.

Section CrossColor.
  (** [mult x y] = the multiplier pixel of the tile containing (x, y). *)
  Variable mult : Z -> Z -> px.
  Variable w : Z.
  Definition cross_color_fwd (img : list px) : list px :=
    map_xy (fun x y p => cc_fwd (mult x y) p) w 0 0 img.
  Definition cross_color_inv (img : list px) : list px :=
    map_xy (fun x y p => cc_inv (mult x y) p) w 0 0 img.

  Theorem inv_cross_color_fwd_gen : forall img,
    Forall wf_px img -> cross_color_inv (cross_color_fwd img) = img.
  Proof.
    intros img H. unfold cross_color_inv, cross_color_fwd.
    apply (map_xy_inverse (fun x y p => cc_fwd (mult x y) p) (fun x y p => cc_inv (mult x y) p)).
    - intros x y p Hp. apply cc_inv_fwd, Hp.
    - exact H.
  Qed.
End CrossColor.

(* ------------------------------------------------------------------ *)
(** * Predictor *)

(** The 14 prediction modes on the neighbours L, T, TR, TL. *)
Definition pred14 (mode : Z) (L T TR TL : px) : px :=
  match mode with
  | 0 => px_black
  | 1 => L
  | 2 => T
  | 3 => TR
  | 4 => TL
  | 5 => avg2 (avg2 L TR) T
  | 6 => avg2 L TL
  | 7 => avg2 L T
  | 8 => avg2 TL T
  | 9 => avg2 T TR
  | 10 => avg2 (avg2 L TL) (avg2 T TR)
  | 11 => select L T TL
  | 12 => clamp_add_sub_full L T TL
  | 13 => clamp_add_sub_half (avg2 L T) TL
  | _ => px_black
  end.

(** Prediction for the pixel at (x, y) from the pixels before it in scan order;
    [acc] holds them most recent first, so L = acc[0], TR = acc[w-2] (for the
    rightmost pixel of a row this is the leftmost pixel of the current row, as
    the format prescribes), T = acc[w-1], TL = acc[w].  Edge rules: (0,0) is
    predicted as opaque black, the rest of the top row by L, the left column by T. *)
Definition pred_px (wn : nat) (mode : Z) (x y : Z) (acc : list px) : px :=
  if y =? 0 then (if x =? 0 then px_black else hd px_zero acc)
  else if x =? 0 then nth (wn - 1) acc px_zero
  else match skipn (wn - 2) acc with
       | tr :: t :: tl :: _ => pred14 mode (hd px_zero acc) t tr tl
       | _ => px_zero
       end.

Section Predictor.
  (** [mode_at x y] = prediction mode of the tile containing (x, y). *)
  Variable mode_at : Z -> Z -> Z.
  Variable w : Z.
  Variable wn : nat.      (* the width again, as the list offset of T/TR/TL; the decoder passes [Z.to_nat w] *)

  Definition pred_at (x y : Z) (acc : list px) : px :=
    pred_px wn (mode_at x y) x y acc.

  (** Forward: residual = pixel - prediction from the *original* neighbours. *)
  Fixpoint pred_fwd_from (x y : Z) (acc : list px) (l : list px) : list px :=
    match l with
    | [] => []
    | p :: tl =>
      let '(x', y') := next_xy w x y in
      px_sub p (pred_at x y acc) :: pred_fwd_from x' y' (p :: acc) tl
    end.

  (** Inverse: pixel = residual + prediction from the already *decoded* neighbours. *)
  Fixpoint pred_inv_from (x y : Z) (acc : list px) (l : list px) : list px :=
    match l with
    | [] => []
    | r :: tl =>
      let '(x', y') := next_xy w x y in
      let p := px_add r (pred_at x y acc) in
      p :: pred_inv_from x' y' (p :: acc) tl
    end.

  Definition predictor_fwd (img : list px) : list px := pred_fwd_from 0 0 [] img.
  Definition predictor_inv (img : list px) : list px := pred_inv_from 0 0 [] img.

  Lemma pred_inv_fwd_from : forall l, Forall wf_px l -> forall x y acc,
    pred_inv_from x y acc (pred_fwd_from x y acc l) = l.
  Proof.
    intros l Hl. induction Hl as [|p tl Hp _ IH]; intros x y acc; [reflexivity|].
    cbn [pred_fwd_from]. destruct (next_xy w x y) as [x' y'] eqn:E.
    cbn [pred_inv_from]. rewrite E. rewrite px_add_sub by exact Hp. now rewrite IH.
  Qed.

  Theorem inv_predictor_fwd_gen : forall img,
    Forall wf_px img -> predictor_inv (predictor_fwd img) = img.
  Proof. intros img H. apply pred_inv_fwd_from, H. Qed.

  Lemma pred_inv_from_length : forall l x y acc, length (pred_inv_from x y acc l) = length l.
  Proof.
    induction l as [|r tl IH]; intros x y acc; [reflexivity|].
    cbn [pred_inv_from]. destruct (next_xy w x y) as [x' y']. cbn [length]. now rewrite IH.
  Qed.
End Predictor.

(** Tile lookup used by the decoder: the data image has [tw = subsample w bits]
    columns; the tile of (x, y) is (x >> bits, y >> bits). *)
Definition tile_index (tw bits x y : Z) : Z := Z.shiftr y bits * tw + Z.shiftr x bits.

(* ------------------------------------------------------------------ *)
(** * Colour indexing with pixel packing *)

(** Packing exponent chosen by the palette size: 3 (8 indices per pixel) for
    <= 2 colours, 2 for <= 4, 1 for <= 16, 0 otherwise. *)
Definition ci_bits (ncolors : Z) : Z :=
  if ncolors <=? 2 then 3 else if ncolors <=? 4 then 2 else if ncolors <=? 16 then 1 else 0.

Fixpoint unpack_vals (k : nat) (m : Z) (v : Z) : list Z :=
  match k with O => [] | S k' => v mod m :: unpack_vals k' m (v / m) end.

Fixpoint pack_vals (m : Z) (l : list Z) : Z :=
  match l with [] => 0 | v :: tl => v + m * pack_vals m tl end.

Fixpoint rows {A} (n k : nat) (l : list A) : list (list A) :=
  match n with O => [] | S n' => firstn k l :: rows n' k (skipn k l) end.

Section ColorIndex.
  Variable look : Z -> px.          (* palette lookup, index -> colour *)
  Variable find : px -> Z.          (* encoder side: colour -> index *)
  Variable wb : Z.                  (* packing exponent 0..3 *)
  Variable w : nat.                 (* unpacked width *)

  Definition ppb : nat := Z.to_nat (2 ^ wb).           (* indices per packed pixel *)
  Definition bmod : Z := 2 ^ (8 / 2 ^ wb).             (* 2^(bits per index) *)
  Definition pw : nat := Z.to_nat (subsample (Z.of_nat w) wb).  (* packed width *)

  Definition unpack_row (row : list px) : list Z :=
    firstn w (flat_map (fun p => unpack_vals ppb bmod (pg p)) row).
  Definition pack_row (row : list Z) : list px :=
    map (fun c => mkpx 255 0 (pack_vals bmod c) 0) (rows pw ppb row).

  Definition color_index_inv (h : nat) (img : list px) : list px :=
    flat_map (fun r => map look (unpack_row r)) (rows h pw img).
  Definition color_index_fwd (h : nat) (img : list px) : list px :=
    flat_map (fun r => pack_row (map find r)) (rows h w img).
End ColorIndex.

Lemma unpack_pack_vals m : 1 < m -> forall l k,
  Forall (fun v => 0 <= v < m) l -> (length l <= k)%nat ->
  unpack_vals k m (pack_vals m l) = l ++ repeat 0 (k - length l).
Proof.
  intros Hm l. induction l as [|v tl IH]; intros k Hl Hk.
  - cbn [pack_vals length app]. rewrite Nat.sub_0_r. clear Hk.
    induction k as [|k IHk]; [reflexivity|]. cbn [unpack_vals repeat].
    rewrite Z.mod_0_l, Z.div_0_l by lia. now rewrite IHk.
  - destruct k as [|k]; [cbn [length] in Hk; lia|].
    inversion Hl as [|? ? Hv Htl]; subst.
    cbn [pack_vals unpack_vals length app]. cbn [length] in Hk.
    rewrite (Z.mul_comm m), Z_mod_plus_full, Z_div_plus_full by lia.
    rewrite Z.mod_small, Z.div_small by lia. rewrite Z.add_0_l.
    rewrite IH by (assumption || lia). reflexivity.
Qed.

Lemma rows_pad_firstn {A} (pad : list A -> list A) (k : nat) :
  (0 < k)%nat -> (forall c : list A, length c = k -> pad c = []) ->
  forall n (l : list A), (length l <= n * k)%nat ->
  firstn (length l) (flat_map (fun c => c ++ pad c) (rows n k l)) = l.
Proof.
  intros Hk Hpad n. induction n as [|n IH]; intros l Hl.
  - destruct l; [reflexivity|cbn [length] in Hl; lia].
  - cbn [rows flat_map]. rewrite Nat.mul_succ_l in Hl.
    destruct (Nat.le_gt_cases k (length l)) as [Hge|Hlt].
    + assert (Hf : length (firstn k l) = k) by (rewrite firstn_length; lia).
      rewrite (Hpad _ Hf), app_nil_r.
      rewrite <- (firstn_skipn k l) at 1. rewrite app_length, Hf.
      rewrite firstn_app, Hf.
      replace (k + length (skipn k l) - k)%nat with (length (skipn k l)) by lia.
      rewrite firstn_all2 by (rewrite firstn_length; lia).
      rewrite IH by (rewrite skipn_length; lia).
      apply firstn_skipn.
    + rewrite (@firstn_all2 A k l) by lia.
      rewrite <- app_assoc. rewrite firstn_app, Nat.sub_diag. cbn [firstn].
      rewrite firstn_all, app_nil_r. reflexivity.
Qed.

Lemma flat_map_map {A B C} (f : A -> B) (g : B -> list C) l :
  flat_map g (map f l) = flat_map (fun x => g (f x)) l.
Proof. induction l as [|a tl IH]; cbn [map flat_map]; [reflexivity|now rewrite IH]. Qed.

Lemma rows_Forall {A} (P : A -> Prop) n k (l : list A) :
  Forall P l -> Forall (Forall P) (rows n k l).
Proof.
  revert l; induction n as [|n IH]; intros l H; cbn [rows]; constructor.
  - rewrite <- (firstn_skipn k l) in H. apply Forall_app in H. apply H.
  - apply IH. rewrite <- (firstn_skipn k l) in H. apply Forall_app in H. apply H.
Qed.

Lemma rows_length_le {A} n k (l : list A) : Forall (fun c => (length c <= k)%nat) (rows n k l).
Proof.
  revert l; induction n as [|n IH]; intros l; cbn [rows]; constructor; [|apply IH].
  rewrite firstn_length. lia.
Qed.

Lemma flat_map_ext_Forall {A B} (f g : A -> list B) (P : A -> Prop) l :
  (forall a, P a -> f a = g a) -> Forall P l -> flat_map f l = flat_map g l.
Proof.
  intros Hfg H. induction H as [|a tl Ha _ IH]; cbn [flat_map]; [reflexivity|].
  now rewrite Hfg, IH.
Qed.

Lemma rows_concat {A} n k (l : list A) :
  (length l <= n * k)%nat -> concat (rows n k l) = l.
Proof.
  revert l; induction n as [|n IH]; intros l H.
  - destruct l; [reflexivity|cbn [length] in H; lia].
  - cbn [rows concat]. rewrite IH by (rewrite skipn_length; lia). apply firstn_skipn.
Qed.

Lemma rows_length_eq {A} n k (l : list A) :
  length l = (n * k)%nat -> Forall (fun c => length c = k) (rows n k l).
Proof.
  revert l; induction n as [|n IH]; intros l H; cbn [rows]; constructor.
  - rewrite firstn_length. lia.
  - apply IH. rewrite skipn_length. lia.
Qed.

Section ColorIndexProof.
  Variable look : Z -> px.
  Variable find : px -> Z.
  Variable wb : Z.
  Variable w : nat.
  Hypothesis Hwb : 0 <= wb <= 3.
  Hypothesis Hw : (0 < w)%nat.

  Lemma ppb_pos : (0 < ppb wb)%nat.
  Proof. unfold ppb. assert (0 < 2 ^ wb) by (apply Z.pow_pos_nonneg; lia). lia. Qed.

  Lemma bmod_gt1 : 1 < bmod wb.
  Proof.
    unfold bmod. assert (H : wb = 0 \/ wb = 1 \/ wb = 2 \/ wb = 3) by lia.
    destruct H as [ -> | [ -> | [ -> | -> ] ] ]; reflexivity.
  Qed.

  Lemma pw_covers : (w <= pw wb w * ppb wb)%nat.
  Proof.
    unfold pw, ppb, subsample.
    assert (H : wb = 0 \/ wb = 1 \/ wb = 2 \/ wb = 3) by lia.
    destruct H as [ -> | [ -> | [ -> | -> ] ] ]; cbn; lia.
  Qed.

  Lemma unpack_pack_row (row : list Z) :
    length row = w -> Forall (fun v => 0 <= v < bmod wb) row ->
    unpack_row wb w (pack_row wb w row) = row.
  Proof.
    intros Hlen Hrow. unfold unpack_row, pack_row.
    rewrite flat_map_map. cbn [pg].
    rewrite (flat_map_ext_Forall _ (fun c => c ++ repeat 0 (ppb wb - length c))
               (fun c => Forall (fun v => 0 <= v < bmod wb) c /\ (length c <= ppb wb)%nat)).
    - rewrite <- Hlen. apply rows_pad_firstn.
      + apply ppb_pos.
      + intros c Hc. rewrite Hc, Nat.sub_diag. reflexivity.
      + rewrite Hlen. apply pw_covers.
    - intros c [Hc1 Hc2]. apply unpack_pack_vals; [apply bmod_gt1|assumption|assumption].
    - apply Forall_forall. intros c Hin. split.
      + pose proof (rows_Forall _ (pw wb w) (ppb wb) row Hrow) as HF.
        rewrite Forall_forall in HF. apply HF, Hin.
      + pose proof (rows_length_le (pw wb w) (ppb wb) row) as HF.
        rewrite Forall_forall in HF. apply HF, Hin.
  Qed.

  Lemma pack_row_length (row : list Z) : length (pack_row wb w row) = pw wb w.
  Proof.
    unfold pack_row. rewrite map_length. generalize (pw wb w) as n. intros n.
    revert row; induction n as [|n IH]; intros row; cbn [rows length]; [reflexivity|now rewrite IH].
  Qed.

  (** Image-level theorem; hypothesis: every pixel's index is in range for the
      packing and looks up to the pixel itself. *)
  Lemma rows_app_first {A} (n k : nat) (a b : list A) :
    length a = k -> rows (S n) k (a ++ b) = a :: rows n k b.
  Proof.
    intros H. cbn [rows]. rewrite firstn_app, skipn_app, <- H, Nat.sub_diag, firstn_all, skipn_all.
    cbn [firstn skipn app]. now rewrite app_nil_r.
  Qed.

  Theorem inv_color_index_fwd_gen : forall (h : nat) (img : list px),
    length img = (h * w)%nat ->
    Forall (fun p => 0 <= find p < bmod wb /\ look (find p) = p) img ->
    color_index_inv look wb w h (color_index_fwd find wb w h img) = img.
  Proof.
    intros h. induction h as [|h IH]; intros img Hlen Himg.
    - destruct img; [reflexivity|cbn [length] in Hlen; lia].
    - assert (Hrl : length (firstn w img) = w) by (rewrite firstn_length; lia).
      assert (Ef : color_index_fwd find wb w (S h) img =
                   pack_row wb w (map find (firstn w img)) ++ color_index_fwd find wb w h (skipn w img))
        by reflexivity.
      rewrite Ef. unfold color_index_inv at 1.
      rewrite rows_app_first by apply pack_row_length.
      cbn [flat_map].
      fold (color_index_inv look wb w h (color_index_fwd find wb w h (skipn w img))).
      rewrite <- (firstn_skipn w img) in Himg. apply Forall_app in Himg. destruct Himg as [H1 H2].
      rewrite IH; [|rewrite skipn_length; lia|exact H2].
      rewrite unpack_pack_row.
      + rewrite map_map.
        rewrite <- (firstn_skipn w img) at 3. f_equal.
        clear - H1. induction H1 as [|p tl [_ Hp] _ IHl]; cbn [map]; [reflexivity|]. now rewrite Hp, IHl.
      + now rewrite map_length.
      + clear - H1. induction H1 as [|p tl [Hp _] _ IHl]; cbn [map]; constructor; assumption.
  Qed.
End ColorIndexProof.

(** Concrete palette functions. *)
Fixpoint index_of (p : px) (pal : list px) : Z :=
  match pal with
  | [] => 0
  | q :: tl => if px_eqb p q then 0 else 1 + index_of p tl
  end.
Definition pal_look (pal : list px) (i : Z) : px := nth (Z.to_nat i) pal px_zero.

Lemma index_of_spec p pal : In p pal ->
  0 <= index_of p pal < Z.of_nat (length pal) /\ pal_look pal (index_of p pal) = p.
Proof.
  unfold pal_look. induction pal as [|q tl IH]; intros Hin; [destruct Hin|].
  cbn [index_of length]. destruct (px_eqb p q) eqn:E.
  - apply px_eqb_eq in E. subst q. split; [lia|reflexivity].
  - destruct Hin as [->|Hin].
    + assert (px_eqb p p = true) by now apply px_eqb_eq. congruence.
    + destruct (IH Hin) as [Hr Hl]. split; [lia|].
      replace (Z.to_nat (1 + index_of p tl)) with (S (Z.to_nat (index_of p tl))) by lia.
      exact Hl.
Qed.
