(** Implementation model of /repo's Huffman lookup tables
    (internal/lossless/huffman.go): [lut_build] transcribes BuildHuffmanTable —
    symbols sorted by (length, symbol), a running bit-reversed key advanced by
    getNextKey, the replicate step that copies an entry to every table slot
    congruent to the key, second-level sub-tables sized by nextTableBitSize and
    linked from the root slot — and [lut_read] transcribes ReadSymbol (root
    lookup, optional second-level lookup).

    [lut_decode_eq_canonical_root]: for every length vector the decoder accepts
    whose lengths do not exceed the root size (always the case for the
    code-length code: 7-bit root, lengths <= 7; and for every code with lengths
    <= 8), the lookup on any bit window returns exactly the symbol and the length
    that walking the canonical code tree of [Vp8lCanon] on the same bits gives.
    The general two-level statement [lut_decode_eq_canonical_statement] is proved in
    [Vp8lLut2] (second-level tables, nextTableBitSize = height of the sub-tree). *)
From Coq Require Import List ZArith Lia Bool Sorting.Sorted.
From Coq Require Import ZifyBool ZifyNat.
From Webp Require Import Base.Res Vp8l.Vp8lArr Vp8l.Vp8lPrefix Vp8l.Vp8lCanon.
Import ListNotations.
Open Scope Z_scope.

Definition entry : Type := (Z * Z)%type.        (* (Bits, Value) *)
Definition entry0 : entry := (0, 0).

(** getNextKey(key, len): reverse(reverse(key, len) + 1, len). *)
Fixpoint next_key (n : nat) (key : Z) : Z :=
  match n with
  | O => key
  | S n' => if Z.odd (key / 2 ^ Z.of_nat n') then next_key n' key
            else key mod 2 ^ Z.of_nat n' + 2 ^ Z.of_nat n'
  end.

(** replicateValue(table[base:], step, cnt*step, code): slots base + k*step, k < cnt. *)
Fixpoint replicate (cnt : nat) (tab : arr entry) (base step : Z) (code : entry) : arr entry :=
  match cnt with
  | O => tab
  | S c => replicate c (arr_set tab (base + Z.of_nat c * step) code) base step code
  end.

(** nextTableBitSize(count, len, rootBits), with count[l] = number of symbols of
    length l not yet placed (= those in [items], the current one included). *)
Definition count_rem (items : list (Z * Z)) (l : Z) : Z :=
  Z.of_nat (length (filter (fun it => fst it =? l) items)).

Fixpoint next_table_bits (fuel : nat) (items : list (Z * Z)) (len left root : Z) : Z :=
  match fuel with
  | O => len - root
  | S f =>
    if 15 <=? len then len - root
    else let left := left - count_rem items len in
         if left <=? 0 then len - root
         else next_table_bits f items (len + 1) (left * 2) root
  end.

Record lstate := mkl { l_key : Z; l_tab : arr entry; l_low : Z; l_off : Z; l_size : Z }.

Fixpoint lut_fill (root : Z) (items : list (Z * Z)) (st : lstate) : lstate :=
  match items with
  | [] => st
  | (l, s) :: tl =>
    if l <=? root then
      let tab := replicate (Z.to_nat (2 ^ (root - l))) (l_tab st) (l_key st) (2 ^ l) (l, s) in
      lut_fill root tl (mkl (next_key (Z.to_nat l) (l_key st)) tab (l_low st) (l_off st) (l_size st))
    else
      let pre := l_key st mod 2 ^ root in
      let st1 :=
        if pre =? l_low st then st
        else
          let off := l_off st + l_size st in
          let tb := next_table_bits 16 items l (2 ^ (l - root)) root in
          mkl (l_key st) (arr_set (l_tab st) pre (tb + root, off)) pre off (2 ^ tb) in
      let step := 2 ^ (l - root) in
      let tab := replicate (Z.to_nat (l_size st1 / step)) (l_tab st1) (l_off st1 + l_key st / 2 ^ root) step (l - root, s) in
      lut_fill root tl (mkl (next_key (Z.to_nat l) (l_key st)) tab (l_low st1) (l_off st1) (l_size st1))
  end.

(** BuildHuffmanTable(rootBits, codeLengths): error unless exactly one symbol is
    used or the code is complete. *)
Definition lut_build (root : Z) (lens : list Z) : Res (arr entry) :=
  if negb (lens_in_range lens) then Err E_CODE else
  match lens_items lens with
  | [] => Err E_CODE
  | [(_, s)] => Ok (replicate (Z.to_nat (2 ^ root)) arr_empty 0 1 (0, s))
  | items =>
    if kraft_sum lens =? 32768
    then Ok (l_tab (lut_fill root items (mkl 0 arr_empty (-1) 0 (2 ^ root))))
    else Err E_CODE
  end.

(** ReadSymbol(table, prefetch) -> (value, bits used) *)
Definition lut_read (root : Z) (tab : arr entry) (w : Z) : Z * Z :=
  let '(b, v) := arr_get entry0 tab (w mod 2 ^ root) in
  let nb := b - root in
  if 0 <? nb then
    let '(b2, v2) := arr_get entry0 tab (v + (w / 2 ^ root) mod 2 ^ nb) in
    (v2, root + b2)
  else (v, b).

(** The specification side: walk the code tree along the bits of [w], least
    significant bit first; returns the symbol and the number of bits consumed. *)
Definition bump (r : option (Z * Z)) : option (Z * Z) :=
  match r with Some (v, n) => Some (v, n + 1) | None => None end.

Fixpoint walk (t : tree) (w : Z) : option (Z * Z) :=
  match t with
  | Leaf v => Some (v, 0)
  | Hole => None
  | Node l r => if Z.odd w then bump (walk r (w / 2)) else bump (walk l (w / 2))
  end.

Lemma walk_nonneg t : forall w v n, walk t w = Some (v, n) -> 0 <= n.
Proof.
  induction t as [s|l IHl r IHr|]; intros w v n H; cbn [walk] in H.
  - injection H as _ <-. lia.
  - destruct (Z.odd w).
    + destruct (walk r (w / 2)) as [[v' n']|] eqn:E; cbn [bump] in H; [|discriminate].
      injection H as _ <-. specialize (IHr _ _ _ E). lia.
    + destruct (walk l (w / 2)) as [[v' n']|] eqn:E; cbn [bump] in H; [|discriminate].
      injection H as _ <-. specialize (IHl _ _ _ E). lia.
  - discriminate.
Qed.

(** [walk] is [read_symbol] on the bit list of the window. *)
Lemma walk_read_symbol t : forall w v n k rest, walk t w = Some (v, n) -> (Z.to_nat n <= k)%nat ->
  read_symbol t (put_bits k w ++ rest) = Ok (v, put_bits (k - Z.to_nat n) (w / 2 ^ n) ++ rest).
Proof.
  induction t as [s|l IHl r IHr|]; intros w v n k rest H Hk; cbn [walk] in H.
  - injection H as <- <-. cbn [read_symbol]. rewrite Nat.sub_0_r. change (2 ^ 0) with 1. now rewrite Z.div_1_r.
  - assert (Hstep : forall sub, (forall w v n k rest, walk sub w = Some (v, n) -> (Z.to_nat n <= k)%nat ->
                      read_symbol sub (put_bits k w ++ rest) = Ok (v, put_bits (k - Z.to_nat n) (w / 2 ^ n) ++ rest)) ->
                    bump (walk sub (w / 2)) = Some (v, n) ->
                    exists k', k = S k' /\
                      read_symbol sub (put_bits k' (w / 2) ++ rest) = Ok (v, put_bits (k - Z.to_nat n) (w / 2 ^ n) ++ rest)).
    { intros sub IH Hb. destruct (walk sub (w / 2)) as [[v' n']|] eqn:E; cbn [bump] in Hb; [|discriminate].
      injection Hb as <- <-. pose proof (walk_nonneg _ _ _ _ E) as Hn'.
      destruct k as [|k']; [exfalso; clear - Hk Hn'; lia|]. exists k'. split; [reflexivity|].
      rewrite (IH _ _ _ k' rest E) by lia.
      replace (S k' - Z.to_nat (n' + 1))%nat with (k' - Z.to_nat n')%nat by (clear - Hn'; lia).
      replace (w / 2 ^ (n' + 1)) with (w / 2 / 2 ^ n'); [reflexivity|].
      rewrite Z.pow_add_r, Z.pow_1_r by lia.
      rewrite (Z.mul_comm (2 ^ n')), Z.div_div by (try lia; apply Z.pow_pos_nonneg; lia). reflexivity. }
    destruct (Z.odd w) eqn:Eo.
    + destruct (Hstep r IHr H) as (k' & -> & Hr). cbn [put_bits app read_symbol]. rewrite Eo. exact Hr.
    + destruct (Hstep l IHl H) as (k' & -> & Hl). cbn [put_bits app read_symbol]. rewrite Eo. exact Hl.
  - discriminate.
Qed.

(* ------------------------------------------------------------------ *)
(** * Leaves of the code tree = the sorted symbols *)

Fixpoint leaves (d : Z) (t : tree) : list (Z * Z) :=
  match t with
  | Leaf v => [(d, v)]
  | Hole => []
  | Node l r => leaves (d + 1) l ++ leaves (d + 1) r
  end.

Fixpoint complete (t : tree) : Prop :=
  match t with Leaf _ => True | Hole => False | Node l r => complete l /\ complete r end.

Lemma build_leaves : forall f d items,
  0 <= d <= 15 -> 15 - d < Z.of_nat f ->
  StronglySorted Rle items -> Forall (fun it => d <= fst it <= 15) items ->
  items = leaves d (fst (build f d items)) ++ snd (build f d items) /\
  sumw (leaves d (fst (build f d items))) <= 2 ^ (15 - d) /\
  (sumw (leaves d (fst (build f d items))) = 2 ^ (15 - d) -> complete (fst (build f d items))).
Proof.
  induction f as [|f IH]; intros d items Hd Hf Hs Hb.
  - lia.
  - destruct items as [|[len sym] tl].
    + cbn [build fst snd leaves app sumw complete]. assert (0 < 2 ^ (15 - d)) by (apply Z.pow_pos_nonneg; lia).
      repeat split; try lia.
    + cbn [build]. assert (Hlen : d <= len <= 15) by (inversion Hb; subst; assumption).
      destruct (len <=? d) eqn:E.
      * assert (len = d) by lia. subst len. cbn [fst snd leaves app sumw complete]. unfold wt.
        repeat split; try lia.
      * assert (Hb1 : Forall (fun it => d + 1 <= fst it <= 15) ((len, sym) :: tl)).
        { inversion Hs as [|? ? Hs' Hall]; subst. constructor; [cbn [fst]; lia|].
          inversion Hb as [|? ? _ Hbt]; subst.
          rewrite Forall_forall in *. intros y Hy. specialize (Hall y Hy). specialize (Hbt y Hy).
          unfold Rle in Hall. cbn [fst] in Hall. lia. }
        destruct (IH (d + 1) ((len, sym) :: tl) ltac:(lia) ltac:(lia) Hs Hb1) as (Hi1 & Hle1 & Hc1).
        destruct (build f (d + 1) ((len, sym) :: tl)) as [lt r1] eqn:E1. cbn [fst snd] in *.
        assert (Hs2 : StronglySorted Rle r1) by (rewrite Hi1 in Hs; eapply SS_suffix; exact Hs).
        assert (Hb2 : Forall (fun it => d + 1 <= fst it <= 15) r1).
        { rewrite Hi1 in Hb1. apply Forall_app in Hb1. apply Hb1. }
        destruct (IH (d + 1) r1 ltac:(lia) ltac:(lia) Hs2 Hb2) as (Hi2 & Hle2 & Hc2).
        destruct (build f (d + 1) r1) as [rt r2] eqn:E2. cbn [fst snd leaves complete] in *.
        assert (Hp : 2 ^ (15 - d) = 2 * 2 ^ (15 - (d + 1))).
        { replace (15 - d) with (Z.succ (15 - (d + 1))) by lia. rewrite Z.pow_succ_r by lia. reflexivity. }
        rewrite sumw_app. split; [rewrite <- app_assoc, <- Hi2; exact Hi1|]. split; [lia|].
        intros Hsum. split; [apply Hc1|apply Hc2]; lia.
Qed.

(* ------------------------------------------------------------------ *)
(** * Table lemmas *)

Lemma replicate_get : forall cnt tab base step code j, 0 <= base -> 0 < step ->
  arr_get entry0 (replicate cnt tab base step code) j =
  if (base <=? j) && ((j - base) mod step =? 0) && ((j - base) / step <? Z.of_nat cnt)
  then code else arr_get entry0 tab j.
Proof.
  induction cnt as [|c IH]; intros tab base step code j Hb Hs.
  - cbn [replicate]. destruct (base <=? j) eqn:E; cbn [andb]; [|reflexivity].
    assert (0 <= (j - base) / step) by (apply Z.div_pos; lia).
    replace ((j - base) / step <? Z.of_nat 0) with false by lia. now rewrite andb_false_r.
  - cbn [replicate]. rewrite IH by assumption.
    destruct ((base <=? j) && ((j - base) mod step =? 0) && ((j - base) / step <? Z.of_nat c))%bool eqn:E1.
    + replace ((base <=? j) && ((j - base) mod step =? 0) && ((j - base) / step <? Z.of_nat (S c)))%bool with true; [reflexivity|].
      symmetry. apply andb_true_iff in E1. destruct E1 as [E1 E3]. rewrite E1. cbn [andb]. lia.
    + destruct (Z.eq_dec j (base + Z.of_nat c * step)) as [->|Hne].
      * rewrite arr_get_set_same by nia.
        replace (base + Z.of_nat c * step - base) with (Z.of_nat c * step) by lia.
        rewrite Z.mod_mul, Z.div_mul by lia.
        replace (base <=? base + Z.of_nat c * step) with true by nia.
        cbn [andb Z.eqb]. replace (Z.of_nat c <? Z.of_nat (S c)) with true by lia. reflexivity.
      * rewrite arr_get_set_other by nia.
        replace ((base <=? j) && ((j - base) mod step =? 0) && ((j - base) / step <? Z.of_nat (S c)))%bool with false; [reflexivity|].
        symmetry. apply andb_false_iff. apply andb_false_iff in E1.
        destruct E1 as [E1|E1]; [left; exact E1|].
        destruct ((base <=? j) && ((j - base) mod step =? 0))%bool eqn:E0; [right|left; reflexivity].
        apply andb_true_iff in E0. destruct E0 as [Ea Eb].
        assert (Hdm : j - base = step * ((j - base) / step)).
        { pose proof (Z.div_mod (j - base) step ltac:(lia)). lia. }
        destruct (Z.ltb_spec ((j - base) / step) (Z.of_nat (S c))); [|reflexivity].
        assert ((j - base) / step = Z.of_nat c) by lia. exfalso. apply Hne. nia.
Qed.

(** next_key facts *)
Lemma next_key_left d key : 0 <= key < 2 ^ Z.of_nat d -> next_key (S d) key = key + 2 ^ Z.of_nat d.
Proof. intros H. cbn [next_key]. rewrite Z.div_small, Z.mod_small by lia. reflexivity. Qed.

Lemma next_key_right d key : 0 <= key < 2 ^ Z.of_nat d ->
  next_key (S d) (key + 2 ^ Z.of_nat d) = next_key d (key + 2 ^ Z.of_nat d).
Proof.
  intros H. cbn [next_key].
  replace (key + 2 ^ Z.of_nat d) with (key + 1 * 2 ^ Z.of_nat d) by lia.
  rewrite Z.div_add, Z.div_small by lia. reflexivity.
Qed.

Lemma next_key_high n : forall d key, (n <= d)%nat -> 0 <= key ->
  key mod 2 ^ Z.of_nat n <> 2 ^ Z.of_nat n - 1 ->
  next_key n (key + 2 ^ Z.of_nat d) = next_key n key.
Proof.
  induction n as [|n IH]; intros d key Hn Hk Hnot.
  - exfalso. apply Hnot. change (2 ^ Z.of_nat 0) with 1. rewrite Z.mod_1_r. reflexivity.
  - cbn [next_key].
    assert (Hp : 0 < 2 ^ Z.of_nat n) by (apply Z.pow_pos_nonneg; lia).
    assert (E : 2 ^ Z.of_nat d = 2 ^ (Z.of_nat d - Z.of_nat n) * 2 ^ Z.of_nat n).
    { rewrite <- Z.pow_add_r by lia. f_equal. lia. }
    assert (Ediv : (key + 2 ^ Z.of_nat d) / 2 ^ Z.of_nat n = key / 2 ^ Z.of_nat n + 2 ^ (Z.of_nat d - Z.of_nat n)).
    { rewrite E, Z.div_add by lia. reflexivity. }
    assert (Emod : (key + 2 ^ Z.of_nat d) mod 2 ^ Z.of_nat n = key mod 2 ^ Z.of_nat n).
    { rewrite E, Z.mod_add by lia. reflexivity. }
    rewrite Ediv, Emod, Z.odd_add, Z.odd_pow by lia. change (Z.odd 2) with false. rewrite xorb_false_r.
    destruct (Z.odd (key / 2 ^ Z.of_nat n)) eqn:Eo; [|reflexivity].
    apply IH; [lia|lia|].
    intros Hall. apply Hnot.
    rewrite Nat2Z.inj_succ, Z.pow_succ_r by lia.
    rewrite Z.mul_comm, Z.rem_mul_r by lia. rewrite Hall.
    rewrite Zmod_odd, Eo. lia.
Qed.

(** the slots of the residue class [key] modulo 2^d inside a table of 2^root slots *)
Lemma class_cond P Q key j : 0 < P -> 0 < Q -> 0 <= key < P ->
  ((key <=? j) && ((j - key) mod P =? 0) && ((j - key) / P <? Q))%bool =
  ((0 <=? j) && (j <? P * Q) && (j mod P =? key))%bool.
Proof.
  intros HP HQ Hk. apply eq_true_iff_eq.
  rewrite !andb_true_iff, !Z.leb_le, !Z.ltb_lt, !Z.eqb_eq. split.
  - intros [[H1 H2] H3].
    pose proof (Z.div_mod (j - key) P ltac:(lia)) as E. rewrite H2 in E.
    assert (Hq : 0 <= (j - key) / P) by (apply Z.div_pos; lia).
    split; [split; [lia|nia]|].
    symmetry. apply (Z.mod_unique j P ((j - key) / P) key); lia.
  - intros [[H1 H2] H3].
    pose proof (Z.div_mod j P ltac:(lia)) as E. rewrite H3 in E.
    assert (Hq : 0 <= j / P) by (apply Z.div_pos; lia).
    assert (Hjk : j - key = (j / P) * P) by lia.
    split; [split; [nia|rewrite Hjk; apply Z.mod_mul; lia]|].
    rewrite Hjk, Z.div_mul by lia. nia.
Qed.

Lemma split_class P key j : 0 < P -> 0 <= key < P -> 0 <= j ->
  (j mod P =? key) = ((j mod (2 * P) =? key) || (j mod (2 * P) =? key + P))%bool /\
  (j mod (2 * P) = key -> Z.odd (j / P) = false) /\
  (j mod (2 * P) = key + P -> Z.odd (j / P) = true) /\
  j / P / 2 = j / (2 * P).
Proof.
  intros HP Hk Hj.
  assert (E : j mod (2 * P) = j mod P + P * ((j / P) mod 2)).
  { rewrite (Z.mul_comm 2 P). apply Z.rem_mul_r; lia. }
  pose proof (Z.mod_pos_bound j P HP) as B.
  rewrite (Zmod_odd (j / P)) in E.
  split; [|split; [|split]].
  - destruct (Z.odd (j / P)); apply eq_true_iff_eq; rewrite orb_true_iff, !Z.eqb_eq; lia.
  - intros H. destruct (Z.odd (j / P)); [lia|reflexivity].
  - intros H. destruct (Z.odd (j / P)); [reflexivity|lia].
  - rewrite Z.div_div by lia. f_equal. lia.
Qed.

Section RootOnly.
  Variable root : Z.
  Hypothesis Hroot : 0 <= root.

  Definition slot_of (t : tree) (d : Z) (j : Z) : entry :=
    match walk t (j / 2 ^ d) with Some (v, n) => (d + n, v) | None => entry0 end.

  Lemma fill_subtree : forall t dn key st rest,
    complete t -> Forall (fun it => fst it <= root) (leaves (Z.of_nat dn) t) ->
    0 <= key < 2 ^ Z.of_nat dn -> l_key st = key ->
    exists st', lut_fill root (leaves (Z.of_nat dn) t ++ rest) st = lut_fill root rest st' /\
      l_low st' = l_low st /\ l_off st' = l_off st /\ l_size st' = l_size st /\
      (key <> 2 ^ Z.of_nat dn - 1 -> l_key st' = next_key dn key) /\
      forall j, arr_get entry0 (l_tab st') j =
        if (0 <=? j) && (j <? 2 ^ root) && (j mod 2 ^ Z.of_nat dn =? key)
        then slot_of t (Z.of_nat dn) j else arr_get entry0 (l_tab st) j.
  Proof.
    induction t as [v|l IHl r IHr|]; intros dn key st rest Hc Hle Hk Hst; cbn [complete] in Hc; [| |contradiction].
    - (* leaf *)
      set (d := Z.of_nat dn) in *. cbn [leaves app lut_fill].
      inversion Hle as [|? ? Hd _]; subst. cbn [fst] in Hd.
      replace (d <=? root) with true by lia.
      eexists. split; [reflexivity|]. cbn [l_low l_off l_size l_key l_tab].
      repeat split; try reflexivity.
      + intros _. unfold d. now rewrite Nat2Z.id.
      + intros j. assert (HP : 0 < 2 ^ d) by (apply Z.pow_pos_nonneg; lia).
        assert (HQ : 0 < 2 ^ (root - d)) by (apply Z.pow_pos_nonneg; lia).
        rewrite replicate_get by lia. rewrite Z2Nat.id by lia.
        rewrite class_cond by lia.
        replace (2 ^ d * 2 ^ (root - d)) with (2 ^ root) by (rewrite <- Z.pow_add_r by lia; f_equal; lia).
        unfold slot_of. cbn [walk]. now rewrite Z.add_0_r.
    - (* node *)
      destruct Hc as [Hcl Hcr]. cbn [leaves] in *.
      replace (Z.of_nat dn + 1) with (Z.of_nat (S dn)) in * by lia.
      apply Forall_app in Hle. destruct Hle as [Hlel Hler].
      rewrite <- app_assoc.
      assert (HP : 0 < 2 ^ Z.of_nat dn) by (apply Z.pow_pos_nonneg; lia).
      assert (E2 : 2 ^ Z.of_nat (S dn) = 2 * 2 ^ Z.of_nat dn) by (rewrite Nat2Z.inj_succ, Z.pow_succ_r by lia; reflexivity).
      destruct (IHl (S dn) key st (leaves (Z.of_nat (S dn)) r ++ rest) Hcl Hlel ltac:(lia) Hst)
        as (st1 & F1 & L1 & O1 & S1 & K1 & T1).
      rewrite F1.
      assert (Hk1 : l_key st1 = key + 2 ^ Z.of_nat dn).
      { rewrite K1 by lia. apply next_key_left. lia. }
      destruct (IHr (S dn) (key + 2 ^ Z.of_nat dn) st1 rest Hcr Hler ltac:(lia) Hk1)
        as (st2 & F2 & L2 & O2 & S2 & K2 & T2).
      exists st2. split; [exact F2|]. split; [congruence|]. split; [congruence|]. split; [congruence|]. split.
      + intros Hne. rewrite K2 by lia. rewrite next_key_right by lia.
        apply next_key_high; [lia|lia|]. rewrite Z.mod_small by lia. lia.
      + intros j. rewrite T2, T1. rewrite E2.
        destruct (0 <=? j) eqn:Ej; cbn [andb]; [|reflexivity].
        destruct (j <? 2 ^ root) eqn:Er; cbn [andb]; [|reflexivity].
        destruct (split_class (2 ^ Z.of_nat dn) key j HP ltac:(lia) ltac:(lia)) as (Hs & Hl0 & Hr1 & Hdiv).
        rewrite Hs.
        destruct (j mod (2 * 2 ^ Z.of_nat dn) =? key + 2 ^ Z.of_nat dn) eqn:Eb.
        * rewrite orb_true_r. unfold slot_of. cbn [walk]. apply Z.eqb_eq in Eb. rewrite (Hr1 Eb).
          rewrite E2, <- Hdiv.
          destruct (walk r (j / 2 ^ Z.of_nat dn / 2)) as [[v n]|]; cbn [bump]; [|reflexivity].
          f_equal. clear. lia.
        * rewrite orb_false_r.
          destruct (j mod (2 * 2 ^ Z.of_nat dn) =? key) eqn:Ea; [|reflexivity].
          unfold slot_of. cbn [walk]. apply Z.eqb_eq in Ea. rewrite (Hl0 Ea).
          rewrite E2, <- Hdiv.
          destruct (walk l (j / 2 ^ Z.of_nat dn / 2)) as [[v n]|]; cbn [bump]; [|reflexivity].
          f_equal. clear. lia.
  Qed.

  Lemma complete_depth_le : forall t k, complete t -> Forall (fun it => fst it <= root) (leaves k t) -> k <= root.
  Proof.
    induction t as [v|a IHa b IHb|]; intros k Hc H; cbn [complete leaves] in *;
      [inversion H; subst; cbn in *; lia| |contradiction].
    destruct Hc as [Ha _]. apply Forall_app in H. destruct H as [H _]. specialize (IHa _ Ha H). lia.
  Qed.

  (** walking a tree whose leaves are at depth <= root only looks at the low bits *)
  Lemma walk_low : forall t dn w, complete t ->
    Forall (fun it => fst it <= root) (leaves (Z.of_nat dn) t) -> 0 <= w ->
    walk t (w mod 2 ^ (root - Z.of_nat dn)) = walk t w.
  Proof.
    induction t as [v|l IHl r IHr|]; intros dn w Hc Hle Hw; cbn [complete] in Hc; [reflexivity| |contradiction].
    destruct Hc as [Hcl Hcr]. cbn [leaves walk] in *.
    replace (Z.of_nat dn + 1) with (Z.of_nat (S dn)) in * by lia.
    apply Forall_app in Hle. destruct Hle as [Hlel Hler].
    assert (Hdeep : Z.of_nat (S dn) <= root) by (apply (complete_depth_le l _ Hcl Hlel)).
    set (m := root - Z.of_nat dn) in *.
    assert (Hm : 1 <= m) by (unfold m; lia).
    assert (Em : 2 ^ m = 2 * 2 ^ (m - 1)).
    { replace m with (Z.succ (m - 1)) at 1 by lia. rewrite Z.pow_succ_r by lia. reflexivity. }
    assert (Hp : 0 < 2 ^ (m - 1)) by (apply Z.pow_pos_nonneg; lia).
    assert (Eodd : Z.odd (w mod 2 ^ m) = Z.odd w).
    { rewrite Em, Z.rem_mul_r by lia. rewrite Z.odd_add_mul_2. rewrite Zmod_odd.
      destruct (Z.odd w); reflexivity. }
    assert (Ediv : (w mod 2 ^ m) / 2 = (w / 2) mod 2 ^ (m - 1)).
    { rewrite Em, Z.rem_mul_r by lia. rewrite (Z.mul_comm 2), Z.div_add by lia.
      rewrite Z.div_small by (apply Z.mod_pos_bound; lia). reflexivity. }
    rewrite Eodd, Ediv.
    replace (m - 1) with (root - Z.of_nat (S dn)) by (unfold m; lia).
    rewrite (IHl (S dn)), (IHr (S dn)) by (try assumption; apply Z.div_pos; lia). reflexivity.
  Qed.
End RootOnly.

(** A complete tree always yields a symbol. *)
Lemma walk_complete t : complete t -> forall w, exists v n, walk t w = Some (v, n).
Proof.
  induction t as [v|l IHl r IHr|]; intros Hc w; cbn [complete] in Hc; [cbn; eauto| |contradiction].
  destruct Hc as [Hl Hr]. cbn [walk]. destruct (Z.odd w).
  - destruct (IHr Hr (w / 2)) as (v & n & ->). cbn; eauto.
  - destruct (IHl Hl (w / 2)) as (v & n & ->). cbn; eauto.
Qed.

Lemma walk_depth_le root : forall t k w v n, walk t w = Some (v, n) ->
  Forall (fun it => fst it <= root) (leaves k t) -> k + n <= root.
Proof.
  induction t as [a|a IHa b IHb|]; intros k w v n H HF.
  - cbn [walk leaves] in *. injection H as _ <-. inversion HF; subst. cbn [fst] in *. lia.
  - cbn [walk leaves] in *. apply Forall_app in HF. destruct HF as [Fa Fb]. destruct (Z.odd w).
    + destruct (walk b (w / 2)) as [[v' n']|] eqn:E; cbn [bump] in H; [|discriminate].
      injection H as _ <-. specialize (IHb _ _ _ _ E Fb). lia.
    + destruct (walk a (w / 2)) as [[v' n']|] eqn:E; cbn [bump] in H; [|discriminate].
      injection H as _ <-. specialize (IHa _ _ _ _ E Fa). lia.
  - discriminate.
Qed.

Opaque build.

Lemma Ok_inj {A} (a b : A) : @Ok A a = Ok b -> a = b.
Proof. intros H. now injection H. Qed.

(** lookup = canonical code, root-table case *)
Theorem lut_decode_eq_canonical_root : forall root lens t tab w,
  0 <= root -> Forall (fun l => l <= root) lens ->
  tree_of_lens lens = Ok t -> lut_build root lens = Ok tab -> 0 <= w ->
  exists v n, walk t w = Some (v, n) /\ lut_read root tab w = (v, n).
Proof.
  intros root lens t tab w Hroot Hlens Ht Hb Hw.
  unfold tree_of_lens in Ht. unfold lut_build in Hb.
  destruct (lens_in_range lens) eqn:Hr; cbn [negb] in Ht, Hb; [|discriminate].
  pose proof (lens_items_sorted lens) as Hsorted.
  pose proof (lens_items_range lens) as Hrange.
  assert (Hitems_le : Forall (fun it => fst it <= root) (lens_items lens)).
  { apply Forall_forall. intros [l s] Hin. cbn [fst].
    rewrite lens_items_blk in Hin. apply in_flat_map in Hin. destruct Hin as (k & _ & Hin).
    apply filter_In in Hin. destruct Hin as [Hin _].
    assert (G : forall lst i, In (l, s) (indexed_from i lst) -> In l lst).
    { induction lst as [|x tl IH]; intros i H; [destruct H|]. cbn [indexed_from] in H.
      destruct H as [H|H]; [injection H as -> _; now left|right; eapply IH; exact H]. }
    rewrite Forall_forall in Hlens. apply Hlens. eapply G. exact Hin. }
  assert (Hpw : 0 < 2 ^ root) by (apply Z.pow_pos_nonneg; lia).
  destruct (lens_items lens) as [|[l0 s0] [|it2 tl]] eqn:Ei; [discriminate| |].
  - (* one used symbol: every root slot is (0, symbol) *)
    apply Ok_inj in Ht, Hb. subst t tab. exists s0, 0. split; [reflexivity|].
    unfold lut_read. rewrite replicate_get by lia.
    pose proof (Z.mod_pos_bound w (2 ^ root) Hpw) as B.
    replace ((0 <=? w mod 2 ^ root) && ((w mod 2 ^ root - 0) mod 1 =? 0) &&
             ((w mod 2 ^ root - 0) / 1 <? Z.of_nat (Z.to_nat (2 ^ root))))%bool with true
      by (rewrite Z.mod_1_r, Z.div_1_r, Z2Nat.id by lia; lia).
    replace (0 <? 0 - root) with false by lia. reflexivity.
  - destruct (kraft_sum lens =? 32768) eqn:Ek; [|discriminate]. apply Ok_inj in Ht, Hb. subst t tab.
    unfold kraft_sum in Ek. rewrite Ei in Ek.
    set (items := (l0, s0) :: it2 :: tl) in *.
    assert (Hb15 : Forall (fun it => 0 <= fst it <= 15) items).
    { eapply Forall_impl; [|exact Hrange]. cbn. intros; lia. }
    destruct (build_leaves 16 0 items ltac:(lia) ltac:(lia) Hsorted Hb15) as (Hi & Hle & Hc).
    destruct (build_spec 16 0 items ltac:(lia) ltac:(lia) Hsorted Hb15) as (pre & Hi' & _ & Hfull & _).
    set (t := fst (build 16 0 items)) in *.
    assert (Hrest : snd (build 16 0 items) = []).
    { destruct (snd (build 16 0 items)) as [|y r] eqn:Er; [reflexivity|].
      assert (Hne : y :: r <> []) by congruence. specialize (Hfull Hne).
      assert (Hsum : sumw items = sumw pre + sumw (y :: r)) by (rewrite Hi' at 1; apply sumw_app).
      assert (0 < sumw (y :: r)).
      { apply sumw_pos. rewrite Hi' in Hb15. apply Forall_app in Hb15. destruct Hb15 as [_ Hb']. 
        eapply Forall_impl; [|exact Hb']. cbn. intros; lia. }
      change (2 ^ (15 - 0)) with 32768 in Hfull. lia. }
    rewrite Hrest, app_nil_r in Hi.
    assert (Hcomp : complete t) by (apply Hc; rewrite <- Hi; change (2 ^ (15 - 0)) with 32768; lia).
    assert (Hleaves_le : Forall (fun it => fst it <= root) (leaves (Z.of_nat 0) t)) by (cbn [Z.of_nat]; rewrite <- Hi; exact Hitems_le).
    destruct (fill_subtree root t 0%nat 0 (mkl 0 arr_empty (-1) 0 (2 ^ root)) [] Hcomp Hleaves_le
                ltac:(cbn; lia) eq_refl) as (st' & F & _ & _ & _ & _ & T).
    rewrite app_nil_r in F. cbn [Z.of_nat] in F. rewrite <- Hi in F. cbn [lut_fill] in F.
    destruct (walk_complete t Hcomp w) as (v & n & Ew). exists v, n. split; [exact Ew|].
    unfold lut_read. rewrite F, T.
    pose proof (Z.mod_pos_bound w (2 ^ root) Hpw) as B.
    change (2 ^ Z.of_nat 0) with 1. rewrite Z.mod_1_r.
    replace ((0 <=? w mod 2 ^ root) && (w mod 2 ^ root <? 2 ^ root) && (0 =? 0))%bool with true by lia.
    unfold slot_of. change (2 ^ Z.of_nat 0) with 1. rewrite Z.div_1_r.
    pose proof (walk_low root t 0%nat w Hcomp Hleaves_le Hw) as Hwl. cbn [Z.of_nat] in Hwl. rewrite Z.sub_0_r in Hwl.
    rewrite Hwl, Ew. cbn [Z.of_nat].
    pose proof (walk_nonneg _ _ _ _ Ew) as Hn0.
    (* the length never exceeds the root size *)
    assert (Hnr : n <= root).
    { pose proof (walk_depth_le root t 0 w v n Ew Hleaves_le). lia. }
    replace (0 <? 0 + n - root) with false by lia. reflexivity.
Qed.

Transparent build.

(** The general (two-level) statement, proved in [Vp8lLut2.lut_decode_eq_canonical]. *)
Definition lut_decode_eq_canonical_statement : Prop :=
  forall root lens t tab w, 1 <= root <= 15 ->
  tree_of_lens lens = Ok t -> lut_build root lens = Ok tab -> 0 <= w ->
  exists v n, walk t w = Some (v, n) /\ lut_read root tab w = (v, n).
