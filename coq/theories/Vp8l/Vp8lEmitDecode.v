(** [emit_decode]: the specification decoder applied to the bytes the emitter
    writes for a well-formed plan returns the pixels the plan denotes.

    Proved here for plans without transforms and without a meta prefix image (one
    prefix-code group), with any colour cache, any mix of simple / normal codes
    and any valid token list ([emit_decode_partial]); it rests on
    [prefix_roundtrip], [code_roundtrip], [entropy_roundtrip] and the bit/byte
    layer lemmas below. *)
From Coq Require Import List ZArith Lia Bool.
From Coq Require Import ZifyBool ZifyNat.
From Webp Require Import Base.Res Vp8l.Vp8lPixel Vp8l.Vp8lArr Vp8l.Vp8lPrefix Vp8l.Vp8lCanon Vp8l.Vp8lTransforms
  Vp8l.Vp8lSpec Vp8l.Vp8lEmit Vp8l.Vp8lEntropy Vp8l.Vp8lCodeLens.
Import ListNotations.
Open Scope Z_scope.

Ltac Zify.zify_post_hook ::= Z.div_mod_to_equations.

(* ------------------------------------------------------------------ *)
(** * Bits <-> bytes *)

Lemma byte_bits_zero n : byte_bits n 0 = repeat false n.
Proof. induction n as [|n IH]; [reflexivity|]. cbn [byte_bits repeat]. now rewrite Z.div_0_l, IH by lia. Qed.

Lemma bits_value_nonneg l : 0 <= bits_value l.
Proof. induction l as [|b tl IH]; cbn [bits_value]; [lia|]. destruct b; lia. Qed.

Lemma byte_bits_value : forall n l, (length l <= n)%nat ->
  byte_bits n (bits_value l) = l ++ repeat false (n - length l).
Proof.
  induction n as [|n IH]; intros l Hl.
  - destruct l; [reflexivity|cbn in Hl; lia].
  - destruct l as [|b tl].
    + cbn [bits_value length app]. rewrite Nat.sub_0_r. apply byte_bits_zero.
    + cbn [bits_value byte_bits length app]. cbn [length] in Hl.
      pose proof (bits_value_nonneg tl).
      replace (Z.odd ((if b then 1 else 0) + 2 * bits_value tl)) with b
        by (rewrite Z.odd_add, Z.odd_mul; destruct b; reflexivity).
      replace (((if b then 1 else 0) + 2 * bits_value tl) / 2) with (bits_value tl) by (destruct b; lia).
      rewrite IH by lia. reflexivity.
Qed.

Lemma bits_bytes_fuel : forall fuel s, (length s < 8 * fuel)%nat ->
  exists k, bits_of_bytes (bytes_of_bits_fuel fuel s) = s ++ repeat false k.
Proof.
  induction fuel as [|fuel IH]; intros s Hs; [lia|].
  destruct s as [|b tl]; [exists 0%nat; reflexivity|].
  cbn [bytes_of_bits_fuel]. set (s := b :: tl) in *.
  unfold bits_of_bytes. cbn [flat_map]. fold (bits_of_bytes (bytes_of_bits_fuel fuel (skipn 8 s))).
  rewrite byte_bits_value by (rewrite firstn_length; lia).
  destruct (Nat.le_gt_cases 8 (length s)) as [Hge|Hlt].
  - destruct (IH (skipn 8 s)) as [k Hk]; [rewrite skipn_length; lia|].
    exists k. rewrite Hk, firstn_length. replace (8 - Nat.min 8 (length s))%nat with 0%nat by lia.
    cbn [repeat]. rewrite app_nil_r, app_assoc, firstn_skipn. reflexivity.
  - rewrite skipn_all2 by lia. rewrite firstn_all2 by lia.
    exists (8 - length s)%nat.
    destruct fuel; cbn [bytes_of_bits_fuel bits_of_bytes flat_map]; now rewrite app_nil_r.
Qed.

Lemma bits_bytes_roundtrip s : exists k, bits_of_bytes (bytes_of_bits s) = s ++ repeat false k.
Proof.
  unfold bytes_of_bits. apply bits_bytes_fuel.
  pose proof (Nat.div_mod (length s) 8 ltac:(lia)). pose proof (Nat.mod_upper_bound (length s) 8 ltac:(lia)). lia.
Qed.

(* ------------------------------------------------------------------ *)
(** * Entropy-coded images with one group (sub-images, and the main image of a
      plan without meta prefix image) *)

Definition wf_eimg (w h : Z) (ep : eplan) : Prop :=
  (ep_cache_bits ep = 0 \/ 1 <= ep_cache_bits ep <= 11) /\
  exists cg cr cbl ca cd,
    ep_codes ep = [[cg; cr; cbl; ca; cd]] /\
    let a0 := 280 + cache_size_of (ep_cache_bits ep) in
    wf_code a0 cg /\ wf_code 256 cr /\ wf_code 256 cbl /\ wf_code 256 ca /\ wf_code 40 cd /\
    is_ok (tree_of_lens (code_lens a0 cg)) = true /\ is_ok (tree_of_lens (code_lens 256 cr)) = true /\
    is_ok (tree_of_lens (code_lens 256 cbl)) = true /\ is_ok (tree_of_lens (code_lens 256 ca)) = true /\
    is_ok (tree_of_lens (code_lens 40 cd)) = true /\
    tokens_ok (code_lens a0 cg) (code_lens 256 cr) (code_lens 256 cbl) (code_lens 256 ca) (code_lens 40 cd)
              w (w * h) 0 (ep_tokens ep).

Lemma is_ok_inv {A} (r : Res A) : is_ok r = true -> exists a, r = Ok a.
Proof. destruct r; cbn; intros H; try discriminate; eauto. Qed.

Lemma read_cache_bits_emit cb rest : (cb = 0 \/ 1 <= cb <= 11) ->
  read_cache_bits (emit_cache_bits cb ++ rest) = Ok (cb, rest).
Proof.
  intros H. unfold read_cache_bits, emit_cache_bits. destruct (cb =? 0) eqn:E.
  - assert (cb = 0) by lia. subst cb. cbn [app]. rewrite read_bit_false. reflexivity.
  - cbn [app]. rewrite read_bit_true. cbn [bind]. change (1 =? 1) with true. cbv iota.
    rewrite (putZ_read_nat 4) by (cbn; lia). cbn [bind].
    replace ((cb <? 1) || (11 <? cb))%bool with false by lia. reflexivity.
Qed.

(** one group followed by the pixels: the common tail of sub-images and of the
    main image without meta prefix image *)
Lemma group_pixels_roundtrip w h ep rest : 1 <= w -> 1 <= h -> wf_eimg w h ep ->
  ('(gs, s) <- read_groups 1 (cache_size_of (ep_cache_bits ep)) []
                 (emit_codes ep ++ emit_tokens w (fun _ _ => 0) (all_tables ep) (ep_tokens ep) 0 ++ rest) ;;
   decode_pixels (mkectx w (ep_cache_bits ep) 0 0 arr_empty (arr_of_list gs)) w h s)
  = Ok (sem_eimg w ep, rest).
Proof.
  destruct ep as [cb codes toks]. unfold wf_eimg. cbn [ep_cache_bits ep_codes ep_tokens].
  intros Hw Hh (Hcb & cg & cr & cbl & ca & cd & -> & Hwg & Hwr & Hwb & Hwa & Hwd
                & Hog & Hor & Hob & Hoa & Hod & Htok).
  apply is_ok_inv in Hog, Hor, Hob, Hoa, Hod.
  destruct Hog as [tg Htg]. destruct Hor as [tr Htr]. destruct Hob as [tb Htb].
  destruct Hoa as [ta Hta]. destruct Hod as [td Htd].
  set (a0 := 280 + cache_size_of cb) in *.
  cbn [read_groups]. unfold read_group, emit_codes. cbn [flat_map ep_codes]. rewrite <- !app_assoc. cbn [app].
  fold a0.
  rewrite (code_roundtrip a0 cg tg) by assumption. cbn [bind].
  rewrite (code_roundtrip 256 cr tr) by assumption. cbn [bind].
  rewrite (code_roundtrip 256 cbl tb) by assumption. cbn [bind].
  rewrite (code_roundtrip 256 ca ta) by assumption. cbn [bind].
  rewrite (code_roundtrip 40 cd td) by assumption. cbn [bind].
  pose proof (tokens_ok_length _ _ _ _ _ _ _ _ _ Htok ltac:(lia)) as Hlen.
  pose proof (entropy_roundtrip _ _ _ _ _ tg tr tb ta td Htg Htr Htb Hta Htd cb w (w * h) toks h rest
               eq_refl ltac:(nia) Htok ltac:(lia)) as Hent.
  unfold ctx1, grp, gtabs in Hent.
  unfold all_tables, group_tables. cbn [ep_codes ep_cache_bits map combine alphabets]. fold a0.
  unfold code_table.
  change (frev [mkgroup tg tr tb ta td]) with [mkgroup tg tr tb ta td].
  rewrite Hent. unfold sem_eimg. cbn [ep_cache_bits ep_tokens]. reflexivity.
Qed.

Lemma sub_image_roundtrip w h ep rest : 1 <= w -> 1 <= h -> wf_eimg w h ep ->
  decode_sub_image w h (emit_sub w ep ++ rest) = Ok (sem_eimg w ep, rest).
Proof.
  intros Hw Hh Hwf. unfold decode_sub_image, emit_sub. rewrite <- !app_assoc.
  rewrite read_cache_bits_emit by apply Hwf. cbn [bind].
  apply (group_pixels_roundtrip w h ep rest Hw Hh Hwf).
Qed.

(* ------------------------------------------------------------------ *)
(** * Transforms *)

Definition wf_tplan (cw h : Z) (t : tplan) : Prop :=
  match t with
  | TPPred bits sub =>
    2 <= bits <= 9 /\ wf_eimg (subsample cw bits) (subsample h bits) sub /\
    forallb (fun p => pg p <? 14) (sem_eimg (subsample cw bits) sub) = true
  | TPCross bits sub => 2 <= bits <= 9 /\ wf_eimg (subsample cw bits) (subsample h bits) sub
  | TPSubGreen => True
  | TPIndex n sub => 1 <= n <= 256 /\ wf_eimg n 1 sub
  end.

Definition next_width (cw : Z) (t : tplan) : Z :=
  match t with TPIndex n _ => subsample cw (ci_bits n) | _ => cw end.

Fixpoint wf_tplans (cw h : Z) (seen : list Z) (ts : list tplan) : Prop :=
  match ts with
  | [] => True
  | t :: tl => wf_tplan cw h t /\ existsb (Z.eqb (tplan_type t)) seen = false /\
               wf_tplans (next_width cw t) h (tplan_type t :: seen) tl
  end.

Lemma subsample_pos x b : 1 <= x -> 0 <= b -> 1 <= subsample x b.
Proof.
  intros Hx Hb. unfold subsample. assert (0 < 2 ^ b) by (apply Z.pow_pos_nonneg; lia).
  apply Z.div_le_lower_bound; lia.
Qed.

Lemma ci_bits_range n : 0 <= ci_bits n <= 3.
Proof. unfold ci_bits. destruct (n <=? 2), (n <=? 4), (n <=? 16); lia. Qed.

Lemma transforms_roundtrip h : 1 <= h -> forall ts fuel seen acc cw rest,
  1 <= cw -> wf_tplans cw h seen ts -> (length ts < fuel)%nat ->
  read_transforms fuel seen acc cw h (fst (emit_transforms ts cw h) ++ false :: rest)
  = Ok (rev acc ++ fst (sem_transforms ts cw h), snd (sem_transforms ts cw h), rest)
  /\ snd (emit_transforms ts cw h) = snd (sem_transforms ts cw h)
  /\ 1 <= snd (sem_transforms ts cw h).
Proof.
  intros Hh. induction ts as [|t tl IH]; intros fuel seen acc cw rest Hcw Hwf Hf.
  - destruct fuel; [cbn in Hf; lia|]. cbn [emit_transforms sem_transforms fst snd app read_transforms].
    rewrite read_bit_false. cbn [bind]. change (0 =? 0) with true. cbv iota. rewrite app_nil_r. repeat split; lia.
  - destruct fuel as [|f]; [cbn in Hf; lia|]. cbn [length] in Hf.
    destruct Hwf as (Ht & Hseen & Htl).
    cbn [emit_transforms sem_transforms].
    assert (Hnw : 1 <= next_width cw t).
    { destruct t; cbn [next_width]; try lia. apply subsample_pos; [lia|apply ci_bits_range]. }
    destruct t as [bits sub|bits sub| |n sub]; cbn [wf_tplan next_width tplan_type] in *.
    + destruct Ht as (Hb & Hsub & Hmodes).
      destruct (IH f (0 :: seen) (mktransform 0 bits cw h (sem_eimg (subsample cw bits) sub) :: acc) cw rest Hcw Htl ltac:(lia))
        as (IH1 & IH2 & IH3).
      destruct (emit_transforms tl cw h) as [rb cwf] eqn:Ee. destruct (sem_transforms tl cw h) as [rt cwt] eqn:Es.
      cbn [fst snd] in *. split; [|split; assumption].
      cbn [read_transforms app]. rewrite read_bit_true. cbn [bind]. change (1 =? 0) with false. cbv iota.
      unfold read_transform. rewrite <- !app_assoc. change (putZ 2 0) with [false; false]. cbn [app].
      change (read_bits 2 (false :: false :: ?x)) with (Ok (0, x)).
      cbn [bind]. rewrite Hseen. change (0 =? 2) with false. change (0 =? 3) with false. cbv iota.
      rewrite (putZ_read_nat 3) by (cbn; lia). cbn [bind]. replace (bits - 2 + 2) with bits by lia.
      rewrite sub_image_roundtrip by (try apply subsample_pos; try assumption; lia). cbn [bind].
      change (0 =? 0) with true. rewrite Hmodes. cbn [andb negb]. cbv iota. cbn [bind t_type].
      rewrite IH1. cbn [rev]. rewrite <- app_assoc. reflexivity.
    + destruct Ht as (Hb & Hsub).
      destruct (IH f (1 :: seen) (mktransform 1 bits cw h (sem_eimg (subsample cw bits) sub) :: acc) cw rest Hcw Htl ltac:(lia))
        as (IH1 & IH2 & IH3).
      destruct (emit_transforms tl cw h) as [rb cwf] eqn:Ee. destruct (sem_transforms tl cw h) as [rt cwt] eqn:Es.
      cbn [fst snd] in *. split; [|split; assumption].
      cbn [read_transforms app]. rewrite read_bit_true. cbn [bind]. change (1 =? 0) with false. cbv iota.
      unfold read_transform. rewrite <- !app_assoc. change (putZ 2 1) with [true; false]. cbn [app].
      change (read_bits 2 (true :: false :: ?x)) with (Ok (1, x)).
      cbn [bind]. rewrite Hseen. change (1 =? 2) with false. change (1 =? 3) with false. cbv iota.
      rewrite (putZ_read_nat 3) by (cbn; lia). cbn [bind]. replace (bits - 2 + 2) with bits by lia.
      rewrite sub_image_roundtrip by (try apply subsample_pos; try assumption; lia). cbn [bind].
      change (1 =? 0) with false. cbn [andb]. cbv iota. cbn [bind t_type].
      rewrite IH1. cbn [rev]. rewrite <- app_assoc. reflexivity.
    + destruct (IH f (2 :: seen) (mktransform 2 0 cw h [] :: acc) cw rest Hcw Htl ltac:(lia)) as (IH1 & IH2 & IH3).
      destruct (emit_transforms tl cw h) as [rb cwf] eqn:Ee. destruct (sem_transforms tl cw h) as [rt cwt] eqn:Es.
      cbn [fst snd] in *. split; [|split; assumption].
      cbn [read_transforms app]. rewrite read_bit_true. cbn [bind]. change (1 =? 0) with false. cbv iota.
      unfold read_transform. change (putZ 2 2) with [false; true]. cbn [app].
      change (read_bits 2 (false :: true :: ?x)) with (Ok (2, x)).
      cbn [bind]. rewrite Hseen. change (2 =? 2) with true. cbv iota. cbn [bind t_type].
      rewrite IH1. cbn [rev]. rewrite <- app_assoc. reflexivity.
    + destruct Ht as (Hn & Hsub).
      destruct (IH f (3 :: seen) (mktransform 3 (ci_bits n) cw h (undelta px_zero (sem_eimg n sub)) :: acc)
                   (subsample cw (ci_bits n)) rest Hnw Htl ltac:(lia)) as (IH1 & IH2 & IH3).
      destruct (emit_transforms tl (subsample cw (ci_bits n)) h) as [rb cwf] eqn:Ee.
      destruct (sem_transforms tl (subsample cw (ci_bits n)) h) as [rt cwt] eqn:Es.
      cbn [fst snd] in *. split; [|split; assumption].
      cbn [read_transforms app]. rewrite read_bit_true. cbn [bind]. change (1 =? 0) with false. cbv iota.
      unfold read_transform. rewrite <- !app_assoc. change (putZ 2 3) with [true; true]. cbn [app].
      change (read_bits 2 (true :: true :: ?x)) with (Ok (3, x)).
      cbn [bind]. rewrite Hseen. change (3 =? 2) with false. change (3 =? 3) with true. cbv iota.
      rewrite (putZ_read_nat 8) by (cbn; lia). cbn [bind]. replace (n - 1 + 1) with n by lia.
      rewrite sub_image_roundtrip by (try assumption; lia). cbn [bind t_type].
      rewrite IH1. cbn [rev]. rewrite <- app_assoc. reflexivity.
Qed.

(* ------------------------------------------------------------------ *)
(** * Whole plans: any transforms, no meta prefix image *)

Definition wf_plan1 (p : plan) : Prop :=
  p_meta p = None /\
  1 <= p_w p <= 16384 /\ 1 <= p_h p <= 16384 /\ 0 <= p_alpha p <= 1 /\
  (length (p_transforms p) <= 4)%nat /\
  wf_tplans (p_w p) (p_h p) [] (p_transforms p) /\
  wf_eimg (snd (sem_transforms (p_transforms p) (p_w p) (p_h p))) (p_h p) (p_main p).

Theorem emit_decode_partial : forall p, wf_plan1 p -> decode (emit p) = Ok (sem p).
Proof.
  intros [w h alpha ts meta main].
  unfold wf_plan1. cbn [p_transforms p_meta p_w p_h p_alpha p_main].
  intros (-> & Hw & Hh & Ha & Hnt & Hts & Hmain).
  unfold decode, decode_full, emit.
  destruct (bits_bytes_roundtrip (emit_bits (mkplan w h alpha ts None main))) as [k Hk].
  rewrite Hk. clear Hk.
  unfold emit_bits. cbn [p_transforms p_meta p_w p_h p_alpha p_main].
  destruct (transforms_roundtrip h ltac:(lia) ts 5 [] [] w
              (emit_cache_bits (ep_cache_bits main) ++ [false] ++ emit_codes main ++
               emit_tokens (snd (emit_transforms ts w h)) (fun _ _ => 0) (all_tables main) (ep_tokens main) 0 ++ repeat false k)
              ltac:(lia) Hts ltac:(lia)) as (Htr & Hcw & Hcw1).
  destruct (emit_transforms ts w h) as [tb cwe] eqn:Ee.
  destruct (sem_transforms ts w h) as [tsem cw] eqn:Es.
  cbn [fst snd] in *. subst cwe.
  rewrite <- !app_assoc. cbn [app].
  rewrite (putZ_read_nat 14) by (cbn; lia). cbn [bind].
  rewrite (putZ_read_nat 14) by (cbn; lia). cbn [bind].
  rewrite (putZ_read_nat 1) by (cbn; lia). cbn [bind].
  rewrite (putZ_read_nat 3) by (cbn; lia). cbn [bind].
  change (negb (0 =? 0)) with false. cbv iota.
  replace (w - 1 + 1) with w by lia. replace (h - 1 + 1) with h by lia.
  cbn [app] in Htr. rewrite Htr. cbn [bind rev app].
  rewrite read_cache_bits_emit by apply Hmain. cbn [bind].
  rewrite read_bit_false. cbn [bind]. change (0 =? 1) with false. cbv iota. cbn [bind fold_left].
  change (Z.to_nat (0 + 1)) with 1%nat.
  change (arr_of_list (@nil Z)) with (@arr_empty Z).
  pose proof (group_pixels_roundtrip cw h main (repeat false k) Hcw1 ltac:(lia) Hmain) as Hg.
  cbn [bind] in Hg.
  destruct (read_groups 1 (cache_size_of (ep_cache_bits main)) []
             (emit_codes main ++ emit_tokens cw (fun _ _ => 0) (all_tables main) (ep_tokens main) 0 ++ repeat false k))
    as [[gs s']| |] eqn:Eg; cbn [bind] in Hg |- *; try discriminate.
  rewrite Hg. cbn [bind].
  unfold sem. cbn [p_transforms p_w p_h p_main]. rewrite Es. reflexivity.
Qed.

(* ------------------------------------------------------------------ *)
(** * Plans with a meta prefix image (several prefix-code groups) *)

Definition lens_of (cb : Z) (g : list codeplan) : glens :=
  match g with
  | [cg; cr; cbl; ca; cd] =>
    mkglens (code_lens (280 + cache_size_of cb) cg) (code_lens 256 cr) (code_lens 256 cbl)
            (code_lens 256 ca) (code_lens 40 cd)
  | _ => glens_dummy
  end.

Definition wf_group (cb : Z) (g : list codeplan) : Prop :=
  exists cg cr cbl ca cd, g = [cg; cr; cbl; ca; cd] /\
    let a0 := 280 + cache_size_of cb in
    wf_code a0 cg /\ wf_code 256 cr /\ wf_code 256 cbl /\ wf_code 256 ca /\ wf_code 40 cd /\
    is_ok (tree_of_lens (code_lens a0 cg)) = true /\ is_ok (tree_of_lens (code_lens 256 cr)) = true /\
    is_ok (tree_of_lens (code_lens 256 cbl)) = true /\ is_ok (tree_of_lens (code_lens 256 ca)) = true /\
    is_ok (tree_of_lens (code_lens 40 cd)) = true.

Lemma group_tables_lens cb g : wf_group cb g -> group_tables cb g = gtabs_of (lens_of cb g).
Proof. intros (cg & cr & cbl & ca & cd & -> & _). reflexivity. Qed.

Lemma read_groups_roundtrip cb : forall codes acc rest, Forall (wf_group cb) codes ->
  exists gs, Forall2 grp_ok (map (lens_of cb) codes) gs /\
    read_groups (length codes) (cache_size_of cb) acc (flat_map (flat_map emit_code) codes ++ rest)
    = Ok (rev acc ++ gs, rest).
Proof.
  induction codes as [|g tl IH]; intros acc rest Hwf.
  - exists []. split; [constructor|]. cbn [length read_groups flat_map app]. now rewrite frev_rev, app_nil_r.
  - inversion Hwf as [|? ? Hg Htl]; subst.
    destruct Hg as (cg & cr & cbl & ca & cd & -> & Hwg & Hwr & Hwb & Hwa & Hwd & Hog & Hor & Hob & Hoa & Hod).
    apply is_ok_inv in Hog, Hor, Hob, Hoa, Hod.
    destruct Hog as [tg Htg]. destruct Hor as [tr Htr]. destruct Hob as [tb Htb].
    destruct Hoa as [ta Hta]. destruct Hod as [td Htd].
    destruct (IH (mkgroup tg tr tb ta td :: acc) rest Htl) as (gs & Hgs & Hread).
    exists (mkgroup tg tr tb ta td :: gs). split.
    + cbn [map]. constructor; [|exact Hgs]. unfold grp_ok, lens_of. cbn. repeat split; assumption.
    + cbn [length read_groups flat_map]. unfold read_group. rewrite <- !app_assoc. cbn [app].
      rewrite (code_roundtrip _ cg tg) by assumption. cbn [bind].
      rewrite (code_roundtrip 256 cr tr) by assumption. cbn [bind].
      rewrite (code_roundtrip 256 cbl tb) by assumption. cbn [bind].
      rewrite (code_roundtrip 256 ca ta) by assumption. cbn [bind].
      rewrite (code_roundtrip 40 cd td) by assumption. cbn [bind].
      rewrite Hread. cbn [rev]. rewrite <- app_assoc. reflexivity.
Qed.

Lemma emit_tokens_ext w f g tabs : (forall x y, f x y = g x y) ->
  forall toks pos, emit_tokens w f tabs toks pos = emit_tokens w g tabs toks pos.
Proof.
  intros E. induction toks as [|t tl IH]; intros pos; [reflexivity|].
  cbn [emit_tokens]. now rewrite E, IH.
Qed.

Definition wf_plan2 (p : plan) : Prop :=
  exists mb msub, p_meta p = Some (mb, msub) /\
  1 <= p_w p <= 16384 /\ 1 <= p_h p <= 16384 /\ 0 <= p_alpha p <= 1 /\
  (length (p_transforms p) <= 4)%nat /\
  wf_tplans (p_w p) (p_h p) [] (p_transforms p) /\
  2 <= mb <= 9 /\
  let cw := snd (sem_transforms (p_transforms p) (p_w p) (p_h p)) in
  let mw := subsample cw mb in
  let main := p_main p in
  let cb := ep_cache_bits main in
  wf_eimg mw (subsample (p_h p) mb) msub /\
  (cb = 0 \/ 1 <= cb <= 11) /\
  Forall (wf_group cb) (ep_codes main) /\
  let meta := map meta_index (sem_eimg mw msub) in
  Z.of_nat (length (ep_codes main)) = fold_left Z.max meta 0 + 1 /\
  tokens_ok_m (map (lens_of cb) (ep_codes main)) cw (cw * p_h p) mb mw (arr_of_list meta) 0 (ep_tokens main).

Theorem emit_decode_meta : forall p, wf_plan2 p -> decode (emit p) = Ok (sem p).
Proof.
  intros [w h alpha ts meta0 main].
  unfold wf_plan2. cbn [p_transforms p_meta p_w p_h p_alpha p_main].
  intros (mb & msub & -> & Hw & Hh & Ha & Hnt & Hts & Hmb & Hrest).
  unfold decode, decode_full, emit.
  destruct (bits_bytes_roundtrip (emit_bits (mkplan w h alpha ts (Some (mb, msub)) main))) as [k Hk].
  rewrite Hk. clear Hk.
  unfold emit_bits. cbn [p_transforms p_meta p_w p_h p_alpha p_main].
  match goal with
  | |- context [ (putZ 3 0 ++ ?tb ++ [false] ++ ?tail) ++ repeat false k ] => idtac
  | _ => idtac
  end.
  destruct (emit_transforms ts w h) as [tb cwe] eqn:Ee.
  destruct (sem_transforms ts w h) as [tsem cw] eqn:Es.
  cbn [snd] in Hrest.
  destruct Hrest as (Hmsub & Hcb & Hgroups & Hng & Htok).
  set (mw := subsample cw mb) in *.
  set (metal := map meta_index (sem_eimg mw msub)) in *.
  pose proof (fun rest => transforms_roundtrip h ltac:(lia) ts 5 [] [] w rest ltac:(lia) Hts ltac:(lia)) as Htr.
  rewrite Ee, Es in Htr. cbn [fst snd] in Htr.
  destruct (Htr []) as (_ & Hcw & Hcw1). subst cwe.
  rewrite <- !app_assoc. cbn [app].
  rewrite (putZ_read_nat 14) by (cbn; lia). cbn [bind].
  rewrite (putZ_read_nat 14) by (cbn; lia). cbn [bind].
  rewrite (putZ_read_nat 1) by (cbn; lia). cbn [bind].
  rewrite (putZ_read_nat 3) by (cbn; lia). cbn [bind].
  change (negb (0 =? 0)) with false. cbv iota.
  replace (w - 1 + 1) with w by lia. replace (h - 1 + 1) with h by lia.
  match goal with |- context [read_transforms 5 [] [] w h (tb ++ false :: ?r)] => destruct (Htr r) as (Hread & _ & _) end.
  rewrite Hread. cbn [bind rev app].
  rewrite read_cache_bits_emit by assumption. cbn [bind].
  rewrite read_bit_true. cbn [bind]. change (1 =? 1) with true. cbv iota.
  rewrite (putZ_read_nat 3) by (cbn; lia). cbn [bind]. replace (mb - 2 + 2) with mb by lia.
  fold mw.
  rewrite sub_image_roundtrip by (try assumption; unfold mw; apply subsample_pos; lia). cbn [bind].
  fold metal. rewrite <- Hng, Nat2Z.id.
  unfold emit_codes.
  destruct (read_groups_roundtrip (ep_cache_bits main) (ep_codes main) []
              (emit_tokens cw (fun x y => arr_get 0 (arr_of_list metal) (tile_index mw mb x y)) (all_tables main) (ep_tokens main) 0
               ++ repeat false k) Hgroups) as (gs & Hgs & Hrg).
  rewrite Hrg. cbn [bind rev app].
  pose proof (entropy_roundtrip_m (map (lens_of (ep_cache_bits main)) (ep_codes main)) gs Hgs
                (ep_cache_bits main) cw (cw * h) mb mw (arr_of_list metal) Hcw1 (ep_tokens main) h (repeat false k)
                eq_refl ltac:(nia) Htok) as Hent.
  unfold ctxm, tabsm in Hent.
  assert (Etabs : all_tables main = arr_of_list (map gtabs_of (map (lens_of (ep_cache_bits main)) (ep_codes main)))).
  { unfold all_tables. f_equal. rewrite map_map. apply map_ext_in. intros g Hg.
    rewrite Forall_forall in Hgroups. apply group_tables_lens, Hgroups, Hg. }
  rewrite Etabs.
  rewrite (emit_tokens_ext cw _ (gidx mb mw (arr_of_list metal))).
  - rewrite Hent. cbn [bind].
    unfold sem. cbn [p_transforms p_w p_h p_main]. rewrite Es. reflexivity.
  - intros x y. unfold gidx. replace (mb =? 0) with false by lia. reflexivity.
Qed.

(** Well-formed plans: without or with a meta prefix image. *)
Definition wf_plan (p : plan) : Prop := wf_plan1 p \/ wf_plan2 p.

Theorem emit_decode : forall p, wf_plan p -> decode (emit p) = Ok (sem p).
Proof. intros p [H|H]; [apply emit_decode_partial|apply emit_decode_meta]; exact H. Qed.
