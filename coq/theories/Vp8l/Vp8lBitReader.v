(** Implementation model of /repo's VP8L bit reader
    (internal/bitio/reader_lossless.go, LosslessReader): a 64-bit window [val]
    over the byte string, a byte cursor [pos], a bit cursor [bitPos] inside the
    window, and a sticky end-of-stream flag.  ReadBits takes bits from the window
    and then shifts whole bytes in ([shiftBytes]); FillBitWindow refills four
    bytes at once; PrefetchBits / SetBitPos are what the symbol decoder uses. *)
From Coq Require Import List ZArith Lia Bool.
From Coq Require Import ZifyBool ZifyNat.
From Webp Require Import Base.Res Vp8l.Vp8lPrefix.
Import ListNotations.
Open Scope Z_scope.

Record breader := mkbr {
  br_val : Z;        (* uint64 *)
  br_data : list Z;  (* the whole buffer *)
  br_pos : Z;        (* next byte to load *)
  br_bit : Z;        (* bitPos *)
  br_eos : bool }.

Definition br_len (r : breader) : Z := Z.of_nat (length (br_data r)).
Definition byte_at (d : list Z) (i : Z) : Z := nth (Z.to_nat i) d 0.

Fixpoint le_value (l : list Z) : Z := match l with [] => 0 | b :: tl => b + 256 * le_value tl end.

(** NewLosslessReader *)
Definition br_new (data : list Z) : breader :=
  let n := Nat.min 8 (length data) in
  mkbr (le_value (firstn n data)) data (Z.of_nat n) 0 false.

(** IsEndOfStream *)
Definition br_is_eos (r : breader) : bool :=
  br_eos r || ((br_pos r =? br_len r) && (64 <? br_bit r)).

Definition br_set_eos (r : breader) : breader := mkbr (br_val r) (br_data r) (br_pos r) 0 true.

(** shiftBytes: load single bytes while bitPos >= 8 and bytes remain; then latch the flag *)
Fixpoint br_shift_loop (fuel : nat) (r : breader) : breader :=
  match fuel with
  | O => r
  | S f =>
    if (8 <=? br_bit r) && (br_pos r <? br_len r) then
      br_shift_loop f (mkbr (br_val r / 256 + byte_at (br_data r) (br_pos r) * 2 ^ 56) (br_data r)
                            (br_pos r + 1) (br_bit r - 8) (br_eos r))
    else r
  end.

Definition br_shift_bytes (r : breader) : breader :=
  let r' := br_shift_loop (S (Z.to_nat (br_bit r / 8))) r in
  if br_is_eos r' then br_set_eos r' else r'.

(** PrefetchBits: uint32(val >> (bitPos & 63)) *)
Definition br_prefetch (r : breader) : Z := (br_val r / 2 ^ (br_bit r mod 64)) mod 2 ^ 32.

(** ReadBits(n) *)
Definition br_read_bits (n : Z) (r : breader) : Z * breader :=
  if negb (br_eos r) && (0 <=? n) && (n <=? 24) then
    let v := br_prefetch r mod 2 ^ n in
    (v, br_shift_bytes (mkbr (br_val r) (br_data r) (br_pos r) (br_bit r + n) (br_eos r)))
  else (0, br_set_eos r).

(** FillBitWindow / doFillBitWindow *)
Definition br_fill (r : breader) : breader :=
  if 32 <=? br_bit r then
    if br_pos r + 4 <=? br_len r then
      let w := byte_at (br_data r) (br_pos r) + 256 * byte_at (br_data r) (br_pos r + 1)
               + 65536 * byte_at (br_data r) (br_pos r + 2) + 16777216 * byte_at (br_data r) (br_pos r + 3) in
      mkbr (br_val r / 2 ^ 32 + w * 2 ^ 32) (br_data r) (br_pos r + 4) (br_bit r - 32) (br_eos r)
    else br_shift_bytes r
  else r.

Definition br_set_bit (b : Z) (r : breader) : breader := mkbr (br_val r) (br_data r) (br_pos r) b (br_eos r).

(** Script of operations as the verif hook runs them: n >= 0 ReadBits(n); -1 fill + prefetch;
    -100-k SetBitPos(BitPos+k).  Returns the values and the flag after each step. *)
Fixpoint br_run (ops : list Z) (r : breader) : list (Z * bool) :=
  match ops with
  | [] => []
  | op :: tl =>
    let '(v, r') :=
      if 0 <=? op then br_read_bits op r
      else if op =? -1 then let r1 := br_fill r in (br_prefetch r1, r1)
      else (0, br_set_bit (br_bit r + (-100 - op)) r) in
    (v, br_is_eos r') :: br_run tl r'
  end.
