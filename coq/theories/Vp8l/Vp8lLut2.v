(** Two-level case of the Huffman lookup tables: second-level tables sized by
    nextTableBitSize and linked from the root slot.  Completes
    [Vp8lLut.lut_decode_eq_canonical_statement]. *)
From Coq Require Import List ZArith Lia Bool Sorting.Sorted.
From Coq Require Import ZifyBool ZifyNat.
From Webp Require Import Base.Res Vp8l.Vp8lArr Vp8l.Vp8lPrefix Vp8l.Vp8lCanon Vp8l.Vp8lLut.
Import ListNotations.
Open Scope Z_scope.

(* ------------------------------------------------------------------ *)
(** * Level weights of a leaf list (Kraft arithmetic for nextTableBitSize) *)

Fixpoint wlev (len : Z) (items : list (Z * Z)) : Z :=
  match items with
  | [] => 0
  | it :: tl => (if fst it <=? len then 2 ^ (len - fst it) else 0) + wlev len tl
  end.

Lemma wlev_app len a b : wlev len (a ++ b) = wlev len a + wlev len b.
Proof. induction a as [|x a IH]; cbn [app wlev]; [reflexivity|]. rewrite IH. lia. Qed.

Lemma wlev_nonneg len items : 0 <= wlev len items.
Proof.
  induction items as [|x tl IH]; cbn [wlev]; [lia|].
  destruct (fst x <=? len) eqn:E; [|lia]. assert (0 < 2 ^ (len - fst x)) by (apply Z.pow_pos_nonneg; lia). lia.
Qed.

Lemma count_rem_app a b l : count_rem (a ++ b) l = count_rem a l + count_rem b l.
Proof. unfold count_rem. rewrite filter_app, app_length. lia. Qed.

Lemma count_rem_nonneg a l : 0 <= count_rem a l.
Proof. unfold count_rem. lia. Qed.

Lemma count_rem_zero items l : Forall (fun it => fst it <> l) items -> count_rem items l = 0.
Proof.
  unfold count_rem. induction 1 as [|x tl Hx _ IH]; [reflexivity|]. cbn [filter].
  replace (fst x =? l) with false by lia. exact IH.
Qed.

(** one level down: weights double, the symbols of the new level count 1 each *)
Lemma wlev_succ len items : wlev (len + 1) items = 2 * wlev len items + count_rem items (len + 1).
Proof.
  induction items as [|x tl IH]; [reflexivity|]. cbn [wlev]. rewrite IH.
  unfold count_rem. cbn [filter].
  destruct (fst x <=? len) eqn:E1.
  - replace (fst x <=? len + 1) with true by lia. replace (fst x =? len + 1) with false by lia.
    replace (len + 1 - fst x) with (Z.succ (len - fst x)) by lia. rewrite Z.pow_succ_r by lia. lia.
  - destruct (fst x =? len + 1) eqn:E2.
    + replace (fst x <=? len + 1) with true by lia. replace (len + 1 - fst x) with 0 by lia. cbn [length]. lia.
    + replace (fst x <=? len + 1) with false by lia. lia.
Qed.

Lemma wlev_below len items : Forall (fun it => len < fst it) items -> wlev len items = 0.
Proof.
  induction 1 as [|x tl Hx _ IH]; [reflexivity|]. cbn [wlev]. replace (fst x <=? len) with false by lia. lia.
Qed.

(** a complete tree at depth d with all leaves at depth <= H fills level H exactly *)
Lemma wlev_complete H : forall t d, complete t -> Forall (fun it => fst it <= H) (leaves d t) ->
  wlev H (leaves d t) = 2 ^ (H - d).
Proof.
  induction t as [v|l IHl r IHr|]; intros d Hc Hle; cbn [complete leaves] in *; [| |contradiction].
  - inversion Hle; subst. cbn [wlev fst] in *. replace (d <=? H) with true by lia. lia.
  - destruct Hc as [Hcl Hcr]. apply Forall_app in Hle. destruct Hle as [Hl Hr].
    pose proof (complete_depth_le H l (d + 1) Hcl Hl) as Hd.
    rewrite wlev_app, IHl, IHr by assumption.
    replace (H - d) with (Z.succ (H - (d + 1))) by lia. rewrite Z.pow_succ_r by lia. lia.
Qed.

(** level len < H of a list bounded by H: scaled up it is the level-H weight minus the deeper part *)
Lemma wlev_scale H len items : len <= H -> Forall (fun it => fst it <= H) items ->
  wlev H items = wlev len items * 2 ^ (H - len) + wlev H (filter (fun it => len <? fst it) items).
Proof.
  intros Hl. induction 1 as [|x tl Hx _ IH]; [reflexivity|]. cbn [wlev filter]. rewrite IH.
  replace (fst x <=? H) with true by lia.
  destruct (fst x <=? len) eqn:E.
  - replace (len <? fst x) with false by lia.
    replace (H - fst x) with ((len - fst x) + (H - len)) by lia. rewrite Z.pow_add_r by lia. lia.
  - replace (len <? fst x) with true by lia. cbn [wlev]. replace (fst x <=? H) with true by lia. lia.
Qed.

Lemma wlev_pos_in H items x : In x items -> fst x <= H -> 0 < wlev H items.
Proof.
  induction items as [|y tl IH]; intros Hin Hx; [destruct Hin|]. cbn [wlev].
  pose proof (wlev_nonneg H tl).
  destruct Hin as [->|Hin].
  - replace (fst x <=? H) with true by lia. assert (0 < 2 ^ (H - fst x)) by (apply Z.pow_pos_nonneg; lia). lia.
  - specialize (IH Hin Hx). destruct (fst y <=? H); [|lia].
    assert (0 <= 2 ^ (H - fst y)) by (apply Z.pow_nonneg; lia). lia.
Qed.

(** strictly below the deepest level a complete tree has free slots *)
Lemma wlev_strict H len t d x : complete t -> Forall (fun it => fst it <= H) (leaves d t) ->
  d <= len -> len < H -> In x (leaves d t) -> len < fst x ->
  wlev len (leaves d t) < 2 ^ (len - d).
Proof.
  intros Hc Hle Hd Hl Hin Hx.
  pose proof (wlev_complete H t d Hc Hle) as K.
  rewrite (wlev_scale H len) in K by (assumption || lia).
  assert (Hdeep : 0 < wlev H (filter (fun it => len <? fst it) (leaves d t))).
  { apply (wlev_pos_in H _ x); [apply filter_In; split; [exact Hin|lia]|].
    rewrite Forall_forall in Hle. apply Hle, Hin. }
  assert (E : 2 ^ (H - d) = 2 ^ (len - d) * 2 ^ (H - len)) by (rewrite <- Z.pow_add_r by lia; f_equal; lia).
  assert (0 < 2 ^ (H - len)) by (apply Z.pow_pos_nonneg; lia).
  nia.
Qed.

(* ------------------------------------------------------------------ *)
(** * nextTableBitSize computes the height of the sub-tree *)

Lemma ntb_spec R H lv rest t : complete t -> lv = leaves R t ->
  Forall (fun it => fst it <= H) lv -> (exists x, In x lv /\ fst x = H) ->
  Forall (fun it => H <= fst it) rest -> H <= 15 ->
  forall fuel len, R <= len <= H -> (Z.to_nat (15 - len) < fuel)%nat ->
  next_table_bits fuel (lv ++ rest) len (2 ^ (len - R) - 2 * wlev (len - 1) lv) R = H - R.
Proof.
  intros Hc -> Hle (x & Hin & HxH) Hrest H15.
  induction fuel as [|fuel IH]; intros len Hlen Hf; [lia|].
  cbn [next_table_bits]. destruct (15 <=? len) eqn:E15; [lia|].
  rewrite count_rem_app.
  assert (Ew : 2 ^ (len - R) - 2 * wlev (len - 1) (leaves R t) - (count_rem (leaves R t) len + count_rem rest len)
               = 2 ^ (len - R) - wlev len (leaves R t) - count_rem rest len).
  { pose proof (wlev_succ (len - 1) (leaves R t)) as S. replace (len - 1 + 1) with len in S by lia. lia. }
  rewrite Ew.
  destruct (Z.eq_dec len H) as [->|Hne].
  - rewrite (wlev_complete H t R Hc Hle). pose proof (count_rem_nonneg rest H).
    replace (2 ^ (H - R) - 2 ^ (H - R) - count_rem rest H <=? 0) with true by lia. reflexivity.
  - assert (Hlt : len < H) by lia.
    rewrite (count_rem_zero rest len) by (eapply Forall_impl; [|exact Hrest]; cbn; intros; lia).
    pose proof (wlev_strict H len t R x Hc Hle ltac:(lia) Hlt Hin ltac:(lia)) as Hs.
    replace (2 ^ (len - R) - wlev len (leaves R t) - 0 <=? 0) with false by lia.
    replace ((2 ^ (len - R) - wlev len (leaves R t) - 0) * 2) with (2 ^ (len + 1 - R) - 2 * wlev (len + 1 - 1) (leaves R t)).
    + apply IH; lia.
    + replace (len + 1 - 1) with len by lia.
      replace (len + 1 - R) with (Z.succ (len - R)) by lia. rewrite Z.pow_succ_r by lia. lia.
Qed.

(* ------------------------------------------------------------------ *)
(** * Filling an allocated second-level table *)

Section Sub.
  Variable R : Z.
  Hypothesis HR : 0 <= R.

  (** [s] is a sub-tree at depth dn > R below the root prefix [l_low st]; the
      sub-table [l_off st, l_off st + 2^tb) is allocated. *)
  Lemma fill_sub : forall s dn key st rest tb,
    complete s -> R < Z.of_nat dn ->
    Forall (fun it => fst it <= R + tb) (leaves (Z.of_nat dn) s) ->
    0 <= key < 2 ^ Z.of_nat dn -> l_key st = key ->
    l_low st = key mod 2 ^ R -> l_size st = 2 ^ tb -> 0 <= l_off st ->
    exists st', lut_fill R (leaves (Z.of_nat dn) s ++ rest) st = lut_fill R rest st' /\
      l_low st' = l_low st /\ l_off st' = l_off st /\ l_size st' = l_size st /\
      (key <> 2 ^ Z.of_nat dn - 1 -> l_key st' = next_key dn key) /\
      forall j, arr_get entry0 (l_tab st') j =
        let x := j - l_off st in
        if (0 <=? x) && (x <? 2 ^ tb) && (x mod 2 ^ (Z.of_nat dn - R) =? key / 2 ^ R)
        then slot_of s (Z.of_nat dn - R) x else arr_get entry0 (l_tab st) j.
  Proof.
    induction s as [v|l IHl r IHr|]; intros dn key st rest tb Hc Hdn Hle Hk Hst Hlow Hsize Hoff;
      cbn [complete] in Hc; [| |contradiction].
    - (* leaf *)
      set (d := Z.of_nat dn) in *. cbn [leaves app lut_fill].
      inversion Hle as [|? ? Hd _]; subst. cbn [fst] in Hd.
      replace (d <=? R) with false by lia.
      replace (l_key st mod 2 ^ R =? l_low st) with true by (rewrite Hlow; symmetry; apply Z.eqb_refl).
      set (e := d - R) in *.
      assert (He : 0 < e) by (unfold e; lia).
      assert (HP : 0 < 2 ^ e) by (apply Z.pow_pos_nonneg; lia).
      assert (HQ : 0 < 2 ^ (tb - e)) by (apply Z.pow_pos_nonneg; lia).
      assert (HR2 : 0 < 2 ^ R) by (apply Z.pow_pos_nonneg; lia).
      assert (Ed : 2 ^ d = 2 ^ e * 2 ^ R) by (rewrite <- Z.pow_add_r by lia; f_equal; unfold e; lia).
      assert (Hkq : 0 <= l_key st / 2 ^ R < 2 ^ e).
      { split; [apply Z.div_pos; lia|apply Z.div_lt_upper_bound; lia]. }
      eexists. split; [reflexivity|]. cbn [l_low l_off l_size l_key l_tab].
      split; [reflexivity|]. split; [reflexivity|]. split; [reflexivity|]. split.
      + intros _. unfold d. now rewrite Nat2Z.id.
      + intros j. cbv zeta. rewrite replicate_get by lia.
        rewrite Hsize.
        replace (2 ^ tb / 2 ^ e) with (2 ^ (tb - e))
          by (replace tb with ((tb - e) + e) at 2 by lia; rewrite Z.pow_add_r by lia; now rewrite Z.div_mul by lia).
        rewrite Z2Nat.id by lia.
        replace (j - (l_off st + l_key st / 2 ^ R)) with ((j - l_off st) - l_key st / 2 ^ R) by lia.
        replace (l_off st + l_key st / 2 ^ R <=? j) with (l_key st / 2 ^ R <=? j - l_off st) by lia.
        rewrite class_cond by lia.
        replace (2 ^ e * 2 ^ (tb - e)) with (2 ^ tb) by (rewrite <- Z.pow_add_r by lia; f_equal; lia).
        unfold slot_of. cbn [walk]. now rewrite Z.add_0_r.
    - (* node *)
      destruct Hc as [Hcl Hcr]. cbn [leaves] in *.
      replace (Z.of_nat dn + 1) with (Z.of_nat (S dn)) in * by lia.
      apply Forall_app in Hle. destruct Hle as [Hlel Hler].
      rewrite <- app_assoc.
      set (e := Z.of_nat dn - R) in *.
      assert (He : 0 < e) by (unfold e; lia).
      assert (HP : 0 < 2 ^ e) by (apply Z.pow_pos_nonneg; lia).
      assert (HR2 : 0 < 2 ^ R) by (apply Z.pow_pos_nonneg; lia).
      assert (HPd : 0 < 2 ^ Z.of_nat dn) by (apply Z.pow_pos_nonneg; lia).
      assert (Ed : 2 ^ Z.of_nat dn = 2 ^ e * 2 ^ R) by (rewrite <- Z.pow_add_r by lia; f_equal; unfold e; lia).
      assert (E2 : 2 ^ Z.of_nat (S dn) = 2 * 2 ^ Z.of_nat dn) by (rewrite Nat2Z.inj_succ, Z.pow_succ_r by lia; reflexivity).
      assert (Ee : Z.of_nat (S dn) - R = e + 1) by (unfold e; lia).
      assert (E2e : 2 ^ (e + 1) = 2 * 2 ^ e) by (rewrite Z.pow_add_r by lia; lia).
      assert (Hkq : 0 <= key / 2 ^ R < 2 ^ e).
      { split; [apply Z.div_pos; lia|apply Z.div_lt_upper_bound; lia]. }
      destruct (IHl (S dn) key st (leaves (Z.of_nat (S dn)) r ++ rest) tb Hcl ltac:(lia) Hlel ltac:(lia) Hst Hlow Hsize Hoff)
        as (st1 & F1 & L1 & O1 & S1 & K1 & T1).
      rewrite F1.
      assert (Hk1 : l_key st1 = key + 2 ^ Z.of_nat dn).
      { rewrite K1 by lia. apply next_key_left. lia. }
      assert (Hlow1 : l_low st1 = (key + 2 ^ Z.of_nat dn) mod 2 ^ R).
      { rewrite L1, Hlow, Ed, Z.mod_add by lia. reflexivity. }
      destruct (IHr (S dn) (key + 2 ^ Z.of_nat dn) st1 rest tb Hcr ltac:(lia) Hler ltac:(lia) Hk1 Hlow1 ltac:(congruence) ltac:(lia))
        as (st2 & F2 & L2 & O2 & S2 & K2 & T2).
      exists st2. split; [exact F2|]. split; [congruence|]. split; [congruence|]. split; [congruence|]. split.
      + intros Hne. rewrite K2 by lia. rewrite next_key_right by lia.
        apply next_key_high; [lia|lia|]. rewrite Z.mod_small by lia. lia.
      + intros j. rewrite T2, T1. cbv zeta. rewrite O1. rewrite Ee, E2e.
        replace ((key + 2 ^ Z.of_nat dn) / 2 ^ R) with (key / 2 ^ R + 2 ^ e)
          by (rewrite Ed, Z.div_add by lia; reflexivity).
        set (x := j - l_off st).
        destruct (0 <=? x) eqn:Ex; cbn [andb]; [|reflexivity].
        destruct (x <? 2 ^ tb) eqn:Et; cbn [andb]; [|reflexivity].
        destruct (split_class (2 ^ e) (key / 2 ^ R) x HP Hkq ltac:(lia)) as (Hs & Hl0 & Hr1 & Hdiv).
        rewrite Hs.
        destruct (x mod (2 * 2 ^ e) =? key / 2 ^ R + 2 ^ e) eqn:Eb.
        * rewrite orb_true_r. unfold slot_of. cbn [walk]. apply Z.eqb_eq in Eb. rewrite (Hr1 Eb).
          rewrite E2e, <- Hdiv.
          destruct (walk r (x / 2 ^ e / 2)) as [[v n]|]; cbn [bump]; [|reflexivity].
          f_equal. clear. lia.
        * rewrite orb_false_r.
          destruct (x mod (2 * 2 ^ e) =? key / 2 ^ R) eqn:Ea; [|reflexivity].
          unfold slot_of. cbn [walk]. apply Z.eqb_eq in Ea. rewrite (Hl0 Ea).
          rewrite E2e, <- Hdiv.
          destruct (walk l (x / 2 ^ e / 2)) as [[v n]|]; cbn [bump]; [|reflexivity].
          f_equal. clear. lia.
  Qed.
End Sub.

(* ------------------------------------------------------------------ *)
(** * Helpers for the allocation step *)

Fixpoint maxd (l : list (Z * Z)) : Z :=
  match l with [] => 0 | x :: tl => Z.max (fst x) (maxd tl) end.

Lemma maxd_ge l : Forall (fun it => fst it <= maxd l) l.
Proof.
  induction l as [|x tl IH]; constructor; cbn [maxd]; [lia|].
  eapply Forall_impl; [|exact IH]. cbn. intros; lia.
Qed.

Lemma maxd_in l : l <> [] -> Forall (fun it => 0 <= fst it) l -> exists x, In x l /\ fst x = maxd l.
Proof.
  induction l as [|x tl IH]; intros Hne Hpos; [congruence|].
  inversion Hpos as [|? ? Hx Htl]; subst. cbn [maxd].
  destruct tl as [|y tl'].
  - exists x. split; [now left|]. cbn [maxd]. lia.
  - destruct (IH ltac:(congruence) Htl) as (z & Hz & Ez).
    destruct (Z.max_spec (fst x) (maxd (y :: tl'))) as [[_ ->]|[_ ->]].
    + exists z. split; [now right|exact Ez].
    + exists x. split; [now left|reflexivity].
Qed.

Lemma leaves_nonempty t : complete t -> forall d, leaves d t <> [].
Proof.
  induction t as [v|l IHl r IHr|]; intros Hc d; cbn [complete leaves] in *; [congruence| |contradiction].
  destruct Hc as [Hl _]. specialize (IHl Hl (d + 1)). destruct (leaves (d + 1) l); [congruence|]. cbn. congruence.
Qed.

Lemma leaves_depth_ge t : forall d, Forall (fun it => d <= fst it) (leaves d t).
Proof.
  induction t as [v|l IHl r IHr|]; intros d; cbn [leaves]; [constructor; [cbn; lia|constructor]| |constructor].
  apply Forall_app. split; (eapply Forall_impl; [|apply IHl || apply IHr]); cbn; intros; lia.
Qed.

Lemma SS_app_le (a b : list (Z * Z)) : StronglySorted Rle (a ++ b) ->
  forall x y, In x a -> In y b -> fst x <= fst y.
Proof.
  induction a as [|z a IH]; intros Hs x y Hx Hy; [destruct Hx|].
  cbn [app] in Hs. inversion Hs as [|? ? Hs' Hall]; subst.
  destruct Hx as [->|Hx].
  - rewrite Forall_forall in Hall. apply (Hall y). apply in_or_app. now right.
  - eapply IH; eassumption.
Qed.

Lemma SS_head_min (x : Z * Z) l : StronglySorted Rle (x :: l) -> Forall (fun it => fst x <= fst it) (x :: l).
Proof. intros Hs. inversion Hs; subst. constructor; [lia|assumption]. Qed.

Lemma SS_prefix (a b : list (Z * Z)) : StronglySorted Rle (a ++ b) -> StronglySorted Rle a.
Proof.
  induction a as [|x a IH]; intros H; [constructor|]. cbn [app] in H. inversion H as [|? ? H' Hall]; subst.
  constructor; [apply IH; exact H'|]. apply Forall_app in Hall. apply Hall.
Qed.

Definition alloc (R : Z) (items : list (Z * Z)) (l : Z) (st : lstate) : lstate :=
  let pre := l_key st mod 2 ^ R in
  let off := l_off st + l_size st in
  let tb := next_table_bits 16 items l (2 ^ (l - R)) R in
  mkl (l_key st) (arr_set (l_tab st) pre (tb + R, off)) pre off (2 ^ tb).

Lemma alloc_step R l s tl st : R < l -> l_key st mod 2 ^ R <> l_low st ->
  lut_fill R ((l, s) :: tl) st = lut_fill R ((l, s) :: tl) (alloc R ((l, s) :: tl) l st).
Proof.
  intros Hl Hne. cbn [lut_fill]. replace (l <=? R) with false by lia.
  replace (l_key st mod 2 ^ R =? l_low st) with false by lia.
  unfold alloc at 1. cbn [l_key l_low].
  rewrite Z.eqb_refl. reflexivity.
Qed.

(* ------------------------------------------------------------------ *)
(** * The whole table *)

Definition endof (st : lstate) : Z := l_off st + l_size st.

Definition in_region (R : Z) (dn : nat) (key lo hi j : Z) : Prop :=
  (0 <= j < 2 ^ R /\ j mod 2 ^ Z.of_nat dn = key) \/ (lo <= j < hi).

(* Vp8lPrefix turns on div/mod expansion in lia globally; the goals below carry many mod terms that are
   irrelevant to the linear facts needed *)
Ltac Zify.zify_post_hook ::= idtac.

Ltac qlia :=
  repeat match goal with
         | H : forall _, _ |- _ => clear H
         | H : lut_fill _ _ _ = _ |- _ => clear H
         | H : @eq bool _ _ |- _ => clear H
         | H : _ -> @eq bool _ _ |- _ => clear H
         | H : @eq (option _) _ _ |- _ => clear H
         | H : StronglySorted _ _ |- _ => clear H
         | H : Forall _ _ |- _ => clear H
         end; lia.

Ltac blia :=
  repeat match goal with
         | H : forall _, _ |- _ => clear H
         | H : lut_fill _ _ _ = _ |- _ => clear H
         end; lia.

Section Top.
  Variable R : Z.
  Hypothesis HR : 0 <= R <= 15.

  Lemma fill_top : forall t dn key st rest,
    complete t -> Z.of_nat dn <= R ->
    StronglySorted Rle (leaves (Z.of_nat dn) t ++ rest) ->
    Forall (fun it => fst it <= 15) (leaves (Z.of_nat dn) t) ->
    0 <= key < 2 ^ Z.of_nat dn -> l_key st = key ->
    (forall j, 0 <= j < 2 ^ R -> j mod 2 ^ Z.of_nat dn = key -> j <> l_low st) ->
    2 ^ R <= endof st -> 0 <= l_off st ->
    exists st', lut_fill R (leaves (Z.of_nat dn) t ++ rest) st = lut_fill R rest st' /\
      endof st <= endof st' /\ 0 <= l_off st' /\
      (key <> 2 ^ Z.of_nat dn - 1 -> l_key st' = next_key dn key) /\
      (l_low st' = l_low st \/ (0 <= l_low st' < 2 ^ R /\ l_low st' mod 2 ^ Z.of_nat dn = key)) /\
      (forall j, j < endof st -> ~ (0 <= j < 2 ^ R /\ j mod 2 ^ Z.of_nat dn = key) ->
                 arr_get entry0 (l_tab st') j = arr_get entry0 (l_tab st) j) /\
      (forall w v n, 0 <= w -> w mod 2 ^ Z.of_nat dn = key -> walk t (w / 2 ^ Z.of_nat dn) = Some (v, n) ->
         forall tab'', (forall j, in_region R dn key (endof st) (endof st') j ->
                                  arr_get entry0 tab'' j = arr_get entry0 (l_tab st') j) ->
         lut_read R tab'' w = (v, Z.of_nat dn + n)).
  Proof.
    assert (HR2 : 0 < 2 ^ R) by (apply Z.pow_pos_nonneg; qlia).
    induction t as [v0|l IHl r IHr|]; intros dn key st rest Hc Hdn Hs H15 Hk Hst Hlow Hend Hoff;
      cbn [complete] in Hc; [| |contradiction].
    - (* leaf in the root table *)
      set (d := Z.of_nat dn) in *. cbn [leaves app lut_fill].
      replace (d <=? R) with true by lia.
      assert (HP : 0 < 2 ^ d) by (apply Z.pow_pos_nonneg; lia).
      assert (HQ : 0 < 2 ^ (R - d)) by (apply Z.pow_pos_nonneg; lia).
      assert (Ecls : forall j, arr_get entry0 (replicate (Z.to_nat (2 ^ (R - d))) (l_tab st) (l_key st) (2 ^ d) (d, v0)) j =
                       if (0 <=? j) && (j <? 2 ^ R) && (j mod 2 ^ d =? key) then (d, v0) else arr_get entry0 (l_tab st) j).
      { intros j. rewrite replicate_get by lia. rewrite Z2Nat.id by lia. rewrite Hst, class_cond by lia.
        replace (2 ^ d * 2 ^ (R - d)) with (2 ^ R) by (rewrite <- Z.pow_add_r by lia; f_equal; lia). reflexivity. }
      eexists. split; [reflexivity|]. unfold endof. cbn [l_low l_off l_size l_key l_tab].
      split; [lia|]. split; [exact Hoff|]. split; [intros _; unfold d; rewrite Hst; now rewrite Nat2Z.id|].
      split; [now left|]. split.
      + intros j Hj Hnot. rewrite Ecls.
        destruct ((0 <=? j) && (j <? 2 ^ R) && (j mod 2 ^ d =? key))%bool eqn:E; [|reflexivity].
        exfalso. apply Hnot. lia.
      + intros w v n Hw Hwk Hwalk tab'' Hag. cbn [walk] in Hwalk. injection Hwalk as <- <-.
        unfold lut_read.
        assert (Hr : 0 <= w mod 2 ^ R < 2 ^ R) by (apply Z.mod_pos_bound; lia).
        assert (Hrm : (w mod 2 ^ R) mod 2 ^ d = key).
        { rewrite <- Hwk. replace (2 ^ R) with (2 ^ d * 2 ^ (R - d)) by (rewrite <- Z.pow_add_r by lia; f_equal; lia).
          rewrite Z.rem_mul_r by lia. rewrite Z.mul_comm, Z.mod_add by lia. apply Z.mod_mod. lia. }
        rewrite Hag by (left; split; assumption). rewrite Ecls.
        replace ((0 <=? w mod 2 ^ R) && (w mod 2 ^ R <? 2 ^ R) && ((w mod 2 ^ R) mod 2 ^ d =? key))%bool with true by lia.
        replace (0 <? d - R) with false by lia. now rewrite Z.add_0_r.
    - destruct Hc as [Hcl Hcr].
      destruct (Z.eq_dec (Z.of_nat dn) R) as [EdR|HdR].
      + (* node at depth R: a second-level table *)
        remember (leaves (Z.of_nat dn) (Node l r)) as lv0 eqn:Dlv in *.
        assert (Hlvne : lv0 <> []) by (rewrite Dlv; apply leaves_nonempty; cbn; auto).
        assert (Hge : Forall (fun it => Z.of_nat dn + 1 <= fst it) lv0).
        { rewrite Dlv. cbn [leaves]. apply Forall_app. split; apply leaves_depth_ge. }
        destruct lv0 as [|[l1 v1] lvtl]; [congruence|].
        set (lv := (l1, v1) :: lvtl) in *.
        assert (Hl1 : R < l1) by (unfold lv in Hge; inversion Hge; subst; cbn [fst] in *; blia).
        assert (HkR : 0 <= key < 2 ^ R) by (rewrite <- EdR; exact Hk).
        assert (Hkey : key mod 2 ^ R = key) by (apply Z.mod_small; exact HkR).
        assert (Hne : l_key st mod 2 ^ R <> l_low st).
        { rewrite Hst, Hkey. intros E. apply (Hlow key); [exact HkR| |congruence].
          rewrite EdR. exact Hkey. }
        change (lv ++ rest) with ((l1, v1) :: lvtl ++ rest).
        rewrite (alloc_step R l1 v1 (lvtl ++ rest) st Hl1 Hne).
        change ((l1, v1) :: lvtl ++ rest) with (lv ++ rest).
        (* the height of the sub-tree *)
        set (H := maxd lv).
        assert (HleH : Forall (fun it => fst it <= H) lv) by apply maxd_ge.
        assert (Hpos : Forall (fun it => 0 <= fst it) lv).
        { eapply Forall_impl; [|exact Hge]. cbn. intros; blia. }
        destruct (maxd_in lv ltac:(unfold lv; congruence) Hpos) as (xm & Hxm & ExH). fold H in ExH.
        assert (HH15 : H <= 15) by (rewrite <- ExH; rewrite Forall_forall in H15; apply H15; exact Hxm).
        assert (HRH : R < H).
        { rewrite <- ExH. rewrite Forall_forall in Hge. specialize (Hge xm Hxm). blia. }
        assert (Hrest : Forall (fun it => H <= fst it) rest).
        { apply Forall_forall. intros y Hy. rewrite <- ExH. eapply SS_app_le; eassumption. }
        assert (Hmin : Forall (fun it => l1 - 1 < fst it) lv).
        { pose proof (SS_prefix _ _ Hs) as Hp. unfold lv in Hp. pose proof (SS_head_min _ _ Hp) as M.
          unfold lv. eapply Forall_impl; [|exact M]. cbn. intros; blia. }
        assert (Etb : next_table_bits 16 (lv ++ rest) l1 (2 ^ (l1 - R)) R = H - R).
        { pose proof (ntb_spec R H lv rest (Node l r) ltac:(cbn; auto) ltac:(rewrite <- EdR; exact Dlv) HleH
                        (ex_intro _ xm (conj Hxm ExH)) Hrest HH15 16%nat l1) as N.
          rewrite (wlev_below (l1 - 1) lv Hmin) in N.
          replace (2 * 0) with 0 in N by blia. rewrite Z.sub_0_r in N.
          apply N; [|blia]. split; [blia|]. rewrite Forall_forall in HleH.
          specialize (HleH (l1, v1) ltac:(now left)). cbn [fst] in HleH. blia. }
        set (tb := H - R) in *.
        assert (Htb : 0 < tb) by (unfold tb; blia).
        assert (Htb2 : 0 < 2 ^ tb) by (apply Z.pow_pos_nonneg; blia).
        set (sta := alloc R (lv ++ rest) l1 st).
        assert (Esta : sta = mkl key (arr_set (l_tab st) key (tb + R, endof st)) key (endof st) (2 ^ tb)).
        { unfold sta, alloc. rewrite Etb, Hst, Hkey. reflexivity. }
        rewrite Esta. clear sta Esta.
        set (sta := mkl key (arr_set (l_tab st) key (tb + R, endof st)) key (endof st) (2 ^ tb)).
        assert (Elv2 : lv = leaves (Z.of_nat (S dn)) l ++ leaves (Z.of_nat (S dn)) r).
        { rewrite Dlv. cbn [leaves]. now replace (Z.of_nat dn + 1) with (Z.of_nat (S dn)) by blia. }
        rewrite Elv2 in HleH. apply Forall_app in HleH. destruct HleH as [HleL HleR].
        rewrite Elv2, <- app_assoc.
        assert (HPd : 0 < 2 ^ Z.of_nat dn) by (apply Z.pow_pos_nonneg; blia).
        assert (E2 : 2 ^ Z.of_nat (S dn) = 2 * 2 ^ Z.of_nat dn) by (rewrite Nat2Z.inj_succ, Z.pow_succ_r by blia; reflexivity).
        assert (HoffA : 0 <= endof st) by blia.
        destruct (fill_sub R ltac:(blia) l (S dn) key sta (leaves (Z.of_nat (S dn)) r ++ rest) tb Hcl ltac:(blia)
                   ltac:(replace (R + tb) with H by (unfold tb; blia); exact HleL) ltac:(blia) eq_refl
                   ltac:(cbn [l_low sta]; now rewrite Hkey) eq_refl HoffA)
          as (st1 & F1 & L1 & O1 & S1 & K1 & T1).
        rewrite F1.
        assert (Hk1 : l_key st1 = key + 2 ^ Z.of_nat dn) by (rewrite K1 by blia; apply next_key_left; blia).
        assert (Hlow1 : l_low st1 = (key + 2 ^ Z.of_nat dn) mod 2 ^ R).
        { rewrite L1. cbn [l_low sta]. rewrite EdR. replace (key + 2 ^ R) with (key + 1 * 2 ^ R) by blia.
          rewrite Z.mod_add by blia. now rewrite Hkey. }
        destruct (fill_sub R ltac:(blia) r (S dn) (key + 2 ^ Z.of_nat dn) st1 rest tb Hcr ltac:(blia)
                   ltac:(replace (R + tb) with H by (unfold tb; blia); exact HleR) ltac:(blia) Hk1 Hlow1
                   ltac:(rewrite S1; reflexivity) ltac:(rewrite O1; exact HoffA))
          as (st2 & F2 & L2 & O2 & S2 & K2 & T2).
        exists st2. split; [exact F2|].
        assert (Eend2 : endof st2 = endof st + 2 ^ tb).
        { unfold endof at 1. rewrite O2, O1, S2, S1. reflexivity. }
        split; [blia|]. split; [rewrite O2, O1; exact HoffA|]. split.
        { intros Hnk. rewrite K2 by blia. rewrite next_key_right by blia.
          apply next_key_high; [blia|blia|]. rewrite Z.mod_small by blia. blia. }
        split.
        { right. rewrite L2, L1. cbn [l_low sta]. rewrite EdR. split; [exact HkR|exact Hkey]. }
        (* table after both children *)
        assert (Ee : Z.of_nat (S dn) - R = 1) by blia.
        assert (Tab2 : forall j, arr_get entry0 (l_tab st2) j =
                 let x := j - endof st in
                 if (0 <=? x) && (x <? 2 ^ tb)
                 then (if Z.odd x then slot_of r 1 x else slot_of l 1 x)
                 else if j =? key then (tb + R, endof st) else arr_get entry0 (l_tab st) j).
        { intros j. rewrite T2, T1. cbv zeta. rewrite O1. cbn [l_off l_tab sta]. rewrite Ee.
          replace ((key + 2 ^ Z.of_nat dn) / 2 ^ R) with 1
            by (rewrite EdR; replace (key + 2 ^ R) with (key + 1 * 2 ^ R) by blia; rewrite Z.div_add, Z.div_small by blia; reflexivity).
          replace (key / 2 ^ R) with 0 by (rewrite Z.div_small by exact HkR; reflexivity).
          change (2 ^ 1) with 2.
          destruct (0 <=? j - endof st) eqn:E0; cbn [andb].
          - destruct (j - endof st <? 2 ^ tb) eqn:E1; cbn [andb].
            + rewrite (Zmod_odd (j - endof st)). destruct (Z.odd (j - endof st)); reflexivity.
            + destruct (Z.eq_dec j key) as [->|Hjk]; [blia|].
              rewrite arr_get_set_other by blia. replace (j =? key) with false by blia. reflexivity.
          - destruct (Z.eq_dec j key) as [->|Hjk].
            + rewrite arr_get_set_same by blia. now rewrite Z.eqb_refl.
            + rewrite arr_get_set_other by blia. replace (j =? key) with false by blia. reflexivity. }
        split.
        { intros j Hj Hnot. rewrite Tab2. cbv zeta.
          replace (0 <=? j - endof st) with false by blia. cbn [andb].
          destruct (j =? key) eqn:Ejk; [|reflexivity]. exfalso. apply Hnot.
          assert (j = key) by blia. subst j. rewrite EdR. split; [exact HkR|exact Hkey]. }
        { intros w v n Hw Hwk Hwalk tab'' Hag.
          unfold lut_read. rewrite EdR in Hwk.
          rewrite Hag by (left; rewrite Hwk; rewrite EdR; split; [exact HkR|exact Hkey]).
          rewrite Hwk, Tab2. cbv zeta.
          replace (0 <=? key - endof st) with false by blia. cbn [andb]. rewrite Z.eqb_refl.
          replace (0 <? tb + R - R) with true by blia. replace (tb + R - R) with tb by blia.
          set (W := w / 2 ^ R) in *. rewrite EdR in Hwalk. fold W in Hwalk.
          set (x := W mod 2 ^ tb).
          assert (Hx : 0 <= x < 2 ^ tb) by (apply Z.mod_pos_bound; blia).
          rewrite Hag by (right; rewrite Eend2; blia).
          rewrite Tab2. cbv zeta. replace (endof st + x - endof st) with x by blia.
          replace ((0 <=? x) && (x <? 2 ^ tb))%bool with true by blia.
          (* walking only looks at the low tb bits *)
          assert (HW : 0 <= W) by (apply Z.div_pos; blia).
          pose proof (walk_low (R + tb) (Node l r) dn W ltac:(cbn; auto)) as Wl.
          rewrite EdR in Wl. replace (R + tb - R) with tb in Wl by blia.
          assert (HleN : Forall (fun it => fst it <= R + tb) (leaves R (Node l r))).
          { cbn [leaves]. replace (R + 1) with (Z.of_nat (S dn)) by blia. apply Forall_app. split.
            - replace (R + tb) with H by (unfold tb; blia). exact HleL.
            - replace (R + tb) with H by (unfold tb; blia). exact HleR. }
          specialize (Wl HleN HW). fold x in Wl. rewrite <- Wl in Hwalk.
          cbn [walk] in Hwalk. unfold slot_of. change (2 ^ 1) with 2.
          destruct (Z.odd x).
          - destruct (walk r (x / 2)) as [[v' n']|]; cbn [bump] in Hwalk; [|discriminate].
            injection Hwalk as <- <-. f_equal. blia.
          - destruct (walk l (x / 2)) as [[v' n']|]; cbn [bump] in Hwalk; [|discriminate].
            injection Hwalk as <- <-. f_equal. blia. }
      + (* node above depth R *)
        assert (HdnR : Z.of_nat (S dn) <= R) by qlia.
        cbn [leaves] in *. replace (Z.of_nat dn + 1) with (Z.of_nat (S dn)) in * by qlia.
        apply Forall_app in H15. destruct H15 as [H15l H15r].
        rewrite <- app_assoc in *.
        assert (HP : 0 < 2 ^ Z.of_nat dn) by (apply Z.pow_pos_nonneg; qlia).
        assert (E2 : 2 ^ Z.of_nat (S dn) = 2 * 2 ^ Z.of_nat dn) by (rewrite Nat2Z.inj_succ, Z.pow_succ_r by qlia; reflexivity).
        assert (Hsplit : forall j, 0 <= j -> j mod 2 ^ Z.of_nat (S dn) = key \/ j mod 2 ^ Z.of_nat (S dn) = key + 2 ^ Z.of_nat dn -> j mod 2 ^ Z.of_nat dn = key).
        { intros j Hj Hor. rewrite E2 in Hor. destruct (split_class (2 ^ Z.of_nat dn) key j HP ltac:(qlia) Hj) as (Hsc & _).
          apply Z.eqb_eq. rewrite Hsc. apply orb_true_iff. destruct Hor as [Hor|Hor]; [left|right]; qlia. }
        destruct (IHl (S dn) key st (leaves (Z.of_nat (S dn)) r ++ rest) Hcl HdnR Hs H15l ltac:(qlia) Hst
                    ltac:(intros j Hj Hm; apply Hlow; [exact Hj|apply Hsplit; [qlia|now left]]) Hend Hoff)
          as (st1 & F1 & En1 & Of1 & K1 & Lo1 & Fr1 & Rd1).
        rewrite F1.
        assert (Hk1 : l_key st1 = key + 2 ^ Z.of_nat dn) by (rewrite K1 by qlia; apply next_key_left; qlia).
        assert (Hs2 : StronglySorted Rle (leaves (Z.of_nat (S dn)) r ++ rest)) by (eapply SS_suffix; exact Hs).
        assert (Hlow1 : forall j, 0 <= j < 2 ^ R -> j mod 2 ^ Z.of_nat (S dn) = key + 2 ^ Z.of_nat dn -> j <> l_low st1).
        { intros j Hj Hm. destruct Lo1 as [->|[_ Hlm]].
          - apply Hlow; [exact Hj|apply Hsplit; [qlia|now right]].
          - intros ->. qlia. }
        destruct (IHr (S dn) (key + 2 ^ Z.of_nat dn) st1 rest Hcr HdnR Hs2 H15r ltac:(qlia) Hk1 Hlow1 ltac:(qlia) Of1)
          as (st2 & F2 & En2 & Of2 & K2 & Lo2 & Fr2 & Rd2).
        exists st2. split; [exact F2|]. split; [qlia|]. split; [exact Of2|]. split.
        { intros Hnk. rewrite K2 by qlia. rewrite next_key_right by qlia.
          apply next_key_high; [qlia|qlia|]. rewrite Z.mod_small by qlia. qlia. }
        split.
        { destruct Lo2 as [->|[Hb Hm]].
          - destruct Lo1 as [->|[Hb Hm]]; [now left|right; split; [exact Hb|apply Hsplit; [qlia|now left]]].
          - right. split; [exact Hb|apply Hsplit; [qlia|now right]]. }
        split.
        { intros j Hj Hnot. rewrite Fr2, Fr1; try qlia; try reflexivity.
          - intros [Hb Hm]. apply Hnot. split; [exact Hb|apply Hsplit; [qlia|now left]].
          - intros [Hb Hm]. apply Hnot. split; [exact Hb|apply Hsplit; [qlia|now right]]. }
        { intros w v n Hw Hwk Hwalk tab'' Hag.
          destruct (split_class (2 ^ Z.of_nat dn) key w HP ltac:(qlia) Hw) as (Hsc & Hl0 & Hr1 & Hdiv).
          rewrite <- E2 in *.
          assert (Hor : w mod 2 ^ Z.of_nat (S dn) = key \/ w mod 2 ^ Z.of_nat (S dn) = key + 2 ^ Z.of_nat dn).
          { apply Z.eqb_eq in Hwk. rewrite Hsc in Hwk. apply orb_true_iff in Hwk. destruct Hwk as [Hwk|Hwk]; [left|right]; apply Z.eqb_eq; exact Hwk. }
          cbn [walk] in Hwalk. rewrite Hdiv in Hwalk.
          destruct Hor as [Hwl|Hwr].
          - rewrite (Hl0 Hwl) in Hwalk.
            destruct (walk l (w / 2 ^ Z.of_nat (S dn))) as [[v' n']|] eqn:Ew; cbn [bump] in Hwalk; [|discriminate].
            injection Hwalk as <- <-.
            replace (Z.of_nat dn + (n' + 1)) with (Z.of_nat (S dn) + n') by qlia.
            apply (Rd1 w v' n' Hw Hwl Ew).
            intros j Hreg. rewrite Hag.
            + (* the right child did not touch the left child's region *)
              apply Fr2.
              * destruct Hreg as [[Hb _]|Hb]; qlia.
              * intros [Hb Hm]. destruct Hreg as [[_ Hm']|Hb']; qlia.
            + destruct Hreg as [[Hb Hm]|Hb]; [left; split; [exact Hb|apply Hsplit; [qlia|now left]]|right; qlia].
          - rewrite (Hr1 Hwr) in Hwalk.
            destruct (walk r (w / 2 ^ Z.of_nat (S dn))) as [[v' n']|] eqn:Ew; cbn [bump] in Hwalk; [|discriminate].
            injection Hwalk as <- <-.
            replace (Z.of_nat dn + (n' + 1)) with (Z.of_nat (S dn) + n') by qlia.
            apply (Rd2 w v' n' Hw Hwr Ew).
            intros j Hreg. apply Hag.
            destruct Hreg as [[Hb Hm]|Hb]; [left; split; [exact Hb|apply Hsplit; [qlia|now right]]|right; qlia]. }
  Qed.
End Top.

Opaque build.

(** lookup = canonical code: every accepted length vector, every root size, every window *)
Theorem lut_decode_eq_canonical : lut_decode_eq_canonical_statement.
Proof.
  intros root lens t tab w Hroot Ht Hb Hw.
  unfold tree_of_lens in Ht. unfold lut_build in Hb.
  destruct (lens_in_range lens) eqn:Hr; cbn [negb] in Ht, Hb; [|discriminate].
  pose proof (lens_items_sorted lens) as Hsorted.
  pose proof (lens_items_range lens) as Hrange.
  assert (Hpw : 0 < 2 ^ root) by (apply Z.pow_pos_nonneg; lia).
  destruct (lens_items lens) as [|[l0 s0] [|it2 tl]] eqn:Ei; [discriminate| |].
  - apply Ok_inj in Ht, Hb. subst t tab. exists s0, 0. split; [reflexivity|].
    unfold lut_read. rewrite replicate_get by lia.
    pose proof (Z.mod_pos_bound w (2 ^ root) Hpw) as B.
    replace ((0 <=? w mod 2 ^ root) && ((w mod 2 ^ root - 0) mod 1 =? 0) &&
             ((w mod 2 ^ root - 0) / 1 <? Z.of_nat (Z.to_nat (2 ^ root))))%bool with true
      by (rewrite Z.mod_1_r, Z.div_1_r, Z2Nat.id by lia; lia).
    replace (0 <? 0 - root) with false by lia. reflexivity.
  - destruct (kraft_sum lens =? 32768) eqn:Ek; [|discriminate]. apply Ok_inj in Ht, Hb. subst t tab.
    unfold kraft_sum in Ek. rewrite Ei in Ek.
    set (items := (l0, s0) :: it2 :: tl) in *.
    assert (Hb15 : Forall (fun it => 0 <= fst it <= 15) items).
    { eapply Forall_impl; [|exact Hrange]. cbn. intros; lia. }
    destruct (build_leaves 16 0 items ltac:(lia) ltac:(lia) Hsorted Hb15) as (Hi & Hle & Hc).
    destruct (build_spec 16 0 items ltac:(lia) ltac:(lia) Hsorted Hb15) as (pre & Hi' & _ & Hfull & _).
    set (t := fst (build 16 0 items)) in *.
    assert (Hrest : snd (build 16 0 items) = []).
    { destruct (snd (build 16 0 items)) as [|y r] eqn:Er; [reflexivity|].
      assert (Hne : y :: r <> []) by congruence. specialize (Hfull Hne).
      assert (Hsum : sumw items = sumw pre + sumw (y :: r)) by (rewrite Hi' at 1; apply sumw_app).
      assert (0 < sumw (y :: r)).
      { apply sumw_pos. rewrite Hi' in Hb15. apply Forall_app in Hb15. destruct Hb15 as [_ Hb'].
        eapply Forall_impl; [|exact Hb']. cbn. intros; lia. }
      change (2 ^ (15 - 0)) with 32768 in Hfull. lia. }
    rewrite Hrest, app_nil_r in Hi.
    assert (Hcomp : complete t) by (apply Hc; rewrite <- Hi; change (2 ^ (15 - 0)) with 32768; lia).
    assert (Hl15 : Forall (fun it => fst it <= 15) (leaves (Z.of_nat 0) t)).
    { cbn [Z.of_nat]. rewrite <- Hi. eapply Forall_impl; [|exact Hb15]. cbn. intros; lia. }
    assert (Hss : StronglySorted Rle (leaves (Z.of_nat 0) t ++ [])).
    { cbn [Z.of_nat]. rewrite app_nil_r, <- Hi. exact Hsorted. }
    destruct (fill_top root ltac:(lia) t 0%nat 0 (mkl 0 arr_empty (-1) 0 (2 ^ root)) [] Hcomp ltac:(cbn; lia) Hss Hl15
                ltac:(cbn; lia) eq_refl ltac:(cbn [l_low]; intros; lia) ltac:(unfold endof; cbn [l_off l_size]; lia) ltac:(cbn; lia))
      as (st' & F & _ & _ & _ & _ & _ & Rd).
    rewrite app_nil_r in F. cbn [Z.of_nat] in F. rewrite <- Hi in F. cbn [lut_fill] in F.
    destruct (walk_complete t Hcomp w) as (v & n & Ew). exists v, n. split; [exact Ew|].
    rewrite F.
    pose proof (Rd w v n Hw ltac:(change (2 ^ Z.of_nat 0) with 1; apply Z.mod_1_r)
                  ltac:(change (2 ^ Z.of_nat 0) with 1; rewrite Z.div_1_r; exact Ew) (l_tab st') ltac:(reflexivity)) as E.
    cbn [Z.of_nat] in E. rewrite Z.add_0_l in E. exact E.
Qed.

Transparent build.
