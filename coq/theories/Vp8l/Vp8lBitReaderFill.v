(** Extension of [Vp8lBitReaderProof] to the operations the symbol decoder uses:
    FillBitWindow, PrefetchBits and SetBitPos(BitPos + k), freely mixed with
    ReadBits.

    The specification is the byte string read as ONE little-endian integer
    V = le_value data: the field of n bits at bit offset p is (V / 2^p) mod 2^n
    (LSB-first bit order; beyond the data the integer has zero bits).

    [bitreader_script_refines]: on every byte string and every script of
      ReadBits(n), 0 <= n <= 24  |  FillBitWindow; PrefetchBits  |  SetBitPos(BitPos + k)
    that keeps the decoder's discipline — between two refills at most 32 bits are
    consumed (FillBitWindow guarantees 32 available bits; a ReadBits leaves 56), and
    nothing is consumed beyond the end of the data — the model of the 64-bit window
    reader returns exactly the specified fields, PrefetchBits returns the 32 bits
    at the current offset (zero-extended beyond the end), and the end-of-stream
    flag stays clear.  This is the discipline of decodeImageData: one
    FillBitWindow, then green (<= 15 bits) and, for a literal, red + blue
    (<= 30 bits ... the code refills after red), i.e. never more than 32 bits
    between two fills. *)
From Coq Require Import List ZArith Lia Bool.
From Coq Require Import ZifyBool ZifyNat.
From Webp Require Import Base.Res Vp8l.Vp8lPrefix Vp8l.Vp8lBitReader Vp8l.Vp8lBitReaderProof.
Import ListNotations.
Open Scope Z_scope.

Ltac Zify.zify_post_hook ::= idtac.

Section Fill.
  Variable data : list Z.
  Hypothesis Hdata : bytes_ok data.
  Let V := le_value data.
  Let L := Z.of_nat (length data).

  (** window invariant without the "fewer than 8 pending bits" clause: SetBitPos breaks that
      clause; [slack] = number of bits that may still be consumed before the next refill *)
  Definition winv (r : breader) (p slack : Z) : Prop :=
    pinv data r p /\ br_bit r <= 64 /\ p <= 8 * L /\ 0 <= slack <= 56 /\
    (br_bit r + slack <= 64 \/ br_pos r = L).

  Lemma VB : 0 <= V < 2 ^ (8 * L).
  Proof. apply (V_bound data Hdata). Qed.

  Lemma inv_winv r p : inv data r p -> winv r p 56.
  Proof.
    intros ((He & Hd & Hb & Hpos & Hs & Hl & Hv & Hpp) & Hsmall & Hple).
    assert (Hpp' := Hpp). unfold base in Hpp'. fold L in Hpp'.
    unfold winv, pinv. fold L. fold V.
    destruct (Z.lt_ge_cases (br_pos r) L) as [Hc|Hc].
    - specialize (Hsmall Hc). repeat split; try assumption; try lia.
    - assert (br_pos r = L) by lia.
      assert (br_bit r <= 64) by (destruct (L <? 8) eqn:E; lia).
      repeat split; try assumption; try lia.
  Qed.

  (** what can be consumed stays inside the window *)
  Lemma winv_room r p slack k : winv r p slack -> 0 <= k <= slack -> p + k <= 8 * L -> br_bit r + k <= 64.
  Proof.
    intros ((He & Hd & Hb & Hpos & Hs & Hl & Hv & Hpp) & H64 & Hple & Hsl & Hor) Hk Hfit.
    unfold base in Hpp. fold L in Hpp.
    destruct Hor as [Hor|Hor]; [lia|].
    destruct (L <? 8) eqn:E; lia.
  Qed.

  (** SetBitPos(BitPos + k) *)
  Lemma set_bit_winv r p slack k : winv r p slack -> 0 <= k <= slack -> p + k <= 8 * L ->
    winv (br_set_bit (br_bit r + k) r) (p + k) (slack - k) /\
    br_is_eos (br_set_bit (br_bit r + k) r) = false.
  Proof.
    intros W Hk Hfit. pose proof (winv_room r p slack k W Hk Hfit) as Hroom.
    destruct W as ((He & Hd & Hb & Hpos & Hs & Hl & Hv & Hpp) & H64 & Hple & Hsl & Hor).
    split.
    - unfold winv, pinv, br_set_bit, base in *. cbn [br_eos br_data br_bit br_pos br_val].
      repeat split; try assumption; try lia.
    - unfold br_is_eos, br_set_bit. cbn [br_eos br_data br_bit br_pos br_val]. rewrite He. cbn [orb].
      replace (64 <? br_bit r + k) with false by lia. apply andb_false_r.
  Qed.

  (** PrefetchBits *)
  Lemma prefetch_val r p slack : winv r p slack -> (br_bit r <= 32 \/ br_pos r = L) -> p < 8 * L \/ br_bit r < 64 ->
    br_prefetch r = (V / 2 ^ p) mod 2 ^ 32.
  Proof.
    intros ((He & Hd & Hb & Hpos & Hs & Hl & Hv & Hpp) & H64 & Hple & Hsl & _) Hor Hlt.
    unfold base in Hpp, Hv. fold L in Hpp, Hv. fold V in Hv.
    pose proof VB as VB'.
    assert (Hb64 : br_bit r < 64).
    { destruct Hlt as [Hlt|Hlt]; [|exact Hlt]. destruct (L <? 8) eqn:E; lia. }
    unfold br_prefetch. rewrite (Z.mod_small (br_bit r) 64) by lia.
    set (bs := if L <? 8 then 0 else br_pos r - 8) in *.
    assert (Hbs : 0 <= bs) by (unfold bs; destruct (L <? 8) eqn:E; lia).
    rewrite Hv.
    destruct Hor as [H32|HposL].
    - rewrite mod_pow_div by lia. rewrite (mod_mod_pow _ (64 - br_bit r) 32) by lia.
      rewrite div_pow_pow by lia. rewrite Hpp. reflexivity.
    - (* the window holds the last bytes: nothing above it *)
      assert (Hsmall : V / 2 ^ (8 * bs) < 2 ^ 64).
      { apply Z.div_lt_upper_bound; [p2|]. rewrite <- Z.pow_add_r by lia.
        eapply Z.lt_le_trans; [apply VB'|]. apply Z.pow_le_mono_r; [lia|].
        unfold bs. destruct (L <? 8) eqn:E; lia. }
      assert (H0 : 0 <= V / 2 ^ (8 * bs)) by (apply Z.div_pos; [lia|p2]).
      rewrite (Z.mod_small (V / 2 ^ (8 * bs)) (2 ^ 64)) by lia.
      rewrite div_pow_pow by lia. rewrite Hpp. reflexivity.
  Qed.

  (** four bytes at once *)
  Lemma window_shift32 X : 0 <= X ->
    (X mod 2 ^ 64) / 2 ^ 32 + ((X / 2 ^ 64) mod 2 ^ 32) * 2 ^ 32 = (X / 2 ^ 32) mod 2 ^ 64.
  Proof.
    intros HX.
    rewrite (mod_pow_div X 64 32) by lia. change (64 - 32) with 32.
    set (Y := X / 2 ^ 32).
    assert (E : X / 2 ^ 64 = Y / 2 ^ 32) by (unfold Y; rewrite div_pow_pow by lia; reflexivity).
    rewrite E.
    change (2 ^ 64) with (2 ^ 32 * 2 ^ 32). rewrite (Z.rem_mul_r Y (2 ^ 32) (2 ^ 32)) by lia. lia.
  Qed.

  Lemma four_bytes i : 0 <= i ->
    byte_at data i + 256 * byte_at data (i + 1) + 65536 * byte_at data (i + 2) + 16777216 * byte_at data (i + 3)
    = (V / 2 ^ (8 * i)) mod 2 ^ 32.
  Proof.
    intros Hi.
    rewrite !(le_value_byte data Hdata) by lia. fold V.
    set (X := V / 2 ^ (8 * i)).
    assert (E1 : V / 2 ^ (8 * (i + 1)) = X / 2 ^ 8) by (unfold X; rewrite div_pow_pow by lia; f_equal; f_equal; lia).
    assert (E2 : V / 2 ^ (8 * (i + 2)) = X / 2 ^ 8 / 2 ^ 8) by (unfold X; rewrite !div_pow_pow by lia; f_equal; f_equal; lia).
    assert (E3 : V / 2 ^ (8 * (i + 3)) = X / 2 ^ 8 / 2 ^ 8 / 2 ^ 8) by (unfold X; rewrite !div_pow_pow by lia; f_equal; f_equal; lia).
    rewrite E1, E2, E3. clearbody X. clear.
    change (2 ^ 32) with (2 ^ 8 * (2 ^ 8 * (2 ^ 8 * 2 ^ 8))).
    rewrite !Z.rem_mul_r by lia. change 256 with (2 ^ 8). lia.
  Qed.

  (** FillBitWindow *)
  Lemma fill_winv r p slack : winv r p slack ->
    winv (br_fill r) p (Z.max slack 32) /\ br_is_eos (br_fill r) = false /\
    (br_bit (br_fill r) <= 32 \/ br_pos (br_fill r) = L).
  Proof.
    intros W. pose proof W as ((He & Hd & Hb & Hpos & Hs & Hl & Hv & Hpp) & H64 & Hple & Hsl & Hor).
    assert (ELen : br_len r = L) by (unfold br_len; rewrite Hd; reflexivity).
    assert (Hne : forall r', br_eos r' = false -> br_data r' = data -> br_bit r' <= 64 -> br_is_eos r' = false).
    { intros r' E1 E2 E3. unfold br_is_eos. rewrite E1. cbn [orb]. replace (64 <? br_bit r') with false by lia. apply andb_false_r. }
    unfold br_fill. rewrite ELen.
    destruct (32 <=? br_bit r) eqn:E32.
    - destruct (br_pos r + 4 <=? L) eqn:E4.
      + (* fast path *)
        assert (HL8 : 8 <= L) by (destruct (Z.lt_ge_cases L 8) as [Hc|Hc]; [specialize (Hs Hc); lia|exact Hc]).
        split; [|split].
        * unfold winv, pinv, base in *. cbn [br_eos br_data br_bit br_pos br_val]. fold L. fold L in Hv, Hpp. fold V. fold V in Hv.
          replace (L <? 8) with false in Hv, Hpp |- * by lia.
          split; [|repeat split; try lia].
          split; [exact He|]. split; [exact Hd|]. split; [lia|]. split; [lia|]. split; [lia|]. split; [lia|].
          split; [|lia].
          rewrite Hd, (four_bytes (br_pos r)) by lia. rewrite Hv.
          set (X := V / 2 ^ (8 * (br_pos r - 8))).
          assert (HX : 0 <= X) by (apply Z.div_pos; [apply VB|p2]).
          replace (V / 2 ^ (8 * br_pos r)) with (X / 2 ^ 64)
            by (unfold X; rewrite div_pow_pow by lia; f_equal; f_equal; lia).
          rewrite (window_shift32 X HX).
          f_equal. unfold X. rewrite div_pow_pow by lia. f_equal. f_equal. lia.
        * apply Hne; cbn [br_eos br_data br_bit]; [exact He|exact Hd|lia].
        * left. cbn [br_bit]. lia.
      + (* slow path: shiftBytes *)
        unfold br_shift_bytes. cbv zeta.
        destruct (shift_loop_inv data Hdata (S (Z.to_nat (br_bit r / 8))) r p
                    (conj He (conj Hd (conj Hb (conj Hpos (conj Hs (conj Hl (conj Hv Hpp))))))) ltac:(lia)) as (Hp2 & Hsm2).
        set (r2 := br_shift_loop (S (Z.to_nat (br_bit r / 8))) r) in *.
        pose proof Hp2 as (He2 & Hd2 & Hb2 & Hpos2 & Hs2 & Hl2 & Hv2 & Hpp2).
        assert (Hb2le : br_bit r2 <= 64).
        { unfold base in Hpp2. fold L in Hpp2. destruct (L <? 8) eqn:E8; [lia|].
          destruct (Z.lt_ge_cases (br_pos r2) L) as [Hc|Hc]; [specialize (Hsm2 Hc); lia|lia]. }
        rewrite (Hne r2 He2 Hd2 Hb2le).
        assert (Hdis : br_bit r2 <= 32 \/ br_pos r2 = L).
        { destruct (Z.lt_ge_cases (br_pos r2) L) as [Hc|Hc]; [specialize (Hsm2 Hc); left; lia|right; lia]. }
        split; [|split; [apply Hne; assumption|exact Hdis]].
        unfold winv. split; [exact Hp2|]. split; [exact Hb2le|]. split; [exact Hple|]. split; [clear - Hsl; lia|].
        destruct Hdis as [Hd32|HdL]; [|right; exact HdL].
        destruct (Z.lt_ge_cases (br_pos r2) L) as [Hc|Hc]; [specialize (Hsm2 Hc); left; clear - Hsm2 Hsl; lia|right; clear - Hc Hpos2; lia].
    - split; [|split; [apply Hne; assumption|left; lia]].
      unfold winv. split; [repeat split; assumption|]. split; [exact H64|]. split; [exact Hple|]. split; [clear - Hsl; lia|].
      destruct Hor as [Hor|Hor]; [left; clear - Hor E32 Hsl; lia|right; exact Hor].
  Qed.

  (** ReadBits from a window in which SetBitPos has left more than 7 pending bits *)
  Lemma read_bits_winv r p slack n : winv r p slack -> 0 <= n <= 24 -> n <= slack -> p + n <= 8 * L ->
    fst (br_read_bits n r) = (V / 2 ^ p) mod 2 ^ n /\ inv data (snd (br_read_bits n r)) (p + n).
  Proof.
    intros W Hn Hsl' Hfit. pose proof (winv_room r p slack n W ltac:(lia) Hfit) as Hbn.
    destruct W as ((He & Hd & Hb & Hpos & Hs & Hl & Hv & Hpp) & H64 & Hple & Hsl & Hor).
    unfold br_read_bits. rewrite He. cbn [negb andb].
    replace ((0 <=? n) && (n <=? 24))%bool with true by lia. cbn [fst snd].
    pose proof VB as VB'.
    split.
    - unfold br_prefetch.
      destruct (Z.eq_dec n 0) as [->|Hn0]; [change (2 ^ 0) with 1; now rewrite !Z.mod_1_r|].
      assert (Hb64 : br_bit r < 64) by lia.
      rewrite (Z.mod_small (br_bit r) 64) by lia.
      rewrite Hv, mod_pow_div by lia.
      rewrite (mod_mod_pow _ 32 n) by lia.
      rewrite (mod_mod_pow _ (64 - br_bit r) n) by lia.
      rewrite div_pow_pow by (unfold base; destruct (Z.of_nat (length data) <? 8) eqn:E8; lia).
      rewrite Hpp. reflexivity.
    - unfold br_shift_bytes. cbv zeta.
      set (r1 := mkbr (br_val r) (br_data r) (br_pos r) (br_bit r + n) false).
      assert (Hp1 : pinv data r1 (p + n)).
      { unfold pinv, base, r1 in *. cbn [br_eos br_data br_bit br_pos br_val].
        repeat split; try assumption; lia. }
      destruct (shift_loop_inv data Hdata (S (Z.to_nat (br_bit r1 / 8))) r1 (p + n) Hp1 ltac:(lia)) as (Hp2 & Hsm2).
      set (r2 := br_shift_loop (S (Z.to_nat (br_bit r1 / 8))) r1) in *.
      assert (Hne : br_is_eos r2 = false).
      { destruct Hp2 as (He2 & Hd2 & Hb2 & Hpos2 & Hs2 & Hl2 & Hv2 & Hpp2).
        unfold br_is_eos. rewrite He2. cbn [orb].
        assert (ELen : br_len r2 = L) by (unfold br_len; rewrite Hd2; reflexivity). rewrite ELen.
        destruct (br_pos r2 =? L) eqn:Epos; [|reflexivity]. cbn [andb].
        unfold base in Hpp2. fold L in Hpp2. destruct (L <? 8) eqn:E8; lia. }
      rewrite Hne. split; [exact Hp2|]. split; [exact Hsm2|fold L; lia].
  Qed.
End Fill.

(* ------------------------------------------------------------------ *)
(** * Scripts (the encoding of [br_run]: n >= 0 ReadBits(n); -1 FillBitWindow + PrefetchBits;
      -100-k SetBitPos(BitPos + k)) *)

(** the specification: fields of the little-endian integer *)
Fixpoint spec_script (V : Z) (ops : list Z) (p : Z) : list (Z * bool) :=
  match ops with
  | [] => []
  | op :: tl =>
    if 0 <=? op then ((V / 2 ^ p) mod 2 ^ op, false) :: spec_script V tl (p + op)
    else if op =? -1 then ((V / 2 ^ p) mod 2 ^ 32, false) :: spec_script V tl p
    else (0, false) :: spec_script V tl (p + (-100 - op))
  end.

(** the decoder's discipline: [slack] bits may be consumed before the next refill; nothing is
    consumed beyond bit [lim] = 8 * length; a prefetch happens strictly inside the data *)
Fixpoint wf_script (lim : Z) (ops : list Z) (p slack : Z) : Prop :=
  match ops with
  | [] => True
  | op :: tl =>
    if 0 <=? op then op <= 24 /\ op <= slack /\ p + op <= lim /\ wf_script lim tl (p + op) 56
    else if op =? -1 then p < lim /\ wf_script lim tl p (Z.max slack 32)
    else let k := -100 - op in 0 <= k <= slack /\ p + k <= lim /\ wf_script lim tl (p + k) (slack - k)
  end.

Lemma script_refines data : bytes_ok data -> forall ops r p slack,
  winv data r p slack -> wf_script (8 * Z.of_nat (length data)) ops p slack ->
  br_run ops r = spec_script (le_value data) ops p.
Proof.
  intros Hd. induction ops as [|op tl IH]; intros r p slack W Hwf; [reflexivity|].
  cbn [br_run spec_script wf_script] in *.
  destruct (0 <=? op) eqn:E0.
  - destruct Hwf as (H24 & Hsl & Hfit & Hwf).
    destruct (read_bits_winv data Hd r p slack op W ltac:(lia) Hsl Hfit) as [Hv Hinv].
    destruct (br_read_bits op r) as [v r'] eqn:Er. cbn [fst snd] in Hv, Hinv.
    pose proof (inv_winv data r' (p + op) Hinv) as W'.
    rewrite (IH r' (p + op) 56 W' Hwf). f_equal. f_equal; [exact Hv|].
    destruct W' as ((He & Hdd & _) & H64 & _).
    unfold br_is_eos. rewrite He. cbn [orb]. replace (64 <? br_bit r') with false by lia. apply andb_false_r.
  - destruct (op =? -1) eqn:E1.
    + destruct Hwf as (Hlt & Hwf).
      destruct (fill_winv data Hd r p slack W) as (W' & Hne & Hdis).
      rewrite (IH (br_fill r) p (Z.max slack 32) W' Hwf). f_equal. f_equal; [|exact Hne].
      apply (prefetch_val data Hd (br_fill r) p (Z.max slack 32) W' Hdis). left. exact Hlt.
    + destruct Hwf as (Hk & Hfit & Hwf).
      destruct (set_bit_winv data r p slack (-100 - op) W Hk Hfit) as (W' & Hne).
      rewrite (IH _ (p + (-100 - op)) (slack - (-100 - op)) W' Hwf). f_equal. f_equal. exact Hne.
Qed.

Theorem bitreader_script_refines : forall data ops,
  bytes_ok data -> wf_script (8 * Z.of_nat (length data)) ops 0 56 ->
  br_run ops (br_new data) = spec_script (le_value data) ops 0.
Proof.
  intros data ops Hd Hwf.
  apply (script_refines data Hd ops (br_new data) 0 56); [|exact Hwf].
  apply inv_winv. apply inv_new. exact Hd.
Qed.

(** The discipline is decidable: the boolean checker the runner evaluates on every script of the
    correspondence run (scripts it accepts get the specification side [spec_script] printed next
    to the model's result). *)
Fixpoint wf_scriptb (lim : Z) (ops : list Z) (p slack : Z) : bool :=
  match ops with
  | [] => true
  | op :: tl =>
    if 0 <=? op then (op <=? 24) && (op <=? slack) && (p + op <=? lim) && wf_scriptb lim tl (p + op) 56
    else if op =? -1 then (p <? lim) && wf_scriptb lim tl p (Z.max slack 32)
    else let k := -100 - op in
         (0 <=? k) && (k <=? slack) && (p + k <=? lim) && wf_scriptb lim tl (p + k) (slack - k)
  end.

Lemma wf_scriptb_sound lim : forall ops p slack, wf_scriptb lim ops p slack = true -> wf_script lim ops p slack.
Proof.
  induction ops as [|op tl IH]; intros p slack H; cbn [wf_scriptb wf_script] in *; [exact I|].
  destruct (0 <=? op).
  - apply andb_prop in H. destruct H as [H H4]. apply andb_prop in H. destruct H as [H H3].
    apply andb_prop in H. destruct H as [H1 H2].
    split; [lia|]. split; [lia|]. split; [lia|]. apply IH. exact H4.
  - destruct (op =? -1).
    + apply andb_prop in H. destruct H as [H1 H2]. split; [lia|]. apply IH. exact H2.
    + cbv zeta in H. apply andb_prop in H. destruct H as [H H4]. apply andb_prop in H. destruct H as [H H3].
      apply andb_prop in H. destruct H as [H1 H2].
      split; [lia|]. split; [lia|]. apply IH. exact H4.
Qed.

Theorem bitreader_script_refines_checked : forall data ops,
  bytes_ok data -> wf_scriptb (8 * Z.of_nat (length data)) ops 0 56 = true ->
  br_run ops (br_new data) = spec_script (le_value data) ops 0.
Proof. intros data ops Hd H. apply bitreader_script_refines; [exact Hd|]. apply wf_scriptb_sound. exact H. Qed.

(** Non-vacuity: a 12-byte buffer, a read, then the symbol-decoder pattern twice. *)
Example script_example :
  let data := [1; 2; 3; 4; 5; 6; 7; 8; 9; 10; 11; 12] in
  let ops := [14; -1; -107; -115; 3; -1; -110; -1; -132; 14] in
  wf_script (8 * Z.of_nat (length data)) ops 0 56 /\
  br_run ops (br_new data) = spec_script (le_value data) ops 0.
Proof. split; [cbn; lia|vm_compute; reflexivity]. Qed.
