(** Ties between the specification's frozen tables/constants and what the Go
    source says now (coq/Gen is regenerated from /repo on every run). *)
From Coq Require Import List ZArith Lia Bool.
From Webp Require Import Vp8l.Vp8lPixel Vp8l.Vp8lPrefix Vp8l.Vp8lSpec.
From WebpGen Require Consts Tables Vp8lRoles.
Import ListNotations.
Open Scope Z_scope.

(** kCodeToPlane packs (dy, 8 - dx) into one byte. *)
Definition unpack_plane (v : Z) : Z * Z := (8 - v mod 16, v / 16).

Theorem code_to_plane_matches_spec :
  map unpack_plane WebpGen.Tables.lossless_CodeToPlane = plane_lut.
Proof. vm_compute. reflexivity. Qed.

(** Closed-form sanity of the table itself: it enumerates, without repetition,
    exactly the neighbourhood {(dx, dy) : 0 <= dy <= 7, -7 <= dx <= 8, (dy > 0 or
    dx > 0)} minus nothing — 120 = 8 + 7 * 16 entries — in order of
    non-decreasing Euclidean distance. *)
Definition in_neighbourhood (p : Z * Z) : bool :=
  let '(dx, dy) := p in
  (0 <=? dy) && (dy <=? 7) && (-7 <=? dx) && (dx <=? 8) && ((0 <? dy) || (0 <? dx)).

Definition pair_eqb (p q : Z * Z) : bool := (fst p =? fst q) && (snd p =? snd q).

Fixpoint nodupb (l : list (Z * Z)) : bool :=
  match l with [] => true | x :: tl => negb (existsb (pair_eqb x) tl) && nodupb tl end.

Fixpoint sorted_by (f : Z * Z -> Z) (l : list (Z * Z)) : bool :=
  match l with
  | x :: ((y :: _) as tl) => (f x <=? f y) && sorted_by f tl
  | _ => true
  end.

Theorem plane_lut_is_the_neighbourhood :
  length plane_lut = 120%nat /\ forallb in_neighbourhood plane_lut = true /\ nodupb plane_lut = true
  /\ sorted_by (fun p => fst p * fst p + snd p * snd p) plane_lut = true.
Proof. vm_compute. repeat split. Qed.

(** Constants of the format the specification model uses, as the code has them. *)
Theorem format_constants_match_spec :
  WebpGen.Consts.lossless_NumLiteralCodes = 256 /\ WebpGen.Consts.lossless_NumLengthCodes = 24 /\
  WebpGen.Consts.lossless_NumDistanceCodes = 40 /\ WebpGen.Consts.lossless_CodeLengthCodes = 19 /\
  WebpGen.Consts.lossless_MaxAllowedCodeLength = 15 /\ WebpGen.Consts.lossless_DefaultCodeLength = 8 /\
  WebpGen.Consts.lossless_MaxCacheBits = 11 /\ WebpGen.Vp8lRoles.lossless_role_colorcache_mul = 506832829 /\
  WebpGen.Consts.lossless_VP8LMagicByte = 47 /\ WebpGen.Consts.lossless_VP8LImageSizeBits = 14 /\
  WebpGen.Consts.lossless_VP8LVersionBits = 3 /\ WebpGen.Consts.lossless_VP8LVersion = 0 /\
  WebpGen.Consts.lossless_MinTransformBits = 2 /\ WebpGen.Consts.lossless_NumTransformBits = 3 /\
  WebpGen.Consts.lossless_MinHuffmanBits = 2 /\ WebpGen.Consts.lossless_NumHuffmanBits = 3 /\
  WebpGen.Consts.lossless_CodeToPlaneCodesCount = 120 /\ WebpGen.Consts.lossless_ARGBBlack = argb_of_px px_black /\
  WebpGen.Consts.lossless_PredictorTransform = 0 /\ WebpGen.Consts.lossless_CrossColorTransform = 1 /\
  WebpGen.Consts.lossless_SubtractGreenTransform = 2 /\ WebpGen.Consts.lossless_ColorIndexingTransform = 3 /\
  WebpGen.Tables.lossless_CodeLengthCodeOrder = code_length_order /\
  WebpGen.Tables.lossless_CodeLengthExtraBits = [2; 3; 7] /\
  WebpGen.Tables.lossless_CodeLengthRepeatOffsets = [3; 3; 11] /\
  WebpGen.Vp8lRoles.lossless_role_base_alphabet_sizes = [256 + 24; 256; 256; 256; 40].
Proof. vm_compute. repeat split. Qed.

(** Constants the implementation models of the lookup tables use ([Vp8lLut]: root size 8 for the
    five codes of a group; [Vp8lPacked]: 64 packed slots indexed by 6 window bits, eligibility
    "sum of the maximal lengths < 6", root-table mask 255), as the code has them. *)
Theorem table_constants_match_models :
  WebpGen.Consts.lossless_HuffmanTableBits = 8 /\ WebpGen.Consts.lossless_HuffmanTableMask = 2 ^ 8 - 1 /\
  WebpGen.Consts.lossless_HuffmanPackedBits = 6 /\ WebpGen.Consts.lossless_HuffmanPackedTableSize = 2 ^ 6.
Proof. vm_compute. repeat split. Qed.
