(** Plan-recovering decoder: reads a VP8L stream and returns the *plan* (transform
    list with the coding of their sub-images, cache bits, meta prefix image, for
    every prefix code how its lengths were transmitted, and the token list) that
    the stream is the emission of.  Used at run time on the bytes written by
    /repo's encoder: the harness checks [wf_planb plan = true] and
    [emit plan = bytes]; then [C03_emit_decode_checked] applies to those very
    bytes, i.e. the encoder's choices are validated against the proved theorem on
    every run (refinement of the nondeterministic model encoder).

    No theorem is stated about this function itself; a wrong recovery can only
    make the run-time check fail, never pass wrongly (the check re-emits). *)
From Coq Require Import List ZArith Lia Bool.
From Webp Require Import Base.Res Vp8l.Vp8lPixel Vp8l.Vp8lArr Vp8l.Vp8lPrefix Vp8l.Vp8lCanon Vp8l.Vp8lTransforms
  Vp8l.Vp8lSpec Vp8l.Vp8lEmit.
Import ListNotations.
Open Scope Z_scope.

(** code lengths proper, recording the tokens *)
Fixpoint trace_lens_loop (fuel : nat) (clt : tree) (ntok nsym : Z) (acc : list cltok) (s : bits)
  : Res (list cltok * bits) :=
  match fuel with
  | O => Err E_FUEL
  | S f =>
    if (nsym <=? 0) || (ntok <=? 0) then Ok (rev' acc, s)
    else
      '(c, s) <- read_symbol clt s ;;
      if c <? 16 then trace_lens_loop f clt (ntok - 1) (nsym - 1) (CLlit c :: acc) s
      else
        let '(eb, off) := if c =? 16 then (2%nat, 3) else if c =? 17 then (3%nat, 3) else (7%nat, 11) in
        '(x, s) <- read_bits eb s ;;
        let rep := off + x in
        if nsym <? rep then Err E_SYNTAX else
        let t := if c =? 16 then CLrep16 rep else if c =? 17 then CLrep17 rep else CLrep18 rep in
        trace_lens_loop f clt (ntok - 1) (nsym - rep) (t :: acc) s
  end.

Definition trace_code (alphabet : Z) (s : bits) : Res (codeplan * bits) :=
  '(simple, s) <- read_bits 1 s ;;
  if simple =? 1 then
    '(n2, s) <- read_bits 1 s ;;
    '(first8, s) <- read_bits 1 s ;;
    '(s0, s) <- read_bits (if (first8 =? 1)%Z then 8%nat else 1%nat) s ;;
    (* the emitter derives the 1-bit / 8-bit form from the symbol: other streams are not re-emitted exactly *)
    if n2 =? 1 then '(s1, s) <- read_bits 8 s ;; Ok (CSimple [s0; s1], s)
    else Ok (CSimple [s0], s)
  else
    '(n, s) <- read_bits 4 s ;;
    '(cl, s) <- read_cl_lens code_length_order (Z.to_nat (4 + n)) (repeat 0 19) s ;;
    clt <- tree_of_lens cl ;;
    '(usemax, s) <- read_bits 1 s ;;
    '(um, ntok, s) <- (if usemax =? 1 then
                         '(k, s) <- read_bits 3 s ;;
                         '(m, s) <- read_bitsZ (2 + 2 * k) s ;;
                         Ok (k, 2 + m, s)
                       else Ok (-1, alphabet, s)) ;;
    '(toks, s) <- trace_lens_loop (S (Z.to_nat alphabet)) clt ntok alphabet [] s ;;
    Ok (CNormal (4 + n) cl um toks, s).

Definition trace_group (cache_size : Z) (s : bits) : Res (list codeplan * bits) :=
  '(cg, s) <- trace_code (256 + 24 + cache_size) s ;;
  '(cr, s) <- trace_code 256 s ;;
  '(cbl, s) <- trace_code 256 s ;;
  '(ca, s) <- trace_code 256 s ;;
  '(cd, s) <- trace_code 40 s ;;
  Ok ([cg; cr; cbl; ca; cd], s).

Fixpoint trace_groups (n : nat) (cache_size : Z) (acc : list (list codeplan)) (s : bits)
  : Res (list (list codeplan) * bits) :=
  match n with
  | O => Ok (rev' acc, s)
  | S n' => '(g, s) <- trace_group cache_size s ;; trace_groups n' cache_size (g :: acc) s
  end.

(** trees of one group plan *)
Definition group_trees (cb : Z) (g : list codeplan) : Res group :=
  match g with
  | [cg; cr; cbl; ca; cd] =>
    tg <- tree_of_lens (code_lens (280 + cache_size_of cb) cg) ;;
    tr <- tree_of_lens (code_lens 256 cr) ;;
    tb <- tree_of_lens (code_lens 256 cbl) ;;
    ta <- tree_of_lens (code_lens 256 ca) ;;
    td <- tree_of_lens (code_lens 40 cd) ;;
    Ok (mkgroup tg tr tb ta td)
  | _ => Err E_SYNTAX
  end.

Fixpoint all_group_trees (cb : Z) (gs : list (list codeplan)) : Res (list group) :=
  match gs with
  | [] => Ok []
  | g :: tl => t <- group_trees cb g ;; r <- all_group_trees cb tl ;; Ok (t :: r)
  end.

(** tokens: parsing needs positions (for the group) but no pixel values *)
Fixpoint trace_tokens (fuel : nat) (w total pos : Z) (gidx : Z -> Z -> Z) (groups : arr group)
         (acc : list token) (s : bits) : Res (list token * bits) :=
  match fuel with
  | O => Err E_FUEL
  | S f =>
    if total <=? pos then Ok (rev' acc, s) else
    let g := arr_get group_dummy groups (gidx (pos mod w) (pos / w)) in
    '(sym, s) <- read_symbol (g_green g) s ;;
    if sym <? 256 then
      '(r, s) <- read_symbol (g_red g) s ;;
      '(b, s) <- read_symbol (g_blue g) s ;;
      '(a, s) <- read_symbol (g_alpha g) s ;;
      trace_tokens f w total (pos + 1) gidx groups (TLit (mkpx a r sym b) :: acc) s
    else if sym <? 280 then
      '(len, s) <- lz_value (sym - 256) s ;;
      '(dsym, s) <- read_symbol (g_dist g) s ;;
      '(dcode, s) <- lz_value dsym s ;;
      trace_tokens f w total (pos + len) gidx groups (TCopy len dcode :: acc) s
    else trace_tokens f w total (pos + 1) gidx groups (TCache (sym - 280) :: acc) s
  end.

(** a sub-image: one group *)
Definition trace_sub (w h : Z) (s : bits) : Res (eplan * bits) :=
  '(cb, s) <- read_cache_bits s ;;
  '(gs, s) <- trace_groups 1 (cache_size_of cb) [] s ;;
  trees <- all_group_trees cb gs ;;
  '(toks, s) <- trace_tokens (S (Z.to_nat (w * h))) w (w * h) 0 (fun _ _ => 0) (arr_of_list trees) [] s ;;
  Ok (mkeplan cb gs toks, s).

Fixpoint trace_transforms (fuel : nat) (acc : list tplan) (cw h : Z) (s : bits) : Res (list tplan * Z * bits) :=
  match fuel with
  | O => Err E_SYNTAX
  | S f =>
    '(present, s) <- read_bits 1 s ;;
    if present =? 0 then Ok (rev' acc, cw, s)
    else
      '(ty, s) <- read_bits 2 s ;;
      if ty =? 2 then trace_transforms f (TPSubGreen :: acc) cw h s
      else if ty =? 3 then
        '(n, s) <- read_bits 8 s ;;
        '(sub, s) <- trace_sub (n + 1) 1 s ;;
        trace_transforms f (TPIndex (n + 1) sub :: acc) (subsample cw (ci_bits (n + 1))) h s
      else
        '(b, s) <- read_bits 3 s ;;
        '(sub, s) <- trace_sub (subsample cw (b + 2)) (subsample h (b + 2)) s ;;
        trace_transforms f ((if ty =? 0 then TPPred (b + 2) sub else TPCross (b + 2) sub) :: acc) cw h s
  end.

Definition trace_decode (bytes : list Z) : Res plan :=
  match bytes with
  | 47 :: rest =>
    let s := bits_of_bytes rest in
    '(w1, s) <- read_bits 14 s ;;
    '(h1, s) <- read_bits 14 s ;;
    '(alpha, s) <- read_bits 1 s ;;
    '(ver, s) <- read_bits 3 s ;;
    if negb (ver =? 0) then Err E_SYNTAX else
    let w := w1 + 1 in
    let h := h1 + 1 in
    '(ts, cw, s) <- trace_transforms 5 [] w h s ;;
    '(cb, s) <- read_cache_bits s ;;
    '(hasmeta, s) <- read_bits 1 s ;;
    '(metap, mb, mw, meta, s) <-
       (if hasmeta =? 1 then
          '(b, s) <- read_bits 3 s ;;
          let mb := b + 2 in
          let mw := subsample cw mb in
          '(sub, s) <- trace_sub mw (subsample h mb) s ;;
          Ok (Some (mb, sub), mb, mw, map meta_index (sem_eimg mw sub), s)
        else Ok (None, 0, 0, [], s)) ;;
    let ngroups := fold_left Z.max meta 0 + 1 in
    '(gs, s) <- trace_groups (Z.to_nat ngroups) (cache_size_of cb) [] s ;;
    trees <- all_group_trees cb gs ;;
    let metaarr := arr_of_list meta in
    let gidx := fun x y => if mb =? 0 then 0 else arr_get 0 metaarr (tile_index mw mb x y) in
    '(toks, s) <- trace_tokens (S (Z.to_nat (cw * h))) cw (cw * h) 0 gidx (arr_of_list trees) [] s ;;
    Ok (mkplan w h alpha ts metap (mkeplan cb gs toks))
  | _ => Err E_SYNTAX
  end.

(** [emit p] is a prefix of [bytes] and whatever follows is zero padding *)
Fixpoint prefix_then_zeros (a b : list Z) : bool :=
  match a, b with
  | [], rest => forallb (Z.eqb 0) rest
  | x :: a', y :: b' => (x =? y) && prefix_then_zeros a' b'
  | _ :: _, [] => false
  end.
