(** Bit-exact VP8L emitter for an arbitrary plan and the pixels a plan denotes.

    A plan fixes everything an encoder may choose: dimensions, the transform
    list with the entropy-coded sub-images carrying their data, colour-cache
    bits, the meta prefix image, for every prefix code how its lengths are
    transmitted (simple code; or code-length-code lengths, max_symbol, and the
    16/17/18 run-length tokenisation), and the token list (literal / cache
    index / backward reference with its distance code).  [emit] writes the
    stream with the canonical code words of [Vp8lCanon] (RFC 1951 §3.2.2 numbering);
    [sem] replays the tokens and applies the inverse transforms, without any
    bit-level parsing.  The harness draws random well-formed plans so that the
    Go decoder is exercised on every feature of the format, not only on what
    /repo's encoder emits. *)
From Coq Require Import List ZArith Lia Bool.
From Coq Require Import ZifyBool ZifyNat.
From Webp Require Import Base.Res Vp8l.Vp8lPixel Vp8l.Vp8lArr Vp8l.Vp8lPrefix Vp8l.Vp8lCanon Vp8l.Vp8lTransforms Vp8l.Vp8lSpec.
Import ListNotations.
Open Scope Z_scope.

Inductive cltok :=
| CLlit (l : Z)            (* one code length 0..15 *)
| CLrep16 (n : Z)          (* repeat previous non-zero length n = 3..6 times *)
| CLrep17 (n : Z)          (* n = 3..10 zeros *)
| CLrep18 (n : Z).         (* n = 11..138 zeros *)

Inductive codeplan :=
| CSimple (syms : list Z)                                   (* one or two symbols *)
| CNormal (ncl : Z) (cl : list Z) (usemax : Z) (toks : list cltok).
  (* ncl = how many of the 19 code-length-code lengths are sent (4..19);
     cl = those lengths indexed by code-length symbol;
     usemax = -1: no max_symbol, otherwise k with length_nbits = 2 + 2k *)

Inductive token :=
| TLit (p : px)
| TCache (key : Z)
| TCopy (len dcode : Z).      (* length in pixels, distance *code* (1..120 = plane codes) *)

Record eplan := mkeplan {
  ep_cache_bits : Z;
  ep_codes : list (list codeplan);     (* per group: green, red, blue, alpha, distance *)
  ep_tokens : list token }.

Inductive tplan :=
| TPPred (bits : Z) (sub : eplan)
| TPCross (bits : Z) (sub : eplan)
| TPSubGreen
| TPIndex (ncolors : Z) (sub : eplan).

Record plan := mkplan {
  p_w : Z; p_h : Z; p_alpha : Z;
  p_transforms : list tplan;
  p_meta : option (Z * eplan);         (* prefix bits 2..9, the meta prefix image *)
  p_main : eplan }.

(* ------------------------------------------------------------------ *)
(** * Code lengths denoted by a code plan *)

Fixpoint expand_toks (toks : list cltok) (prev : Z) : list Z :=
  match toks with
  | [] => []
  | CLlit l :: tl => l :: expand_toks tl (if l =? 0 then prev else l)
  | CLrep16 n :: tl => repeat prev (Z.to_nat n) ++ expand_toks tl prev
  | CLrep17 n :: tl => repeat 0 (Z.to_nat n) ++ expand_toks tl prev
  | CLrep18 n :: tl => repeat 0 (Z.to_nat n) ++ expand_toks tl prev
  end.

Definition pad_to (n : nat) (l : list Z) : list Z := l ++ repeat 0 (n - length l).

Definition code_lens (alphabet : Z) (cp : codeplan) : list Z :=
  match cp with
  | CSimple syms =>
    fold_left (fun l s => set_nth (Z.to_nat s) 1 l) syms (repeat 0 (Z.to_nat alphabet))
  | CNormal _ _ _ toks => pad_to (Z.to_nat alphabet) (expand_toks toks 8)
  end.

(* ------------------------------------------------------------------ *)
(** * Canonical code words: [Vp8lCanon.code_list] (symbol, code word) pairs *)

Definition code_table (lens : list Z) : list (Z * bits) := code_list lens.
Definition code_word (tab : list (Z * bits)) (sym : Z) : bits := lookup_code tab sym.

(* ------------------------------------------------------------------ *)
(** * Emitting one prefix code *)

Definition putZ (n v : Z) : bits := put_bits (Z.to_nat n) v.

Definition emit_cltok (cltab : list (Z * bits)) (t : cltok) : bits :=
  match t with
  | CLlit l => code_word cltab l
  | CLrep16 n => code_word cltab 16 ++ putZ 2 (n - 3)
  | CLrep17 n => code_word cltab 17 ++ putZ 3 (n - 3)
  | CLrep18 n => code_word cltab 18 ++ putZ 7 (n - 11)
  end.

Definition emit_code (cp : codeplan) : bits :=
  match cp with
  | CSimple [s0] =>
    [true; false] ++ (if s0 <? 2 then false :: putZ 1 s0 else true :: putZ 8 s0)
  | CSimple (s0 :: s1 :: _) =>
    [true; true] ++ (if s0 <? 2 then false :: putZ 1 s0 else true :: putZ 8 s0) ++ putZ 8 s1
  | CSimple [] => []      (* not well formed *)
  | CNormal ncl cl usemax toks =>
    let cltab := code_table cl in
    [false] ++ putZ 4 (ncl - 4)
    ++ flat_map (fun o => putZ 3 (nth (Z.to_nat o) cl 0)) (firstn (Z.to_nat ncl) code_length_order)
    ++ (if usemax <? 0 then [false]
        else [true] ++ putZ 3 usemax ++ putZ (2 + 2 * usemax) (Z.of_nat (length toks) - 2))
    ++ flat_map (emit_cltok cltab) toks
  end.

(* ------------------------------------------------------------------ *)
(** * LZ77 prefix coding of a length / distance value >= 1 *)

Definition lz_prefix (v : Z) : Z * Z * Z :=      (* (symbol, extra bits, extra value) *)
  let d := v - 1 in
  if d <? 2 then (d, 0, 0)
  else
    let hb := Z.log2 d in
    let shb := Z.shiftr d (hb - 1) mod 2 in
    let eb := hb - 1 in
    (2 * hb + shb, eb, d mod 2 ^ eb).

(* ------------------------------------------------------------------ *)
(** * Replaying tokens (the pixels an entropy-coded image denotes) *)

Fixpoint replay (cb w : Z) (toks : list token) (cache : arr px) (acc : list px) : list px :=
  match toks with
  | [] => acc
  | TLit p :: tl => replay cb w tl (cache_insert cb cache p) (p :: acc)
  | TCache k :: tl =>
    let p := arr_get px_zero cache k in
    replay cb w tl (cache_insert cb cache p) (p :: acc)
  | TCopy len dc :: tl =>
    let new := copy_pixels (Z.to_nat len) (Z.to_nat (plane_to_dist w dc)) acc in
    replay cb w tl (fold_left (cache_insert cb) new cache) (rev_append new acc)
  end.

Definition sem_eimg (w : Z) (ep : eplan) : list px :=
  frev (replay (ep_cache_bits ep) w (ep_tokens ep) arr_empty []).

(* ------------------------------------------------------------------ *)
(** * Emitting an entropy-coded image *)

Definition alphabets (cb : Z) : list Z := [280 + cache_size_of cb; 256; 256; 256; 40].

(** the five code tables of one group *)
Definition group_tables (cb : Z) (g : list codeplan) : list (list (Z * bits)) :=
  map (fun '(a, cp) => code_table (code_lens a cp)) (combine (alphabets cb) g).

Definition tab_k (g : list (list (Z * bits))) (k : nat) : list (Z * bits) := nth k g [].

Definition emit_token (g : list (list (Z * bits))) (t : token) : bits :=
  match t with
  | TLit p =>
    code_word (tab_k g 0) (pg p) ++ code_word (tab_k g 1) (pr p)
    ++ code_word (tab_k g 2) (pb p) ++ code_word (tab_k g 3) (pa p)
  | TCache k => code_word (tab_k g 0) (280 + k)
  | TCopy len dc =>
    let '(ls, lxb, lxv) := lz_prefix len in
    let '(ds, deb, dev) := lz_prefix dc in
    code_word (tab_k g 0) (256 + ls) ++ putZ lxb lxv
    ++ code_word (tab_k g 4) ds ++ putZ deb dev
  end.

Definition token_len (t : token) : Z := match t with TCopy len _ => len | _ => 1 end.

(** [gidx x y] = group of the token that starts at (x, y). *)
Fixpoint emit_tokens (w : Z) (gidx : Z -> Z -> Z) (tabs : arr (list (list (Z * bits))))
         (toks : list token) (pos : Z) : bits :=
  match toks with
  | [] => []
  | t :: tl =>
    emit_token (arr_get [] tabs (gidx (pos mod w) (pos / w))) t
    ++ emit_tokens w gidx tabs tl (pos + token_len t)
  end.

Definition emit_cache_bits (cb : Z) : bits := if cb =? 0 then [false] else true :: putZ 4 cb.

Definition emit_codes (ep : eplan) : bits := flat_map (flat_map emit_code) (ep_codes ep).

Definition all_tables (ep : eplan) : arr (list (list (Z * bits))) :=
  arr_of_list (map (group_tables (ep_cache_bits ep)) (ep_codes ep)).

(** a sub-image: colour cache info, one group, tokens *)
Definition emit_sub (w : Z) (ep : eplan) : bits :=
  emit_cache_bits (ep_cache_bits ep) ++ emit_codes ep
  ++ emit_tokens w (fun _ _ => 0) (all_tables ep) (ep_tokens ep) 0.

(* ------------------------------------------------------------------ *)
(** * Whole stream *)

Definition tplan_type (t : tplan) : Z :=
  match t with TPPred _ _ => 0 | TPCross _ _ => 1 | TPSubGreen => 2 | TPIndex _ _ => 3 end.

(** transforms: bits, and the width the following items see *)
Fixpoint emit_transforms (ts : list tplan) (cw h : Z) : bits * Z :=
  match ts with
  | [] => ([], cw)
  | t :: tl =>
    let '(b, cw') :=
      match t with
      | TPPred bits sub => (putZ 3 (bits - 2) ++ emit_sub (subsample cw bits) sub, cw)
      | TPCross bits sub => (putZ 3 (bits - 2) ++ emit_sub (subsample cw bits) sub, cw)
      | TPSubGreen => ([], cw)
      | TPIndex n sub => (putZ 8 (n - 1) ++ emit_sub n sub, subsample cw (ci_bits n))
      end in
    let '(rest, cwf) := emit_transforms tl cw' h in
    (true :: putZ 2 (tplan_type t) ++ b ++ rest, cwf)
  end.

Definition emit_bits (p : plan) : bits :=
  let '(tb, cw) := emit_transforms (p_transforms p) (p_w p) (p_h p) in
  let main := p_main p in
  putZ 14 (p_w p - 1) ++ putZ 14 (p_h p - 1) ++ putZ 1 (p_alpha p) ++ putZ 3 0
  ++ tb ++ [false]
  ++ emit_cache_bits (ep_cache_bits main)
  ++ match p_meta p with
     | None =>
       [false] ++ emit_codes main
       ++ emit_tokens cw (fun _ _ => 0) (all_tables main) (ep_tokens main) 0
     | Some (mb, msub) =>
       let mw := subsample cw mb in
       let meta := arr_of_list (map meta_index (sem_eimg mw msub)) in
       [true] ++ putZ 3 (mb - 2) ++ emit_sub mw msub
       ++ emit_codes main
       ++ emit_tokens cw (fun x y => arr_get 0 meta (tile_index mw mb x y)) (all_tables main) (ep_tokens main) 0
     end.

Definition emit (p : plan) : list Z := 47 :: bytes_of_bits (emit_bits p).

(** The transforms a plan denotes, as the decoder would have stored them. *)
Fixpoint sem_transforms (ts : list tplan) (cw h : Z) : list transform * Z :=
  match ts with
  | [] => ([], cw)
  | t :: tl =>
    let '(tr, cw') :=
      match t with
      | TPPred bits sub => (mktransform 0 bits cw h (sem_eimg (subsample cw bits) sub), cw)
      | TPCross bits sub => (mktransform 1 bits cw h (sem_eimg (subsample cw bits) sub), cw)
      | TPSubGreen => (mktransform 2 0 cw h [], cw)
      | TPIndex n sub =>
        (mktransform 3 (ci_bits n) cw h (undelta px_zero (sem_eimg n sub)), subsample cw (ci_bits n))
      end in
    let '(rest, cwf) := sem_transforms tl cw' h in
    (tr :: rest, cwf)
  end.

(** The pixels a plan denotes. *)
Definition sem (p : plan) : image :=
  let '(ts, cw) := sem_transforms (p_transforms p) (p_w p) (p_h p) in
  mkimage (p_w p) (p_h p) (apply_inverse ts (sem_eimg cw (p_main p))).

(* ------------------------------------------------------------------ *)
(** * The theorem the emitter and the specification decoder are meant to satisfy
      (stated; proved on a generated example only — the harness evaluates it on
      every generated plan, see harness/c03). *)

Definition emit_decode_statement (wf_plan : plan -> Prop) : Prop :=
  forall p, wf_plan p -> decode (emit p) = Ok (sem p).

(** A generated plan with three transforms (predictor, colour indexing without
    packing, cross-colour), a meta prefix image with several groups, colour cache,
    cache and copy tokens, simple and normal codes with run-length tokens. *)
Definition ex_plan : plan :=
  mkplan 4 5 0
  [TPPred 8 (mkeplan 0
    [[CNormal 19 [5; 0; 0; 0; 6; 4; 6; 5; 2; 5; 4; 6; 3; 5; 6; 4; 0; 2; 0] (-1) [CLlit 0; CLlit 14; CLlit 14; CLlit 11; CLlit 10; CLlit 12; CLlit 0; CLlit 11; CLlit 10; CLlit 9; CLlit 10; CLlit 11; CLlit 10; CLlit 0; CLlit 13; CLlit 0; CLlit 12; CLrep17 4; CLlit 11; CLlit 0; CLlit 5; CLlit 0; CLlit 5; CLlit 10; CLlit 11; CLrep17 4; CLlit 8; CLrep17 3; CLlit 10; CLlit 13; CLlit 12; CLlit 10; CLlit 10; CLlit 0; CLlit 0; CLlit 5; CLlit 0; CLlit 11; CLlit 10; CLlit 11; CLrep17 3; CLlit 5; CLlit 13; CLlit 10; CLlit 10; CLlit 11; CLlit 9; CLlit 13; CLlit 0; CLlit 7; CLlit 6; CLlit 10; CLlit 7; CLlit 11; CLlit 10; CLlit 7; CLlit 8; CLlit 0; CLlit 10; CLlit 5; CLlit 11; CLlit 11; CLlit 9; CLlit 14; CLlit 0; CLlit 5; CLlit 11; CLlit 0; CLlit 11; CLlit 4; CLlit 8; CLlit 12; CLlit 11; CLrep17 3; CLlit 0; CLlit 9; CLlit 5; CLlit 8; CLlit 7; CLlit 0; CLlit 7; CLlit 0; CLlit 5; CLlit 8; CLlit 9; CLlit 0; CLlit 0; CLlit 11; CLlit 0; CLlit 0; CLlit 12; CLlit 8; CLlit 8; CLlit 14; CLlit 13; CLlit 12; CLlit 8; CLlit 12; CLlit 6; CLlit 0; CLlit 11; CLlit 8; CLlit 9; CLlit 7; CLlit 0; CLlit 0; CLlit 6; CLlit 6; CLlit 11; CLlit 10; CLlit 0; CLlit 7; CLlit 13; CLlit 12; CLlit 7; CLlit 0; CLlit 10; CLlit 14; CLrep17 3; CLlit 8; CLlit 13; CLlit 9; CLlit 0; CLlit 10; CLlit 12; CLlit 10; CLlit 0; CLlit 13; CLlit 12; CLrep17 3; CLlit 12; CLlit 7; CLlit 0; CLlit 0; CLlit 13; CLlit 11; CLlit 11; CLlit 11; CLlit 0; CLlit 6; CLlit 0; CLlit 8; CLlit 0; CLlit 8; CLlit 13; CLlit 0; CLlit 13; CLlit 14; CLlit 0; CLlit 0; CLlit 12; CLlit 9; CLlit 0; CLlit 14; CLlit 0; CLlit 11; CLlit 10; CLlit 0; CLlit 11; CLlit 7; CLlit 11; CLlit 9; CLlit 0; CLlit 14; CLlit 12; CLlit 0; CLlit 0; CLlit 7; CLlit 11; CLlit 11; CLlit 0; CLlit 0; CLlit 8; CLlit 5; CLlit 13; CLlit 10; CLlit 11; CLlit 11; CLlit 14; CLlit 8; CLlit 9; CLlit 5; CLlit 6; CLlit 11; CLlit 5; CLrep17 4; CLlit 12; CLlit 8; CLlit 12; CLlit 11; CLlit 9; CLlit 12; CLlit 10; CLlit 0; CLlit 0; CLlit 8; CLlit 15; CLlit 0; CLlit 4; CLlit 12; CLrep17 3; CLlit 8; CLlit 4; CLrep17 3; CLlit 8; CLlit 13; CLrep17 4; CLlit 11; CLlit 13; CLlit 0; CLlit 8; CLlit 0; CLlit 0; CLlit 12; CLlit 11; CLlit 11; CLlit 5; CLlit 0; CLlit 0; CLlit 12; CLlit 8; CLlit 5; CLlit 11; CLlit 7; CLlit 13; CLlit 0; CLlit 10; CLlit 13; CLlit 5; CLlit 10; CLlit 11; CLlit 10; CLlit 13; CLlit 12; CLrep17 3; CLlit 0; CLlit 12; CLlit 0; CLlit 0; CLlit 9; CLlit 10; CLlit 10; CLlit 0; CLlit 6; CLlit 0; CLlit 9; CLlit 15; CLlit 0; CLlit 9; CLlit 11; CLlit 11; CLlit 6];
      CSimple [184; 112];
      CSimple [200];
      CSimple [32];
      CSimple [21; 26]]]
    [TLit (mkpx 32 184 5 200)]);
   TPIndex 151 (mkeplan 0
    [[CNormal 19 [7; 0; 0; 7; 5; 7; 7; 3; 7; 7; 3; 7; 2; 6; 7; 3; 2; 7; 7] (3) [CLlit 14; CLlit 9; CLlit 0; CLlit 10; CLrep17 3; CLlit 0; CLlit 11; CLlit 12; CLlit 0; CLlit 8; CLlit 0; CLlit 11; CLlit 0; CLlit 0; CLlit 0; CLlit 9; CLlit 7; CLlit 0; CLlit 7; CLlit 0; CLlit 7; CLlit 0; CLlit 5; CLlit 13; CLlit 13; CLlit 5; CLlit 0; CLlit 13; CLlit 5; CLlit 0; CLlit 0; CLlit 9; CLlit 0; CLlit 12; CLlit 6; CLlit 0; CLlit 0; CLlit 6; CLlit 10; CLlit 0; CLlit 8; CLlit 6; CLrep17 4; CLlit 7; CLlit 0; CLlit 11; CLlit 0; CLlit 0; CLlit 9; CLlit 13; CLlit 0; CLlit 12; CLlit 0; CLlit 14; CLlit 0; CLlit 8; CLlit 0; CLlit 12; CLlit 9; CLlit 0; CLlit 0; CLlit 0; CLlit 12; CLlit 5; CLlit 0; CLlit 13; CLlit 8; CLlit 9; CLlit 0; CLlit 0; CLlit 6; CLlit 0; CLlit 11; CLlit 12; CLlit 11; CLlit 0; CLlit 12; CLlit 9; CLlit 0; CLlit 12; CLlit 0; CLlit 0; CLlit 13; CLrep17 3; CLlit 0; CLlit 13; CLlit 0; CLlit 0; CLlit 9; CLlit 11; CLlit 0; CLlit 0; CLlit 9; CLlit 9; CLlit 11; CLlit 0; CLlit 0; CLlit 9; CLlit 0; CLlit 7; CLlit 9; CLlit 13; CLlit 11; CLlit 14; CLlit 10; CLlit 0; CLrep17 5; CLlit 5; CLlit 0; CLlit 15; CLlit 3; CLlit 0; CLlit 0; CLlit 13; CLlit 0; CLlit 8; CLlit 0; CLlit 0; CLlit 7; CLlit 9; CLlit 5; CLrep17 5; CLlit 0; CLlit 0; CLlit 9; CLlit 6; CLlit 0; CLlit 0; CLlit 14; CLlit 0; CLlit 6; CLlit 10; CLrep17 3; CLlit 9; CLrep17 5; CLlit 7; CLlit 15; CLlit 11; CLlit 0; CLlit 13; CLlit 0; CLlit 0; CLlit 12; CLlit 0; CLlit 10; CLlit 0; CLlit 0; CLlit 5; CLlit 0; CLlit 13; CLlit 0; CLlit 0; CLrep17 7; CLlit 7; CLlit 0; CLlit 5; CLlit 0; CLlit 5; CLlit 0; CLlit 0; CLlit 5; CLlit 3; CLlit 12; CLlit 0; CLlit 0; CLlit 11; CLlit 11; CLlit 0; CLlit 13; CLlit 10; CLrep17 3; CLlit 8; CLlit 0; CLlit 0; CLlit 7; CLlit 0; CLlit 4; CLlit 0; CLlit 5; CLlit 7; CLlit 0; CLlit 9; CLrep17 5; CLlit 11; CLlit 0; CLlit 0; CLlit 6; CLlit 7; CLlit 11; CLlit 5; CLlit 8; CLrep17 3; CLlit 10; CLlit 8; CLlit 7; CLlit 9; CLlit 0; CLlit 10; CLlit 9; CLlit 0; CLrep17 3; CLlit 7; CLlit 0; CLlit 8; CLlit 14; CLlit 9; CLlit 13; CLlit 10; CLlit 0; CLlit 0; CLlit 8; CLlit 9; CLlit 8; CLrep18 11];
      CSimple [65; 101];
      CSimple [254];
      CSimple [68];
      CSimple [24; 13]]]
    [TLit (mkpx 68 65 84 254); TLit (mkpx 68 65 243 254); TLit (mkpx 68 65 210 254); TLit (mkpx 68 65 70 254); TLit (mkpx 68 65 62 254); TLit (mkpx 68 65 156 254); TLit (mkpx 68 65 205 254); TLit (mkpx 68 65 184 254); TLit (mkpx 68 65 50 254); TLit (mkpx 68 65 109 254); TLit (mkpx 68 65 30 254); TLit (mkpx 68 65 24 254); TLit (mkpx 68 65 27 254); TLit (mkpx 68 65 92 254); TLit (mkpx 68 65 249 254); TLit (mkpx 68 65 189 254); TLit (mkpx 68 65 111 254); TLit (mkpx 68 65 180 254); TLit (mkpx 68 65 8 254); TLit (mkpx 68 65 244 254); TLit (mkpx 68 65 160 254); TLit (mkpx 68 65 35 254); TLit (mkpx 68 65 78 254); TLit (mkpx 68 65 26 254); TLit (mkpx 68 65 50 254); TLit (mkpx 68 65 140 254); TLit (mkpx 68 65 40 254); TLit (mkpx 68 65 241 254); TLit (mkpx 68 65 96 254); TLit (mkpx 68 65 223 254); TLit (mkpx 68 65 126 254); TLit (mkpx 68 65 163 254); TLit (mkpx 68 65 25 254); TLit (mkpx 68 65 72 254); TLit (mkpx 68 65 227 254); TLit (mkpx 68 65 106 254); TLit (mkpx 68 65 238 254); TLit (mkpx 68 65 220 254); TLit (mkpx 68 65 1 254); TLit (mkpx 68 65 120 254); TLit (mkpx 68 65 0 254); TLit (mkpx 68 65 193 254); TLit (mkpx 68 65 216 254); TLit (mkpx 68 65 220 254); TLit (mkpx 68 65 11 254); TLit (mkpx 68 65 20 254); TLit (mkpx 68 65 200 254); TLit (mkpx 68 65 9 254); TLit (mkpx 68 65 11 254); TLit (mkpx 68 65 111 254); TLit (mkpx 68 65 180 254); TLit (mkpx 68 65 196 254); TLit (mkpx 68 65 230 254); TLit (mkpx 68 65 165 254); TLit (mkpx 68 65 36 254); TLit (mkpx 68 65 188 254); TLit (mkpx 68 65 29 254); TLit (mkpx 68 65 22 254); TLit (mkpx 68 65 71 254); TLit (mkpx 68 65 232 254); TLit (mkpx 68 65 189 254); TLit (mkpx 68 65 205 254); TLit (mkpx 68 65 240 254); TLit (mkpx 68 65 143 254); TLit (mkpx 68 65 158 254); TLit (mkpx 68 65 228 254); TLit (mkpx 68 65 139 254); TLit (mkpx 68 65 221 254); TLit (mkpx 68 65 68 254); TLit (mkpx 68 65 87 254); TLit (mkpx 68 65 60 254); TLit (mkpx 68 65 203 254); TLit (mkpx 68 65 42 254); TLit (mkpx 68 65 120 254); TLit (mkpx 68 65 72 254); TLit (mkpx 68 65 130 254); TLit (mkpx 68 65 229 254); TLit (mkpx 68 65 87 254); TLit (mkpx 68 65 146 254); TLit (mkpx 68 65 107 254); TLit (mkpx 68 65 146 254); TLit (mkpx 68 65 222 254); TLit (mkpx 68 65 33 254); TLit (mkpx 68 65 121 254); TLit (mkpx 68 65 101 254); TLit (mkpx 68 65 219 254); TLit (mkpx 68 65 53 254); TLit (mkpx 68 65 118 254); TLit (mkpx 68 65 208 254); TLit (mkpx 68 65 78 254); TLit (mkpx 68 65 79 254); TLit (mkpx 68 65 131 254); TLit (mkpx 68 65 95 254); TLit (mkpx 68 65 182 254); TLit (mkpx 68 65 129 254); TLit (mkpx 68 65 68 254); TLit (mkpx 68 65 248 254); TLit (mkpx 68 65 108 254); TLit (mkpx 68 65 17 254); TLit (mkpx 68 65 131 254); TLit (mkpx 68 65 207 254); TLit (mkpx 68 65 189 254); TLit (mkpx 68 65 77 254); TLit (mkpx 68 65 104 254); TLit (mkpx 68 65 126 254); TLit (mkpx 68 65 157 254); TLit (mkpx 68 65 131 254); TLit (mkpx 68 65 42 254); TLit (mkpx 68 65 168 254); TLit (mkpx 68 65 58 254); TLit (mkpx 68 65 82 254); TLit (mkpx 68 65 187 254); TLit (mkpx 68 65 124 254); TLit (mkpx 68 65 18 254); TLit (mkpx 68 65 100 254); TLit (mkpx 68 65 20 254); TLit (mkpx 68 65 216 254); TLit (mkpx 68 65 67 254); TLit (mkpx 68 65 48 254); TLit (mkpx 68 65 39 254); TLit (mkpx 68 65 56 254); TLit (mkpx 68 65 39 254); TLit (mkpx 68 65 242 254); TLit (mkpx 68 65 229 254); TLit (mkpx 68 65 43 254); TLit (mkpx 68 65 232 254); TLit (mkpx 68 65 195 254); TLit (mkpx 68 65 13 254); TLit (mkpx 68 65 3 254); TLit (mkpx 68 65 240 254); TLit (mkpx 68 65 99 254); TLit (mkpx 68 65 63 254); TLit (mkpx 68 65 170 254); TLit (mkpx 68 65 75 254); TLit (mkpx 68 65 184 254); TLit (mkpx 68 65 35 254); TLit (mkpx 68 65 150 254); TLit (mkpx 68 65 192 254); TLit (mkpx 68 65 233 254); TLit (mkpx 68 65 11 254); TLit (mkpx 68 65 81 254); TLit (mkpx 68 65 247 254); TLit (mkpx 68 65 39 254); TLit (mkpx 68 65 95 254); TLit (mkpx 68 65 168 254); TLit (mkpx 68 65 131 254); TLit (mkpx 68 65 243 254); TLit (mkpx 68 65 110 254); TLit (mkpx 68 65 145 254); TLit (mkpx 68 65 54 254); TLit (mkpx 68 65 99 254)]);
   TPCross 9 (mkeplan 11
    [[CSimple [16; 154];
      CSimple [170; 146];
      CSimple [125; 66];
      CNormal 14 [2; 2; 0; 0; 0; 0; 0; 0; 0; 0; 3; 0; 0; 0; 0; 0; 0; 2; 3] (-1) [CLrep18 17; CLrep18 88; CLrep18 41; CLrep17 3; CLrep18 17; CLrep17 5; CLlit 0; CLrep17 3; CLlit 0; CLlit 1; CLrep18 38; CLrep17 6; CLlit 0; CLlit 0; CLlit 1; CLrep18 29; CLrep17 3];
      CSimple [17]]]
    [TLit (mkpx 223 170 16 66)])]
  (Some (5, (mkeplan 0
    [[CSimple [1];
      CSimple [131; 0];
      CSimple [80; 31];
      CNormal 15 [2; 0; 5; 5; 3; 4; 6; 3; 7; 2; 6; 7; 0; 0; 0; 0; 7; 7; 4] (-1) [CLrep17 7; CLrep18 12; CLlit 8; CLlit 0; CLrep17 3; CLlit 4; CLrep17 4; CLrep17 4; CLlit 0; CLlit 0; CLlit 9; CLrep17 5; CLlit 5; CLlit 5; CLrep18 15; CLlit 7; CLlit 2; CLrep18 27; CLrep17 10; CLlit 7; CLrep17 7; CLlit 7; CLrep18 17; CLrep17 3; CLlit 0; CLlit 0; CLlit 7; CLlit 4; CLrep17 3; CLlit 0; CLlit 5; CLrep18 16; CLlit 0; CLlit 7; CLrep17 5; CLlit 9; CLrep18 13; CLlit 4; CLrep18 11; CLrep17 3; CLlit 5; CLrep17 8; CLlit 0; CLlit 0; CLlit 5; CLrep17 5; CLlit 0; CLlit 0; CLlit 6; CLrep17 3; CLrep17 6; CLlit 0; CLlit 4; CLrep17 6; CLrep17 3; CLlit 6; CLrep17 5; CLlit 7; CLrep18 11; CLlit 2; CLrep17 3; CLrep17 3; CLlit 7; CLrep17 3];
      CSimple [26; 19]]]
    [TLit (mkpx 105 0 1 31)])))
  (mkeplan 6
    [[CSimple [66; 221];
      CSimple [6];
      CSimple [202];
      CSimple [21];
      CSimple [2; 15]];
     [CNormal 19 [7; 0; 0; 3; 0; 3; 4; 6; 4; 7; 4; 3; 0; 0; 0; 5; 0; 3; 2] (6) [CLrep17 3; CLrep17 3; CLlit 3; CLlit 0; CLlit 6; CLrep17 4; CLrep17 3; CLlit 5; CLlit 0; CLlit 9; CLrep17 4; CLlit 3; CLlit 5; CLrep18 20; CLlit 0; CLlit 9; CLlit 0; CLlit 9; CLlit 0; CLlit 5; CLlit 0; CLlit 9; CLlit 0; CLlit 0; CLlit 5; CLrep18 11; CLrep17 6; CLlit 0; CLlit 7; CLrep17 3; CLlit 3; CLlit 0; CLlit 0; CLlit 9; CLrep17 3; CLlit 9; CLrep17 3; CLlit 5; CLlit 0; CLlit 8; CLrep17 5; CLlit 0; CLlit 0; CLlit 8; CLrep17 3; CLlit 6; CLlit 0; CLlit 10; CLrep17 3; CLrep17 4; CLlit 6; CLlit 0; CLlit 0; CLlit 9; CLlit 0; CLlit 0; CLlit 8; CLlit 0; CLlit 0; CLlit 0; CLlit 0; CLlit 8; CLlit 7; CLrep18 22; CLlit 0; CLlit 0; CLlit 6; CLlit 9; CLlit 0; CLlit 0; CLlit 7; CLrep18 13; CLrep17 6; CLlit 0; CLlit 0; CLlit 7; CLlit 0; CLlit 0; CLrep17 7; CLlit 5; CLrep17 5; CLrep17 4; CLlit 3; CLrep17 4; CLlit 7; CLrep17 4; CLlit 0; CLlit 9; CLrep17 8; CLrep17 6; CLlit 0; CLlit 11; CLrep17 3; CLlit 8; CLlit 0; CLlit 0; CLlit 11; CLrep17 7; CLrep17 5; CLlit 0; CLlit 7; CLrep18 11; CLlit 8; CLlit 6; CLlit 0; CLlit 0; CLlit 6; CLlit 0; CLlit 7; CLlit 0; CLrep17 6; CLlit 7; CLlit 0; CLlit 7; CLrep18 11; CLlit 7; CLlit 0; CLlit 0; CLlit 9; CLrep17 3; CLrep17 5; CLlit 0; CLlit 8; CLlit 9; CLlit 0; CLrep17 3; CLlit 0; CLlit 0; CLlit 6; CLlit 7; CLlit 0; CLlit 0; CLlit 5; CLrep17 3; CLlit 8; CLrep17 4; CLrep17 3; CLlit 8; CLrep17 3; CLlit 0; CLlit 9; CLrep17 3; CLlit 10; CLlit 7; CLrep17 3; CLlit 0; CLlit 6; CLrep17 3; CLlit 10];
      CSimple [150];
      CSimple [221; 215];
      CSimple [140];
      CSimple [13; 14]]]
    [TCache 7; TCopy 1 121; TCopy 2 122; TCopy 6 123; TCopy 9 126; TCopy 1 137]).

Example emit_decode_example : decode (emit ex_plan) = Ok (sem ex_plan).
Proof. vm_compute. reflexivity. Qed.
