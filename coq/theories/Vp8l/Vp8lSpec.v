(** Executable specification decoder for VP8L, written from the WebP lossless
    bitstream specification (RFC 9649 §3-§7), not from the Go code:
    header, transforms (any order, each at most once), colour cache, meta prefix
    image, prefix codes, the entropy loop with LZ77 backward references and the
    120 short distance codes, inverse transforms in reverse order, each producing
    a fresh image ("separate buffers").  [decode] is what property C03 calls
    "the pixels the format defines". *)
From Coq Require Import List ZArith Lia Bool.
From Coq Require Import ZifyBool ZifyNat.
From Webp Require Import Base.Res Vp8l.Vp8lPixel Vp8l.Vp8lArr Vp8l.Vp8lPrefix Vp8l.Vp8lTransforms.
Import ListNotations.
Open Scope Z_scope.

Ltac Zify.zify_post_hook ::= Z.div_mod_to_equations.

(* ------------------------------------------------------------------ *)
(** * LZ77 prefix coding and the distance map *)

(** Value of a length / distance prefix symbol plus its extra bits (§5.2.2). *)
Definition lz_value (prefix : Z) (s : bits) : Res (Z * bits) :=
  if prefix <? 4 then Ok (prefix + 1, s)
  else
    let eb := (prefix - 2) / 2 in
    let off := (2 + prefix mod 2) * 2 ^ eb in
    '(x, s) <- read_bitsZ eb s ;;
    Ok (off + x + 1, s).

(** The (xi, yi) neighbourhood of the 120 smallest distance codes (§5.2.2). *)
Definition plane_lut : list (Z * Z) :=
  [(0, 1); (1, 0); (1, 1); (-1, 1); (0, 2); (2, 0); (1, 2); (-1, 2); (2, 1); (-2, 1);
   (2, 2); (-2, 2); (0, 3); (3, 0); (1, 3); (-1, 3); (3, 1); (-3, 1); (2, 3); (-2, 3);
   (3, 2); (-3, 2); (0, 4); (4, 0); (1, 4); (-1, 4); (4, 1); (-4, 1); (3, 3); (-3, 3);
   (2, 4); (-2, 4); (4, 2); (-4, 2); (0, 5); (3, 4); (-3, 4); (4, 3); (-4, 3); (5, 0);
   (1, 5); (-1, 5); (5, 1); (-5, 1); (2, 5); (-2, 5); (5, 2); (-5, 2); (4, 4); (-4, 4);
   (3, 5); (-3, 5); (5, 3); (-5, 3); (0, 6); (6, 0); (1, 6); (-1, 6); (6, 1); (-6, 1);
   (2, 6); (-2, 6); (6, 2); (-6, 2); (4, 5); (-4, 5); (5, 4); (-5, 4); (3, 6); (-3, 6);
   (6, 3); (-6, 3); (0, 7); (7, 0); (1, 7); (-1, 7); (5, 5); (-5, 5); (7, 1); (-7, 1);
   (4, 6); (-4, 6); (6, 4); (-6, 4); (2, 7); (-2, 7); (7, 2); (-7, 2); (3, 7); (-3, 7);
   (7, 3); (-7, 3); (5, 6); (-5, 6); (6, 5); (-6, 5); (8, 0); (4, 7); (-4, 7); (7, 4);
   (-7, 4); (8, 1); (8, 2); (6, 6); (-6, 6); (8, 3); (5, 7); (-5, 7); (7, 5); (-7, 5);
   (8, 4); (6, 7); (-6, 7); (7, 6); (-7, 6); (8, 5); (7, 7); (-7, 7); (8, 6); (8, 7)].

(** Distance code -> distance in pixels for an image of width [w]. *)
Definition plane_to_dist (w code : Z) : Z :=
  if 120 <? code then code - 120
  else
    let '(dx, dy) := nth (Z.to_nat (code - 1)) plane_lut (0, 0) in
    let d := dx + dy * w in
    if d <? 1 then 1 else d.

(** Backward reference, as the format defines it: [n] times, append the pixel
    [d] positions back ([acc] = pixels so far, most recent first). *)
Fixpoint copy_step (n d : nat) (acc : list px) : list px :=
  match n with
  | O => acc
  | S n' => copy_step n' d (nth (d - 1) acc px_zero :: acc)
  end.

(** The same sequence computed from the period: the [d] source pixels repeat. *)
Fixpoint cycle_take (n : nat) (cur src : list px) : list px :=
  match n with
  | O => []
  | S n' =>
    match cur with
    | x :: tl => x :: cycle_take n' tl src
    | [] => match src with
            | x :: tl => x :: cycle_take n' tl src
            | [] => []
            end
    end
  end.

(** new pixels of a copy, in scan order *)
Definition copy_pixels (n d : nat) (acc : list px) : list px :=
  let src := frev (firstn d acc) in cycle_take n src src.

(* ------------------------------------------------------------------ *)
(** * Entropy-coded images *)

Record group := mkgroup { g_green : tree; g_red : tree; g_blue : tree; g_alpha : tree; g_dist : tree }.
Definition group_dummy : group := mkgroup Hole Hole Hole Hole Hole.

Definition read_group (cache_size : Z) (s : bits) : Res (group * bits) :=
  '(tg, s) <- read_code (256 + 24 + cache_size) s ;;
  '(tr, s) <- read_code 256 s ;;
  '(tb, s) <- read_code 256 s ;;
  '(ta, s) <- read_code 256 s ;;
  '(td, s) <- read_code 40 s ;;
  Ok (mkgroup tg tr tb ta td, s).

Fixpoint read_groups (n : nat) (cache_size : Z) (acc : list group) (s : bits) : Res (list group * bits) :=
  match n with
  | O => Ok (frev acc, s)
  | S n' => '(g, s) <- read_group cache_size s ;; read_groups n' cache_size (g :: acc) s
  end.

Record ectx := mkectx {
  e_w : Z;                 (* width of the image being decoded *)
  e_cache_bits : Z;        (* 0 = no colour cache *)
  e_meta_bits : Z;         (* 0 = single group *)
  e_meta_w : Z;            (* width of the meta prefix image *)
  e_meta : arr Z;          (* group index per meta pixel *)
  e_groups : arr group }.

Definition group_at (c : ectx) (x y : Z) : group :=
  if e_meta_bits c =? 0 then arr_get group_dummy (e_groups c) 0
  else
    let b := e_meta_bits c in
    arr_get group_dummy (e_groups c) (arr_get 0 (e_meta c) (tile_index (e_meta_w c) b x y)).

Definition cache_insert (bits : Z) (cache : arr px) (p : px) : arr px :=
  if bits =? 0 then cache else arr_set cache (cache_hash bits p) p.

(** One iteration per token; every token yields at least one pixel, so
    [S total] iterations always suffice. *)
Fixpoint pixels_loop (fuel : nat) (c : ectx) (total pos x y : Z) (cache : arr px)
         (acc : list px) (s : bits) : Res (list px * bits) :=
  match fuel with
  | O => Err E_FUEL
  | S f =>
    if total <=? pos then Ok (acc, s) else
    let g := group_at c x y in
    '(sym, s) <- read_symbol (g_green g) s ;;
    if sym <? 256 then
      '(r, s) <- read_symbol (g_red g) s ;;
      '(b, s) <- read_symbol (g_blue g) s ;;
      '(a, s) <- read_symbol (g_alpha g) s ;;
      let p := mkpx a r sym b in
      let '(x', y') := next_xy (e_w c) x y in
      pixels_loop f c total (pos + 1) x' y' (cache_insert (e_cache_bits c) cache p) (p :: acc) s
    else if sym <? 280 then
      '(len, s) <- lz_value (sym - 256) s ;;
      '(dsym, s) <- read_symbol (g_dist g) s ;;
      '(dcode, s) <- lz_value dsym s ;;
      let dist := plane_to_dist (e_w c) dcode in
      if (pos <? dist) || (total - pos <? len) then Err E_SYNTAX else
      let new := copy_pixels (Z.to_nat len) (Z.to_nat dist) acc in
      let pos' := pos + len in
      pixels_loop f c total pos' (pos' mod e_w c) (pos' / e_w c)
                  (fold_left (cache_insert (e_cache_bits c)) new cache) (rev_append new acc) s
    else
      let p := arr_get px_zero cache (sym - 280) in
      let '(x', y') := next_xy (e_w c) x y in
      pixels_loop f c total (pos + 1) x' y' (cache_insert (e_cache_bits c) cache p) (p :: acc) s
  end.

Definition read_cache_bits (s : bits) : Res (Z * bits) :=
  '(f, s) <- read_bits 1 s ;;
  if f =? 1 then
    '(b, s) <- read_bits 4 s ;;
    if (b <? 1) || (11 <? b) then Err E_SYNTAX else Ok (b, s)
  else Ok (0, s).

Definition cache_size_of (bits : Z) : Z := if bits =? 0 then 0 else 2 ^ bits.

(** Pixels of an entropy-coded image given its context (shared by sub-images and
    the main image). *)
Definition decode_pixels (c : ectx) (w h : Z) (s : bits) : Res (list px * bits) :=
  '(acc, s) <- pixels_loop (S (Z.to_nat (w * h))) c (w * h) 0 0 0 arr_empty [] s ;;
  Ok (frev acc, s).

(** A sub-image (transform data, meta prefix image): colour cache info, one
    prefix-code group, pixels. *)
Definition decode_sub_image (w h : Z) (s : bits) : Res (list px * bits) :=
  '(cb, s) <- read_cache_bits s ;;
  '(gs, s) <- read_groups 1 (cache_size_of cb) [] s ;;
  decode_pixels (mkectx w cb 0 0 arr_empty (arr_of_list gs)) w h s.

(* ------------------------------------------------------------------ *)
(** * Transforms *)

Record transform := mktransform {
  t_type : Z;             (* 0 predictor, 1 cross-colour, 2 subtract-green, 3 colour-indexing *)
  t_bits : Z;             (* tile bits (0,1) / packing exponent (3) *)
  t_w : Z;                (* width of the image the transform produces when inverted *)
  t_h : Z;
  t_data : list px }.     (* tile data / colour table (already delta-decoded) *)

(** Colour table: entries are transmitted as differences to the previous entry. *)
Fixpoint undelta (prev : px) (l : list px) : list px :=
  match l with [] => [] | d :: tl => let p := px_add d prev in p :: undelta p tl end.

Definition read_transform (seen : list Z) (w h : Z) (s : bits) : Res (transform * Z * bits) :=
  '(ty, s) <- read_bits 2 s ;;
  if existsb (Z.eqb ty) seen then Err E_SYNTAX else
  if ty =? 2 then Ok (mktransform 2 0 w h [], w, s)
  else if ty =? 3 then
    '(n, s) <- read_bits 8 s ;;
    let ncolors := n + 1 in
    '(pal, s) <- decode_sub_image ncolors 1 s ;;
    let wb := ci_bits ncolors in
    Ok (mktransform 3 wb w h (undelta px_zero pal), subsample w wb, s)
  else
    '(b, s) <- read_bits 3 s ;;
    let bits := b + 2 in
    '(data, s) <- decode_sub_image (subsample w bits) (subsample h bits) s ;;
    if (ty =? 0) && negb (forallb (fun p => pg p <? 14) data) then Err E_SYNTAX else
    Ok (mktransform ty bits w h data, w, s).

Fixpoint read_transforms (fuel : nat) (seen : list Z) (acc : list transform) (w h : Z) (s : bits)
  : Res (list transform * Z * bits) :=
  match fuel with
  | O => Err E_SYNTAX          (* a fifth transform would repeat a type *)
  | S f =>
    '(present, s) <- read_bits 1 s ;;
    if present =? 0 then Ok (rev acc, w, s)
    else
      '(t, w', s) <- read_transform seen w h s ;;
      read_transforms f (t_type t :: seen) (t :: acc) w' h s
  end.

Definition inverse_transform (t : transform) (img : list px) : list px :=
  match t_type t with
  | 0 =>
    let a := arr_of_list (t_data t) in
    let tw := subsample (t_w t) (t_bits t) in
    predictor_inv (fun x y => pg (arr_get px_zero a (tile_index tw (t_bits t) x y))) (t_w t) (Z.to_nat (t_w t)) img
  | 1 =>
    let a := arr_of_list (t_data t) in
    let tw := subsample (t_w t) (t_bits t) in
    cross_color_inv (fun x y => arr_get px_zero a (tile_index tw (t_bits t) x y)) (t_w t) img
  | 2 => subtract_green_inv img
  | _ =>
    let a := arr_of_list (t_data t) in
    color_index_inv (arr_get px_zero a) (t_bits t) (Z.to_nat (t_w t)) (Z.to_nat (t_h t)) img
  end.

(** Inverse transforms are applied in the reverse of the order in which they
    appear in the stream ([ts] is in stream order). *)
Definition apply_inverse (ts : list transform) (img : list px) : list px :=
  fold_left (fun im t => inverse_transform t im) (rev ts) img.

(* ------------------------------------------------------------------ *)
(** * The whole stream *)

Record image := mkimage { i_w : Z; i_h : Z; i_px : list px }.

(** Everything [decode] learns on the way (used for coverage counters). *)
Record decoded := mkdecoded {
  d_w : Z; d_h : Z; d_alpha_hint : Z;
  d_transforms : list transform;
  d_cache_bits : Z; d_meta_bits : Z; d_ngroups : Z;
  d_coded : list px;        (* the entropy-coded image before inverse transforms *)
  d_px : list px }.

Definition meta_index (p : px) : Z := pr p * 256 + pg p.

Definition decode_full (bytes : list Z) : Res decoded :=
  match bytes with
  | 47 :: rest =>
    let s := bits_of_bytes rest in
    '(w1, s) <- read_bits 14 s ;;
    '(h1, s) <- read_bits 14 s ;;
    '(alpha, s) <- read_bits 1 s ;;
    '(ver, s) <- read_bits 3 s ;;
    if negb (ver =? 0) then Err E_SYNTAX else
    let w := w1 + 1 in
    let h := h1 + 1 in
    '(ts, cw, s) <- read_transforms 5 [] [] w h s ;;
    '(cb, s) <- read_cache_bits s ;;
    '(hasmeta, s) <- read_bits 1 s ;;
    '(mb, mw, meta, s) <-
       (if hasmeta =? 1 then
          '(b, s) <- read_bits 3 s ;;
          let mb := b + 2 in
          '(mi, s) <- decode_sub_image (subsample cw mb) (subsample h mb) s ;;
          Ok (mb, subsample cw mb, map meta_index mi, s)
        else Ok (0, 0, [], s)) ;;
    let ngroups := fold_left Z.max meta 0 + 1 in
    '(gs, s) <- read_groups (Z.to_nat ngroups) (cache_size_of cb) [] s ;;
    '(coded, s) <- decode_pixels (mkectx cw cb mb mw (arr_of_list meta) (arr_of_list gs)) cw h s ;;
    Ok (mkdecoded w h alpha ts cb mb ngroups coded (apply_inverse ts coded))
  | _ => Err E_SYNTAX
  end.

(** Everything up to (not including) the pixels of the main image: what the
    harness needs for its coverage counters without paying for the pixels. *)
Definition decode_header (bytes : list Z) : Res decoded :=
  match bytes with
  | 47 :: rest =>
    let s := bits_of_bytes rest in
    '(w1, s) <- read_bits 14 s ;;
    '(h1, s) <- read_bits 14 s ;;
    '(alpha, s) <- read_bits 1 s ;;
    '(ver, s) <- read_bits 3 s ;;
    if negb (ver =? 0) then Err E_SYNTAX else
    let w := w1 + 1 in
    let h := h1 + 1 in
    '(ts, cw, s) <- read_transforms 5 [] [] w h s ;;
    '(cb, s) <- read_cache_bits s ;;
    '(hasmeta, s) <- read_bits 1 s ;;
    '(mb, mw, meta, s) <-
       (if hasmeta =? 1 then
          '(b, s) <- read_bits 3 s ;;
          let mb := b + 2 in
          '(mi, s) <- decode_sub_image (subsample cw mb) (subsample h mb) s ;;
          Ok (mb, subsample cw mb, map meta_index mi, s)
        else Ok (0, 0, [], s)) ;;
    Ok (mkdecoded w h alpha ts cb mb (fold_left Z.max meta 0 + 1) [] [])
  | _ => Err E_SYNTAX
  end.

Definition decode (bytes : list Z) : Res image :=
  d <- decode_full bytes ;; Ok (mkimage (d_w d) (d_h d) (d_px d)).
