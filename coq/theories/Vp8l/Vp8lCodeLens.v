(** Transmission of one prefix code: reading what [emit_code] writes gives the
    code tree of the length vector the code plan denotes ([code_roundtrip]) —
    simple codes (one or two symbols, 1-bit or 8-bit first symbol) and normal
    codes (code-length-code lengths in the fixed order, optional max_symbol, and
    the 16/17/18 run-length tokens, themselves prefix coded). *)
From Coq Require Import List ZArith Lia Bool.
From Coq Require Import ZifyBool ZifyNat.
From Webp Require Import Base.Res Vp8l.Vp8lPixel Vp8l.Vp8lArr Vp8l.Vp8lPrefix Vp8l.Vp8lCanon Vp8l.Vp8lTransforms
  Vp8l.Vp8lSpec Vp8l.Vp8lEmit Vp8l.Vp8lEntropy.
Import ListNotations.
Open Scope Z_scope.

Ltac Zify.zify_post_hook ::= Z.div_mod_to_equations.

Definition is_ok {A} (r : Res A) : bool := match r with Ok _ => true | _ => false end.

Lemma putZ_read_nat (n : nat) v rest : 0 <= v < 2 ^ Z.of_nat n -> read_bits n (putZ (Z.of_nat n) v ++ rest) = Ok (v, rest).
Proof. intros H. unfold putZ. rewrite Nat2Z.id. now apply read_put_bits. Qed.

(* ------------------------------------------------------------------ *)
(** * Run-length tokens *)

Definition cltok_span (t : cltok) : Z :=
  match t with CLlit _ => 1 | CLrep16 n => n | CLrep17 n => n | CLrep18 n => n end.

Definition toks_span (toks : list cltok) : Z := fold_right (fun t a => cltok_span t + a) 0 toks.

Definition cltok_ok (cl : list Z) (t : cltok) : Prop :=
  match t with
  | CLlit l => 0 <= l < 16 /\ used cl l
  | CLrep16 n => 3 <= n <= 6 /\ used cl 16
  | CLrep17 n => 3 <= n <= 10 /\ used cl 17
  | CLrep18 n => 11 <= n <= 138 /\ used cl 18
  end.

Lemma expand_toks_length : forall toks prev,
  Forall (fun t => 0 <= cltok_span t) toks -> Z.of_nat (length (expand_toks toks prev)) = toks_span toks.
Proof.
  induction toks as [|t tl IH]; intros prev H; [reflexivity|].
  inversion H as [|? ? Ht Htl]; subst.
  destruct t as [l|n|n|n]; cbn [expand_toks toks_span fold_right cltok_span length] in *;
    rewrite ?app_length, ?repeat_length; fold (toks_span tl).
  - rewrite <- (IH (if l =? 0 then prev else l) Htl). lia.
  - rewrite <- (IH prev Htl). lia.
  - rewrite <- (IH prev Htl). lia.
  - rewrite <- (IH prev Htl). lia.
Qed.

Lemma rev_repeat' {A} n (v : A) : rev (repeat v n) = repeat v n.
Proof.
  induction n as [|n IH]; [reflexivity|]. cbn [repeat rev]. rewrite IH.
  clear IH. induction n as [|n IH]; [reflexivity|]. cbn [repeat app]. now rewrite IH.
Qed.

Lemma cltok_ok_span cl t : cltok_ok cl t -> 1 <= cltok_span t.
Proof. destruct t; cbn; lia. Qed.

Section Loop.
  Variable cl : list Z.
  Variable clt : tree.
  Hypothesis Hclt : tree_of_lens cl = Ok clt.
  Let cltab := code_table cl.

  Lemma read_lens_loop_spec : forall toks fuel ntok nsym prev acc rest,
    Forall (cltok_ok cl) toks ->
    Z.of_nat (length toks) <= ntok -> toks_span toks <= nsym ->
    (ntok = Z.of_nat (length toks) \/ toks_span toks = nsym) ->
    (length toks < fuel)%nat ->
    read_lens_loop fuel clt ntok nsym prev acc (flat_map (emit_cltok cltab) toks ++ rest)
    = Ok (rev_append acc (expand_toks toks prev ++ repeat 0 (Z.to_nat (nsym - toks_span toks))), rest).
  Proof.
    induction toks as [|t tl IH]; intros fuel ntok nsym prev acc rest Hok Hn Hs Hend Hf.
    - destruct fuel as [|f]; [cbn in Hf; lia|]. cbn [read_lens_loop flat_map app expand_toks toks_span fold_right length] in *.
      replace ((nsym <=? 0) || (ntok <=? 0))%bool with true by lia.
      now rewrite Z.sub_0_r.
    - destruct fuel as [|f]; [cbn in Hf; lia|]. cbn [length] in Hf, Hn, Hend.
      inversion Hok as [|? ? Ht Htl]; subst.
      pose proof (cltok_ok_span _ _ Ht) as Hsp.
      assert (Hsptl : 0 <= toks_span tl).
      { clear - Htl. induction Htl as [|x l Hx _ IHl]; cbn; [lia|]. pose proof (cltok_ok_span _ _ Hx). fold (toks_span l). lia. }
      cbn [toks_span fold_right] in Hs, Hend |- *. fold (toks_span tl) in Hs, Hend |- *.
      cbn [read_lens_loop flat_map]. replace ((nsym <=? 0) || (ntok <=? 0))%bool with false by lia.
      rewrite <- app_assoc.
      destruct t as [l|n|n|n]; cbn [emit_cltok cltok_ok cltok_span expand_toks] in *.
      + destruct Ht as [Hl Hu]. unfold cltab, code_table.
        rewrite (sym_read cl clt l _ Hclt Hu). cbn [bind].
        replace (l <? 16) with true by lia.
        rewrite IH; [|assumption|lia|lia|lia|lia].
        replace (nsym - 1 - toks_span tl) with (nsym - (1 + toks_span tl)) by lia.
        rewrite !rev_append_rev. cbn [rev]. rewrite <- !app_assoc. cbn [app]. reflexivity.
      + destruct Ht as [Hn3 Hu]. unfold cltab, code_table. rewrite <- app_assoc.
        rewrite (sym_read cl clt 16 _ Hclt Hu). cbn [bind].
        change (16 <? 16) with false. change (16 =? 16) with true. cbv iota.
        rewrite (putZ_read_nat 2) by (cbn; lia). cbn [bind].
        replace (3 + (n - 3)) with n by lia.
        replace (nsym <? n) with false by lia.
        rewrite IH; [|assumption|lia|lia|lia|lia].
        replace (nsym - n - toks_span tl) with (nsym - (n + toks_span tl)) by lia.
        rewrite !rev_append_rev, rev_app_distr, rev_repeat', <- !app_assoc. reflexivity.
      + destruct Ht as [Hn3 Hu]. unfold cltab, code_table. rewrite <- app_assoc.
        rewrite (sym_read cl clt 17 _ Hclt Hu). cbn [bind].
        change (17 <? 16) with false. change (17 =? 16) with false. change (17 =? 17) with true. cbv iota.
        rewrite (putZ_read_nat 3) by (cbn; lia). cbn [bind].
        replace (3 + (n - 3)) with n by lia.
        replace (nsym <? n) with false by lia.
        rewrite IH; [|assumption|lia|lia|lia|lia].
        replace (nsym - n - toks_span tl) with (nsym - (n + toks_span tl)) by lia.
        rewrite !rev_append_rev, rev_app_distr, rev_repeat', <- !app_assoc. reflexivity.
      + destruct Ht as [Hn3 Hu]. unfold cltab, code_table. rewrite <- app_assoc.
        rewrite (sym_read cl clt 18 _ Hclt Hu). cbn [bind].
        change (18 <? 16) with false. change (18 =? 16) with false. change (18 =? 17) with false. cbv iota.
        rewrite (putZ_read_nat 7) by (cbn; lia). cbn [bind].
        replace (11 + (n - 11)) with n by lia.
        replace (nsym <? n) with false by lia.
        rewrite IH; [|assumption|lia|lia|lia|lia].
        replace (nsym - n - toks_span tl) with (nsym - (n + toks_span tl)) by lia.
        rewrite !rev_append_rev, rev_app_distr, rev_repeat', <- !app_assoc. reflexivity.
  Qed.
End Loop.

(* ------------------------------------------------------------------ *)
(** * One whole code *)

Lemma read_bit_true s : read_bits 1 (true :: s) = Ok (1, s).
Proof. reflexivity. Qed.
Lemma read_bit_false s : read_bits 1 (false :: s) = Ok (0, s).
Proof. reflexivity. Qed.

Definition cl_written (ncl : Z) (cl : list Z) : list Z :=
  fold_left (fun a o => set_nth (Z.to_nat o) (nth (Z.to_nat o) cl 0) a)
            (firstn (Z.to_nat ncl) code_length_order) (repeat 0 19).

(** well-formedness of a code plan for an alphabet *)
Definition wf_code (alphabet : Z) (cp : codeplan) : Prop :=
  match cp with
  | CSimple [s0] => 0 <= s0 < 256 /\ s0 < alphabet
  | CSimple [s0; s1] => 0 <= s0 < 256 /\ s0 < alphabet /\ 0 <= s1 < 256 /\ s1 < alphabet
  | CSimple _ => False
  | CNormal ncl cl usemax toks =>
    4 <= ncl <= 19 /\ Forall (fun c => 0 <= c < 8) cl /\ cl_written ncl cl = cl /\
    is_ok (tree_of_lens cl) = true /\ Forall (cltok_ok cl) toks /\ 0 < alphabet /\
    ((usemax = -1 /\ toks_span toks = alphabet) \/
     (0 <= usemax <= 7 /\ 2 <= Z.of_nat (length toks) <= alphabet /\
      Z.of_nat (length toks) - 2 < 2 ^ (2 + 2 * usemax) /\ toks_span toks <= alphabet))
  end.

Lemma read_cl_lens_spec cl : Forall (fun c => 0 <= c < 8) cl -> forall ord n acc rest, (n <= length ord)%nat ->
  read_cl_lens ord n acc (flat_map (fun o => putZ 3 (nth (Z.to_nat o) cl 0)) (firstn n ord) ++ rest)
  = Ok (fold_left (fun a o => set_nth (Z.to_nat o) (nth (Z.to_nat o) cl 0) a) (firstn n ord) acc, rest).
Proof.
  intros Hcl. induction ord as [|o ord IH]; intros n acc rest Hn.
  - destruct n; [reflexivity|cbn in Hn; lia].
  - destruct n as [|n]; [reflexivity|]. cbn [firstn flat_map read_cl_lens fold_left].
    rewrite <- app_assoc.
    assert (Hr : 0 <= nth (Z.to_nat o) cl 0 < 8).
    { destruct (Nat.lt_ge_cases (Z.to_nat o) (length cl)) as [Hlt|Hge].
      - rewrite Forall_forall in Hcl. apply Hcl, nth_In, Hlt.
      - rewrite nth_overflow by lia. lia. }
    rewrite (putZ_read_nat 3) by (cbn; lia). cbn [bind]. apply IH. cbn in Hn. lia.
Qed.

Lemma toks_length_le_span cl toks : Forall (cltok_ok cl) toks -> Z.of_nat (length toks) <= toks_span toks.
Proof.
  induction 1 as [|t tl Ht _ IH]; cbn [length toks_span fold_right]; [lia|].
  pose proof (cltok_ok_span _ _ Ht). fold (toks_span tl). lia.
Qed.

Theorem code_roundtrip : forall alphabet cp t rest,
  wf_code alphabet cp -> tree_of_lens (code_lens alphabet cp) = Ok t ->
  read_code alphabet (emit_code cp ++ rest) = Ok (t, rest).
Proof.
  intros alphabet cp t rest Hwf Ht. unfold read_code.
  destruct cp as [syms|ncl cl usemax toks].
  - (* simple *)
    destruct syms as [|s0 [|s1 [|s2 tl]]]; cbn [wf_code] in Hwf; try contradiction.
    + destruct Hwf as (H0 & Ha). cbn [emit_code app].
      rewrite read_bit_true. cbn [bind]. change (1 =? 1) with true. cbv iota.
      unfold read_simple_lens. rewrite read_bit_false. cbn [bind].
      destruct (s0 <? 2) eqn:E.
      * cbn [app]. rewrite read_bit_false. cbn [bind]. change (0 =? 1) with false. cbv iota.
        rewrite (putZ_read_nat 1) by (cbn; lia). cbn [bind].
        replace (alphabet <=? s0) with false by lia.
        cbv iota zeta. cbn [bind]. cbn [code_lens fold_left] in Ht. rewrite Ht. reflexivity.
      * cbn [app]. rewrite read_bit_true. cbn [bind]. change (1 =? 1) with true. cbv iota.
        rewrite (putZ_read_nat 8) by (cbn; lia). cbn [bind].
        replace (alphabet <=? s0) with false by lia. change (0 =? 1) with false. cbv iota.
        cbv iota zeta. cbn [bind]. cbn [code_lens fold_left] in Ht. rewrite Ht. reflexivity.
    + destruct Hwf as (H0 & Ha & H1 & Hb). cbn [emit_code app].
      rewrite read_bit_true. cbn [bind]. change (1 =? 1) with true. cbv iota.
      unfold read_simple_lens. rewrite read_bit_true. cbn [bind].
      destruct (s0 <? 2) eqn:E.
      * cbn [app]. rewrite read_bit_false. cbn [bind]. change (0 =? 1) with false. cbv iota.
        rewrite <- app_assoc. rewrite (putZ_read_nat 1) by (cbn; lia). cbn [bind].
        replace (alphabet <=? s0) with false by lia. change (1 =? 1) with true. cbv iota.
        rewrite (putZ_read_nat 8) by (cbn; lia). cbn [bind].
        replace (alphabet <=? s1) with false by lia.
        cbv iota zeta. cbn [bind]. cbn [code_lens fold_left] in Ht. rewrite Ht. reflexivity.
      * cbn [app]. rewrite read_bit_true. cbn [bind]. change (1 =? 1) with true. cbv iota.
        rewrite <- app_assoc. rewrite (putZ_read_nat 8) by (cbn; lia). cbn [bind].
        replace (alphabet <=? s0) with false by lia.
        rewrite (putZ_read_nat 8) by (cbn; lia). cbn [bind].
        replace (alphabet <=? s1) with false by lia.
        cbv iota zeta. cbn [bind]. cbn [code_lens fold_left] in Ht. rewrite Ht. reflexivity.
  - (* normal *)
    cbn [wf_code] in Hwf. destruct Hwf as (Hncl & Hcl & Hwr & Hclok & Htoks & Ha & Hmode).
    destruct (tree_of_lens cl) as [clt| |] eqn:Eclt; try discriminate.
    cbn [emit_code app]. rewrite read_bit_false. cbn [bind]. change (0 =? 1) with false. cbv iota.
    unfold read_normal_lens.
    rewrite <- !app_assoc.
    rewrite (putZ_read_nat 4) by (cbn; lia). cbn [bind].
    replace (4 + (ncl - 4)) with ncl by lia.
    rewrite (read_cl_lens_spec cl Hcl) by (cbn; lia). cbn [bind].
    fold (cl_written ncl cl). rewrite Hwr, Eclt. cbn [bind].
    pose proof (toks_length_le_span cl toks Htoks) as Hlen.
    assert (Hexp : Forall (fun t => 0 <= cltok_span t) toks).
    { eapply Forall_impl; [|exact Htoks]. intros x Hx. pose proof (cltok_ok_span _ _ Hx). lia. }
    destruct Hmode as [(Hum & Hspan)|(Hum & Hnt & Hfit & Hspan)].
    + subst usemax. change (-1 <? 0) with true. cbv iota. cbn [app].
      rewrite read_bit_false. cbn [bind]. change (0 =? 1) with false. cbv iota. cbn [bind].
      rewrite (read_lens_loop_spec cl clt Eclt toks) by (try assumption; lia).
      cbn [bind rev_append]. rewrite Hspan, Z.sub_diag. cbn [Z.to_nat repeat]. rewrite app_nil_r.
      cbn [code_lens] in Ht. unfold pad_to in Ht.
      replace (Z.to_nat alphabet - length (expand_toks toks 8))%nat with 0%nat in Ht
        by (pose proof (expand_toks_length toks 8 Hexp); lia).
      cbn [repeat] in Ht. rewrite app_nil_r in Ht. rewrite Ht. reflexivity.
    + replace (usemax <? 0) with false by lia. cbn [app]. rewrite <- !app_assoc. cbn [app].
      rewrite read_bit_true. cbn [bind]. change (1 =? 1) with true. cbv iota.
      rewrite (putZ_read_nat 3) by (cbn; lia). cbn [bind].
      rewrite putZ_read by lia. cbn [bind].
      replace (alphabet <? 2 + (Z.of_nat (length toks) - 2)) with false by lia. cbn [bind].
      replace (2 + (Z.of_nat (length toks) - 2)) with (Z.of_nat (length toks)) by lia.
      rewrite (read_lens_loop_spec cl clt Eclt toks) by (try assumption; lia).
      cbn [bind rev_append].
      cbn [code_lens] in Ht. unfold pad_to in Ht.
      replace (Z.to_nat (alphabet - toks_span toks)) with (Z.to_nat alphabet - length (expand_toks toks 8))%nat
        by (pose proof (expand_toks_length toks 8 Hexp); lia).
      rewrite Ht. reflexivity.
Qed.
