(** C05, codec layer (specification model of VP8L, Vp8lSpec): explicit resource
    bounds that hold for EVERY input, valid or not.

    - fuel: every fuelled loop of the decoder is started with fuel that is a linear
      function of the declared (and range-checked) size it works on — the entropy loop
      with [1 + w*h], the code-length loop with [1 + alphabet] — and that fuel is
      always sufficient: no run ever ends in [E_FUEL].  So the number of loop
      iterations is at most 1 + (number of pixels), resp. 1 + (alphabet size);
    - input: the bit stream only shrinks (at most 8 * len(input) bits are ever read);
    - allocation: the pixel list produced by an entropy-coded image has exactly
      [w*h] entries (never more), a backward reference can only be taken inside the
      pixels already produced and never beyond the end of the image; the declared
      dimensions are at most 2^14 each, i.e. at most 2^28 pixels < MaxImageArea;
    - the model never returns [Panic].

    Nothing here depends on the prefix codes being well formed. *)
From Coq Require Import List ZArith Lia Bool.
From Coq Require Import ZifyBool ZifyNat.
From Webp Require Import Base.Res Vp8l.Vp8lPixel Vp8l.Vp8lArr Vp8l.Vp8lPrefix Vp8l.Vp8lTransforms
  Vp8l.Vp8lEntropy Vp8l.Vp8lSpec.
Import ListNotations.
Open Scope Z_scope.
Ltac Zify.zify_post_hook ::= Z.div_mod_to_equations.

(** "reads some bits or fails cleanly": the stream shrinks, no fuel error, no panic *)
Definition shrinks {A} (s : bits) (r : Res (A * bits)) : Prop :=
  match r with
  | Ok (_, s') => (length s' <= length s)%nat
  | Err e => e <> E_FUEL
  | Panic => False
  end.

(** no fuel error, no panic *)
Definition clean {A} (r : Res A) : Prop :=
  match r with Ok _ => True | Err e => e <> E_FUEL | Panic => False end.

Lemma shrinks_weaken {A} s s1 (r : Res (A * bits)) : (length s1 <= length s)%nat -> shrinks s1 r -> shrinks s r.
Proof. intros H. unfold shrinks. destruct r as [[a s']|e|]; auto. lia. Qed.

(** sequencing with an arbitrary post-condition *)
Lemma bind_post {A B} s (r : Res (A * bits)) (f : A * bits -> Res B) (Q : Res B -> Prop) :
  shrinks s r ->
  (forall e, e <> E_FUEL -> Q (Err e)) ->
  (forall a s', (length s' <= length s)%nat -> Q (f (a, s'))) ->
  Q (bind r f).
Proof. intros Hr He Hk. destruct r as [[a s']|e|]; cbn in *; [apply Hk; exact Hr|apply He; exact Hr|contradiction]. Qed.

Lemma bind_shrinks {A B} s (r : Res (A * bits)) (f : A * bits -> Res (B * bits)) :
  shrinks s r -> (forall a s', (length s' <= length s)%nat -> shrinks s' (f (a, s'))) -> shrinks s (bind r f).
Proof.
  intros Hr Hk. apply (bind_post s r f (shrinks s) Hr); [intros e He; exact He|].
  intros a s' Hl. eapply shrinks_weaken; [exact Hl|apply Hk; exact Hl].
Qed.

Lemma ok_shrinks {A} s (a : A) s' : (length s' <= length s)%nat -> shrinks s (Ok (a, s')).
Proof. intros H. exact H. Qed.

Lemma err_shrinks {A} s e : e <> E_FUEL -> @shrinks A s (Err e).
Proof. intros H. exact H. Qed.

#[local] Hint Resolve ok_shrinks err_shrinks : cost.

Ltac nofuel := (unfold E_TRUNC, E_CODE, E_SYNTAX, E_FUEL; intros HH; discriminate HH).

(** ---- the bit reader ---- *)
Lemma read_bits_spec n : forall s,
  match read_bits n s with
  | Ok (v, s') => 0 <= v < 2 ^ Z.of_nat n /\ (length s' <= length s)%nat
  | Err e => e <> E_FUEL
  | Panic => False
  end.
Proof.
  induction n as [|n IH]; intros s; cbn [read_bits]; [split; [cbn; lia|lia]|].
  destruct s as [|b tl]; [nofuel|].
  specialize (IH tl). destruct (read_bits n tl) as [[v s']|e|]; cbn [bind]; auto.
  destruct IH as [Hv Hl]. split; [|cbn [length]; lia].
  rewrite Nat2Z.inj_succ, Z.pow_succ_r by lia. destruct b; lia.
Qed.

Lemma read_bits_shrinks n s : shrinks s (read_bits n s).
Proof. pose proof (read_bits_spec n s) as H. unfold shrinks. destruct (read_bits n s) as [[v s']|e|]; tauto. Qed.

Lemma read_bitsZ_shrinks n s : shrinks s (read_bitsZ n s).
Proof. apply read_bits_shrinks. Qed.

Lemma read_symbol_shrinks t : forall s, shrinks s (read_symbol t s).
Proof.
  induction t as [v|l IHl r IHr|]; intros s; cbn [read_symbol]; [cbn; lia| |nofuel].
  destruct s as [|b tl]; [nofuel|].
  destruct b; eapply shrinks_weaken; try apply IHl; try apply IHr; cbn [length]; lia.
Qed.

#[local] Hint Resolve read_bits_shrinks read_bitsZ_shrinks read_symbol_shrinks : cost.

(** ---- LZ77 values are at least 1 ---- *)
Lemma lz_value_spec p s : 0 <= p ->
  match lz_value p s with
  | Ok (v, s') => 1 <= v /\ (length s' <= length s)%nat
  | Err e => e <> E_FUEL
  | Panic => False
  end.
Proof.
  intros Hp. unfold lz_value. destruct (p <? 4); [split; lia|].
  unfold read_bitsZ. pose proof (read_bits_spec (Z.to_nat ((p - 2) / 2)) s) as H.
  destruct (read_bits _ s) as [[x s']|e|]; cbn [bind]; auto.
  destruct H as [Hx Hl]. split; [|exact Hl].
  assert (0 <= 2 ^ ((p - 2) / 2)) by (apply Z.pow_nonneg; lia).
  assert (0 <= (2 + p mod 2) * 2 ^ ((p - 2) / 2)) by (apply Z.mul_nonneg_nonneg; lia).
  lia.
Qed.

Lemma plane_to_dist_pos w code : 1 <= plane_to_dist w code.
Proof.
  unfold plane_to_dist. destruct (Z.ltb_spec 120 code); [lia|].
  destruct (nth _ plane_lut (0, 0)) as [dx dy]. destruct (Z.ltb_spec (dx + dy * w) 1); lia.
Qed.

(** ---- the entropy loop: one iteration per token, at least one pixel per token ---- *)
Lemma pixels_loop_cost : forall fuel c total pos x y cache acc s,
  0 <= pos -> length acc = Z.to_nat pos -> (Z.to_nat (total - pos) < fuel)%nat ->
  match pixels_loop fuel c total pos x y cache acc s with
  | Ok (acc', s') => length acc' = Z.to_nat (Z.max pos total) /\ (length s' <= length s)%nat
  | Err e => e <> E_FUEL
  | Panic => False
  end.
Proof.
  induction fuel as [|f IH]; intros c total pos x y cache acc s Hp Hacc Hf; [lia|].
  cbn [pixels_loop].
  destruct (Z.leb_spec total pos) as [Hdone|Hmore]; [split; lia|].
  set (g := group_at c x y).
  apply (bind_post s (read_symbol (g_green g) s)); [auto with cost|intros e He; exact He|].
  intros sym s1 Hl1. cbv beta iota.
  destruct (Z.ltb_spec sym 256) as [Hlit|Hnolit].
  - (* literal *)
    apply (bind_post s1 (read_symbol (g_red g) s1)); [auto with cost|intros e He; exact He|].
    intros r s2 Hl2. cbv beta iota.
    apply (bind_post s2 (read_symbol (g_blue g) s2)); [auto with cost|intros e He; exact He|].
    intros b s3 Hl3. cbv beta iota.
    apply (bind_post s3 (read_symbol (g_alpha g) s3)); [auto with cost|intros e He; exact He|].
    intros a s4 Hl4. cbv beta iota.
    destruct (next_xy (e_w c) x y) as [x' y'].
    specialize (IH c total (pos + 1) x' y' (cache_insert (e_cache_bits c) cache (mkpx a r sym b))
                   (mkpx a r sym b :: acc) s4 ltac:(lia) ltac:(cbn [length]; lia) ltac:(lia)).
    destruct (pixels_loop f c total (pos + 1) x' y' _ _ s4) as [[acc' s']|e|]; auto.
    destruct IH as (H1 & H3). split; lia.
  - destruct (Z.ltb_spec sym 280) as [Hcopy|Hcache].
    + (* backward reference *)
      pose proof (lz_value_spec (sym - 256) s1 ltac:(lia)) as Hlen.
      destruct (lz_value (sym - 256) s1) as [[len s2]|e|]; cbn [bind]; auto.
      destruct Hlen as [Hlen1 Hl2].
      apply (bind_post s2 (read_symbol (g_dist g) s2)); [auto with cost|intros e He; exact He|].
      intros dsym s3 Hl3. cbv beta iota.
      destruct (lz_value dsym s3) as [[dcode s4]|e|] eqn:Edc; cbn [bind].
      2:{ unfold lz_value in Edc. destruct (dsym <? 4); [discriminate|].
          unfold read_bitsZ in Edc. pose proof (read_bits_spec (Z.to_nat ((dsym - 2) / 2)) s3) as Hb.
          destruct (read_bits _ s3) as [[x0 s0]|e0|]; cbn [bind] in Edc; [discriminate| |contradiction].
          injection Edc as <-. exact Hb. }
      2:{ unfold lz_value in Edc. destruct (dsym <? 4); [discriminate|].
          unfold read_bitsZ in Edc. pose proof (read_bits_spec (Z.to_nat ((dsym - 2) / 2)) s3) as Hb.
          destruct (read_bits _ s3) as [[x0 s0]|e0|]; cbn [bind] in Edc; [discriminate|discriminate|contradiction]. }
      assert (Hl4 : (length s4 <= length s3)%nat).
      { unfold lz_value in Edc. destruct (dsym <? 4); [injection Edc as _ <-; lia|].
        unfold read_bitsZ in Edc. pose proof (read_bits_spec (Z.to_nat ((dsym - 2) / 2)) s3) as Hb.
        destruct (read_bits _ s3) as [[x0 s0]|e0|]; cbn [bind] in Edc; try discriminate.
        injection Edc as _ <-. tauto. }
      pose proof (plane_to_dist_pos (e_w c) dcode) as Hd.
      set (dist := plane_to_dist (e_w c) dcode) in *.
      destruct ((pos <? dist) || (total - pos <? len)) eqn:Eguard; [nofuel|].
      apply orb_false_iff in Eguard. destruct Eguard as [G1 G2].
      assert (Hnew : length (copy_pixels (Z.to_nat len) (Z.to_nat dist) acc) = Z.to_nat len).
      { apply copy_pixels_length; [lia|]. intros ->. cbn [length] in Hacc. lia. }
      specialize (IH c total (pos + len) ((pos + len) mod e_w c) ((pos + len) / e_w c)
                     (fold_left (cache_insert (e_cache_bits c)) (copy_pixels (Z.to_nat len) (Z.to_nat dist) acc) cache)
                     (rev_append (copy_pixels (Z.to_nat len) (Z.to_nat dist) acc) acc) s4
                     ltac:(lia) ltac:(rewrite rev_append_rev, app_length, rev_length, Hnew; lia) ltac:(lia)).
      destruct (pixels_loop f c total (pos + len) _ _ _ _ s4) as [[acc' s']|e|]; auto.
      destruct IH as (H1 & H3). split; lia.
    + (* colour cache *)
      destruct (next_xy (e_w c) x y) as [x' y'].
      set (p := arr_get px_zero cache (sym - 280)).
      specialize (IH c total (pos + 1) x' y' (cache_insert (e_cache_bits c) cache p) (p :: acc) s1
                     ltac:(lia) ltac:(cbn [length]; lia) ltac:(lia)).
      destruct (pixels_loop f c total (pos + 1) x' y' _ _ s1) as [[acc' s']|e|]; auto.
      destruct IH as (H1 & H3). split; lia.
Qed.

(** An entropy-coded image of declared size w x h: with fuel 1 + w*h the loop always
    terminates by itself, consumes only input bits, and yields exactly w*h pixels. *)
Theorem decode_pixels_cost c w h s :
  match decode_pixels c w h s with
  | Ok (px, s') => length px = Z.to_nat (w * h) /\ (length s' <= length s)%nat
  | Err e => e <> E_FUEL
  | Panic => False
  end.
Proof.
  unfold decode_pixels.
  pose proof (pixels_loop_cost (S (Z.to_nat (w * h))) c (w * h) 0 0 0 arr_empty [] s
                ltac:(lia) eq_refl ltac:(lia)) as H.
  destruct (pixels_loop _ c (w * h) 0 0 0 arr_empty [] s) as [[acc s']|e|]; cbn [bind]; auto.
  destruct H as (H1 & H3). split; [|exact H3].
  rewrite frev_rev, rev_length, H1. lia.
Qed.

(** ---- prefix codes ---- *)
Lemma tree_of_lens_clean lens : clean (tree_of_lens lens).
Proof.
  unfold tree_of_lens. destruct (negb (lens_in_range lens)); [cbn; nofuel|].
  destruct (lens_items lens) as [|[l sym] [|i2 tl]]; [cbn; nofuel|exact I|].
  destruct (kraft_sum lens =? 32768); [exact I|cbn; nofuel].
Qed.

Lemma bind_plain_shrinks {A B} s (r : Res A) (f : A -> Res (B * bits)) :
  clean r -> (forall a, shrinks s (f a)) -> shrinks s (bind r f).
Proof. intros Hr Hk. destruct r as [a|e|]; cbn in *; [apply Hk|exact Hr|contradiction]. Qed.

Ltac step :=
  first [ apply bind_shrinks; [solve [auto with cost]|intros ? ? ?; cbv beta iota]
        | apply bind_plain_shrinks; [solve [auto using tree_of_lens_clean]|intros ?] ].
Ltac fin := first [ apply err_shrinks; nofuel | apply ok_shrinks; lia ].

Lemma read_simple_lens_shrinks alphabet s : shrinks s (read_simple_lens alphabet s).
Proof.
  unfold read_simple_lens. step. step. step.
  destruct (alphabet <=? a1); [fin|]. destruct (a =? 1); [|fin].
  step. destruct (alphabet <=? a2); fin.
Qed.

Lemma read_cl_lens_shrinks order : forall n acc s, shrinks s (read_cl_lens order n acc s).
Proof.
  induction order as [|o otl IH]; intros [|n] acc s; cbn [read_cl_lens]; try fin.
  step. eapply shrinks_weaken; [|apply IH]. lia.
Qed.

(** The code-length loop: every iteration assigns at least one symbol of the alphabet,
    so fuel 1 + (remaining symbols) is always enough. *)
Lemma read_lens_loop_shrinks : forall fuel clt ntok nsym prev acc s,
  (Z.to_nat nsym < fuel)%nat -> shrinks s (read_lens_loop fuel clt ntok nsym prev acc s).
Proof.
  induction fuel as [|f IH]; intros clt ntok nsym prev acc s Hf; [lia|].
  cbn [read_lens_loop]. destruct ((nsym <=? 0) || (ntok <=? 0)) eqn:E; [fin|].
  apply orb_false_iff in E. destruct E as [E1 E2].
  step. destruct (a <? 16).
  - eapply shrinks_weaken; [|apply IH; lia]. lia.
  - destruct (if a =? 16 then (2%nat, 3) else if a =? 17 then (3%nat, 3) else (7%nat, 11)) as [eb off] eqn:Eo.
    assert (Hoff : 3 <= off) by (destruct (a =? 16); [|destruct (a =? 17)]; injection Eo as _ <-; lia).
    pose proof (read_bits_spec eb s') as Hb.
    destruct (read_bits eb s') as [[x s2]|e|]; cbn [bind]; [|exact Hb|contradiction].
    destruct Hb as [Hx Hl]. destruct (Z.ltb_spec nsym (off + x)); [fin|].
    eapply shrinks_weaken; [|apply IH; lia]. lia.
Qed.

Lemma read_normal_lens_shrinks alphabet s : shrinks s (read_normal_lens alphabet s).
Proof.
  unfold read_normal_lens. step.
  apply bind_shrinks; [apply read_cl_lens_shrinks|intros cl s2 Hl2; cbv beta iota].
  step. step.
  apply bind_shrinks.
  - destruct (a1 =? 1); [|fin]. step. step. destruct (alphabet <? 2 + a3); fin.
  - intros ntok s5 Hl5. cbv beta iota. apply read_lens_loop_shrinks. lia.
Qed.

Lemma read_code_shrinks alphabet s : shrinks s (read_code alphabet s).
Proof.
  unfold read_code. step.
  apply bind_shrinks; [destruct (a =? 1); [apply read_simple_lens_shrinks|apply read_normal_lens_shrinks]|].
  intros lens s2 Hl2. cbv beta iota. step. fin.
Qed.
#[local] Hint Resolve read_code_shrinks : cost.

Lemma read_group_shrinks cs s : shrinks s (read_group cs s).
Proof. unfold read_group. step. step. step. step. step. fin. Qed.
#[local] Hint Resolve read_group_shrinks : cost.

Lemma read_groups_shrinks n : forall cs acc s, shrinks s (read_groups n cs acc s).
Proof.
  induction n as [|n IH]; intros cs acc s; cbn [read_groups]; [fin|].
  step. eapply shrinks_weaken; [|apply IH]. lia.
Qed.
#[local] Hint Resolve read_groups_shrinks : cost.

Lemma read_cache_bits_shrinks s : shrinks s (read_cache_bits s).
Proof.
  unfold read_cache_bits. step. destruct (a =? 1); [|fin]. step.
  destruct ((a0 <? 1) || (11 <? a0)); fin.
Qed.
#[local] Hint Resolve read_cache_bits_shrinks : cost.

Lemma decode_pixels_shrinks c w h s : shrinks s (decode_pixels c w h s).
Proof.
  pose proof (decode_pixels_cost c w h s) as H. unfold shrinks.
  destruct (decode_pixels c w h s) as [[px s']|e|]; tauto.
Qed.
#[local] Hint Resolve decode_pixels_shrinks : cost.

(** A sub-image (transform data, colour table, meta prefix image) of declared size w x h:
    never out of fuel, yields exactly w*h pixels. *)
Theorem decode_sub_image_cost w h s :
  match decode_sub_image w h s with
  | Ok (px, s') => length px = Z.to_nat (w * h) /\ (length s' <= length s)%nat
  | Err e => e <> E_FUEL
  | Panic => False
  end.
Proof.
  unfold decode_sub_image.
  apply (bind_post s (read_cache_bits s)); [auto with cost|auto|]. intros cb s1 Hl1. cbv beta iota.
  apply (bind_post s1 (read_groups 1 (cache_size_of cb) [] s1)); [auto with cost|auto|]. intros gs s2 Hl2. cbv beta iota.
  pose proof (decode_pixels_cost (mkectx w cb 0 0 arr_empty (arr_of_list gs)) w h s2) as H.
  destruct (decode_pixels _ w h s2) as [[px s']|e|]; auto. destruct H. split; [auto|lia].
Qed.

Lemma decode_sub_image_shrinks w h s : shrinks s (decode_sub_image w h s).
Proof.
  pose proof (decode_sub_image_cost w h s) as H. unfold shrinks.
  destruct (decode_sub_image w h s) as [[px s']|e|]; tauto.
Qed.
#[local] Hint Resolve decode_sub_image_shrinks : cost.

(** ---- transforms ---- *)
Lemma read_transform_shrinks seen w h s : shrinks s (read_transform seen w h s).
Proof.
  unfold read_transform. step. destruct (existsb (Z.eqb a) seen); [fin|].
  destruct (a =? 2); [fin|]. destruct (a =? 3).
  - step. step. fin.
  - step. step. destruct ((a =? 0) && negb (forallb (fun p => pg p <? 14) a1)); fin.
Qed.

Lemma read_transforms_shrinks fuel : forall seen acc w h s, shrinks s (read_transforms fuel seen acc w h s).
Proof.
  induction fuel as [|f IH]; intros seen acc w h s; cbn [read_transforms]; [fin|].
  step. destruct (a =? 0); [fin|].
  apply bind_shrinks; [apply read_transform_shrinks|]. intros [t w'] s2 Hl2. cbv beta iota.
  eapply shrinks_weaken; [|apply IH]. lia.
Qed.

(** ---- the whole stream ---- *)
Definition dims_ok (w h : Z) : Prop := 1 <= w <= 16384 /\ 1 <= h <= 16384 /\ w * h <= 268435456.

(** For EVERY byte string: the VP8L decoder model never runs out of fuel (all its loops
    terminate within fuel that is linear in the declared pixel count / alphabet size),
    never panics, and the dimensions it accepts are at most 2^14 x 2^14 = 2^28 pixels
    (below MaxImageArea = 2^30), whatever the header says. *)
Theorem decode_full_cost bytes :
  match decode_full bytes with
  | Ok d => dims_ok (d_w d) (d_h d)
  | Err e => e <> E_FUEL
  | Panic => False
  end.
Proof.
  unfold decode_full. destruct bytes as [|b0 rest]; [nofuel|].
  destruct (Z.eqb_spec b0 47) as [->|Hne].
  2:{ assert (E : decode_full (b0 :: rest) = Err E_SYNTAX).
      { unfold decode_full. destruct b0 as [|p|p]; try reflexivity.
        do 6 (try (destruct p as [p|p|]; try reflexivity)). exfalso. apply Hne. reflexivity. }
      unfold decode_full in E. rewrite E. nofuel. }
  set (s := bits_of_bytes rest).
  pose proof (read_bits_spec 14 s) as H1.
  destruct (read_bits 14 s) as [[w1 s1]|e|]; cbn [bind]; auto. destruct H1 as [Hw1 _].
  pose proof (read_bits_spec 14 s1) as H2.
  destruct (read_bits 14 s1) as [[h1 s2]|e|]; cbn [bind]; auto. destruct H2 as [Hh1 _].
  change (2 ^ Z.of_nat 14) with 16384 in *.
  apply (bind_post s2 (read_bits 1 s2)); [auto with cost|auto|]. intros alpha s3 _. cbv beta iota.
  apply (bind_post s3 (read_bits 3 s3)); [auto with cost|auto|]. intros ver s4 _. cbv beta iota.
  destruct (negb (ver =? 0)); [nofuel|].
  apply (bind_post s4 (read_transforms 5 [] [] (w1 + 1) (h1 + 1) s4)); [apply read_transforms_shrinks|auto|].
  intros [ts cw] s5 _. cbv beta iota.
  apply (bind_post s5 (read_cache_bits s5)); [auto with cost|auto|]. intros cb s6 _. cbv beta iota.
  apply (bind_post s6 (read_bits 1 s6)); [auto with cost|auto|]. intros hasmeta s7 _. cbv beta iota.
  match goal with |- context [bind ?r _] => apply (bind_post s7 r) end.
  - destruct (hasmeta =? 1); [|cbn; lia].
    apply bind_shrinks; [auto with cost|]. intros b s8 Hl8. cbv beta iota.
    apply bind_shrinks; [auto with cost|]. intros mi s9 Hl9. cbv beta iota. cbn. lia.
  - auto.
  - intros [[mb mw] meta] s8 _. cbv beta iota.
    apply (bind_post s8 (read_groups (Z.to_nat (fold_left Z.max meta 0 + 1)) (cache_size_of cb) [] s8)); [auto with cost|auto|].
    intros gs s9 _. cbv beta iota.
    match goal with |- context [bind ?r _] => apply (bind_post s9 r) end; [auto with cost|auto|].
    intros coded s10 _. cbv beta iota. cbn [d_w d_h]. unfold dims_ok.
    assert ((w1 + 1) * (h1 + 1) <= 16384 * 16384) by (apply Z.mul_le_mono_nonneg; lia). lia.
Qed.

Theorem decode_cost bytes :
  match decode bytes with
  | Ok img => dims_ok (i_w img) (i_h img)
  | Err e => e <> E_FUEL
  | Panic => False
  end.
Proof.
  unfold decode. pose proof (decode_full_cost bytes) as H.
  destruct (decode_full bytes) as [d|e|]; cbn [bind]; auto.
Qed.

(** the hypotheses-free statements above are not vacuous: a real stream decodes *)
Example decode_cost_example :
  exists img, decode [47; 0; 0; 0; 0; 136; 136; 8] = Ok img \/ exists e, decode [47; 0; 0; 0; 0; 136; 136; 8] = Err e /\ e <> E_FUEL.
Proof.
  destruct (decode [47; 0; 0; 0; 0; 136; 136; 8]) as [img|e|] eqn:E.
  - exists img. left. reflexivity.
  - exists (mkimage 0 0 []). right. exists e. split; [reflexivity|].
    pose proof (decode_cost [47; 0; 0; 0; 0; 136; 136; 8]) as H. rewrite E in H. exact H.
  - pose proof (decode_cost [47; 0; 0; 0; 0; 136; 136; 8]) as H. rewrite E in H. contradiction.
Qed.
