(** Bit-level layer of the VP8L specification model (RFC 9649 §3.1, §6.2):
    LSB-first bit reader, canonical prefix codes built from code lengths, symbol
    decoding, the simple and the normal code-length encodings (code-length code,
    repeat tokens 16/17/18, max_symbol). *)
From Coq Require Import List ZArith Lia Bool.
From Coq Require Import ZifyBool ZifyNat.
From Webp Require Import Base.Res.
Import ListNotations.
Open Scope Z_scope.

Ltac Zify.zify_post_hook ::= Z.div_mod_to_equations.

(** Error codes of the specification decoder (only "is an error" is ever compared). *)
Definition E_TRUNC : nat := 1.      (* ran out of bits *)
Definition E_CODE : nat := 2.       (* code lengths do not form a valid prefix code *)
Definition E_SYNTAX : nat := 3.     (* a field has a value the format forbids *)
Definition E_FUEL : nat := 9.       (* out of fuel (excluded by the theorems) *)

(* ------------------------------------------------------------------ *)
(** * Bits *)

Definition bits := list bool.

Fixpoint byte_bits (n : nat) (b : Z) : list bool :=
  match n with O => [] | S n' => Z.odd b :: byte_bits n' (b / 2) end.

Definition bits_of_bytes (l : list Z) : bits := flat_map (byte_bits 8) l.

(** ReadBits(n): the next n bits, first bit = least significant. *)
Fixpoint read_bits (n : nat) (s : bits) : Res (Z * bits) :=
  match n with
  | O => Ok (0, s)
  | S n' =>
    match s with
    | [] => Err E_TRUNC
    | b :: tl => '(v, s') <- read_bits n' tl ;; Ok ((if b then 1 else 0) + 2 * v, s')
    end
  end.

Definition read_bitsZ (n : Z) (s : bits) : Res (Z * bits) := read_bits (Z.to_nat n) s.

(** Writer side (used by the emitter): n bits of v, LSB first. *)
Fixpoint put_bits (n : nat) (v : Z) : bits :=
  match n with O => [] | S n' => Z.odd v :: put_bits n' (v / 2) end.

Lemma read_put_bits n : forall v rest, 0 <= v < 2 ^ Z.of_nat n ->
  read_bits n (put_bits n v ++ rest) = Ok (v, rest).
Proof.
  induction n as [|n IH]; intros v rest Hv.
  - cbn [put_bits read_bits app]. f_equal. f_equal. cbn in Hv. lia.
  - cbn [put_bits read_bits app].
    assert (Hp : 2 ^ Z.of_nat (S n) = 2 * 2 ^ Z.of_nat n).
    { rewrite Nat2Z.inj_succ, Z.pow_succ_r by lia. reflexivity. }
    rewrite IH by lia. cbn [bind]. f_equal. f_equal.
    rewrite (Zdiv2_odd_eqn v) at 3. rewrite Z.div2_div. destruct (Z.odd v); lia.
Qed.

Lemma put_bits_length n v : length (put_bits n v) = n.
Proof. revert v; induction n as [|n IH]; intros v; cbn [put_bits length]; [reflexivity|now rewrite IH]. Qed.

(** Bytes from bits (emitter): pad the last byte with zero bits. *)
Fixpoint bits_value (l : list bool) : Z :=
  match l with [] => 0 | b :: tl => (if b then 1 else 0) + 2 * bits_value tl end.

Fixpoint bytes_of_bits_fuel (fuel : nat) (s : bits) : list Z :=
  match fuel with
  | O => []
  | S f => match s with
           | [] => []
           | _ => bits_value (firstn 8 s) :: bytes_of_bits_fuel f (skipn 8 s)
           end
  end.
Definition bytes_of_bits (s : bits) : list Z := bytes_of_bits_fuel (S (length s / 8)) s.

(* ------------------------------------------------------------------ *)
(** * Prefix codes *)

Inductive tree := Leaf (s : Z) | Node (l r : tree) | Hole.

(** Symbols with non-zero length, ordered by (length, symbol): the order in which
    the canonical code hands out code words. *)
Fixpoint indexed_from (i : Z) (l : list Z) : list (Z * Z) :=
  match l with [] => [] | x :: tl => (x, i) :: indexed_from (i + 1) tl end.

Definition lens_items (lens : list Z) : list (Z * Z) :=
  let ix := indexed_from 0 lens in
  flat_map (fun len => filter (fun it => fst it =? len) ix)
           [1;2;3;4;5;6;7;8;9;10;11;12;13;14;15].

(** Depth-first, left-first construction: the next code word of length len is
    the leftmost free node at depth len.  With items sorted by length this is
    exactly the canonical assignment (consecutive code values per length, shorter
    codes first, bits of a code word read most significant first). *)
Fixpoint build (fuel : nat) (d : Z) (items : list (Z * Z)) : tree * list (Z * Z) :=
  match fuel with
  | O => (Hole, items)
  | S f =>
    match items with
    | [] => (Hole, [])
    | (len, sym) :: tl =>
      if len <=? d then (Leaf sym, tl)
      else let '(l, r1) := build f (d + 1) items in
           let '(r, r2) := build f (d + 1) r1 in
           (Node l r, r2)
    end
  end.

(** Kraft sum scaled by 2^15: every used symbol of length l weighs 2^(15-l); a
    complete code weighs exactly 2^15. *)
Definition wt (l : Z) : Z := 2 ^ (15 - l).
Fixpoint sumw (items : list (Z * Z)) : Z :=
  match items with [] => 0 | it :: tl => wt (fst it) + sumw tl end.
Definition kraft_sum (lens : list Z) : Z := sumw (lens_items lens).

Definition lens_in_range (lens : list Z) : bool := forallb (fun l => (0 <=? l) && (l <=? 15)) lens.

(** A code-length vector denotes a code iff it has exactly one non-zero length
    (that symbol is then decoded without reading any bit) or is complete. *)
Definition tree_of_lens (lens : list Z) : Res tree :=
  if negb (lens_in_range lens) then Err E_CODE else
  match lens_items lens with
  | [] => Err E_CODE
  | [(_, sym)] => Ok (Leaf sym)
  | items => if kraft_sum lens =? 32768 then Ok (fst (build 16 0 items)) else Err E_CODE
  end.

Fixpoint read_symbol (t : tree) (s : bits) : Res (Z * bits) :=
  match t with
  | Leaf v => Ok (v, s)
  | Hole => Err E_CODE
  | Node l r =>
    match s with
    | [] => Err E_TRUNC
    | b :: tl => if b then read_symbol r tl else read_symbol l tl
    end
  end.

(** Encoder side: the path of a symbol in the tree (the code word, first bit
    first). *)
Fixpoint path_of (t : tree) (sym : Z) : option bits :=
  match t with
  | Leaf v => if v =? sym then Some [] else None
  | Hole => None
  | Node l r =>
    match path_of l sym with
    | Some p => Some (false :: p)
    | None => match path_of r sym with Some p => Some (true :: p) | None => None end
    end
  end.

Lemma read_symbol_path t : forall sym p rest,
  path_of t sym = Some p -> read_symbol t (p ++ rest) = Ok (sym, rest).
Proof.
  induction t as [v|l IHl r IHr|]; intros sym p rest H; cbn [path_of] in H.
  - destruct (v =? sym) eqn:E; [|discriminate]. injection H as <-. cbn. f_equal. f_equal. lia.
  - destruct (path_of l sym) as [pl|] eqn:El.
    + injection H as <-. cbn [app read_symbol]. now apply IHl.
    + destruct (path_of r sym) as [pr|] eqn:Er; [|discriminate].
      injection H as <-. cbn [app read_symbol]. now apply IHr.
  - discriminate.
Qed.

(** bits of a code word, most significant bit first *)
Fixpoint msb_bits (n : nat) (v : Z) : bits :=
  match n with O => [] | S n' => Z.odd (v / 2 ^ Z.of_nat n') :: msb_bits n' v end.

(* ------------------------------------------------------------------ *)
(** * Reading code lengths *)

Definition code_length_order : list Z :=
  [17; 18; 0; 1; 2; 3; 4; 5; 16; 6; 7; 8; 9; 10; 11; 12; 13; 14; 15].

Fixpoint set_nth {A} (n : nat) (v : A) (l : list A) : list A :=
  match l, n with
  | [], _ => []
  | _ :: tl, O => v :: tl
  | x :: tl, S n' => x :: set_nth n' v tl
  end.

(** Simple code: 1 or 2 symbols given literally, each with length 1. *)
Definition read_simple_lens (alphabet : Z) (s : bits) : Res (list Z * bits) :=
  '(n2, s) <- read_bits 1 s ;;
  '(first8, s) <- read_bits 1 s ;;
  '(s0, s) <- read_bits (if (first8 =? 1)%Z then 8%nat else 1%nat) s ;;
  if alphabet <=? s0 then Err E_SYNTAX else
  let lens := set_nth (Z.to_nat s0) 1 (repeat 0 (Z.to_nat alphabet)) in
  if n2 =? 1 then
    '(s1, s) <- read_bits 8 s ;;
    if alphabet <=? s1 then Err E_SYNTAX else
    Ok (set_nth (Z.to_nat s1) 1 lens, s)
  else Ok (lens, s).

(** The 19 code-length-code lengths: [n] of them, 3 bits each, in the fixed order. *)
Fixpoint read_cl_lens (order : list Z) (n : nat) (acc : list Z) (s : bits) : Res (list Z * bits) :=
  match n, order with
  | O, _ => Ok (acc, s)
  | S n', o :: otl =>
    '(v, s) <- read_bits 3 s ;;
    read_cl_lens otl n' (set_nth (Z.to_nat o) v acc) s
  | S _, [] => Err E_SYNTAX
  end.

(** The code lengths proper.  [ntok] = remaining number of tokens that may be
    read (max_symbol), [nsym] = remaining symbols of the alphabet, [prev] = last
    non-zero length (initially 8), [acc] = lengths so far, reversed. *)
Fixpoint read_lens_loop (fuel : nat) (clt : tree) (ntok nsym prev : Z) (acc : list Z) (s : bits)
  : Res (list Z * bits) :=
  match fuel with
  | O => Err E_FUEL
  | S f =>
    if (nsym <=? 0) || (ntok <=? 0) then Ok (rev_append acc (repeat 0 (Z.to_nat nsym)), s)
    else
      '(c, s) <- read_symbol clt s ;;
      if c <? 16 then
        read_lens_loop f clt (ntok - 1) (nsym - 1) (if c =? 0 then prev else c) (c :: acc) s
      else
        let '(eb, off) := if c =? 16 then (2%nat, 3) else if c =? 17 then (3%nat, 3) else (7%nat, 11) in
        '(x, s) <- read_bits eb s ;;
        let rep := off + x in
        if nsym <? rep then Err E_SYNTAX else
        let v := if c =? 16 then prev else 0 in
        read_lens_loop f clt (ntok - 1) (nsym - rep) prev (repeat v (Z.to_nat rep) ++ acc) s
  end.

Definition read_normal_lens (alphabet : Z) (s : bits) : Res (list Z * bits) :=
  '(n, s) <- read_bits 4 s ;;
  '(cl, s) <- read_cl_lens code_length_order (Z.to_nat (4 + n)) (repeat 0 19) s ;;
  clt <- tree_of_lens cl ;;
  '(usemax, s) <- read_bits 1 s ;;
  '(ntok, s) <- (if usemax =? 1 then
                   '(k, s) <- read_bits 3 s ;;
                   '(m, s) <- read_bitsZ (2 + 2 * k) s ;;
                   if alphabet <? 2 + m then Err E_SYNTAX else Ok (2 + m, s)
                 else Ok (alphabet, s)) ;;
  read_lens_loop (S (Z.to_nat alphabet)) clt ntok alphabet 8 [] s.

(** One prefix code of the given alphabet size. *)
Definition read_code (alphabet : Z) (s : bits) : Res (tree * bits) :=
  '(simple, s) <- read_bits 1 s ;;
  '(lens, s) <- (if simple =? 1 then read_simple_lens alphabet s else read_normal_lens alphabet s) ;;
  t <- tree_of_lens lens ;;
  Ok (t, s).
