(** Canonical prefix codes: the code words of a length vector and the proof that
    the decoder's code tree ([tree_of_lens], built depth-first from the symbols
    sorted by (length, symbol)) decodes exactly them.

    Code word of the k-th used symbol in (length, symbol) order, length l_k:
      value_k = (sum over j < k of 2^(15 - l_j)) / 2^(15 - l_k),
    written most significant bit first with l_k bits.  This is the canonical
    (RFC 1951 §3.2.2 / VP8L) numbering: value_0 = 0 and
    value_(k+1) = (value_k + 1) * 2^(l_(k+1) - l_k)   ([codes_step]).  A code with a
    single used symbol has the empty code word. *)
From Coq Require Import List ZArith Lia Bool Sorting.Sorted.
From Coq Require Import ZifyBool ZifyNat.
From Webp Require Import Base.Res Vp8l.Vp8lPrefix.
Import ListNotations.
Open Scope Z_scope.

(* ------------------------------------------------------------------ *)
(** * Code words *)

Fixpoint codes_from (items : list (Z * Z)) (W : Z) : list (Z * bits) :=
  match items with
  | [] => []
  | (l, s) :: tl => (s, msb_bits (Z.to_nat l) (W / wt l)) :: codes_from tl (W + wt l)
  end.

Definition code_list (lens : list Z) : list (Z * bits) :=
  match lens_items lens with
  | [(_, s)] => [(s, [])]
  | items => codes_from items 0
  end.

Definition lookup_code (tab : list (Z * bits)) (s : Z) : bits :=
  match find (fun e => fst e =? s) tab with Some e => snd e | None => [] end.

Definition code_bits (lens : list Z) (s : Z) : bits := lookup_code (code_list lens) s.

(* ------------------------------------------------------------------ *)
(** * Arithmetic helpers *)

Lemma wt_pos l : l <= 15 -> 0 < wt l.
Proof. intros H. unfold wt. apply Z.pow_pos_nonneg; lia. Qed.

Lemma sumw_app a b : sumw (a ++ b) = sumw a + sumw b.
Proof. induction a as [|x a IH]; cbn [app sumw]; [reflexivity|]. rewrite IH. lia. Qed.

Lemma sumw_nonneg items : Forall (fun it => fst it <= 15) items -> 0 <= sumw items.
Proof.
  induction 1 as [|x tl Hx _ IH]; cbn [sumw]; [lia|]. pose proof (wt_pos _ Hx). lia.
Qed.

Lemma sumw_pos x items : Forall (fun it => fst it <= 15) (x :: items) -> 0 < sumw (x :: items).
Proof.
  intros H. inversion H as [|? ? Hx Htl]; subst. cbn [sumw].
  pose proof (wt_pos _ Hx). pose proof (sumw_nonneg _ Htl). lia.
Qed.

Lemma pow2_split a b : 0 <= b <= a -> 2 ^ a = 2 ^ (a - b) * 2 ^ b.
Proof. intros H. rewrite <- Z.pow_add_r by lia. f_equal. lia. Qed.

Lemma msb_bits_add n : forall k v, (n <= k)%nat -> 0 <= v ->
  msb_bits n (2 ^ Z.of_nat k + v) = msb_bits n v.
Proof.
  induction n as [|n IH]; intros k v Hk Hv; [reflexivity|].
  cbn [msb_bits]. rewrite IH by lia. f_equal.
  rewrite (pow2_split (Z.of_nat k) (Z.of_nat n)) by lia.
  rewrite Z.div_add_l by (apply Z.pow_nonzero; lia).
  rewrite Z.odd_add, Z.odd_pow by lia. change (Z.odd 2) with false. now destruct (Z.odd (v / 2 ^ Z.of_nat n)).
Qed.

Lemma msb_low n v : 0 <= v < 2 ^ Z.of_nat n -> msb_bits (S n) v = false :: msb_bits n v.
Proof. intros H. cbn [msb_bits]. now rewrite Z.div_small. Qed.

Lemma msb_high n v : 0 <= v < 2 ^ Z.of_nat n -> msb_bits (S n) (2 ^ Z.of_nat n + v) = true :: msb_bits n v.
Proof.
  intros H. cbn [msb_bits]. rewrite msb_bits_add by lia. f_equal.
  replace (2 ^ Z.of_nat n + v) with (1 * 2 ^ Z.of_nat n + v) by lia.
  rewrite Z.div_add_l by (apply Z.pow_nonzero; lia). now rewrite Z.div_small.
Qed.

(* ------------------------------------------------------------------ *)
(** * The tree built by [build] decodes the cumulative-weight code words *)

Definition Rle (x y : Z * Z) : Prop := fst x <= fst y.

Lemma SS_suffix (a b : list (Z * Z)) : StronglySorted Rle (a ++ b) -> StronglySorted Rle b.
Proof.
  induction a as [|x a IH]; intros H; [exact H|]. apply IH. now inversion H.
Qed.

Lemma build_spec : forall f d items,
  0 <= d -> 15 - d < Z.of_nat f ->
  StronglySorted Rle items -> Forall (fun it => d <= fst it <= 15) items ->
  exists pre, items = pre ++ snd (build f d items) /\
    sumw pre <= 2 ^ (15 - d) /\
    (snd (build f d items) <> [] -> sumw pre = 2 ^ (15 - d)) /\
    forall a l s b tail, pre = a ++ (l, s) :: b ->
      read_symbol (fst (build f d items)) (msb_bits (Z.to_nat (l - d)) (sumw a / wt l) ++ tail) = Ok (s, tail).
Proof.
  induction f as [|f IH]; intros d items Hd Hf Hs Hb.
  - destruct items as [|x tl].
    + exists []. cbn [build fst snd app sumw]. split; [reflexivity|].
      split; [apply Z.pow_nonneg; lia|]. split; [intros H; congruence|].
      intros a l s b tail E. destruct a; discriminate.
    + inversion Hb; subst. lia.
  - destruct items as [|[len sym] tl].
    + exists []. cbn [build fst snd app sumw]. split; [reflexivity|].
      split; [apply Z.pow_nonneg; lia|]. split; [intros H; congruence|].
      intros a l s b tail E. destruct a; discriminate.
    + cbn [build]. assert (Hlen : d <= len <= 15) by (inversion Hb; subst; assumption).
      destruct (len <=? d) eqn:E.
      * (* leaf *)
        assert (len = d) by lia. subst len.
        exists [(d, sym)]. cbn [fst snd app sumw]. unfold wt. repeat split; try lia.
        intros a l s b tail Ea. destruct a as [|y a].
        -- injection Ea as <- <- <-. rewrite Z.sub_diag. cbn. reflexivity.
        -- destruct a; discriminate.
      * (* node *)
        assert (Hb1 : Forall (fun it => d + 1 <= fst it <= 15) ((len, sym) :: tl)).
        { inversion Hs as [|? ? Hs' Hall]; subst. constructor; [cbn [fst]; lia|].
          inversion Hb as [|? ? _ Hbt]; subst.
          rewrite Forall_forall in *. intros y Hy. specialize (Hall y Hy). specialize (Hbt y Hy).
          unfold Rle in Hall. cbn [fst] in Hall. lia. }
        destruct (IH (d + 1) ((len, sym) :: tl) ltac:(lia) ltac:(lia) Hs Hb1)
          as (pre1 & Hi1 & Hle1 & Hfull1 & Hdec1).
        destruct (build f (d + 1) ((len, sym) :: tl)) as [lt r1] eqn:E1. cbn [fst snd] in *.
        assert (Hs2 : StronglySorted Rle r1) by (rewrite Hi1 in Hs; eapply SS_suffix; exact Hs).
        assert (Hb2 : Forall (fun it => d + 1 <= fst it <= 15) r1).
        { rewrite Hi1 in Hb1. apply Forall_app in Hb1. apply Hb1. }
        destruct (IH (d + 1) r1 ltac:(lia) ltac:(lia) Hs2 Hb2) as (pre2 & Hi2 & Hle2 & Hfull2 & Hdec2).
        destruct (build f (d + 1) r1) as [rt r2] eqn:E2. cbn [fst snd] in *.
        assert (Hp : 2 ^ (15 - d) = 2 * 2 ^ (15 - (d + 1))).
        { replace (15 - d) with (Z.succ (15 - (d + 1))) by lia. rewrite Z.pow_succ_r by lia. reflexivity. }
        exists (pre1 ++ pre2). split; [rewrite <- app_assoc, <- Hi2; exact Hi1|].
        rewrite sumw_app. split; [lia|]. split.
        { intros Hr2. assert (r1 <> []) by (rewrite Hi2; destruct pre2; cbn; congruence).
          rewrite Hfull1, Hfull2 by assumption. lia. }
        intros a l s b tail Ea.
        assert (Hall : Forall (fun it => d + 1 <= fst it <= 15) (pre1 ++ pre2)).
        { rewrite Hi1 in Hb1. rewrite Hi2 in Hb1. rewrite app_assoc in Hb1. apply Forall_app in Hb1. apply Hb1. }
        assert (Hl : d + 1 <= l <= 15).
        { rewrite Ea in Hall. apply Forall_app in Hall. destruct Hall as [_ Hall]. inversion Hall; subst. assumption. }
        assert (Hnat : Z.to_nat (l - d) = S (Z.to_nat (l - (d + 1)))) by lia.
        assert (Hwl : 0 < wt l) by (apply wt_pos; lia).
        assert (Hcap : 2 ^ (15 - (d + 1)) = 2 ^ Z.of_nat (Z.to_nat (l - (d + 1))) * wt l).
        { unfold wt. rewrite Z2Nat.id by lia. rewrite <- Z.pow_add_r by lia. f_equal. lia. }
        rewrite Hnat.
        apply app_eq_app in Ea. destruct Ea as (m & [[E3 E4] | [E3 E4]]).
        -- (* pre1 = a ++ m, (l,s)::b = m ++ pre2 *)
           destruct m as [|y m].
           ++ (* item is the head of pre2 *)
              rewrite app_nil_r in E3. subst a. cbn [app] in E4.
              assert (Hne : r1 <> []) by (rewrite Hi2, <- E4; cbn; congruence).
              rewrite (Hfull1 Hne), Hcap.
              replace (2 ^ Z.of_nat (Z.to_nat (l - (d + 1))) * wt l) with (0 + 2 ^ Z.of_nat (Z.to_nat (l - (d + 1))) * wt l) by lia.
              rewrite Z.div_add by lia. cbn [Z.add]. rewrite Z.div_0_l by lia.
              replace (0 + 2 ^ Z.of_nat (Z.to_nat (l - (d + 1)))) with (2 ^ Z.of_nat (Z.to_nat (l - (d + 1))) + 0) by lia.
              rewrite msb_high by (split; [lia|apply Z.pow_pos_nonneg; lia]).
              cbn [app read_symbol].
              specialize (Hdec2 [] l s b tail (eq_sym E4)). cbn [sumw] in Hdec2.
              rewrite Z.div_0_l in Hdec2 by lia. exact Hdec2.
           ++ (* item inside pre1 *)
              cbn [app] in E4. injection E4 as <- E4.
              assert (Hsum : sumw a + wt l <= 2 ^ (15 - (d + 1))).
              { rewrite E3, sumw_app in Hle1. cbn [sumw fst] in Hle1.
                assert (0 <= sumw m).
                { apply sumw_nonneg. rewrite E3 in Hall. rewrite <- app_assoc in Hall.
                  apply Forall_app in Hall. destruct Hall as [_ Hall]. cbn [app] in Hall.
                  inversion Hall as [|? ? _ Hall']; subst. apply Forall_app in Hall'. destruct Hall' as [Hm _].
                  eapply Forall_impl; [|exact Hm]. cbn. intros; lia. }
                lia. }
              assert (Ha0 : 0 <= sumw a).
              { apply sumw_nonneg. rewrite E3 in Hall. rewrite <- app_assoc in Hall. apply Forall_app in Hall.
                destruct Hall as [Ha _]. eapply Forall_impl; [|exact Ha]. cbn. intros; lia. }
              rewrite msb_low.
              ** cbn [app read_symbol]. apply (Hdec1 a l s m tail E3).
              ** split; [apply Z.div_pos; lia|]. apply Z.div_lt_upper_bound; [lia|]. rewrite Z.mul_comm, <- Hcap. lia.
        -- (* a = pre1 ++ m, pre2 = m ++ (l,s)::b *)
           subst a. assert (Hne : r1 <> []) by (rewrite Hi2, E4; destruct m; cbn; congruence).
           rewrite sumw_app, (Hfull1 Hne), Hcap.
           assert (Ediv : (2 ^ Z.of_nat (Z.to_nat (l - (d + 1))) * wt l + sumw m) / wt l
                          = 2 ^ Z.of_nat (Z.to_nat (l - (d + 1))) + sumw m / wt l).
           { rewrite (Z.add_comm (_ * _)), Z.div_add by lia. lia. }
           rewrite Ediv.
           assert (Hm0 : 0 <= sumw m).
           { apply sumw_nonneg. rewrite E4 in Hall. apply Forall_app in Hall. destruct Hall as [_ Hall].
             apply Forall_app in Hall. destruct Hall as [Hm _]. eapply Forall_impl; [|exact Hm]. cbn. intros; lia. }
           assert (Hsum : sumw m + wt l <= 2 ^ (15 - (d + 1))).
           { rewrite E4, sumw_app in Hle2. cbn [sumw fst] in Hle2.
             assert (0 <= sumw b).
             { apply sumw_nonneg. rewrite E4 in Hall. apply Forall_app in Hall. destruct Hall as [_ Hall].
               apply Forall_app in Hall. destruct Hall as [_ Hall]. inversion Hall as [|? ? _ Hb']; subst.
               eapply Forall_impl; [|exact Hb']. cbn. intros; lia. }
             lia. }
           rewrite msb_high.
           ++ cbn [app read_symbol]. apply (Hdec2 m l s b tail E4).
           ++ split; [apply Z.div_pos; lia|]. apply Z.div_lt_upper_bound; [lia|]. rewrite Z.mul_comm, <- Hcap. lia.
Qed.

(* ------------------------------------------------------------------ *)
(** * Facts about [lens_items] *)

Lemma indexed_from_In lens : forall i k, (k < length lens)%nat ->
  In (nth k lens 0, i + Z.of_nat k) (indexed_from i lens).
Proof.
  induction lens as [|x tl IH]; intros i k Hk; [cbn in Hk; lia|].
  destruct k as [|k]; cbn [indexed_from nth].
  - left. f_equal. lia.
  - right. replace (i + Z.of_nat (S k)) with (i + 1 + Z.of_nat k) by lia. apply IH. cbn in Hk. lia.
Qed.

Definition blk (ix : list (Z * Z)) (k : Z) : list (Z * Z) := filter (fun it => fst it =? k) ix.

Lemma lens_items_blk lens : lens_items lens =
  flat_map (blk (indexed_from 0 lens)) [1;2;3;4;5;6;7;8;9;10;11;12;13;14;15].
Proof. reflexivity. Qed.

Lemma SS_app (l1 l2 : list (Z * Z)) :
  StronglySorted Rle l1 -> StronglySorted Rle l2 ->
  (forall x y, In x l1 -> In y l2 -> Rle x y) -> StronglySorted Rle (l1 ++ l2).
Proof.
  induction l1 as [|x l1 IH]; intros H1 H2 Hc; [exact H2|].
  cbn [app]. inversion H1 as [|? ? H1' Hx]; subst. constructor.
  - apply IH; [assumption|assumption|]. intros; apply Hc; [now right|assumption].
  - apply Forall_app. split; [assumption|]. apply Forall_forall. intros y Hy. apply Hc; [now left|assumption].
Qed.

Lemma SS_const k (l : list (Z * Z)) : Forall (fun it => fst it = k) l -> StronglySorted Rle l.
Proof.
  induction 1 as [|x tl Hx Htl IH]; constructor; [assumption|].
  eapply Forall_impl; [|exact Htl]. unfold Rle. cbn. intros; lia.
Qed.

Lemma blocks_sorted ix : forall ks, StronglySorted Z.lt ks ->
  StronglySorted Rle (flat_map (blk ix) ks) /\
  (forall it, In it (flat_map (blk ix) ks) -> In (fst it) ks).
Proof.
  induction ks as [|k ks IH]; intros Hks; cbn [flat_map]; [split; [constructor|intros it []]|].
  inversion Hks as [|? ? Hks' Hk]; subst. destruct (IH Hks') as [IH1 IH2]. split.
  - apply SS_app; [|exact IH1|].
    + apply (SS_const k). apply Forall_forall. intros it Hit. apply filter_In in Hit. lia.
    + intros x y Hx Hy. apply filter_In in Hx. apply IH2 in Hy.
      rewrite Forall_forall in Hk. specialize (Hk _ Hy). unfold Rle. lia.
  - intros it Hit. apply in_app_or in Hit. destruct Hit as [Hit|Hit].
    + apply filter_In in Hit. left. lia.
    + right. now apply IH2.
Qed.

Lemma keys_sorted : StronglySorted Z.lt [1;2;3;4;5;6;7;8;9;10;11;12;13;14;15].
Proof. repeat constructor. Qed.

Lemma lens_items_sorted lens : StronglySorted Rle (lens_items lens).
Proof. rewrite lens_items_blk. apply blocks_sorted, keys_sorted. Qed.

Lemma lens_items_range lens : Forall (fun it => 1 <= fst it <= 15) (lens_items lens).
Proof.
  apply Forall_forall. intros it Hit. rewrite lens_items_blk in Hit.
  apply (proj2 (blocks_sorted _ _ keys_sorted)) in Hit. cbn in Hit. lia.
Qed.

Lemma lens_items_In lens s : 0 <= s < Z.of_nat (length lens) -> 1 <= nth (Z.to_nat s) lens 0 <= 15 ->
  In (nth (Z.to_nat s) lens 0, s) (lens_items lens).
Proof.
  intros Hs Hl. rewrite lens_items_blk. apply in_flat_map.
  exists (nth (Z.to_nat s) lens 0). split; [cbn; lia|].
  apply filter_In. split; [|cbn [fst]; lia].
  pose proof (indexed_from_In lens 0 (Z.to_nat s) ltac:(lia)) as H.
  replace (0 + Z.of_nat (Z.to_nat s)) with s in H by lia. exact H.
Qed.

Lemma lens_in_range_nth lens k : lens_in_range lens = true -> 0 <= nth k lens 0 <= 15.
Proof.
  unfold lens_in_range. intros H. rewrite forallb_forall in H.
  destruct (Nat.lt_ge_cases k (length lens)) as [Hk|Hk].
  - specialize (H _ (nth_In lens 0 Hk)). lia.
  - rewrite nth_overflow by lia. lia.
Qed.

(* ------------------------------------------------------------------ *)
(** * Looking a code word up *)

Lemma find_codes_from s : forall items W, (exists l, In (l, s) items) ->
  exists a l b, items = a ++ (l, s) :: b /\
    find (fun e => fst e =? s) (codes_from items W) = Some (s, msb_bits (Z.to_nat l) ((W + sumw a) / wt l)).
Proof.
  induction items as [|[l0 s0] tl IH]; intros W [l Hin]; [destruct Hin|].
  cbn [codes_from find fst]. destruct (s0 =? s) eqn:E.
  - assert (s0 = s) by lia. subst s0. exists [], l0, tl. split; [reflexivity|]. cbn [sumw]. now rewrite Z.add_0_r.
  - destruct Hin as [Hin|Hin]; [injection Hin as -> ->; lia|].
    destruct (IH (W + wt l0) (ex_intro _ l Hin)) as (a & l' & b & Ei & Ef).
    exists ((l0, s0) :: a), l', b. split; [cbn [app]; now rewrite Ei|].
    rewrite Ef. cbn [sumw fst]. now rewrite Z.add_assoc.
Qed.

(* ------------------------------------------------------------------ *)
(** * The round trip *)

Opaque build.

(** For every length vector the decoder accepts (exactly one used symbol, or a
    Kraft-complete code with lengths <= 15 — this includes both simple-code
    shapes) and every used symbol: decoding the symbol's canonical code word
    returns the symbol and consumes exactly the code word. *)
Theorem prefix_roundtrip : forall lens t s rest,
  tree_of_lens lens = Ok t ->
  0 <= s < Z.of_nat (length lens) -> nth (Z.to_nat s) lens 0 <> 0 ->
  read_symbol t (code_bits lens s ++ rest) = Ok (s, rest).
Proof.
  intros lens t s rest Ht Hs Hnz. unfold tree_of_lens in Ht.
  destruct (lens_in_range lens) eqn:Hr; cbn [negb] in Ht; [|discriminate].
  pose proof (lens_in_range_nth lens (Z.to_nat s) Hr) as Hl.
  pose proof (lens_items_In lens s Hs ltac:(lia)) as Hin.
  pose proof (lens_items_sorted lens) as Hsorted.
  pose proof (lens_items_range lens) as Hrange.
  unfold code_bits, code_list.
  destruct (lens_items lens) as [|[l0 s0] [|it2 tl]] eqn:Ei; [discriminate| |].
  - (* one used symbol *)
    injection Ht as <-. destruct Hin as [Hin|[]]. injection Hin as _ ->.
    unfold lookup_code. cbn [find fst snd]. replace (s =? s) with true by lia. reflexivity.
  - (* complete code *)
    destruct (kraft_sum lens =? 32768) eqn:Ek; [|discriminate]. injection Ht as <-.
    unfold kraft_sum in Ek. rewrite Ei in Ek.
    set (items := (l0, s0) :: it2 :: tl) in *.
    assert (Hb : Forall (fun it => 0 <= fst it <= 15) items).
    { eapply Forall_impl; [|exact Hrange]. cbn. intros; lia. }
    destruct (build_spec 16 0 items ltac:(lia) ltac:(lia) Hsorted Hb) as (pre & Hi & Hle & Hfull & Hdec).
    assert (Hrest : snd (build 16 0 items) = []).
    { destruct (snd (build 16 0 items)) as [|y r] eqn:Er; [reflexivity|].
      assert (Hne : y :: r <> []) by congruence. specialize (Hfull Hne).
      assert (Hsum : sumw items = sumw pre + sumw (y :: r)) by (rewrite Hi at 1; apply sumw_app).
      assert (0 < sumw (y :: r)).
      { apply sumw_pos. rewrite Hi in Hb. apply Forall_app in Hb. destruct Hb as [_ Hb].
        eapply Forall_impl; [|exact Hb]. cbn. intros; lia. }
      change (2 ^ (15 - 0)) with 32768 in Hfull. lia. }
    rewrite Hrest, app_nil_r in Hi. subst pre.
    destruct (find_codes_from s items 0 (ex_intro _ (nth (Z.to_nat s) lens 0) Hin)) as (a & l' & b & Ea & Ef).
    unfold lookup_code. rewrite Ef. cbn [snd]. rewrite Z.add_0_l.
    specialize (Hdec a l' s b rest Ea). rewrite Z.sub_0_r in Hdec. exact Hdec.
Qed.

(** A complete length vector is accepted. *)
Lemma tree_of_lens_complete lens :
  lens_in_range lens = true -> kraft_sum lens = 32768 -> exists t, tree_of_lens lens = Ok t.
Proof.
  intros Hr Hk. unfold tree_of_lens. rewrite Hr. cbn [negb].
  destruct (lens_items lens) as [|[l0 s0] [|it2 tl]] eqn:Ei.
  - unfold kraft_sum in Hk. rewrite Ei in Hk. discriminate.
  - eauto.
  - rewrite Hk. change (32768 =? 32768) with true. cbv iota. eauto.
Qed.

(** The textbook recurrence: consecutive code words differ by +1 followed by a
    left shift by the increase in length (for items sorted by length). *)
Lemma codes_step W l1 l2 : l1 <= l2 <= 15 -> (wt l1 | W) ->
  (W + wt l1) / wt l2 = (W / wt l1 + 1) * 2 ^ (l2 - l1).
Proof.
  intros Hl [q ->]. assert (H1 : 0 < wt l1) by (apply wt_pos; lia).
  assert (H2 : 0 < wt l2) by (apply wt_pos; lia).
  assert (E : wt l1 = 2 ^ (l2 - l1) * wt l2).
  { unfold wt. rewrite <- Z.pow_add_r by lia. f_equal. lia. }
  rewrite Z.div_mul by lia.
  replace (q * wt l1 + wt l1) with ((q + 1) * 2 ^ (l2 - l1) * wt l2) by (rewrite E; ring).
  now rewrite Z.div_mul by lia.
Qed.

(** Basis of the decoder's "trivial literal" shortcut (HTreeGroup.IsTrivialLiteral /
    LiteralARB): a code with exactly one used symbol — whatever its transmitted
    length — decodes to that symbol without consuming a bit, so when the red, blue
    and alpha codes of a group are such codes a literal costs only its green code
    word and its other three channels are constants of the group. *)
Lemma one_symbol_code lens t l0 s0 :
  tree_of_lens lens = Ok t -> lens_items lens = [(l0, s0)] -> forall s, read_symbol t s = Ok (s0, s).
Proof.
  intros Ht Hi s. unfold tree_of_lens in Ht. destruct (negb (lens_in_range lens)); [discriminate|].
  rewrite Hi in Ht. injection Ht as <-. reflexivity.
Qed.

Theorem trivial_literal_eq : forall lr lb la tr tb ta l1 r l2 b l3 a,
  tree_of_lens lr = Ok tr -> tree_of_lens lb = Ok tb -> tree_of_lens la = Ok ta ->
  lens_items lr = [(l1, r)] -> lens_items lb = [(l2, b)] -> lens_items la = [(l3, a)] ->
  forall s,
  ('(r', s1) <- read_symbol tr s ;; '(b', s2) <- read_symbol tb s1 ;; '(a', s3) <- read_symbol ta s2 ;;
   Ok (a', r', b', s3)) = Ok (a, r, b, s).
Proof.
  intros lr lb la tr tb ta l1 r l2 b l3 a Hr Hb Ha Ir Ib Ia s.
  rewrite (one_symbol_code lr tr l1 r Hr Ir). cbn [bind].
  rewrite (one_symbol_code lb tb l2 b Hb Ib). cbn [bind].
  rewrite (one_symbol_code la ta l3 a Ha Ia). reflexivity.
Qed.

Transparent build.
