(** Implementation model of the packed-table fast path of /repo's VP8L decoder
    (internal/lossless/decode_image.go: buildPackedTable, accumulateHCode,
    readPackedSymbols) and the proof that it decodes exactly what the sequential
    path (ReadSymbol on the green, red, blue and alpha tables one after the
    other) decodes, whenever the decoder selects it (the four maximal code
    lengths sum to less than HuffmanPackedBits = 6; the theorem
    holds up to a sum of 6, the capacity of the 64-entry table).

    [packed_build] transcribes buildPackedTable: for each of the 64 six-bit
    windows the green root-table entry is looked up DIRECTLY (no second-level
    indirection: `HTrees[green][bits & HuffmanTableMask]`); a non-literal green
    symbol is stored with the marker 0x100 added to its length, a literal has
    the red, blue and alpha entries accumulated (lengths added, values or-ed in
    at shifts 8/16/0/24) from the successively shifted window.
    [packed_read] transcribes readPackedSymbols.

    [packed_read_eq_sequential] (all length vectors, all windows): the packed
    lookup returns the same symbol(s) and consumes the same number of bits as
    [seq_read], the four canonical code trees of [Vp8lPrefix] walked one after the
    other on the same window. *)
From Coq Require Import List ZArith Lia Bool.
From Coq Require Import ZifyBool ZifyNat.
From Webp Require Import Base.Res Vp8l.Vp8lArr Vp8l.Vp8lPrefix Vp8l.Vp8lCanon Vp8l.Vp8lLut Vp8l.Vp8lLut2.
Import ListNotations.
Open Scope Z_scope.

Ltac Zify.zify_post_hook ::= idtac.

(** HTrees[k][bits & HuffmanTableMask] *)
Definition tget (tab : arr entry) (w : Z) : entry := arr_get entry0 tab (w mod 256).

(** one slot of buildPackedTable: (Bits, Value) of PackedTable[code] *)
Definition packed_slot (g r b a : arr entry) (code : Z) : Z * Z :=
  let '(gb, gv) := tget g code in
  if 256 <=? gv then (gb + 256, gv)
  else
    let bits1 := Z.shiftr code gb in
    let '(rb, rv) := tget r bits1 in
    let bits2 := Z.shiftr bits1 rb in
    let '(bb, bv) := tget b bits2 in
    let bits3 := Z.shiftr bits2 bb in
    let '(ab, av) := tget a bits3 in
    (gb + rb + bb + ab,
     Z.lor (Z.lor (Z.lor (Z.shiftl gv 8) (Z.shiftl rv 16)) (Z.shiftl bv 0)) (Z.shiftl av 24)).


Fixpoint packed_fill (n : nat) (g r b a : arr entry) (tab : arr (Z * Z)) : arr (Z * Z) :=
  match n with
  | O => tab
  | S k => packed_fill k g r b a (arr_set tab (Z.of_nat k) (packed_slot g r b a (Z.of_nat k)))
  end.

Definition packed_build (g r b a : arr entry) : arr (Z * Z) := packed_fill 64 g r b a arr_empty.

(** result of one packed / sequential read: a whole literal pixel or a non-literal green symbol *)
Inductive pread := PLit (argb : Z) | PSym (green : Z).

(** readPackedSymbols: (result, bits consumed) from the prefetched window w *)
Definition packed_read (ptab : arr (Z * Z)) (w : Z) : pread * Z :=
  let '(pb, pv) := arr_get (0, 0) ptab (w mod 64) in
  if pb <? 256 then (PLit pv, pb) else (PSym pv, pb - 256).

(** a<<24 | r<<16 | g<<8 | b, as accumulateHCode assembles it (alphabets of red, blue and
    alpha have 256 symbols and a literal green symbol is < 256, so nothing is truncated in uint32) *)
Definition argb_of (gv rv bv av : Z) : Z :=
  Z.lor (Z.lor (Z.lor (Z.shiftl gv 8) (Z.shiftl rv 16)) (Z.shiftl bv 0)) (Z.shiftl av 24).

(** the sequential path on code trees: green, then (for a literal) red, blue, alpha *)
Definition seq_read (tg tr tb ta : tree) (w : Z) : option (pread * Z) :=
  match walk tg w with
  | None => None
  | Some (gv, gn) =>
    if 256 <=? gv then Some (PSym gv, gn)
    else
      match walk tr (w / 2 ^ gn) with
      | None => None
      | Some (rv, rn) =>
        match walk tb (w / 2 ^ (gn + rn)) with
        | None => None
        | Some (bv, bn) =>
          match walk ta (w / 2 ^ (gn + rn + bn)) with
          | None => None
          | Some (av, an) => Some (PLit (argb_of gv rv bv av), gn + rn + bn + an)
          end
        end
      end
  end.

(* ------------------------------------------------------------------ *)
(** * packed_fill: slot k holds packed_slot k *)

Lemma packed_fill_get g r b a : forall n tab j, 0 <= j ->
  arr_get (0, 0) (packed_fill n g r b a tab) j =
  if j <? Z.of_nat n then packed_slot g r b a j else arr_get (0, 0) tab j.
Proof.
  induction n as [|k IH]; intros tab j Hj; cbn [packed_fill].
  - replace (j <? Z.of_nat 0) with false by lia. reflexivity.
  - rewrite IH by lia. destruct (Z.eq_dec j (Z.of_nat k)) as [->|Hne].
    + replace (Z.of_nat k <? Z.of_nat k) with false by lia.
      replace (Z.of_nat k <? Z.of_nat (S k)) with true by lia.
      apply arr_get_set_same. lia.
    + rewrite arr_get_set_other by lia.
      destruct (j <? Z.of_nat k) eqn:E1.
      * replace (j <? Z.of_nat (S k)) with true by lia. reflexivity.
      * replace (j <? Z.of_nat (S k)) with false by lia. reflexivity.
Qed.

Lemma packed_build_get g r b a w : 0 <= w ->
  arr_get (0, 0) (packed_build g r b a) (w mod 64) = packed_slot g r b a (w mod 64).
Proof.
  intros Hw. unfold packed_build. pose proof (Z.mod_pos_bound w 64 ltac:(lia)) as B.
  rewrite packed_fill_get by lia. replace (w mod 64 <? Z.of_nat 64) with true by lia. reflexivity.
Qed.

(* ------------------------------------------------------------------ *)
(** * walk reads only the bits it consumes *)

Lemma walk_prefix t : forall w w' v n, walk t w = Some (v, n) ->
  w mod 2 ^ n = w' mod 2 ^ n -> walk t w' = Some (v, n).
Proof.
  induction t as [s|l IHl r IHr|]; intros w w' v n H Hm; cbn [walk] in *.
  - exact H.
  - assert (Hstep : forall sub, (forall w w' v n, walk sub w = Some (v, n) ->
                       w mod 2 ^ n = w' mod 2 ^ n -> walk sub w' = Some (v, n)) ->
                     bump (walk sub (w / 2)) = Some (v, n) ->
                     Z.odd w = Z.odd w' /\ bump (walk sub (w' / 2)) = Some (v, n)).
    { intros sub IH Hb. destruct (walk sub (w / 2)) as [[v' n']|] eqn:E; cbn [bump] in Hb; [|discriminate].
      injection Hb as <- <-. pose proof (walk_nonneg _ _ _ _ E) as Hn'.
      replace (2 ^ (n' + 1)) with (2 * 2 ^ n') in Hm by (rewrite Z.pow_add_r, Z.pow_1_r by lia; lia).
      assert (Hp : 0 < 2 ^ n') by (apply Z.pow_pos_nonneg; lia).
      rewrite !Z.rem_mul_r in Hm by lia.
      pose proof (Z.mod_pos_bound w 2 ltac:(lia)). pose proof (Z.mod_pos_bound w' 2 ltac:(lia)).
      pose proof (Z.mod_pos_bound (w / 2) (2 ^ n') Hp). pose proof (Z.mod_pos_bound (w' / 2) (2 ^ n') Hp).
      assert (Hlow : w mod 2 = w' mod 2) by nia.
      assert (Hhigh : (w / 2) mod 2 ^ n' = (w' / 2) mod 2 ^ n') by nia.
      split.
      - pose proof (Zmod_odd w) as O1. pose proof (Zmod_odd w') as O2.
        destruct (Z.odd w), (Z.odd w'); try reflexivity; lia.
      - rewrite (IH _ _ _ _ E Hhigh). reflexivity. }
    destruct (Z.odd w) eqn:Eo.
    + destruct (Hstep r IHr H) as [<- Hr]. exact Hr.
    + destruct (Hstep l IHl H) as [<- Hl]. exact Hl.
  - discriminate.
Qed.

(* ------------------------------------------------------------------ *)
(** * Root-table entries of a code whose lengths are at most m <= root *)

Opaque build.

Lemma lut_root_entry : forall root m lens t tab w,
  0 <= m <= root -> Forall (fun l => l <= m) lens ->
  tree_of_lens lens = Ok t -> lut_build root lens = Ok tab -> 0 <= w ->
  exists v n, walk t w = Some (v, n) /\ arr_get entry0 tab (w mod 2 ^ root) = (n, v) /\ 0 <= n <= m.
Proof.
  intros root m lens t tab w Hroot Hlens Ht Hb Hw.
  unfold tree_of_lens in Ht. unfold lut_build in Hb.
  destruct (lens_in_range lens) eqn:Hr; cbn [negb] in Ht, Hb; [|discriminate].
  pose proof (lens_items_sorted lens) as Hsorted.
  pose proof (lens_items_range lens) as Hrange.
  assert (Hitems_le : Forall (fun it => fst it <= m) (lens_items lens)).
  { apply Forall_forall. intros [l s] Hin. cbn [fst].
    rewrite lens_items_blk in Hin. apply in_flat_map in Hin. destruct Hin as (k & _ & Hin).
    apply filter_In in Hin. destruct Hin as [Hin _].
    assert (G : forall lst i, In (l, s) (indexed_from i lst) -> In l lst).
    { induction lst as [|x tl IH]; intros i H; [destruct H|]. cbn [indexed_from] in H.
      destruct H as [H|H]; [injection H as -> _; now left|right; eapply IH; exact H]. }
    rewrite Forall_forall in Hlens. apply Hlens. eapply G. exact Hin. }
  assert (Hpw : 0 < 2 ^ root) by (apply Z.pow_pos_nonneg; lia).
  destruct (lens_items lens) as [|[l0 s0] [|it2 tl]] eqn:Ei; [discriminate| |].
  - apply Ok_inj in Ht, Hb. subst t tab. exists s0, 0. split; [reflexivity|]. split; [|lia].
    rewrite replicate_get by lia.
    pose proof (Z.mod_pos_bound w (2 ^ root) Hpw) as B.
    replace ((0 <=? w mod 2 ^ root) && ((w mod 2 ^ root - 0) mod 1 =? 0) &&
             ((w mod 2 ^ root - 0) / 1 <? Z.of_nat (Z.to_nat (2 ^ root))))%bool with true
      by (rewrite Z.mod_1_r, Z.div_1_r, Z2Nat.id by lia; lia).
    reflexivity.
  - destruct (kraft_sum lens =? 32768) eqn:Ek; [|discriminate]. apply Ok_inj in Ht, Hb. subst t tab.
    unfold kraft_sum in Ek. rewrite Ei in Ek.
    set (items := (l0, s0) :: it2 :: tl) in *.
    assert (Hb15 : Forall (fun it => 0 <= fst it <= 15) items).
    { eapply Forall_impl; [|exact Hrange]. cbn. intros; lia. }
    destruct (build_leaves 16 0 items ltac:(lia) ltac:(lia) Hsorted Hb15) as (Hi & Hle & Hc).
    destruct (build_spec 16 0 items ltac:(lia) ltac:(lia) Hsorted Hb15) as (pre & Hi' & _ & Hfull & _).
    set (t := fst (build 16 0 items)) in *.
    assert (Hrest : snd (build 16 0 items) = []).
    { destruct (snd (build 16 0 items)) as [|y r] eqn:Er; [reflexivity|].
      assert (Hne : y :: r <> []) by congruence. specialize (Hfull Hne).
      assert (Hsum : sumw items = sumw pre + sumw (y :: r)) by (rewrite Hi' at 1; apply sumw_app).
      assert (0 < sumw (y :: r)).
      { apply sumw_pos. rewrite Hi' in Hb15. apply Forall_app in Hb15. destruct Hb15 as [_ Hb'].
        eapply Forall_impl; [|exact Hb']. cbn. intros; lia. }
      change (2 ^ (15 - 0)) with 32768 in Hfull. lia. }
    rewrite Hrest, app_nil_r in Hi.
    assert (Hcomp : complete t) by (apply Hc; rewrite <- Hi; change (2 ^ (15 - 0)) with 32768; lia).
    assert (Hleaves_m : Forall (fun it => fst it <= m) (leaves (Z.of_nat 0) t)) by (cbn [Z.of_nat]; rewrite <- Hi; exact Hitems_le).
    assert (Hleaves_le : Forall (fun it => fst it <= root) (leaves (Z.of_nat 0) t)).
    { eapply Forall_impl; [|exact Hleaves_m]. cbn. intros; lia. }
    destruct (fill_subtree root t 0%nat 0 (mkl 0 arr_empty (-1) 0 (2 ^ root)) [] Hcomp Hleaves_le
                ltac:(cbn; lia) eq_refl) as (st' & F & _ & _ & _ & _ & T).
    rewrite app_nil_r in F. cbn [Z.of_nat] in F. rewrite <- Hi in F. cbn [lut_fill] in F.
    destruct (walk_complete t Hcomp w) as (v & n & Ew). exists v, n. split; [exact Ew|].
    rewrite F, T.
    pose proof (Z.mod_pos_bound w (2 ^ root) Hpw) as B.
    change (2 ^ Z.of_nat 0) with 1. rewrite Z.mod_1_r.
    replace ((0 <=? w mod 2 ^ root) && (w mod 2 ^ root <? 2 ^ root) && (0 =? 0))%bool with true by lia.
    unfold slot_of. change (2 ^ Z.of_nat 0) with 1. rewrite Z.div_1_r.
    pose proof (walk_low root t 0%nat w Hcomp Hleaves_le Hw) as Hwl. cbn [Z.of_nat] in Hwl. rewrite Z.sub_0_r in Hwl.
    rewrite Hwl, Ew. cbn [Z.of_nat].
    pose proof (walk_nonneg _ _ _ _ Ew) as Hn0.
    pose proof (walk_depth_le m t 0 w v n Ew Hleaves_m) as Hnm.
    split; [f_equal; lia|lia].
Qed.

Transparent build.

(* ------------------------------------------------------------------ *)
(** * The six-bit window determines everything the packed slot looks at *)

Lemma win_low w s k : 0 <= s -> 0 <= k -> s + k <= 6 ->
  ((w mod 64) / 2 ^ s) mod 2 ^ k = (w / 2 ^ s) mod 2 ^ k.
Proof.
  intros Hs Hk Hsk. apply Z.bits_inj'. intros i Hi.
  destruct (Z_lt_le_dec i k) as [Hlt|Hge].
  - rewrite !Z.mod_pow2_bits_low by lia. rewrite !Z.div_pow2_bits by lia.
    change 64 with (2 ^ 6). rewrite Z.mod_pow2_bits_low by lia. reflexivity.
  - rewrite !Z.mod_pow2_bits_high by lia. reflexivity.
Qed.

Lemma div_div_pow2 w a b : 0 <= a -> 0 <= b -> w / 2 ^ a / 2 ^ b = w / 2 ^ (a + b).
Proof.
  intros Ha Hb. rewrite Z.pow_add_r by lia. rewrite Z.div_div; [reflexivity| |];
  [assert (0 < 2 ^ a) by (apply Z.pow_pos_nonneg; lia); lia|apply Z.pow_pos_nonneg; lia].
Qed.

(** One table of the group: its code has lengths <= m and [tab] is its root-size-8 lookup table. *)
Definition table_of (lens : list Z) (m : Z) (t : tree) (tab : arr entry) : Prop :=
  0 <= m <= 8 /\ Forall (fun l => l <= m) lens /\ tree_of_lens lens = Ok t /\ lut_build 8 lens = Ok tab.

(** the entry buildPackedTable looks at, for the window c = w mod 64 shifted by s *)
Lemma slot_step lens m t tab w s : table_of lens m t tab -> 0 <= w -> 0 <= s -> s + m <= 6 ->
  exists v n, walk t (w / 2 ^ s) = Some (v, n) /\ tget tab ((w mod 64) / 2 ^ s) = (n, v) /\ 0 <= n <= m.
Proof.
  intros (Hm & Hl & Ht & Hb) Hw Hs Hsm.
  assert (Hc : 0 <= (w mod 64) / 2 ^ s).
  { apply Z.div_pos; [apply Z.mod_pos_bound; lia|apply Z.pow_pos_nonneg; lia]. }
  destruct (lut_root_entry 8 m lens t tab _ Hm Hl Ht Hb Hc) as (v & n & Ew & Ee & Hn).
  exists v, n. split; [|split; [exact Ee|exact Hn]].
  eapply walk_prefix; [exact Ew|]. apply win_low; lia.
Qed.

(** * Main theorem: the packed lookup = the sequential reads *)
Theorem packed_read_eq_sequential :
  forall lg lr lb la mg mr mb ma tg tr tb ta g r b a w,
  table_of lg mg tg g -> table_of lr mr tr r -> table_of lb mb tb b -> table_of la ma ta a ->
  mg + mr + mb + ma <= 6 -> 0 <= w ->
  seq_read tg tr tb ta w = Some (packed_read (packed_build g r b a) w).
Proof.
  intros lg lr lb la mg mr mb ma tg tr tb ta g r b a w Tg Tr Tb Ta Hsum Hw.
  pose proof Tg as (Hmg & _). pose proof Tr as (Hmr & _). pose proof Tb as (Hmb & _). pose proof Ta as (Hma & _).
  unfold packed_read. rewrite packed_build_get by exact Hw. unfold packed_slot, seq_read.
  destruct (slot_step _ _ _ _ w 0 Tg Hw ltac:(lia) ltac:(lia)) as (gv & gn & Wg & Eg & Hgn).
  change (2 ^ 0) with 1 in Wg, Eg. rewrite Z.div_1_r in Wg, Eg.
  rewrite Wg, Eg.
  destruct (256 <=? gv) eqn:Elit.
  - assert (E : gn + 256 <? 256 = false) by (clear - Hgn; lia). rewrite E.
    replace (gn + 256 - 256) with gn by (clear; lia). reflexivity.
  - rewrite Z.shiftr_div_pow2 by lia.
    destruct (slot_step _ _ _ _ w gn Tr Hw ltac:(lia) ltac:(lia)) as (rv & rn & Wr & Er & Hrn).
    rewrite Wr, Er.
    rewrite Z.shiftr_div_pow2 by lia. rewrite div_div_pow2 by lia.
    destruct (slot_step _ _ _ _ w (gn + rn) Tb Hw ltac:(lia) ltac:(lia)) as (bv & bn & Wb & Eb & Hbn).
    rewrite Wb, Eb.
    rewrite Z.shiftr_div_pow2 by lia. rewrite div_div_pow2 by lia.
    destruct (slot_step _ _ _ _ w (gn + rn + bn) Ta Hw ltac:(lia) ltac:(lia)) as (av & an & Wa & Ea & Han).
    rewrite Wa, Ea.
    assert (E : gn + rn + bn + an <? 256 = true) by (clear - Hgn Hrn Hbn Han Hsum Hmg Hmr Hmb Hma; lia).
    rewrite E. unfold argb_of. reflexivity.
Qed.

(** With [lut_decode_eq_canonical_root] ([Vp8lLut]) the right-hand side is also what four
    ReadSymbol calls on the same tables return; and a group the decoder does NOT send down the
    packed path is read by those calls, so both branches of decodeImageData agree with
    [seq_read]. *)

(* ------------------------------------------------------------------ *)
(** * The branch of decodeImageData that does not use the packed table

    ReadSymbol on the green table, then (for a literal) on the red, blue and alpha tables, each on
    the window shifted by the bits consumed so far (SetBitPos(BitPos + bits) then PrefetchBits). *)
Definition seq_read_lut (g r b a : arr entry) (w : Z) : pread * Z :=
  let '(gv, gn) := lut_read 8 g w in
  if 256 <=? gv then (PSym gv, gn)
  else
    let '(rv, rn) := lut_read 8 r (w / 2 ^ gn) in
    let '(bv, bn) := lut_read 8 b (w / 2 ^ (gn + rn)) in
    let '(av, an) := lut_read 8 a (w / 2 ^ (gn + rn + bn)) in
    (PLit (argb_of gv rv bv av), gn + rn + bn + an).

(** for ANY four accepted length vectors (lengths up to 15, second-level tables included) the
    table reads are the tree walks *)
Theorem seq_read_lut_eq_trees : forall lg lr lb la tg tr tb ta g r b a w,
  tree_of_lens lg = Ok tg -> lut_build 8 lg = Ok g ->
  tree_of_lens lr = Ok tr -> lut_build 8 lr = Ok r ->
  tree_of_lens lb = Ok tb -> lut_build 8 lb = Ok b ->
  tree_of_lens la = Ok ta -> lut_build 8 la = Ok a -> 0 <= w ->
  seq_read tg tr tb ta w = Some (seq_read_lut g r b a w).
Proof.
  intros lg lr lb la tg tr tb ta g r b a w Tg Bg Tr Br Tb Bb Ta Ba Hw.
  assert (P : forall n x, 0 <= x -> 0 <= n -> 0 <= x / 2 ^ n).
  { intros n x Hx Hn. apply Z.div_pos; [exact Hx|apply Z.pow_pos_nonneg; lia]. }
  unfold seq_read, seq_read_lut.
  destruct (lut_decode_eq_canonical 8 lg tg g w ltac:(lia) Tg Bg Hw) as (gv & gn & Wg & Lg).
  rewrite Wg, Lg. pose proof (walk_nonneg _ _ _ _ Wg) as Hgn.
  destruct (256 <=? gv); [reflexivity|].
  destruct (lut_decode_eq_canonical 8 lr tr r _ ltac:(lia) Tr Br (P gn w Hw Hgn)) as (rv & rn & Wr & Lr).
  rewrite Wr, Lr. pose proof (walk_nonneg _ _ _ _ Wr) as Hrn.
  destruct (lut_decode_eq_canonical 8 lb tb b _ ltac:(lia) Tb Bb (P (gn + rn) w Hw ltac:(lia))) as (bv & bn & Wb & Lb).
  rewrite Wb, Lb. pose proof (walk_nonneg _ _ _ _ Wb) as Hbn.
  destruct (lut_decode_eq_canonical 8 la ta a _ ltac:(lia) Ta Ba (P (gn + rn + bn) w Hw ltac:(lia))) as (av & an & Wa & La).
  rewrite Wa, La. reflexivity.
Qed.

(** Both branches of the decoder's pixel loop read the same thing: on every group that
    readHuffmanCodes marks UsePackedTable, the packed read = the four ReadSymbol calls. *)
Corollary packed_read_eq_lut_reads :
  forall lg lr lb la mg mr mb ma tg tr tb ta g r b a w,
  table_of lg mg tg g -> table_of lr mr tr r -> table_of lb mb tb b -> table_of la ma ta a ->
  mg + mr + mb + ma <= 6 -> 0 <= w ->
  packed_read (packed_build g r b a) w = seq_read_lut g r b a w.
Proof.
  intros lg lr lb la mg mr mb ma tg tr tb ta g r b a w Tg Tr Tb Ta Hsum Hw.
  pose proof (packed_read_eq_sequential _ _ _ _ _ _ _ _ _ _ _ _ _ _ _ _ w Tg Tr Tb Ta Hsum Hw) as H1.
  destruct Tg as (_ & _ & Tg & Bg). destruct Tr as (_ & _ & Tr & Br).
  destruct Tb as (_ & _ & Tb & Bb). destruct Ta as (_ & _ & Ta & Ba).
  pose proof (seq_read_lut_eq_trees _ _ _ _ _ _ _ _ _ _ _ _ w Tg Bg Tr Br Tb Bb Ta Ba Hw) as H2.
  rewrite H1 in H2. now injection H2.
Qed.

(** Non-vacuity: a group with a 2-symbol green code, one-symbol red and alpha, 4-symbol blue. *)
Example packed_example :
  let lg := [1; 1] in let lr := [0; 0; 1] in let lb := [2; 2; 2; 2] in let la := [1] in
  match lut_build 8 lg, lut_build 8 lr, lut_build 8 lb, lut_build 8 la with
  | Ok g, Ok r, Ok b, Ok a =>
      map (fun w => packed_read (packed_build g r b a) w) [0; 1; 5; 7] =
      [(PLit 131072, 3); (PLit 131328, 3); (PLit 131329, 3); (PLit 131331, 3)]
  | _, _, _, _ => False
  end.
Proof. vm_compute. reflexivity. Qed.
