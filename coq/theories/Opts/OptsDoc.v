(** C20 — the DOCUMENTED option semantics, frozen from the doc comments of
    EncoderOptions / DefaultOptions / OptionsForPreset in encode.go (and of
    lossy.EncodeConfig for the codec-side ranges).  Nothing here depends on the
    generated tables except the field ids (names of fields). *)
From Coq Require Import ZArith List Bool.
From WebpGen Require Consts Funcs.
From Webp Require Import Base.Res Opts.OptsModel.
Import ListNotations.
Open Scope Z_scope.

(** Ranges of the doc comments: "Quality (0-100)", "Method (0-6)", "TargetSize (0 = ...)",
    "Preprocessing 0..3", presets PresetDefault..PresetText, "SNSStrength (0-100) ... < 0",
    "FilterStrength (0-100)", "FilterSharpness (0-7)", "FilterType (0,1)",
    "Partitions (0-3)", "Segments (1-4)", "Pass (1-10)", "QMin (0-100) <= QMax",
    "QMax (0-100) ... < 0 is 100", "AlphaCompression 0,1", "AlphaFiltering 0,1,2",
    "AlphaQuality 0-100", metadata limit 100 MB. *)
Definition doc_meta_max : Z := 100 * 1024 * 1024.

Definition doc_validate_atoms : list F.vatom :=   (* a set, in the translator's canonical order: field, kind, constant *)
  [ F.VLt F.fld_Quality 0; F.VGt F.fld_Quality 100; F.VNaN F.fld_Quality; F.VInf F.fld_Quality;
    F.VLt F.fld_Method 0; F.VGt F.fld_Method 6;
    F.VLt F.fld_Preset 0; F.VGt F.fld_Preset 5;
    F.VLt F.fld_TargetSize 0;
    F.VLt F.fld_TargetPSNR 0; F.VNaN F.fld_TargetPSNR; F.VInf F.fld_TargetPSNR;
    F.VLt F.fld_Preprocessing 0; F.VGt F.fld_Preprocessing 3;
    F.VGt F.fld_SNSStrength 100;
    F.VGt F.fld_FilterStrength 100;
    F.VLt F.fld_FilterSharpness 0; F.VGt F.fld_FilterSharpness 7;
    F.VGt F.fld_FilterType 1;
    F.VLt F.fld_Partitions 0; F.VGt F.fld_Partitions 3;
    F.VGt F.fld_Segments 4;
    F.VGt F.fld_Pass 10;
    F.VLt F.fld_QMin 0; F.VGtRes F.fld_QMin F.fld_QMax 0 100; F.VResGt F.fld_QMax 0 100 100;
    F.VGt F.fld_AlphaCompression 1;
    F.VGt F.fld_AlphaFiltering 2;
    F.VGt F.fld_AlphaQuality 100;
    F.VLenGt F.fld_ICC doc_meta_max; F.VLenGt F.fld_EXIF doc_meta_max; F.VLenGt F.fld_XMP doc_meta_max ].

(** DefaultOptions(): "quality 75, lossy, method 4", sentinels -1 where the Go zero
    value differs from the C default. *)
Definition doc_default_ints : list (Z * Z) :=
  [ (F.fld_Method, 4); (F.fld_Preset, 0); (F.fld_TargetSize, 0); (F.fld_Preprocessing, 0);
    (F.fld_SNSStrength, -1); (F.fld_FilterStrength, -1); (F.fld_FilterSharpness, 0);
    (F.fld_FilterType, -1); (F.fld_Partitions, 0); (F.fld_Segments, -1); (F.fld_Pass, -1);
    (F.fld_QMin, 0); (F.fld_QMax, -1); (F.fld_AlphaCompression, -1); (F.fld_AlphaFiltering, -1);
    (F.fld_AlphaQuality, -1) ].
Definition doc_default_bools : list (Z * bool) :=
  [ (F.fld_Lossless, false); (F.fld_UseSharpYUV, false); (F.fld_Exact, false); (F.fld_EmulateJpegSize, false) ].
Definition doc_default_floats : list (Z * Z) := [ (F.fld_Quality, 75); (F.fld_TargetPSNR, 0) ].

(** Documented defaults the sentinels stand for. *)
Definition doc_SNSStrength : Z := 50.
Definition doc_FilterStrength : Z := 60.
Definition doc_FilterType : Z := 1.
Definition doc_Segments : Z := 4.
Definition doc_Pass : Z := 1.
Definition doc_QMax : Z := 100.
Definition doc_AlphaCompression : Z := 1.
Definition doc_AlphaFiltering : Z := 1.
Definition doc_AlphaQuality : Z := 100.

Definition doc_resolves : list (Z * Z) :=
  [ (0, doc_SNSStrength); (0, doc_FilterStrength); (0, doc_FilterType); (0, doc_Segments); (0, doc_Pass);
    (0, doc_QMax); (0, doc_AlphaCompression); (0, doc_AlphaFiltering); (0, doc_AlphaQuality) ].
Definition gen_resolves : list (Z * Z) :=
  [ F.resolve_SNSStrength; F.resolve_FilterStrength; F.resolve_FilterType; F.resolve_Segments; F.resolve_Pass;
    F.resolve_QMax; F.resolve_AlphaCompression; F.resolve_AlphaFiltering; F.resolve_AlphaQuality ].

(** WebPConfigPreset table (config_enc.c), as documented for OptionsForPreset. *)
Definition doc_preset_table : list (Z * list (Z * F.pop)) :=
  [ (1, [(F.fld_SNSStrength, F.PSet 80); (F.fld_FilterSharpness, F.PSet 4); (F.fld_FilterStrength, F.PSet 35); (F.fld_Preprocessing, F.PAndNot 2)]);
    (2, [(F.fld_SNSStrength, F.PSet 80); (F.fld_FilterSharpness, F.PSet 3); (F.fld_FilterStrength, F.PSet 30); (F.fld_Preprocessing, F.POr 2)]);
    (3, [(F.fld_SNSStrength, F.PSet 25); (F.fld_FilterSharpness, F.PSet 6); (F.fld_FilterStrength, F.PSet 10)]);
    (4, [(F.fld_SNSStrength, F.PSet 0); (F.fld_FilterStrength, F.PSet 0); (F.fld_Preprocessing, F.PAndNot 2)]);
    (5, [(F.fld_SNSStrength, F.PSet 0); (F.fld_FilterStrength, F.PSet 0); (F.fld_Preprocessing, F.PAndNot 2); (F.fld_Segments, F.PSet 2)]);
    (0, []) ].

(** lossy.DefaultConfig: the C defaults the sentinels resolve to. *)
Definition doc_lossy_default_ints : list (Z * Z) :=
  [ (F.lfld_TargetSize, 0); (F.lfld_TargetPSNR, 0); (F.lfld_Method, 4); (F.lfld_SNSStrength, doc_SNSStrength);
    (F.lfld_FilterStrength, doc_FilterStrength); (F.lfld_FilterSharpness, 0); (F.lfld_FilterType, doc_FilterType);
    (F.lfld_Partitions, 0); (F.lfld_Segments, doc_Segments); (F.lfld_Pass, doc_Pass); (F.lfld_Preprocessing, 0);
    (F.lfld_Dithering, 0); (F.lfld_QMin, 0); (F.lfld_QMax, doc_QMax); (F.lfld_HasAlpha, 0) ].

(** Propagation: negative = sentinel for SNS/filter strength/filter type, zero-or-negative =
    sentinel for Segments/Pass ("1-4", "1-10": 0 is not a value), QMax negative = 100. *)
Definition doc_prop_table : list (Z * Z * F.pkind) :=   (* one independent statement per cfg field; canonical order *)
  [ (F.lfld_TargetSize, F.fld_TargetSize, F.PIfGt 0);
    (F.lfld_TargetPSNR, F.fld_TargetPSNR, F.PIfGt 0);
    (F.lfld_Method, F.fld_Method, F.PAlways);
    (F.lfld_SNSStrength, F.fld_SNSStrength, F.PIfGe 0);
    (F.lfld_FilterStrength, F.fld_FilterStrength, F.PIfGe 0);
    (F.lfld_FilterSharpness, F.fld_FilterSharpness, F.PAlways);
    (F.lfld_FilterType, F.fld_FilterType, F.PIfGe 0);
    (F.lfld_Partitions, F.fld_Partitions, F.PAlways);
    (F.lfld_Segments, F.fld_Segments, F.PIfGt 0);
    (F.lfld_Pass, F.fld_Pass, F.PIfGt 0);
    (F.lfld_Preprocessing, F.fld_Preprocessing, F.PAlways);
    (F.lfld_QMin, F.fld_QMin, F.PAlways);
    (F.lfld_QMax, F.fld_QMax, F.PRes 0 doc_QMax) ].

(** Everything the translator extracted equals what is documented. *)
Definition source_matches_documentation : Prop :=
  F.validate_atoms = doc_validate_atoms /\
  F.default_ints = doc_default_ints /\ F.default_bools = doc_default_bools /\ F.default_floats = doc_default_floats /\
  gen_resolves = doc_resolves /\
  F.preset_table = doc_preset_table /\
  F.lossy_quality_clamp = (0, 100) /\ F.lossy_default_ints = doc_lossy_default_ints /\
  F.prop_table = doc_prop_table /\ F.dither_mask = 2 /\ F.hasalpha_vals = (1, 0) /\
  F.lossless_maxdim_Encode = 16383 /\ F.lossless_maxdim_EncodeToWriter = 16383 /\
  WebpGen.Consts.root_MaxDimension = 16383 /\
  (* struct shapes the model was written against: 25 option fields, 16 codec fields *)
  F.opts_field_kinds = [0; 1; 2; 4; 0; 0; 2; 1; 2; 2; 2; 2; 2; 2; 2; 2; 0; 2; 2; 2; 2; 2; 3; 3; 3] /\
  F.lossy_field_kinds = [2; 2; 1; 2; 2; 2; 2; 2; 2; 2; 2; 2; 1; 2; 2; 2] /\
  (K.lossy_AlphaNoCompression, K.lossy_AlphaLosslessCompression) = (0, 1) /\
  (K.lossy_AlphaFilterModeNone, K.lossy_AlphaFilterModeFast, K.lossy_AlphaFilterModeBest) = (0, 4, 5) /\
  (* the verif hook's replicated statements are verbatim copies of encode.go *)
  F.hook_replica_ok = true.

(** ---- readable, direct forms of the interpreted functions ---- *)

Definition rq (v : Z) : Z := if v <? 0 then 100 else v.   (* resolveQMax *)

Definition validate_doc (o : opts) : bool :=
  existsb (fun b : bool => b)
  [ fl_lt (oQuality o) 0; fl_gt (oQuality o) 100; fl_isnan (oQuality o); fl_isinf (oQuality o);
    oMethod o <? 0; oMethod o >? 6;
    oPreset o <? 0; oPreset o >? 5;
    oTargetSize o <? 0;
    fl_lt (oTargetPSNR o) 0; fl_isnan (oTargetPSNR o); fl_isinf (oTargetPSNR o);
    oPreprocessing o <? 0; oPreprocessing o >? 3;
    oSNSStrength o >? 100;
    oFilterStrength o >? 100;
    oFilterSharpness o <? 0; oFilterSharpness o >? 7;
    oFilterType o >? 1;
    oPartitions o <? 0; oPartitions o >? 3;
    oSegments o >? 4;
    oPass o >? 10;
    oQMin o <? 0; oQMin o >? rq (oQMax o); rq (oQMax o) >? 100;
    oAlphaCompression o >? 1;
    oAlphaFiltering o >? 2;
    oAlphaQuality o >? 100;
    oICC o >? doc_meta_max; oEXIF o >? doc_meta_max; oXMP o >? doc_meta_max ].

Definition doc_default_options : opts :=
  mkOpts false (FFin (75 * fscale)) 4 0 false false 0 (FFin 0) 0 (-1) (-1) 0 (-1) 0 (-1) (-1) false 0 (-1) (-1) (-1) (-1) 0 0 0.

Definition lossy_config_doc (o : opts) (q : Z) (has_alpha : bool) : lcfg :=
  mkL (clampZ 0 100 q)
      (if oTargetSize o >? 0 then oTargetSize o else 0)
      (if fl_gt (oTargetPSNR o) 0 then oTargetPSNR o else FFin 0)
      (oMethod o)
      (if oSNSStrength o >=? 0 then oSNSStrength o else doc_SNSStrength)
      (if oFilterStrength o >=? 0 then oFilterStrength o else doc_FilterStrength)
      (oFilterSharpness o)
      (if oFilterType o >=? 0 then oFilterType o else doc_FilterType)
      (oPartitions o)
      (if oSegments o >? 0 then oSegments o else doc_Segments)
      (if oPass o >? 0 then oPass o else doc_Pass)
      (oPreprocessing o)
      (if negb (Z.land (oPreprocessing o) 2 =? 0) then Some (oQuality o) else None)
      (oQMin o) (rq (oQMax o)) (if has_alpha then 1 else 0).

Definition rs (d v : Z) : Z := if v <? 0 then d else v.

Definition alpha_config_doc (o : opts) : acfg :=
  mkA (rs doc_AlphaQuality (oAlphaQuality o))
      (if rs doc_AlphaCompression (oAlphaCompression o) =? 0 then 0 else 1)
      (if rs doc_AlphaFiltering (oAlphaFiltering o) =? 0 then 0
       else if rs doc_AlphaFiltering (oAlphaFiltering o) =? 2 then 5 else 4)
      (oMethod o).

Definition effective_doc (oo : option opts) (w h : Z) (has_alpha : bool) : Res eff :=
  let o := match oo with None => doc_default_options | Some o => o end in
  if validate_doc o then Err 1
  else if (w <=? 0) || (h <=? 0) then Err 2
  else if (w >? 16383) || (h >? 16383) then Err 2
  else match fl_to_int (oQuality o) with
       | None => Panic
       | Some q =>
         let meta := (oICC o, oEXIF o, oXMP o) in
         if oLossless o then Ok (ELossless (mkLL q (oMethod o) 100 (oExact o)) meta)
         else Ok (ELossy (apply_clamps (lossy_config_doc o q has_alpha)) (alpha_config_doc o) (oExact o) (oUseSharpYUV o) meta)
       end.

(** Documented preset rows, as field updates of DefaultOptions(). *)
Definition doc_preset (p : Z) (q : fl) : opts :=
  let d := doc_default_options in
  let mk sns fsharp fstr prep segs :=
    mkOpts false q 4 p false false 0 (FFin 0) prep sns fstr fsharp (-1) 0 segs (-1) false 0 (-1) (-1) (-1) (-1) 0 0 0 in
  if p =? 1 then mk 80 4 35 0 (-1)          (* Picture *)
  else if p =? 2 then mk 80 3 30 2 (-1)     (* Photo: dithering on *)
  else if p =? 3 then mk 25 6 10 0 (-1)     (* Drawing *)
  else if p =? 4 then mk 0 0 0 0 (-1)       (* Icon *)
  else if p =? 5 then mk 0 0 0 0 2          (* Text *)
  else mk (-1) 0 (-1) 0 (-1).               (* Default and anything else *)
