(** C20 — option handling of the animation encoder.

    animation.EncodeOptions (LoopCount, Quality, Lossless, AllowMixed, Kmin, Kmax) is never
    validated: NewEncoder clamps LoopCount, sanitizes Kmin / Kmax, and every frame is encoded by
    webp.encodeFrameForAnimation, which builds an EncoderOptions literal (regenerated:
    [F.anim_frame_ints]) with Quality := float32(quality) and calls encodeLossless /
    encodeLossyWithAlpha directly, i.e. WITHOUT validateConfig.  This file shows what reaches
    the codecs for every int value of every field. *)
From Coq Require Import ZArith List Bool Lia.
From Coq Require Import ZifyBool.
From WebpGen Require Consts Funcs.
From Webp Require Import Base.Res Opts.OptsModel Opts.OptsDoc Opts.OptsProof.
Import ListNotations.
Open Scope Z_scope.

(** Go int: 64-bit two's complement. *)
Definition min_int : Z := - 2 ^ 63.
Definition max_int : Z := 2 ^ 63 - 1.
Definition is_int (v : Z) : Prop := min_int <= v <= max_int.
Definition wrap64 (v : Z) : Z := (v + 2 ^ 63) mod 2 ^ 64 - 2 ^ 63.

(** clampLoopCount, bounds regenerated. *)
Definition clamp_loop_count (v : Z) : Z :=
  if v <? fst F.anim_loopcount_clamp then fst F.anim_loopcount_clamp
  else if v >? snd F.anim_loopcount_clamp then snd F.anim_loopcount_clamp else v.

(** sanitizeKeyframeOptions (hand transcription; pinned by [F.anim_sanitize_src_hash]).
    Go's / truncates toward zero; the only operation that can leave the int range is the
    subtraction kmax - kmin, written with [wrap64]. *)
Definition sanitize_keyframes (kmin kmax : Z) : Z * Z :=
  if kmax <=? 0 then (max_int - 1, max_int)
  else if kmax =? 1 then (0, 0)
  else
    let kmin1 :=
      if kmin >=? kmax then kmax - 1
      else let lim := Z.quot kmax 2 + 1 in
           if (kmin <? lim) && (lim <? kmax) then lim else kmin in
    let kmin2 := if wrap64 (kmax - kmin1) >? 30 then kmax - 30 else kmin1 in
    (kmin2, kmax).

Definition doc_sanitize_src_hash : Z := 998278632905003257.

(** The options encodeFrameForAnimation builds. *)
Definition anim_frame_opts (lossless : bool) (quality : fl) : opts :=
  set_fl F.fld_Quality quality
    (set_bool F.fld_Lossless lossless
       (fold_left (fun o p => set_int (fst p) (snd p) o) F.anim_frame_ints zero_opts)).

Definition doc_anim_frame_opts (lossless : bool) (quality : fl) : opts :=
  mkOpts lossless quality 4 0 false false 0 (FFin 0) 0 0 0 0 0 0 0 0 false 0 0 (-1) (-1) (-1) 0 0 0.

Lemma anim_frame_opts_eq : forall l q, anim_frame_opts l q = doc_anim_frame_opts l q.
Proof. intros. vm_compute. reflexivity. Qed.

(** float32(quality) for |quality| <= 2^24 is exact. *)
Definition fl_of_int (q : Z) : fl := FFin (q * fscale).

(** Clamps of the quality parameter in front of the literal (regenerated; none on the tree this
    file was first written against). *)
Definition anim_clamp_quality (quality : Z) : Z :=
  fold_left (fun v r => if (if fst r =f? 0 then v <? snd r else v >? snd r) then snd r else v)
            F.anim_frame_quality_clamp quality.

(** What a frame of the animation is encoded with (no validation step); int(float32(q)) = q for
    the clamped / small values considered. *)
Definition anim_frame_config (lossless : bool) (quality : Z) (has_alpha : bool) : eff :=
  let q := anim_clamp_quality quality in
  let o := anim_frame_opts lossless (fl_of_int q) in
  let meta := (oICC o, oEXIF o, oXMP o) in
  if lossless then ELossless (lossless_config o q) meta
  else ELossy (lossy_config o q has_alpha) (alpha_config o) (oExact o) (oUseSharpYUV o) meta.

(** * LoopCount: always inside the container's 16-bit field. *)
Theorem loop_count_total : forall v, 0 <= clamp_loop_count v <= 65535.
Proof.
  intros v. unfold clamp_loop_count. change F.anim_loopcount_clamp with (0, 65535). cbn [fst snd].
  destruct (v <? 0) eqn:?; [lia|]. destruct (v >? 65535) eqn:?; lia.
Qed.

Lemma quot2_bounds : forall k, 2 <= k -> 1 <= Z.quot k 2 /\ Z.quot k 2 + 1 <= k.
Proof.
  intros k H. rewrite Z.quot_div_nonneg by lia.
  pose proof (Z.div_mod k 2 ltac:(lia)). pose proof (Z.mod_pos_bound k 2 ltac:(lia)). lia.
Qed.

(** * Kmin / Kmax: for every pair of ints the result is a pair of ints, either (0, 0) (every
    frame a keyframe) or kmin < kmax with kmax >= 2. *)
Theorem sanitize_keyframes_total : forall kmin kmax, is_int kmin -> is_int kmax ->
  is_int (fst (sanitize_keyframes kmin kmax)) /\ is_int (snd (sanitize_keyframes kmin kmax)) /\
  (sanitize_keyframes kmin kmax = (0, 0) \/
   (fst (sanitize_keyframes kmin kmax) < snd (sanitize_keyframes kmin kmax) /\ 2 <= snd (sanitize_keyframes kmin kmax))).
Proof.
  intros kmin kmax [Hm1 Hm2] [Hx1 Hx2]. unfold sanitize_keyframes, is_int, min_int, max_int in *.
  destruct (kmax <=? 0) eqn:E0; [cbn [fst snd]; split; [lia|split; [lia|right; lia]]|].
  destruct (kmax =? 1) eqn:E1; [cbn [fst snd]; split; [lia|split; [lia|left; reflexivity]]|].
  destruct (quot2_bounds kmax ltac:(lia)) as [Hq1 Hq2].
  set (k1 := if kmin >=? kmax then kmax - 1
             else if (kmin <? Z.quot kmax 2 + 1) && (Z.quot kmax 2 + 1 <? kmax) then Z.quot kmax 2 + 1 else kmin).
  assert (Hk1 : - 2 ^ 63 <= k1 < kmax).
  { subst k1. destruct (kmin >=? kmax) eqn:?; [lia|].
    destruct ((kmin <? Z.quot kmax 2 + 1) && (Z.quot kmax 2 + 1 <? kmax)) eqn:?; lia. }
  cbv zeta. fold k1.
  destruct (wrap64 (kmax - k1) >? 30) eqn:E3; cbn [fst snd]; (split; [lia|split; [lia|right; lia]]).
Qed.

(** The documented intent "at most 30 cached frames" holds whenever the subtraction does not
    overflow, in particular for every kmin >= 0. *)
Theorem sanitize_keyframes_window : forall kmin kmax, 0 <= kmin -> is_int kmin -> is_int kmax -> 2 <= kmax ->
  snd (sanitize_keyframes kmin kmax) - fst (sanitize_keyframes kmin kmax) <= 30.
Proof.
  intros kmin kmax H0 [Hm1 Hm2] [Hx1 Hx2] H2. unfold sanitize_keyframes, is_int, min_int, max_int in *.
  replace (kmax <=? 0) with false by lia. replace (kmax =? 1) with false by lia.
  destruct (quot2_bounds kmax ltac:(lia)) as [Hq1 Hq2].
  set (k1 := if kmin >=? kmax then kmax - 1
             else if (kmin <? Z.quot kmax 2 + 1) && (Z.quot kmax 2 + 1 <? kmax) then Z.quot kmax 2 + 1 else kmin).
  assert (Hk1 : 0 <= k1 < kmax).
  { subst k1. destruct (kmin >=? kmax) eqn:?; [lia|].
    destruct ((kmin <? Z.quot kmax 2 + 1) && (Z.quot kmax 2 + 1 <? kmax)) eqn:?; lia. }
  assert (Hw : wrap64 (kmax - k1) = kmax - k1) by (unfold wrap64; rewrite Z.mod_small; lia).
  cbv zeta. fold k1. rewrite Hw. destruct (kmax - k1 >? 30) eqn:E3; cbn [fst snd]; lia.
Qed.

(** ... and is refuted for a negative kmin with kmax = 2: the subtraction wraps. *)
Theorem sanitize_keyframes_window_refuted :
  exists kmin kmax, is_int kmin /\ is_int kmax /\ 2 <= kmax /\
    snd (sanitize_keyframes kmin kmax) - fst (sanitize_keyframes kmin kmax) > 30.
Proof. exists min_int, 2. unfold is_int, min_int, max_int. repeat split; try lia; vm_compute; reflexivity. Qed.

(** * Quality: lossy frames are total for EVERY int quality (lossy.DefaultConfig clamps). *)
Theorem anim_lossy_frame_config_total : forall q ha c a e s m,
  anim_frame_config false q ha = ELossy c a e s m -> lossy_pre c /\ alpha_pre a.
Proof.
  intros q0 ha c a e s m H. unfold anim_frame_config in H. cbv zeta in H. revert H.
  generalize (anim_clamp_quality q0). intros q H. rewrite anim_frame_opts_eq in H.
  cbn [doc_anim_frame_opts] in H. injection H as <- <- _ _ _.
  rewrite lossy_config_eq, alpha_config_eq. split.
  - apply apply_clamps_pre.
    unfold lossy_pre, lossy_config_doc, doc_anim_frame_opts, fl_of_int, clampZ, rq,
      doc_SNSStrength, doc_FilterStrength, doc_FilterType, doc_Segments, doc_Pass.
    cbn [oTargetSize oTargetPSNR oMethod oSNSStrength oFilterStrength oFilterSharpness oFilterType oPartitions
         oSegments oPass oPreprocessing oQuality oQMin oQMax
         cQuality cTargetSize cTargetPSNR cMethod cSNS cFStrength cFSharpness cFType cPartitions cSegments
         cPass cPreprocessing cDither cQMin cQMax cHasAlpha fl_gt].
    repeat match goal with |- _ /\ _ => split end; try (destruct ha; cbn; lia); try (cbn; lia).
    + destruct (q <? 0) eqn:?; [lia|]. destruct (q >? 100) eqn:?; lia.
    + destruct (q <? 0) eqn:?; [lia|]. destruct (q >? 100) eqn:?; lia.
    + cbn. exists 0. split; [reflexivity|lia].
    + cbn. intros x [=].
  - unfold alpha_pre, alpha_config_doc, doc_anim_frame_opts, rs, doc_AlphaQuality, doc_AlphaCompression, doc_AlphaFiltering.
    cbn. lia.
Qed.

Lemma anim_clamp_id : forall q, 0 <= q <= 100 -> anim_clamp_quality q = q.
Proof.
  intros q H. unfold anim_clamp_quality.
  remember F.anim_frame_quality_clamp as r eqn:E. vm_compute in E. subst r. cbn.
  destruct (q <? 0) eqn:?;
  repeat match goal with |- context [if ?b then _ else _] => destruct b eqn:? end; lia.
Qed.

(** Lossless frames.  Full statement: the VP8L configuration is inside the codec's documented
    range (lossless.EncoderConfig.Quality 0..100) for EVERY int quality. *)
Definition anim_lossless_frame_total : Prop := forall q l m,
  anim_frame_config true q false = ELossless l m -> lossless_pre l.

(** Holds since 09c6c50 (encodeFrameForAnimation clamps the quality to 0..100): if the clamp
    disappears from the source, the bound on [anim_clamp_quality] below can no longer be proved
    and this obligation breaks. *)
Theorem anim_lossless_frame_total_holds : anim_lossless_frame_total.
Proof.
  intros q0 l m H. unfold anim_frame_config in H. cbv zeta in H.
  assert (Hr : 0 <= anim_clamp_quality q0 <= 100)
    by (unfold anim_clamp_quality; remember F.anim_frame_quality_clamp as r eqn:E; vm_compute in E; subst r; cbn;
        destruct (q0 <? 0) eqn:?;
        repeat match goal with |- context [if ?b then _ else _] => destruct b eqn:? end; lia).
  revert H Hr. generalize (anim_clamp_quality q0). intros q H Hr.
  rewrite anim_frame_opts_eq in H. cbn [doc_anim_frame_opts] in H. injection H as <- _.
  unfold lossless_pre, lossless_config. cbn. lia.
Qed.

(** Historic defect, about a pinned definition that no run selects: without the clamp the VP8L
    quality is the raw option value (101 is out of the codec's range; the match search runs
    about quality^2/128 iterations per position, 2^24 did not terminate in practice). *)
Definition pinned_anim_lossless_config_unclamped (quality : Z) : llcfg :=
  lossless_config (anim_frame_opts true (fl_of_int quality)) quality.
Theorem pinned_anim_lossless_unclamped_refuted : exists q, ~ lossless_pre (pinned_anim_lossless_config_unclamped q).
Proof. exists 101. unfold lossless_pre. vm_compute. intros [[_ H] _]. apply H. reflexivity. Qed.

(** ... while inside 0..100 everything is in range on either tree. *)
Theorem anim_lossless_frame_config_in_range : forall q l m, 0 <= q <= 100 ->
  anim_frame_config true q false = ELossless l m -> lossless_pre l.
Proof.
  intros q l m Hq H. unfold anim_frame_config in H. cbv zeta in H. rewrite (anim_clamp_id q Hq) in H.
  rewrite anim_frame_opts_eq in H.
  cbn [doc_anim_frame_opts] in H. injection H as <- _. unfold lossless_pre, lossless_config. cbn. lia.
Qed.

(** * which option fields the encoder reads at all (regenerated read counts) *)
Definition anim_unused_fields : list Z :=
  map fst (filter (fun r => snd r =? 0) F.anim_field_reads).

(** * the source says what this file assumes *)
Definition doc_anim_frame_ints : list (Z * Z) :=
  [ (F.fld_Method, 4); (F.fld_Preset, 0); (F.fld_TargetSize, 0); (F.fld_Preprocessing, 0); (F.fld_SNSStrength, 0);
    (F.fld_FilterStrength, 0); (F.fld_FilterSharpness, 0); (F.fld_FilterType, 0); (F.fld_Partitions, 0);
    (F.fld_Segments, 0); (F.fld_Pass, 0); (F.fld_QMin, 0); (F.fld_QMax, 0); (F.fld_AlphaCompression, -1);
    (F.fld_AlphaFiltering, -1); (F.fld_AlphaQuality, -1) ].

Definition anim_source_matches_model : Prop :=
  F.anim_frame_ints = doc_anim_frame_ints /\ F.anim_simple_ints = doc_anim_frame_ints /\
  F.anim_frame_validates = false /\ F.anim_simple_validates = true /\
  F.anim_loopcount_clamp = (0, WebpGen.Consts.animation_maxLoopCount) /\ WebpGen.Consts.animation_maxLoopCount = 65535 /\
  F.anim_sanitize_src_hash = doc_sanitize_src_hash /\
  map fst F.anim_field_reads = [F.afld_LoopCount; F.afld_BackgroundColor; F.afld_Quality; F.afld_Lossless; F.afld_AllowMixed; F.afld_Kmin; F.afld_Kmax].

Lemma anim_source_matches_model_holds : anim_source_matches_model.
Proof. unfold anim_source_matches_model. repeat split; reflexivity. Qed.

(** Kmin is documented ("frames closer than Kmin to the previous keyframe are always encoded as
    sub-frames") but, after being sanitized, is the one option field the encoder never reads
    (regenerated read counts; breaks when that changes, in either direction). *)
Theorem anim_kmin_is_the_only_unused_field : anim_unused_fields = [F.afld_Kmin].
Proof. vm_compute. reflexivity. Qed.
