(** C20 — option handling of webp.Encode.

    Implementation model of: EncoderOptions, validateConfig, DefaultOptions,
    OptionsForPreset, the resolve* helpers, the option-propagation block and the
    alpha-option mapping of encodeLossyWithAlpha, lossy.DefaultConfig, the lossless
    configuration, and the nil / dimension checks of Encode and lossless.Encode.

    Every numeric bound, default, preset row and propagation condition is taken from
    [WebpGen.Funcs], which tools/gosrc2v regenerates from the Go source on every
    run: the functions below *interpret* those tables.  The documented values
    (frozen from the doc comments of EncoderOptions) live in OptsDoc.v and are
    compared with the generated ones by proof obligations.

    float32 values: [fl] = NaN | +Inf | -Inf | finite n, the finite value being
    n * 2^-149 (every finite float32 is an integer multiple of 2^-149), so that the
    comparisons with integer constants and the truncation int(x) are exact integer
    arithmetic.  No floating point in the model; the dithering amplitude
    (1 - x^4/2, x = Quality/100, evaluated in float32 by the code) is represented by
    the Quality value it is computed from. *)
From Coq Require Import ZArith List Bool Lia.
From WebpGen Require Consts Funcs.
From Webp Require Import Base.Res.
Import ListNotations.
Open Scope Z_scope.

Inductive fl : Type := FNaN | FPInf | FNInf | FFin (n : Z).

Definition fscale : Z := 2 ^ 149.

(** Go comparisons of a float32 with an integer constant. *)
Definition fl_lt (x : fl) (c : Z) : bool :=
  match x with FNaN => false | FPInf => false | FNInf => true | FFin n => n <? c * fscale end.
Definition fl_gt (x : fl) (c : Z) : bool :=
  match x with FNaN => false | FPInf => true | FNInf => false | FFin n => n >? c * fscale end.
Definition fl_ge (x : fl) (c : Z) : bool :=
  match x with FNaN => false | FPInf => true | FNInf => false | FFin n => n >=? c * fscale end.
Definition fl_isnan (x : fl) : bool := match x with FNaN => true | _ => false end.
Definition fl_isinf (x : fl) : bool := match x with FPInf | FNInf => true | _ => false end.
(** int(x): truncation toward zero; the result for NaN / Inf is implementation
    specific in Go, the model treats reaching it as [None]. *)
Definition fl_to_int (x : fl) : option Z :=
  match x with FFin n => Some (Z.quot n fscale) | _ => None end.

Record opts : Type := mkOpts {
  oLossless : bool; oQuality : fl; oMethod : Z; oPreset : Z; oUseSharpYUV : bool; oExact : bool;
  oTargetSize : Z; oTargetPSNR : fl; oPreprocessing : Z; oSNSStrength : Z; oFilterStrength : Z;
  oFilterSharpness : Z; oFilterType : Z; oPartitions : Z; oSegments : Z; oPass : Z;
  oEmulateJpegSize : bool; oQMin : Z; oQMax : Z; oAlphaCompression : Z; oAlphaFiltering : Z;
  oAlphaQuality : Z; oICC : Z; oEXIF : Z; oXMP : Z   (* blob lengths *)
}.

Definition zero_opts : opts :=
  mkOpts false (FFin 0) 0 0 false false 0 (FFin 0) 0 0 0 0 0 0 0 0 false 0 0 0 0 0 0 0 0.

Module F := WebpGen.Funcs.

(** equality on generated field ids (always closed terms) *)
Definition fid_eqb (a b : Z) : bool := match Z.compare a b with Eq => true | _ => false end.
Infix "=f?" := fid_eqb (at level 70, no associativity).

(** Field access by the generated field ids. *)
Definition get_int (f : Z) (o : opts) : Z :=
  if f =f? F.fld_Method then oMethod o else if f =f? F.fld_Preset then oPreset o
  else if f =f? F.fld_TargetSize then oTargetSize o else if f =f? F.fld_Preprocessing then oPreprocessing o
  else if f =f? F.fld_SNSStrength then oSNSStrength o else if f =f? F.fld_FilterStrength then oFilterStrength o
  else if f =f? F.fld_FilterSharpness then oFilterSharpness o else if f =f? F.fld_FilterType then oFilterType o
  else if f =f? F.fld_Partitions then oPartitions o else if f =f? F.fld_Segments then oSegments o
  else if f =f? F.fld_Pass then oPass o else if f =f? F.fld_QMin then oQMin o
  else if f =f? F.fld_QMax then oQMax o else if f =f? F.fld_AlphaCompression then oAlphaCompression o
  else if f =f? F.fld_AlphaFiltering then oAlphaFiltering o else if f =f? F.fld_AlphaQuality then oAlphaQuality o
  else if f =f? F.fld_ICC then oICC o else if f =f? F.fld_EXIF then oEXIF o else if f =f? F.fld_XMP then oXMP o
  else 0.

Definition get_fl (f : Z) (o : opts) : fl :=
  if f =f? F.fld_Quality then oQuality o else if f =f? F.fld_TargetPSNR then oTargetPSNR o else FFin 0.

Definition set_int (f v : Z) (o : opts) : opts :=
  let '(mkOpts a b c d e g h i j k l m n p q r s t u v' w x y z z') := o in
  if f =f? F.fld_Method then mkOpts a b v d e g h i j k l m n p q r s t u v' w x y z z'
  else if f =f? F.fld_Preset then mkOpts a b c v e g h i j k l m n p q r s t u v' w x y z z'
  else if f =f? F.fld_TargetSize then mkOpts a b c d e g v i j k l m n p q r s t u v' w x y z z'
  else if f =f? F.fld_Preprocessing then mkOpts a b c d e g h i v k l m n p q r s t u v' w x y z z'
  else if f =f? F.fld_SNSStrength then mkOpts a b c d e g h i j v l m n p q r s t u v' w x y z z'
  else if f =f? F.fld_FilterStrength then mkOpts a b c d e g h i j k v m n p q r s t u v' w x y z z'
  else if f =f? F.fld_FilterSharpness then mkOpts a b c d e g h i j k l v n p q r s t u v' w x y z z'
  else if f =f? F.fld_FilterType then mkOpts a b c d e g h i j k l m v p q r s t u v' w x y z z'
  else if f =f? F.fld_Partitions then mkOpts a b c d e g h i j k l m n v q r s t u v' w x y z z'
  else if f =f? F.fld_Segments then mkOpts a b c d e g h i j k l m n p v r s t u v' w x y z z'
  else if f =f? F.fld_Pass then mkOpts a b c d e g h i j k l m n p q v s t u v' w x y z z'
  else if f =f? F.fld_QMin then mkOpts a b c d e g h i j k l m n p q r s v u v' w x y z z'
  else if f =f? F.fld_QMax then mkOpts a b c d e g h i j k l m n p q r s t v v' w x y z z'
  else if f =f? F.fld_AlphaCompression then mkOpts a b c d e g h i j k l m n p q r s t u v w x y z z'
  else if f =f? F.fld_AlphaFiltering then mkOpts a b c d e g h i j k l m n p q r s t u v' v x y z z'
  else if f =f? F.fld_AlphaQuality then mkOpts a b c d e g h i j k l m n p q r s t u v' w v y z z'
  else o.

Definition set_fl (f : Z) (v : fl) (o : opts) : opts :=
  let '(mkOpts a b c d e g h i j k l m n p q r s t u v' w x y z z') := o in
  if f =f? F.fld_Quality then mkOpts a v c d e g h i j k l m n p q r s t u v' w x y z z'
  else if f =f? F.fld_TargetPSNR then mkOpts a b c d e g h v j k l m n p q r s t u v' w x y z z'
  else o.

Definition set_bool (f : Z) (v : bool) (o : opts) : opts :=
  let '(mkOpts a b c d e g h i j k l m n p q r s t u v' w x y z z') := o in
  if f =f? F.fld_Lossless then mkOpts v b c d e g h i j k l m n p q r s t u v' w x y z z'
  else if f =f? F.fld_UseSharpYUV then mkOpts a b c d v g h i j k l m n p q r s t u v' w x y z z'
  else if f =f? F.fld_Exact then mkOpts a b c d e v h i j k l m n p q r s t u v' w x y z z'
  else if f =f? F.fld_EmulateJpegSize then mkOpts a b c d e g h i j k l m n p q r v t u v' w x y z z'
  else o.

Definition kind_of (f : Z) : Z := nth (Z.to_nat f) F.opts_field_kinds (-1).
Definition is_float (f : Z) : bool := kind_of f =f? 1.

(** resolveX(v) with the generated (threshold, default). *)
Definition resolve (td : Z * Z) (v : Z) : Z := if v <? fst td then snd td else v.

(** validateConfig: [true] = rejected. *)
Definition eval_atom (o : opts) (a : F.vatom) : bool :=
  match a with
  | F.VLt f c => if is_float f then fl_lt (get_fl f o) c else get_int f o <? c
  | F.VGt f c => if is_float f then fl_gt (get_fl f o) c else get_int f o >? c
  | F.VNaN f => fl_isnan (get_fl f o)
  | F.VInf f => fl_isinf (get_fl f o)
  | F.VLenGt f c => get_int f o >? c
  | F.VResGt f t d c => resolve (t, d) (get_int f o) >? c
  | F.VGtRes f g t d => get_int f o >? resolve (t, d) (get_int g o)
  end.

Definition validate (o : opts) : bool := existsb (eval_atom o) F.validate_atoms.

(** DefaultOptions() *)
Definition default_options : opts :=
  let o1 := fold_left (fun o p => set_int (fst p) (snd p) o) F.default_ints zero_opts in
  let o2 := fold_left (fun o p => set_bool (fst p) (snd p) o) F.default_bools o1 in
  fold_left (fun o p => set_fl (fst p) (FFin (snd p * fscale)) o) F.default_floats o2.

(** OptionsForPreset(p, q) *)
Definition apply_pop (o : opts) (a : Z * F.pop) : opts :=
  let f := fst a in
  match snd a with
  | F.PSet v => set_int f v o
  | F.PAndNot v => set_int f (Z.ldiff (get_int f o) v) o
  | F.POr v => set_int f (Z.lor (get_int f o) v) o
  end.

Definition options_for_preset (p : Z) (q : fl) : opts :=
  let o := set_int F.fld_Preset p (set_fl F.fld_Quality q default_options) in
  match find (fun r => fst r =? p) F.preset_table with
  | Some r => fold_left apply_pop (snd r) o
  | None => o
  end.

(** lossy.EncodeConfig *)
Record lcfg : Type := mkL {
  cQuality : Z; cTargetSize : Z; cTargetPSNR : fl; cMethod : Z; cSNS : Z; cFStrength : Z;
  cFSharpness : Z; cFType : Z; cPartitions : Z; cSegments : Z; cPass : Z; cPreprocessing : Z;
  cDither : option fl;  (* Some q: amplitude computed from Quality q; None: 0 *)
  cQMin : Z; cQMax : Z; cHasAlpha : Z
}.

Definition set_lint (g v : Z) (c : lcfg) : lcfg :=
  let '(mkL a b t d e f h i j k l m n p q r) := c in
  if g =f? F.lfld_Quality then mkL v b t d e f h i j k l m n p q r
  else if g =f? F.lfld_TargetSize then mkL a v t d e f h i j k l m n p q r
  else if g =f? F.lfld_TargetPSNR then mkL a b (FFin (v * fscale)) d e f h i j k l m n p q r
  else if g =f? F.lfld_Method then mkL a b t v e f h i j k l m n p q r
  else if g =f? F.lfld_SNSStrength then mkL a b t d v f h i j k l m n p q r
  else if g =f? F.lfld_FilterStrength then mkL a b t d e v h i j k l m n p q r
  else if g =f? F.lfld_FilterSharpness then mkL a b t d e f v i j k l m n p q r
  else if g =f? F.lfld_FilterType then mkL a b t d e f h v j k l m n p q r
  else if g =f? F.lfld_Partitions then mkL a b t d e f h i v k l m n p q r
  else if g =f? F.lfld_Segments then mkL a b t d e f h i j v l m n p q r
  else if g =f? F.lfld_Pass then mkL a b t d e f h i j k v m n p q r
  else if g =f? F.lfld_Preprocessing then mkL a b t d e f h i j k l v n p q r
  else if g =f? F.lfld_QMin then mkL a b t d e f h i j k l m n v q r
  else if g =f? F.lfld_QMax then mkL a b t d e f h i j k l m n p v r
  else if g =f? F.lfld_HasAlpha then mkL a b t d e f h i j k l m n p q v
  else c.   (* lfld_Dithering: DefaultConfig leaves it 0 (obligation C20_lossy_defaults_match_doc) *)

Definition set_lfl (g : Z) (x : fl) (c : lcfg) : lcfg :=
  let '(mkL a b t d e f h i j k l m n p q r) := c in
  if g =f? F.lfld_TargetPSNR then mkL a b x d e f h i j k l m n p q r else c.

Definition zero_lcfg : lcfg := mkL 0 0 (FFin 0) 0 0 0 0 0 0 0 0 0 None 0 0 0.

Definition clampZ (lo hi v : Z) : Z := if v <? lo then lo else if v >? hi then hi else v.

(** lossy.DefaultConfig(q) *)
Definition lossy_default (q : Z) : lcfg :=
  set_lint F.lfld_Quality (clampZ (fst F.lossy_quality_clamp) (snd F.lossy_quality_clamp) q)
    (fold_left (fun c p => set_lint (fst p) (snd p) c) F.lossy_default_ints zero_lcfg).

Definition get_lint (g : Z) (c : lcfg) : Z :=
  if g =f? F.lfld_Quality then cQuality c else if g =f? F.lfld_TargetSize then cTargetSize c
  else if g =f? F.lfld_Method then cMethod c else if g =f? F.lfld_SNSStrength then cSNS c
  else if g =f? F.lfld_FilterStrength then cFStrength c else if g =f? F.lfld_FilterSharpness then cFSharpness c
  else if g =f? F.lfld_FilterType then cFType c else if g =f? F.lfld_Partitions then cPartitions c
  else if g =f? F.lfld_Segments then cSegments c else if g =f? F.lfld_Pass then cPass c
  else if g =f? F.lfld_Preprocessing then cPreprocessing c else if g =f? F.lfld_QMin then cQMin c
  else if g =f? F.lfld_QMax then cQMax c else if g =f? F.lfld_HasAlpha then cHasAlpha c else 0.
Definition get_lfl (g : Z) (c : lcfg) : fl := if g =f? F.lfld_TargetPSNR then cTargetPSNR c else FFin 0.

(** One statement of the propagation block.  [if cond { cfg.g = opts.f }] is written as
    [cfg.g = (if cond then opts.f else cfg.g)]. *)
Definition apply_prop (o : opts) (c : lcfg) (r : Z * Z * F.pkind) : lcfg :=
  let '(g, f, k) := r in
  if is_float f then
    let x := get_fl f o in
    match k with
    | F.PAlways => set_lfl g x c
    | F.PIfGe t => set_lfl g (if fl_ge x t then x else get_lfl g c) c
    | F.PIfGt t => set_lfl g (if fl_gt x t then x else get_lfl g c) c
    | F.PRes _ _ => c
    end
  else
    let v := get_int f o in
    match k with
    | F.PAlways => set_lint g v c
    | F.PIfGe t => set_lint g (if v >=? t then v else get_lint g c) c
    | F.PIfGt t => set_lint g (if v >? t then v else get_lint g c) c
    | F.PRes t d => set_lint g (resolve (t, d) v) c
    end.

Definition set_dither (o : opts) (c : lcfg) : lcfg :=
  let '(mkL a b t d e f h i j k l m n p q r) := c in
  mkL a b t d e f h i j k l m
      (if negb (Z.land (oPreprocessing o) F.dither_mask =? 0) then Some (oQuality o) else n) p q r.

(** encodeLossyWithAlpha, from [cfg := lossy.DefaultConfig(int(opts.Quality))] to the
    hasAlpha statement, without the clamps; [q] = int(opts.Quality). *)
Definition lossy_config_pre (o : opts) (q : Z) (has_alpha : bool) : lcfg :=
  let c := fold_left (apply_prop o) F.prop_table (lossy_default q) in
  let c := set_dither o c in
  set_lint F.lfld_HasAlpha (if has_alpha then fst F.hasalpha_vals else snd F.hasalpha_vals) c.

(** The clamps [if cfg.G < cfg.H { cfg.G = cfg.H }] (op 0) / [>] (op 1) found in the propagation
    block (none on the tree this model was first written against), optionally guarded by
    [cfg.TargetSize > 0 || cfg.TargetPSNR > 0].  The translator checks that no later statement
    writes the fields involved, so applying them after the other statements is faithful. *)
Definition apply_clamp (c : lcfg) (r : Z * Z * Z) : lcfg :=
  let '(op, g, h) := r in
  set_lint g (if (if op =f? 0 then get_lint g c <? get_lint h c else get_lint g c >? get_lint h c)
              then get_lint h c else get_lint g c) c.

Definition apply_clamps (c : lcfg) : lcfg :=
  let c' := fold_left apply_clamp F.quality_clamp_rule c in
  if F.quality_clamp_guarded
  then (if (cTargetSize c >? 0) || fl_gt (cTargetPSNR c) 0 then c' else c)
  else c'.

Definition lossy_config (o : opts) (q : Z) (has_alpha : bool) : lcfg :=
  apply_clamps (lossy_config_pre o q has_alpha).

(** lossy.AlphaEncoderConfig *)
Record acfg : Type := mkA { aQuality : Z; aMethod : Z; aFilter : Z; aEffort : Z }.

Module K := WebpGen.Consts.

Definition alpha_config (o : opts) : acfg :=
  let comp := resolve F.resolve_AlphaCompression (oAlphaCompression o) in
  let filt := resolve F.resolve_AlphaFiltering (oAlphaFiltering o) in
  let qual := resolve F.resolve_AlphaQuality (oAlphaQuality o) in
  mkA qual
      (if comp =? 0 then K.lossy_AlphaNoCompression else K.lossy_AlphaLosslessCompression)
      (if filt =? 0 then K.lossy_AlphaFilterModeNone
       else if filt =? 2 then K.lossy_AlphaFilterModeBest else K.lossy_AlphaFilterModeFast)
      (oMethod o).

(** lossless.EncoderConfig plus Exact (read by encodeLossless itself). *)
Record llcfg : Type := mkLL { lQuality : Z; lMethod : Z; lNear : Z; lExact : bool }.

Definition lossless_config (o : opts) (q : Z) : llcfg := mkLL q (oMethod o) 100 (oExact o).

(** What Encode hands to the codecs. *)
Inductive eff : Type :=
| ELossless (l : llcfg) (meta : Z * Z * Z)
| ELossy (c : lcfg) (a : acfg) (exact sharp : bool) (meta : Z * Z * Z).

(** Error classes: 1 validateConfig, 2 Encode's dimension checks, 3 lossless.Encode's
    own dimension check, 10 nil writer, 11 nil image. *)
Definition effective (oo : option opts) (w h : Z) (has_alpha : bool) : Res eff :=
  let o := match oo with None => default_options | Some o => o end in
  if validate o then Err 1
  else if (w <=? 0) || (h <=? 0) then Err 2
  else if (w >? K.root_MaxDimension) || (h >? K.root_MaxDimension) then Err 2
  else match fl_to_int (oQuality o) with
       | None => Panic
       | Some q =>
         let meta := (oICC o, oEXIF o, oXMP o) in
         if oLossless o then
           if (w <=? 0) || (h <=? 0) || (w >? F.lossless_maxdim_Encode) || (h >? F.lossless_maxdim_Encode)
              || (w >? F.lossless_maxdim_EncodeToWriter) || (h >? F.lossless_maxdim_EncodeToWriter)
           then Err 3
           else Ok (ELossless (lossless_config o q) meta)
         else Ok (ELossy (lossy_config o q has_alpha) (alpha_config o) (oExact o) (oUseSharpYUV o) meta)
       end.

Definition encode_outcome (writer_nil image_nil : bool) (oo : option opts) (w h : Z) (has_alpha : bool) : Res eff :=
  if writer_nil then Err 10 else if image_nil then Err 11 else effective oo w h has_alpha.

(** lossy.initPassStats resolves QMax once more before clamping the rate control's quality
    range (rules regenerated from the source: (op, c, d) = if qmax < c (op 0) or qmax <= c
    (op 1) then d). *)
Definition ratectl_qmax (v : Z) : Z :=
  fold_left (fun q r => let '(op, c, d) := r in
                        if (if op =f? 0 then q <? c else q <=? c) then d else q)
            F.ratectl_qmax_rule v.

(** The Preprocessing bit set as the lossy encoder reads it: the segment map is smoothed
    (assignSegments) iff more than one segment is used and [Preprocessing & mask <> 0] for the
    regenerated mask(s) of the lossy package's bit tests; dithering is [cDither] above. *)
Definition segment_smooth_on (c : lcfg) : bool :=
  (cSegments c >? 1) &&
  existsb (fun t => if snd t =f? 1 then negb (Z.land (cPreprocessing c) (fst t) =? 0)
                    else Z.land (cPreprocessing c) (fst t) =? 0) F.lossy_preprocessing_tests.
Definition dither_on (c : lcfg) : bool := match cDither c with Some _ => true | None => false end.
