(** C20 — proofs about the option-handling model. *)
From Coq Require Import ZArith List Bool Lia.
From Coq Require Import ZifyBool.
From WebpGen Require Consts Funcs.
From Webp Require Import Base.Res Opts.OptsModel Opts.OptsDoc.
Import ListNotations.
Open Scope Z_scope.

(** * 1. the source says what the documentation says *)
Lemma source_matches_documentation_holds : source_matches_documentation.
Proof. unfold source_matches_documentation. repeat split; reflexivity. Qed.

(** Unfold the interpreters over the (closed) generated tables while keeping the
    arithmetic on symbolic option values folded. *)
Ltac interp :=
  cbv -[Z.ltb Z.gtb Z.geb Z.leb Z.eqb Z.land Z.lor Z.ldiff Z.quot Z.mul Z.pow fscale fl_lt fl_gt fl_ge
        fl_isnan fl_isinf fl_to_int clampZ rq rs negb orb andb].

(** * 2. the interpreted functions equal their readable forms *)
Lemma validate_eq : forall o, validate o = validate_doc o.
Proof. intros []. interp. reflexivity. Qed.

Lemma default_options_eq : default_options = doc_default_options.
Proof. vm_compute. reflexivity. Qed.

Lemma alpha_config_eq : forall o, alpha_config o = alpha_config_doc o.
Proof. intros []. interp. reflexivity. Qed.

Lemma lossy_config_pre_eq : forall o q ha, lossy_config_pre o q ha = lossy_config_doc o q ha.
Proof. intros [] q ha. interp. reflexivity. Qed.

Lemma lossy_config_eq : forall o q ha, lossy_config o q ha = apply_clamps (lossy_config_doc o q ha).
Proof. intros. unfold lossy_config. rewrite lossy_config_pre_eq. reflexivity. Qed.

Lemma effective_eq : forall oo w h ha, effective oo w h ha = effective_doc oo w h ha.
Proof.
  intros oo w h ha. unfold effective, effective_doc.
  rewrite default_options_eq.
  set (o := match oo with None => doc_default_options | Some o => o end).
  rewrite validate_eq.
  destruct (validate_doc o); [reflexivity|].
  destruct ((w <=? 0) || (h <=? 0)) eqn:Ed; [reflexivity|].
  change K.root_MaxDimension with 16383.
  destruct ((w >? 16383) || (h >? 16383)) eqn:Em; [reflexivity|].
  destruct (fl_to_int (oQuality o)) as [q|]; [|reflexivity].
  destruct (oLossless o).
  - change F.lossless_maxdim_Encode with 16383. change F.lossless_maxdim_EncodeToWriter with 16383.
    apply orb_false_elim in Em. destruct Em as [Em1 Em2]. rewrite Em1, Em2. cbn [orb].
    unfold lossless_config. reflexivity.
  - rewrite lossy_config_eq, alpha_config_eq. reflexivity.
Qed.

(** * 3. what validation guarantees *)
Definition fl_in (x : fl) (lo hi : Z) : Prop :=
  exists n, x = FFin n /\ lo * fscale <= n <= hi * fscale.
Definition fl_fin_ge0 (x : fl) : Prop := exists n, x = FFin n /\ 0 <= n.

(** The documented validity of an option value. *)
Record doc_valid (o : opts) : Prop := {
  dv_quality : fl_in (oQuality o) 0 100;
  dv_method : 0 <= oMethod o <= 6;
  dv_tsize : 0 <= oTargetSize o;
  dv_psnr : fl_fin_ge0 (oTargetPSNR o);
  dv_prep : 0 <= oPreprocessing o <= 3;
  dv_preset : 0 <= oPreset o <= 5;
  dv_sns : oSNSStrength o <= 100;
  dv_fstr : oFilterStrength o <= 100;
  dv_fsharp : 0 <= oFilterSharpness o <= 7;
  dv_ftype : oFilterType o <= 1;
  dv_parts : 0 <= oPartitions o <= 3;
  dv_segs : oSegments o <= 4;
  dv_pass : oPass o <= 10;
  dv_q : 0 <= oQMin o <= rq (oQMax o) /\ rq (oQMax o) <= 100;
  dv_acomp : oAlphaCompression o <= 1;
  dv_afilt : oAlphaFiltering o <= 2;
  dv_aqual : oAlphaQuality o <= 100;
  dv_meta : oICC o <= doc_meta_max /\ oEXIF o <= doc_meta_max /\ oXMP o <= doc_meta_max
}.

Lemma fscale_pos : 0 < fscale.
Proof. unfold fscale. apply Z.pow_pos_nonneg; lia. Qed.

Lemma validate_doc_false_iff : forall o, validate_doc o = false <-> doc_valid o.
Proof.
  intros o. unfold validate_doc. split.
  - intros H.
    repeat (apply orb_false_elim in H; let Ha := fresh "A" in destruct H as [Ha H]).
    destruct (oQuality o) as [| | |nq] eqn:EQ; cbn [fl_lt fl_gt fl_isnan fl_isinf] in *; try discriminate.
    destruct (oTargetPSNR o) as [| | |np] eqn:EP; cbn [fl_lt fl_gt fl_isnan fl_isinf] in *; try discriminate.
    unfold rq in *.
    constructor; try rewrite EQ; try rewrite EP; unfold fl_in, fl_fin_ge0, rq; try lia.
    + exists nq. split; [reflexivity|lia].
    + exists np. split; [reflexivity|lia].
  - intros [[nq [EQ Hq]] Hm Ht [np [EP Hp]] Hpr Hps Hs Hf Hfs Hft Hpa Hsg Hpp Hqq Hac Haf Haq Hme].
    rewrite EQ, EP. cbn [fl_lt fl_gt fl_isnan fl_isinf]. unfold rq in *.
    destruct (oQMax o <? 0) eqn:E;
      repeat (apply orb_false_intro; [lia|]); reflexivity.
Qed.

(** * 4. totality: Encode never panics, and fails exactly on the documented cases *)
Lemma effective_doc_not_panic : forall oo w h ha, effective_doc oo w h ha <> Panic.
Proof.
  intros oo w h ha. unfold effective_doc.
  set (o := match oo with None => doc_default_options | Some o => o end).
  destruct (validate_doc o) eqn:V; [discriminate|].
  destruct ((w <=? 0) || (h <=? 0)); [discriminate|].
  destruct ((w >? 16383) || (h >? 16383)); [discriminate|].
  apply validate_doc_false_iff in V. destruct (dv_quality _ V) as [n [E _]]. rewrite E. cbn [fl_to_int].
  destruct (oLossless o); discriminate.
Qed.

Theorem encode_total : forall wn inl oo w h ha, encode_outcome wn inl oo w h ha <> Panic.
Proof.
  intros. unfold encode_outcome. destruct wn; [discriminate|]. destruct inl; [discriminate|].
  rewrite effective_eq. apply effective_doc_not_panic.
Qed.

Definition opts_or_default (oo : option opts) : opts :=
  match oo with None => doc_default_options | Some o => o end.

Theorem encode_errors_exactly_documented : forall wn inl oo w h ha,
  (exists e, encode_outcome wn inl oo w h ha = Err e) <->
  (wn = true \/ inl = true \/ ~ doc_valid (opts_or_default oo) \/ w <= 0 \/ h <= 0 \/ w > 16383 \/ h > 16383).
Proof.
  intros. unfold encode_outcome.
  destruct wn; [split; [auto | eexists; reflexivity]|].
  destruct inl; [split; [auto | eexists; reflexivity]|].
  rewrite effective_eq. unfold effective_doc. fold (opts_or_default oo).
  set (o := opts_or_default oo).
  destruct (validate_doc o) eqn:V.
  { split; [|eexists; reflexivity]. intros _. right; right; left. intros Hv.
    apply validate_doc_false_iff in Hv. congruence. }
  pose proof (proj1 (validate_doc_false_iff o) V) as Hv.
  destruct ((w <=? 0) || (h <=? 0)) eqn:Ed; [split; [lia | eexists; reflexivity]|].
  destruct ((w >? 16383) || (h >? 16383)) eqn:Em; [split; [lia | eexists; reflexivity]|].
  destruct (dv_quality _ Hv) as [n [E _]]. rewrite E. cbn [fl_to_int].
  split.
  - intros [e He]. destruct (oLossless o); discriminate.
  - intros [H|[H|[H|H]]]; try discriminate; [contradiction | lia].
Qed.

(** * 5. every configuration handed to a codec satisfies the codec's preconditions *)
Definition lossy_pre (c : lcfg) : Prop :=
  0 <= cQuality c <= 100 /\ 0 <= cTargetSize c /\ fl_fin_ge0 (cTargetPSNR c) /\ 0 <= cMethod c <= 6 /\
  0 <= cSNS c <= 100 /\ 0 <= cFStrength c <= 100 /\ 0 <= cFSharpness c <= 7 /\ 0 <= cFType c <= 1 /\
  0 <= cPartitions c <= 3 /\ 1 <= cSegments c <= 4 /\ 1 <= cPass c <= 10 /\ 0 <= cPreprocessing c <= 3 /\
  (forall q, cDither c = Some q -> fl_in q 0 100 /\ Z.land (cPreprocessing c) 2 <> 0) /\
  (cDither c = None -> Z.land (cPreprocessing c) 2 = 0) /\
  0 <= cQMin c <= cQMax c /\ cQMax c <= 100 /\ 0 <= cHasAlpha c <= 1.

Definition alpha_pre (a : acfg) : Prop :=
  0 <= aQuality a <= 100 /\ 0 <= aMethod a <= 1 /\ (aFilter a = 0 \/ aFilter a = 4 \/ aFilter a = 5) /\
  0 <= aEffort a <= 6.

Definition lossless_pre (l : llcfg) : Prop :=
  0 <= lQuality l <= 100 /\ 0 <= lMethod l <= 6 /\ lNear l = 100.

Definition meta_pre (m : Z * Z * Z) : Prop :=
  let '(i, e, x) := m in i <= doc_meta_max /\ e <= doc_meta_max /\ x <= doc_meta_max.

Definition codec_pre (w h : Z) (e : eff) : Prop :=
  1 <= w <= 16383 /\ 1 <= h <= 16383 /\
  match e with
  | ELossless l m => lossless_pre l /\ meta_pre m
  | ELossy c a _ _ m => lossy_pre c /\ alpha_pre a /\ meta_pre m
  end.

(** The clamps found in the source (none, or Quality into [QMin, QMax], possibly only when a
    target is set) change nothing but Quality, and only to QMin or QMax. *)
Definition set_quality (q : Z) (c : lcfg) : lcfg :=
  mkL q (cTargetSize c) (cTargetPSNR c) (cMethod c) (cSNS c) (cFStrength c) (cFSharpness c) (cFType c)
      (cPartitions c) (cSegments c) (cPass c) (cPreprocessing c) (cDither c) (cQMin c) (cQMax c) (cHasAlpha c).

Lemma apply_clamps_spec : forall c, exists q',
  apply_clamps c = set_quality q' c /\
  (q' = cQuality c \/ (cQuality c < cQMin c /\ q' = cQMin c) \/ (cQuality c > cQMax c /\ q' = cQMax c)
   \/ (cQuality c < cQMin c /\ cQMin c > cQMax c /\ q' = cQMax c)).
Proof.
  intros [].
  match goal with |- context [apply_clamps ?x] =>
    let t := eval cbv -[Z.ltb Z.gtb Z.geb Z.leb Z.eqb fl_gt orb] in (apply_clamps x) in
    change (apply_clamps x) with t end.
  cbn [OptsModel.cQuality OptsModel.cQMin OptsModel.cQMax].
  destruct (cQuality <? cQMin) eqn:?;
  repeat match goal with |- context [if ?b then _ else _] => destruct b eqn:? end;
    eexists; (split; [reflexivity|]); lia.
Qed.

Lemma apply_clamps_pre : forall c, lossy_pre c -> lossy_pre (apply_clamps c).
Proof.
  intros c H. destruct (apply_clamps_spec c) as [q' [-> Hq]].
  unfold lossy_pre, set_quality in *.
  cbn [cQuality cTargetSize cTargetPSNR cMethod cSNS cFStrength cFSharpness cFType cPartitions cSegments
       cPass cPreprocessing cDither cQMin cQMax cHasAlpha].
  destruct H as (H1 & H2 & H3 & H4 & H5 & H6 & H7 & H8 & H9 & H10 & H11 & H12 & H13 & H14 & H15 & H16 & H17).
  repeat match goal with |- _ /\ _ => split end; try assumption; try lia.
Qed.

Lemma quot_range : forall n, 0 * fscale <= n <= 100 * fscale -> 0 <= Z.quot n fscale <= 100.
Proof.
  intros n H. pose proof fscale_pos as P.
  rewrite Z.quot_div_nonneg by lia.
  split; [apply Z.div_pos; lia|].
  apply Z.div_le_upper_bound; lia.
Qed.

Theorem validate_complete : forall oo w h ha e,
  effective oo w h ha = Ok e -> codec_pre w h e.
Proof.
  intros oo w h ha e. rewrite effective_eq. unfold effective_doc.
  set (o := match oo with None => doc_default_options | Some o => o end).
  destruct (validate_doc o) eqn:V; [discriminate|].
  apply validate_doc_false_iff in V.
  destruct ((w <=? 0) || (h <=? 0)) eqn:Ed; [discriminate|].
  destruct ((w >? 16383) || (h >? 16383)) eqn:Em; [discriminate|].
  destruct V as [[nq [EQ Hq]] Hm Ht [np [EP Hp]] Hpr Hps Hs Hf Hfs Hft Hpa Hsg Hpp Hqq Hac Haf Haq Hme].
  rewrite EQ. cbn [fl_to_int]. pose proof (quot_range _ Hq) as Hqr.
  destruct (oLossless o).
  - intros [= <-]. unfold codec_pre, lossless_pre, meta_pre. cbn [lQuality lMethod lNear]. lia.
  - intros [= <-]. unfold codec_pre. split; [lia|]. split; [lia|]. split; [|split].
    + apply apply_clamps_pre.
      unfold lossy_pre, lossy_config_doc, clampZ, rq, doc_SNSStrength, doc_FilterStrength, doc_FilterType,
        doc_Segments, doc_Pass in *.
      cbn [cQuality cTargetSize cTargetPSNR cMethod cSNS cFStrength cFSharpness cFType cPartitions cSegments
           cPass cPreprocessing cDither cQMin cQMax cHasAlpha].
      rewrite EP. cbn [fl_gt].
      repeat match goal with |- _ /\ _ => split end; try (destruct ha; lia); try lia.
      all: try (repeat match goal with |- context [if ?b then _ else _] => destruct b eqn:? end; lia).
      * destruct (np >? 0 * fscale) eqn:E; [exists np|exists 0]; split; try reflexivity; lia.
      * rewrite EQ. destruct (negb (Z.land (oPreprocessing o) 2 =? 0)) eqn:E; intros q [= <-].
        split; [exists nq; split; [reflexivity|lia] | lia].
      * destruct (negb (Z.land (oPreprocessing o) 2 =? 0)) eqn:E; [discriminate|]. intros _. lia.
    + unfold alpha_pre, alpha_config_doc, rs, doc_AlphaQuality, doc_AlphaCompression, doc_AlphaFiltering.
      cbn [aQuality aMethod aFilter aEffort].
      repeat match goal with |- _ /\ _ => split end;
        repeat match goal with |- context [if ?b then _ else _] => destruct b eqn:? end; lia.
    + unfold meta_pre. lia.
Qed.

(** the hypotheses are satisfiable by a non-default value *)
Example validate_complete_nonvacuous :
  exists e, effective (Some (mkOpts false (FFin (33 * fscale + 7)) 6 2 true false 300 (FFin (40 * fscale)) 3 (-1) 100 7 0 3 0 10
                               true 5 (-9) (-1) 2 0 7 0 1)) 17 16383 true = Ok e.
Proof. eexists. vm_compute. reflexivity. Qed.

(** * 6. nil options *)
Theorem nil_is_default : forall w h ha,
  effective None w h ha = effective (Some default_options) w h ha.
Proof. reflexivity. Qed.

(** ... and DefaultOptions() is accepted and resolves to the C defaults. *)
Theorem default_resolves_to_documented_defaults : forall w h ha, 1 <= w <= 16383 -> 1 <= h <= 16383 ->
  effective None w h ha =
  Ok (ELossy (mkL 75 0 (FFin 0) 4 50 60 0 1 0 4 1 0 None 0 100 (if ha then 1 else 0)) (mkA 100 1 4 4) false false (0, 0, 0)).
Proof.
  intros w h ha Hw Hh. rewrite effective_eq. unfold effective_doc.
  replace (validate_doc doc_default_options) with false by (vm_compute; reflexivity).
  replace ((w <=? 0) || (h <=? 0)) with false by lia.
  replace ((w >? 16383) || (h >? 16383)) with false by lia.
  destruct ha; vm_compute; reflexivity.
Qed.

(** * 7. documented sentinels *)
Section Sentinels.
  Variables (o : opts) (w h : Z) (ha : bool).

  Ltac sentinel s H :=
    rewrite !effective_eq; unfold effective_doc, validate_doc, lossy_config_doc, alpha_config_doc, rq, rs,
      doc_SNSStrength, doc_FilterStrength, doc_FilterType, doc_Segments, doc_Pass, doc_QMax,
      doc_AlphaCompression, doc_AlphaFiltering, doc_AlphaQuality;
    destruct o; interp;
    repeat match goal with
           | |- context [s >? ?c] => replace (s >? c) with false by lia
           | |- context [s >=? ?c] => replace (s >=? c) with false by lia
           | |- context [s <? ?c] => replace (s <? c) with true by lia
           end;
    reflexivity.

  Lemma sentinel_SNSStrength : forall s, s < 0 ->
    effective (Some (set_int F.fld_SNSStrength s o)) w h ha = effective (Some (set_int F.fld_SNSStrength doc_SNSStrength o)) w h ha.
  Proof. intros s H. sentinel s H. Qed.

  Lemma sentinel_FilterStrength : forall s, s < 0 ->
    effective (Some (set_int F.fld_FilterStrength s o)) w h ha = effective (Some (set_int F.fld_FilterStrength doc_FilterStrength o)) w h ha.
  Proof. intros s H. sentinel s H. Qed.

  Lemma sentinel_FilterType : forall s, s < 0 ->
    effective (Some (set_int F.fld_FilterType s o)) w h ha = effective (Some (set_int F.fld_FilterType doc_FilterType o)) w h ha.
  Proof. intros s H. sentinel s H. Qed.

  Lemma sentinel_Segments : forall s, s <= 0 ->
    effective (Some (set_int F.fld_Segments s o)) w h ha = effective (Some (set_int F.fld_Segments doc_Segments o)) w h ha.
  Proof. intros s H. sentinel s H. Qed.

  Lemma sentinel_Pass : forall s, s <= 0 ->
    effective (Some (set_int F.fld_Pass s o)) w h ha = effective (Some (set_int F.fld_Pass doc_Pass o)) w h ha.
  Proof. intros s H. sentinel s H. Qed.

  Lemma sentinel_QMax : forall s, s < 0 ->
    effective (Some (set_int F.fld_QMax s o)) w h ha = effective (Some (set_int F.fld_QMax doc_QMax o)) w h ha.
  Proof. intros s H. sentinel s H. Qed.

  Lemma sentinel_AlphaCompression : forall s, s < 0 ->
    effective (Some (set_int F.fld_AlphaCompression s o)) w h ha = effective (Some (set_int F.fld_AlphaCompression doc_AlphaCompression o)) w h ha.
  Proof. intros s H. sentinel s H. Qed.

  Lemma sentinel_AlphaFiltering : forall s, s < 0 ->
    effective (Some (set_int F.fld_AlphaFiltering s o)) w h ha = effective (Some (set_int F.fld_AlphaFiltering doc_AlphaFiltering o)) w h ha.
  Proof. intros s H. sentinel s H. Qed.

  Lemma sentinel_AlphaQuality : forall s, s < 0 ->
    effective (Some (set_int F.fld_AlphaQuality s o)) w h ha = effective (Some (set_int F.fld_AlphaQuality doc_AlphaQuality o)) w h ha.
  Proof. intros s H. sentinel s H. Qed.
End Sentinels.

(** * 8. lossy-only options are ignored by lossless encoding; fields without effect *)
Definition lossless_view (o : opts) := (oQuality o, oMethod o, oExact o, oICC o, oEXIF o, oXMP o).

Theorem lossy_only_ignored_by_lossless : forall o o' w h ha ha',
  oLossless o = true -> oLossless o' = true -> lossless_view o = lossless_view o' ->
  validate o = false -> validate o' = false ->
  effective (Some o) w h ha = effective (Some o') w h ha'.
Proof.
  intros o o' w h ha ha' L L' Hv V V'. rewrite validate_eq in V, V'.
  rewrite !effective_eq. unfold effective_doc. rewrite V, V', L, L'.
  unfold lossless_view in Hv. injection Hv as -> -> -> -> -> ->. reflexivity.
Qed.

Example lossy_only_ignored_nonvacuous :
  let o := mkOpts true (FFin (75 * fscale)) 4 0 false false 0 (FFin 0) 0 (-1) (-1) 0 (-1) 0 (-1) (-1) false 0 (-1) (-1) (-1) (-1) 0 0 0 in
  let o' := mkOpts true (FFin (75 * fscale)) 4 5 true false 999 (FFin (40 * fscale)) 3 100 0 7 0 3 1 10 true 50 60 0 2 0 0 0 0 in
  validate o = false /\ validate o' = false /\ lossless_view o = lossless_view o' /\ o <> o'.
Proof. repeat split; try (vm_compute; reflexivity). discriminate. Qed.

Theorem no_effect_EmulateJpegSize : forall o b w h ha,
  effective (Some (set_bool F.fld_EmulateJpegSize b o)) w h ha = effective (Some o) w h ha.
Proof. intros [] b w h ha. rewrite !effective_eq. reflexivity. Qed.

Theorem no_effect_Preset : forall o p w h ha, 0 <= p <= 5 -> 0 <= oPreset o <= 5 ->
  effective (Some (set_int F.fld_Preset p o)) w h ha = effective (Some o) w h ha.
Proof.
  intros [] p w h ha Hp Ho. cbn in Ho. rewrite !effective_eq.
  unfold effective_doc, validate_doc. interp.
  replace (p <? 0) with false by lia. replace (p >? 5) with false by lia.
  replace (oPreset <? 0) with false by lia. replace (oPreset >? 5) with false by lia.
  reflexivity.
Qed.

(** * 9. presets *)
Theorem preset_table : forall p q, options_for_preset p q = doc_preset p q.
Proof.
  intros p q. unfold options_for_preset, doc_preset.
  rewrite default_options_eq.
  change F.preset_table with doc_preset_table.
  unfold doc_preset_table, find. cbn [fst snd].
  destruct (Z.eqb_spec 1 p) as [<-|N1]; [vm_compute; reflexivity|].
  destruct (Z.eqb_spec 2 p) as [<-|N2]; [vm_compute; reflexivity|].
  destruct (Z.eqb_spec 3 p) as [<-|N3]; [vm_compute; reflexivity|].
  destruct (Z.eqb_spec 4 p) as [<-|N4]; [vm_compute; reflexivity|].
  destruct (Z.eqb_spec 5 p) as [<-|N5]; [vm_compute; reflexivity|].
  replace (p =? 1) with false by lia. replace (p =? 2) with false by lia. replace (p =? 3) with false by lia.
  replace (p =? 4) with false by lia. replace (p =? 5) with false by lia.
  destruct (Z.eqb_spec 0 p) as [<-|N0]; reflexivity.
Qed.

(** * 10. the rate control's own resolution of QMax *)
(** Full statement (documentation: QMax range 0-100, only negative values mean 100): every
    explicit in-range value reaches the rate control unchanged. *)
Definition ratectl_honours_explicit_qmax : Prop := forall v, 0 <= v <= 100 -> ratectl_qmax v = v.

(** Proved part: every positive value (whatever form the source rule has: none, [< 0] or [<= 0]). *)
Theorem ratectl_qmax_positive_honoured : forall v, 0 < v <= 100 -> ratectl_qmax v = v.
Proof.
  intros v H. unfold ratectl_qmax.
  remember F.ratectl_qmax_rule as r eqn:E. vm_compute in E. subst r. cbn.
  repeat match goal with |- context [if ?b then _ else _] => destruct b eqn:? end; lia.
Qed.

(** The full statement holds (since 17c8929 the rule is [qmax < 0]): if the source rule changes
    back, this proof breaks. *)
Theorem ratectl_honours_explicit_qmax_holds : ratectl_honours_explicit_qmax.
Proof.
  intros v H. unfold ratectl_qmax.
  remember F.ratectl_qmax_rule as r eqn:E. vm_compute in E. subst r. cbn.
  repeat match goal with |- context [if ?b then _ else _] => destruct b eqn:? end; lia.
Qed.

(** Historic defect, stated about a pinned definition that no run selects: with the rule
    [qmax <= 0 -> 100] the explicit value 0 was replaced by 100. *)
Definition pinned_ratectl_qmax_le_rule (v : Z) : Z := if v <=? 0 then 100 else v.
Theorem pinned_ratectl_le_rule_refuted : exists v, 0 <= v <= 100 /\ pinned_ratectl_qmax_le_rule v <> v.
Proof. exists 0. split; [lia|]. vm_compute. discriminate. Qed.

(** * 11. QMin / QMax as the quantizer range of Quality *)
(** Full documented statement ("QMin / QMax set the minimum / maximum quantizer value"): the
    quality handed to the lossy codec lies in [QMin, QMax]. *)
Definition quality_in_range : Prop := forall oo w h ha c a e s m,
  effective oo w h ha = Ok (ELossy c a e s m) -> cQMin c <= cQuality c <= cQMax c.
(** ... at least when the rate control runs (TargetSize or TargetPSNR set). *)
Definition quality_in_range_when_target : Prop := forall oo w h ha c a e s m,
  effective oo w h ha = Ok (ELossy c a e s m) ->
  (cTargetSize c >? 0) || fl_gt (cTargetPSNR c) 0 = true -> cQMin c <= cQuality c <= cQMax c.

Definition ex_q90_range30 (tsize : Z) : opts :=
  mkOpts false (FFin (90 * fscale)) 4 0 false false tsize (FFin 0) 0 (-1) (-1) 0 (-1) 0 (-1) (-1) false 30 30 (-1) (-1) (-1) 0 0 0.

(** Refuted on the faithful model: without a target the range is ignored (Quality 90 with
    QMin = QMax = 30 is handed over as 90). *)
Theorem quality_in_range_refuted :
  exists o c a e s m, validate o = false /\ effective (Some o) 16 16 false = Ok (ELossy c a e s m) /\
                      cTargetSize c = 0 /\ cQMax c < cQuality c.
Proof.
  exists (ex_q90_range30 0). eexists. eexists. eexists. eexists. eexists.
  split; [vm_compute; reflexivity|]. split; [vm_compute; reflexivity|]. split; vm_compute; reflexivity.
Qed.

Lemma apply_clamps_in_range : forall c, F.quality_clamp_rule <> [] -> cQMin c <= cQMax c ->
  (cTargetSize c >? 0) || fl_gt (cTargetPSNR c) 0 = true ->
  cQMin c <= cQuality (apply_clamps c) <= cQMax c.
Proof.
  intros [] Hr Hle Hg.
  first [ exfalso; apply Hr; reflexivity
        | match goal with |- context [apply_clamps ?x] =>
            let t := eval cbv -[Z.ltb Z.gtb Z.geb Z.leb Z.eqb fl_gt orb] in (apply_clamps x) in
            change (apply_clamps x) with t end;
          cbn [OptsModel.cQuality OptsModel.cQMin OptsModel.cQMax OptsModel.cTargetSize OptsModel.cTargetPSNR] in *;
          rewrite Hg;
          cbn [OptsModel.cQuality];
          destruct (cQuality <? cQMin) eqn:?;
          repeat match goal with |- context [if ?b then _ else _] => destruct b eqn:? end; lia ].
Qed.

(** With a target the range holds for every option value (since d401cf2 the propagation block
    clamps): if the clamps disappear from the source, [apply_clamps_in_range]'s premise
    [F.quality_clamp_rule <> []] can no longer be discharged and this proof breaks. *)
Theorem quality_in_range_when_target_holds : quality_in_range_when_target.
Proof.
  intros oo w h ha c a e s m He Hg.
  rewrite effective_eq in He. unfold effective_doc in He.
  set (o := match oo with None => doc_default_options | Some o => o end) in *.
  destruct (validate_doc o) eqn:V; [discriminate|].
  apply validate_doc_false_iff in V.
  destruct ((w <=? 0) || (h <=? 0)); [discriminate|].
  destruct ((w >? 16383) || (h >? 16383)); [discriminate|].
  destruct (fl_to_int (oQuality o)) as [q|]; [|discriminate].
  destruct (oLossless o); [discriminate|].
  injection He as <- _ _ _ _.
  destruct (apply_clamps_spec (lossy_config_doc o q ha)) as [q' [Es _]].
  pose proof (dv_q _ V) as Hq.
  assert (Hg' : (cTargetSize (lossy_config_doc o q ha) >? 0) || fl_gt (cTargetPSNR (lossy_config_doc o q ha)) 0 = true)
    by (rewrite Es in Hg; exact Hg).
  pose proof (apply_clamps_in_range (lossy_config_doc o q ha) ltac:(discriminate)
                ltac:(unfold lossy_config_doc; cbn [cQMin cQMax]; lia) Hg') as R.
  rewrite Es in *. unfold set_quality in *. cbn [cQuality cQMin cQMax] in *. exact R.
Qed.

(** Historic defect, about the pinned unclamped configuration [lossy_config_pre] (what the
    propagation block computed before d401cf2): Quality 90, QMin = QMax = 30, TargetSize 600. *)
Theorem pinned_unclamped_config_out_of_range :
  let c := lossy_config_pre (ex_q90_range30 600) 90 false in
  cTargetSize c = 600 /\ cQMax c = 30 /\ cQuality c = 90.
Proof. vm_compute. repeat split. Qed.

(** * 12. every field of EncoderOptions: which checks it goes through (from the regenerated tables) *)
Definition atom_fields (a : F.vatom) : list Z :=
  match a with
  | F.VLt f _ | F.VGt f _ | F.VNaN f | F.VInf f | F.VLenGt f _ | F.VResGt f _ _ _ => [f]
  | F.VGtRes f g _ _ => [f; g]
  end.
Definition field_ids : list Z := map Z.of_nat (seq 0 (length F.opts_field_kinds)).
Definition field_atoms (f : Z) : list F.vatom :=
  filter (fun a => existsb (Z.eqb f) (atom_fields a)) F.validate_atoms.
Definition field_rows (f : Z) : list (Z * Z * F.pkind) :=
  filter (fun r => snd (fst r) =? f) F.prop_table.
(** the generated per-field table: (field, kind, validation atoms, propagation rows) *)
Definition field_treatment : list (Z * Z * list F.vatom * list (Z * Z * F.pkind)) :=
  map (fun f => (f, kind_of f, field_atoms f, field_rows f)) field_ids.

Definition has_atom (p : F.vatom -> bool) (f : Z) : bool := existsb p (field_atoms f).

(** every non-bool field (int, float32, Preset, blob) is constrained by validateConfig *)
Theorem every_numeric_field_validated :
  forallb (fun f => (kind_of f =? 0) || negb (match field_atoms f with [] => true | _ => false end)) field_ids = true.
Proof. vm_compute. reflexivity. Qed.

(** every float32 field rejects NaN, +-Inf and negative values *)
Theorem every_float_field_rejects_nan_inf_negative :
  forallb (fun f => negb (kind_of f =? 1) ||
                    (has_atom (fun a => match a with F.VNaN _ => true | _ => false end) f &&
                     has_atom (fun a => match a with F.VInf _ => true | _ => false end) f &&
                     has_atom (fun a => match a with F.VLt _ 0 => true | _ => false end) f)) field_ids = true.
Proof. vm_compute. reflexivity. Qed.

(** every int field has an upper bound; every field without a documented negative sentinel
    also has the lower bound 0 *)
Theorem every_int_field_bounded_above_except_target_size :
  forallb (fun f => negb ((kind_of f =? 2) || (kind_of f =? 4)) || (f =? F.fld_TargetSize) ||
                    has_atom (fun a => match a with F.VGt _ _ | F.VResGt _ _ _ _ | F.VGtRes _ _ _ _ => true | _ => false end) f) field_ids = true.
Proof. vm_compute. reflexivity. Qed.

(** * 13. documentation conformance, field by field: an option left at its documented default
    value (DefaultOptions()'s sentinel) resolves to the documented default, whatever the other
    fields are. *)
Lemma apply_clamps_keeps : forall c,
  cSNS (apply_clamps c) = cSNS c /\ cFStrength (apply_clamps c) = cFStrength c /\ cFType (apply_clamps c) = cFType c /\
  cSegments (apply_clamps c) = cSegments c /\ cPass (apply_clamps c) = cPass c /\ cQMax (apply_clamps c) = cQMax c /\
  cQMin (apply_clamps c) = cQMin c /\ cMethod (apply_clamps c) = cMethod c /\ cPartitions (apply_clamps c) = cPartitions c /\
  cFSharpness (apply_clamps c) = cFSharpness c /\ cPreprocessing (apply_clamps c) = cPreprocessing c.
Proof. intros c. destruct (apply_clamps_spec c) as [q' [-> _]]. unfold set_quality. cbn. repeat split. Qed.

Theorem default_resolves_to_documented : forall o q ha,
  (oSNSStrength o = -1 -> cSNS (lossy_config o q ha) = doc_SNSStrength) /\
  (oFilterStrength o = -1 -> cFStrength (lossy_config o q ha) = doc_FilterStrength) /\
  (oFilterType o = -1 -> cFType (lossy_config o q ha) = doc_FilterType) /\
  (oSegments o = -1 -> cSegments (lossy_config o q ha) = doc_Segments) /\
  (oPass o = -1 -> cPass (lossy_config o q ha) = doc_Pass) /\
  (oQMax o = -1 -> cQMax (lossy_config o q ha) = doc_QMax) /\
  (oQMin o = 0 -> cQMin (lossy_config o q ha) = 0) /\
  (oPartitions o = 0 -> cPartitions (lossy_config o q ha) = 0) /\
  (oFilterSharpness o = 0 -> cFSharpness (lossy_config o q ha) = 0) /\
  (oMethod o = 4 -> cMethod (lossy_config o q ha) = 4) /\
  (oAlphaCompression o = -1 -> aMethod (alpha_config o) = 1) /\
  (oAlphaFiltering o = -1 -> aFilter (alpha_config o) = 4) /\
  (oAlphaQuality o = -1 -> aQuality (alpha_config o) = doc_AlphaQuality).
Proof.
  intros o q ha. rewrite lossy_config_eq, alpha_config_eq.
  destruct (apply_clamps_keeps (lossy_config_doc o q ha)) as (K1 & K2 & K3 & K4 & K5 & K6 & K7 & K8 & K9 & K10 & K11).
  rewrite K1, K2, K3, K4, K5, K6, K7, K8, K9, K10.
  unfold lossy_config_doc, alpha_config_doc, rq, rs. cbn [cSNS cFStrength cFType cSegments cPass cQMax cQMin cMethod
    cPartitions cFSharpness aMethod aFilter aQuality].
  repeat split; intros ->; reflexivity.
Qed.

(** The zero value EncoderOptions{} is accepted and is NOT DefaultOptions(): it means quality 0,
    method 0, no SNS, no filter, raw unfiltered alpha at quality 0; only Segments and Pass fall
    back to their defaults. *)
Theorem zero_value_options_resolve_to : forall w h ha, 1 <= w <= 16383 -> 1 <= h <= 16383 ->
  effective (Some zero_opts) w h ha =
  Ok (ELossy (mkL 0 0 (FFin 0) 0 0 0 0 0 0 4 1 0 None 0 0 (if ha then 1 else 0)) (mkA 0 0 0 0) false false (0, 0, 0)).
Proof.
  intros w h ha Hw Hh. rewrite effective_eq. unfold effective_doc.
  replace (validate_doc zero_opts) with false by (vm_compute; reflexivity).
  replace ((w <=? 0) || (h <=? 0)) with false by lia.
  replace ((w >? 16383) || (h >? 16383)) with false by lia.
  destruct ha; vm_compute; reflexivity.
Qed.

(** * 14. the Preprocessing bit set: each bit acts whatever the other bit is *)
Definition doc_preprocessing_tests : list (Z * Z) := [(1, 1)].
Lemma preprocessing_tests_match_doc : F.lossy_preprocessing_tests = doc_preprocessing_tests /\ F.dither_mask = 2.
Proof. split; reflexivity. Qed.

(** For every accepted lossy request: segment smoothing is on iff bit 0 is set (and more than
    one segment is used), dithering is on iff bit 1 is set - for all four values 0..3, i.e. the
    documented table 0 = none, 1 = segment smooth, 2 = dithering, 3 = both. *)
Theorem preprocessing_bits_meaning : forall oo w h ha c a e s m,
  effective oo w h ha = Ok (ELossy c a e s m) ->
  0 <= cPreprocessing c <= 3 /\
  segment_smooth_on c = ((cSegments c >? 1) && ((cPreprocessing c =? 1) || (cPreprocessing c =? 3))) /\
  dither_on c = ((cPreprocessing c =? 2) || (cPreprocessing c =? 3)).
Proof.
  intros oo w h ha c a e s m He.
  pose proof (validate_complete oo w h ha _ He) as (_ & _ & Hp & _).
  destruct Hp as (_ & _ & _ & _ & _ & _ & _ & _ & _ & _ & _ & Hprep & Hd1 & Hd2 & _).
  split; [exact Hprep|].
  unfold segment_smooth_on, dither_on. change F.lossy_preprocessing_tests with doc_preprocessing_tests.
  unfold doc_preprocessing_tests. cbn [existsb fst snd]. change (1 =f? 1) with true. cbv iota.
  assert (Hc : cPreprocessing c = 0 \/ cPreprocessing c = 1 \/ cPreprocessing c = 2 \/ cPreprocessing c = 3) by lia.
  split.
  - destruct Hc as [E|[E|[E|E]]]; rewrite E; cbn; rewrite ?orb_false_r, ?andb_true_r, ?andb_false_r; reflexivity.
  - destruct (cDither c) as [q|] eqn:Ed.
    + destruct (Hd1 q eq_refl) as [_ Hn].
      destruct Hc as [E|[E|[E|E]]]; rewrite E in *; cbn in *; try reflexivity; exfalso; apply Hn; reflexivity.
    + pose proof (Hd2 eq_refl) as Hz.
      destruct Hc as [E|[E|[E|E]]]; rewrite E in *; cbn in *; try reflexivity; discriminate.
Qed.
