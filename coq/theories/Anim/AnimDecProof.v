(** AnimDecoder (implementation model) refines the container specification. *)
From Coq Require Import List ZArith Lia Bool ZifyBool.
From Webp Require Import Anim.Blend Anim.Canvas Anim.AnimDec.
Import ListNotations.
Open Scope Z_scope.

Ltac Zify.zify_post_hook ::= Z.div_mod_to_equations.

Definition int64 (z : Z) : Prop := - 2^63 <= z < 2^63.

Record wf_frame (f : frame) : Prop := {
  wf_fx : int64 (fx f);
  wf_fy : int64 (fy f);
  wf_fw : 0 <= fw f < 2^62;
  wf_fh : 0 <= fh f < 2^62;
  wf_len : Z.of_nat (length (fpix f)) = fw f * fh f;
  wf_pix : Forall wf_px (fpix f)
}.

Lemma all_opaque_sound f : all_opaque f = true -> Forall (fun p => pa p = 255) (fpix f).
Proof.
  unfold all_opaque. rewrite forallb_forall, Forall_forall. intros H p Hp.
  apply Z.eqb_eq. apply H. exact Hp.
Qed.

Definition wf_dims (W H : Z) : Prop := 1 <= W /\ 1 <= H /\ W * H <= 2^30.

Definition wf_canvas (W H : Z) (c : canvas) : Prop :=
  length c = Z.to_nat (W * H) /\
  forall x y, 0 <= x < W -> 0 <= y < H -> wf_px (cget W c x y).

Lemma wf_px0 : wf_px px0.
Proof. unfold wf_px, px0; cbn; lia. Qed.

Lemma tab_cget W H c : 0 < W -> 0 <= H -> length c = Z.to_nat (W * H) ->
  tab W H (fun x y => cget W c x y) = c.
Proof.
  intros HW HH Hlen. apply nth_ext with (d := px0) (d' := px0).
  - rewrite tab_length. symmetry. exact Hlen.
  - intros n Hn. rewrite tab_length in Hn.
    unfold tab.
    rewrite nth_map_zrange by lia.
    unfold cget. f_equal.
    assert (Hn' : 0 <= Z.of_nat n < W * H) by lia.
    pose proof (Z.div_mod (Z.of_nat n) W ltac:(lia)) as Hdm.
    replace (Z.of_nat n / W * W + Z.of_nat n mod W) with (Z.of_nat n) by lia.
    apply Nat2Z.id.
Qed.

Lemma wf_canvas_tab W H g : 0 < W ->
  (forall x y, 0 <= x < W -> 0 <= y < H -> wf_px (g x y)) -> wf_canvas W H (tab W H g).
Proof.
  intros HW Hg. split; [apply tab_length|].
  intros x y Hx Hy. rewrite cget_tab by assumption. apply Hg; assumption.
Qed.

Lemma wf_blank W H : 0 < W -> wf_canvas W H (blank W H).
Proof. intros HW. apply wf_canvas_tab; [exact HW|]. intros; apply wf_px0. Qed.

Lemma fget_wf f sx sy : Forall wf_px (fpix f) -> wf_px (fget f sx sy).
Proof.
  intros HF. unfold fget.
  destruct (nth_in_or_default (Z.to_nat (sy * fw f + sx)) (fpix f) px0) as [Hin|Hdef].
  - rewrite Forall_forall in HF. apply HF; exact Hin.
  - rewrite Hdef. apply wf_px0.
Qed.

Lemma wf_composite W H c f : 0 < W -> wf_canvas W H c -> Forall wf_px (fpix f) ->
  wf_canvas W H (composite W H c f).
Proof.
  intros HW [_ Hc] Hf. apply wf_canvas_tab; [exact HW|]. intros x y Hx Hy.
  destruct (in_rect _ x y); [|apply Hc; assumption].
  destruct (fblend_none f); [apply fget_wf; exact Hf|].
  apply blend_spec_wf; [apply fget_wf; exact Hf|apply Hc; assumption].
Qed.

Lemma wf_fill W H c r : 0 < W -> wf_canvas W H c -> wf_canvas W H (fill W H c r).
Proof.
  intros HW [_ Hc]. apply wf_canvas_tab; [exact HW|]. intros x y Hx Hy.
  destruct (in_rect r x y); [apply wf_px0|apply Hc; assumption].
Qed.

(* ------------------------------------------------------------------ *)
(* Geometry: the Go rectangle arithmetic clips exactly like the true rectangle. *)

Lemma wrap64_id z : int64 z -> wrap64 z = z.
Proof. unfold int64, wrap64. intros H. lia. Qed.

Lemma go_bounds_char f : wf_frame f ->
  go_bounds f = mkrect (fx f) (fy f) (Z.min (fx f + fw f) maxint) (Z.min (fy f + fh f) maxint).
Proof.
  intros [Hfx Hfy Hfw Hfh _ _]. unfold int64 in *.
  unfold go_bounds, go_rect, maxint, wrap64.
  change (2^63) with 9223372036854775808 in *.
  change (2^64) with 18446744073709551616 in *.
  change (2^62) with 4611686018427387904 in *.
  set (mx := (fx f + fw f + 9223372036854775808) mod 18446744073709551616 - 9223372036854775808).
  set (my := (fy f + fh f + 9223372036854775808) mod 18446744073709551616 - 9223372036854775808).
  assert (Hmx : (if (0 <? fw f) && (mx <? fx f) then 9223372036854775808 - 1 else mx)
                = Z.min (fx f + fw f) (9223372036854775808 - 1)).
  { unfold mx. destruct (Z.ltb_spec 0 (fw f)); destruct (Z.ltb_spec
      ((fx f + fw f + 9223372036854775808) mod 18446744073709551616 - 9223372036854775808) (fx f));
    cbn [andb]; lia. }
  assert (Hmy : (if (0 <? fh f) && (my <? fy f) then 9223372036854775808 - 1 else my)
                = Z.min (fy f + fh f) (9223372036854775808 - 1)).
  { unfold my. destruct (Z.ltb_spec 0 (fh f)); destruct (Z.ltb_spec
      ((fy f + fh f + 9223372036854775808) mod 18446744073709551616 - 9223372036854775808) (fy f));
    cbn [andb]; lia. }
  rewrite Hmx, Hmy.
  destruct (Z.ltb_spec (Z.min (fx f + fw f) (9223372036854775808 - 1)) (fx f)); [lia|].
  destruct (Z.ltb_spec (Z.min (fy f + fh f) (9223372036854775808 - 1)) (fy f)); [lia|].
  reflexivity.
Qed.

Lemma go_bounds_clip W H f x y :
  wf_dims W H -> wf_frame f -> 0 <= x < W -> 0 <= y < H ->
  in_rect (intersect (go_bounds f) (canvas_bounds W H)) x y = in_rect (true_rect f) x y.
Proof.
  intros (HW & HH & HA) Hf Hx Hy. rewrite (go_bounds_char f Hf).
  destruct Hf as [Hfx Hfy Hfw Hfh _ _]. unfold int64 in *.
  assert (HWb : W <= 2^30) by nia. assert (HHb : H <= 2^30) by nia.
  unfold intersect, canvas_bounds, rect_empty, true_rect, in_rect, maxint.
  cbn [rx0 ry0 rx1 ry1].
  change (2^63) with 9223372036854775808 in *.
  change (2^62) with 4611686018427387904 in *.
  change (2^30) with 1073741824 in *.
  match goal with
  | |- context [if ?b then _ else _] =>
      let E := fresh "E" in destruct b eqn:E; cbn [rx0 ry0 rx1 ry1]
  end; lia.
Qed.

Lemma go_bounds_empty W H f :
  wf_dims W H -> wf_frame f ->
  rect_empty (intersect (go_bounds f) (canvas_bounds W H)) = true ->
  forall x y, 0 <= x < W -> 0 <= y < H -> in_rect (true_rect f) x y = false.
Proof.
  intros Hd Hf He x y Hx Hy. rewrite <- (go_bounds_clip W H f x y Hd Hf Hx Hy).
  unfold rect_empty in He. unfold in_rect.
  destruct (intersect (go_bounds f) (canvas_bounds W H)) as [a b c d]; cbn [rx0 ry0 rx1 ry1] in *.
  lia.
Qed.

Lemma src_coords W H f x y :
  wf_dims W H -> wf_frame f -> 0 <= x < W -> 0 <= y < H ->
  in_rect (true_rect f) x y = true ->
  wrap64 (x - fx f) = x - fx f /\ wrap64 (y - fy f) = y - fy f /\
  0 <= x - fx f < fw f /\ 0 <= y - fy f < fh f.
Proof.
  intros (HW & HH & HA) Hf Hx Hy Hin.
  destruct Hf as [Hfx Hfy Hfw Hfh _ _]. unfold int64 in *.
  unfold in_rect, true_rect in Hin; cbn [rx0 ry0 rx1 ry1] in Hin.
  assert (H1 : 0 <= x - fx f < fw f) by lia.
  assert (H2 : 0 <= y - fy f < fh f) by lia.
  repeat split; try lia; apply wrap64_id; unfold int64;
  change (2^63) with 9223372036854775808 in *;
  change (2^62) with 4611686018427387904 in *; lia.
Qed.

Lemma composite_impl_eq W H c f :
  wf_dims W H -> wf_frame f -> wf_canvas W H c ->
  composite_impl W H c f = composite W H c f.
Proof.
  intros Hd Hf Hc. pose proof Hd as (HW & HH & HA).
  unfold composite_impl.
  destruct (rect_empty (intersect (go_bounds f) (canvas_bounds W H))) eqn:He.
  - unfold composite. rewrite <- (tab_cget W H c) at 1 by (try lia; apply Hc).
    apply tab_ext; [lia|]. intros x y Hx Hy.
    rewrite (go_bounds_empty W H f Hd Hf He x y Hx Hy). reflexivity.
  - unfold composite. apply tab_ext; [lia|]. intros x y Hx Hy.
    rewrite (go_bounds_clip W H f x y Hd Hf Hx Hy).
    destruct (in_rect (true_rect f) x y) eqn:Hin; [|reflexivity].
    destruct (src_coords W H f x y Hd Hf Hx Hy Hin) as (-> & -> & Hsx & Hsy).
    destruct (Z.ltb_spec (y - fy f) 0); [lia|].
    destruct (Z.leb_spec (fh f) (y - fy f)); [lia|].
    destruct (Z.ltb_spec (x - fx f) 0); [lia|].
    destruct (Z.leb_spec (fw f) (x - fx f)); [lia|].
    cbn [andb orb negb].
    destruct (fblend_none f); [reflexivity|].
    apply blend_impl_eq_spec.
    + apply fget_wf. apply (wf_pix f Hf).
    + apply Hc; assumption.
Qed.

Lemma fill_impl_eq W H c f :
  wf_dims W H -> wf_frame f ->
  fill_impl W H c (go_bounds f) = fill W H c (true_rect f).
Proof.
  intros Hd Hf. pose proof Hd as (HW & HH & HA).
  unfold fill_impl, fill. apply tab_ext; [lia|]. intros x y Hx Hy.
  rewrite (go_bounds_clip W H f x y Hd Hf Hx Hy). reflexivity.
Qed.

(* ------------------------------------------------------------------ *)
(* Key-frame shortcut.                                                  *)

(** "c is transparent outside r (inside the canvas)". *)
Definition clear_outside (W H : Z) (c : canvas) (r : rect) : Prop :=
  forall x y, 0 <= x < W -> 0 <= y < H -> in_rect r x y = false -> cget W c x y = px0.

Lemma fill_blank W H c r : 0 < W -> clear_outside W H c r -> fill W H c r = blank W H.
Proof.
  intros HW Hc. unfold fill, blank. apply tab_ext; [exact HW|]. intros x y Hx Hy.
  destruct (in_rect r x y) eqn:E; [reflexivity|]. apply Hc; assumption.
Qed.

Lemma composite_clear_outside W H f : 0 < W ->
  clear_outside W H (composite W H (blank W H) f) (true_rect f).
Proof.
  intros HW x y Hx Hy Hout. unfold composite. rewrite cget_tab by assumption.
  rewrite Hout. unfold blank. rewrite cget_tab by assumption. reflexivity.
Qed.

Lemma fget_opaque f sx sy :
  Forall (fun p => pa p = 255) (fpix f) ->
  0 <= sx < fw f -> 0 <= sy < fh f -> Z.of_nat (length (fpix f)) = fw f * fh f ->
  pa (fget f sx sy) = 255.
Proof.
  intros HF Hx Hy Hlen. unfold fget. rewrite Forall_forall in HF. apply HF.
  apply nth_In. nia.
Qed.

(** A full-canvas frame that overwrites, or blends only opaque pixels, gives a
    result independent of the canvas underneath. *)
Lemma composite_full_indep W H c c' f :
  wf_dims W H -> wf_frame f ->
  fx f = 0 -> fy f = 0 -> fw f = W -> fh f = H ->
  (fblend_none f = true \/ Forall (fun p => pa p = 255) (fpix f)) ->
  composite W H c f = composite W H c' f.
Proof.
  intros (HW & HH & HA) Hf E1 E2 E3 E4 Hov. unfold composite. apply tab_ext; [lia|].
  intros x y Hx Hy.
  assert (Hin : in_rect (true_rect f) x y = true).
  { unfold in_rect, true_rect; cbn [rx0 ry0 rx1 ry1]. lia. }
  rewrite Hin. destruct (fblend_none f) eqn:Eb; [reflexivity|].
  destruct Hov as [Hov|Hov]; [discriminate|].
  rewrite !blend_src_opaque; try reflexivity;
    apply fget_opaque; try assumption; try lia; apply (wf_len f Hf).
Qed.

(** Relation between the implementation state after k frames and the
    specification state [(c, prev)]. *)
Definition inv (W H : Z) (st : dstate) (c : canvas) (prev : option (rect * bool)) : Prop :=
  wf_canvas W H c /\
  match prev with
  | None => prevd st = c /\ c = blank W H /\ pdisp st = false
  | Some (r, d) =>
      exists f, wf_frame f /\ r = true_rect f /\ d = fdispose_bg f /\
                pbounds st = go_bounds f /\ pdisp st = d /\
                prevd st = (if d then fill W H c r else c) /\
                (was_key st = true -> clear_outside W H c r)
  end.

Lemma pfull_covers W H f :
  wf_dims W H -> wf_frame f ->
  let pb := go_bounds f in
  ((rx0 pb =? 0) && (ry0 pb =? 0) && (wrap64 (rx1 pb - rx0 pb) =? W) &&
   (wrap64 (ry1 pb - ry0 pb) =? H)) = true ->
  forall x y, 0 <= x < W -> 0 <= y < H -> in_rect (true_rect f) x y = true.
Proof.
  intros (HW & HH & HA) Hf pb Hp x y Hx Hy. unfold pb in Hp. rewrite (go_bounds_char f Hf) in Hp.
  destruct Hf as [Hfx Hfy Hfw Hfh _ _]. unfold int64 in *.
  assert (HWb : W <= 2^30) by nia. assert (HHb : H <= 2^30) by nia.
  revert Hp. unfold true_rect, in_rect, maxint, wrap64.
  cbn [rx0 ry0 rx1 ry1].
  change (2^63) with 9223372036854775808 in *.
  change (2^64) with 18446744073709551616 in *.
  change (2^62) with 4611686018427387904 in *.
  change (2^30) with 1073741824 in *.
  intros Hp. lia.
Qed.

Lemma clear_outside_full W H c r :
  (forall x y, 0 <= x < W -> 0 <= y < H -> in_rect r x y = true) -> clear_outside W H c r.
Proof. intros Hall x y Hx Hy Hout. rewrite Hall in Hout by assumption. discriminate. Qed.

(** One step: the snapshot equals the specification's canvas and the relation
    is re-established. *)
Lemma step_refines W H first f st c prev :
  wf_dims W H -> wf_frame f ->
  inv W H st c prev -> (first = true <-> prev = None) ->
  let c1 := match prev with Some (r, true) => fill W H c r | _ => c end in
  let c2 := composite W H c1 f in
  fst (next_frame W H first f st) = c2 /\
  inv W H (snd (next_frame W H first f st)) c2 (Some (true_rect f, fdispose_bg f)).
Proof.
  intros Hd Hf [Hwc Hinv] Hfirst c1 c2. pose proof Hd as (HW & HH & HA).
  assert (Hprevd : prevd st = c1 /\ wf_canvas W H c1).
  { unfold c1. destruct prev as [[r d]|].
    - destruct Hinv as (f0 & _ & _ & _ & _ & _ & Hp & _). rewrite Hp.
      destruct d; split; auto. apply wf_fill; [lia|exact Hwc].
    - destruct Hinv as (Hp & _ & _). split; auto. }
  destruct Hprevd as [Hprevd Hwc1].
  (* the canvas the implementation starts from gives the same composite *)
  assert (Hstart : composite W H (if is_key W H first f st then blank W H else prevd st) f = c2).
  { destruct (is_key W H first f st) eqn:Ek; [|rewrite Hprevd; reflexivity].
    unfold is_key in Ek. destruct first.
    - (* first frame *)
      destruct Hfirst as [Hfirst _]. specialize (Hfirst eq_refl). subst prev.
      destruct Hinv as (_ & Hb & _). unfold c2, c1. rewrite Hb. reflexivity.
    - destruct ((fx f =? 0) && (fy f =? 0) && (fw f =? W) && (fh f =? H) &&
                (fblend_none f || (negb (fhas_alpha f) && all_opaque f))) eqn:Efull.
      + (* full-canvas frame *)
        apply andb_prop in Efull as [Efull Eov].
        apply andb_prop in Efull as [Efull E4]. apply andb_prop in Efull as [Efull E3].
        apply andb_prop in Efull as [E1 E2].
        apply composite_full_indep; try assumption; try lia.
        apply orb_prop in Eov as [Eov|Eov]; [left; exact Eov|right].
        apply andb_prop in Eov as [_ Eov]. apply all_opaque_sound. exact Eov.
      + (* previous frame disposed to background *)
        destruct (pdisp st) eqn:Epd; [|discriminate].
        destruct prev as [[r d]|].
        * destruct Hinv as (f0 & Hf0 & Hr & Hdd & Hpb & Hpd & _ & Hkey). subst r d.
          rewrite Hpd in Epd. unfold c2, c1. rewrite <- Hpd.
          f_equal. symmetry. apply fill_blank; [lia|]. clear c1 c2 Hprevd Hwc1.
          rewrite Hpb in Ek. apply orb_prop in Ek as [Ek|Ek].
          -- apply clear_outside_full. apply (pfull_covers W H f0 Hd Hf0 Ek).
          -- apply Hkey. exact Ek.
        * destruct Hinv as (_ & _ & Hpd). congruence. }
  assert (Hc2 : wf_canvas W H c2).
  { unfold c2. apply wf_composite; [lia|exact Hwc1|apply (wf_pix f Hf)]. }
  assert (Hsnap : fst (next_frame W H first f st) = c2).
  { unfold next_frame; cbn [fst]. rewrite composite_impl_eq; try assumption.
    destruct (is_key W H first f st); [apply wf_blank; lia|rewrite Hprevd; exact Hwc1]. }
  split; [exact Hsnap|].
  split; [exact Hc2|].
  exists f. unfold next_frame in *; cbn [fst snd curr prevd was_key pdisp pbounds] in *.
  rewrite Hsnap.
  split; [exact Hf|]. split; [reflexivity|]. split; [reflexivity|].
  split; [reflexivity|]. split; [reflexivity|]. split.
  - destruct (fdispose_bg f); [|reflexivity]. apply fill_impl_eq; assumption.
  - intros Ek. rewrite Ek in Hstart. rewrite <- Hstart. apply composite_clear_outside. lia.
Qed.

Lemma go_refines W H fs : forall first st c prev,
  wf_dims W H -> Forall wf_frame fs ->
  inv W H st c prev -> (first = true <-> prev = None) ->
  impl_go W H first st fs = spec_go W H c prev fs.
Proof.
  induction fs as [|f fs IH]; intros first st c prev Hd Hwf Hinv Hfirst; [reflexivity|].
  inversion Hwf as [|? ? Hf Hwf']; subst.
  cbn [impl_go spec_go].
  destruct (step_refines W H first f st c prev Hd Hf Hinv Hfirst) as [Hs Hi].
  destruct (next_frame W H first f st) as [snap st'] eqn:En. cbn [fst snd] in *.
  rewrite Hs. f_equal.
  apply IH; try assumption. split; [discriminate|discriminate].
Qed.

Theorem animdec_refines_spec W H fs :
  wf_dims W H -> Forall wf_frame fs ->
  impl_run W H fs = spec_run W H fs.
Proof.
  intros Hd Hwf. unfold impl_run, spec_run.
  apply go_refines; try assumption.
  - split; [apply wf_blank; destruct Hd; lia|]. cbn. repeat split; reflexivity.
  - split; reflexivity.
Qed.
