(** Per-step facts about the AnimEncoder model: the changed rectangle covers every
    differing pixel, snapping to even offsets and clipping keep that, rectangle
    scans, list surgery on the muxer's frame list, [collapse] arithmetic. *)
From Coq Require Import List ZArith Lia Bool ZifyBool.
From Webp Require Import Anim.Blend Anim.Canvas Anim.AnimDec Anim.AnimDecProof
  Anim.AnimEncModel Anim.AnimEncSpec.
Import ListNotations.
Open Scope Z_scope.

Ltac Zify.zify_post_hook ::= Z.div_mod_to_equations.

(* ------------------------------------------------------------------ *)
(* scans                                                                *)

Lemma first_from_spec P k : forall i r, first_from P k i = Some r ->
  i <= r < i + Z.of_nat k /\ P r = true /\ forall j, i <= j < r -> P j = false.
Proof.
  induction k as [|k IH]; intros i r Hf; cbn [first_from] in Hf; [discriminate|].
  destruct (P i) eqn:HP.
  - injection Hf as <-. repeat split; try lia. exact HP.
  - destruct (IH _ _ Hf) as (Hr & Hp & Hb). repeat split; try lia; [exact Hp|].
    intros j Hj. destruct (Z.eq_dec j i) as [->|]; [exact HP|]. apply Hb. lia.
Qed.

Lemma first_from_none P k : forall i, first_from P k i = None ->
  forall j, i <= j < i + Z.of_nat k -> P j = false.
Proof.
  induction k as [|k IH]; intros i Hf j Hj; [lia|]. cbn [first_from] in Hf.
  destruct (P i) eqn:HP; [discriminate|].
  destruct (Z.eq_dec j i) as [->|]; [exact HP|]. apply (IH _ Hf). lia.
Qed.

Lemma last_from_spec P k : forall i r, last_from P k i = Some r ->
  i - Z.of_nat k < r <= i /\ P r = true /\ forall j, r < j <= i -> P j = false.
Proof.
  induction k as [|k IH]; intros i r Hf; cbn [last_from] in Hf; [discriminate|].
  destruct (P i) eqn:HP.
  - injection Hf as <-. repeat split; try lia. exact HP.
  - destruct (IH _ _ Hf) as (Hr & Hp & Hb). repeat split; try lia; [exact Hp|].
    intros j Hj. destruct (Z.eq_dec j i) as [->|]; [exact HP|]. apply Hb. lia.
Qed.

Lemma last_from_none P k : forall i, last_from P k i = None ->
  forall j, i - Z.of_nat k < j <= i -> P j = false.
Proof.
  induction k as [|k IH]; intros i Hf j Hj; [lia|]. cbn [last_from] in Hf.
  destruct (P i) eqn:HP; [discriminate|].
  destruct (Z.eq_dec j i) as [->|]; [exact HP|]. apply (IH _ Hf). lia.
Qed.

Lemma zspan_In a b j : In j (zspan a b) <-> a <= j < b.
Proof.
  unfold zspan. rewrite in_map_iff. split.
  - intros (i & <- & Hi). apply zrange_In in Hi. lia.
  - intros Hj. exists (j - a). split; [lia|]. apply zrange_In. lia.
Qed.

Lemma row_diff_true W a b x y : 0 <= x < W -> px_diff W a b x y = true -> row_diff W a b y = true.
Proof.
  intros Hx Hd. unfold row_diff. apply existsb_exists. exists x. split; [apply zrange_In; lia|exact Hd].
Qed.

Lemma col_diff_true W a b y0 y1 x y : y0 <= y < y1 -> px_diff W a b x y = true ->
  col_diff W a b y0 y1 x = true.
Proof.
  intros Hy Hd. unfold col_diff. apply existsb_exists. exists y. split; [apply zspan_In; lia|exact Hd].
Qed.

(* ------------------------------------------------------------------ *)
(* findChangedRect covers every differing pixel                         *)

Lemma in_rect_go_rect a b c d x y : a <= c -> b <= d ->
  in_rect (go_rect a b c d) x y = (a <=? x) && (x <? c) && (b <=? y) && (y <? d).
Proof.
  intros H1 H2. unfold go_rect, in_rect; cbn [rx0 ry0 rx1 ry1].
  destruct (Z.ltb_spec c a); [lia|]. destruct (Z.ltb_spec d b); [lia|]. reflexivity.
Qed.

Lemma changed_rect_covers_diff W H prev curr x y :
  0 < W -> 0 < H -> 0 <= x < W -> 0 <= y < H ->
  px_diff W prev curr x y = true ->
  in_rect (find_changed_rect W H prev curr) x y = true.
Proof.
  intros HW HH Hx Hy Hd. unfold find_changed_rect.
  destruct (Z.eqb_spec W 0); [lia|]. destruct (Z.eqb_spec H 0); [lia|]. cbn [orb].
  pose proof (row_diff_true W prev curr x y Hx Hd) as Hrow.
  destruct (first_from (row_diff W prev curr) (Z.to_nat H) 0) as [minY|] eqn:Hf.
  2:{ pose proof (first_from_none _ _ _ Hf y ltac:(lia)). congruence. }
  destruct (first_from_spec _ _ _ _ Hf) as (HminY & _ & HbeforeY).
  assert (HminYy : minY <= y).
  { destruct (Z.le_gt_cases minY y); [assumption|]. rewrite HbeforeY in Hrow by lia. discriminate. }
  set (maxY := match last_from (row_diff W prev curr) (Z.to_nat (H - 1 - minY)) (H - 1) with
               | Some y0 => y0 + 1 | None => minY + 1 end).
  assert (HmaxY : y < maxY /\ minY < maxY).
  { unfold maxY. destruct (last_from _ _ _) as [ly|] eqn:Hl.
    - destruct (last_from_spec _ _ _ _ Hl) as (Hly & _ & Hafter).
      split; [|lia]. destruct (Z.lt_ge_cases y (ly + 1)); [assumption|].
      rewrite Hafter in Hrow by lia. discriminate.
    - split; [|lia]. destruct (Z.eq_dec y minY); [lia|].
      pose proof (last_from_none _ _ _ Hl y ltac:(lia)). congruence. }
  destruct HmaxY as [HyM HmM].
  pose proof (col_diff_true W prev curr minY maxY x y ltac:(lia) Hd) as Hcol.
  destruct (first_from (col_diff W prev curr minY maxY) (Z.to_nat W) 0) as [minX|] eqn:Hfx.
  2:{ pose proof (first_from_none _ _ _ Hfx x ltac:(lia)). congruence. }
  destruct (last_from (col_diff W prev curr minY maxY) (Z.to_nat W) (W - 1)) as [lastX|] eqn:Hlx.
  2:{ pose proof (last_from_none _ _ _ Hlx x ltac:(lia)). congruence. }
  destruct (first_from_spec _ _ _ _ Hfx) as (_ & _ & HbeforeX).
  destruct (last_from_spec _ _ _ _ Hlx) as (_ & _ & HafterX).
  assert (minX <= x).
  { destruct (Z.le_gt_cases minX x); [assumption|]. rewrite HbeforeX in Hcol by lia. discriminate. }
  assert (x <= lastX).
  { destruct (Z.le_gt_cases x lastX); [assumption|]. rewrite HafterX in Hcol by lia. discriminate. }
  destruct (Z.leb_spec (lastX + 1) minX); [lia|].
  rewrite in_rect_go_rect by lia. lia.
Qed.

(* the rectangle found lies inside the canvas (or is the zero rectangle) *)
Lemma changed_rect_inside W H prev curr :
  0 < W -> 0 < H ->
  let r := find_changed_rect W H prev curr in
  0 <= rx0 r /\ rx0 r <= rx1 r <= W /\ 0 <= ry0 r /\ ry0 r <= ry1 r <= H.
Proof.
  intros HW HH. unfold find_changed_rect.
  destruct (Z.eqb_spec W 0); [lia|]. destruct (Z.eqb_spec H 0); [lia|]. cbn [orb].
  destruct (first_from (row_diff W prev curr) (Z.to_nat H) 0) as [minY|] eqn:Hf; [|cbn; lia].
  destruct (first_from_spec _ _ _ _ Hf) as (HminY & _ & _).
  set (maxY := match last_from (row_diff W prev curr) (Z.to_nat (H - 1 - minY)) (H - 1) with
               | Some y0 => y0 + 1 | None => minY + 1 end).
  assert (HmaxY : minY < maxY <= H).
  { unfold maxY. destruct (last_from _ _ _) as [ly|] eqn:Hl; [|lia].
    destruct (last_from_spec _ _ _ _ Hl) as (Hly & _ & _). lia. }
  destruct (first_from (col_diff W prev curr minY maxY) (Z.to_nat W) 0) as [minX|] eqn:Hfx; [|cbn; lia].
  destruct (last_from (col_diff W prev curr minY maxY) (Z.to_nat W) (W - 1)) as [lastX|] eqn:Hlx; [|cbn; lia].
  destruct (first_from_spec _ _ _ _ Hfx) as (? & _ & _).
  destruct (last_from_spec _ _ _ _ Hlx) as (? & _ & _).
  destruct (Z.leb_spec (lastX + 1) minX); [cbn; lia|].
  unfold go_rect; cbn [rx0 ry0 rx1 ry1].
  destruct (Z.ltb_spec (lastX + 1) minX); [lia|]. destruct (Z.ltb_spec maxY minY); [lia|]. lia.
Qed.

(* ------------------------------------------------------------------ *)
(* snapToEven and clipping                                              *)

Definition good_rect (W H : Z) (r : rect) : Prop :=
  0 <= rx0 r /\ rx0 r < rx1 r <= W /\ 0 <= ry0 r /\ ry0 r < ry1 r <= H.

Lemma snap_to_even_char r : rx0 r <= rx1 r -> ry0 r <= ry1 r ->
  snap_to_even r = mkrect (rx0 r - rx0 r mod 2) (ry0 r - ry0 r mod 2) (rx1 r) (ry1 r).
Proof.
  intros Hx Hy. unfold snap_to_even, go_rect.
  assert (0 <= rx0 r mod 2 < 2) by (apply Z.mod_pos_bound; lia).
  assert (0 <= ry0 r mod 2 < 2) by (apply Z.mod_pos_bound; lia).
  destruct (Z.ltb_spec (rx0 r - rx0 r mod 2 + (rx1 r - rx0 r + rx0 r mod 2)) (rx0 r - rx0 r mod 2)); [lia|].
  destruct (Z.ltb_spec (ry0 r - ry0 r mod 2 + (ry1 r - ry0 r + ry0 r mod 2)) (ry0 r - ry0 r mod 2)); [lia|].
  f_equal; lia.
Qed.

(* the candidate rectangle: snapped and clipped version of a good rectangle *)
Lemma snap_clip_good W H r : good_rect W H r ->
  let r2 := intersect (snap_to_even r) (canvas_bounds W H) in
  good_rect W H r2 /\ rx0 r2 mod 2 = 0 /\ ry0 r2 mod 2 = 0 /\
  (forall x y, in_rect r x y = true -> in_rect r2 x y = true).
Proof.
  intros (Hx0 & Hx1 & Hy0 & Hy1). cbn zeta.
  rewrite snap_to_even_char by lia.
  assert (Hmx : 0 <= rx0 r mod 2 < 2) by (apply Z.mod_pos_bound; lia).
  assert (Hmy : 0 <= ry0 r mod 2 < 2) by (apply Z.mod_pos_bound; lia).
  unfold intersect, canvas_bounds, rect_empty; cbn [rx0 ry0 rx1 ry1].
  assert (Ex : Z.max (rx0 r - rx0 r mod 2) 0 = rx0 r - rx0 r mod 2) by lia.
  assert (Ey : Z.max (ry0 r - ry0 r mod 2) 0 = ry0 r - ry0 r mod 2) by lia.
  assert (Fx : Z.min (rx1 r) W = rx1 r) by lia.
  assert (Fy : Z.min (ry1 r) H = ry1 r) by lia.
  rewrite Ex, Ey, Fx, Fy.
  destruct (Z.leb_spec (rx1 r) (rx0 r - rx0 r mod 2)); [lia|].
  destruct (Z.leb_spec (ry1 r) (ry0 r - ry0 r mod 2)); [lia|].
  cbn [orb rx0 ry0 rx1 ry1]. unfold good_rect; cbn [rx0 ry0 rx1 ry1].
  repeat split; try lia.
  intros x y Hin. unfold in_rect in *; cbn [rx0 ry0 rx1 ry1]. lia.
Qed.

Lemma good_unit W H : 0 < W -> 0 < H -> good_rect W H (go_rect 0 0 1 1).
Proof. intros. unfold good_rect, go_rect; cbn. lia. Qed.

(* ------------------------------------------------------------------ *)
(* rectangle scans                                                      *)

Lemma rect_forall_spec r P :
  rect_forall r P = true <-> (forall x y, in_rect r x y = true -> P x y = true).
Proof.
  unfold rect_forall. rewrite forallb_forall. split.
  - intros Hf x y Hin. unfold in_rect in Hin.
    specialize (Hf y ltac:(apply zspan_In; lia)). rewrite forallb_forall in Hf.
    apply Hf. apply zspan_In. lia.
  - intros Hf y Hy. apply zspan_In in Hy. apply forallb_forall. intros x Hx. apply zspan_In in Hx.
    apply Hf. unfold in_rect. lia.
Qed.
