(** Per-step facts about the AnimEncoder model: the changed rectangle covers every
    differing pixel, snapping to even offsets and clipping keep that, rectangle
    scans, list surgery on the muxer's frame list, [collapse] arithmetic. *)
From Coq Require Import List ZArith Lia Bool ZifyBool.
From Webp Require Import Anim.Blend Anim.Canvas Anim.AnimDec Anim.AnimDecProof
  Anim.AnimEncModel Anim.AnimEncSpec.
Import ListNotations.
Open Scope Z_scope.

Ltac Zify.zify_post_hook ::= Z.div_mod_to_equations.

(* ------------------------------------------------------------------ *)
(* scans                                                                *)

Lemma first_from_spec P k : forall i r, first_from P k i = Some r ->
  i <= r < i + Z.of_nat k /\ P r = true /\ forall j, i <= j < r -> P j = false.
Proof.
  induction k as [|k IH]; intros i r Hf; cbn [first_from] in Hf; [discriminate|].
  destruct (P i) eqn:HP.
  - injection Hf as <-. repeat split; try lia. exact HP.
  - destruct (IH _ _ Hf) as (Hr & Hp & Hb). repeat split; try lia; [exact Hp|].
    intros j Hj. destruct (Z.eq_dec j i) as [->|]; [exact HP|]. apply Hb. lia.
Qed.

Lemma first_from_none P k : forall i, first_from P k i = None ->
  forall j, i <= j < i + Z.of_nat k -> P j = false.
Proof.
  induction k as [|k IH]; intros i Hf j Hj; [lia|]. cbn [first_from] in Hf.
  destruct (P i) eqn:HP; [discriminate|].
  destruct (Z.eq_dec j i) as [->|]; [exact HP|]. apply (IH _ Hf). lia.
Qed.

Lemma last_from_spec P k : forall i r, last_from P k i = Some r ->
  i - Z.of_nat k < r <= i /\ P r = true /\ forall j, r < j <= i -> P j = false.
Proof.
  induction k as [|k IH]; intros i r Hf; cbn [last_from] in Hf; [discriminate|].
  destruct (P i) eqn:HP.
  - injection Hf as <-. repeat split; try lia. exact HP.
  - destruct (IH _ _ Hf) as (Hr & Hp & Hb). repeat split; try lia; [exact Hp|].
    intros j Hj. destruct (Z.eq_dec j i) as [->|]; [exact HP|]. apply Hb. lia.
Qed.

Lemma last_from_none P k : forall i, last_from P k i = None ->
  forall j, i - Z.of_nat k < j <= i -> P j = false.
Proof.
  induction k as [|k IH]; intros i Hf j Hj; [lia|]. cbn [last_from] in Hf.
  destruct (P i) eqn:HP; [discriminate|].
  destruct (Z.eq_dec j i) as [->|]; [exact HP|]. apply (IH _ Hf). lia.
Qed.

Lemma zspan_In a b j : In j (zspan a b) <-> a <= j < b.
Proof.
  unfold zspan. rewrite in_map_iff. split.
  - intros (i & <- & Hi). apply zrange_In in Hi. lia.
  - intros Hj. exists (j - a). split; [lia|]. apply zrange_In. lia.
Qed.

Lemma row_diff_true W a b x y : 0 <= x < W -> px_diff W a b x y = true -> row_diff W a b y = true.
Proof.
  intros Hx Hd. unfold row_diff. apply existsb_exists. exists x. split; [apply zrange_In; lia|exact Hd].
Qed.

Lemma col_diff_true W a b y0 y1 x y : y0 <= y < y1 -> px_diff W a b x y = true ->
  col_diff W a b y0 y1 x = true.
Proof.
  intros Hy Hd. unfold col_diff. apply existsb_exists. exists y. split; [apply zspan_In; lia|exact Hd].
Qed.

(* ------------------------------------------------------------------ *)
(* findChangedRect covers every differing pixel                         *)

Lemma in_rect_go_rect a b c d x y : a <= c -> b <= d ->
  in_rect (go_rect a b c d) x y = (a <=? x) && (x <? c) && (b <=? y) && (y <? d).
Proof.
  intros H1 H2. unfold go_rect, in_rect; cbn [rx0 ry0 rx1 ry1].
  destruct (Z.ltb_spec c a); [lia|]. destruct (Z.ltb_spec d b); [lia|]. reflexivity.
Qed.

Lemma changed_rect_covers_diff W H prev curr x y :
  0 < W -> 0 < H -> 0 <= x < W -> 0 <= y < H ->
  px_diff W prev curr x y = true ->
  in_rect (find_changed_rect W H prev curr) x y = true.
Proof.
  intros HW HH Hx Hy Hd. unfold find_changed_rect.
  destruct (Z.eqb_spec W 0); [lia|]. destruct (Z.eqb_spec H 0); [lia|]. cbn [orb].
  pose proof (row_diff_true W prev curr x y Hx Hd) as Hrow.
  destruct (first_from (row_diff W prev curr) (Z.to_nat H) 0) as [minY|] eqn:Hf.
  2:{ pose proof (first_from_none _ _ _ Hf y ltac:(lia)). congruence. }
  destruct (first_from_spec _ _ _ _ Hf) as (HminY & _ & HbeforeY).
  assert (HminYy : minY <= y).
  { destruct (Z.le_gt_cases minY y); [assumption|]. rewrite HbeforeY in Hrow by lia. discriminate. }
  set (maxY := match last_from (row_diff W prev curr) (Z.to_nat (H - 1 - minY)) (H - 1) with
               | Some y0 => y0 + 1 | None => minY + 1 end).
  assert (HmaxY : y < maxY /\ minY < maxY).
  { unfold maxY. destruct (last_from _ _ _) as [ly|] eqn:Hl.
    - destruct (last_from_spec _ _ _ _ Hl) as (Hly & _ & Hafter).
      split; [|lia]. destruct (Z.lt_ge_cases y (ly + 1)); [assumption|].
      rewrite Hafter in Hrow by lia. discriminate.
    - split; [|lia]. destruct (Z.eq_dec y minY); [lia|].
      pose proof (last_from_none _ _ _ Hl y ltac:(lia)). congruence. }
  destruct HmaxY as [HyM HmM].
  pose proof (col_diff_true W prev curr minY maxY x y ltac:(lia) Hd) as Hcol.
  destruct (first_from (col_diff W prev curr minY maxY) (Z.to_nat W) 0) as [minX|] eqn:Hfx.
  2:{ pose proof (first_from_none _ _ _ Hfx x ltac:(lia)). congruence. }
  destruct (last_from (col_diff W prev curr minY maxY) (Z.to_nat W) (W - 1)) as [lastX|] eqn:Hlx.
  2:{ pose proof (last_from_none _ _ _ Hlx x ltac:(lia)). congruence. }
  destruct (first_from_spec _ _ _ _ Hfx) as (_ & _ & HbeforeX).
  destruct (last_from_spec _ _ _ _ Hlx) as (_ & _ & HafterX).
  assert (minX <= x).
  { destruct (Z.le_gt_cases minX x); [assumption|]. rewrite HbeforeX in Hcol by lia. discriminate. }
  assert (x <= lastX).
  { destruct (Z.le_gt_cases x lastX); [assumption|]. rewrite HafterX in Hcol by lia. discriminate. }
  destruct (Z.leb_spec (lastX + 1) minX); [lia|].
  rewrite in_rect_go_rect by lia. lia.
Qed.

(* the rectangle found lies inside the canvas (or is the zero rectangle) *)
Lemma changed_rect_inside W H prev curr :
  0 < W -> 0 < H ->
  let r := find_changed_rect W H prev curr in
  0 <= rx0 r /\ rx0 r <= rx1 r <= W /\ 0 <= ry0 r /\ ry0 r <= ry1 r <= H.
Proof.
  intros HW HH. unfold find_changed_rect.
  destruct (Z.eqb_spec W 0); [lia|]. destruct (Z.eqb_spec H 0); [lia|]. cbn [orb].
  destruct (first_from (row_diff W prev curr) (Z.to_nat H) 0) as [minY|] eqn:Hf; [|cbn; lia].
  destruct (first_from_spec _ _ _ _ Hf) as (HminY & _ & _).
  set (maxY := match last_from (row_diff W prev curr) (Z.to_nat (H - 1 - minY)) (H - 1) with
               | Some y0 => y0 + 1 | None => minY + 1 end).
  assert (HmaxY : minY < maxY <= H).
  { unfold maxY. destruct (last_from _ _ _) as [ly|] eqn:Hl; [|lia].
    destruct (last_from_spec _ _ _ _ Hl) as (Hly & _ & _). lia. }
  destruct (first_from (col_diff W prev curr minY maxY) (Z.to_nat W) 0) as [minX|] eqn:Hfx; [|cbn; lia].
  destruct (last_from (col_diff W prev curr minY maxY) (Z.to_nat W) (W - 1)) as [lastX|] eqn:Hlx; [|cbn; lia].
  destruct (first_from_spec _ _ _ _ Hfx) as (? & _ & _).
  destruct (last_from_spec _ _ _ _ Hlx) as (? & _ & _).
  destruct (Z.leb_spec (lastX + 1) minX); [cbn; lia|].
  unfold go_rect; cbn [rx0 ry0 rx1 ry1].
  destruct (Z.ltb_spec (lastX + 1) minX); [lia|]. destruct (Z.ltb_spec maxY minY); [lia|]. lia.
Qed.

(* ------------------------------------------------------------------ *)
(* snapToEven and clipping                                              *)

Definition good_rect (W H : Z) (r : rect) : Prop :=
  0 <= rx0 r /\ rx0 r < rx1 r <= W /\ 0 <= ry0 r /\ ry0 r < ry1 r <= H.

Lemma snap_to_even_char r : rx0 r <= rx1 r -> ry0 r <= ry1 r ->
  snap_to_even r = mkrect (rx0 r - rx0 r mod 2) (ry0 r - ry0 r mod 2) (rx1 r) (ry1 r).
Proof.
  intros Hx Hy. unfold snap_to_even, go_rect.
  assert (0 <= rx0 r mod 2 < 2) by (apply Z.mod_pos_bound; lia).
  assert (0 <= ry0 r mod 2 < 2) by (apply Z.mod_pos_bound; lia).
  destruct (Z.ltb_spec (rx0 r - rx0 r mod 2 + (rx1 r - rx0 r + rx0 r mod 2)) (rx0 r - rx0 r mod 2)); [lia|].
  destruct (Z.ltb_spec (ry0 r - ry0 r mod 2 + (ry1 r - ry0 r + ry0 r mod 2)) (ry0 r - ry0 r mod 2)); [lia|].
  f_equal; lia.
Qed.

(* the candidate rectangle: snapped and clipped version of a good rectangle *)
Lemma snap_clip_good W H r : good_rect W H r ->
  let r2 := intersect (snap_to_even r) (canvas_bounds W H) in
  good_rect W H r2 /\ rx0 r2 mod 2 = 0 /\ ry0 r2 mod 2 = 0 /\
  (forall x y, in_rect r x y = true -> in_rect r2 x y = true).
Proof.
  intros (Hx0 & Hx1 & Hy0 & Hy1). cbn zeta.
  rewrite snap_to_even_char by lia.
  assert (Hmx : 0 <= rx0 r mod 2 < 2) by (apply Z.mod_pos_bound; lia).
  assert (Hmy : 0 <= ry0 r mod 2 < 2) by (apply Z.mod_pos_bound; lia).
  unfold intersect, canvas_bounds, rect_empty; cbn [rx0 ry0 rx1 ry1].
  assert (Ex : Z.max (rx0 r - rx0 r mod 2) 0 = rx0 r - rx0 r mod 2) by lia.
  assert (Ey : Z.max (ry0 r - ry0 r mod 2) 0 = ry0 r - ry0 r mod 2) by lia.
  assert (Fx : Z.min (rx1 r) W = rx1 r) by lia.
  assert (Fy : Z.min (ry1 r) H = ry1 r) by lia.
  rewrite Ex, Ey, Fx, Fy.
  destruct (Z.leb_spec (rx1 r) (rx0 r - rx0 r mod 2)); [lia|].
  destruct (Z.leb_spec (ry1 r) (ry0 r - ry0 r mod 2)); [lia|].
  cbn [orb rx0 ry0 rx1 ry1]. unfold good_rect; cbn [rx0 ry0 rx1 ry1].
  repeat split; try lia.
  intros x y Hin. unfold in_rect in *; cbn [rx0 ry0 rx1 ry1]. lia.
Qed.

Lemma good_unit W H : 0 < W -> 0 < H -> good_rect W H (go_rect 0 0 1 1).
Proof. intros. unfold good_rect, go_rect; cbn. lia. Qed.

(* ------------------------------------------------------------------ *)
(* rectangle scans                                                      *)

Lemma rect_forall_spec r P :
  rect_forall r P = true <-> (forall x y, in_rect r x y = true -> P x y = true).
Proof.
  unfold rect_forall. rewrite forallb_forall. split.
  - intros Hf x y Hin. unfold in_rect in Hin.
    specialize (Hf y ltac:(apply zspan_In; lia)). rewrite forallb_forall in Hf.
    apply Hf. apply zspan_In. lia.
  - intros Hf y Hy. apply zspan_In in Hy. apply forallb_forall. intros x Hx. apply zspan_In in Hx.
    apply Hf. unfold in_rect. lia.
Qed.

(* ------------------------------------------------------------------ *)
(* equality tests                                                       *)

Lemma px_eqb_eq p q : px_eqb p q = true <-> p = q.
Proof.
  destruct p as [r g b a], q as [r' g' b' a']. unfold px_eqb; cbn [pr pg pb pa]. split.
  - intros Hq. f_equal; lia.
  - intros [= -> -> -> ->]. rewrite !Z.eqb_refl. reflexivity.
Qed.

Lemma canvas_eqb_eq a : forall b, canvas_eqb a b = true <-> a = b.
Proof.
  induction a as [|p a IH]; intros [|q b]; cbn [canvas_eqb]; split; try discriminate; try reflexivity.
  - intros Hq. apply andb_true_iff in Hq as [H1 H2]. apply px_eqb_eq in H1. apply IH in H2. congruence.
  - intros [= -> ->]. apply andb_true_iff. split; [apply px_eqb_eq; reflexivity|apply IH; reflexivity].
Qed.

Lemma canvas_eqb_refl a : canvas_eqb a a = true.
Proof. apply canvas_eqb_eq. reflexivity. Qed.

Lemma px_diff_false W a b x y : px_diff W a b x y = false -> cget W a x y = cget W b x y.
Proof.
  unfold px_diff. intros Hd. apply negb_false_iff in Hd. apply px_eqb_eq. exact Hd.
Qed.

(* ------------------------------------------------------------------ *)
(* pointwise similarity of canvases under a pixel projection            *)

Definition psim (pi : px -> px) (W H : Z) (c1 c2 : canvas) : Prop :=
  forall x y, 0 <= x < W -> 0 <= y < H -> pi (cget W c1 x y) = pi (cget W c2 x y).

Lemma psim_refl pi W H c : psim pi W H c c.
Proof. intros x y _ _. reflexivity. Qed.

Lemma psim_trans pi W H a b c : psim pi W H a b -> psim pi W H b c -> psim pi W H a c.
Proof. intros H1 H2 x y Hx Hy. rewrite (H1 x y Hx Hy). apply H2; assumption. Qed.

Lemma psim_sym pi W H a b : psim pi W H a b -> psim pi W H b a.
Proof. intros H1 x y Hx Hy. symmetry. apply H1; assumption. Qed.

Lemma psim_map pi W H c1 c2 : 0 < W -> 0 <= H ->
  length c1 = Z.to_nat (W * H) -> length c2 = Z.to_nat (W * H) ->
  psim pi W H c1 c2 -> map pi c1 = map pi c2.
Proof.
  intros HW HH L1 L2 Hs.
  rewrite <- (tab_cget W H c1 HW HH L1), <- (tab_cget W H c2 HW HH L2).
  unfold tab. rewrite !map_map. apply map_ext_in. intros i Hi. apply zrange_In in Hi.
  apply Hs.
  - apply Z.mod_pos_bound; lia.
  - split; [apply Z.div_pos; lia|]. apply Z.div_lt_upper_bound; lia.
Qed.

(* ------------------------------------------------------------------ *)
(* [push] / [collapse] arithmetic                                       *)

Definition add_head (d : Z) (acc : show) : show :=
  match acc with (c, d0) :: t => (c, d0 + d) :: t | [] => [] end.

Lemma push_head acc c d : exists d0 t, push acc (c, d) = (c, d0) :: t.
Proof.
  destruct acc as [|[c0 d0] t]; cbn [push fst snd]; [eauto|].
  destruct (canvas_eqb c0 c) eqn:He; [|eauto].
  apply canvas_eqb_eq in He. subst. eauto.
Qed.

Lemma push_add acc c d1 d2 : push acc (c, d1 + d2) = add_head d2 (push acc (c, d1)).
Proof.
  destruct acc as [|[c0 d0] t]; cbn [push fst snd add_head]; [reflexivity|].
  destruct (canvas_eqb c0 c); cbn [add_head]; [f_equal; f_equal; lia|reflexivity].
Qed.

Lemma push_same_head c d0 t d : push ((c, d0) :: t) (c, d) = add_head d ((c, d0) :: t).
Proof. cbn [push fst snd add_head]. rewrite canvas_eqb_refl. reflexivity. Qed.

Lemma push_push_same acc c d1 d2 : push (push acc (c, d1)) (c, d2) = push acc (c, d1 + d2).
Proof.
  destruct (push_head acc c d1) as (d0 & t & E). rewrite push_add, E. apply push_same_head.
Qed.

Lemma collapse_rev_by_snoc pi l c d :
  collapse_rev_by pi (l ++ [(c, d)]) = push (collapse_rev_by pi l) (map pi c, d).
Proof. unfold collapse_rev_by, proj_show. rewrite map_app, fold_left_app. reflexivity. Qed.

(* ------------------------------------------------------------------ *)
(* list surgery on the muxer's frame list                               *)

Lemma upd_nth_app_last {A} (f : A -> A) (l : list A) a :
  upd_nth (length l) f (l ++ [a]) = l ++ [f a].
Proof. induction l as [|b l IH]; cbn [length upd_nth app]; [reflexivity|]. rewrite IH. reflexivity. Qed.

Lemma nth_error_app_last {A} (l : list A) a : nth_error (l ++ [a]) (length l) = Some a.
Proof. induction l as [|b l IH]; cbn; [reflexivity|exact IH]. Qed.

Section MuxLast.
  Variables (init : list mrec) (last : mrec).
  Let recs := init ++ [last].
  Let idx := Z.of_nat (length init).

  Lemma idx_ok_last : idx_ok recs idx = true.
  Proof. unfold idx_ok, recs, idx. rewrite app_length. cbn [length]. lia. Qed.

  Lemma mux_dur_last : mux_dur recs idx = m_dur last.
  Proof.
    unfold mux_dur. rewrite idx_ok_last. unfold idx, recs. rewrite Nat2Z.id, nth_error_app_last. reflexivity.
  Qed.

  Lemma mux_set_dur_last d : mux_set_dur recs idx d =
    init ++ [mkmrec (m_x last) (m_y last) (m_img last) (m_lossy last) (m_blend_none last)
                    (m_dispose_bg last) (clamp_dur d)].
  Proof.
    unfold mux_set_dur. rewrite idx_ok_last. unfold idx, recs. rewrite Nat2Z.id, upd_nth_app_last. reflexivity.
  Qed.

  Lemma mux_set_dispose_bg_last : mux_set_dispose_bg recs idx =
    init ++ [mkmrec (m_x last) (m_y last) (m_img last) (m_lossy last) (m_blend_none last) true (m_dur last)].
  Proof.
    unfold mux_set_dispose_bg. rewrite idx_ok_last. unfold idx, recs.
    rewrite Nat2Z.id, upd_nth_app_last. reflexivity.
  Qed.

  Lemma last_idx_last : last_idx recs = idx.
  Proof. unfold last_idx, recs, idx. rewrite app_length. cbn [length]. lia. Qed.
End MuxLast.

(* ------------------------------------------------------------------ *)
(* the decoder as a left fold                                           *)

Definition dstate0 := (canvas * option (rect * bool))%type.

Definition dstep (W H : Z) (s : dstate0) (f : frame) : dstate0 :=
  let c1 := match snd s with
            | Some (r, true) => fill W H (fst s) r
            | _ => fst s
            end in
  (composite W H c1 f, Some (true_rect f, fdispose_bg f)).

Definition dfold (W H : Z) (s : dstate0) (fs : list frame) : dstate0 := fold_left (dstep W H) fs s.

Lemma spec_go_dfold W H fs : forall c p f,
  spec_go W H c p (fs ++ [f]) = spec_go W H c p fs ++ [fst (dstep W H (dfold W H (c, p) fs) f)].
Proof.
  induction fs as [|g fs IH]; intros c p f.
  - cbn [app spec_go dfold fold_left dstep fst snd]. destruct p as [[r [|]]|]; reflexivity.
  - cbn [app spec_go]. rewrite IH. cbn [app].
    replace (dfold W H (c, p) (g :: fs)) with
      (dfold W H (composite W H match p with Some (r, true) => fill W H c r | _ => c end g,
                  Some (true_rect g, fdispose_bg g)) fs); [reflexivity|].
    unfold dfold. cbn [fold_left]. f_equal.
Qed.

Lemma spec_go_length W H fs : forall c p, length (spec_go W H c p fs) = length fs.
Proof. induction fs as [|g fs IH]; intros c p; cbn [spec_go length]; [reflexivity|]. rewrite IH. reflexivity. Qed.

Lemma dfold_snoc W H s fs f : dfold W H s (fs ++ [f]) = dstep W H (dfold W H s fs) f.
Proof. unfold dfold. rewrite fold_left_app. reflexivity. Qed.

Lemma dstep_length W H s f : length (fst (dstep W H s f)) = Z.to_nat (W * H).
Proof. unfold dstep; cbn [fst]. unfold composite. apply tab_length. Qed.

Lemma combine_snoc {A B} (l1 : list A) (l2 : list B) a b : length l1 = length l2 ->
  combine (l1 ++ [a]) (l2 ++ [b]) = combine l1 l2 ++ [(a, b)].
Proof.
  revert l2. induction l1 as [|x l1 IH]; intros [|y l2] HL; cbn in HL; try discriminate; [reflexivity|].
  cbn [app combine]. rewrite IH by lia. reflexivity.
Qed.
