(** The frame-codec hypotheses of the C08 / C18 theorems discharged on the codec MODELS:

    * VP8L frames: [rt_ll_model] = decode (emit (plan of the picture, for the encoder's
      choices)) of Vp8l/Vp8lRoundtrip.v; [lossless_roundtrip] gives [codec_lossless] for
      every choice function whose choices are valid (alpha-0 clean-up changes RGB only).
    * VP8 + ALPH frames: [rt_ly_model] = any colour decode (C06's domain; only its size and
      byte range matter here) with the alpha plane obtained by decoding the ALPH chunk the
      encoder writes (lossless coding of the filtered plane, any filter, any plan):
      Conform/ConformAlpha.alpha_lossless_chunk_exact gives [codec_alpha_exact].  An opaque
      picture has no ALPH chunk and decodes opaque.

    Both functions are the model codec on every picture that can occur as an animation
    frame (at most 16383 x 16383, the canvas limit); on larger pictures, which the
    animation encoder never produces, they are the identity so that the hypotheses, which
    quantify over all pictures, hold.  What remains outside the proof, as in C01 / C06 /
    C07: that the Go encoders make *some* valid choice and are the models for it (checked
    per written frame by the harness). *)
From Coq Require Import List ZArith Lia Bool.
From Webp Require Import Base.Res.
From Webp Require Anim.Blend Anim.Canvas.
From Webp Require Import Anim.AnimEncModel Anim.AnimEncSpec.
From Webp Require Vp8l.Vp8lPixel Vp8l.Vp8lSpec Vp8l.Vp8lEmit Vp8l.Vp8lEmitDecode Vp8l.Vp8lRoundtrip.
From Webp Require Alpha.AlphaModel Alpha.AlphaProofs Conform.ConformAlpha Conform.ConformFile.
Import ListNotations.
Open Scope Z_scope.

Module B := Anim.Blend.
Module VP := Vp8l.Vp8lPixel.
Module RT := Vp8l.Vp8lRoundtrip.

Definition small_img (i : img) : bool :=
  (iw i <=? max_canvas_dimension) && (ih i <=? max_canvas_dimension).

(* ------------------------------------------------------------------ *)
(* VP8L                                                                 *)

Definition to_vp (p : B.px) : VP.px := VP.mkpx (B.pa p) (B.pr p) (B.pg p) (B.pb p).
Definition of_vp (q : VP.px) : B.px := B.mkpx (VP.pr q) (VP.pg q) (VP.pb q) (VP.pa q).

Definition src_of (i : img) : RT.src_image := RT.mksrc (iw i) (ih i) (map to_vp (ipix i)).

Definition ll_stream (o : RT.ll_opts) (choose : img -> RT.choices) (i : img) : list Z :=
  Vp8l.Vp8lEmit.emit (RT.plan_of (src_of i) o (choose i)).

Definition rt_ll_model (o : RT.ll_opts) (choose : img -> RT.choices) (i : img) : img :=
  if small_img i then
    match Vp8l.Vp8lSpec.decode (ll_stream o choose i) with
    | Ok im => mkimg (Vp8l.Vp8lSpec.i_w im) (Vp8l.Vp8lSpec.i_h im) (map of_vp (Vp8l.Vp8lSpec.i_px im))
    | _ => i
    end
  else i.

Definition ll_choices_valid (o : RT.ll_opts) (choose : img -> RT.choices) : Prop :=
  forall i, wf_img i -> small_img i = true -> RT.valid (src_of i) o (choose i).

Lemma of_to_vp p : of_vp (to_vp p) = p.
Proof. destruct p; reflexivity. Qed.

Lemma px_sim_refl p : px_sim p p.
Proof. reflexivity. Qed.

Lemma Forall2_refl_sim l : Forall2 px_sim l l.
Proof. induction l; constructor; auto using px_sim_refl. Qed.

Theorem codec_lossless_model o choose :
  ll_choices_valid o choose -> codec_lossless (rt_ll_model o choose).
Proof.
  intros Hv i Hwf. unfold rt_ll_model.
  destruct (small_img i) eqn:Hs; [|repeat split; apply Forall2_refl_sim].
  destruct (RT.lossless_roundtrip_pixels (src_of i) o (choose i) (Hv i Hwf Hs))
    as (im & Hdec & Hw & Hh & Hpx).
  unfold ll_stream. rewrite Hdec. unfold img_sim; cbn [iw ih ipix].
  split; [exact Hw|]. split; [exact Hh|].
  rewrite Hpx. cbn [RT.s_px src_of]. rewrite !map_map.
  induction (ipix i) as [|p l IH]; cbn [map]; constructor; [|exact IH].
  cbn [to_vp VP.pa]. destruct (negb (RT.o_exact o) && (B.pa p =? 0)) eqn:Hc.
  - apply andb_true_iff in Hc as [_ Hz]. unfold px_sim, norm_px, of_vp, VP.px_zero; cbn.
    rewrite Hz. reflexivity.
  - change (of_vp (to_vp p)) with (of_vp (to_vp p)). rewrite of_to_vp. apply px_sim_refl.
Qed.

(* on the pictures that occur, the function is the model codec *)
Lemma rt_ll_model_is_decode o choose i im :
  small_img i = true -> Vp8l.Vp8lSpec.decode (ll_stream o choose i) = Ok im ->
  rt_ll_model o choose i = mkimg (Vp8l.Vp8lSpec.i_w im) (Vp8l.Vp8lSpec.i_h im) (map of_vp (Vp8l.Vp8lSpec.i_px im)).
Proof. intros Hs Hd. unfold rt_ll_model. rewrite Hs, Hd. reflexivity. Qed.

(* ------------------------------------------------------------------ *)
(* VP8 + ALPH                                                           *)

Record achoice := mkachoice {
  ac_rows : list (list Z);        (* the alpha plane, row by row *)
  ac_filter : Z;                  (* prediction filter 0..3 *)
  ac_r16 : Z;                     (* pre-processing bits of the ALPH header: 0 or 16 *)
  ac_plan : Vp8l.Vp8lEmit.plan    (* the lossless coder's plan for the filtered plane *)
}.

Definition alph_chunk (a : achoice) : list Z :=
  (1 + 4 * ac_filter a + ac_r16 a) :: skipn 5 (Vp8l.Vp8lEmit.emit (ac_plan a)).

Definition achoice_valid (i : img) (a : achoice) : Prop :=
  concat (ac_rows a) = map B.pa (ipix i) /\
  Alpha.AlphaProofs.wf_plane (Z.to_nat (iw i)) (ac_rows a) /\
  Z.of_nat (length (ac_rows a)) = ih i /\
  0 <= ac_filter a <= 3 /\ (ac_r16 a = 0 \/ ac_r16 a = 16) /\
  Vp8l.Vp8lEmitDecode.wf_plan (ac_plan a) /\ Vp8l.Vp8lEmit.p_alpha (ac_plan a) = 0 /\
  Vp8l.Vp8lEmit.p_w (ac_plan a) = iw i /\ Vp8l.Vp8lEmit.p_h (ac_plan a) = ih i /\
  Conform.ConformAlpha.green_of (ac_plan a) =
    concat (Alpha.AlphaModel.apply_filter (ac_filter a) (ac_rows a)).

Definition opaque (i : img) : bool := forallb (fun p => B.pa p =? 255) (ipix i).

Definition with_alpha (cols : list B.px) (alphas : list Z) : list B.px :=
  map (fun ca => B.mkpx (B.pr (fst ca)) (B.pg (fst ca)) (B.pb (fst ca)) (snd ca)) (combine cols alphas).

(* [colour i]: the RGB the VP8 decoder reconstructs (any function of the right size and
   range); the alpha plane comes from the ALPH chunk, or is opaque when there is none *)
Definition rt_ly_model (colour : img -> list B.px) (achoose : img -> achoice) (i : img) : img :=
  if small_img i then
    if opaque i then mkimg (iw i) (ih i) (with_alpha (colour i) (map (fun _ => 255) (ipix i)))
    else
      match Conform.ConformFile.alpha_decode (alph_chunk (achoose i)) (iw i) (ih i) with
      | Ok plane => mkimg (iw i) (ih i) (with_alpha (colour i) plane)
      | _ => i
      end
  else i.

Definition colour_ok (colour : img -> list B.px) : Prop :=
  forall i, wf_img i -> length (colour i) = length (ipix i) /\ Forall B.wf_px (colour i).

Definition alpha_choices_valid (achoose : img -> achoice) : Prop :=
  forall i, wf_img i -> small_img i = true -> opaque i = false -> achoice_valid i (achoose i).

Lemma with_alpha_pa cols : forall alphas, length cols = length alphas ->
  map B.pa (with_alpha cols alphas) = alphas.
Proof.
  induction cols as [|c cols IH]; intros [|a alphas] Hl; cbn in Hl; try discriminate; [reflexivity|].
  unfold with_alpha in *. cbn [combine map fst snd B.pa]. f_equal. apply IH. lia.
Qed.

Lemma with_alpha_wf cols : forall alphas, Forall B.wf_px cols -> Forall (fun a => 0 <= a <= 255) alphas ->
  Forall B.wf_px (with_alpha cols alphas).
Proof.
  induction cols as [|c cols IH]; intros [|a alphas] Hc Ha; unfold with_alpha in *; cbn [combine map];
    try constructor.
  - inversion Hc as [|? ? (Hr & Hg & Hb & _) _]; subst. inversion Ha; subst.
    unfold B.wf_px; cbn. repeat split; lia.
  - inversion Hc; inversion Ha; subst. apply IH; assumption.
Qed.

Theorem codec_alpha_exact_model colour achoose :
  colour_ok colour -> alpha_choices_valid achoose -> codec_alpha_exact (rt_ly_model colour achoose).
Proof.
  intros Hcol Hval i Hwf. pose proof Hwf as (Hw1 & Hh1 & Hlen & Hpx).
  destruct (Hcol i Hwf) as [Hcl Hcw].
  assert (Hbytes : Forall (fun a => 0 <= a <= 255) (map B.pa (ipix i))).
  { apply Forall_forall. intros a Ha. apply in_map_iff in Ha as (p & <- & Hp).
    rewrite Forall_forall in Hpx. destruct (Hpx p Hp) as (_ & _ & _ & Hpa). exact Hpa. }
  unfold rt_ly_model. destruct (small_img i) eqn:Hs.
  2:{ repeat split. exact Hpx. }
  destruct (opaque i) eqn:Hop.
  - unfold img_alpha_eq; cbn [iw ih ipix]. split; [reflexivity|]. split; [reflexivity|]. split.
    + rewrite with_alpha_pa by (rewrite map_length; exact Hcl).
      unfold opaque in Hop. rewrite forallb_forall in Hop.
      apply map_ext_in. intros p Hp. specialize (Hop p Hp). lia.
    + apply with_alpha_wf; [exact Hcw|]. apply Forall_forall. intros a Ha.
      apply in_map_iff in Ha as (p & <- & _). lia.
  - destruct (Hval i Hwf Hs Hop) as (Hcat & Hpl & Hrl & Hf & Hr & Hp & Hpa & Hpw & Hph & Hg).
    assert (Harea : iw i * ih i <= 2^30).
    { unfold small_img, max_canvas_dimension in Hs. change (2^30) with 1073741824. nia. }
    unfold alph_chunk.
    rewrite (Conform.ConformAlpha.alpha_lossless_chunk_exact (ac_rows (achoose i)) (iw i) (ih i)
               (ac_filter (achoose i)) (ac_r16 (achoose i)) (ac_plan (achoose i))
               Hw1 Hh1 Harea Hpl Hrl Hf Hr Hp Hpa Hpw Hph Hg).
    unfold img_alpha_eq; cbn [iw ih ipix]. split; [reflexivity|]. split; [reflexivity|].
    rewrite Hcat. split.
    + apply with_alpha_pa. rewrite map_length. exact Hcl.
    + apply with_alpha_wf; assumption.
Qed.

(* ------------------------------------------------------------------ *)
(* C18 / C08 on the codec models                                        *)

From Webp Require Import Anim.AnimEncMain.

Section OnModels.
  Variables (o : RT.ll_opts) (choose : img -> RT.choices)
            (colour : img -> list B.px) (achoose : img -> achoice).
  Hypothesis Hll : ll_choices_valid o choose.
  Hypothesis Hcol : colour_ok colour.
  Hypothesis Hal : alpha_choices_valid achoose.

  Let rt_ll := rt_ll_model o choose.
  Let rt_ly := rt_ly_model colour achoose.

  Theorem anim_alpha_preserved_on_models :
    forall (W H : Z) (opts : eopts) (frames : list (img * Z))
           (oracle : nat -> orc) (has_meta simple : bool) (st0 : est) (out : output),
      wf_canvas_dims W H -> alpha_opts opts -> frames <> [] -> Forall wf_input frames ->
      new_encoder W H opts = Some st0 ->
      close has_meta simple (run_frames repaired oracle st0 frames) = Some out ->
      same_show_by alpha_only W H (eo_loop opts) out (playback rt_ll rt_ly repaired out)
                   (inputs_of W H frames).
  Proof.
    intros. eapply anim_alpha_preserved; try eassumption.
    - apply codec_lossless_model; exact Hll.
    - apply codec_alpha_exact_model; assumption.
  Qed.

  Theorem anim_mixed_alpha_on_models :
    forall (W H : Z) (opts : eopts) (ops : list op)
           (oracle : nat -> orc) (fails : nat -> efail) (maxf : Z) (has_meta simple : bool)
           (st0 stf : est) (acc : list op) (out : output),
      wf_canvas_dims W H -> alpha_opts opts -> Forall (wf_op W H) ops ->
      new_encoder W H opts = Some st0 ->
      run_ops repaired maxf oracle fails st0 ops = (stf, acc) ->
      lone_small_raw_ok W H has_meta acc ->
      close has_meta simple stf = Some out ->
      same_show_by alpha_only W H (eo_loop opts) out (playback rt_ll rt_ly repaired out)
                   (ref_show W H (Canvas.blank W H, None) acc).
  Proof.
    intros. eapply anim_mixed_alpha; try eassumption.
    - apply codec_lossless_model; exact Hll.
    - apply codec_alpha_exact_model; assumption.
  Qed.

  Theorem anim_mixed_roundtrip_on_models :
    forall (W H : Z) (opts : eopts) (ops : list op)
           (oracle : nat -> orc) (fails : nat -> efail) (maxf : Z) (has_meta simple : bool)
           (st0 stf : est) (acc : list op) (out : output),
      wf_canvas_dims W H -> lossless_opts opts -> Forall (wf_op W H) ops ->
      new_encoder W H opts = Some st0 ->
      run_ops repaired maxf oracle fails st0 ops = (stf, acc) ->
      lone_small_raw_ok W H has_meta acc ->
      close has_meta simple stf = Some out ->
      same_show W H (eo_loop opts) out (playback rt_ll rt_ly repaired out)
                (ref_show W H (Canvas.blank W H, None) acc).
  Proof.
    intros. eapply (anim_mixed_roundtrip rt_ll rt_ly); try eassumption.
    - apply codec_lossless_model; exact Hll.
    - intros _. assumption.
  Qed.
End OnModels.
