(** Specification of WebP animation canvas reconstruction (container spec,
    "Assembling the canvas from frames"): start from a transparent canvas; before
    rendering a frame, clear the previous frame's rectangle if that frame asked
    for dispose-to-background; then overwrite (no-blend) or alpha-blend the
    frame's rectangle, clipped to the canvas.  Coordinates are unbounded [Z]. *)
From Coq Require Import List ZArith Lia Bool.
From Webp Require Import Anim.Blend.
Import ListNotations.
Open Scope Z_scope.

Record rect := mkrect { rx0 : Z; ry0 : Z; rx1 : Z; ry1 : Z }.

Definition in_rect (r : rect) (x y : Z) : bool :=
  (rx0 r <=? x) && (x <? rx1 r) && (ry0 r <=? y) && (y <? ry1 r).

Record frame := mkframe {
  fx : Z; fy : Z;               (* offset on the canvas *)
  fw : Z; fh : Z;               (* size of the frame picture *)
  fpix : list px;               (* row-major, fw*fh entries *)
  fblend_none : bool;           (* true: BlendNone, false: BlendAlpha *)
  fdispose_bg : bool;           (* true: DisposeBackground *)
  fhas_alpha : bool             (* the bitstream-level flag Frame.HasAlpha *)
}.

Definition fget (f : frame) (sx sy : Z) : px :=
  nth (Z.to_nat (sy * fw f + sx)) (fpix f) px0.

Definition canvas := list px.

Definition zrange (n : Z) : list Z := map Z.of_nat (seq 0 (Z.to_nat n)).

Definition tab (W H : Z) (g : Z -> Z -> px) : canvas :=
  map (fun i => g (i mod W) (i / W)) (zrange (W * H)).

Definition cget (W : Z) (c : canvas) (x y : Z) : px :=
  nth (Z.to_nat (y * W + x)) c px0.

Definition blank (W H : Z) : canvas := tab W H (fun _ _ => px0).

Definition true_rect (f : frame) : rect :=
  mkrect (fx f) (fy f) (fx f + fw f) (fy f + fh f).

Definition composite (W H : Z) (c : canvas) (f : frame) : canvas :=
  tab W H (fun x y =>
    if in_rect (true_rect f) x y then
      let s := fget f (x - fx f) (y - fy f) in
      if fblend_none f then s else blend_spec s (cget W c x y)
    else cget W c x y).

Definition fill (W H : Z) (c : canvas) (r : rect) : canvas :=
  tab W H (fun x y => if in_rect r x y then px0 else cget W c x y).

(** [spec_go c prev fs]: [c] is the canvas currently shown, [prev] the rectangle
    and dispose flag of the frame that produced it. *)
Fixpoint spec_go (W H : Z) (c : canvas) (prev : option (rect * bool)) (fs : list frame)
  : list canvas :=
  match fs with
  | [] => []
  | f :: fs' =>
      let c1 := match prev with
                | Some (r, true) => fill W H c r
                | _ => c
                end in
      let c2 := composite W H c1 f in
      c2 :: spec_go W H c2 (Some (true_rect f, fdispose_bg f)) fs'
  end.

Definition spec_run (W H : Z) (fs : list frame) : list canvas :=
  spec_go W H (blank W H) None fs.

(* ------------------------------------------------------------------ *)
(* Facts about [tab]/[cget].                                           *)

Lemma zrange_length n : length (zrange n) = Z.to_nat n.
Proof. unfold zrange. rewrite map_length, seq_length. reflexivity. Qed.

Lemma zrange_In n i : In i (zrange n) <-> 0 <= i < n.
Proof.
  unfold zrange. rewrite in_map_iff. split.
  - intros (k & <- & Hk). apply in_seq in Hk. lia.
  - intros Hi. exists (Z.to_nat i). split; [lia|]. apply in_seq. lia.
Qed.

Lemma zrange_nth n k : (k < Z.to_nat n)%nat -> nth k (zrange n) 0 = Z.of_nat k.
Proof.
  intros Hk. unfold zrange.
  change 0 with (Z.of_nat 0%nat). rewrite map_nth. rewrite seq_nth by exact Hk. reflexivity.
Qed.

Lemma nth_map_zrange {A} (F : Z -> A) n k d :
  (k < Z.to_nat n)%nat -> nth k (map F (zrange n)) d = F (Z.of_nat k).
Proof.
  intros Hk. rewrite nth_indep with (d' := F 0) by (rewrite map_length, zrange_length; lia).
  rewrite map_nth, zrange_nth by lia. reflexivity.
Qed.

Lemma tab_length W H g : length (tab W H g) = Z.to_nat (W * H).
Proof. unfold tab. rewrite map_length. apply zrange_length. Qed.

Lemma cget_tab W H g x y : 0 <= x < W -> 0 <= y < H -> cget W (tab W H g) x y = g x y.
Proof.
  intros Hx Hy. unfold cget, tab.
  assert (Hi : 0 <= y * W + x < W * H) by nia.
  set (i := y * W + x) in *.
  rewrite nth_map_zrange by lia. rewrite Z2Nat.id by lia.
  assert (i mod W = x).
  { unfold i. rewrite Z.add_comm, Z.mod_add by lia. apply Z.mod_small; lia. }
  assert (i / W = y).
  { unfold i. rewrite Z.add_comm, Z.div_add by lia. rewrite Z.div_small by lia. lia. }
  congruence.
Qed.

Lemma tab_ext W H g g' : 0 < W ->
  (forall x y, 0 <= x < W -> 0 <= y < H -> g x y = g' x y) -> tab W H g = tab W H g'.
Proof.
  intros HW Hext. unfold tab. apply map_ext_in. intros i Hi. apply zrange_In in Hi.
  apply Hext.
  - apply Z.mod_pos_bound; lia.
  - split; [apply Z.div_pos; lia|]. apply Z.div_lt_upper_bound; lia.
Qed.
