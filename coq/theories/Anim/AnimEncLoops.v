(** findChangedRect as the code runs it: the column boundaries are found by a
    progressive narrowing loop over the changed rows (scan from the left only up to the
    current minX, from the right only down to the current maxX, early exit when the full
    width is reached), and the proof that this computes the declarative bounding box
    [find_changed_rect] of Anim/AnimEncModel.v the round-trip theorems are stated about. *)
From Coq Require Import List ZArith Lia Bool ZifyBool.
From Webp Require Import Anim.Blend Anim.Canvas Anim.AnimDec Anim.AnimEncModel Anim.AnimEncLemmas.
Import ListNotations.
Open Scope Z_scope.

(* for y := ..; k rows left: the two inner scans with their break, then the early exit *)
Fixpoint narrow (W : Z) (diff : Z -> Z -> bool) (k : nat) (y minX maxX : Z) : Z * Z :=
  match k with
  | O => (minX, maxX)
  | S k' =>
      let minX' := match first_from (fun x => diff x y) (Z.to_nat minX) 0 with
                   | Some x => x | None => minX end in
      let maxX' := match last_from (fun x => diff x y) (Z.to_nat (W - maxX)) (W - 1) with
                   | Some x => x + 1 | None => maxX end in
      if (minX' =? 0) && (maxX' =? W) then (minX', maxX')
      else narrow W diff k' (y + 1) minX' maxX'
  end.

Definition find_changed_rect_loops (W H : Z) (prev curr : canvas) : rect :=
  if (W =? 0) || (H =? 0) then rect0 else
  match first_from (row_diff W prev curr) (Z.to_nat H) 0 with
  | None => rect0
  | Some minY =>
      let maxY := match last_from (row_diff W prev curr) (Z.to_nat (H - 1 - minY)) (H - 1) with
                  | Some y => y + 1
                  | None => minY + 1
                  end in
      let '(minX, maxX) := narrow W (px_diff W prev curr) (Z.to_nat (maxY - minY)) minY W 0 in
      if maxX <=? minX then rect0 else go_rect minX minY maxX maxY
  end.

(* ------------------------------------------------------------------ *)

Lemma first_from_unique P k : forall i r,
  i <= r < i + Z.of_nat k -> P r = true -> (forall j, i <= j < r -> P j = false) ->
  first_from P k i = Some r.
Proof.
  induction k as [|k IH]; intros i r Hr Hp Hb; [lia|]. cbn [first_from].
  destruct (Z.eq_dec i r) as [->|Hne]; [rewrite Hp; reflexivity|].
  rewrite (Hb i) by lia. apply IH; [lia|exact Hp|]. intros j Hj. apply Hb. lia.
Qed.

Lemma first_from_all_false P k : forall i,
  (forall j, i <= j < i + Z.of_nat k -> P j = false) -> first_from P k i = None.
Proof.
  induction k as [|k IH]; intros i Hb; [reflexivity|]. cbn [first_from].
  rewrite (Hb i) by lia. apply IH. intros j Hj. apply Hb. lia.
Qed.

Lemma last_from_unique P k : forall i r,
  i - Z.of_nat k < r <= i -> P r = true -> (forall j, r < j <= i -> P j = false) ->
  last_from P k i = Some r.
Proof.
  induction k as [|k IH]; intros i r Hr Hp Hb; [lia|]. cbn [last_from].
  destruct (Z.eq_dec i r) as [->|Hne]; [rewrite Hp; reflexivity|].
  rewrite (Hb i) by lia. apply IH; [lia|exact Hp|]. intros j Hj. apply Hb. lia.
Qed.

Lemma last_from_all_false P k : forall i,
  (forall j, i - Z.of_nat k < j <= i -> P j = false) -> last_from P k i = None.
Proof.
  induction k as [|k IH]; intros i Hb; [reflexivity|]. cbn [last_from].
  rewrite (Hb i) by lia. apply IH. intros j Hj. apply Hb. lia.
Qed.

Lemma scan_min P minX : 0 <= minX ->
  let m := match first_from P (Z.to_nat minX) 0 with Some x => x | None => minX end in
  0 <= m <= minX /\ (forall x, 0 <= x -> P x = true -> m <= x) /\ (m < minX -> P m = true).
Proof.
  intros Hm. cbn zeta. destruct (first_from P (Z.to_nat minX) 0) as [fx|] eqn:Hf.
  - destruct (first_from_spec _ _ _ _ Hf) as (Hfr & Hfp & Hfb). repeat split; try lia.
    + intros x Hx Hp. destruct (Z.le_gt_cases fx x); [assumption|]. rewrite Hfb in Hp by lia. discriminate.
    + intros _. exact Hfp.
  - pose proof (first_from_none _ _ _ Hf) as Hfb. repeat split; try lia.
    intros x Hx Hp. destruct (Z.le_gt_cases minX x); [assumption|]. rewrite Hfb in Hp by lia. discriminate.
Qed.

Lemma scan_max P W maxX : maxX <= W ->
  let m := match last_from P (Z.to_nat (W - maxX)) (W - 1) with Some x => x + 1 | None => maxX end in
  maxX <= m <= W /\ (forall x, x < W -> P x = true -> x < m) /\ (maxX < m -> P (m - 1) = true).
Proof.
  intros Hm. cbn zeta. destruct (last_from P (Z.to_nat (W - maxX)) (W - 1)) as [lx|] eqn:Hl.
  - destruct (last_from_spec _ _ _ _ Hl) as (Hlr & Hlp & Hlb). repeat split; try lia.
    + intros x Hx Hp. destruct (Z.lt_ge_cases x (lx + 1)); [assumption|]. rewrite Hlb in Hp by lia. discriminate.
    + intros _. replace (lx + 1 - 1) with lx by lia. exact Hlp.
  - pose proof (last_from_none _ _ _ Hl) as Hlb. repeat split; try lia.
    intros x Hx Hp. destruct (Z.lt_ge_cases x maxX); [assumption|]. rewrite Hlb in Hp by lia. discriminate.
Qed.

Section Narrow.
  Variables (W : Z) (diff : Z -> Z -> bool).
  Hypothesis HW : 0 < W.

  (* state of the narrowing loop after the rows [ylo, y) *)
  Definition ninv (ylo y minX maxX : Z) : Prop :=
    0 <= minX <= W /\ 0 <= maxX <= W /\
    (forall x y', ylo <= y' < y -> 0 <= x < W -> diff x y' = true -> minX <= x < maxX) /\
    (minX < W -> exists y', ylo <= y' < y /\ diff minX y' = true) /\
    (0 < maxX -> exists y', ylo <= y' < y /\ diff (maxX - 1) y' = true).

  (* what the loop returns: the invariant over all rows, or the early exit *)
  Definition nfinal (ylo yhi minX maxX : Z) : Prop :=
    ninv ylo yhi minX maxX \/
    (minX = 0 /\ maxX = W /\ (exists y', ylo <= y' < yhi /\ diff 0 y' = true) /\
     (exists y', ylo <= y' < yhi /\ diff (W - 1) y' = true)).

  Lemma narrow_spec k : forall ylo y minX maxX mn mx,
    ylo <= y -> ninv ylo y minX maxX ->
    narrow W diff k y minX maxX = (mn, mx) ->
    nfinal ylo (y + Z.of_nat k) mn mx.
  Proof.
    induction k as [|k IH]; intros ylo y minX maxX mn mx Hy Hinv Hn.
    - cbn in Hn. injection Hn as <- <-. left. replace (y + Z.of_nat 0) with y by lia. exact Hinv.
    - cbn [narrow] in Hn.
      destruct Hinv as (Hmn & Hmx & Hcov & Hwmin & Hwmax).
      destruct (scan_min (fun x => diff x y) minX ltac:(lia)) as (F1 & F2 & F3).
      destruct (scan_max (fun x => diff x y) W maxX ltac:(lia)) as (G1 & G2 & G3).
      set (minX' := match first_from (fun x => diff x y) (Z.to_nat minX) 0 with
                    | Some x => x | None => minX end) in *.
      set (maxX' := match last_from (fun x => diff x y) (Z.to_nat (W - maxX)) (W - 1) with
                    | Some x => x + 1 | None => maxX end) in *.
      assert (Hinv' : ninv ylo (y + 1) minX' maxX').
      { split; [lia|]. split; [lia|]. split; [|split].
        - intros x y' Hy' Hx Hd. destruct (Z.eq_dec y' y) as [->|Hne].
          + pose proof (F2 x ltac:(lia) Hd). pose proof (G2 x ltac:(lia) Hd). lia.
          + pose proof (Hcov x y' ltac:(lia) Hx Hd). lia.
        - intros Hlt. destruct (Z.lt_ge_cases minX' minX) as [Hl|Hg].
          + exists y. split; [lia|]. apply F3. exact Hl.
          + assert (minX' = minX) by lia. destruct (Hwmin ltac:(lia)) as (y' & Hy' & Hd).
            exists y'. split; [lia|]. congruence.
        - intros Hpos. destruct (Z.lt_ge_cases maxX maxX') as [Hl|Hg].
          + exists y. split; [lia|]. apply G3. exact Hl.
          + assert (maxX' = maxX) by lia. destruct (Hwmax ltac:(lia)) as (y' & Hy' & Hd).
            exists y'. split; [lia|]. congruence. }
      destruct ((minX' =? 0) && (maxX' =? W)) eqn:Hex.
      + injection Hn as <- <-. right.
        destruct Hinv' as (_ & _ & _ & Hw1 & Hw2).
        assert (E1 : minX' = 0) by lia. assert (E2 : maxX' = W) by lia.
        split; [assumption|]. split; [assumption|]. split.
        * destruct (Hw1 ltac:(lia)) as (y' & Hy' & Hd). exists y'. split; [lia|]. rewrite <- E1. exact Hd.
        * destruct (Hw2 ltac:(lia)) as (y' & Hy' & Hd). exists y'. split; [lia|]. rewrite <- E2. exact Hd.
      + replace (y + Z.of_nat (S k)) with ((y + 1) + Z.of_nat k) by lia.
        apply (IH ylo (y + 1) minX' maxX'); [lia|exact Hinv'|exact Hn].
  Qed.
End Narrow.

Lemma col_diff_iff W a b y0 y1 x :
  col_diff W a b y0 y1 x = true <-> exists y, y0 <= y < y1 /\ px_diff W a b x y = true.
Proof.
  unfold col_diff. rewrite existsb_exists. split.
  - intros (y & Hy & Hd). apply zspan_In in Hy. eauto.
  - intros (y & Hy & Hd). exists y. split; [apply zspan_In; exact Hy|exact Hd].
Qed.

Lemma col_diff_false W a b y0 y1 x :
  (forall y, y0 <= y < y1 -> px_diff W a b x y = false) -> col_diff W a b y0 y1 x = false.
Proof.
  intros Hn. destruct (col_diff W a b y0 y1 x) eqn:Hc; [|reflexivity].
  apply col_diff_iff in Hc as (y & Hy & Hd). rewrite (Hn y Hy) in Hd. discriminate.
Qed.

Theorem find_changed_rect_loops_eq W H prev curr :
  0 <= W -> find_changed_rect_loops W H prev curr = find_changed_rect W H prev curr.
Proof.
  intros HW0. unfold find_changed_rect_loops, find_changed_rect.
  destruct (Z.eqb_spec W 0) as [|HWn]; [reflexivity|]. cbn [orb].
  destruct (H =? 0); [reflexivity|].
  assert (HW : 0 < W) by lia.
  destruct (first_from (row_diff W prev curr) (Z.to_nat H) 0) as [minY|] eqn:Hf; [|reflexivity].
  set (maxY := match last_from (row_diff W prev curr) (Z.to_nat (H - 1 - minY)) (H - 1) with
               | Some y => y + 1 | None => minY + 1 end).
  assert (HmY : minY < maxY).
  { unfold maxY. destruct (last_from _ _ _) as [ly|] eqn:Hl; [|lia].
    destruct (last_from_spec _ _ _ _ Hl) as (Hly & _ & _). lia. }
  set (diff := px_diff W prev curr).
  destruct (narrow W diff (Z.to_nat (maxY - minY)) minY W 0) as [mn mx] eqn:Hn.
  assert (Hi0 : ninv W diff minY minY W 0).
  { unfold ninv. split; [lia|]. split; [lia|]. split; [intros; lia|]. split; intros; lia. }
  pose proof (narrow_spec W diff HW _ minY minY W 0 mn mx (Z.le_refl _) Hi0 Hn) as Hfin.
  replace (minY + Z.of_nat (Z.to_nat (maxY - minY))) with maxY in Hfin by lia.
  destruct Hfin as [(Hmn & Hmx & Hcov & Hwmin & Hwmax)|(-> & -> & (ya & Hya & Hda) & (yb & Hyb & Hdb))].
  - destruct (Z.eq_dec mn W) as [->|HmnW].
    + (* no differing column at all *)
      assert (Hnone : forall x, 0 <= x < W -> col_diff W prev curr minY maxY x = false).
      { intros x Hx. apply col_diff_false. intros y Hy.
        destruct (px_diff W prev curr x y) eqn:Hd; [|reflexivity].
        pose proof (Hcov x y Hy Hx Hd). lia. }
      assert (mx = 0).
      { destruct (Z.eq_dec mx 0); [assumption|]. destruct (Hwmax ltac:(lia)) as (y' & Hy' & Hd).
        pose proof (Hcov (mx - 1) y' Hy' ltac:(lia) Hd). lia. }
      subst mx. rewrite (first_from_all_false (col_diff W prev curr minY maxY) (Z.to_nat W) 0)
        by (intros j Hj; apply Hnone; lia).
      destruct (Z.leb_spec 0 W); [reflexivity|lia].
    + destruct (Hwmin ltac:(lia)) as (y1 & Hy1 & Hd1).
      pose proof (Hcov mn y1 Hy1 ltac:(lia) Hd1) as Hmnmx.
      destruct (Hwmax ltac:(lia)) as (y2 & Hy2 & Hd2).
      rewrite (first_from_unique (col_diff W prev curr minY maxY) (Z.to_nat W) 0 mn); try lia.
      2:{ apply col_diff_iff. eauto. }
      2:{ intros j Hj. apply col_diff_false. intros y Hy.
          destruct (px_diff W prev curr j y) eqn:Hd; [|reflexivity].
          pose proof (Hcov j y Hy ltac:(lia) Hd). lia. }
      rewrite (last_from_unique (col_diff W prev curr minY maxY) (Z.to_nat W) (W - 1) (mx - 1)); try lia.
      2:{ apply col_diff_iff. eauto. }
      2:{ intros j Hj. apply col_diff_false. intros y Hy.
          destruct (px_diff W prev curr j y) eqn:Hd; [|reflexivity].
          pose proof (Hcov j y Hy ltac:(lia) Hd). lia. }
      replace (mx - 1 + 1) with mx by lia. reflexivity.
  - (* early exit: the full width *)
    rewrite (first_from_unique (col_diff W prev curr minY maxY) (Z.to_nat W) 0 0); try lia.
    2:{ apply col_diff_iff. eauto. }
    rewrite (last_from_unique (col_diff W prev curr minY maxY) (Z.to_nat W) (W - 1) (W - 1)); try lia.
    2:{ apply col_diff_iff. eauto. }
    replace (W - 1 + 1) with W by lia. reflexivity.
Qed.

(* ------------------------------------------------------------------ *)
(** * The pixel loops of the encoder that write a rectangle cell by cell

    clearKeptPixels (in place, conditional write), extractSubImage (row copies into a fresh
    picture) and the padding copy of addOptimizedFrame (copyImageRect into a fresh canvas)
    are nested loops in which iteration (x,y) reads and writes cell (x,y) only.  One generic
    theorem gives their pointwise meaning; the instances are proved equal to the definitions
    [clear_kept], [extract_sub] and [pad] of the model. *)
From Webp Require Import Anim.AnimDecProof Anim.AnimDecLoops.

(* body of the inner loop: an optional write of cell (x,y), computed from its current value *)
Definition cell_step (w h : Z) (g : Z -> Z -> px -> option px) (y x : Z) (c : canvas) : canvas :=
  match g x y (cget w c x y) with
  | Some p => cset w h c x y p
  | None => c
  end.

Definition write_loops (w h x0 x1 y0 y1 : Z) (g : Z -> Z -> px -> option px) (c : canvas) : canvas :=
  for_range y0 y1 (fun y c0 => for_range x0 x1 (cell_step w h g y) c0) c.

Definition cell_val (w : Z) (g : Z -> Z -> px -> option px) (c : canvas) (x y : Z) : px :=
  match g x y (cget w c x y) with Some p => p | None => cget w c x y end.

Lemma cell_step_length w h g y x c : length (cell_step w h g y x c) = length c.
Proof. unfold cell_step. destruct (g x y _); [apply cset_length|reflexivity]. Qed.

Lemma cget_cell_step w h g y x c x' y' :
  0 < w -> length c = Z.to_nat (w * h) -> 0 <= x < w -> 0 <= y < h -> 0 <= x' < w -> 0 <= y' < h ->
  cget w (cell_step w h g y x c) x' y' =
    if (x' =? x) && (y' =? y) then cell_val w g c x y else cget w c x' y'.
Proof.
  intros Hw Hl Hx Hy Hx' Hy'. unfold cell_step, cell_val.
  destruct (g x y (cget w c x y)) as [p|].
  - apply cget_cset; assumption.
  - destruct (Z.eqb_spec x' x) as [->|]; destruct (Z.eqb_spec y' y) as [->|]; reflexivity.
Qed.

Lemma inner_loop_spec w h g y : 0 < w -> 0 <= y < h ->
  forall n v c x' y', length c = Z.to_nat (w * h) -> 0 <= v -> v + Z.of_nat n <= w ->
    0 <= x' < w -> 0 <= y' < h ->
    cget w (loop n v (cell_step w h g y) c) x' y' =
      if (y' =? y) && (v <=? x') && (x' <? v + Z.of_nat n) then cell_val w g c x' y' else cget w c x' y'.
Proof.
  intros Hw Hy. induction n as [|n IH]; intros v c x' y' Hl Hv Hn Hx' Hy'.
  - cbn [loop]. destruct (Z.leb_spec v x'); destruct (Z.ltb_spec x' (v + Z.of_nat 0));
      rewrite ?andb_false_r; cbn [andb]; try reflexivity; lia.
  - cbn [loop]. rewrite IH by (rewrite ?cell_step_length; lia).
    unfold cell_val at 1. rewrite !cget_cell_step by (try assumption; lia).
    destruct (Z.eqb_spec y' y) as [->|Hne]; cbn [andb].
    2:{ rewrite andb_false_r. reflexivity. }
    destruct (Z.eqb_spec x' v) as [->|Hxv]; cbn [andb].
    + destruct (Z.leb_spec (v + 1) v); [lia|]. cbn [andb].
      destruct (Z.leb_spec v v); [|lia]. destruct (Z.ltb_spec v (v + Z.of_nat (S n))); [|lia].
      reflexivity.
    + destruct (Z.leb_spec (v + 1) x'); destruct (Z.leb_spec v x');
        destruct (Z.ltb_spec x' (v + 1 + Z.of_nat n)); destruct (Z.ltb_spec x' (v + Z.of_nat (S n)));
        cbn [andb]; try lia; reflexivity.
Qed.

Theorem write_loops_eq w h x0 x1 y0 y1 g c :
  0 < w -> 0 <= h -> length c = Z.to_nat (w * h) ->
  0 <= x0 -> x1 <= w -> 0 <= y0 -> y1 <= h ->
  write_loops w h x0 x1 y0 y1 g c =
    tab w h (fun x y => if (x0 <=? x) && (x <? x1) && (y0 <=? y) && (y <? y1)
                        then cell_val w g c x y else cget w c x y).
Proof.
  intros Hw Hh Hlen Bx0 Bx1 By0 By1. unfold write_loops.
  set (rowhit := fun (_ x : Z) => (x0 <=? x) && (x <? x1)).
  set (rowval := fun (_ : Z) (c0 : canvas) (x y : Z) => cell_val w g c0 x y).
  set (body := fun y c0 => for_range x0 x1 (cell_step w h g y) c0).
  assert (Hblen : forall y c0, length (body y c0) = length c0).
  { intros y c0. unfold body, for_range. apply loop_length. intros v c1. apply cell_step_length. }
  assert (Hrow : forall y c0 xx yy, 0 <= y < h -> length c0 = Z.to_nat (w * h) -> 0 <= xx < w -> 0 <= yy < h ->
     cget w (body y c0) xx yy = if (yy =? y) && rowhit y xx then rowval y c0 xx yy else cget w c0 xx yy).
  { intros y c0 xx yy Hy Hl0 Hxx Hyy. unfold body, for_range, rowhit, rowval.
    destruct (Z.le_gt_cases x1 x0).
    - replace (Z.to_nat (x1 - x0)) with O by lia. cbn [loop].
      destruct (Z.leb_spec x0 xx); destruct (Z.ltb_spec xx x1); try lia;
        rewrite ?andb_false_r; cbn [andb]; reflexivity.
    - rewrite (inner_loop_spec w h g y Hw Hy) by (try assumption; lia).
      rewrite Z2Nat.id by lia. replace (x0 + (x1 - x0)) with x1 by lia. rewrite andb_assoc. reflexivity. }
  assert (Hloc : forall y c0 c1 xx yy, cget w c0 xx yy = cget w c1 xx yy -> rowval y c0 xx yy = rowval y c1 xx yy).
  { intros y c0 c1 xx yy He. unfold rowval, cell_val. rewrite He. reflexivity. }
  destruct (Z.eq_dec h 0) as [->|Hh0].
  { (* no rows *)
    assert (Hc0 : c = []) by (destruct c; [reflexivity|rewrite Z.mul_0_r in Hlen; discriminate]).
    subst c. unfold for_range. replace (Z.to_nat (y1 - y0)) with O by lia. cbn [loop].
    unfold tab, zrange. rewrite Z.mul_0_r. reflexivity. }
  apply (canvas_ext w h); try lia.
  - destruct (rows_loop_spec w h rowval rowhit body y0 y1 c 0 0 ltac:(lia) Hlen By0 By1
               ltac:(lia) ltac:(lia) Hblen ltac:(intros; apply Hrow; try assumption; lia) Hloc) as [Hl _].
    rewrite Hl. exact Hlen.
  - apply tab_length.
  - intros x y Hx Hy.
    destruct (rows_loop_spec w h rowval rowhit body y0 y1 c x y ltac:(lia) Hlen By0 By1
               Hx Hy Hblen ltac:(intros; apply Hrow; try assumption; lia) Hloc) as [_ Hc].
    fold body. rewrite Hc, cget_tab by assumption. unfold rowhit, rowval.
    destruct (Z.leb_spec y0 y); destruct (Z.ltb_spec y y1);
    destruct (Z.leb_spec x0 x); destruct (Z.ltb_spec x x1); cbn [andb]; reflexivity.
Qed.

(* extractSubImage: a fresh w x h picture, rows copied from the canvas *)
Definition extract_sub_loops (W : Z) (c : canvas) (r : rect) : img :=
  let w := rx1 r - rx0 r in
  let h := ry1 r - ry0 r in
  if (w <=? 0) || (h <=? 0) then mkimg 1 1 [px0]
  else mkimg w h (write_loops w h 0 w 0 h
                    (fun x y _ => Some (cget W c (rx0 r + x) (ry0 r + y))) (blank w h)).

Theorem extract_sub_loops_eq W c r : extract_sub_loops W c r = extract_sub W c r.
Proof.
  unfold extract_sub_loops, extract_sub.
  destruct (Z.leb_spec (rx1 r - rx0 r) 0); [reflexivity|].
  destruct (Z.leb_spec (ry1 r - ry0 r) 0); [reflexivity|]. cbn [orb]. f_equal.
  rewrite write_loops_eq; try lia; [|apply tab_length].
  apply tab_ext; [lia|]. intros x y Hx Hy. unfold cell_val.
  destruct (Z.leb_spec 0 x); [|lia]. destruct (Z.ltb_spec x (rx1 r - rx0 r)); [|lia].
  destruct (Z.leb_spec 0 y); [|lia]. destruct (Z.ltb_spec y (ry1 r - ry0 r)); [|lia]. reflexivity.
Qed.

(* clearKeptPixels: in place on the sub-image, bounded by the picture and by the rectangle *)
Definition clear_kept_loops (W : Z) (sub : img) (base : canvas) (r : rect) : img :=
  mkimg (iw sub) (ih sub)
    (write_loops (iw sub) (ih sub) 0 (Z.min (iw sub) (rx1 r - rx0 r)) 0 (Z.min (ih sub) (ry1 r - ry0 r))
       (fun x y p =>
          if negb (pa p =? 255) && negb (pa p =? 0) && (pa p =? pa (cget W base (rx0 r + x) (ry0 r + y)))
          then Some px0 else None)
       (ipix sub)).

Theorem clear_kept_loops_eq W sub base r :
  0 < iw sub -> 0 <= ih sub -> length (ipix sub) = Z.to_nat (iw sub * ih sub) ->
  clear_kept_loops W sub base r = clear_kept W sub base r.
Proof.
  intros Hw Hh Hlen. unfold clear_kept_loops, clear_kept. f_equal.
  rewrite write_loops_eq; try lia.
  apply tab_ext; [lia|]. intros x y Hx Hy. unfold cell_val, iget.
  change (nth (Z.to_nat (y * iw sub + x)) (ipix sub) px0) with (cget (iw sub) (ipix sub) x y).
  set (p := cget (iw sub) (ipix sub) x y).
  destruct (Z.leb_spec 0 x); [|lia]. destruct (Z.leb_spec 0 y); [|lia].
  destruct (Z.ltb_spec x (Z.min (iw sub) (rx1 r - rx0 r))); destruct (Z.ltb_spec (rx0 r + x) (rx1 r)); try lia;
  destruct (Z.ltb_spec y (Z.min (ih sub) (ry1 r - ry0 r))); destruct (Z.ltb_spec (ry0 r + y) (ry1 r)); try lia;
    cbn [andb]; try reflexivity.
  destruct (negb (pa p =? 255) && negb (pa p =? 0) && (pa p =? pa (cget W base (rx0 r + x) (ry0 r + y))));
    reflexivity.
Qed.

(* the padding copy of addOptimizedFrame: copyImageRect onto a fresh transparent canvas *)
Definition pad_loops (W H : Z) (i : img) : canvas :=
  write_loops W H 0 (Z.min (iw i) W) 0 (Z.min (ih i) H) (fun x y _ => Some (iget i x y)) (blank W H).

Theorem pad_loops_eq W H i : 0 < W -> 0 <= H -> pad_loops W H i = pad W H i.
Proof.
  intros HW HH. unfold pad_loops, pad.
  rewrite write_loops_eq; try lia; [|apply tab_length].
  apply tab_ext; [lia|]. intros x y Hx Hy. unfold cell_val.
  destruct (Z.leb_spec 0 x); [|lia]. destruct (Z.leb_spec 0 y); [|lia].
  destruct (Z.ltb_spec x (Z.min (iw i) W)); destruct (Z.ltb_spec x (iw i)); try lia;
  destruct (Z.ltb_spec y (Z.min (ih i) H)); destruct (Z.ltb_spec y (ih i)); try lia;
    cbn [andb]; try reflexivity; unfold blank; rewrite cget_tab by lia; reflexivity.
Qed.
