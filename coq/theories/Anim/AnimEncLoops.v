(** findChangedRect as the code runs it: the column boundaries are found by a
    progressive narrowing loop over the changed rows (scan from the left only up to the
    current minX, from the right only down to the current maxX, early exit when the full
    width is reached), and the proof that this computes the declarative bounding box
    [find_changed_rect] of Anim/AnimEncModel.v the round-trip theorems are stated about. *)
From Coq Require Import List ZArith Lia Bool ZifyBool.
From Webp Require Import Anim.Blend Anim.Canvas Anim.AnimDec Anim.AnimEncModel Anim.AnimEncLemmas.
Import ListNotations.
Open Scope Z_scope.

(* for y := ..; k rows left: the two inner scans with their break, then the early exit *)
Fixpoint narrow (W : Z) (diff : Z -> Z -> bool) (k : nat) (y minX maxX : Z) : Z * Z :=
  match k with
  | O => (minX, maxX)
  | S k' =>
      let minX' := match first_from (fun x => diff x y) (Z.to_nat minX) 0 with
                   | Some x => x | None => minX end in
      let maxX' := match last_from (fun x => diff x y) (Z.to_nat (W - maxX)) (W - 1) with
                   | Some x => x + 1 | None => maxX end in
      if (minX' =? 0) && (maxX' =? W) then (minX', maxX')
      else narrow W diff k' (y + 1) minX' maxX'
  end.

Definition find_changed_rect_loops (W H : Z) (prev curr : canvas) : rect :=
  if (W =? 0) || (H =? 0) then rect0 else
  match first_from (row_diff W prev curr) (Z.to_nat H) 0 with
  | None => rect0
  | Some minY =>
      let maxY := match last_from (row_diff W prev curr) (Z.to_nat (H - 1 - minY)) (H - 1) with
                  | Some y => y + 1
                  | None => minY + 1
                  end in
      let '(minX, maxX) := narrow W (px_diff W prev curr) (Z.to_nat (maxY - minY)) minY W 0 in
      if maxX <=? minX then rect0 else go_rect minX minY maxX maxY
  end.

(* ------------------------------------------------------------------ *)

Lemma first_from_unique P k : forall i r,
  i <= r < i + Z.of_nat k -> P r = true -> (forall j, i <= j < r -> P j = false) ->
  first_from P k i = Some r.
Proof.
  induction k as [|k IH]; intros i r Hr Hp Hb; [lia|]. cbn [first_from].
  destruct (Z.eq_dec i r) as [->|Hne]; [rewrite Hp; reflexivity|].
  rewrite (Hb i) by lia. apply IH; [lia|exact Hp|]. intros j Hj. apply Hb. lia.
Qed.

Lemma first_from_all_false P k : forall i,
  (forall j, i <= j < i + Z.of_nat k -> P j = false) -> first_from P k i = None.
Proof.
  induction k as [|k IH]; intros i Hb; [reflexivity|]. cbn [first_from].
  rewrite (Hb i) by lia. apply IH. intros j Hj. apply Hb. lia.
Qed.

Lemma last_from_unique P k : forall i r,
  i - Z.of_nat k < r <= i -> P r = true -> (forall j, r < j <= i -> P j = false) ->
  last_from P k i = Some r.
Proof.
  induction k as [|k IH]; intros i r Hr Hp Hb; [lia|]. cbn [last_from].
  destruct (Z.eq_dec i r) as [->|Hne]; [rewrite Hp; reflexivity|].
  rewrite (Hb i) by lia. apply IH; [lia|exact Hp|]. intros j Hj. apply Hb. lia.
Qed.

Lemma last_from_all_false P k : forall i,
  (forall j, i - Z.of_nat k < j <= i -> P j = false) -> last_from P k i = None.
Proof.
  induction k as [|k IH]; intros i Hb; [reflexivity|]. cbn [last_from].
  rewrite (Hb i) by lia. apply IH. intros j Hj. apply Hb. lia.
Qed.

Lemma scan_min P minX : 0 <= minX ->
  let m := match first_from P (Z.to_nat minX) 0 with Some x => x | None => minX end in
  0 <= m <= minX /\ (forall x, 0 <= x -> P x = true -> m <= x) /\ (m < minX -> P m = true).
Proof.
  intros Hm. cbn zeta. destruct (first_from P (Z.to_nat minX) 0) as [fx|] eqn:Hf.
  - destruct (first_from_spec _ _ _ _ Hf) as (Hfr & Hfp & Hfb). repeat split; try lia.
    + intros x Hx Hp. destruct (Z.le_gt_cases fx x); [assumption|]. rewrite Hfb in Hp by lia. discriminate.
    + intros _. exact Hfp.
  - pose proof (first_from_none _ _ _ Hf) as Hfb. repeat split; try lia.
    intros x Hx Hp. destruct (Z.le_gt_cases minX x); [assumption|]. rewrite Hfb in Hp by lia. discriminate.
Qed.

Lemma scan_max P W maxX : maxX <= W ->
  let m := match last_from P (Z.to_nat (W - maxX)) (W - 1) with Some x => x + 1 | None => maxX end in
  maxX <= m <= W /\ (forall x, x < W -> P x = true -> x < m) /\ (maxX < m -> P (m - 1) = true).
Proof.
  intros Hm. cbn zeta. destruct (last_from P (Z.to_nat (W - maxX)) (W - 1)) as [lx|] eqn:Hl.
  - destruct (last_from_spec _ _ _ _ Hl) as (Hlr & Hlp & Hlb). repeat split; try lia.
    + intros x Hx Hp. destruct (Z.lt_ge_cases x (lx + 1)); [assumption|]. rewrite Hlb in Hp by lia. discriminate.
    + intros _. replace (lx + 1 - 1) with lx by lia. exact Hlp.
  - pose proof (last_from_none _ _ _ Hl) as Hlb. repeat split; try lia.
    intros x Hx Hp. destruct (Z.lt_ge_cases x maxX); [assumption|]. rewrite Hlb in Hp by lia. discriminate.
Qed.

Section Narrow.
  Variables (W : Z) (diff : Z -> Z -> bool).
  Hypothesis HW : 0 < W.

  (* state of the narrowing loop after the rows [ylo, y) *)
  Definition ninv (ylo y minX maxX : Z) : Prop :=
    0 <= minX <= W /\ 0 <= maxX <= W /\
    (forall x y', ylo <= y' < y -> 0 <= x < W -> diff x y' = true -> minX <= x < maxX) /\
    (minX < W -> exists y', ylo <= y' < y /\ diff minX y' = true) /\
    (0 < maxX -> exists y', ylo <= y' < y /\ diff (maxX - 1) y' = true).

  (* what the loop returns: the invariant over all rows, or the early exit *)
  Definition nfinal (ylo yhi minX maxX : Z) : Prop :=
    ninv ylo yhi minX maxX \/
    (minX = 0 /\ maxX = W /\ (exists y', ylo <= y' < yhi /\ diff 0 y' = true) /\
     (exists y', ylo <= y' < yhi /\ diff (W - 1) y' = true)).

  Lemma narrow_spec k : forall ylo y minX maxX mn mx,
    ylo <= y -> ninv ylo y minX maxX ->
    narrow W diff k y minX maxX = (mn, mx) ->
    nfinal ylo (y + Z.of_nat k) mn mx.
  Proof.
    induction k as [|k IH]; intros ylo y minX maxX mn mx Hy Hinv Hn.
    - cbn in Hn. injection Hn as <- <-. left. replace (y + Z.of_nat 0) with y by lia. exact Hinv.
    - cbn [narrow] in Hn.
      destruct Hinv as (Hmn & Hmx & Hcov & Hwmin & Hwmax).
      destruct (scan_min (fun x => diff x y) minX ltac:(lia)) as (F1 & F2 & F3).
      destruct (scan_max (fun x => diff x y) W maxX ltac:(lia)) as (G1 & G2 & G3).
      set (minX' := match first_from (fun x => diff x y) (Z.to_nat minX) 0 with
                    | Some x => x | None => minX end) in *.
      set (maxX' := match last_from (fun x => diff x y) (Z.to_nat (W - maxX)) (W - 1) with
                    | Some x => x + 1 | None => maxX end) in *.
      assert (Hinv' : ninv ylo (y + 1) minX' maxX').
      { split; [lia|]. split; [lia|]. split; [|split].
        - intros x y' Hy' Hx Hd. destruct (Z.eq_dec y' y) as [->|Hne].
          + pose proof (F2 x ltac:(lia) Hd). pose proof (G2 x ltac:(lia) Hd). lia.
          + pose proof (Hcov x y' ltac:(lia) Hx Hd). lia.
        - intros Hlt. destruct (Z.lt_ge_cases minX' minX) as [Hl|Hg].
          + exists y. split; [lia|]. apply F3. exact Hl.
          + assert (minX' = minX) by lia. destruct (Hwmin ltac:(lia)) as (y' & Hy' & Hd).
            exists y'. split; [lia|]. congruence.
        - intros Hpos. destruct (Z.lt_ge_cases maxX maxX') as [Hl|Hg].
          + exists y. split; [lia|]. apply G3. exact Hl.
          + assert (maxX' = maxX) by lia. destruct (Hwmax ltac:(lia)) as (y' & Hy' & Hd).
            exists y'. split; [lia|]. congruence. }
      destruct ((minX' =? 0) && (maxX' =? W)) eqn:Hex.
      + injection Hn as <- <-. right.
        destruct Hinv' as (_ & _ & _ & Hw1 & Hw2).
        assert (E1 : minX' = 0) by lia. assert (E2 : maxX' = W) by lia.
        split; [assumption|]. split; [assumption|]. split.
        * destruct (Hw1 ltac:(lia)) as (y' & Hy' & Hd). exists y'. split; [lia|]. rewrite <- E1. exact Hd.
        * destruct (Hw2 ltac:(lia)) as (y' & Hy' & Hd). exists y'. split; [lia|]. rewrite <- E2. exact Hd.
      + replace (y + Z.of_nat (S k)) with ((y + 1) + Z.of_nat k) by lia.
        apply (IH ylo (y + 1) minX' maxX'); [lia|exact Hinv'|exact Hn].
  Qed.
End Narrow.

Lemma col_diff_iff W a b y0 y1 x :
  col_diff W a b y0 y1 x = true <-> exists y, y0 <= y < y1 /\ px_diff W a b x y = true.
Proof.
  unfold col_diff. rewrite existsb_exists. split.
  - intros (y & Hy & Hd). apply zspan_In in Hy. eauto.
  - intros (y & Hy & Hd). exists y. split; [apply zspan_In; exact Hy|exact Hd].
Qed.

Lemma col_diff_false W a b y0 y1 x :
  (forall y, y0 <= y < y1 -> px_diff W a b x y = false) -> col_diff W a b y0 y1 x = false.
Proof.
  intros Hn. destruct (col_diff W a b y0 y1 x) eqn:Hc; [|reflexivity].
  apply col_diff_iff in Hc as (y & Hy & Hd). rewrite (Hn y Hy) in Hd. discriminate.
Qed.

Theorem find_changed_rect_loops_eq W H prev curr :
  0 <= W -> find_changed_rect_loops W H prev curr = find_changed_rect W H prev curr.
Proof.
  intros HW0. unfold find_changed_rect_loops, find_changed_rect.
  destruct (Z.eqb_spec W 0) as [|HWn]; [reflexivity|]. cbn [orb].
  destruct (H =? 0); [reflexivity|].
  assert (HW : 0 < W) by lia.
  destruct (first_from (row_diff W prev curr) (Z.to_nat H) 0) as [minY|] eqn:Hf; [|reflexivity].
  set (maxY := match last_from (row_diff W prev curr) (Z.to_nat (H - 1 - minY)) (H - 1) with
               | Some y => y + 1 | None => minY + 1 end).
  assert (HmY : minY < maxY).
  { unfold maxY. destruct (last_from _ _ _) as [ly|] eqn:Hl; [|lia].
    destruct (last_from_spec _ _ _ _ Hl) as (Hly & _ & _). lia. }
  set (diff := px_diff W prev curr).
  destruct (narrow W diff (Z.to_nat (maxY - minY)) minY W 0) as [mn mx] eqn:Hn.
  assert (Hi0 : ninv W diff minY minY W 0).
  { unfold ninv. split; [lia|]. split; [lia|]. split; [intros; lia|]. split; intros; lia. }
  pose proof (narrow_spec W diff HW _ minY minY W 0 mn mx (Z.le_refl _) Hi0 Hn) as Hfin.
  replace (minY + Z.of_nat (Z.to_nat (maxY - minY))) with maxY in Hfin by lia.
  destruct Hfin as [(Hmn & Hmx & Hcov & Hwmin & Hwmax)|(-> & -> & (ya & Hya & Hda) & (yb & Hyb & Hdb))].
  - destruct (Z.eq_dec mn W) as [->|HmnW].
    + (* no differing column at all *)
      assert (Hnone : forall x, 0 <= x < W -> col_diff W prev curr minY maxY x = false).
      { intros x Hx. apply col_diff_false. intros y Hy.
        destruct (px_diff W prev curr x y) eqn:Hd; [|reflexivity].
        pose proof (Hcov x y Hy Hx Hd). lia. }
      assert (mx = 0).
      { destruct (Z.eq_dec mx 0); [assumption|]. destruct (Hwmax ltac:(lia)) as (y' & Hy' & Hd).
        pose proof (Hcov (mx - 1) y' Hy' ltac:(lia) Hd). lia. }
      subst mx. rewrite (first_from_all_false (col_diff W prev curr minY maxY) (Z.to_nat W) 0)
        by (intros j Hj; apply Hnone; lia).
      destruct (Z.leb_spec 0 W); [reflexivity|lia].
    + destruct (Hwmin ltac:(lia)) as (y1 & Hy1 & Hd1).
      pose proof (Hcov mn y1 Hy1 ltac:(lia) Hd1) as Hmnmx.
      destruct (Hwmax ltac:(lia)) as (y2 & Hy2 & Hd2).
      rewrite (first_from_unique (col_diff W prev curr minY maxY) (Z.to_nat W) 0 mn); try lia.
      2:{ apply col_diff_iff. eauto. }
      2:{ intros j Hj. apply col_diff_false. intros y Hy.
          destruct (px_diff W prev curr j y) eqn:Hd; [|reflexivity].
          pose proof (Hcov j y Hy ltac:(lia) Hd). lia. }
      rewrite (last_from_unique (col_diff W prev curr minY maxY) (Z.to_nat W) (W - 1) (mx - 1)); try lia.
      2:{ apply col_diff_iff. eauto. }
      2:{ intros j Hj. apply col_diff_false. intros y Hy.
          destruct (px_diff W prev curr j y) eqn:Hd; [|reflexivity].
          pose proof (Hcov j y Hy ltac:(lia) Hd). lia. }
      replace (mx - 1 + 1) with mx by lia. reflexivity.
  - (* early exit: the full width *)
    rewrite (first_from_unique (col_diff W prev curr minY maxY) (Z.to_nat W) 0 0); try lia.
    2:{ apply col_diff_iff. eauto. }
    rewrite (last_from_unique (col_diff W prev curr minY maxY) (Z.to_nat W) (W - 1) (W - 1)); try lia.
    2:{ apply col_diff_iff. eauto. }
    replace (W - 1 + 1) with W by lia. reflexivity.
Qed.
