(** Histories of AnimDecoder calls: any interleaving of NextFrame and Reset.
    Every snapshot handed out equals the specification canvas of the frame
    index it was produced for; Reset replays identically (it is the initial
    state), and calling NextFrame past the end yields no picture. *)
From Coq Require Import List ZArith Lia Bool Arith.
From Webp Require Import Anim.Blend Anim.Canvas Anim.AnimDec Anim.AnimDecProof.
Import ListNotations.
Open Scope Z_scope.

Inductive op := ONext | OReset.

Record player := mkplayer { ppos : nat; pst : dstate }.

Definition pinit (W H : Z) : player := mkplayer 0 (dinit W H).

(* AnimDecoder.NextFrame / Reset on the implementation model. *)
Definition pstep (W H : Z) (fs : list frame) (p : player) (o : op) : player * option canvas :=
  match o with
  | OReset => (pinit W H, None)
  | ONext =>
      match nth_error fs (ppos p) with
      | None => (p, None)                                 (* ErrNoFrames *)
      | Some f =>
          let '(snap, st') := next_frame W H (Nat.eqb (ppos p) 0) f (pst p) in
          (mkplayer (S (ppos p)) st', Some snap)
      end
  end.

Fixpoint prun (W H : Z) (fs : list frame) (p : player) (ops : list op) : list (option canvas) :=
  match ops with
  | [] => []
  | o :: ops' => let '(p', out) := pstep W H fs p o in out :: prun W H fs p' ops'
  end.

(* The specification of a history: only the position matters. *)
Fixpoint srun (pics : list canvas) (pos : nat) (ops : list op) : list (option canvas) :=
  match ops with
  | [] => []
  | OReset :: ops' => None :: srun pics 0 ops'
  | ONext :: ops' =>
      match nth_error pics pos with
      | None => None :: srun pics pos ops'
      | Some c => Some c :: srun pics (S pos) ops'
      end
  end.

(* ------------------------------------------------------------------ *)

Definition sstate := (canvas * option (rect * bool))%type.

Definition spec_step (W H : Z) (s : sstate) (f : frame) : sstate :=
  let '(c, prev) := s in
  let c1 := match prev with Some (r, true) => fill W H c r | _ => c end in
  (composite W H c1 f, Some (true_rect f, fdispose_bg f)).

Definition spec_state (W H : Z) (fs : list frame) (k : nat) : sstate :=
  fold_left (spec_step W H) (firstn k fs) (blank W H, None).

Lemma spec_go_nth W H fs : forall c prev k f,
  nth_error fs k = Some f ->
  nth_error (spec_go W H c prev fs) k =
    Some (fst (spec_step W H (fold_left (spec_step W H) (firstn k fs) (c, prev)) f)).
Proof.
  induction fs as [|g fs IH]; intros c prev k f Hk; [destruct k; discriminate|].
  destruct k as [|k]; cbn [nth_error firstn fold_left spec_go] in *.
  - injection Hk as ->. reflexivity.
  - rewrite (IH _ _ k f Hk). reflexivity.
Qed.

Lemma spec_go_length W H fs : forall c prev, length (spec_go W H c prev fs) = length fs.
Proof. induction fs as [|g fs IH]; intros; cbn; [reflexivity|f_equal; apply IH]. Qed.

Lemma firstn_S_nth {A} (l : list A) k a : nth_error l k = Some a -> firstn (S k) l = firstn k l ++ [a].
Proof.
  revert k. induction l as [|b l IH]; intros k Hk; [destruct k; discriminate|].
  destruct k as [|k]; cbn in *; [injection Hk as ->; reflexivity|].
  f_equal. apply IH. exact Hk.
Qed.

Lemma spec_state_S W H fs k f : nth_error fs k = Some f ->
  spec_state W H fs (S k) = spec_step W H (spec_state W H fs k) f.
Proof.
  intros Hk. unfold spec_state. rewrite (firstn_S_nth fs k f Hk).
  rewrite fold_left_app. reflexivity.
Qed.

(** The relation between a player and the specification after [ppos] frames. *)
Definition pinv (W H : Z) (fs : list frame) (p : player) : Prop :=
  let s := spec_state W H fs (ppos p) in
  inv W H (pst p) (fst s) (snd s) /\ (ppos p = 0%nat <-> snd s = None).

Lemma pinv_init W H fs : wf_dims W H -> pinv W H fs (pinit W H).
Proof.
  intros Hd. unfold pinv, pinit, spec_state; cbn [ppos pst firstn fold_left fst snd].
  split; [|split; reflexivity].
  split; [apply wf_blank; destruct Hd; lia|]. cbn. repeat split; reflexivity.
Qed.

Lemma pstep_refines W H fs p o :
  wf_dims W H -> Forall wf_frame fs -> pinv W H fs p ->
  pinv W H fs (fst (pstep W H fs p o)) /\
  snd (pstep W H fs p o) =
    match o with
    | OReset => None
    | ONext => nth_error (spec_run W H fs) (ppos p)
    end /\
  ppos (fst (pstep W H fs p o)) =
    match o with
    | OReset => 0%nat
    | ONext => match nth_error fs (ppos p) with Some _ => S (ppos p) | None => ppos p end
    end.
Proof.
  intros Hd Hwf [Hinv Hz]. destruct o; cbn [pstep].
  - destruct (nth_error fs (ppos p)) as [f|] eqn:Hk.
    + assert (Hf : wf_frame f).
      { rewrite Forall_forall in Hwf. apply Hwf. eapply nth_error_In; exact Hk. }
      destruct (spec_state W H fs (ppos p)) as [c prev] eqn:Es. cbn [fst snd] in *.
      assert (Hfirst : (ppos p =? 0)%nat = true <-> prev = None).
      { rewrite Nat.eqb_eq. exact Hz. }
      destruct (step_refines W H _ f (pst p) c prev Hd Hf Hinv Hfirst) as [Hs Hi].
      destruct (next_frame W H (ppos p =? 0)%nat f (pst p)) as [snap st'] eqn:En.
      cbn [fst snd] in *. split; [|split; [|reflexivity]].
      * unfold pinv; cbn [ppos pst]. rewrite (spec_state_S W H fs _ f Hk), Es.
        cbn [spec_step fst snd]. split; [exact Hi|]. split; discriminate.
      * unfold spec_run. rewrite (spec_go_nth W H fs _ _ _ f Hk).
        fold (spec_state W H fs (ppos p)). rewrite Es. cbn [spec_step fst]. congruence.
    + cbn [fst snd]. split; [split; assumption|]. split; [|reflexivity].
      symmetry. apply nth_error_None. unfold spec_run. rewrite spec_go_length.
      apply nth_error_None. exact Hk.
  - cbn [fst snd]. split; [apply pinv_init; exact Hd|]. split; reflexivity.
Qed.

Theorem history_refines_spec W H fs ops :
  wf_dims W H -> Forall wf_frame fs ->
  prun W H fs (pinit W H) ops = srun (spec_run W H fs) 0 ops.
Proof.
  intros Hd Hwf.
  assert (G : forall l p, pinv W H fs p ->
              prun W H fs p l = srun (spec_run W H fs) (ppos p) l).
  { clear ops. intros l. induction l as [|o ops' IH]; intros p Hp; [reflexivity|].
    cbn [prun]. destruct (pstep_refines W H fs p o Hd Hwf Hp) as (Hp' & Hout & Hpos).
    destruct (pstep W H fs p o) as [p' out] eqn:Ep. cbn [fst snd] in *.
    rewrite (IH p' Hp'), Hout, Hpos. destruct o; cbn [srun].
    - destruct (nth_error fs (ppos p)) as [f|] eqn:Hk.
      + destruct (nth_error (spec_run W H fs) (ppos p)) as [c|] eqn:Hc; [reflexivity|].
        exfalso. apply nth_error_None in Hc. unfold spec_run in Hc. rewrite spec_go_length in Hc.
        assert (nth_error fs (ppos p) <> None) by congruence.
        apply nth_error_Some in H0. lia.
      + destruct (nth_error (spec_run W H fs) (ppos p)) as [c|] eqn:Hc; [|reflexivity].
        exfalso. assert (Hc' : nth_error (spec_run W H fs) (ppos p) <> None) by congruence.
        apply nth_error_Some in Hc'. unfold spec_run in Hc'. rewrite spec_go_length in Hc'.
        apply nth_error_None in Hk. lia.
    - reflexivity. }
  apply (G ops (pinit W H)). apply pinv_init. exact Hd.
Qed.

(** Never using the key-frame shortcut gives the same pictures: "treating some
    frames as key frames never changes a result". *)
Lemma nokey_refines W H fs : forall st c prev,
  wf_dims W H -> Forall wf_frame fs ->
  wf_canvas W H c ->
  prevd st = (match prev with Some (r, true) => fill W H c r | _ => c end) ->
  impl_go_nokey W H st fs = spec_go W H c prev fs.
Proof.
  induction fs as [|f fs IH]; intros st c prev Hd Hwf Hc Hp; [reflexivity|].
  inversion Hwf as [|? ? Hf Hwf']; subst. cbn [impl_go_nokey spec_go next_frame_nokey].
  pose proof Hd as (HW & HH & HA).
  set (c1 := match prev with Some (r, true) => fill W H c r | _ => c end) in *.
  assert (Hc1 : wf_canvas W H c1).
  { unfold c1. destruct prev as [[r []]|]; try exact Hc. apply wf_fill; [lia|exact Hc]. }
  rewrite Hp. rewrite (composite_impl_eq W H c1 f Hd Hf Hc1).
  f_equal. apply IH; try assumption.
  - apply wf_composite; [lia|exact Hc1|apply (wf_pix f Hf)].
  - cbn [prevd]. destruct (fdispose_bg f); [|reflexivity]. apply fill_impl_eq; assumption.
Qed.

Theorem keyframes_never_change_result W H fs :
  wf_dims W H -> Forall wf_frame fs ->
  impl_run W H fs = impl_go_nokey W H (dinit W H) fs.
Proof.
  intros Hd Hwf. rewrite (animdec_refines_spec W H fs Hd Hwf). unfold spec_run.
  symmetry. apply nokey_refines; try assumption; [|reflexivity].
  apply wf_blank. destruct Hd; lia.
Qed.

(** Non-vacuity: a concrete animation satisfying the hypotheses, on which the
    key-frame shortcut, dispose-to-background, blending and an overhanging
    rectangle all occur. *)
Example c09_example_frames : list frame :=
  [ mkframe 0 0 2 2 [mkpx 255 0 0 255; mkpx 0 255 0 255; mkpx 0 0 255 255; mkpx 9 9 9 255] false true false;
    mkframe 1 1 2 2 [mkpx 10 20 30 128; mkpx 1 2 3 0; mkpx 4 5 6 255; mkpx 7 8 9 1] false false true;
    mkframe (-1) 0 2 1 [mkpx 50 60 70 200; mkpx 80 90 100 77] false true true ].

Example c09_example_wf : wf_dims 2 2 /\ Forall wf_frame c09_example_frames.
Proof.
  split; [unfold wf_dims; cbn; lia|].
  repeat constructor; cbn; unfold int64, is_true; try lia;
    unfold wf_px; cbn; lia.
Qed.

Example c09_example_runs :
  impl_run 2 2 c09_example_frames = spec_run 2 2 c09_example_frames /\
  length (impl_run 2 2 c09_example_frames) = 3%nat.
Proof. vm_compute. split; reflexivity. Qed.
