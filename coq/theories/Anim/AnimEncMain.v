(** C08 and C18 as instances of [AnimEncProofs.generic_roundtrip]:
    C08 with the projection "colour under alpha 0 ignored" on lossless sessions,
    C18 with the projection "alpha channel only" on all four codec modes. *)
From Coq Require Import List ZArith Lia Bool ZifyBool.
From Webp Require Import Anim.Blend Anim.Canvas Anim.AnimDec Anim.AnimDecProof
  Anim.AnimEncModel Anim.AnimEncSpec Anim.AnimEncLemmas Anim.AnimEncProofs.
Import ListNotations.
Open Scope Z_scope.

Lemma new_encoder_facts W H o st0 : new_encoder W H o = Some st0 ->
  1 <= W /\ 1 <= H /\
  e_W st0 = W /\ e_H st0 = H /\ e_recs st0 = [] /\ e_fcount st0 = 0 /\ e_prev st0 = None /\
  eo_loop (e_opts st0) = clamp_loop (eo_loop o) /\ eo_lossless (e_opts st0) = eo_lossless o /\
  eo_mixed (e_opts st0) = eo_mixed o /\ eo_quality (e_opts st0) = eo_quality o.
Proof.
  unfold new_encoder.
  destruct ((W <=? 0) || (H <=? 0) || (max_canvas_dimension <? W) || (max_canvas_dimension <? H)) eqn:Hc;
    [discriminate|].
  destruct (sanitize_k (eo_kmin o) (eo_kmax o)) as [kmin kmax].
  intros [= <-]. cbn. repeat split; lia.
Qed.

Lemma clamp_loop_id v : 0 <= v <= max_loop_count -> clamp_loop v = v.
Proof.
  intros Hv. unfold clamp_loop. destruct (Z.ltb_spec v 0); [lia|].
  destruct (Z.ltb_spec max_loop_count v); lia.
Qed.

(* ------------------------------------------------------------------ *)
(* projection 1: colour under alpha 0 ignored                           *)

Lemma norm_eq_cases p q : norm_px p = norm_px q -> p = q \/ (pa p = 0 /\ pa q = 0).
Proof.
  unfold norm_px. destruct (Z.eqb_spec (pa p) 0) as [Hp|Hp], (Z.eqb_spec (pa q) 0) as [Hq|Hq]; intros He.
  - right; auto.
  - subst q. cbn in Hq. lia.
  - subst p. cbn in Hp. lia.
  - left; exact He.
Qed.

Lemma norm_zero p q : pa p = 0 -> pa q = 0 -> norm_px p = norm_px q.
Proof. intros Hp Hq. unfold norm_px. rewrite Hp, Hq. reflexivity. Qed.

Lemma norm_blend s s' d d' :
  norm_px s = norm_px s' -> norm_px d = norm_px d' ->
  norm_px (blend_spec s d) = norm_px (blend_spec s' d').
Proof.
  intros Hs Hd.
  destruct (norm_eq_cases _ _ Hs) as [->|[Hs0 Hs0']].
  - destruct (norm_eq_cases _ _ Hd) as [->|[Hd0 Hd0']]; [reflexivity|].
    unfold blend_spec. destruct (pa s' =? 0); [exact Hd|].
    rewrite Hd0, Hd0'. cbn [Z.eqb]. rewrite !orb_true_r. reflexivity.
  - rewrite (blend_src_transparent s d Hs0), (blend_src_transparent s' d' Hs0'). exact Hd.
Qed.

(* ------------------------------------------------------------------ *)
(* projection 2: the alpha channel                                      *)

Lemma alpha_only_eq p q : alpha_only p = alpha_only q <-> pa p = pa q.
Proof. unfold alpha_only. split; [intros [= H]; exact H|intros ->; reflexivity]. Qed.

Lemma alpha_blend s s' d d' :
  alpha_only s = alpha_only s' -> alpha_only d = alpha_only d' ->
  alpha_only (blend_spec s d) = alpha_only (blend_spec s' d').
Proof.
  rewrite !alpha_only_eq. intros Hs Hd. unfold blend_spec. rewrite <- Hs, <- Hd.
  destruct (pa s =? 0); [exact Hd|].
  destruct ((pa s =? 255) || (pa d =? 0)); [exact Hs|]. cbn [pa]. reflexivity.
Qed.

Lemma norm_eq_alpha p q : norm_px p = norm_px q -> pa p = pa q.
Proof. intros He. destruct (norm_eq_cases _ _ He) as [->|[H1 H2]]; lia. Qed.

Lemma map_pa_Forall2 l1 : forall l2, map pa l1 = map pa l2 ->
  Forall2 (fun p q => alpha_only p = alpha_only q) l1 l2.
Proof.
  induction l1 as [|p l1 IH]; intros [|q l2] He; cbn in He; try discriminate; constructor.
  - apply alpha_only_eq. injection He as He _. exact He.
  - apply IH. injection He as _ He. exact He.
Qed.

Lemma Forall2_weaken {A B} (P Q : A -> B -> Prop) l1 l2 :
  (forall a b, P a b -> Q a b) -> Forall2 P l1 l2 -> Forall2 Q l1 l2.
Proof. intros HPQ HF. induction HF; constructor; auto. Qed.

(* ------------------------------------------------------------------ *)
(* C08                                                                  *)

Theorem anim_lossless_roundtrip : anim_lossless_roundtrip_statement repaired.
Proof.
  intros rt_ll rt_ly W H opts frames oracle has_meta simple st0 out Hcodec Hdims (Hll & Hmx & Hloop) Hne Hwf Hnew Hclose.
  destruct (new_encoder_facts W H opts st0 Hnew)
    as (HW & HH & EW & EH & Erecs & Efc & Eprev & Eloop & Ell & Emx & Eq).
  rewrite <- (clamp_loop_id (eo_loop opts) Hloop), <- Eloop.
  unfold same_show.
  apply (generic_roundtrip norm_px norm_blend norm_zero rt_ll rt_ly repaired eq_refl eq_refl false)
    with (oracle := oracle) (has_meta := has_meta) (simple := simple) (st0 := st0); try assumption; try reflexivity;
    try (match goal with |- _ <= max_canvas_dimension => unfold wf_canvas_dims in Hdims; lia end).
  - (* the codec hypothesis on the frames that can occur: VP8L only *)
    intros via r Hwfi Hl. unfold decoded. destruct (m_lossy r); [specialize (Hl eq_refl); discriminate|].
    destruct (Hcodec (m_img r) Hwfi) as (Hw & Hh & HF). repeat split; assumption.
  - intros Habs. rewrite Ell, Hll in Habs. discriminate.
  - intros _. rewrite Ell, Emx. split; assumption.
Qed.

(* ------------------------------------------------------------------ *)
(* C18                                                                  *)

Theorem anim_alpha_preserved : anim_alpha_preserved_statement repaired.
Proof.
  intros rt_ll rt_ly W H opts frames oracle has_meta simple st0 out Hll Hly Hdims (Hq & Hloop) Hne Hwf Hnew Hclose.
  destruct (new_encoder_facts W H opts st0 Hnew)
    as (HW & HH & EW & EH & Erecs & Efc & Eprev & Eloop & Ell & Emx & Eq).
  rewrite <- (clamp_loop_id (eo_loop opts) Hloop), <- Eloop.
  apply (generic_roundtrip alpha_only alpha_blend) with (rt_ll := rt_ll) (rt_ly := rt_ly)
    (lossy_fine := true) (oracle := oracle) (has_meta := has_meta) (simple := simple) (st0 := st0);
    try assumption; try reflexivity;
    try (match goal with |- _ <= max_canvas_dimension => unfold wf_canvas_dims in Hdims; lia end).
  - intros p q Hp Hq'. apply alpha_only_eq. lia.
  - intros via r Hwfi _. unfold decoded. destruct (m_lossy r).
    + cbn [repaired fix_alph orb].
      destruct (Hly (m_img r) Hwfi) as (Hw & Hh & Hpa & _). repeat split; try assumption.
      apply map_pa_Forall2. exact Hpa.
    + destruct (Hll (m_img r) Hwfi) as (Hw & Hh & HF). repeat split; try assumption.
      eapply Forall2_weaken; [|exact HF]. intros a b Hab. apply alpha_only_eq. apply norm_eq_alpha. exact Hab.
  - intros _ md p t Hs. apply alpha_only_eq. unfold pixels_similar in Hs. lia.
  - discriminate.
Qed.

(* ------------------------------------------------------------------ *)
(* named lemmas of C18                                                  *)

Lemma similar_pixels_have_equal_alpha p t md : pixels_similar p t md = true -> pa p = pa t.
Proof. intros Hs. unfold pixels_similar in Hs. lia. Qed.

Lemma lossy_frame_carries_alph (rt_ll rt_ly : img -> img) via r :
  codec_alpha_exact rt_ly -> m_lossy r = true -> wf_img (m_img r) ->
  map pa (ipix (decoded rt_ll rt_ly repaired via r)) = map pa (ipix (m_img r)).
Proof.
  intros Hly Hl Hwf. unfold decoded. rewrite Hl. cbn [repaired fix_alph orb].
  destruct (Hly (m_img r) Hwf) as (_ & _ & Hpa & _). exact Hpa.
Qed.

(* mixed mode never drops alpha: whichever codec the oracle picks for a frame,
   the decoded frame has the alpha of the picture that was encoded *)
Lemma mixed_never_drops_alpha (rt_ll rt_ly : img -> img) via r :
  codec_lossless rt_ll -> codec_alpha_exact rt_ly -> wf_img (m_img r) ->
  map pa (ipix (decoded rt_ll rt_ly repaired via r)) = map pa (ipix (m_img r)).
Proof.
  intros Hll Hly Hwf. destruct (m_lossy r) eqn:Hl; [apply lossy_frame_carries_alph; assumption|].
  unfold decoded. rewrite Hl. destruct (Hll (m_img r) Hwf) as (_ & _ & HF).
  induction HF as [|a b l1 l2 Hab _ IH]; [reflexivity|]. cbn [map]. f_equal; [|exact IH].
  apply norm_eq_alpha. exact Hab.
Qed.

(* ------------------------------------------------------------------ *)
(* with failing AddFrame calls                                          *)

Theorem anim_error_roundtrip : anim_error_roundtrip_statement true.
Proof.
  intros rt_ll rt_ly W H opts frames oracle fails maxf has_meta simple st0 stf acc out
         Hcodec Hdims (Hll & Hmx & Hloop) Hwf Hnew Hrun Hclose.
  destruct (new_encoder_facts W H opts st0 Hnew)
    as (HW & HH & EW & EH & Erecs & Efc & Eprev & Eloop & Ell & Emx & Eq).
  rewrite <- (clamp_loop_id (eo_loop opts) Hloop), <- Eloop.
  unfold same_show.
  apply (generic_error_roundtrip norm_px norm_blend norm_zero rt_ll rt_ly repaired eq_refl eq_refl false)
    with (maxf := maxf) (oracle := oracle) (fails := fails) (has_meta := has_meta) (simple := simple)
         (st0 := st0) (frames := frames) (stf := stf); try assumption; try reflexivity;
    try (match goal with |- _ <= max_canvas_dimension => unfold wf_canvas_dims in Hdims; lia end).
  - intros via r Hwfi Hl. unfold decoded. destruct (m_lossy r); [specialize (Hl eq_refl); discriminate|].
    destruct (Hcodec (m_img r) Hwfi) as (Hw & Hh & HF). repeat split; assumption.
  - intros Habs. rewrite Ell, Hll in Habs. discriminate.
  - intros _. rewrite Ell, Emx. split; assumption.
Qed.

Theorem anim_error_alpha : anim_error_alpha_statement true.
Proof.
  intros rt_ll rt_ly W H opts frames oracle fails maxf has_meta simple st0 stf acc out
         Hll Hly Hdims (Hq & Hloop) Hwf Hnew Hrun Hclose.
  destruct (new_encoder_facts W H opts st0 Hnew)
    as (HW & HH & EW & EH & Erecs & Efc & Eprev & Eloop & Ell & Emx & Eq).
  rewrite <- (clamp_loop_id (eo_loop opts) Hloop), <- Eloop.
  apply (generic_error_roundtrip alpha_only alpha_blend) with (rt_ll := rt_ll) (rt_ly := rt_ly)
    (lossy_fine := true) (maxf := maxf) (oracle := oracle) (fails := fails) (has_meta := has_meta)
    (simple := simple) (st0 := st0) (frames := frames) (stf := stf);
    try assumption; try reflexivity;
    try (match goal with |- _ <= max_canvas_dimension => unfold wf_canvas_dims in Hdims; lia end).
  - intros p q Hp Hq'. apply alpha_only_eq. lia.
  - intros via r Hwfi _. unfold decoded. destruct (m_lossy r).
    + cbn [repaired fix_alph orb].
      destruct (Hly (m_img r) Hwfi) as (Hw & Hh & Hpa & _). repeat split; try assumption.
      apply map_pa_Forall2. exact Hpa.
    + destruct (Hll (m_img r) Hwfi) as (Hw & Hh & HF). repeat split; try assumption.
      eapply Forall2_weaken; [|exact HF]. intros a b Hab. apply alpha_only_eq. apply norm_eq_alpha. exact Hab.
  - intros _ md p t Hs. apply alpha_only_eq. unfold pixels_similar in Hs. lia.
  - discriminate.
Qed.

(* ------------------------------------------------------------------ *)
(* AddFrame mixed with pre-encoded frames                               *)

Lemma wf_ops_generic lossy_fine W H ops :
  Forall (AnimEncSpec.wf_op W H) ops -> Forall (AnimEncProofs.wf_op lossy_fine W H) ops.
Proof.
  intros HF. eapply Forall_impl; [|exact HF]. intros [f|r]; cbn; [auto|].
  intros (H1 & Hl & H3 & H4 & H5 & H6 & H7 & H8 & H9). unfold rec_ok.
  split; [exact H1|]. split; [rewrite Hl; discriminate|]. repeat split; try assumption; lia.
Qed.

Theorem anim_mixed_roundtrip : anim_mixed_roundtrip_statement true.
Proof.
  intros rt_ll rt_ly W H opts ops oracle fails maxf has_meta simple st0 stf acc out
         Hcodec Hdims (Hll & Hmx & Hloop) Hwf Hnew Hrun Hcanvas Hclose.
  destruct (new_encoder_facts W H opts st0 Hnew)
    as (HW & HH & EW & EH & Erecs & Efc & Eprev & Eloop & Ell & Emx & Eq).
  rewrite <- (clamp_loop_id (eo_loop opts) Hloop), <- Eloop.
  unfold same_show.
  apply (generic_mixed_roundtrip norm_px norm_blend norm_zero rt_ll rt_ly repaired eq_refl eq_refl false)
    with (maxf := maxf) (oracle := oracle) (fails := fails) (has_meta := has_meta) (simple := simple)
         (st0 := st0) (ops := ops) (stf := stf); try assumption; try reflexivity;
    try (match goal with |- _ <= max_canvas_dimension => unfold wf_canvas_dims in Hdims; lia end).
  - intros via r Hwfi Hl. unfold decoded. destruct (m_lossy r); [specialize (Hl eq_refl); discriminate|].
    destruct (Hcodec (m_img r) Hwfi) as (Hw & Hh & HF). repeat split; assumption.
  - intros Habs. rewrite Ell, Hll in Habs. discriminate.
  - intros _. rewrite Ell, Emx. split; assumption.
  - apply wf_ops_generic. exact Hwf.
  - exact (Hcanvas eq_refl).
Qed.

Theorem anim_mixed_alpha : anim_mixed_alpha_statement.
Proof.
  intros rt_ll rt_ly W H opts ops oracle fails maxf has_meta simple st0 stf acc out
         Hll Hly Hdims (Hq & Hloop) Hwf Hnew Hrun Hcanvas Hclose.
  destruct (new_encoder_facts W H opts st0 Hnew)
    as (HW & HH & EW & EH & Erecs & Efc & Eprev & Eloop & Ell & Emx & Eq).
  rewrite <- (clamp_loop_id (eo_loop opts) Hloop), <- Eloop.
  apply (generic_mixed_roundtrip alpha_only alpha_blend) with (rt_ll := rt_ll) (rt_ly := rt_ly)
    (lossy_fine := true) (maxf := maxf) (oracle := oracle) (fails := fails) (has_meta := has_meta)
    (simple := simple) (st0 := st0) (ops := ops) (stf := stf);
    try assumption; try reflexivity;
    try (match goal with |- _ <= max_canvas_dimension => unfold wf_canvas_dims in Hdims; lia end).
  - intros p q Hp Hq'. apply alpha_only_eq. lia.
  - intros via r Hwfi _. unfold decoded. destruct (m_lossy r).
    + cbn [repaired fix_alph orb].
      destruct (Hly (m_img r) Hwfi) as (Hw & Hh & Hpa & _). repeat split; try assumption.
      apply map_pa_Forall2. exact Hpa.
    + destruct (Hll (m_img r) Hwfi) as (Hw & Hh & HF). repeat split; try assumption.
      eapply Forall2_weaken; [|exact HF]. intros a b Hab. apply alpha_only_eq. apply norm_eq_alpha. exact Hab.
  - intros _ md p t Hs. apply alpha_only_eq. unfold pixels_similar in Hs. lia.
  - discriminate.
  - apply wf_ops_generic. exact Hwf.
Qed.
