(** Non-premultiplied "src over dst" blend arithmetic.
    [blend_impl] transcribes animation.alphaBlendNRGBA with its uint32 arithmetic
    (every product reduced mod 2^32, as Go's uint32 does); [blend_spec] is the
    reference formula (libwebp BlendPixelNonPremult) over unbounded integers. *)
From Coq Require Import List ZArith Lia Bool.
Import ListNotations.
Open Scope Z_scope.

Record px := mkpx { pr : Z; pg : Z; pb : Z; pa : Z }.

Definition px0 : px := mkpx 0 0 0 0.

Definition px_eqb (p q : px) : bool :=
  (pr p =? pr q) && (pg p =? pg q) && (pb p =? pb q) && (pa p =? pa q).

Definition wf_px (p : px) : Prop :=
  0 <= pr p <= 255 /\ 0 <= pg p <= 255 /\ 0 <= pb p <= 255 /\ 0 <= pa p <= 255.

Definition u32 (z : Z) : Z := z mod 2^32.

(* --- implementation model (uint32) --- *)
Definition dst_factor (srcA dstA : Z) : Z := u32 (u32 (dstA * u32 (256 - srcA)) / 2^8).

Definition chan_impl (sc dc srcA dfa scale : Z) : Z :=
  let v := u32 (u32 (u32 (sc * srcA) + u32 (dc * dfa)) * scale) / 2^24 in
  if 255 <? v then 255 else v.

Definition blend_impl (src dst : px) : px :=
  if pa src =? 0 then dst
  else if (pa src =? 255) || (pa dst =? 0) then src
  else
    let srcA := pa src in
    let dfa := dst_factor srcA (pa dst) in
    let blendA := u32 (srcA + dfa) in
    if blendA =? 0 then px0
    else
      let scale := (2^24) / blendA in
      mkpx (chan_impl (pr src) (pr dst) srcA dfa scale)
           (chan_impl (pg src) (pg dst) srcA dfa scale)
           (chan_impl (pb src) (pb dst) srcA dfa scale)
           (blendA mod 256).

(* --- reference (unbounded integers, no wrap, no clamp to uint8 on alpha) --- *)
Definition chan_spec (sc dc srcA dfa scale : Z) : Z :=
  Z.min 255 (((sc * srcA + dc * dfa) * scale) / 2^24).

Definition blend_spec (src dst : px) : px :=
  if pa src =? 0 then dst
  else if (pa src =? 255) || (pa dst =? 0) then src
  else
    let srcA := pa src in
    let dfa := (pa dst * (256 - srcA)) / 2^8 in
    let blendA := srcA + dfa in
    let scale := (2^24) / blendA in
    mkpx (chan_spec (pr src) (pr dst) srcA dfa scale)
         (chan_spec (pg src) (pg dst) srcA dfa scale)
         (chan_spec (pb src) (pb dst) srcA dfa scale)
         blendA.

(* ------------------------------------------------------------------ *)

Lemma u32_small z : 0 <= z < 2^32 -> u32 z = z.
Proof. intros H. unfold u32. apply Z.mod_small. exact H. Qed.

Lemma dfa_bounds sa da : 1 <= sa <= 254 -> 1 <= da <= 255 ->
  0 <= (da * (256 - sa)) / 2^8 <= 254 /\ sa + (da * (256 - sa)) / 2^8 <= 255.
Proof.
  intros Hs Hd.
  assert (0 <= da * (256 - sa)) by nia.
  assert (da * (256 - sa) <= 255 * (256 - sa)) by nia.
  assert (H8 : 2^8 = 256) by reflexivity. rewrite H8.
  assert (Hq : (da * (256 - sa)) / 256 <= (255 * (256 - sa)) / 256)
    by (apply Z.div_le_mono; lia).
  assert ((255 * (256 - sa)) / 256 < 256 - sa).
  { apply Z.div_lt_upper_bound; lia. }
  assert (0 <= (da * (256 - sa)) / 256) by (apply Z.div_pos; lia).
  lia.
Qed.

Lemma dst_factor_eq sa da : 1 <= sa <= 254 -> 1 <= da <= 255 ->
  dst_factor sa da = (da * (256 - sa)) / 2^8.
Proof.
  intros Hs Hd. unfold dst_factor.
  assert (Hb := dfa_bounds sa da Hs Hd).
  rewrite (u32_small (256 - sa)) by lia.
  assert (0 <= da * (256 - sa) < 2^32).
  { split; [nia|]. assert (da * (256 - sa) <= 255 * 255) by nia.
    change (2^32) with 4294967296. lia. }
  rewrite (u32_small (da * (256 - sa))) by assumption.
  apply u32_small. change (2^32) with 4294967296. lia.
Qed.

(** The 32-bit product never overflows: (sc*sa + dc*dfa) * scale < 2^32. *)
Lemma chan_no_overflow sc dc sa dfa :
  0 <= sc <= 255 -> 0 <= dc <= 255 -> 1 <= sa -> 0 <= dfa -> 1 <= sa + dfa <= 255 ->
  0 <= (sc * sa + dc * dfa) * ((2^24) / (sa + dfa)) < 2^32.
Proof.
  intros Hsc Hdc Hsa Hdfa Hb.
  set (b := sa + dfa) in *.
  assert (Hn : 0 <= sc * sa + dc * dfa <= 255 * b) by (unfold b; nia).
  assert (Hs : 0 <= 2^24 / b) by (apply Z.div_pos; lia).
  assert (Hs2 : b * (2^24 / b) <= 2^24) by (apply Z.mul_div_le; lia).
  split; [nia|].
  assert ((sc * sa + dc * dfa) * (2^24 / b) <= 255 * b * (2^24 / b)) by nia.
  assert (255 * b * (2^24 / b) <= 255 * 2^24) by nia.
  change (2^32) with 4294967296 in *. change (2^24) with 16777216 in *. lia.
Qed.

Lemma chan_impl_eq sc dc sa dfa :
  0 <= sc <= 255 -> 0 <= dc <= 255 -> 1 <= sa -> 0 <= dfa -> 1 <= sa + dfa <= 255 ->
  chan_impl sc dc sa dfa ((2^24) / (sa + dfa)) = chan_spec sc dc sa dfa ((2^24) / (sa + dfa)).
Proof.
  intros Hsc Hdc Hsa Hdfa Hb. unfold chan_impl, chan_spec.
  assert (Ho := chan_no_overflow sc dc sa dfa Hsc Hdc Hsa Hdfa Hb).
  assert (0 <= sc * sa < 2^32) by (change (2^32) with 4294967296; nia).
  assert (0 <= dc * dfa < 2^32) by (change (2^32) with 4294967296; nia).
  rewrite (u32_small (sc * sa)), (u32_small (dc * dfa)) by assumption.
  rewrite (u32_small (sc * sa + dc * dfa)) by (change (2^32) with 4294967296; nia).
  rewrite (u32_small _ Ho).
  set (v := (sc * sa + dc * dfa) * (2 ^ 24 / (sa + dfa)) / 2 ^ 24).
  destruct (Z.ltb_spec 255 v); lia.
Qed.

Theorem blend_impl_eq_spec src dst :
  wf_px src -> wf_px dst -> blend_impl src dst = blend_spec src dst.
Proof.
  intros (Hr & Hg & Hb & Ha) (Hr' & Hg' & Hb' & Ha').
  unfold blend_impl, blend_spec.
  destruct (Z.eqb_spec (pa src) 0) as [|Hn0]; [reflexivity|].
  destruct (Z.eqb_spec (pa src) 255) as [|Hn255]; [reflexivity|].
  destruct (Z.eqb_spec (pa dst) 0) as [|Hd0]; [reflexivity|].
  cbn [orb].
  assert (Hs : 1 <= pa src <= 254) by lia.
  assert (Hd : 1 <= pa dst <= 255) by lia.
  rewrite (dst_factor_eq _ _ Hs Hd).
  destruct (dfa_bounds _ _ Hs Hd) as [Hdf Hsum].
  set (dfa := pa dst * (256 - pa src) / 2 ^ 8) in *.
  rewrite (u32_small (pa src + dfa)) by (change (2^32) with 4294967296; lia).
  destruct (Z.eqb_spec (pa src + dfa) 0); [lia|].
  rewrite !chan_impl_eq by lia.
  rewrite (Z.mod_small (pa src + dfa)) by lia.
  reflexivity.
Qed.

Lemma chan_spec_bounds sc dc sa dfa s : 0 <= chan_spec sc dc sa dfa s \/ True.
Proof. right; exact I. Qed.

Theorem blend_spec_wf src dst : wf_px src -> wf_px dst -> wf_px (blend_spec src dst).
Proof.
  intros Hs Hd. pose proof Hs as (Hr & Hg & Hb & Ha). pose proof Hd as (Hr' & Hg' & Hb' & Ha').
  unfold blend_spec.
  destruct (Z.eqb_spec (pa src) 0) as [|Hn0]; [exact Hd|].
  destruct (Z.eqb_spec (pa src) 255) as [|Hn255]; [exact Hs|].
  destruct (Z.eqb_spec (pa dst) 0) as [|Hd0]; [exact Hs|].
  cbn [orb].
  assert (Hsa : 1 <= pa src <= 254) by lia.
  assert (Hda : 1 <= pa dst <= 255) by lia.
  destruct (dfa_bounds _ _ Hsa Hda) as [Hdf Hsum].
  set (dfa := pa dst * (256 - pa src) / 2 ^ 8) in *.
  assert (Hc : forall sc dc, 0 <= sc <= 255 -> 0 <= dc <= 255 ->
     0 <= chan_spec sc dc (pa src) dfa (2^24 / (pa src + dfa)) <= 255).
  { intros sc dc H1 H2. unfold chan_spec.
    assert (Ho := chan_no_overflow sc dc (pa src) dfa H1 H2 ltac:(lia) ltac:(lia) ltac:(lia)).
    assert (0 <= (sc * pa src + dc * dfa) * (2 ^ 24 / (pa src + dfa)) / 2 ^ 24)
      by (apply Z.div_pos; lia).
    lia. }
  unfold wf_px; cbn [pr pg pb pa].
  repeat split; try apply Hc; try lia.
Qed.

(** Boundary laws of the container specification. *)
Theorem blend_src_transparent src dst : pa src = 0 -> blend_spec src dst = dst.
Proof. intros H. unfold blend_spec. rewrite H. reflexivity. Qed.

Theorem blend_src_opaque src dst : pa src = 255 -> blend_spec src dst = src.
Proof. intros H. unfold blend_spec. rewrite H. reflexivity. Qed.

Theorem blend_dst_transparent src dst : pa dst = 0 -> blend_spec src dst = src \/ blend_spec src dst = dst.
Proof.
  intros H. unfold blend_spec. rewrite H.
  destruct (pa src =? 0); [right; reflexivity|].
  rewrite orb_true_r. left; reflexivity.
Qed.

Theorem blend_alpha_formula src dst :
  wf_px src -> wf_px dst -> pa src <> 0 -> pa src <> 255 -> pa dst <> 0 ->
  pa (blend_spec src dst) = pa src + (pa dst * (256 - pa src)) / 256.
Proof.
  intros _ _ H0 H255 Hd. unfold blend_spec.
  destruct (Z.eqb_spec (pa src) 0); [contradiction|].
  destruct (Z.eqb_spec (pa src) 255); [contradiction|].
  destruct (Z.eqb_spec (pa dst) 0); [contradiction|].
  reflexivity.
Qed.
